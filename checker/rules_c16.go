package main

// C16 — a per-field merge policy applies to exactly the named subtree.
// R16a twin options install the same constants; R16b a named key the handling tree does not
// mention cuts the tree (path rule on the function deriving the child's options); R16c the
// dictionary loop and the index loop ask for the options of the key/index being merged.

import (
	"fmt"
	"go/token"
	"go/types"
	"sort"
	"strings"

	"golang.org/x/tools/go/ssa"
)

func init() {
	register("C16", "Sibling agreement of the exported option pairs (XValues / FieldXValues install the same configHandling constant, read from the package initialiser; the constant flows unchanged into options.configValueHandling resp. the handling table), a path rule on fieldOptsOverride (every acyclic path that returns the incoming options unchanged while the handling tree is non-nil must have established tree == child, or that the hop is an array hop: idx >= 0 or name == \"*\"), and key identity at the two call sites (the key/index looked up in the handling tree is the key/index merged and stored). Decides that a policy named for one subtree cannot leak to a key of the same name at another depth; does not decide the merged values or wildcard semantics in full.", checkC16)
}

func checkC16(c *Ctx, r *Report) {
	defer treeClassificationRule(c, r)
	r.Assumption("the handling tree is a private Config built from map[string]configHandling without variable expansion (checked under C08 R08c)")
	_, consts := handlingEnum(c)
	constName := map[int64]string{}
	for _, k := range consts {
		constName[k.Val] = k.Name
	}

	r.Rule("R16a", "for each exported pair XValues / FieldXValues the configHandling constant installed is the same; the constant reaches options.configValueHandling resp. the handling table unchanged", 5)
	inst := installedHandling(c)
	pairs := 0
	for n, k := range inst {
		if !strings.HasPrefix(n, "Field") {
			continue
		}
		twin := strings.TrimPrefix(n, "Field")
		if tk, ok := inst[twin]; ok {
			pairs++
			r.Check(tk == k, "R16a", "ucfg.init", "twin "+twin, "-", fmt.Sprintf("%s and %s both install %s", twin, n, constName[k]), fmt.Sprintf("%s installs %s but its per-field twin %s installs %s", twin, constName[tk], n, constName[k]))
		} else if twin == "MergeValues" {
			mk := c.Const("", "cfgMergeValues")
			mv, _ := ConstInt(ssa.NewConst(mk.Val(), mk.Type()))
			pairs++
			r.Check(k == mv, "R16a", "ucfg.init", "twin "+twin, "-", "FieldMergeValues installs cfgMergeValues (dispatched like the default, see C01 R01a)", "FieldMergeValues installs "+constName[k]+" instead of cfgMergeValues")
		}
	}
	if pairs == 0 {
		r.Bad("R16a", "ucfg.init", "twins", "-", "no per-field option twins found in the package initialiser")
	}
	// flow of h inside the two makers
	mk := c.Func("", "makeOptValueHandling")
	{
		ok := false
		for _, fn := range WithAnon(mk) {
			Instrs(fn, false, func(in ssa.Instruction) {
				if st, isSt := in.(*ssa.Store); isSt {
					if _, f, okf := FieldOf(st.Addr); okf && f == "configValueHandling" {
						srcs := Sources(st.Val)
						if len(srcs) == 1 && srcs[0] == ssa.Value(mk.Params[0]) {
							ok = true
						}
					}
				}
			})
		}
		r.Check(ok, "R16a", c.FnName(mk), "h -> options.configValueHandling", c.Pos(mk.Pos()), "the option stores its constant into options.configValueHandling", "makeOptValueHandling does not store its argument into options.configValueHandling")
	}
	mkf := c.Func("", "makeFieldOptValueHandling")
	{
		ok := false
		mergeOK := false
		treeMerge := c.Method("", "fieldHandlingTree", "merge")
		for _, fn := range WithAnon(mkf) {
			Instrs(fn, false, func(in ssa.Instruction) {
				if mu, isMU := in.(*ssa.MapUpdate); isMU {
					srcs := Sources(mu.Value)
					if len(srcs) == 1 && srcs[0] == ssa.Value(mkf.Params[0]) {
						ok = true
					}
				}
			})
			for _, ci := range CallsTo(fn, treeMerge, false) {
				// merges the table into the options' handling tree
				for _, s := range Sources(ci.Common().Args[1]) {
					if _, isMap := s.Type().Underlying().(*types.Map); isMap {
						mergeOK = true
					}
				}
			}
		}
		r.Check(ok && mergeOK, "R16a", c.FnName(mkf), "h -> handling table", c.Pos(mkf.Pos()), "the option stores its constant in the table merged into options.fieldHandlingTree", "makeFieldOptValueHandling does not put its argument into the table merged into the handling tree")
	}

	// R16b
	r.Rule("R16b", "the function deriving a child's options never returns the incoming options unchanged for a named dictionary key unless the tree is nil or equals the child tree", 3)
	foo := deriveOptsFunc(c)
	name := c.FnName(foo)
	opts := foo.Params[0]
	var pName, pIdx *ssa.Parameter
	for _, p := range foo.Params[1:] {
		if b, ok := p.Type().Underlying().(*types.Basic); ok {
			if b.Kind() == types.String {
				pName = p
			} else if b.Info()&types.IsInteger != 0 {
				pIdx = p
			}
		}
	}
	if pName == nil || pIdx == nil {
		undecidedf("ANCHOR-MISSING: %s(opts, name string, idx int) signature not recognised", name)
	}
	isTree := func(v ssa.Value) bool {
		if !IsLoadOfField(v, "options", "fieldHandlingTree") {
			return false
		}
		p, ok := AccessPath(v)
		return ok && strings.HasPrefix(p, opts.Name()+".")
	}
	nUnchanged := 0
	reported := map[*ssa.Return]bool{}
	for _, ret := range Returns(foo) {
		if len(ret.Results) != 2 {
			continue
		}
		paths, ok := PathsTo(foo, ret.Block())
		if !ok {
			r.add("R16b", name, "paths", c.Pos(ret.Pos()), Undecided, true, "too many paths")
			continue
		}
		for _, p := range paths {
			v := ret.Results[0]
			if phi, isPhi := v.(*ssa.Phi); isPhi && phi.Block() == ret.Block() && len(p.Blocks) >= 2 {
				pred := p.Blocks[len(p.Blocks)-2]
				for i, pb := range ret.Block().Preds {
					if pb == pred {
						v = phi.Edges[i]
					}
				}
			}
			if v != ssa.Value(opts) {
				// new options or an error return. New options are built in this call: a copy of the incoming ones made
				// here (`newOpts := *opts`) that gets the tree looked up for this key. Options taken from anywhere else —
				// a memo kept in a field, a package variable — were derived for another key or another tree, and every
				// whole-value copy of the options carries such a memo along.
				if len(ret.Results) == 2 && nilness(RetVal(ret, 1), ret.Block(), 0) != 1 && !IsNilConst(v) {
					fresh := true
					for _, src := range Sources(v) {
						if src == ssa.Value(opts) {
							continue
						}
						if al, isAlloc := src.(*ssa.Alloc); !isAlloc || al.Parent() != foo {
							fresh = false
						}
					}
					key := "derived options built in this call"
					if !fresh && !reported[ret] {
						reported[ret] = true
						r.Bad("R16b", name, key, c.Pos(ret.Pos()), "the options returned for a key are neither the incoming ones nor a copy made in this call ("+describeVals(Sources(v))+"): options kept from an earlier lookup carry the tree and the policy of the place they were derived at")
					} else if fresh && !reported[ret] {
						reported[ret] = true
						r.OK("R16b", name, key, c.Pos(ret.Pos()), "the incoming options or a copy made in this call")
					}
				}
				continue
			}
			nUnchanged++
			treeNil, treeEqChild, arrayHop := false, false, false
			var conds []string
			for _, pc := range p.Conds {
				cm, ok := CmpOf(pc.V, pc.Truth)
				if !ok {
					conds = append(conds, fmt.Sprintf("%s=%v", pc.V.Name(), pc.Truth))
					continue
				}
				conds = append(conds, fmt.Sprintf("%s %s %s", cm.X.Name(), cm.Op, cm.Y.Name()))
				x, y := cm.X, cm.Y
				if isTree(y) {
					x, y = y, x
				}
				if isTree(x) && cm.Op == token.EQL {
					if IsNilConst(y) {
						treeNil = true
					} else {
						treeEqChild = true
					}
				}
				// array hop evidence
				if cm.X == ssa.Value(pIdx) {
					if k, ok := ConstInt(cm.Y); ok && ((cm.Op == token.GEQ && k >= 0) || (cm.Op == token.GTR && k >= -1)) {
						arrayHop = true
					}
				}
				if cm.Y == ssa.Value(pIdx) {
					if k, ok := ConstInt(cm.X); ok && ((cm.Op == token.LEQ && k >= 0) || (cm.Op == token.LSS && k >= -1)) {
						arrayHop = true
					}
				}
				if cm.Op == token.EQL && ((cm.X == ssa.Value(pName) && isStar(cm.Y)) || (cm.Y == ssa.Value(pName) && isStar(cm.X))) {
					arrayHop = true
				}
			}
			why := ""
			switch {
			case treeNil:
				why = "no handling tree"
			case treeEqChild:
				why = "tree == child (wildcard-only tree)"
			case arrayHop:
				why = "array hop (idx >= 0 or name == \"*\"), transparent by design"
			}
			r.Check(why != "", "R16b", name, "unchanged options on path", c.Pos(ret.Pos()), why+" ["+strings.Join(conds, " && ")+"]",
				"a named dictionary key that the handling tree does not mention keeps the parent's tree: a policy listed for one depth matches the same name deeper down (path: "+strings.Join(conds, " && ")+")")
		}
	}
	if nUnchanged == 0 {
		r.Trivial("R16b", name, "unchanged options on path", c.Pos(foo.Pos()), "no path returns the incoming options unchanged")
	}

	wildcardRule(c, r)
	optionPurityRule(c, r)
	// R16c
	r.Rule("R16c", "the dictionary loop asks for the options of (k, -1) with the key it stores under; the index loop asks for (\"\", i) with the index it stores at; the array dispatcher asks for (\"*\", -1)", 3)
	dict := c.Func("", "mergeConfigDict")
	setFn := c.Method("", "fields", "set")
	setAtFn := c.Method("", "fields", "setAt")
	for _, ci := range CallsTo(dict, foo, false) {
		a := ci.Common().Args
		k, isK := ConstInt(a[2])
		ok := isK && k == -1
		same := false
		for _, s := range CallsTo(dict, setFn, false) {
			if s.Common().Args[1] == a[1] {
				same = true
			}
		}
		r.Check(ok && same, "R16c", c.FnName(dict), "options of (k,-1)", c.Pos(ci.Pos()), "handling looked up for the key that is stored", "the dictionary loop looks up the handling of a key other than the one it merges, or not as a named key (idx -1)")
	}
	// R16g: the merge of a key runs with the answer of the lookup for that key, on every path
	r.Rule("R16g", "every call of mergeValues receives the options fieldOptsOverride returned (for the key or index being merged); the caller's own options reach it only where the handling tree was tested to be nil", 2)
	mv := c.Func("", "mergeValues")
	for _, fn := range c.SrcFuncs() {
		if fn.Pkg != c.SSA[""] || fn == mv {
			continue
		}
		for _, ci := range CallsTo(fn, mv, false) {
			var oa ssa.Value
			for _, a := range ci.Common().Args {
				if pt, isPtr := a.Type().(*types.Pointer); isPtr && isNamed(pt.Elem(), c.Pkgs[""].PkgPath, "options") {
					oa = a
				}
			}
			if oa == nil {
				r.add("R16g", c.FnName(fn), "options of mergeValues", c.Pos(ci.Pos()), Undecided, true, "mergeValues is called without an *options argument")
				continue
			}
			bad := ""
			var visit func(v ssa.Value, at, into *ssa.BasicBlock, depth int)
			seen := map[ssa.Value]bool{}
			visit = func(v ssa.Value, at, into *ssa.BasicBlock, depth int) {
				if seen[v] || depth > 8 {
					return
				}
				seen[v] = true
				switch x := v.(type) {
				case *ssa.Phi:
					for i, e := range x.Edges {
						visit(e, x.Block().Preds[i], x.Block(), depth+1)
					}
					return
				case *ssa.Extract:
					if call, ok := x.Tuple.(*ssa.Call); ok && x.Index == 0 && call.Call.StaticCallee() == foo {
						return
					}
				}
				// anything else: fine only where the tree is known to be nil
				conds := DomConds(at)
				if ifi, isIf := lastInstr(at).(*ssa.If); isIf && into != nil && len(at.Succs) == 2 && at.Succs[0] != at.Succs[1] {
					conds = append(append([]Cond{}, conds...), Cond{V: ifi.Cond, Truth: at.Succs[0] == into}) // the edge itself
				}
				for _, cd := range conds {
					tv, neq, ok := nilTest(cd.V)
					if ok && cd.Truth != neq && IsLoadOfField(tv, "options", "fieldHandlingTree") {
						return
					}
				}
				bad = describeVals([]ssa.Value{v})
			}
			visit(oa, ci.Block(), nil, 0)
			r.Check(bad == "", "R16g", c.FnName(fn), "options of mergeValues", c.Pos(ci.Pos()), "the result of fieldOptsOverride on every path",
				"a key is merged with options that did not come out of the handling-tree lookup for it ("+bad+"): on that path the per-field policy named for the key, and the cut of the tree for a key that is not named, are skipped")
		}
	}
	arrFn := c.Func("", "mergeConfigArr")
	for _, ci := range CallsTo(arrFn, foo, false) {
		a := ci.Common().Args
		s, isS := ConstString(a[1])
		k, isK := ConstInt(a[2])
		r.Check(isS && s == "*" && isK && k == -1, "R16c", c.FnName(arrFn), "options of (\"*\",-1)", c.Pos(ci.Pos()), "array hop looked up as \"*\"", "the array dispatcher does not look up the \"*\" hop")
	}
	for _, fn := range c.SrcFuncs() {
		if fn == dict || fn == arrFn || fn.Pkg != c.SSA[""] {
			continue
		}
		for _, ci := range CallsTo(fn, foo, false) {
			a := ci.Common().Args
			s, isS := ConstString(a[1])
			same := false
			for _, st := range CallsTo(fn, setAtFn, false) {
				if st.Common().Args[1] == a[2] {
					same = true
				}
			}
			r.Check(isS && s == "" && same, "R16c", c.FnName(fn), "options of (\"\",i)", c.Pos(ci.Pos()), "handling looked up for the index that is stored", "the index loop looks up the handling of an index other than the one it merges")
		}
	}
}

// wildcardRule (R16d): what includeWildcard hands down for a key is the key's own subtree plus the
// wildcard entry. The parent tree itself — which also holds the entries of sibling names — may be
// handed down only when it consists of the wildcard entry alone.
func wildcardRule(c *Ctx, r *Report) {
	r.Rule("R16d", "includeWildcard returns the parent tree itself only when the key has no subtree of its own and the parent holds exactly one entry (the wildcard); otherwise a fresh tree or the child's own", 1)
	fn := c.TryFunc("", "includeWildcard")
	if fn == nil || len(fn.Params) != 2 {
		r.add("R16d", "ucfg.includeWildcard", "anchor", "-", Undecided, true, "ANCHOR-MISSING: includeWildcard(child, parent)")
		return
	}
	child, parent := fn.Params[0], fn.Params[1]
	n := 0
	for _, ret := range Returns(fn) {
		isParent := false
		for _, s := range append(Sources(RetVal(ret, 0)), RetVal(ret, 0)) {
			if s == ssa.Value(parent) {
				isParent = true
			}
		}
		if !isParent {
			continue
		}
		n++
		childNil, single := false, false
		for _, cd := range DomConds(ret.Block()) {
			if isNilTestOf(cd, child, true) {
				childNil = true
			}
			if cm, ok := CmpOf(cd.V, cd.Truth); ok && cm.Op == token.EQL {
				if call, ok := cm.X.(*ssa.Call); ok && BuiltinName(call) == "len" {
					if k, ok := ConstInt(cm.Y); ok && k == 1 {
						form := newNFWith(c, parent, "parent").Of(call.Call.Args[0]).String()
						if strings.Contains(form, "$parent") && strings.Contains(form, ".d") {
							single = true
						}
					}
				}
			}
		}
		r.Check(childNil && single, "R16d", c.FnName(fn), "parent tree handed down", c.Pos(ret.Pos()), "only under child == nil && len(parent dictionary) == 1",
			"the parent's whole handling tree is handed down to a key it does not mention although it holds more than the wildcard: per-field policies of sibling names apply again at deeper levels (a setting that merely shares the name is merged with the wrong policy)")
	}
	if n == 0 {
		r.Trivial("R16d", c.FnName(fn), "parent tree handed down", c.Pos(fn.Pos()), "the parent tree is never handed down as it is")
	}
}

func isStar(v ssa.Value) bool {
	s, ok := ConstString(v)
	return ok && s == "*"
}

// deriveOptsFunc finds the function that derives the options of a child: returns *options first
// and reads fieldHandlingTree of its *options parameter. Exactly one such function must exist
// among those with signature (*options, string, int).
func deriveOptsFunc(c *Ctx) *ssa.Function {
	var found []*ssa.Function
	for _, fn := range c.SrcFuncs() {
		if fn.Pkg != c.SSA[""] || fn.Parent() != nil || len(fn.Params) != 3 {
			continue
		}
		sig := fn.Signature
		if sig.Results().Len() != 2 || !isNamed(sig.Results().At(0).Type(), modPath, "options") || !isNamed(fn.Params[0].Type(), modPath, "options") {
			continue
		}
		reads := false
		Instrs(fn, false, func(in ssa.Instruction) {
			if fa, ok := in.(*ssa.FieldAddr); ok && fa.X == ssa.Value(fn.Params[0]) {
				if _, f, ok := FieldOf(fa); ok && f == "fieldHandlingTree" {
					reads = true
				}
			}
		})
		if reads {
			found = append(found, fn)
		}
	}
	if len(found) != 1 {
		undecidedf("ANCHOR-MISSING: expected exactly one function deriving child options from the handling tree, found %d", len(found))
	}
	return found[0]
}

// optionPurityRule (R16e): an Option value is applied many times (it may be kept in a variable and handed
// to several Merge/Unpack calls, also concurrently). Applying it must depend on the option's construction
// arguments and on the options it is applied to only: the function literals behind Option values (and the
// literals they call) never write a captured variable, a field or element of one, or a captured map.
// A memo kept in the closure makes one application see what an earlier one left behind.
func optionPurityRule(c *Ctx, r *Report) {
	r.Rule("R16e", "applying an Option writes no captured state: function literals of type Option (and the literals they call) do not assign captured variables, their fields or elements, or captured maps", 6)
	optT := c.Named("", "Option")
	root := c.SSA[""]
	// Option-typed literals
	var lits []*ssa.Function
	for _, fn := range c.SrcFuncs() {
		if fn.Pkg != root || fn.Parent() == nil {
			continue
		}
		isOpt := false
		// the literal is converted/assigned to Option somewhere in its parent: look at the MakeClosure / function value uses
		for _, b := range fn.Parent().Blocks {
			for _, in := range b.Instrs {
				var fv ssa.Value
				switch x := in.(type) {
				case *ssa.MakeClosure:
					if x.Fn == ssa.Value(fn) {
						fv = x
					}
				case *ssa.ChangeType:
					if x.X == ssa.Value(fn) {
						fv = x
					}
				}
				if fv == nil {
					continue
				}
				if types.Identical(fv.Type(), optT) {
					isOpt = true
				}
				if refs := fv.Referrers(); refs != nil {
					for _, ref := range *refs {
						if ct, ok := ref.(*ssa.ChangeType); ok && types.Identical(ct.Type(), optT) {
							isOpt = true
						}
						if ret, ok := ref.(*ssa.Return); ok {
							_ = ret
							if res := fn.Parent().Signature.Results(); res.Len() == 1 && types.Identical(res.At(0).Type(), optT) {
								isOpt = true
							}
						}
					}
				}
			}
		}
		// a literal with the Option signature returned from a function whose result is Option
		if !isOpt && fn.Signature.Params().Len() == 1 && fn.Signature.Results().Len() == 0 {
			if res := fn.Parent().Signature.Results(); res.Len() == 1 && types.Identical(res.At(0).Type(), optT) && types.Identical(fn.Signature, optT.Underlying()) {
				isOpt = true
			}
		}
		if isOpt {
			lits = append(lits, fn)
		}
	}
	// plus the literals they call (closures bound in the constructor)
	seen := map[*ssa.Function]bool{}
	var work []*ssa.Function
	for _, f := range lits {
		seen[f] = true
		work = append(work, f)
	}
	for len(work) > 0 {
		f := work[len(work)-1]
		work = work[:len(work)-1]
		for _, ci := range CallsIn(f, false) {
			for _, g := range c.Callees(ci) {
				if g.Parent() != nil && g.Pkg == root && !seen[g] {
					seen[g] = true
					work = append(work, g)
				}
			}
		}
	}
	var all []*ssa.Function
	for f := range seen {
		all = append(all, f)
	}
	sort.Slice(all, func(i, j int) bool { return c.FnName(all[i]) < c.FnName(all[j]) })
	capturedRoot := func(addr ssa.Value) *ssa.FreeVar {
		for i := 0; i < 8; i++ {
			switch x := addr.(type) {
			case *ssa.FreeVar:
				return x
			case *ssa.FieldAddr:
				addr = x.X
			case *ssa.IndexAddr:
				addr = x.X
			default:
				return nil
			}
		}
		return nil
	}
	for _, f := range all {
		name := c.FnName(f)
		bad := ""
		var pos token.Pos
		Instrs(f, false, func(in ssa.Instruction) {
			switch x := in.(type) {
			case *ssa.Store:
				if fv := capturedRoot(x.Addr); fv != nil {
					bad, pos = "assigns the captured variable "+fv.Name(), x.Pos()
				}
				// the handling tree installed into the options is written by the options that follow in the same list:
				// it must not be an object the Option value holds on to
				if nt, fld, ok := FieldOf(x.Addr); ok && nt.Obj().Name() == "options" && fld == "fieldHandlingTree" {
					for _, s := range Sources(x.Val) {
						if l, ok := s.(*ssa.UnOp); ok && l.Op == token.MUL {
							if fv, ok := l.X.(*ssa.FreeVar); ok {
								bad, pos = "installs the captured handling tree "+fv.Name()+" into the options (later options of the list merge into it)", x.Pos()
							}
						}
						if fv, ok := s.(*ssa.FreeVar); ok {
							bad, pos = "installs the captured handling tree "+fv.Name()+" into the options (later options of the list merge into it)", x.Pos()
						}
					}
				}
			case *ssa.MapUpdate:
				for _, s := range Sources(x.Map) {
					if l, ok := s.(*ssa.UnOp); ok && l.Op == token.MUL {
						if fv, ok := l.X.(*ssa.FreeVar); ok {
							bad, pos = "writes the captured map "+fv.Name(), x.Pos()
						}
					}
					if fv, ok := s.(*ssa.FreeVar); ok {
						bad, pos = "writes the captured map "+fv.Name(), x.Pos()
					}
				}
			}
		})
		if pos == token.NoPos {
			pos = f.Pos()
		}
		r.Check(bad == "", "R16e", name, "no write of captured state", c.Pos(pos), "the option's application writes only through its *options parameter and fresh objects",
			"applying this Option "+bad+": the Option value keeps state between applications, so a later Merge/Unpack with the same Option value sees what an earlier option list left behind (per-field policies leak to other calls)")
	}
}

// treeClassificationRule (R16f): the per-field handling tree is itself a Config. Its writer (the Field*Values option,
// which merges dotted field names into it) and its readers (child / configHandling / wildcard, which address it with
// the (name, idx) pairs of the merge in progress) must classify a numeric path component the same way — as a list
// index or as a name. The readers use the library's defaults; a writer that parses the names under the caller's
// MaxIdx or EnableNumKeys stores "404" as a name where the reader looks for index 404 (or the other way round), and
// the policy is silently not applied below that component.
func treeClassificationRule(c *Ctx, r *Report) {
	r.Rule("R16f", "the writer and the readers of the per-field handling tree use the same index classification options (MaxIdx, EnableNumKeys): today none on either side", 1)
	classification := map[string]bool{"MaxIdx": true, "EnableNumKeys": true}
	collect := func(fns []*ssa.Function) map[string]bool {
		out := map[string]bool{}
		for _, fn := range fns {
			for _, ci := range CallsIn(fn, false) {
				if g := ci.Common().StaticCallee(); g != nil && g.Pkg == c.SSA[""] && classification[g.Name()] {
					out[g.Name()] = true
				}
			}
		}
		return out
	}
	var writers, readers []*ssa.Function
	if f := c.TryFunc("", "makeFieldOptValueHandling"); f != nil {
		writers = append(writers, WithAnon(f)...)
	}
	treeT := types.NewPointer(c.Named("", "fieldHandlingTree"))
	ms := c.SSA[""].Prog.MethodSets.MethodSet(treeT)
	for i := 0; i < ms.Len(); i++ {
		f := c.SSA[""].Prog.MethodValue(ms.At(i))
		if f == nil {
			continue
		}
		f = declared(c, f)
		if f.Name() == "merge" {
			writers = append(writers, WithAnon(f)...)
		} else {
			readers = append(readers, WithAnon(f)...)
		}
	}
	if len(writers) == 0 || len(readers) == 0 {
		r.add("R16f", "ucfg.fieldHandlingTree", "same classification", "-", Undecided, true, "writer or readers of the handling tree not found")
		return
	}
	w, rd := collect(writers), collect(readers)
	same := len(w) == len(rd)
	for k := range w {
		if !rd[k] {
			same = false
		}
	}
	r.Check(same, "R16f", "ucfg.fieldHandlingTree", "same classification", "-", "writer: ["+strings.Join(sortedKeys(w), ",")+"] readers: ["+strings.Join(sortedKeys(rd), ",")+"]",
		"the handling tree is written under ["+strings.Join(sortedKeys(w), ",")+"] and read under ["+strings.Join(sortedKeys(rd), ",")+"]: a numeric component of a Field*Values path is a list index for one side and a name for the other whenever the caller's MaxIdx / EnableNumKeys differ from the defaults — the named subtree is then merged under the global policy")
}
