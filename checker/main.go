package main

// ucfgcheck decides the go-ucfg properties of /verif/properties.jsonl by static analysis of
// /repo's current working tree. One sub-command per property: ucfgcheck -prop C11 -tier quick.
// Exit 0: held (modulo known findings); 1: violation (VIOLATION line); 2: could not decide.

import (
	"flag"
	"fmt"
	"os"
	"runtime/debug"
	"sort"
	"strconv"
	"strings"
	"time"
)

type propCheck struct {
	id      string
	explain string
	run     func(c *Ctx, r *Report)
}

var props = map[string]*propCheck{}

func register(id, explain string, run func(c *Ctx, r *Report)) {
	props[id] = &propCheck{id, explain, run}
}

func main() {
	prop := flag.String("prop", "", "property id (C01..C20) or 'all'")
	tier := flag.String("tier", "quick", "quick | thorough")
	repo := flag.String("repo", envOr("UCFG_REPO", "/repo"), "repository to analyse")
	verif := flag.String("verif", envOr("UCFG_VERIF", "/verif"), "verification directory (evidence, known findings)")
	only := flag.String("only", "", "print only obligations whose key contains this string")
	list := flag.Bool("list", false, "print every obligation")
	noControls := flag.Bool("nocontrols", false, "skip the self-test overlays")
	e1dump := flag.String("e1dump", "", "debug: print E1 summaries of functions whose name contains this string")
	writeBaseline := flag.Bool("write-baseline", false, "print the function list of the repository (checker/baseline_funcs.txt)")
	baselineFile := flag.String("baseline", "", "evaluation of old patches only: function list of the commit a patch was written for, instead of the built-in one (tools/ref_eval.sh)")
	flag.Parse()
	if *baselineFile != "" {
		txt, err := os.ReadFile(*baselineFile)
		if err != nil || len(txt) == 0 {
			fmt.Println("UNDECIDED cannot read -baseline", *baselineFile)
			os.Exit(2)
		}
		baselineFuncs = parseBaseline(string(txt))
	}
	if *writeBaseline {
		WriteBaseline(*repo)
		return
	}
	if *e1dump != "" {
		c := Load(*repo, "", nil)
		e := NewE1(c)
		e.Run()
		for _, fn := range e.order {
			if strings.Contains(c.FnName(fn), *e1dump) {
				e.Dump(fn)
				if os.Getenv("E1PTS") != "" {
					e.DumpPts(fn)
				}
			}
		}
		fmt.Println("external:", e.External)
		fmt.Println("unresolved:", e.Unres)
		return
	}
	if t := os.Getenv("VERIF_TIER"); t != "" && !flagSet("tier") {
		*tier = t
	}
	seed := 0
	if s, err := strconv.Atoi(os.Getenv("VERIF_SEED")); err == nil {
		seed = s
	}
	if *prop == "" {
		fmt.Fprintln(os.Stderr, "usage: ucfgcheck -prop Cnn [-tier quick|thorough]")
		os.Exit(2)
	}
	var ids []string
	if *prop == "all" {
		for id := range props {
			ids = append(ids, id)
		}
		sort.Strings(ids)
	} else {
		ids = strings.Split(*prop, ",")
	}
	exit := 0
	var ctx *Ctx
	for _, id := range ids {
		pc := props[id]
		if pc == nil {
			fmt.Fprintf(os.Stderr, "no checker for property %q\n", id)
			os.Exit(2)
		}
		e := runOne(pc, &ctx, *repo, *verif, *tier, seed, *only, *list, *noControls)
		if e > exit {
			exit = e
		}
	}
	os.Exit(exit)
}

func flagSet(name string) bool {
	found := false
	flag.Visit(func(f *flag.Flag) {
		if f.Name == name {
			found = true
		}
	})
	return found
}

func envOr(k, d string) string {
	if v := os.Getenv(k); v != "" {
		return v
	}
	return d
}

func runOne(pc *propCheck, ctxp **Ctx, repo, verif, tier string, seed int, only string, list, noControls bool) (exit int) {
	start := time.Now()
	r := NewReport(pc.id, tier)
	defer func() {
		if p := recover(); p != nil {
			msg := ""
			if u, ok := p.(undecided); ok {
				msg = u.msg
			} else {
				msg = fmt.Sprintf("internal panic: %v\n%s", p, debug.Stack())
			}
			fmt.Printf("UNDECIDED property=%s %s\n", pc.id, msg)
			// still leave an evidence file that says what happened
			r.Note("run aborted: %s", msg)
			r.Finish(*ctxp, verif, start, pc.explain+" [RUN ABORTED: "+msg+"]", seed)
			exit = 2
		}
	}()
	if *ctxp == nil {
		*ctxp = Load(repo, "", nil)
	}
	c := *ctxp
	if c.Norm != nil {
		for _, s := range c.Norm.Renamed {
			r.Note("normalisation: renamed function (body identical to the baseline's) analysed under its baseline name: %s", s)
		}
		for _, s := range c.Norm.Inlined {
			r.Note("normalisation: new helper inlined into its callers before the analysis: %s; positions refer to the tree after inlining", s)
		}
		for _, s := range c.Norm.Kept {
			r.Note("normalisation: new function analysed as it stands: %s", s)
		}
	}
	pc.run(c, r)
	if !noControls {
		runControls(c, r, pc, tier)
	}
	if tier == "thorough" {
		runThoroughExtras(c, r, pc)
	}
	if list || only != "" {
		for _, o := range r.Obs {
			if only == "" || strings.Contains(o.Key, only) {
				fmt.Printf("%-10s %s @%s :: %s\n", o.Status, o.Key, o.Pos, o.Fact)
			}
		}
	}
	return r.Finish(c, verif, start, pc.explain, seed)
}
