package main

// C18 — YAML, JSON and HJSON front-ends agree and record where settings came from.
// R18a: the three front-ends are structurally identical siblings (decode into a local
// interface{}, return the decoder error, delegate to ucfg.NewFrom with the caller's options
// unchanged; file loaders read the named file, prepend MetaData(Meta{Source: name}) to the
// options and delegate to NewConfig of the same package).
// R18b: the source name reaches options.meta, every normalized value is built with opts.meta,
// and every error constructor that receives metadata passes it on to messageMeta.

import (
	"fmt"
	"go/token"
	"go/types"
	"strings"

	"golang.org/x/tools/go/ssa"
)

func init() {
	register("C18", "Sibling-shape comparison of yaml/json/hjson NewConfig and NewConfigWithFile on SSA (callee identity modulo package, argument provenance, error-edge domination), plus def-use plumbing of the file name into Meta.Source, of options.meta into every value constructor reached from normalize*, and of *Meta parameters of error constructors into messageMeta. Decides that the front-ends differ only in the decoder and that the source is recorded and reaches error text; does not decide that the three third-party decoders yield equal data.", checkC18)
}

var frontends = []string{"yaml", "json", "hjson"}

func checkC18(c *Ctx, r *Report) {
	r.Assumption("the third-party decoders (yaml.v2, encoding/json, hjson-go) are outside the tree and trusted to decode equal documents to equal data")

	r.Rule("R18a", "front-end sibling shape: Unmarshal(in,&m) -> err returned -> NewFrom(m, opts...) ; ReadFile(name) -> err returned -> NewConfig(data, append([MetaData(Meta{Source:name})], opts...)...)", 24)
	r.Rule("R18f", "no option parameter of a front-end is dropped (option flow, shared with R19a)", 6)
	optflow(c, r, "R18f", frontends)

	sigs := map[string][]string{}
	for _, fe := range frontends {
		nc := c.Func(fe, "NewConfig")
		ncf := c.Func(fe, "NewConfigWithFile")
		sigs[fe] = append(frontNewConfig(c, r, fe, nc), frontWithFile(c, r, fe, ncf, nc)...)
	}
	// pairwise agreement of the shape signatures
	ref := strings.Join(sigs[frontends[0]], "; ")
	for _, fe := range frontends[1:] {
		got := strings.Join(sigs[fe], "; ")
		r.Check(got == ref, "R18a", fe+".NewConfig*", "shape equals "+frontends[0], "-", "shape signature identical: "+got, fmt.Sprintf("front-end %s differs structurally from %s:\n  %s\n  %s", fe, frontends[0], got, ref))
	}

	// R18b
	intermediateMetaRule(c, r)
	// the front-ends agree because every decoder output (map[string]interface{} from JSON/HJSON, map[interface{}]interface{}
	// from YAML) goes through the same per-name store: no normalize function has a path of its own for one representation
	namedStoreRule(c, r, "R18h")
	numericSiblingsRule(c, r)
	readSideMetaRule(c, r)
	parsedTextMetaRule(c, r)
	r.Rule("R18b", "source plumbing: MetaData stores the address of its Meta copy into options.meta; value constructors on normalize* paths receive opts.meta; error constructors pass their *Meta on towards messageMeta", 20)
	metaDataRule(c, r)
	metaReachesValues(c, r, "R18b")
	metaReachesMessages(c, r)
	r.Rule("R18c", "interface-keyed maps (what the YAML front-end hands over) are read like string-keyed ones: every reflect.Value.String() on a key or value is taken after the interface was chased and the kind tested to be String", 3)
	valueStringRule(c, r, "R18c")
}

func frontNewConfig(c *Ctx, r *Report, fe string, fn *ssa.Function) []string {
	name := c.FnName(fn)
	var sig []string
	newFrom := c.Func("", "NewFrom")
	var unm []*ssa.Call
	var nf []*ssa.Call
	other := 0
	for _, ci := range CallsIn(fn, true) {
		call, ok := ci.(*ssa.Call)
		if !ok {
			other++
			continue
		}
		if IsCallTo(call, newFrom) {
			nf = append(nf, call)
		} else if f := call.Call.StaticCallee(); f != nil && f.Name() == "Unmarshal" && !c.InRepo(f) {
			unm = append(unm, call)
		} else if BuiltinName(call) == "" {
			other++
		}
	}
	if len(unm) != 1 || len(nf) != 1 {
		r.Bad("R18a", name, "one Unmarshal and one NewFrom", c.Pos(fn.Pos()), fmt.Sprintf("found %d decoder calls and %d NewFrom calls", len(unm), len(nf)))
		return []string{"malformed"}
	}
	r.OK("R18a", name, "one Unmarshal and one NewFrom", c.Pos(fn.Pos()), "decoder "+unm[0].Call.StaticCallee().String())
	sig = append(sig, fmt.Sprintf("calls: Unmarshal, NewFrom, other=%d", other))

	// f1: Unmarshal(in, &m)
	u := unm[0]
	inOK := len(u.Call.Args) == 2 && onlyParam(Sources(u.Call.Args[0]), fn, 0)
	var local *ssa.Alloc
	if len(u.Call.Args) == 2 {
		for _, s := range Sources(u.Call.Args[1]) {
			if a, ok := s.(*ssa.Alloc); ok {
				if p, ok := a.Type().(*types.Pointer); ok && types.IsInterface(p.Elem()) {
					local = a
				}
			}
		}
	}
	r.Check(inOK && local != nil, "R18a", name, "Unmarshal(in,&m)", c.Pos(u.Pos()), "decodes the input parameter into a local interface{}", "decoder is not called with the input parameter and the address of a local interface{}")
	sig = append(sig, fmt.Sprintf("unmarshal(in,&local)=%v", inOK && local != nil))

	// f2: NewFrom(m, opts...)
	n := nf[0]
	mOK := false
	if len(n.Call.Args) == 2 && local != nil {
		if l, ok := n.Call.Args[0].(*ssa.UnOp); ok && l.Op == token.MUL && l.X == local {
			mOK = true
		}
	}
	optsOK := len(n.Call.Args) == 2 && onlyParam(Sources(n.Call.Args[1]), fn, 1)
	r.Check(mOK, "R18a", name, "NewFrom(m", c.Pos(n.Pos()), "NewFrom receives the decoded value", "NewFrom does not receive the decoded local value")
	r.Check(optsOK, "R18a", name, "NewFrom(..opts)", c.Pos(n.Pos()), "NewFrom receives exactly the caller's options", "NewFrom does not receive exactly the caller's options (sources: "+describeVals(Sources(n.Call.Args[len(n.Call.Args)-1]))+")")
	sig = append(sig, fmt.Sprintf("newfrom(m)=%v opts-unchanged=%v", mOK, optsOK))

	// f3: NewFrom dominated by err == nil of the decoder
	dom := false
	for _, cd := range DomConds(n.Block()) {
		if isNilTestOf(cd, u, true) {
			dom = true
		}
	}
	r.Check(dom, "R18a", name, "decoder error checked", c.Pos(n.Pos()), "NewFrom dominated by decoder err == nil", "NewFrom is reachable when the decoder failed")
	sig = append(sig, fmt.Sprintf("err-dominates=%v", dom))

	// f4: returns
	retOK := true
	for _, ret := range Returns(fn) {
		if len(ret.Results) != 2 {
			retOK = false
			continue
		}
		a, b := ret.Results[0], ret.Results[1]
		if IsNilConst(a) && b == ssa.Value(u) {
			continue
		}
		ea, oka := a.(*ssa.Extract)
		eb, okb := b.(*ssa.Extract)
		if oka && okb && ea.Tuple == ssa.Value(n) && eb.Tuple == ssa.Value(n) && ea.Index == 0 && eb.Index == 1 {
			continue
		}
		retOK = false
	}
	r.Check(retOK, "R18a", name, "returns", c.Pos(fn.Pos()), "returns (nil, decoder error) or NewFrom's results", "a return yields something other than (nil, decoder error) or the results of NewFrom")
	sig = append(sig, fmt.Sprintf("returns=%v", retOK))
	return sig
}

func frontWithFile(c *Ctx, r *Report, fe string, fn, newConfig *ssa.Function) []string {
	name := c.FnName(fn)
	var sig []string
	metaData := c.Func("", "MetaData")
	var rf, nc, md []*ssa.Call
	other := 0
	for _, ci := range CallsIn(fn, true) {
		call, ok := ci.(*ssa.Call)
		if !ok {
			other++
			continue
		}
		f := call.Call.StaticCallee()
		switch {
		case IsCallTo(call, newConfig):
			nc = append(nc, call)
		case IsCallTo(call, metaData):
			md = append(md, call)
		case f != nil && f.Name() == "ReadFile" && f.Pkg != nil && (f.Pkg.Pkg.Path() == "io/ioutil" || f.Pkg.Pkg.Path() == "os"):
			rf = append(rf, call)
		case BuiltinName(call) == "":
			other++
		}
	}
	if len(rf) != 1 || len(nc) != 1 || len(md) != 1 {
		r.Bad("R18a", name, "ReadFile, MetaData, NewConfig", c.Pos(fn.Pos()), fmt.Sprintf("found %d ReadFile, %d MetaData, %d NewConfig calls", len(rf), len(md), len(nc)))
		return []string{"malformed"}
	}
	r.OK("R18a", name, "ReadFile, MetaData, NewConfig", c.Pos(fn.Pos()), "one of each")
	sig = append(sig, fmt.Sprintf("calls: ReadFile, MetaData, NewConfig, other=%d", other))

	g1 := len(rf[0].Call.Args) == 1 && onlyParam(Sources(rf[0].Call.Args[0]), fn, 0)
	r.Check(g1, "R18a", name, "ReadFile(name)", c.Pos(rf[0].Pos()), "reads the file named by the parameter", "ReadFile is not called with the name parameter")

	// MetaData(Meta{Source: name})
	g3 := false
	for _, s := range Sources(md[0].Call.Args[0]) {
		// load of a local Meta whose Source field is assigned from param name: Sources follows
		// loads of locals only for whole-variable stores, so look at the Alloc directly.
		_ = s
	}
	if l, ok := md[0].Call.Args[0].(*ssa.UnOp); ok && l.Op == token.MUL {
		if a, ok := l.X.(*ssa.Alloc); ok {
			for _, ref := range *a.Referrers() {
				if fa, ok := ref.(*ssa.FieldAddr); ok {
					if _, f, ok := FieldOf(fa); ok && f == "Source" {
						for _, ref2 := range *fa.Referrers() {
							if st, ok := ref2.(*ssa.Store); ok && st.Addr == fa && onlyParam(Sources(st.Val), fn, 0) {
								g3 = true
							}
						}
					}
				}
			}
		}
	}
	r.Check(g3, "R18a", name, "MetaData(Meta{Source:name})", c.Pos(md[0].Pos()), "Meta.Source is the name parameter", "the metadata attached by the file loader does not carry the file name parameter in Meta.Source")

	// NewConfig(data, append([MetaData], opts...)...)
	n := nc[0]
	g2a := len(n.Call.Args) == 2
	if g2a {
		e, ok := n.Call.Args[0].(*ssa.Extract)
		g2a = ok && e.Tuple == ssa.Value(rf[0]) && e.Index == 0
	}
	r.Check(g2a, "R18a", name, "NewConfig(data", c.Pos(n.Pos()), "NewConfig receives the bytes read", "NewConfig does not receive the bytes returned by ReadFile")
	order := "none"
	if len(n.Call.Args) == 2 {
		// the slice as a sequence of known pieces: append(a, b...) = a ++ b, a literal holding the MetaData call, the
		// caller's options, an empty make / nil
		var seq func(v ssa.Value, d int) ([]string, bool)
		seq = func(v ssa.Value, d int) ([]string, bool) {
			if d > 6 {
				return nil, false
			}
			srcs := []ssa.Value{v}
			if call, isCall := v.(*ssa.Call); !isCall || BuiltinName(call) != "append" {
				srcs = Sources(v)
			}
			if len(srcs) != 1 {
				return nil, false
			}
			switch x := srcs[0].(type) {
			case *ssa.Call:
				if BuiltinName(x) == "append" && len(x.Call.Args) == 2 {
					a, ok1 := seq(x.Call.Args[0], d+1)
					b, ok2 := seq(x.Call.Args[1], d+1)
					return append(append([]string{}, a...), b...), ok1 && ok2
				}
			case *ssa.MakeSlice:
				if k, ok := ConstInt(x.Len); ok && k == 0 {
					return nil, true
				}
			case *ssa.Const:
				if x.IsNil() {
					return nil, true
				}
			case *ssa.Parameter:
				if len(fn.Params) > 1 && x == fn.Params[1] {
					return []string{"user"}, true
				}
			case *ssa.Alloc:
				if allocHoldsCall(x, md[0]) {
					if at, ok := derefType(x.Type()).Underlying().(*types.Array); ok && at.Len() == 1 {
						return []string{"metadata"}, true
					}
				}
			}
			return nil, false
		}
		if sq, ok := seq(n.Call.Args[1], 0); ok {
			switch strings.Join(sq, ",") {
			case "metadata,user":
				order = "metadata-then-user"
			case "user,metadata":
				order = "user-then-metadata"
			default:
				order = "[" + strings.Join(sq, ",") + "]"
			}
		}
	}
	r.Check(order == "metadata-then-user", "R18a", name, "option order", c.Pos(n.Pos()), "options = [MetaData] ++ caller's options (the caller can override the source)", "options handed to NewConfig are not [MetaData(Meta{Source:name})] followed by the caller's options (found: "+order+")")

	dom := false
	for _, cd := range DomConds(n.Block()) {
		if isNilTestOfExtract(cd, rf[0], 1, true) {
			dom = true
		}
	}
	r.Check(dom, "R18a", name, "read error checked", c.Pos(n.Pos()), "NewConfig dominated by ReadFile err == nil", "NewConfig is reachable when ReadFile failed")
	sig = append(sig, fmt.Sprintf("readfile(name)=%v meta(name)=%v newconfig(data)=%v order=%s err-dominates=%v", g1, g3, g2a, order, dom))
	return sig
}

// onlyParam: the sources are exactly {parameter #idx of fn}.
func onlyParam(srcs []ssa.Value, fn *ssa.Function, idx int) bool {
	if len(srcs) != 1 || idx >= len(fn.Params) {
		return false
	}
	return srcs[0] == ssa.Value(fn.Params[idx])
}

// allocHoldsCall: v is the backing array of a slice literal one of whose elements is the result of call.
func allocHoldsCall(v ssa.Value, call *ssa.Call) bool {
	a, ok := v.(*ssa.Alloc)
	if !ok || a.Referrers() == nil {
		return false
	}
	for _, ref := range *a.Referrers() {
		if ia, ok := ref.(*ssa.IndexAddr); ok && ia.Referrers() != nil {
			for _, r2 := range *ia.Referrers() {
				if st, ok := r2.(*ssa.Store); ok && st.Addr == ssa.Value(ia) && st.Val == ssa.Value(call) {
					return true
				}
			}
		}
	}
	return false
}

// isNilTestOf: cond establishes v == nil (wantNil) where v is exactly value `v`.
func isNilTestOf(cd Cond, v ssa.Value, wantNil bool) bool {
	b, ok := cd.V.(*ssa.BinOp)
	if !ok {
		return false
	}
	var other ssa.Value
	if IsNilConst(b.Y) {
		other = b.X
	} else if IsNilConst(b.X) {
		other = b.Y
	} else {
		return false
	}
	if other != v {
		return false
	}
	isNil := (b.Op == token.EQL && cd.Truth) || (b.Op == token.NEQ && !cd.Truth)
	return isNil == wantNil && (b.Op == token.EQL || b.Op == token.NEQ)
}

func isNilTestOfExtract(cd Cond, tuple ssa.Value, idx int, wantNil bool) bool {
	b, ok := cd.V.(*ssa.BinOp)
	if !ok {
		return false
	}
	for _, x := range []ssa.Value{b.X, b.Y} {
		if e, ok := x.(*ssa.Extract); ok && e.Tuple == tuple && e.Index == idx {
			return isNilTestOf(cd, e, wantNil)
		}
	}
	return false
}

// metaDataRule: the closure returned by MetaData stores the address of MetaData's own copy of
// its argument into options.meta.
func metaDataRule(c *Ctx, r *Report) {
	md := c.Func("", "MetaData")
	opts := c.Named("", "options")
	found := false
	for _, fn := range WithAnon(md) {
		Instrs(fn, false, func(in ssa.Instruction) {
			st, ok := in.(*ssa.Store)
			if !ok {
				return
			}
			n, f, ok := FieldOf(st.Addr)
			if !ok || n != opts || f != "meta" {
				return
			}
			found = true
			good := false
			for _, s := range Sources(st.Val) {
				if a, ok := s.(*ssa.Alloc); ok && a.Parent() == md {
					// the Alloc must be the spilled parameter: it receives a store of Params[0]
					for _, ref := range *a.Referrers() {
						if s2, ok := ref.(*ssa.Store); ok && s2.Addr == ssa.Value(a) && s2.Val == ssa.Value(md.Params[0]) {
							good = true
						}
					}
				}
			}
			r.Check(good, "R18b", c.FnName(fn), "store options.meta", c.Pos(st.Pos()), "options.meta = &(copy of the Meta argument)", "options.meta is not set to the address of MetaData's argument copy")
		})
	}
	if !found {
		r.Bad("R18b", c.FnName(md), "store options.meta", c.Pos(md.Pos()), "MetaData never stores into options.meta: the source name is lost")
	}
}

// metaReachesValues: every value constructor (newBool/newInt/newUint/newFloat/newString/newRef/
// newSplice and cfgNil/cfgPrimitive literals) in the functions reachable from normalize without
// leaving the normalize*/parse-free part receives the current options' meta field.
func metaReachesValues(c *Ctx, r *Report, rule string) {
	ctors := map[*ssa.Function]int{} // function -> index of the *Meta parameter
	for _, nm := range []string{"newBool", "newInt", "newUint", "newFloat", "newString", "newRef", "newSplice"} {
		f := c.Func("", nm)
		idx := -1
		for i, p := range f.Params {
			if isNamed(p.Type(), modPath, "Meta") {
				idx = i
			}
		}
		if idx < 0 {
			undecidedf("ANCHOR-MISSING: %s has no *Meta parameter", nm)
		}
		ctors[f] = idx
	}
	prim := c.Named("", "cfgPrimitive")
	n := 0
	for _, fn := range c.SrcFuncs() {
		if fn.Pkg != c.SSA[""] || !strings.HasPrefix(fn.Name(), "normalize") {
			continue
		}
		r.Analysed["normalize functions"]++
		Instrs(fn, true, func(in ssa.Instruction) {
			switch x := in.(type) {
			case *ssa.Call:
				f := x.Call.StaticCallee()
				idx, ok := ctors[f]
				if !ok {
					return
				}
				n++
				arg := x.Call.Args[idx]
				r.Check(isOptsMeta(arg, fn), rule, c.FnName(fn), "meta of "+f.Name(), c.Pos(x.Pos()), "constructor receives opts.meta", "value constructed without the options' metadata (argument: "+arg.String()+"): errors about this setting cannot name its source")
			case *ssa.Store:
				// cfgPrimitive{ctx, meta} literal: store into field metadata of a cfgPrimitive
				nt, f, ok := FieldOf(x.Addr)
				if ok && nt == prim && f == "metadata" {
					n++
					r.Check(isOptsMeta(x.Val, fn), rule, c.FnName(fn), "meta of cfgPrimitive literal", c.Pos(x.Pos()), "literal receives opts.meta", "primitive literal built without the options' metadata")
				}
			}
		})
	}
	if n == 0 {
		r.Bad(rule, "normalize*", "value constructors", "-", "no value constructor found on the normalize paths")
	}
	// every Config created on a normalize path gets metadata = opts.meta
	newFn := c.Func("", "New")
	cfgT := c.Named("", "Config")
	for _, fn := range c.SrcFuncs() {
		if fn.Pkg != c.SSA[""] || !strings.HasPrefix(fn.Name(), "normalize") {
			continue
		}
		for _, ci := range CallsTo(fn, newFn, true) {
			call := ci.(*ssa.Call)
			good := false
			for _, ref := range *call.Referrers() {
				fa, ok := ref.(*ssa.FieldAddr)
				if !ok {
					continue
				}
				if nt, f, ok := FieldOf(fa); ok && nt == cfgT && f == "metadata" {
					for _, r2 := range *fa.Referrers() {
						if st, ok := r2.(*ssa.Store); ok && st.Addr == ssa.Value(fa) && isOptsMeta(st.Val, fn) {
							good = true
						}
					}
				}
			}
			r.Check(good, rule, c.FnName(fn), "metadata of New()", c.Pos(call.Pos()), "new Config receives metadata = opts.meta", "Config created during normalization without metadata = opts.meta: errors about this object cannot name its source")
		}
		// … and the same for a Config written as a literal (&Config{…})
		Instrs(fn, true, func(in ssa.Instruction) {
			al, ok := in.(*ssa.Alloc)
			if !ok || !al.Heap || !types.Identical(al.Type().(*types.Pointer).Elem(), cfgT) {
				return
			}
			good := false
			for _, ref := range *al.Referrers() {
				fa, ok := ref.(*ssa.FieldAddr)
				if !ok {
					continue
				}
				if nt, f, ok := FieldOf(fa); ok && nt == cfgT && f == "metadata" {
					for _, r2 := range *fa.Referrers() {
						if st, ok := r2.(*ssa.Store); ok && st.Addr == ssa.Value(fa) && isOptsMeta(st.Val, fn) {
							good = true
						}
					}
				}
			}
			r.Check(good, rule, c.FnName(fn), "metadata of Config literal", c.Pos(al.Pos()), "the literal receives metadata = opts.meta", "a Config literal built during normalization has no metadata = opts.meta: errors about this object (an empty list, say) cannot name the file it was loaded from")
		})
	}
}

// isOptsMeta: v is a load of field meta of the function's *options parameter.
func isOptsMeta(v ssa.Value, fn *ssa.Function) bool {
	for _, s := range Sources(v) {
		u, ok := s.(*ssa.UnOp)
		if !ok || u.Op != token.MUL {
			return false
		}
		fa, ok := u.X.(*ssa.FieldAddr)
		if !ok {
			return false
		}
		n, f, ok := FieldOf(fa)
		if !ok || n.Obj().Name() != "options" || f != "meta" {
			return false
		}
		if _, ok := fa.X.(*ssa.Parameter); !ok {
			return false
		}
	}
	return true
}

// metaReachesMessages: every function of error.go that takes a *Meta passes it to a callee that
// takes a *Meta, down to messageMeta which reads meta.Source into the text.
func metaReachesMessages(c *Ctx, r *Report) {
	mm := c.Func("", "messageMeta")
	// messageMeta itself: reads Source and uses it in the result
	readsSource := false
	Instrs(mm, false, func(in ssa.Instruction) {
		if fa, ok := in.(*ssa.FieldAddr); ok {
			if _, f, ok := FieldOf(fa); ok && f == "Source" {
				readsSource = true
			}
		}
	})
	r.Check(readsSource, "R18b", c.FnName(mm), "reads Meta.Source", c.Pos(mm.Pos()), "messageMeta reads meta.Source", "messageMeta no longer reads Meta.Source")
	for _, fn := range c.SrcFuncs() {
		if fn.Pkg != c.SSA[""] || fn.Parent() != nil || fn == mm {
			continue
		}
		if !(strings.HasPrefix(fn.Name(), "raise") || strings.HasPrefix(fn.Name(), "message")) {
			continue
		}
		for _, p := range fn.Params {
			if !isNamed(p.Type(), modPath, "Meta") {
				continue
			}
			passed := false
			for _, ci := range CallsIn(fn, true) {
				f := ci.Common().StaticCallee()
				if f == nil || !c.InRepo(f) {
					continue
				}
				for _, a := range ci.Common().Args {
					if a == ssa.Value(p) {
						passed = true
					}
				}
			}
			r.Check(passed, "R18b", c.FnName(fn), "forwards *Meta "+p.Name(), c.Pos(fn.Pos()), "metadata parameter is passed on to the message builders", "error constructor ignores its *Meta parameter: the source is missing from the message")
		}
		// every *Meta argument handed on is real metadata, not nil
		for _, ci := range CallsIn(fn, true) {
			f := ci.Common().StaticCallee()
			if f == nil || !c.InRepo(f) {
				continue
			}
			for i, a := range ci.Common().Args {
				if !isNamed(a.Type(), modPath, "Meta") {
					continue
				}
				if _, isPtr := a.Type().Underlying().(*types.Pointer); !isPtr {
					continue
				}
				origin := ""
				for _, s := range Sources(a) {
					switch x := s.(type) {
					case *ssa.Parameter:
						origin = "parameter " + x.Name()
					case *ssa.Call:
						if x.Call.IsInvoke() && x.Call.Method.Name() == "meta" {
							origin = "meta() of " + x.Call.Value.Name()
						}
					case *ssa.UnOp:
						if _, fld, ok := FieldOf(x.X); ok && (fld == "metadata" || fld == "meta") {
							origin = "field " + fld
						}
					}
				}
				r.Check(origin != "", "R18b", c.FnName(fn), fmt.Sprintf("meta arg%d of %s", i, f.Name()), c.Pos(ci.Pos()), "metadata argument comes from "+origin, "error constructor passes no real metadata here (sources: "+describeVals(Sources(a))+")")
			}
		}
	}
}

// intermediateMetaRule (R18g): the nodes cfgPath.SetValue creates for the missing levels of a dotted key take
// over the metadata of the value being stored, so that an error about such a level still names the file. For
// every Config made with New() in the path writer there is an assignment of its metadata (direct store or
// setMeta on its wrapper) whose value is meta() of a value that is not the new node itself.
func intermediateMetaRule(c *Ctx, r *Report) {
	r.Rule("R18g", "every intermediate node the path writer creates is given the metadata of the value being stored (not its own, not none)", 1)
	fn := c.Method("", "cfgPath", "SetValue")
	newFn := c.Func("", "New")
	name := c.FnName(fn)
	n := 0
	for _, f := range c.Family(fn) {
		for _, ci := range CallsTo(f, newFn, false) {
			nc, ok := ci.(*ssa.Call)
			if !ok {
				continue
			}
			n++
			isNew := func(v ssa.Value) bool {
				if v == nil {
					return false
				}
				for _, s := range Sources(v) {
					if s == ssa.Value(nc) {
						return true
					}
				}
				return false
			}
			var metaVals []ssa.Value
			Instrs(f, false, func(in ssa.Instruction) {
				switch x := in.(type) {
				case *ssa.Store:
					if _, fld, ok := FieldOf(x.Addr); ok && fld == "metadata" {
						if fa, ok := x.Addr.(*ssa.FieldAddr); ok && isNew(fa.X) {
							metaVals = append(metaVals, x.Val)
						}
					}
				case *ssa.Call:
					if x.Call.IsInvoke() && x.Call.Method.Name() == "setMeta" && isNew(wrappedConfig(x.Call.Value)) {
						metaVals = append(metaVals, x.Call.Args[0])
					}
					if g := x.Call.StaticCallee(); g != nil && g.Name() == "setMeta" && len(x.Call.Args) == 2 && isNew(wrappedConfig(x.Call.Args[0])) {
						metaVals = append(metaVals, x.Call.Args[1])
					}
				}
			})
			bad := ""
			if len(metaVals) == 0 {
				bad = "the new node's metadata is never assigned"
			}
			for _, mv := range metaVals {
				okSrc := false
				for _, s := range Sources(mv) {
					call, ok := s.(*ssa.Call)
					if !ok {
						continue
					}
					if call.Call.IsInvoke() && call.Call.Method.Name() == "meta" {
						// a receiver that is a φ (the value carried round the loop: the node of the previous level, which got its
						// metadata when it was created) is not this level's node
						_, viaPhi := call.Call.Value.(*ssa.Phi)
						if !viaPhi && isNew(wrappedConfig(call.Call.Value)) {
							bad = "the metadata is read from the new node itself (it has none yet)"
						} else {
							okSrc = true
						}
					}
				}
				if IsLoadOfField(mv, "options", "meta") {
					okSrc = true
				}
				if !okSrc && bad == "" {
					bad = "the metadata assigned does not come from the value being stored (meta()) or the options"
				}
			}
			r.Check(bad == "", "R18g", name, "intermediate node metadata", c.Pos(nc.Pos()), "metadata := meta() of the value being stored", "an intermediate node created for a dotted key gets no source: "+bad+" — errors about that level do not mention the file")
		}
	}
	if n == 0 {
		r.add("R18g", name, "intermediate node metadata", c.Pos(fn.Pos()), Undecided, true, "cfgPath.SetValue creates no node with New(): cannot tell how intermediate levels get their metadata")
	}
}

// numericSiblingsRule (R18i): which node a whole number becomes depends on the front-end, not on the document —
// yaml decodes 1 to an int (cfgInt / cfgUint), json and hjson decode every number to float64 (cfgFloat). The three
// numeric node types must therefore support the same set of conversions: a conversion one of them offers and
// another refuses makes the same document unpack through one front-end and fail through another.
func numericSiblingsRule(c *Ctx, r *Report) {
	r.Rule("R18i", "cfgInt, cfgUint and cfgFloat support the same conversions (toBool, toString, toInt, toUint, toFloat, toConfig): each is offered by all three or refused by all three", 6)
	kinds := []string{"cfgInt", "cfgUint", "cfgFloat"}
	for _, m := range []string{"toBool", "toString", "toInt", "toUint", "toFloat", "toConfig"} {
		var desc []string
		supp := map[string]bool{}
		undecided := ""
		for _, k := range kinds {
			f := c.MethodImpl(types.NewPointer(c.Named("", k)), m)
			if f == nil {
				undecided = k + "." + m + " not found"
				continue
			}
			f = declared(c, f)
			offered := false
			for _, ret := range Returns(f) {
				if len(ret.Results) == 0 {
					continue
				}
				e := RetVal(ret, len(ret.Results)-1)
				refused := false
				for _, s := range append(Sources(e), e) {
					if l, ok := s.(*ssa.UnOp); ok && l.Op == token.MUL {
						if g, ok := l.X.(*ssa.Global); ok && globalNonNil(g) {
							refused = true
						}
					}
				}
				if !refused {
					offered = true
				}
			}
			supp[k] = offered
			if offered {
				desc = append(desc, k+": offered ("+c.FnName(f)+")")
			} else {
				desc = append(desc, k+": refused")
			}
		}
		if undecided != "" {
			r.add("R18i", "ucfg.numeric nodes", m, "-", Undecided, true, undecided)
			continue
		}
		agree := supp["cfgInt"] == supp["cfgUint"] && supp["cfgUint"] == supp["cfgFloat"]
		r.Check(agree, "R18i", "ucfg.numeric nodes", m, "-", strings.Join(desc, "; "),
			"the numeric node types do not support the same conversions — "+strings.Join(desc, "; ")+": a whole number is a cfgInt/cfgUint when the document came through yaml and a cfgFloat when it came through json or hjson, so the same document unpacks through one front-end and fails through another")
	}
}

// readSideMetaRule (R18j): source plumbing on the read and setter side. (i) The empty Config a null setting reads as
// (cfgNil.toConfig) takes over the metadata of the null, like its context: errors raised below `a: null` name the
// file. (ii) setField attaches the MetaData option to the value before cfgPath.SetValue stores it: the intermediate
// nodes SetValue creates take their metadata from the value (R18g).
func readSideMetaRule(c *Ctx, r *Report) {
	r.Rule("R18j", "cfgNil.toConfig gives the Config it builds the receiver's metadata; setField sets the value's metadata before it calls SetValue", 2)
	cfgT := c.Named("", "Config")
	if fn := c.MethodImpl(types.NewPointer(c.Named("", "cfgNil")), "toConfig"); fn != nil {
		fn = declared(c, fn)
		ok := false
		Instrs(fn, false, func(in ssa.Instruction) {
			st, isSt := in.(*ssa.Store)
			if !isSt {
				return
			}
			if nt, f, okF := FieldOf(st.Addr); okF && nt == cfgT && f == "metadata" {
				for _, s := range append(Sources(st.Val), st.Val) {
					if l, isL := s.(*ssa.UnOp); isL {
						if _, f2, ok2 := FieldOf(l.X); ok2 && f2 == "metadata" {
							ok = true
						}
					}
					if call, isC := s.(*ssa.Call); isC && calledName(call) == "meta" {
						ok = true
					}
				}
			}
		})
		r.Check(ok, "R18j", c.FnName(fn), "null keeps its source", c.Pos(fn.Pos()), "the new Config's metadata is the receiver's",
			"the empty Config a null setting reads as does not take over the null's metadata: errors raised below a null (a required field missing in `a: null`, a validator on a null list element) name the setting without the file it was loaded from")
	} else {
		r.add("R18j", "ucfg.cfgNil.toConfig", "null keeps its source", "-", Undecided, true, "method not found")
	}
	sf := c.Method("", "Config", "setField")
	var setMeta, setValue ssa.Instruction
	for _, ci := range CallsIn(sf, false) {
		switch {
		case ci.Common().IsInvoke() && ci.Common().Method.Name() == "setMeta":
			setMeta = ci.(ssa.Instruction)
		case ci.Common().StaticCallee() != nil && ci.Common().StaticCallee().Name() == "SetValue":
			setValue = ci.(ssa.Instruction)
		}
	}
	switch {
	case setMeta == nil || setValue == nil:
		r.add("R18j", c.FnName(sf), "metadata before the store", c.Pos(sf.Pos()), Undecided, true, "setField does not call both setMeta and SetValue")
	default:
		// the store is not reachable without passing the setMeta block when metadata is given: setMeta's block lies
		// on every path on which opts.meta != nil, i.e. SetValue does not precede it
		before := !InstrDominates(setValue, setMeta) && !reachableFromEdge(nil, setValue.Block(), setMeta.Block(), nil)
		r.Check(before, "R18j", c.FnName(sf), "metadata before the store", c.Pos(setMeta.Pos()), "setMeta is not behind SetValue",
			"setField attaches the MetaData option to the value after SetValue stored it: the intermediate nodes SetValue creates for a dotted name took their metadata from a value that had none yet, and errors about them do not name the source")
	}
}

// parsedTextMetaRule (R18k): what parseValue parses out of the text of a value — the list or object a reference, a
// splice or an environment variable expands to — comes from where that text came from. The nodes below the first
// level are built by normalize, which stamps them with the metadata of the options it is given (R18b): those have
// to be a copy of the caller's options whose meta is the primitive's own (`p.meta()` / `p.metadata`), not the
// options of the call that happens to read the value (whose meta is that of Unpack or of a getter: usually none).
func parsedTextMetaRule(c *Ctx, r *Report) {
	r.Rule("R18k", "parseValue normalises the parsed text with options whose metadata is that of the value the text belongs to", 1)
	pv := c.Func("", "parseValue")
	norm := c.Func("", "normalize")
	optT := c.Named("", "options")
	metaIdx := c.FieldIndex(optT, "meta")
	var prim *ssa.Parameter
	for _, p := range pv.Params {
		if typeStr(p.Type()) == "*ucfg.cfgPrimitive" {
			prim = p
		}
	}
	calls := CallsTo(pv, norm, false)
	if len(calls) == 0 || prim == nil {
		r.add("R18k", c.FnName(pv), "options of normalize", c.Pos(pv.Pos()), Undecided, true, "parseValue does not call normalize, or has no *cfgPrimitive parameter")
		return
	}
	for _, ci := range calls {
		arg := ci.Common().Args[0]
		ok, why := false, "the options handed to normalize are not a local copy (the caller's options carry the metadata of the reading call)"
		if al, isAl := arg.(*ssa.Alloc); isAl {
			why = "the local options' meta field is never set from the primitive"
			for _, ref := range *al.Referrers() {
				fa, isFA := ref.(*ssa.FieldAddr)
				if !isFA || fa.Field != metaIdx {
					continue
				}
				for _, r2 := range *fa.Referrers() {
					st, isSt := r2.(*ssa.Store)
					if !isSt || st.Addr != ssa.Value(fa) {
						continue
					}
					own := false
					for _, src := range append(Sources(st.Val), st.Val) {
						switch x := src.(type) {
						case *ssa.Call:
							if calledName(x) == "meta" && len(x.Call.Args) > 0 && x.Call.Args[0] == ssa.Value(prim) {
								own = true
							}
						case *ssa.UnOp:
							if fa2, isFA2 := x.X.(*ssa.FieldAddr); isFA2 && fa2.X == ssa.Value(prim) {
								if _, f, okF := FieldOf(fa2); okF && f == "metadata" {
									own = true
								}
							}
						}
					}
					if own && (st.Block() == ci.(ssa.Instruction).Block() && InstrDominates(st, ci.(ssa.Instruction)) || st.Block() != ci.(ssa.Instruction).Block() && st.Block().Dominates(ci.(ssa.Instruction).Block())) {
						ok = true
					} else if !own {
						why = "the local options' meta is set from something other than the primitive's own metadata"
					}
				}
			}
		}
		r.Check(ok, "R18k", c.FnName(pv), "options of normalize", c.Pos(ci.Pos()), "a local copy of the options with meta = the primitive's metadata", why+": the settings below the first level of a parsed list or object lose their source, and an error about one of them does not name the file")
	}
}
