// Copyright 2023 The Go Authors. All rights reserved.
// Use of this source code is governed by a BSD-style
// license that can be found in the LICENSE file.

package inline

// This file defines various common helpers.

import (
	"go/ast"
	"go/constant"
	"go/token"
	"go/types"
	"reflect"
	"strings"

	"verif/checker/xinline/typeparams"
)

func is[T any](x any) bool {
	_, ok := x.(T)
	return ok
}

// TODO(adonovan): use go1.21's slices.Index.
func index[T comparable](slice []T, x T) int {
	for i, elem := range slice {
		if elem == x {
			return i
		}
	}
	return -1
}

func btoi(b bool) int {
	if b {
		return 1
	} else {
		return 0
	}
}

func offsetOf(fset *token.FileSet, pos token.Pos) int {
	return fset.PositionFor(pos, false).Offset
}

// objectKind returns an object's kind (e.g. var, func, const, typename).
func objectKind(obj types.Object) string {
	return strings.TrimPrefix(strings.ToLower(reflect.TypeOf(obj).String()), "*types.")
}

// within reports whether pos is within the half-open interval [n.Pos, n.End).
func within(pos token.Pos, n ast.Node) bool {
	return n.Pos() <= pos && pos < n.End()
}

// trivialConversion reports whether it is safe to omit the implicit
// value-to-variable conversion that occurs in argument passing or
// result return. The only case currently allowed is converting from
// untyped constant to its default type (e.g. 0 to int).
//
// The reason for this check is that converting from A to B to C may
// yield a different result than converting A directly to C: consider
// 0 to int32 to any.
//
// trivialConversion under-approximates trivial conversions, as unfortunately
// go/types does not record the type of an expression *before* it is implicitly
// converted, and therefore it cannot distinguish typed constant
// expressions from untyped constant expressions. For example, in the
// expression `c + 2`, where c is a uint32 constant, trivialConversion does not
// detect that the default type of this expression is actually uint32, not untyped
// int.
//
// We could, of course, do better here by reverse engineering some of go/types'
// constant handling. That may or may not be worthwhile.
//
// Example: in func f() int32 { return 0 },
// the type recorded for 0 is int32, not untyped int;
// although it is Identical to the result var,
// the conversion is non-trivial.
func trivialConversion(fromValue constant.Value, from, to types.Type) bool {
	if fromValue != nil {
		var defaultType types.Type
		switch fromValue.Kind() {
		case constant.Bool:
			defaultType = types.Typ[types.Bool]
		case constant.String:
			defaultType = types.Typ[types.String]
		case constant.Int:
			defaultType = types.Typ[types.Int]
		case constant.Float:
			defaultType = types.Typ[types.Float64]
		case constant.Complex:
			defaultType = types.Typ[types.Complex128]
		default:
			return false
		}
		return types.Identical(defaultType, to)
	}
	return types.Identical(from, to)
}

func checkInfoFields(info *types.Info) {
	assert(info.Defs != nil, "types.Info.Defs is nil")
	assert(info.Implicits != nil, "types.Info.Implicits is nil")
	assert(info.Scopes != nil, "types.Info.Scopes is nil")
	assert(info.Selections != nil, "types.Info.Selections is nil")
	assert(info.Types != nil, "types.Info.Types is nil")
	assert(info.Uses != nil, "types.Info.Uses is nil")
}

func funcHasTypeParams(decl *ast.FuncDecl) bool {
	// generic function?
	if decl.Type.TypeParams != nil {
		return true
	}
	// method on generic type?
	if decl.Recv != nil {
		t := decl.Recv.List[0].Type
		if u, ok := t.(*ast.StarExpr); ok {
			t = u.X
		}
		return is[*ast.IndexExpr](t) || is[*ast.IndexListExpr](t)
	}
	return false
}

// intersects reports whether the maps' key sets intersect.
func intersects[K comparable, T1, T2 any](x map[K]T1, y map[K]T2) bool {
	if len(x) > len(y) {
		return intersects(y, x)
	}
	for k := range x {
		if _, ok := y[k]; ok {
			return true
		}
	}
	return false
}

// convert returns syntax for the conversion T(x).
func convert(T, x ast.Expr) *ast.CallExpr {
	// The formatter generally adds parens as needed,
	// but before go1.22 it had a bug (#63362) for
	// channel types that requires this workaround.
	if ch, ok := T.(*ast.ChanType); ok && ch.Dir == ast.RECV {
		T = &ast.ParenExpr{X: T}
	}
	return &ast.CallExpr{
		Fun:  T,
		Args: []ast.Expr{x},
	}
}

// isPointer reports whether t's core type is a pointer.
func isPointer(t types.Type) bool {
	return is[*types.Pointer](typeparams.CoreType(t))
}

// indirectSelection is like seln.Indirect() without bug #8353.
func indirectSelection(seln *types.Selection) bool {
	// Work around bug #8353 in Selection.Indirect when Kind=MethodVal.
	if seln.Kind() == types.MethodVal {
		tArg, indirect := effectiveReceiver(seln)
		if indirect {
			return true
		}

		tParam := seln.Obj().Type().Underlying().(*types.Signature).Recv().Type()
		return isPointer(tArg) && !isPointer(tParam) // implicit *
	}

	return seln.Indirect()
}

// effectiveReceiver returns the effective type of the method
// receiver after all implicit field selections (but not implicit * or
// & operations) have been applied.
//
// The boolean indicates whether any implicit field selection was indirect.
func effectiveReceiver(seln *types.Selection) (types.Type, bool) {
	assert(seln.Kind() == types.MethodVal, "not MethodVal")
	t := seln.Recv()
	indices := seln.Index()
	indirect := false
	for _, index := range indices[:len(indices)-1] {
		if isPointer(t) {
			indirect = true
			t = typeparams.MustDeref(t)
		}
		t = typeparams.CoreType(t).(*types.Struct).Field(index).Type()
	}
	return t, indirect
}
