// Copyright 2023 The Go Authors. All rights reserved.
// Use of this source code is governed by a BSD-style
// license that can be found in the LICENSE file.

package inline

import (
	"fmt"
	"go/ast"
	"go/token"
	"go/types"
)

// escape implements a simple "address-taken" escape analysis. It
// calls f for each local variable that appears on the left side of an
// assignment (escapes=false) or has its address taken (escapes=true).
// The initialization of a variable by its declaration does not count
// as an assignment.
func escape(info *types.Info, root ast.Node, f func(v *types.Var, escapes bool)) {

	// lvalue is called for each address-taken expression or LHS of assignment.
	// Supported forms are: x, (x), x[i], x.f, *x, T{}.
	var lvalue func(e ast.Expr, escapes bool)
	lvalue = func(e ast.Expr, escapes bool) {
		switch e := e.(type) {
		case *ast.Ident:
			if v, ok := info.Uses[e].(*types.Var); ok {
				if !isPkgLevel(v) {
					f(v, escapes)
				}
			}
		case *ast.ParenExpr:
			lvalue(e.X, escapes)
		case *ast.IndexExpr:
			// TODO(adonovan): support generics without assuming e.X has a core type.
			// Consider:
			//
			// func Index[T interface{ [3]int | []int }](t T, i int) *int {
			//     return &t[i]
			// }
			//
			// We must traverse the normal terms and check
			// whether any of them is an array.
			//
			// We assume TypeOf returns non-nil.
			if _, ok := info.TypeOf(e.X).Underlying().(*types.Array); ok {
				lvalue(e.X, escapes) // &a[i] on array
			}
		case *ast.SelectorExpr:
			// We assume TypeOf returns non-nil.
			if _, ok := info.TypeOf(e.X).Underlying().(*types.Struct); ok {
				lvalue(e.X, escapes) // &s.f on struct
			}
		case *ast.StarExpr:
			// *ptr indirects an existing pointer
		case *ast.CompositeLit:
			// &T{...} creates a new variable
		default:
			panic(fmt.Sprintf("&x on %T", e)) // unreachable in well-typed code
		}
	}

	// Search function body for operations &x, x.f(), x++, and x = y
	// where x is a parameter. Each of these treats x as an address.
	ast.Inspect(root, func(n ast.Node) bool {
		switch n := n.(type) {
		case *ast.UnaryExpr:
			if n.Op == token.AND {
				lvalue(n.X, true) // &x
			}

		case *ast.CallExpr:
			// implicit &x in method call x.f(),
			// where x has type T and method is (*T).f
			if sel, ok := n.Fun.(*ast.SelectorExpr); ok {
				if seln, ok := info.Selections[sel]; ok &&
					seln.Kind() == types.MethodVal &&
					isPointer(seln.Obj().Type().Underlying().(*types.Signature).Recv().Type()) {
					tArg, indirect := effectiveReceiver(seln)
					if !indirect && !isPointer(tArg) {
						lvalue(sel.X, true) // &x.f
					}
				}
			}

		case *ast.AssignStmt:
			for _, lhs := range n.Lhs {
				if id, ok := lhs.(*ast.Ident); ok &&
					info.Defs[id] != nil &&
					n.Tok == token.DEFINE {
					// declaration: doesn't count
				} else {
					lvalue(lhs, false)
				}
			}

		case *ast.IncDecStmt:
			lvalue(n.X, false)
		}
		return true
	})
}
