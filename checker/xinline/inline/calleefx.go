// Copyright 2023 The Go Authors. All rights reserved.
// Use of this source code is governed by a BSD-style
// license that can be found in the LICENSE file.

package inline

// This file defines the analysis of callee effects.

import (
	"go/ast"
	"go/token"
	"go/types"
)

const (
	rinf = -1 //  R∞: arbitrary read from memory
	winf = -2 //  W∞: arbitrary write to memory (or unknown control)
)

// calleefx returns a list of parameter indices indicating the order
// in which parameters are first referenced during evaluation of the
// callee, relative both to each other and to other effects of the
// callee (if any), such as arbitrary reads (rinf) and arbitrary
// effects (winf), including unknown control flow. Each parameter
// that is referenced appears once in the list.
//
// For example, the effects list of this function:
//
//	func f(x, y, z int) int {
//	    return y + x + g() + z
//	}
//
// is [1 0 -2 2], indicating reads of y and x, followed by the unknown
// effects of the g() call. and finally the read of parameter z. This
// information is used during inlining to ascertain when it is safe
// for parameter references to be replaced by their corresponding
// argument expressions. Such substitutions are permitted only when
// they do not cause "write" operations (those with effects) to
// commute with "read" operations (those that have no effect but are
// not pure). Impure operations may be reordered with other impure
// operations, and pure operations may be reordered arbitrarily.
//
// The analysis ignores the effects of runtime panics, on the
// assumption that well-behaved programs shouldn't encounter them.
func calleefx(info *types.Info, body *ast.BlockStmt, paramInfos map[*types.Var]*paramInfo) []int {
	// This traversal analyzes the callee's statements (in syntax
	// form, though one could do better with SSA) to compute the
	// sequence of events of the following kinds:
	//
	// 1  read of a parameter variable.
	// 2. reads from other memory.
	// 3. writes to memory

	var effects []int // indices of parameters, or rinf/winf (-ve)
	seen := make(map[int]bool)
	effect := func(i int) {
		if !seen[i] {
			seen[i] = true
			effects = append(effects, i)
		}
	}

	// unknown is called for statements of unknown effects (or control).
	unknown := func() {
		effect(winf)

		// Ensure that all remaining parameters are "seen"
		// after we go into the unknown (unless they are
		// unreferenced by the function body). This lets us
		// not bother implementing the complete traversal into
		// control structures.
		//
		// TODO(adonovan): add them in a deterministic order.
		// (This is not a bug but determinism is good.)
		for _, pinfo := range paramInfos {
			if !pinfo.IsResult && len(pinfo.Refs) > 0 {
				effect(pinfo.Index)
			}
		}
	}

	var visitExpr func(n ast.Expr)
	var visitStmt func(n ast.Stmt) bool
	visitExpr = func(n ast.Expr) {
		switch n := n.(type) {
		case *ast.Ident:
			if v, ok := info.Uses[n].(*types.Var); ok && !v.IsField() {
				// Use of global?
				if v.Parent() == v.Pkg().Scope() {
					effect(rinf) // read global var
				}

				// Use of parameter?
				if pinfo, ok := paramInfos[v]; ok && !pinfo.IsResult {
					effect(pinfo.Index) // read parameter var
				}

				// Use of local variables is ok.
			}

		case *ast.BasicLit:
			// no effect

		case *ast.FuncLit:
			// A func literal has no read or write effect
			// until called, and (most) function calls are
			// considered to have arbitrary effects.
			// So, no effect.

		case *ast.CompositeLit:
			for _, elt := range n.Elts {
				visitExpr(elt) // note: visits KeyValueExpr
			}

		case *ast.ParenExpr:
			visitExpr(n.X)

		case *ast.SelectorExpr:
			if seln, ok := info.Selections[n]; ok {
				visitExpr(n.X)

				// See types.SelectionKind for background.
				switch seln.Kind() {
				case types.MethodExpr:
					// A method expression T.f acts like a
					// reference to a func decl,
					// so it doesn't read x until called.

				case types.MethodVal, types.FieldVal:
					// A field or method value selection x.f
					// reads x if the selection indirects a pointer.

					if indirectSelection(seln) {
						effect(rinf)
					}
				}
			} else {
				// qualified identifier: treat like unqualified
				visitExpr(n.Sel)
			}

		case *ast.IndexExpr:
			if tv := info.Types[n.Index]; tv.IsType() {
				// no effect (G[T] instantiation)
			} else {
				visitExpr(n.X)
				visitExpr(n.Index)
				switch tv.Type.Underlying().(type) {
				case *types.Slice, *types.Pointer: // []T, *[n]T (not string, [n]T)
					effect(rinf) // indirect read of slice/array element
				}
			}

		case *ast.IndexListExpr:
			// no effect (M[K,V] instantiation)

		case *ast.SliceExpr:
			visitExpr(n.X)
			visitExpr(n.Low)
			visitExpr(n.High)
			visitExpr(n.Max)

		case *ast.TypeAssertExpr:
			visitExpr(n.X)

		case *ast.CallExpr:
			if info.Types[n.Fun].IsType() {
				// conversion T(x)
				visitExpr(n.Args[0])
			} else {
				// call f(args)
				visitExpr(n.Fun)
				for i, arg := range n.Args {
					if i == 0 && info.Types[arg].IsType() {
						continue // new(T), make(T, n)
					}
					visitExpr(arg)
				}

				// The pure built-ins have no effects beyond
				// those of their operands (not even memory reads).
				// All other calls have unknown effects.
				if !callsPureBuiltin(info, n) {
					unknown() // arbitrary effects
				}
			}

		case *ast.StarExpr:
			visitExpr(n.X)
			effect(rinf) // *ptr load or store depends on state of heap

		case *ast.UnaryExpr: // + - ! ^ & ~ <-
			visitExpr(n.X)
			if n.Op == token.ARROW {
				unknown() // effect: channel receive
			}

		case *ast.BinaryExpr:
			visitExpr(n.X)
			visitExpr(n.Y)

		case *ast.KeyValueExpr:
			visitExpr(n.Key) // may be a struct field
			visitExpr(n.Value)

		case *ast.BadExpr:
			// no effect

		case nil:
			// optional subtree

		default:
			// type syntax: unreachable given traversal
			panic(n)
		}
	}

	// visitStmt's result indicates the continuation:
	// false for return, true for the next statement.
	//
	// We could treat return as an unknown, but this way
	// yields definite effects for simple sequences like
	// {S1; S2; return}, so unreferenced parameters are
	// not spuriously added to the effects list, and thus
	// not spuriously disqualified from elimination.
	visitStmt = func(n ast.Stmt) bool {
		switch n := n.(type) {
		case *ast.DeclStmt:
			decl := n.Decl.(*ast.GenDecl)
			for _, spec := range decl.Specs {
				switch spec := spec.(type) {
				case *ast.ValueSpec:
					for _, v := range spec.Values {
						visitExpr(v)
					}

				case *ast.TypeSpec:
					// no effect
				}
			}

		case *ast.LabeledStmt:
			return visitStmt(n.Stmt)

		case *ast.ExprStmt:
			visitExpr(n.X)

		case *ast.SendStmt:
			visitExpr(n.Chan)
			visitExpr(n.Value)
			unknown() // effect: channel send

		case *ast.IncDecStmt:
			visitExpr(n.X)
			unknown() // effect: variable increment

		case *ast.AssignStmt:
			for _, lhs := range n.Lhs {
				visitExpr(lhs)
			}
			for _, rhs := range n.Rhs {
				visitExpr(rhs)
			}
			for _, lhs := range n.Lhs {
				id, _ := lhs.(*ast.Ident)
				if id != nil && id.Name == "_" {
					continue // blank assign has no effect
				}
				if n.Tok == token.DEFINE && id != nil && info.Defs[id] != nil {
					continue // new var declared by := has no effect
				}
				unknown() // assignment to existing var
				break
			}

		case *ast.GoStmt:
			visitExpr(n.Call.Fun)
			for _, arg := range n.Call.Args {
				visitExpr(arg)
			}
			unknown() // effect: create goroutine

		case *ast.DeferStmt:
			visitExpr(n.Call.Fun)
			for _, arg := range n.Call.Args {
				visitExpr(arg)
			}
			unknown() // effect: push defer

		case *ast.ReturnStmt:
			for _, res := range n.Results {
				visitExpr(res)
			}
			return false

		case *ast.BlockStmt:
			for _, stmt := range n.List {
				if !visitStmt(stmt) {
					return false
				}
			}

		case *ast.BranchStmt:
			unknown() // control flow

		case *ast.IfStmt:
			visitStmt(n.Init)
			visitExpr(n.Cond)
			unknown() // control flow

		case *ast.SwitchStmt:
			visitStmt(n.Init)
			visitExpr(n.Tag)
			unknown() // control flow

		case *ast.TypeSwitchStmt:
			visitStmt(n.Init)
			visitStmt(n.Assign)
			unknown() // control flow

		case *ast.SelectStmt:
			unknown() // control flow

		case *ast.ForStmt:
			visitStmt(n.Init)
			visitExpr(n.Cond)
			unknown() // control flow

		case *ast.RangeStmt:
			visitExpr(n.X)
			unknown() // control flow

		case *ast.EmptyStmt, *ast.BadStmt:
			// no effect

		case nil:
			// optional subtree

		default:
			panic(n)
		}
		return true
	}
	visitStmt(body)

	return effects
}
