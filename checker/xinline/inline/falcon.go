// Copyright 2023 The Go Authors. All rights reserved.
// Use of this source code is governed by a BSD-style
// license that can be found in the LICENSE file.

package inline

// This file defines the callee side of the "fallible constant" analysis.

import (
	"fmt"
	"go/ast"
	"go/constant"
	"go/format"
	"go/token"
	"go/types"
	"strconv"
	"strings"

	"golang.org/x/tools/go/types/typeutil"
	"verif/checker/xinline/typeparams"
)

// falconResult is the result of the analysis of the callee.
type falconResult struct {
	Types       []falconType // types for falcon constraint environment
	Constraints []string     // constraints (Go expressions) on values of fallible constants
}

// A falconType specifies the name and underlying type of a synthetic
// defined type for use in falcon constraints.
//
// Unique types from callee code are bijectively mapped onto falcon
// types so that constraints are independent of callee type
// information but preserve type equivalence classes.
//
// Fresh names are deliberately obscure to avoid shadowing even if a
// callee parameter has a nanme like "int" or "any".
type falconType struct {
	Name string
	Kind types.BasicKind // string/number/bool
}

// falcon identifies "fallible constant" expressions, which are
// expressions that may fail to compile if one or more of their
// operands is changed from non-constant to constant.
//
// Consider:
//
//	func sub(s string, i, j int) string { return s[i:j] }
//
// If parameters are replaced by constants, the compiler is
// required to perform these additional checks:
//
//   - if i is constant, 0 <= i.
//   - if s and i are constant, i <= len(s).
//   - ditto for j.
//   - if i and j are constant, i <= j.
//
// s[i:j] is thus a "fallible constant" expression dependent on {s, i,
// j}. Each falcon creates a set of conditional constraints across one
// or more parameter variables.
//
//   - When inlining a call such as sub("abc", -1, 2), the parameter i
//     cannot be eliminated by substitution as its argument value is
//     negative.
//
//   - When inlining sub("", 2, 1), all three parameters cannot be
//     simultaneously eliminated by substitution without violating i
//     <= len(s) and j <= len(s), but the parameters i and j could be
//     safely eliminated without s.
//
// Parameters that cannot be eliminated must remain non-constant,
// either in the form of a binding declaration:
//
//	{ var i int = -1; return "abc"[i:2] }
//
// or a parameter of a literalization:
//
//	func (i int) string { return "abc"[i:2] }(-1)
//
// These example expressions are obviously doomed to fail at run
// time, but in realistic cases such expressions are dominated by
// appropriate conditions that make them reachable only when safe:
//
//	if 0 <= i && i <= j && j <= len(s) { _ = s[i:j] }
//
// (In principle a more sophisticated inliner could entirely eliminate
// such unreachable blocks based on the condition being always-false
// for the given parameter substitution, but this is tricky to do safely
// because the type-checker considers only a single configuration.
// Consider: if runtime.GOOS == "linux" { ... }.)
//
// We believe this is an exhaustive list of "fallible constant" operations:
//
//   - switch z { case x: case y } 	// duplicate case values
//   - s[i], s[i:j], s[i:j:k]		// index out of bounds (0 <= i <= j <= k <= len(s))
//   - T{x: 0}				// index out of bounds, duplicate index
//   - x/y, x%y, x/=y, x%=y		// integer division by zero; minint/-1 overflow
//   - x+y, x-y, x*y			// arithmetic overflow
//   - x<<y				// shift out of range
//   - -x				// negation of minint
//   - T(x)				// value out of range
//
// The fundamental reason for this elaborate algorithm is that the
// "separate analysis" of callee and caller, as required when running
// in an environment such as unitchecker, means that there is no way
// for us to simply invoke the type checker on the combination of
// caller and callee code, as by the time we analyze the caller, we no
// longer have access to type information for the callee (and, in
// particular, any of its direct dependencies that are not direct
// dependencies of the caller). So, in effect, we are forced to map
// the problem in a neutral (callee-type-independent) constraint
// system that can be verified later.
func falcon(logf func(string, ...any), fset *token.FileSet, params map[*types.Var]*paramInfo, info *types.Info, decl *ast.FuncDecl) falconResult {

	st := &falconState{
		logf:   logf,
		fset:   fset,
		params: params,
		info:   info,
		decl:   decl,
	}

	// type mapping
	st.int = st.typename(types.Typ[types.Int])
	st.any = "interface{}" // don't use "any" as it may be shadowed
	for obj, info := range st.params {
		if isBasic(obj.Type(), types.IsConstType) {
			info.FalconType = st.typename(obj.Type())
		}
	}

	st.stmt(st.decl.Body)

	return st.result
}

type falconState struct {
	// inputs
	logf   func(string, ...any)
	fset   *token.FileSet
	params map[*types.Var]*paramInfo
	info   *types.Info
	decl   *ast.FuncDecl

	// working state
	int       string
	any       string
	typenames typeutil.Map

	result falconResult
}

// typename returns the name in the falcon constraint system
// of a given string/number/bool type t. Falcon types are
// specified directly in go/types data structures rather than
// by name, avoiding potential shadowing conflicts with
// confusing parameter names such as "int".
//
// Also, each distinct type (as determined by types.Identical)
// is mapped to a fresh type in the falcon system so that we
// can map the types in the callee code into a neutral form
// that does not depend on imports, allowing us to detect
// potential conflicts such as
//
//	map[any]{T1(1): 0, T2(1): 0}
//
// where T1=T2.
func (st *falconState) typename(t types.Type) string {
	name, ok := st.typenames.At(t).(string)
	if !ok {
		basic := t.Underlying().(*types.Basic)

		// That dot ۰ is an Arabic zero numeral U+06F0.
		// It is very unlikely to appear in a real program.
		// TODO(adonovan): use a non-heuristic solution.
		name = fmt.Sprintf("%s۰%d", basic, st.typenames.Len())
		st.typenames.Set(t, name)
		st.logf("falcon: emit type %s %s // %q", name, basic, t)
		st.result.Types = append(st.result.Types, falconType{
			Name: name,
			Kind: basic.Kind(),
		})
	}
	return name
}

// -- constraint emission --

// emit emits a Go expression that must have a legal type.
// In effect, we let the go/types constant folding algorithm
// do most of the heavy lifting (though it may be hard to
// believe from the complexity of this algorithm!).
func (st *falconState) emit(constraint ast.Expr) {
	var out strings.Builder
	if err := format.Node(&out, st.fset, constraint); err != nil {
		panic(err) // can't happen
	}
	syntax := out.String()
	st.logf("falcon: emit constraint %s", syntax)
	st.result.Constraints = append(st.result.Constraints, syntax)
}

// emitNonNegative emits an []T{}[index] constraint,
// which ensures index is non-negative if constant.
func (st *falconState) emitNonNegative(index ast.Expr) {
	st.emit(&ast.IndexExpr{
		X: &ast.CompositeLit{
			Type: &ast.ArrayType{
				Elt: makeIdent(st.int),
			},
		},
		Index: index,
	})
}

// emitMonotonic emits an []T{}[i:j] constraint,
// which ensures i <= j if both are constant.
func (st *falconState) emitMonotonic(i, j ast.Expr) {
	st.emit(&ast.SliceExpr{
		X: &ast.CompositeLit{
			Type: &ast.ArrayType{
				Elt: makeIdent(st.int),
			},
		},
		Low:  i,
		High: j,
	})
}

// emitUnique emits a T{elem1: 0, ... elemN: 0} constraint,
// which ensures that all constant elems are unique.
// T may be a map, slice, or array depending
// on the desired check semantics.
func (st *falconState) emitUnique(typ ast.Expr, elems []ast.Expr) {
	if len(elems) > 1 {
		var elts []ast.Expr
		for _, elem := range elems {
			elts = append(elts, &ast.KeyValueExpr{
				Key:   elem,
				Value: makeIntLit(0),
			})
		}
		st.emit(&ast.CompositeLit{
			Type: typ,
			Elts: elts,
		})
	}
}

// -- traversal --

// The traversal functions scan the callee body for expressions that
// are not constant but would become constant if the parameter vars
// were redeclared as constants, and emits for each one a constraint
// (a Go expression) with the property that it will not type-check
// (using types.CheckExpr) if the particular argument values are
// unsuitable.
//
// These constraints are checked by Inline with the actual
// constant argument values. Violations cause it to reject
// parameters as candidates for substitution.

func (st *falconState) stmt(s ast.Stmt) {
	ast.Inspect(s, func(n ast.Node) bool {
		switch n := n.(type) {
		case ast.Expr:
			_ = st.expr(n)
			return false // skip usual traversal

		case *ast.AssignStmt:
			switch n.Tok {
			case token.QUO_ASSIGN, token.REM_ASSIGN:
				// x /= y
				// Possible "integer division by zero"
				// Emit constraint: 1/y.
				_ = st.expr(n.Lhs[0])
				kY := st.expr(n.Rhs[0])
				if kY, ok := kY.(ast.Expr); ok {
					op := token.QUO
					if n.Tok == token.REM_ASSIGN {
						op = token.REM
					}
					st.emit(&ast.BinaryExpr{
						Op: op,
						X:  makeIntLit(1),
						Y:  kY,
					})
				}
				return false // skip usual traversal
			}

		case *ast.SwitchStmt:
			if n.Init != nil {
				st.stmt(n.Init)
			}
			tBool := types.Type(types.Typ[types.Bool])
			tagType := tBool // default: true
			if n.Tag != nil {
				st.expr(n.Tag)
				tagType = st.info.TypeOf(n.Tag)
			}

			// Possible "duplicate case value".
			// Emit constraint map[T]int{v1: 0, ..., vN:0}
			// to ensure all maybe-constant case values are unique
			// (unless switch tag is boolean, which is relaxed).
			var unique []ast.Expr
			for _, clause := range n.Body.List {
				clause := clause.(*ast.CaseClause)
				for _, caseval := range clause.List {
					if k := st.expr(caseval); k != nil {
						unique = append(unique, st.toExpr(k))
					}
				}
				for _, stmt := range clause.Body {
					st.stmt(stmt)
				}
			}
			if unique != nil && !types.Identical(tagType.Underlying(), tBool) {
				tname := st.any
				if !types.IsInterface(tagType) {
					tname = st.typename(tagType)
				}
				t := &ast.MapType{
					Key:   makeIdent(tname),
					Value: makeIdent(st.int),
				}
				st.emitUnique(t, unique)
			}
		}
		return true
	})
}

// fieldTypes visits the .Type of each field in the list.
func (st *falconState) fieldTypes(fields *ast.FieldList) {
	if fields != nil {
		for _, field := range fields.List {
			_ = st.expr(field.Type)
		}
	}
}

// expr visits the expression (or type) and returns a
// non-nil result if the expression is constant or would
// become constant if all suitable function parameters were
// redeclared as constants.
//
// If the expression is constant, st.expr returns its type
// and value (types.TypeAndValue). If the expression would
// become constant, st.expr returns an ast.Expr tree whose
// leaves are literals and parameter references, and whose
// interior nodes are operations that may become constant,
// such as -x, x+y, f(x), and T(x). We call these would-be
// constant expressions "fallible constants", since they may
// fail to type-check for some values of x, i, and j. (We
// refer to the non-nil cases collectively as "maybe
// constant", and the nil case as "definitely non-constant".)
//
// As a side effect, st.expr emits constraints for each
// fallible constant expression; this is its main purpose.
//
// Consequently, st.expr must visit the entire subtree so
// that all necessary constraints are emitted. It may not
// short-circuit the traversal when it encounters a constant
// subexpression as constants may contain arbitrary other
// syntax that may impose constraints. Consider (as always)
// this contrived but legal example of a type parameter (!)
// that contains statement syntax:
//
//	func f[T [unsafe.Sizeof(func() { stmts })]int]()
//
// There is no need to emit constraints for (e.g.) s[i] when s
// and i are already constants, because we know the expression
// is sound, but it is sometimes easier to emit these
// redundant constraints than to avoid them.
func (st *falconState) expr(e ast.Expr) (res any) { // = types.TypeAndValue | ast.Expr
	tv := st.info.Types[e]
	if tv.Value != nil {
		// A constant value overrides any other result.
		defer func() { res = tv }()
	}

	switch e := e.(type) {
	case *ast.Ident:
		if v, ok := st.info.Uses[e].(*types.Var); ok {
			if _, ok := st.params[v]; ok && isBasic(v.Type(), types.IsConstType) {
				return e // reference to constable parameter
			}
		}
		// (References to *types.Const are handled by the defer.)

	case *ast.BasicLit:
		// constant

	case *ast.ParenExpr:
		return st.expr(e.X)

	case *ast.FuncLit:
		_ = st.expr(e.Type)
		st.stmt(e.Body)
		// definitely non-constant

	case *ast.CompositeLit:
		// T{k: v, ...}, where T ∈ {array,*array,slice,map},
		// imposes a constraint that all constant k are
		// distinct and, for arrays [n]T, within range 0-n.
		//
		// Types matter, not just values. For example,
		// an interface-keyed map may contain keys
		// that are numerically equal so long as they
		// are of distinct types. For example:
		//
		//   type myint int
		//   map[any]bool{1: true, 1:        true} // error: duplicate key
		//   map[any]bool{1: true, int16(1): true} // ok
		//   map[any]bool{1: true, myint(1): true} // ok
		//
		// This can be asserted by emitting a
		// constraint of the form T{k1: 0, ..., kN: 0}.
		if e.Type != nil {
			_ = st.expr(e.Type)
		}
		t := types.Unalias(typeparams.Deref(tv.Type))
		var uniques []ast.Expr
		for _, elt := range e.Elts {
			if kv, ok := elt.(*ast.KeyValueExpr); ok {
				if !is[*types.Struct](t) {
					if k := st.expr(kv.Key); k != nil {
						uniques = append(uniques, st.toExpr(k))
					}
				}
				_ = st.expr(kv.Value)
			} else {
				_ = st.expr(elt)
			}
		}
		if uniques != nil {
			// Inv: not a struct.

			// The type T in constraint T{...} depends on the CompLit:
			// - for a basic-keyed map, use map[K]int;
			// - for an interface-keyed map, use map[any]int;
			// - for a slice, use []int;
			// - for an array or *array, use [n]int.
			// The last two entail progressively stronger index checks.
			var ct ast.Expr // type syntax for constraint
			switch t := typeparams.CoreType(t).(type) {
			case *types.Map:
				if types.IsInterface(t.Key()) {
					ct = &ast.MapType{
						Key:   makeIdent(st.any),
						Value: makeIdent(st.int),
					}
				} else {
					ct = &ast.MapType{
						Key:   makeIdent(st.typename(t.Key())),
						Value: makeIdent(st.int),
					}
				}
			case *types.Array: // or *array
				ct = &ast.ArrayType{
					Len: makeIntLit(t.Len()),
					Elt: makeIdent(st.int),
				}
			default:
				panic(fmt.Sprintf("%T: %v", t, t))
			}
			st.emitUnique(ct, uniques)
		}
		// definitely non-constant

	case *ast.SelectorExpr:
		_ = st.expr(e.X)
		_ = st.expr(e.Sel)
		// The defer is sufficient to handle
		// qualified identifiers (pkg.Const).
		// All other cases are definitely non-constant.

	case *ast.IndexExpr:
		if tv.IsType() {
			// type C[T]
			_ = st.expr(e.X)
			_ = st.expr(e.Index)
		} else {
			// term x[i]
			//
			// Constraints (if x is slice/string/array/*array, not map):
			// - i >= 0
			//     if i is a fallible constant
			// - i < len(x)
			//     if x is array/*array and
			//     i is a fallible constant;
			//  or if s is a string and both i,
			//     s are maybe-constants,
			//     but not both are constants.
			kX := st.expr(e.X)
			kI := st.expr(e.Index)
			if kI != nil && !is[*types.Map](st.info.TypeOf(e.X).Underlying()) {
				if kI, ok := kI.(ast.Expr); ok {
					st.emitNonNegative(kI)
				}
				// Emit constraint to check indices against known length.
				// TODO(adonovan): factor with SliceExpr logic.
				var x ast.Expr
				if kX != nil {
					// string
					x = st.toExpr(kX)
				} else if arr, ok := typeparams.CoreType(typeparams.Deref(st.info.TypeOf(e.X))).(*types.Array); ok {
					// array, *array
					x = &ast.CompositeLit{
						Type: &ast.ArrayType{
							Len: makeIntLit(arr.Len()),
							Elt: makeIdent(st.int),
						},
					}
				}
				if x != nil {
					st.emit(&ast.IndexExpr{
						X:     x,
						Index: st.toExpr(kI),
					})
				}
			}
		}
		// definitely non-constant

	case *ast.SliceExpr:
		// x[low:high:max]
		//
		// Emit non-negative constraints for each index,
		// plus low <= high <= max <= len(x)
		// for each pair that are maybe-constant
		// but not definitely constant.

		kX := st.expr(e.X)
		var kLow, kHigh, kMax any
		if e.Low != nil {
			kLow = st.expr(e.Low)
			if kLow != nil {
				if kLow, ok := kLow.(ast.Expr); ok {
					st.emitNonNegative(kLow)
				}
			}
		}
		if e.High != nil {
			kHigh = st.expr(e.High)
			if kHigh != nil {
				if kHigh, ok := kHigh.(ast.Expr); ok {
					st.emitNonNegative(kHigh)
				}
				if kLow != nil {
					st.emitMonotonic(st.toExpr(kLow), st.toExpr(kHigh))
				}
			}
		}
		if e.Max != nil {
			kMax = st.expr(e.Max)
			if kMax != nil {
				if kMax, ok := kMax.(ast.Expr); ok {
					st.emitNonNegative(kMax)
				}
				if kHigh != nil {
					st.emitMonotonic(st.toExpr(kHigh), st.toExpr(kMax))
				}
			}
		}

		// Emit constraint to check indices against known length.
		var x ast.Expr
		if kX != nil {
			// string
			x = st.toExpr(kX)
		} else if arr, ok := typeparams.CoreType(typeparams.Deref(st.info.TypeOf(e.X))).(*types.Array); ok {
			// array, *array
			x = &ast.CompositeLit{
				Type: &ast.ArrayType{
					Len: makeIntLit(arr.Len()),
					Elt: makeIdent(st.int),
				},
			}
		}
		if x != nil {
			// Avoid slice[::max] if kHigh is nonconstant (nil).
			high, max := st.toExpr(kHigh), st.toExpr(kMax)
			if high == nil {
				high = max // => slice[:max:max]
			}
			st.emit(&ast.SliceExpr{
				X:    x,
				Low:  st.toExpr(kLow),
				High: high,
				Max:  max,
			})
		}
		// definitely non-constant

	case *ast.TypeAssertExpr:
		_ = st.expr(e.X)
		if e.Type != nil {
			_ = st.expr(e.Type)
		}

	case *ast.CallExpr:
		_ = st.expr(e.Fun)
		if tv, ok := st.info.Types[e.Fun]; ok && tv.IsType() {
			// conversion T(x)
			//
			// Possible "value out of range".
			kX := st.expr(e.Args[0])
			if kX != nil && isBasic(tv.Type, types.IsConstType) {
				conv := convert(makeIdent(st.typename(tv.Type)), st.toExpr(kX))
				if is[ast.Expr](kX) {
					st.emit(conv)
				}
				return conv
			}
			return nil // definitely non-constant
		}

		// call f(x)

		all := true // all args are possibly-constant
		kArgs := make([]ast.Expr, len(e.Args))
		for i, arg := range e.Args {
			if kArg := st.expr(arg); kArg != nil {
				kArgs[i] = st.toExpr(kArg)
			} else {
				all = false
			}
		}

		// Calls to built-ins with fallibly constant arguments
		// may become constant. All other calls are either
		// constant or non-constant
		if id, ok := e.Fun.(*ast.Ident); ok && all && tv.Value == nil {
			if builtin, ok := st.info.Uses[id].(*types.Builtin); ok {
				switch builtin.Name() {
				case "len", "imag", "real", "complex", "min", "max":
					return &ast.CallExpr{
						Fun:      id,
						Args:     kArgs,
						Ellipsis: e.Ellipsis,
					}
				}
			}
		}

	case *ast.StarExpr: // *T, *ptr
		_ = st.expr(e.X)

	case *ast.UnaryExpr:
		// + - ! ^ & <- ~
		//
		// Possible "negation of minint".
		// Emit constraint: -x
		kX := st.expr(e.X)
		if kX != nil && !is[types.TypeAndValue](kX) {
			if e.Op == token.SUB {
				st.emit(&ast.UnaryExpr{
					Op: e.Op,
					X:  st.toExpr(kX),
				})
			}

			return &ast.UnaryExpr{
				Op: e.Op,
				X:  st.toExpr(kX),
			}
		}

	case *ast.BinaryExpr:
		kX := st.expr(e.X)
		kY := st.expr(e.Y)
		switch e.Op {
		case token.QUO, token.REM:
			// x/y, x%y
			//
			// Possible "integer division by zero" or
			// "minint / -1" overflow.
			// Emit constraint: x/y or 1/y
			if kY != nil {
				if kX == nil {
					kX = makeIntLit(1)
				}
				st.emit(&ast.BinaryExpr{
					Op: e.Op,
					X:  st.toExpr(kX),
					Y:  st.toExpr(kY),
				})
			}

		case token.ADD, token.SUB, token.MUL:
			// x+y, x-y, x*y
			//
			// Possible "arithmetic overflow".
			// Emit constraint: x+y
			if kX != nil && kY != nil {
				st.emit(&ast.BinaryExpr{
					Op: e.Op,
					X:  st.toExpr(kX),
					Y:  st.toExpr(kY),
				})
			}

		case token.SHL, token.SHR:
			// x << y, x >> y
			//
			// Possible "constant shift too large".
			// Either operand may be too large individually,
			// and they may be too large together.
			// Emit constraint:
			//    x << y (if both maybe-constant)
			//    x << 0 (if y is non-constant)
			//    1 << y (if x is non-constant)
			if kX != nil || kY != nil {
				x := st.toExpr(kX)
				if x == nil {
					x = makeIntLit(1)
				}
				y := st.toExpr(kY)
				if y == nil {
					y = makeIntLit(0)
				}
				st.emit(&ast.BinaryExpr{
					Op: e.Op,
					X:  x,
					Y:  y,
				})
			}

		case token.LSS, token.GTR, token.EQL, token.NEQ, token.LEQ, token.GEQ:
			// < > == != <= <=
			//
			// A "x cmp y" expression with constant operands x, y is
			// itself constant, but I can't see how a constant bool
			// could be fallible: the compiler doesn't reject duplicate
			// boolean cases in a switch, presumably because boolean
			// switches are less like n-way branches and more like
			// sequential if-else chains with possibly overlapping
			// conditions; and there is (sadly) no way to convert a
			// boolean constant to an int constant.
		}
		if kX != nil && kY != nil {
			return &ast.BinaryExpr{
				Op: e.Op,
				X:  st.toExpr(kX),
				Y:  st.toExpr(kY),
			}
		}

	// types
	//
	// We need to visit types (and even type parameters)
	// in order to reach all the places where things could go wrong:
	//
	// 	const (
	// 		s = ""
	// 		i = 0
	// 	)
	// 	type C[T [unsafe.Sizeof(func() { _ = s[i] })]int] bool

	case *ast.IndexListExpr:
		_ = st.expr(e.X)
		for _, expr := range e.Indices {
			_ = st.expr(expr)
		}

	case *ast.Ellipsis:
		if e.Elt != nil {
			_ = st.expr(e.Elt)
		}

	case *ast.ArrayType:
		if e.Len != nil {
			_ = st.expr(e.Len)
		}
		_ = st.expr(e.Elt)

	case *ast.StructType:
		st.fieldTypes(e.Fields)

	case *ast.FuncType:
		st.fieldTypes(e.TypeParams)
		st.fieldTypes(e.Params)
		st.fieldTypes(e.Results)

	case *ast.InterfaceType:
		st.fieldTypes(e.Methods)

	case *ast.MapType:
		_ = st.expr(e.Key)
		_ = st.expr(e.Value)

	case *ast.ChanType:
		_ = st.expr(e.Value)
	}
	return
}

// toExpr converts the result of visitExpr to a falcon expression.
// (We don't do this in visitExpr as we first need to discriminate
// constants from maybe-constants.)
func (st *falconState) toExpr(x any) ast.Expr {
	switch x := x.(type) {
	case nil:
		return nil

	case types.TypeAndValue:
		lit := makeLiteral(x.Value)
		if !isBasic(x.Type, types.IsUntyped) {
			// convert to "typed" type
			lit = &ast.CallExpr{
				Fun:  makeIdent(st.typename(x.Type)),
				Args: []ast.Expr{lit},
			}
		}
		return lit

	case ast.Expr:
		return x

	default:
		panic(x)
	}
}

func makeLiteral(v constant.Value) ast.Expr {
	switch v.Kind() {
	case constant.Bool:
		// Rather than refer to the true or false built-ins,
		// which could be shadowed by poorly chosen parameter
		// names, we use 0 == 0 for true and 0 != 0 for false.
		op := token.EQL
		if !constant.BoolVal(v) {
			op = token.NEQ
		}
		return &ast.BinaryExpr{
			Op: op,
			X:  makeIntLit(0),
			Y:  makeIntLit(0),
		}

	case constant.String:
		return &ast.BasicLit{
			Kind:  token.STRING,
			Value: v.ExactString(),
		}

	case constant.Int:
		return &ast.BasicLit{
			Kind:  token.INT,
			Value: v.ExactString(),
		}

	case constant.Float:
		return &ast.BasicLit{
			Kind:  token.FLOAT,
			Value: v.ExactString(),
		}

	case constant.Complex:
		// The components could be float or int.
		y := makeLiteral(constant.Imag(v))
		y.(*ast.BasicLit).Value += "i" // ugh
		if re := constant.Real(v); !consteq(re, kZeroInt) {
			// complex: x + yi
			y = &ast.BinaryExpr{
				Op: token.ADD,
				X:  makeLiteral(re),
				Y:  y,
			}
		}
		return y

	default:
		panic(v.Kind())
	}
}

func makeIntLit(x int64) *ast.BasicLit {
	return &ast.BasicLit{
		Kind:  token.INT,
		Value: strconv.FormatInt(x, 10),
	}
}

func isBasic(t types.Type, info types.BasicInfo) bool {
	basic, ok := t.Underlying().(*types.Basic)
	return ok && basic.Info()&info != 0
}
