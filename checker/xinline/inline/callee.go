// Copyright 2023 The Go Authors. All rights reserved.
// Use of this source code is governed by a BSD-style
// license that can be found in the LICENSE file.

package inline

// This file defines the analysis of the callee function.

import (
	"bytes"
	"encoding/gob"
	"fmt"
	"go/ast"
	"go/parser"
	"go/token"
	"go/types"
	"strings"

	"golang.org/x/tools/go/types/typeutil"
	"verif/checker/xinline/typeparams"
	"verif/checker/xinline/typesinternal"
)

// A Callee holds information about an inlinable function. Gob-serializable.
type Callee struct {
	impl gobCallee
}

func (callee *Callee) String() string { return callee.impl.Name }

type gobCallee struct {
	Content []byte // file content, compacted to a single func decl

	// results of type analysis (does not reach go/types data structures)
	PkgPath          string                 // package path of declaring package
	Name             string                 // user-friendly name for error messages
	Unexported       []string               // names of free objects that are unexported
	FreeRefs         []freeRef              // locations of references to free objects
	FreeObjs         []object               // descriptions of free objects
	ValidForCallStmt bool                   // function body is "return expr" where expr is f() or <-ch
	NumResults       int                    // number of results (according to type, not ast.FieldList)
	Params           []*paramInfo           // information about parameters (incl. receiver)
	Results          []*paramInfo           // information about result variables
	Effects          []int                  // order in which parameters are evaluated (see calleefx)
	HasDefer         bool                   // uses defer
	HasBareReturn    bool                   // uses bare return in non-void function
	Returns          [][]returnOperandFlags // metadata about result expressions for each return
	Labels           []string               // names of all control labels
	Falcon           falconResult           // falcon constraint system
}

// returnOperandFlags records metadata about a single result expression in a return
// statement.
type returnOperandFlags int

const (
	nonTrivialResult returnOperandFlags = 1 << iota // return operand has non-trivial conversion to result type
	untypedNilResult                                // return operand is nil literal
)

// A freeRef records a reference to a free object. Gob-serializable.
// (This means free relative to the FuncDecl as a whole, i.e. excluding parameters.)
type freeRef struct {
	Offset int // byte offset of the reference relative to the FuncDecl
	Object int // index into Callee.freeObjs
}

// An object abstracts a free types.Object referenced by the callee. Gob-serializable.
type object struct {
	Name    string // Object.Name()
	Kind    string // one of {var,func,const,type,pkgname,nil,builtin}
	PkgPath string // path of object's package (or imported package if kind="pkgname")
	PkgName string // name of object's package (or imported package if kind="pkgname")
	// TODO(rfindley): should we also track LocalPkgName here? Do we want to
	// preserve the local package name?
	ValidPos bool      // Object.Pos().IsValid()
	Shadow   shadowMap // shadowing info for the object's refs
}

// AnalyzeCallee analyzes a function that is a candidate for inlining
// and returns a Callee that describes it. The Callee object, which is
// serializable, can be passed to one or more subsequent calls to
// Inline, each with a different Caller.
//
// This design allows separate analysis of callers and callees in the
// golang.org/x/tools/go/analysis framework: the inlining information
// about a callee can be recorded as a "fact".
//
// The content should be the actual input to the compiler, not the
// apparent source file according to any //line directives that
// may be present within it.
func AnalyzeCallee(logf func(string, ...any), fset *token.FileSet, pkg *types.Package, info *types.Info, decl *ast.FuncDecl, content []byte) (*Callee, error) {
	checkInfoFields(info)

	// The client is expected to have determined that the callee
	// is a function with a declaration (not a built-in or var).
	fn := info.Defs[decl.Name].(*types.Func)
	sig := fn.Type().(*types.Signature)

	logf("analyzeCallee %v @ %v", fn, fset.PositionFor(decl.Pos(), false))

	// Create user-friendly name ("pkg.Func" or "(pkg.T).Method")
	var name string
	if sig.Recv() == nil {
		name = fmt.Sprintf("%s.%s", fn.Pkg().Name(), fn.Name())
	} else {
		name = fmt.Sprintf("(%s).%s", types.TypeString(sig.Recv().Type(), (*types.Package).Name), fn.Name())
	}

	if decl.Body == nil {
		return nil, fmt.Errorf("cannot inline function %s as it has no body", name)
	}

	// TODO(adonovan): support inlining of instantiated generic
	// functions by replacing each occurrence of a type parameter
	// T by its instantiating type argument (e.g. int). We'll need
	// to wrap the instantiating type in parens when it's not an
	// ident or qualified ident to prevent "if x == struct{}"
	// parsing ambiguity, or "T(x)" where T = "*int" or "func()"
	// from misparsing.
	if funcHasTypeParams(decl) {
		return nil, fmt.Errorf("cannot inline generic function %s: type parameters are not yet supported", name)
	}

	// Record the location of all free references in the FuncDecl.
	// (Parameters are not free by this definition.)
	var (
		fieldObjs    = fieldObjs(sig)
		freeObjIndex = make(map[types.Object]int)
		freeObjs     []object
		freeRefs     []freeRef // free refs that may need renaming
		unexported   []string  // free refs to unexported objects, for later error checks
	)
	var f func(n ast.Node) bool
	visit := func(n ast.Node) { ast.Inspect(n, f) }
	var stack []ast.Node
	stack = append(stack, decl.Type) // for scope of function itself
	f = func(n ast.Node) bool {
		if n != nil {
			stack = append(stack, n) // push
		} else {
			stack = stack[:len(stack)-1] // pop
		}
		switch n := n.(type) {
		case *ast.SelectorExpr:
			// Check selections of free fields/methods.
			if sel, ok := info.Selections[n]; ok &&
				!within(sel.Obj().Pos(), decl) &&
				!n.Sel.IsExported() {
				sym := fmt.Sprintf("(%s).%s", info.TypeOf(n.X), n.Sel.Name)
				unexported = append(unexported, sym)
			}

			// Don't recur into SelectorExpr.Sel.
			visit(n.X)
			return false

		case *ast.CompositeLit:
			// Check for struct literals that refer to unexported fields,
			// whether keyed or unkeyed. (Logic assumes well-typedness.)
			litType := typeparams.Deref(info.TypeOf(n))
			if s, ok := typeparams.CoreType(litType).(*types.Struct); ok {
				if n.Type != nil {
					visit(n.Type)
				}
				for i, elt := range n.Elts {
					var field *types.Var
					var value ast.Expr
					if kv, ok := elt.(*ast.KeyValueExpr); ok {
						field = info.Uses[kv.Key.(*ast.Ident)].(*types.Var)
						value = kv.Value
					} else {
						field = s.Field(i)
						value = elt
					}
					if !within(field.Pos(), decl) && !field.Exported() {
						sym := fmt.Sprintf("(%s).%s", litType, field.Name())
						unexported = append(unexported, sym)
					}

					// Don't recur into KeyValueExpr.Key.
					visit(value)
				}
				return false
			}

		case *ast.Ident:
			if obj, ok := info.Uses[n]; ok {
				// Methods and fields are handled by SelectorExpr and CompositeLit.
				if isField(obj) || isMethod(obj) {
					panic(obj)
				}
				// Inv: id is a lexical reference.

				// A reference to an unexported package-level declaration
				// cannot be inlined into another package.
				if !n.IsExported() &&
					obj.Pkg() != nil && obj.Parent() == obj.Pkg().Scope() {
					unexported = append(unexported, n.Name)
				}

				// Record free reference (incl. self-reference).
				if obj == fn || !within(obj.Pos(), decl) {
					objidx, ok := freeObjIndex[obj]
					if !ok {
						objidx = len(freeObjIndex)
						var pkgPath, pkgName string
						if pn, ok := obj.(*types.PkgName); ok {
							pkgPath = pn.Imported().Path()
							pkgName = pn.Imported().Name()
						} else if obj.Pkg() != nil {
							pkgPath = obj.Pkg().Path()
							pkgName = obj.Pkg().Name()
						}
						freeObjs = append(freeObjs, object{
							Name:     obj.Name(),
							Kind:     objectKind(obj),
							PkgName:  pkgName,
							PkgPath:  pkgPath,
							ValidPos: obj.Pos().IsValid(),
						})
						freeObjIndex[obj] = objidx
					}

					freeObjs[objidx].Shadow = freeObjs[objidx].Shadow.add(info, fieldObjs, obj.Name(), stack)

					freeRefs = append(freeRefs, freeRef{
						Offset: int(n.Pos() - decl.Pos()),
						Object: objidx,
					})
				}
			}
		}
		return true
	}
	visit(decl)

	// Analyze callee body for "return expr" form,
	// where expr is f() or <-ch. These forms are
	// safe to inline as a standalone statement.
	validForCallStmt := false
	if len(decl.Body.List) != 1 {
		// not just a return statement
	} else if ret, ok := decl.Body.List[0].(*ast.ReturnStmt); ok && len(ret.Results) == 1 {
		validForCallStmt = func() bool {
			switch expr := ast.Unparen(ret.Results[0]).(type) {
			case *ast.CallExpr: // f(x)
				callee := typeutil.Callee(info, expr)
				if callee == nil {
					return false // conversion T(x)
				}

				// The only non-void built-in functions that may be
				// called as a statement are copy and recover
				// (though arguably a call to recover should never
				// be inlined as that changes its behavior).
				if builtin, ok := callee.(*types.Builtin); ok {
					return builtin.Name() == "copy" ||
						builtin.Name() == "recover"
				}

				return true // ordinary call f()

			case *ast.UnaryExpr: // <-x
				return expr.Op == token.ARROW // channel receive <-ch
			}

			// No other expressions are valid statements.
			return false
		}()
	}

	// Record information about control flow in the callee
	// (but not any nested functions).
	var (
		hasDefer      = false
		hasBareReturn = false
		returnInfo    [][]returnOperandFlags
		labels        []string
	)
	ast.Inspect(decl.Body, func(n ast.Node) bool {
		switch n := n.(type) {
		case *ast.FuncLit:
			return false // prune traversal
		case *ast.DeferStmt:
			hasDefer = true
		case *ast.LabeledStmt:
			labels = append(labels, n.Label.Name)
		case *ast.ReturnStmt:

			// Are implicit assignment conversions
			// to result variables all trivial?
			var resultInfo []returnOperandFlags
			if len(n.Results) > 0 {
				argInfo := func(i int) (ast.Expr, types.Type) {
					expr := n.Results[i]
					return expr, info.TypeOf(expr)
				}
				if len(n.Results) == 1 && sig.Results().Len() > 1 {
					// Spread return: return f() where f.Results > 1.
					tuple := info.TypeOf(n.Results[0]).(*types.Tuple)
					argInfo = func(i int) (ast.Expr, types.Type) {
						return nil, tuple.At(i).Type()
					}
				}
				for i := 0; i < sig.Results().Len(); i++ {
					expr, typ := argInfo(i)
					var flags returnOperandFlags
					if typ == types.Typ[types.UntypedNil] { // untyped nil is preserved by go/types
						flags |= untypedNilResult
					}
					if !trivialConversion(info.Types[expr].Value, typ, sig.Results().At(i).Type()) {
						flags |= nonTrivialResult
					}
					resultInfo = append(resultInfo, flags)
				}
			} else if sig.Results().Len() > 0 {
				hasBareReturn = true
			}
			returnInfo = append(returnInfo, resultInfo)
		}
		return true
	})

	// Reject attempts to inline cgo-generated functions.
	for _, obj := range freeObjs {
		// There are others (iconst fconst sconst fpvar macro)
		// but this is probably sufficient.
		if strings.HasPrefix(obj.Name, "_Cfunc_") ||
			strings.HasPrefix(obj.Name, "_Ctype_") ||
			strings.HasPrefix(obj.Name, "_Cvar_") {
			return nil, fmt.Errorf("cannot inline cgo-generated functions")
		}
	}

	// Compact content to just the FuncDecl.
	//
	// As a space optimization, we don't retain the complete
	// callee file content; all we need is "package _; func f() { ... }".
	// This reduces the size of analysis facts.
	//
	// Offsets in the callee information are "relocatable"
	// since they are all relative to the FuncDecl.

	content = append([]byte("package _\n"),
		content[offsetOf(fset, decl.Pos()):offsetOf(fset, decl.End())]...)
	// Sanity check: re-parse the compacted content.
	if _, _, err := parseCompact(content); err != nil {
		return nil, err
	}

	params, results, effects, falcon := analyzeParams(logf, fset, info, decl)
	return &Callee{gobCallee{
		Content:          content,
		PkgPath:          pkg.Path(),
		Name:             name,
		Unexported:       unexported,
		FreeObjs:         freeObjs,
		FreeRefs:         freeRefs,
		ValidForCallStmt: validForCallStmt,
		NumResults:       sig.Results().Len(),
		Params:           params,
		Results:          results,
		Effects:          effects,
		HasDefer:         hasDefer,
		HasBareReturn:    hasBareReturn,
		Returns:          returnInfo,
		Labels:           labels,
		Falcon:           falcon,
	}}, nil
}

// parseCompact parses a Go source file of the form "package _\n func f() { ... }"
// and returns the sole function declaration.
func parseCompact(content []byte) (*token.FileSet, *ast.FuncDecl, error) {
	fset := token.NewFileSet()
	const mode = parser.ParseComments | parser.SkipObjectResolution | parser.AllErrors
	f, err := parser.ParseFile(fset, "callee.go", content, mode)
	if err != nil {
		return nil, nil, fmt.Errorf("internal error: cannot compact file: %v", err)
	}
	return fset, f.Decls[0].(*ast.FuncDecl), nil
}

// A paramInfo records information about a callee receiver, parameter, or result variable.
type paramInfo struct {
	Name        string    // parameter name (may be blank, or even "")
	Index       int       // index within signature
	IsResult    bool      // false for receiver or parameter, true for result variable
	IsInterface bool      // parameter has a (non-type parameter) interface type
	Assigned    bool      // parameter appears on left side of an assignment statement
	Escapes     bool      // parameter has its address taken
	Refs        []refInfo // information about references to parameter within body
	Shadow      shadowMap // shadowing info for the above refs; see [shadowMap]
	FalconType  string    // name of this parameter's type (if basic) in the falcon system
}

type refInfo struct {
	Offset           int  // FuncDecl-relative byte offset of parameter ref within body
	Assignable       bool // ref appears in context of assignment to known type
	IfaceAssignment  bool // ref is being assigned to an interface
	AffectsInference bool // ref type may affect type inference
	// IsSelectionOperand indicates whether the parameter reference is the
	// operand of a selection (param.f). If so, and param's argument is itself
	// a receiver parameter (a common case), we don't need to desugar (&v or *ptr)
	// the selection: if param.Method is a valid selection, then so is param.fieldOrMethod.
	IsSelectionOperand bool
}

// analyzeParams computes information about parameters of function fn,
// including a simple "address taken" escape analysis.
//
// It returns two new arrays, one of the receiver and parameters, and
// the other of the result variables of function fn.
//
// The input must be well-typed.
func analyzeParams(logf func(string, ...any), fset *token.FileSet, info *types.Info, decl *ast.FuncDecl) (params, results []*paramInfo, effects []int, _ falconResult) {
	fnobj, ok := info.Defs[decl.Name]
	if !ok {
		panic(fmt.Sprintf("%s: no func object for %q",
			fset.PositionFor(decl.Name.Pos(), false), decl.Name)) // ill-typed?
	}
	sig := fnobj.Type().(*types.Signature)

	paramInfos := make(map[*types.Var]*paramInfo)
	{
		newParamInfo := func(param *types.Var, isResult bool) *paramInfo {
			info := &paramInfo{
				Name:        param.Name(),
				IsResult:    isResult,
				Index:       len(paramInfos),
				IsInterface: isNonTypeParamInterface(param.Type()),
			}
			paramInfos[param] = info
			return info
		}
		if sig.Recv() != nil {
			params = append(params, newParamInfo(sig.Recv(), false))
		}
		for i := 0; i < sig.Params().Len(); i++ {
			params = append(params, newParamInfo(sig.Params().At(i), false))
		}
		for i := 0; i < sig.Results().Len(); i++ {
			results = append(results, newParamInfo(sig.Results().At(i), true))
		}
	}

	// Search function body for operations &x, x.f(), and x = y
	// where x is a parameter, and record it.
	escape(info, decl, func(v *types.Var, escapes bool) {
		if info := paramInfos[v]; info != nil {
			if escapes {
				info.Escapes = true
			} else {
				info.Assigned = true
			}
		}
	})

	// Record locations of all references to parameters.
	// And record the set of intervening definitions for each parameter.
	//
	// TODO(adonovan): combine this traversal with the one that computes
	// FreeRefs. The tricky part is that calleefx needs this one first.
	fieldObjs := fieldObjs(sig)
	var stack []ast.Node
	stack = append(stack, decl.Type) // for scope of function itself
	ast.Inspect(decl.Body, func(n ast.Node) bool {
		if n != nil {
			stack = append(stack, n) // push
		} else {
			stack = stack[:len(stack)-1] // pop
		}

		if id, ok := n.(*ast.Ident); ok {
			if v, ok := info.Uses[id].(*types.Var); ok {
				if pinfo, ok := paramInfos[v]; ok {
					// Record ref information, and any intervening (shadowing) names.
					//
					// If the parameter v has an interface type, and the reference id
					// appears in a context where assignability rules apply, there may be
					// an implicit interface-to-interface widening. In that case it is
					// not necessary to insert an explicit conversion from the argument
					// to the parameter's type.
					//
					// Contrapositively, if param is not an interface type, then the
					// assignment may lose type information, for example in the case that
					// the substituted expression is an untyped constant or unnamed type.
					assignable, ifaceAssign, affectsInference := analyzeAssignment(info, stack)
					ref := refInfo{
						Offset:             int(n.Pos() - decl.Pos()),
						Assignable:         assignable,
						IfaceAssignment:    ifaceAssign,
						AffectsInference:   affectsInference,
						IsSelectionOperand: isSelectionOperand(stack),
					}
					pinfo.Refs = append(pinfo.Refs, ref)
					pinfo.Shadow = pinfo.Shadow.add(info, fieldObjs, pinfo.Name, stack)
				}
			}
		}
		return true
	})

	// Compute subset and order of parameters that are strictly evaluated.
	// (Depends on Refs computed above.)
	effects = calleefx(info, decl.Body, paramInfos)
	logf("effects list = %v", effects)

	falcon := falcon(logf, fset, paramInfos, info, decl)

	return params, results, effects, falcon
}

// -- callee helpers --

// analyzeAssignment looks at the the given stack, and analyzes certain
// attributes of the innermost expression.
//
// In all cases we 'fail closed' when we cannot detect (or for simplicity
// choose not to detect) the condition in question, meaning we err on the side
// of the more restrictive rule. This is noted for each result below.
//
//   - assignable reports whether the expression is used in a position where
//     assignability rules apply, such as in an actual assignment, as call
//     argument, or in a send to a channel. Defaults to 'false'. If assignable
//     is false, the other two results are irrelevant.
//   - ifaceAssign reports whether that assignment is to an interface type.
//     This is important as we want to preserve the concrete type in that
//     assignment. Defaults to 'true'. Notably, if the assigned type is a type
//     parameter, we assume that it could have interface type.
//   - affectsInference is (somewhat vaguely) defined as whether or not the
//     type of the operand may affect the type of the surrounding syntax,
//     through type inference. It is infeasible to completely reverse engineer
//     type inference, so we over approximate: if the expression is an argument
//     to a call to a generic function (but not method!) that uses type
//     parameters, assume that unification of that argument may affect the
//     inferred types.
func analyzeAssignment(info *types.Info, stack []ast.Node) (assignable, ifaceAssign, affectsInference bool) {
	remaining, parent, expr := exprContext(stack)
	if parent == nil {
		return false, false, false
	}

	// TODO(golang/go#70638): simplify when types.Info records implicit conversions.

	// Types do not need to match for assignment to a variable.
	if assign, ok := parent.(*ast.AssignStmt); ok {
		for i, v := range assign.Rhs {
			if v == expr {
				if i >= len(assign.Lhs) {
					return false, false, false // ill typed
				}
				// Check to see if the assignment is to an interface type.
				if i < len(assign.Lhs) {
					// TODO: We could handle spread calls here, but in current usage expr
					// is an ident.
					if id, _ := assign.Lhs[i].(*ast.Ident); id != nil && info.Defs[id] != nil {
						// Types must match for a defining identifier in a short variable
						// declaration.
						return false, false, false
					}
					// In all other cases, types should be known.
					typ := info.TypeOf(assign.Lhs[i])
					return true, typ == nil || types.IsInterface(typ), false
				}
				// Default:
				return assign.Tok == token.ASSIGN, true, false
			}
		}
	}

	// Types do not need to match for an initializer with known type.
	if spec, ok := parent.(*ast.ValueSpec); ok && spec.Type != nil {
		for _, v := range spec.Values {
			if v == expr {
				typ := info.TypeOf(spec.Type)
				return true, typ == nil || types.IsInterface(typ), false
			}
		}
	}

	// Types do not need to match for index expresions.
	if ix, ok := parent.(*ast.IndexExpr); ok {
		if ix.Index == expr {
			typ := info.TypeOf(ix.X)
			if typ == nil {
				return true, true, false
			}
			m, _ := typeparams.CoreType(typ).(*types.Map)
			return true, m == nil || types.IsInterface(m.Key()), false
		}
	}

	// Types do not need to match for composite literal keys, values, or
	// fields.
	if kv, ok := parent.(*ast.KeyValueExpr); ok {
		var under types.Type
		if len(remaining) > 0 {
			if complit, ok := remaining[len(remaining)-1].(*ast.CompositeLit); ok {
				if typ := info.TypeOf(complit); typ != nil {
					// Unpointer to allow for pointers to slices or arrays, which are
					// permitted as the types of nested composite literals without a type
					// name.
					under = typesinternal.Unpointer(typeparams.CoreType(typ))
				}
			}
		}
		if kv.Key == expr { // M{expr: ...}: assign to map key
			m, _ := under.(*types.Map)
			return true, m == nil || types.IsInterface(m.Key()), false
		}
		if kv.Value == expr {
			switch under := under.(type) {
			case interface{ Elem() types.Type }: // T{...: expr}: assign to map/array/slice element
				return true, types.IsInterface(under.Elem()), false
			case *types.Struct: // Struct{k: expr}
				if id, _ := kv.Key.(*ast.Ident); id != nil {
					for fi := 0; fi < under.NumFields(); fi++ {
						field := under.Field(fi)
						if info.Uses[id] == field {
							return true, types.IsInterface(field.Type()), false
						}
					}
				}
			default:
				return true, true, false
			}
		}
	}
	if lit, ok := parent.(*ast.CompositeLit); ok {
		for i, v := range lit.Elts {
			if v == expr {
				typ := info.TypeOf(lit)
				if typ == nil {
					return true, true, false
				}
				// As in the KeyValueExpr case above, unpointer to handle pointers to
				// array/slice literals.
				under := typesinternal.Unpointer(typeparams.CoreType(typ))
				switch under := under.(type) {
				case interface{ Elem() types.Type }: // T{expr}: assign to map/array/slice element
					return true, types.IsInterface(under.Elem()), false
				case *types.Struct: // Struct{expr}: assign to unkeyed struct field
					if i < under.NumFields() {
						return true, types.IsInterface(under.Field(i).Type()), false
					}
				}
				return true, true, false
			}
		}
	}

	// Types do not need to match for values sent to a channel.
	if send, ok := parent.(*ast.SendStmt); ok {
		if send.Value == expr {
			typ := info.TypeOf(send.Chan)
			if typ == nil {
				return true, true, false
			}
			ch, _ := typeparams.CoreType(typ).(*types.Chan)
			return true, ch == nil || types.IsInterface(ch.Elem()), false
		}
	}

	// Types do not need to match for an argument to a call, unless the
	// corresponding parameter has type parameters, as in that case the
	// argument type may affect inference.
	if call, ok := parent.(*ast.CallExpr); ok {
		if _, ok := isConversion(info, call); ok {
			return false, false, false // redundant conversions are handled at the call site
		}
		// Ordinary call. Could be a call of a func, builtin, or function value.
		for i, arg := range call.Args {
			if arg == expr {
				typ := info.TypeOf(call.Fun)
				if typ == nil {
					return true, true, false
				}
				sig, _ := typeparams.CoreType(typ).(*types.Signature)
				if sig != nil {
					// Find the relevant parameter type, accounting for variadics.
					paramType := paramTypeAtIndex(sig, call, i)
					ifaceAssign := paramType == nil || types.IsInterface(paramType)
					affectsInference := false
					if fn := typeutil.StaticCallee(info, call); fn != nil {
						if sig2 := fn.Type().(*types.Signature); sig2.Recv() == nil {
							originParamType := paramTypeAtIndex(sig2, call, i)
							affectsInference = originParamType == nil || new(typeparams.Free).Has(originParamType)
						}
					}
					return true, ifaceAssign, affectsInference
				}
			}
		}
	}

	return false, false, false
}

// paramTypeAtIndex returns the effective parameter type at the given argument
// index in call, if valid.
func paramTypeAtIndex(sig *types.Signature, call *ast.CallExpr, index int) types.Type {
	if plen := sig.Params().Len(); sig.Variadic() && index >= plen-1 && !call.Ellipsis.IsValid() {
		if s, ok := sig.Params().At(plen - 1).Type().(*types.Slice); ok {
			return s.Elem()
		}
	} else if index < plen {
		return sig.Params().At(index).Type()
	}
	return nil // ill typed
}

// exprContext returns the innermost parent->child expression nodes for the
// given outer-to-inner stack, after stripping parentheses, along with the
// remaining stack up to the parent node.
//
// If no such context exists, returns (nil, nil).
func exprContext(stack []ast.Node) (remaining []ast.Node, parent ast.Node, expr ast.Expr) {
	expr, _ = stack[len(stack)-1].(ast.Expr)
	if expr == nil {
		return nil, nil, nil
	}
	i := len(stack) - 2
	for ; i >= 0; i-- {
		if pexpr, ok := stack[i].(*ast.ParenExpr); ok {
			expr = pexpr
		} else {
			parent = stack[i]
			break
		}
	}
	if parent == nil {
		return nil, nil, nil
	}
	// inv: i is the index of parent in the stack.
	return stack[:i], parent, expr
}

// isSelectionOperand reports whether the innermost node of stack is operand
// (x) of a selection x.f.
func isSelectionOperand(stack []ast.Node) bool {
	_, parent, expr := exprContext(stack)
	if parent == nil {
		return false
	}
	sel, ok := parent.(*ast.SelectorExpr)
	return ok && sel.X == expr
}

// A shadowMap records information about shadowing at any of the parameter's
// references within the callee decl.
//
// For each name shadowed at a reference to the parameter within the callee
// body, shadow map records the 1-based index of the callee decl parameter
// causing the shadowing, or -1, if the shadowing is not due to a callee decl.
// A value of zero (or missing) indicates no shadowing. By convention,
// self-shadowing is excluded from the map.
//
// For example, in the following callee
//
//	func f(a, b int) int {
//		c := 2 + b
//		return a + c
//	}
//
// the shadow map of a is {b: 2, c: -1}, because b is shadowed by the 2nd
// parameter. The shadow map of b is {a: 1}, because c is not shadowed at the
// use of b.
type shadowMap map[string]int

// add returns the [shadowMap] augmented by the set of names
// locally shadowed at the location of the reference in the callee
// (identified by the stack). The name of the reference itself is
// excluded.
//
// These shadowed names may not be used in a replacement expression
// for the reference.
func (s shadowMap) add(info *types.Info, paramIndexes map[types.Object]int, exclude string, stack []ast.Node) shadowMap {
	for _, n := range stack {
		if scope := scopeFor(info, n); scope != nil {
			for _, name := range scope.Names() {
				if name != exclude {
					if s == nil {
						s = make(shadowMap)
					}
					obj := scope.Lookup(name)
					if idx, ok := paramIndexes[obj]; ok {
						s[name] = idx + 1
					} else {
						s[name] = -1
					}
				}
			}
		}
	}
	return s
}

// fieldObjs returns a map of each types.Object defined by the given signature
// to its index in the parameter list. Parameters with missing or blank name
// are skipped.
func fieldObjs(sig *types.Signature) map[types.Object]int {
	m := make(map[types.Object]int)
	for i := range sig.Params().Len() {
		if p := sig.Params().At(i); p.Name() != "" && p.Name() != "_" {
			m[p] = i
		}
	}
	return m
}

func isField(obj types.Object) bool {
	if v, ok := obj.(*types.Var); ok && v.IsField() {
		return true
	}
	return false
}

func isMethod(obj types.Object) bool {
	if f, ok := obj.(*types.Func); ok && f.Type().(*types.Signature).Recv() != nil {
		return true
	}
	return false
}

// -- serialization --

var (
	_ gob.GobEncoder = (*Callee)(nil)
	_ gob.GobDecoder = (*Callee)(nil)
)

func (callee *Callee) GobEncode() ([]byte, error) {
	var out bytes.Buffer
	if err := gob.NewEncoder(&out).Encode(callee.impl); err != nil {
		return nil, err
	}
	return out.Bytes(), nil
}

func (callee *Callee) GobDecode(data []byte) error {
	return gob.NewDecoder(bytes.NewReader(data)).Decode(&callee.impl)
}
