// Copyright 2023 The Go Authors. All rights reserved.
// Use of this source code is governed by a BSD-style
// license that can be found in the LICENSE file.

/*
Package inline implements inlining of Go function calls.

The client provides information about the caller and callee,
including the source text, syntax tree, and type information, and
the inliner returns the modified source file for the caller, or an
error if the inlining operation is invalid (for example because the
function body refers to names that are inaccessible to the caller).

Although this interface demands more information from the client
than might seem necessary, it enables smoother integration with
existing batch and interactive tools that have their own ways of
managing the processes of reading, parsing, and type-checking
packages. In particular, this package does not assume that the
caller and callee belong to the same token.FileSet or
types.Importer realms.

There are many aspects to a function call. It is the only construct
that can simultaneously bind multiple variables of different
explicit types, with implicit assignment conversions. (Neither var
nor := declarations can do that.) It defines the scope of control
labels, of return statements, and of defer statements. Arguments
and results of function calls may be tuples even though tuples are
not first-class values in Go, and a tuple-valued call expression
may be "spread" across the argument list of a call or the operands
of a return statement. All these unique features mean that in the
general case, not everything that can be expressed by a function
call can be expressed without one.

So, in general, inlining consists of modifying a function or method
call expression f(a1, ..., an) so that the name of the function f
is replaced ("literalized") by a literal copy of the function
declaration, with free identifiers suitably modified to use the
locally appropriate identifiers or perhaps constant argument
values.

Inlining must not change the semantics of the call. Semantics
preservation is crucial for clients such as codebase maintenance
tools that automatically inline all calls to designated functions
on a large scale. Such tools must not introduce subtle behavior
changes. (Fully inlining a call is dynamically observable using
reflection over the call stack, but this exception to the rule is
explicitly allowed.)

In many cases it is possible to entirely replace ("reduce") the
call by a copy of the function's body in which parameters have been
replaced by arguments. The inliner supports a number of reduction
strategies, and we expect this set to grow. Nonetheless, sound
reduction is surprisingly tricky.

The inliner is in some ways like an optimizing compiler. A compiler
is considered correct if it doesn't change the meaning of the
program in translation from source language to target language. An
optimizing compiler exploits the particulars of the input to
generate better code, where "better" usually means more efficient.
When a case is found in which it emits suboptimal code, the
compiler is improved to recognize more cases, or more rules, and
more exceptions to rules; this process has no end. Inlining is
similar except that "better" code means tidier code. The baseline
translation (literalization) is correct, but there are endless
rules--and exceptions to rules--by which the output can be
improved.

The following section lists some of the challenges, and ways in
which they can be addressed.

  - All effects of the call argument expressions must be preserved,
    both in their number (they must not be eliminated or repeated),
    and in their order (both with respect to other arguments, and any
    effects in the callee function).

    This must be the case even if the corresponding parameters are
    never referenced, are referenced multiple times, referenced in
    a different order from the arguments, or referenced within a
    nested function that may be executed an arbitrary number of
    times.

    Currently, parameter replacement is not applied to arguments
    with effects, but with further analysis of the sequence of
    strict effects within the callee we could relax this constraint.

  - When not all parameters can be substituted by their arguments
    (e.g. due to possible effects), if the call appears in a
    statement context, the inliner may introduce a var declaration
    that declares the parameter variables (with the correct types)
    and assigns them to their corresponding argument values.
    The rest of the function body may then follow.
    For example, the call

    f(1, 2)

    to the function

    func f(x, y int32) { stmts }

    may be reduced to

    { var x, y int32 = 1, 2; stmts }.

    There are many reasons why this is not always possible. For
    example, true parameters are statically resolved in the same
    scope, and are dynamically assigned their arguments in
    parallel; but each spec in a var declaration is statically
    resolved in sequence and dynamically executed in sequence, so
    earlier parameters may shadow references in later ones.

  - Even an argument expression as simple as ptr.x may not be
    referentially transparent, because another argument may have the
    effect of changing the value of ptr.

    This constraint could be relaxed by some kind of alias or
    escape analysis that proves that ptr cannot be mutated during
    the call.

  - Although constants are referentially transparent, as a matter of
    style we do not wish to duplicate literals that are referenced
    multiple times in the body because this undoes proper factoring.
    Also, string literals may be arbitrarily large.

  - If the function body consists of statements other than just
    "return expr", in some contexts it may be syntactically
    impossible to reduce the call. Consider:

    if x := f(); cond { ... }

    Go has no equivalent to Lisp's progn or Rust's blocks,
    nor ML's let expressions (let param = arg in body);
    its closest equivalent is func(param){body}(arg).
    Reduction strategies must therefore consider the syntactic
    context of the call.

    In such situations we could work harder to extract a statement
    context for the call, by transforming it to:

    { x := f(); if cond { ... } }

  - Similarly, without the equivalent of Rust-style blocks and
    first-class tuples, there is no general way to reduce a call
    to a function such as

    func(params)(args)(results) { stmts; return expr }

    to an expression such as

    { var params = args; stmts; expr }

    or even a statement such as

    results = { var params = args; stmts; expr }

    Consequently the declaration and scope of the result variables,
    and the assignment and control-flow implications of the return
    statement, must be dealt with by cases.

  - A standalone call statement that calls a function whose body is
    "return expr" cannot be simply replaced by the body expression
    if it is not itself a call or channel receive expression; it is
    necessary to explicitly discard the result using "_ = expr".

    Similarly, if the body is a call expression, only calls to some
    built-in functions with no result (such as copy or panic) are
    permitted as statements, whereas others (such as append) return
    a result that must be used, even if just by discarding.

  - If a parameter or result variable is updated by an assignment
    within the function body, it cannot always be safely replaced
    by a variable in the caller. For example, given

    func f(a int) int { a++; return a }

    The call y = f(x) cannot be replaced by { x++; y = x } because
    this would change the value of the caller's variable x.
    Only if the caller is finished with x is this safe.

    A similar argument applies to parameter or result variables
    that escape: by eliminating a variable, inlining would change
    the identity of the variable that escapes.

  - If the function body uses 'defer' and the inlined call is not a
    tail-call, inlining may delay the deferred effects.

  - Because the scope of a control label is the entire function, a
    call cannot be reduced if the caller and callee have intersecting
    sets of control labels. (It is possible to α-rename any
    conflicting ones, but our colleagues building C++ refactoring
    tools report that, when tools must choose new identifiers, they
    generally do a poor job.)

  - Given

    func f() uint8 { return 0 }

    var x any = f()

    reducing the call to var x any = 0 is unsound because it
    discards the implicit conversion to uint8. We may need to make
    each argument-to-parameter conversion explicit if the types
    differ. Assignments to variadic parameters may need to
    explicitly construct a slice.

    An analogous problem applies to the implicit assignments in
    return statements:

    func g() any { return f() }

    Replacing the call f() with 0 would silently lose a
    conversion to uint8 and change the behavior of the program.

  - When inlining a call f(1, x, g()) where those parameters are
    unreferenced, we should be able to avoid evaluating 1 and x
    since they are pure and thus have no effect. But x may be the
    last reference to a local variable in the caller, so removing
    it would cause a compilation error. Parameter substitution must
    avoid making the caller's local variables unreferenced (or must
    be prepared to eliminate the declaration too---this is where an
    iterative framework for simplification would really help).

  - An expression such as s[i] may be valid if s and i are
    variables but invalid if either or both of them are constants.
    For example, a negative constant index s[-1] is always out of
    bounds, and even a non-negative constant index may be out of
    bounds depending on the particular string constant (e.g.
    "abc"[4]).

    So, if a parameter participates in any expression that is
    subject to additional compile-time checks when its operands are
    constant, it may be unsafe to substitute that parameter by a
    constant argument value (#62664).

More complex callee functions are inlinable with more elaborate and
invasive changes to the statements surrounding the call expression.

TODO(adonovan): future work:

  - Handle more of the above special cases by careful analysis,
    thoughtful factoring of the large design space, and thorough
    test coverage.

  - Compute precisely (not conservatively) when parameter
    substitution would remove the last reference to a caller local
    variable, and blank out the local instead of retreating from
    the substitution.

  - Afford the client more control such as a limit on the total
    increase in line count, or a refusal to inline using the
    general approach (replacing name by function literal). This
    could be achieved by returning metadata alongside the result
    and having the client conditionally discard the change.

  - Support inlining of generic functions, replacing type parameters
    by their instantiations.

  - Support inlining of calls to function literals ("closures").
    But note that the existing algorithm makes widespread assumptions
    that the callee is a package-level function or method.

  - Eliminate explicit conversions of "untyped" literals inserted
    conservatively when they are redundant. For example, the
    conversion int32(1) is redundant when this value is used only as a
    slice index; but it may be crucial if it is used in x := int32(1)
    as it changes the type of x, which may have further implications.
    The conversions may also be important to the falcon analysis.

  - Allow non-'go' build systems such as Bazel/Blaze a chance to
    decide whether an import is accessible using logic other than
    "/internal/" path segments. This could be achieved by returning
    the list of added import paths instead of a text diff.

  - Inlining a function from another module may change the
    effective version of the Go language spec that governs it. We
    should probably make the client responsible for rejecting
    attempts to inline from newer callees to older callers, since
    there's no way for this package to access module versions.

  - Use an alternative implementation of the import-organizing
    operation that doesn't require operating on a complete file
    (and reformatting). Then return the results in a higher-level
    form as a set of import additions and deletions plus a single
    diff that encloses the call expression. This interface could
    perhaps be implemented atop imports.Process by post-processing
    its result to obtain the abstract import changes and discarding
    its formatted output.
*/
package inline
