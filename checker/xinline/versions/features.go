// Copyright 2023 The Go Authors. All rights reserved.
// Use of this source code is governed by a BSD-style
// license that can be found in the LICENSE file.

package versions

// This file contains predicates for working with file versions to
// decide when a tool should consider a language feature enabled.

// GoVersions that features in x/tools can be gated to.
const (
	Go1_18 = "go1.18"
	Go1_19 = "go1.19"
	Go1_20 = "go1.20"
	Go1_21 = "go1.21"
	Go1_22 = "go1.22"
)

// Future is an invalid unknown Go version sometime in the future.
// Do not use directly with Compare.
const Future = ""

// AtLeast reports whether the file version v comes after a Go release.
//
// Use this predicate to enable a behavior once a certain Go release
// has happened (and stays enabled in the future).
func AtLeast(v, release string) bool {
	if v == Future {
		return true // an unknown future version is always after y.
	}
	return Compare(Lang(v), Lang(release)) >= 0
}

// Before reports whether the file version v is strictly before a Go release.
//
// Use this predicate to disable a behavior once a certain Go release
// has happened (and stays enabled in the future).
func Before(v, release string) bool {
	if v == Future {
		return false // an unknown future version happens after y.
	}
	return Compare(Lang(v), Lang(release)) < 0
}
