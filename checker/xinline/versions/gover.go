// Copyright 2023 The Go Authors. All rights reserved.
// Use of this source code is governed by a BSD-style
// license that can be found in the LICENSE file.

// This is a fork of internal/gover for use by x/tools until
// go1.21 and earlier are no longer supported by x/tools.

package versions

import "strings"

// A gover is a parsed Go gover: major[.Minor[.Patch]][kind[pre]]
// The numbers are the original decimal strings to avoid integer overflows
// and since there is very little actual math. (Probably overflow doesn't matter in practice,
// but at the time this code was written, there was an existing test that used
// go1.99999999999, which does not fit in an int on 32-bit platforms.
// The "big decimal" representation avoids the problem entirely.)
type gover struct {
	major string // decimal
	minor string // decimal or ""
	patch string // decimal or ""
	kind  string // "", "alpha", "beta", "rc"
	pre   string // decimal or ""
}

// compare returns -1, 0, or +1 depending on whether
// x < y, x == y, or x > y, interpreted as toolchain versions.
// The versions x and y must not begin with a "go" prefix: just "1.21" not "go1.21".
// Malformed versions compare less than well-formed versions and equal to each other.
// The language version "1.21" compares less than the release candidate and eventual releases "1.21rc1" and "1.21.0".
func compare(x, y string) int {
	vx := parse(x)
	vy := parse(y)

	if c := cmpInt(vx.major, vy.major); c != 0 {
		return c
	}
	if c := cmpInt(vx.minor, vy.minor); c != 0 {
		return c
	}
	if c := cmpInt(vx.patch, vy.patch); c != 0 {
		return c
	}
	if c := strings.Compare(vx.kind, vy.kind); c != 0 { // "" < alpha < beta < rc
		return c
	}
	if c := cmpInt(vx.pre, vy.pre); c != 0 {
		return c
	}
	return 0
}

// lang returns the Go language version. For example, lang("1.2.3") == "1.2".
func lang(x string) string {
	v := parse(x)
	if v.minor == "" || v.major == "1" && v.minor == "0" {
		return v.major
	}
	return v.major + "." + v.minor
}

// isValid reports whether the version x is valid.
func isValid(x string) bool {
	return parse(x) != gover{}
}

// parse parses the Go version string x into a version.
// It returns the zero version if x is malformed.
func parse(x string) gover {
	var v gover

	// Parse major version.
	var ok bool
	v.major, x, ok = cutInt(x)
	if !ok {
		return gover{}
	}
	if x == "" {
		// Interpret "1" as "1.0.0".
		v.minor = "0"
		v.patch = "0"
		return v
	}

	// Parse . before minor version.
	if x[0] != '.' {
		return gover{}
	}

	// Parse minor version.
	v.minor, x, ok = cutInt(x[1:])
	if !ok {
		return gover{}
	}
	if x == "" {
		// Patch missing is same as "0" for older versions.
		// Starting in Go 1.21, patch missing is different from explicit .0.
		if cmpInt(v.minor, "21") < 0 {
			v.patch = "0"
		}
		return v
	}

	// Parse patch if present.
	if x[0] == '.' {
		v.patch, x, ok = cutInt(x[1:])
		if !ok || x != "" {
			// Note that we are disallowing prereleases (alpha, beta, rc) for patch releases here (x != "").
			// Allowing them would be a bit confusing because we already have:
			//	1.21 < 1.21rc1
			// But a prerelease of a patch would have the opposite effect:
			//	1.21.3rc1 < 1.21.3
			// We've never needed them before, so let's not start now.
			return gover{}
		}
		return v
	}

	// Parse prerelease.
	i := 0
	for i < len(x) && (x[i] < '0' || '9' < x[i]) {
		if x[i] < 'a' || 'z' < x[i] {
			return gover{}
		}
		i++
	}
	if i == 0 {
		return gover{}
	}
	v.kind, x = x[:i], x[i:]
	if x == "" {
		return v
	}
	v.pre, x, ok = cutInt(x)
	if !ok || x != "" {
		return gover{}
	}

	return v
}

// cutInt scans the leading decimal number at the start of x to an integer
// and returns that value and the rest of the string.
func cutInt(x string) (n, rest string, ok bool) {
	i := 0
	for i < len(x) && '0' <= x[i] && x[i] <= '9' {
		i++
	}
	if i == 0 || x[0] == '0' && i != 1 { // no digits or unnecessary leading zero
		return "", "", false
	}
	return x[:i], x[i:], true
}

// cmpInt returns cmp.Compare(x, y) interpreting x and y as decimal numbers.
// (Copied from golang.org/x/mod/semver's compareInt.)
func cmpInt(x, y string) int {
	if x == y {
		return 0
	}
	if len(x) < len(y) {
		return -1
	}
	if len(x) > len(y) {
		return +1
	}
	if x < y {
		return -1
	} else {
		return +1
	}
}
