// Copyright 2023 The Go Authors. All rights reserved.
// Use of this source code is governed by a BSD-style
// license that can be found in the LICENSE file.

package versions

import (
	"strings"
)

// Note: If we use build tags to use go/versions when go >=1.22,
// we run into go.dev/issue/53737. Under some operations users would see an
// import of "go/versions" even if they would not compile the file.
// For example, during `go get -u ./...` (go.dev/issue/64490) we do not try to include
// For this reason, this library just a clone of go/versions for the moment.

// Lang returns the Go language version for version x.
// If x is not a valid version, Lang returns the empty string.
// For example:
//
//	Lang("go1.21rc2") = "go1.21"
//	Lang("go1.21.2") = "go1.21"
//	Lang("go1.21") = "go1.21"
//	Lang("go1") = "go1"
//	Lang("bad") = ""
//	Lang("1.21") = ""
func Lang(x string) string {
	v := lang(stripGo(x))
	if v == "" {
		return ""
	}
	return x[:2+len(v)] // "go"+v without allocation
}

// Compare returns -1, 0, or +1 depending on whether
// x < y, x == y, or x > y, interpreted as Go versions.
// The versions x and y must begin with a "go" prefix: "go1.21" not "1.21".
// Invalid versions, including the empty string, compare less than
// valid versions and equal to each other.
// The language version "go1.21" compares less than the
// release candidate and eventual releases "go1.21rc1" and "go1.21.0".
// Custom toolchain suffixes are ignored during comparison:
// "go1.21.0" and "go1.21.0-bigcorp" are equal.
func Compare(x, y string) int { return compare(stripGo(x), stripGo(y)) }

// IsValid reports whether the version x is valid.
func IsValid(x string) bool { return isValid(stripGo(x)) }

// stripGo converts from a "go1.21" version to a "1.21" version.
// If v does not start with "go", stripGo returns the empty string (a known invalid version).
func stripGo(v string) string {
	v, _, _ = strings.Cut(v, "-") // strip -bigcorp suffix.
	if len(v) < 2 || v[:2] != "go" {
		return ""
	}
	return v[2:]
}
