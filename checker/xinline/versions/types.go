// Copyright 2023 The Go Authors. All rights reserved.
// Use of this source code is governed by a BSD-style
// license that can be found in the LICENSE file.

package versions

import (
	"go/ast"
	"go/types"
)

// FileVersion returns a file's Go version.
// The reported version is an unknown Future version if a
// version cannot be determined.
func FileVersion(info *types.Info, file *ast.File) string {
	// In tools built with Go >= 1.22, the Go version of a file
	// follow a cascades of sources:
	// 1) types.Info.FileVersion, which follows the cascade:
	//   1.a) file version (ast.File.GoVersion),
	//   1.b) the package version (types.Config.GoVersion), or
	// 2) is some unknown Future version.
	//
	// File versions require a valid package version to be provided to types
	// in Config.GoVersion. Config.GoVersion is either from the package's module
	// or the toolchain (go run). This value should be provided by go/packages
	// or unitchecker.Config.GoVersion.
	if v := info.FileVersions[file]; IsValid(v) {
		return v
	}
	// Note: we could instead return runtime.Version() [if valid].
	// This would act as a max version on what a tool can support.
	return Future
}
