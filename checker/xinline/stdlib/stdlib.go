// Copyright 2022 The Go Authors. All rights reserved.
// Use of this source code is governed by a BSD-style
// license that can be found in the LICENSE file.

//go:generate go run generate.go

// Package stdlib provides a table of all exported symbols in the
// standard library, along with the version at which they first
// appeared.
package stdlib

import (
	"fmt"
	"strings"
)

type Symbol struct {
	Name    string
	Kind    Kind
	Version Version // Go version that first included the symbol
}

// A Kind indicates the kind of a symbol:
// function, variable, constant, type, and so on.
type Kind int8

const (
	Invalid Kind = iota // Example name:
	Type                // "Buffer"
	Func                // "Println"
	Var                 // "EOF"
	Const               // "Pi"
	Field               // "Point.X"
	Method              // "(*Buffer).Grow"
)

func (kind Kind) String() string {
	return [...]string{
		Invalid: "invalid",
		Type:    "type",
		Func:    "func",
		Var:     "var",
		Const:   "const",
		Field:   "field",
		Method:  "method",
	}[kind]
}

// A Version represents a version of Go of the form "go1.%d".
type Version int8

// String returns a version string of the form "go1.23", without allocating.
func (v Version) String() string { return versions[v] }

var versions [30]string // (increase constant as needed)

func init() {
	for i := range versions {
		versions[i] = fmt.Sprintf("go1.%d", i)
	}
}

// HasPackage reports whether the specified package path is part of
// the standard library's public API.
func HasPackage(path string) bool {
	_, ok := PackageSymbols[path]
	return ok
}

// SplitField splits the field symbol name into type and field
// components. It must be called only on Field symbols.
//
// Example: "File.Package" -> ("File", "Package")
func (sym *Symbol) SplitField() (typename, name string) {
	if sym.Kind != Field {
		panic("not a field")
	}
	typename, name, _ = strings.Cut(sym.Name, ".")
	return
}

// SplitMethod splits the method symbol name into pointer, receiver,
// and method components. It must be called only on Method symbols.
//
// Example: "(*Buffer).Grow" -> (true, "Buffer", "Grow")
func (sym *Symbol) SplitMethod() (ptr bool, recv, name string) {
	if sym.Kind != Method {
		panic("not a method")
	}
	recv, name, _ = strings.Cut(sym.Name, ".")
	recv = recv[len("(") : len(recv)-len(")")]
	ptr = recv[0] == '*'
	if ptr {
		recv = recv[len("*"):]
	}
	return
}
