// Copyright 2024 The Go Authors. All rights reserved.
// Use of this source code is governed by a BSD-style
// license that can be found in the LICENSE file.

package typesinternal

import (
	"fmt"
	"go/types"

	"golang.org/x/tools/go/types/typeutil"
)

// ForEachElement calls f for type T and each type reachable from its
// type through reflection. It does this by recursively stripping off
// type constructors; in addition, for each named type N, the type *N
// is added to the result as it may have additional methods.
//
// The caller must provide an initially empty set used to de-duplicate
// identical types, potentially across multiple calls to ForEachElement.
// (Its final value holds all the elements seen, matching the arguments
// passed to f.)
//
// TODO(adonovan): share/harmonize with go/callgraph/rta.
func ForEachElement(rtypes *typeutil.Map, msets *typeutil.MethodSetCache, T types.Type, f func(types.Type)) {
	var visit func(T types.Type, skip bool)
	visit = func(T types.Type, skip bool) {
		if !skip {
			if seen, _ := rtypes.Set(T, true).(bool); seen {
				return // de-dup
			}

			f(T) // notify caller of new element type
		}

		// Recursion over signatures of each method.
		tmset := msets.MethodSet(T)
		for i := 0; i < tmset.Len(); i++ {
			sig := tmset.At(i).Type().(*types.Signature)
			// It is tempting to call visit(sig, false)
			// but, as noted in golang.org/cl/65450043,
			// the Signature.Recv field is ignored by
			// types.Identical and typeutil.Map, which
			// is confusing at best.
			//
			// More importantly, the true signature rtype
			// reachable from a method using reflection
			// has no receiver but an extra ordinary parameter.
			// For the Read method of io.Reader we want:
			//   func(Reader, []byte) (int, error)
			// but here sig is:
			//   func([]byte) (int, error)
			// with .Recv = Reader (though it is hard to
			// notice because it doesn't affect Signature.String
			// or types.Identical).
			//
			// TODO(adonovan): construct and visit the correct
			// non-method signature with an extra parameter
			// (though since unnamed func types have no methods
			// there is essentially no actual demand for this).
			//
			// TODO(adonovan): document whether or not it is
			// safe to skip non-exported methods (as RTA does).
			visit(sig.Params(), true)  // skip the Tuple
			visit(sig.Results(), true) // skip the Tuple
		}

		switch T := T.(type) {
		case *types.Alias:
			visit(types.Unalias(T), skip) // emulates the pre-Alias behavior

		case *types.Basic:
			// nop

		case *types.Interface:
			// nop---handled by recursion over method set.

		case *types.Pointer:
			visit(T.Elem(), false)

		case *types.Slice:
			visit(T.Elem(), false)

		case *types.Chan:
			visit(T.Elem(), false)

		case *types.Map:
			visit(T.Key(), false)
			visit(T.Elem(), false)

		case *types.Signature:
			if T.Recv() != nil {
				panic(fmt.Sprintf("Signature %s has Recv %s", T, T.Recv()))
			}
			visit(T.Params(), true)  // skip the Tuple
			visit(T.Results(), true) // skip the Tuple

		case *types.Named:
			// A pointer-to-named type can be derived from a named
			// type via reflection.  It may have methods too.
			visit(types.NewPointer(T), false)

			// Consider 'type T struct{S}' where S has methods.
			// Reflection provides no way to get from T to struct{S},
			// only to S, so the method set of struct{S} is unwanted,
			// so set 'skip' flag during recursion.
			visit(T.Underlying(), true) // skip the unnamed type

		case *types.Array:
			visit(T.Elem(), false)

		case *types.Struct:
			for i, n := 0, T.NumFields(); i < n; i++ {
				// TODO(adonovan): document whether or not
				// it is safe to skip non-exported fields.
				visit(T.Field(i).Type(), false)
			}

		case *types.Tuple:
			for i, n := 0, T.Len(); i < n; i++ {
				visit(T.At(i).Type(), false)
			}

		case *types.TypeParam, *types.Union:
			// forEachReachable must not be called on parameterized types.
			panic(T)

		default:
			panic(T)
		}
	}
	visit(T, false)
}
