// Copyright 2024 The Go Authors. All rights reserved.
// Use of this source code is governed by a BSD-style
// license that can be found in the LICENSE file.

package typesinternal

import (
	"go/types"

	"verif/checker/xinline/stdlib"
	"verif/checker/xinline/versions"
)

// TooNewStdSymbols computes the set of package-level symbols
// exported by pkg that are not available at the specified version.
// The result maps each symbol to its minimum version.
//
// The pkg is allowed to contain type errors.
func TooNewStdSymbols(pkg *types.Package, version string) map[types.Object]string {
	disallowed := make(map[types.Object]string)

	// Pass 1: package-level symbols.
	symbols := stdlib.PackageSymbols[pkg.Path()]
	for _, sym := range symbols {
		symver := sym.Version.String()
		if versions.Before(version, symver) {
			switch sym.Kind {
			case stdlib.Func, stdlib.Var, stdlib.Const, stdlib.Type:
				disallowed[pkg.Scope().Lookup(sym.Name)] = symver
			}
		}
	}

	// Pass 2: fields and methods.
	//
	// We allow fields and methods if their associated type is
	// disallowed, as otherwise we would report false positives
	// for compatibility shims. Consider:
	//
	//   //go:build go1.22
	//   type T struct { F std.Real } // correct new API
	//
	//   //go:build !go1.22
	//   type T struct { F fake } // shim
	//   type fake struct { ... }
	//   func (fake) M () {}
	//
	// These alternative declarations of T use either the std.Real
	// type, introduced in go1.22, or a fake type, for the field
	// F. (The fakery could be arbitrarily deep, involving more
	// nested fields and methods than are shown here.) Clients
	// that use the compatibility shim T will compile with any
	// version of go, whether older or newer than go1.22, but only
	// the newer version will use the std.Real implementation.
	//
	// Now consider a reference to method M in new(T).F.M() in a
	// module that requires a minimum of go1.21. The analysis may
	// occur using a version of Go higher than 1.21, selecting the
	// first version of T, so the method M is Real.M. This would
	// spuriously cause the analyzer to report a reference to a
	// too-new symbol even though this expression compiles just
	// fine (with the fake implementation) using go1.21.
	for _, sym := range symbols {
		symVersion := sym.Version.String()
		if !versions.Before(version, symVersion) {
			continue // allowed
		}

		var obj types.Object
		switch sym.Kind {
		case stdlib.Field:
			typename, name := sym.SplitField()
			if t := pkg.Scope().Lookup(typename); t != nil && disallowed[t] == "" {
				obj, _, _ = types.LookupFieldOrMethod(t.Type(), false, pkg, name)
			}

		case stdlib.Method:
			ptr, recvname, name := sym.SplitMethod()
			if t := pkg.Scope().Lookup(recvname); t != nil && disallowed[t] == "" {
				obj, _, _ = types.LookupFieldOrMethod(t.Type(), ptr, pkg, name)
			}
		}
		if obj != nil {
			disallowed[obj] = symVersion
		}
	}

	return disallowed
}
