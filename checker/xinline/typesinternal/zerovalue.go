// Copyright 2024 The Go Authors. All rights reserved.
// Use of this source code is governed by a BSD-style
// license that can be found in the LICENSE file.

package typesinternal

import (
	"fmt"
	"go/ast"
	"go/token"
	"go/types"
	"strings"
)

// ZeroString returns the string representation of the zero value for any type t.
// The boolean result indicates whether the type is or contains an invalid type
// or a non-basic (constraint) interface type.
//
// Even for invalid input types, ZeroString may return a partially correct
// string representation. The caller should use the returned isValid boolean
// to determine the validity of the expression.
//
// When assigning to a wider type (such as 'any'), it's the caller's
// responsibility to handle any necessary type conversions.
//
// This string can be used on the right-hand side of an assignment where the
// left-hand side has that explicit type.
// References to named types are qualified by an appropriate (optional)
// qualifier function.
// Exception: This does not apply to tuples. Their string representation is
// informational only and cannot be used in an assignment.
//
// See [ZeroExpr] for a variant that returns an [ast.Expr].
func ZeroString(t types.Type, qual types.Qualifier) (_ string, isValid bool) {
	switch t := t.(type) {
	case *types.Basic:
		switch {
		case t.Info()&types.IsBoolean != 0:
			return "false", true
		case t.Info()&types.IsNumeric != 0:
			return "0", true
		case t.Info()&types.IsString != 0:
			return `""`, true
		case t.Kind() == types.UnsafePointer:
			fallthrough
		case t.Kind() == types.UntypedNil:
			return "nil", true
		case t.Kind() == types.Invalid:
			return "invalid", false
		default:
			panic(fmt.Sprintf("ZeroString for unexpected type %v", t))
		}

	case *types.Pointer, *types.Slice, *types.Chan, *types.Map, *types.Signature:
		return "nil", true

	case *types.Interface:
		if !t.IsMethodSet() {
			return "invalid", false
		}
		return "nil", true

	case *types.Named:
		switch under := t.Underlying().(type) {
		case *types.Struct, *types.Array:
			return types.TypeString(t, qual) + "{}", true
		default:
			return ZeroString(under, qual)
		}

	case *types.Alias:
		switch t.Underlying().(type) {
		case *types.Struct, *types.Array:
			return types.TypeString(t, qual) + "{}", true
		default:
			// A type parameter can have alias but alias type's underlying type
			// can never be a type parameter.
			// Use types.Unalias to preserve the info of type parameter instead
			// of call Underlying() going right through and get the underlying
			// type of the type parameter which is always an interface.
			return ZeroString(types.Unalias(t), qual)
		}

	case *types.Array, *types.Struct:
		return types.TypeString(t, qual) + "{}", true

	case *types.TypeParam:
		// Assumes func new is not shadowed.
		return "*new(" + types.TypeString(t, qual) + ")", true

	case *types.Tuple:
		// Tuples are not normal values.
		// We are currently format as "(t[0], ..., t[n])". Could be something else.
		isValid := true
		components := make([]string, t.Len())
		for i := 0; i < t.Len(); i++ {
			comp, ok := ZeroString(t.At(i).Type(), qual)

			components[i] = comp
			isValid = isValid && ok
		}
		return "(" + strings.Join(components, ", ") + ")", isValid

	case *types.Union:
		// Variables of these types cannot be created, so it makes
		// no sense to ask for their zero value.
		panic(fmt.Sprintf("invalid type for a variable: %v", t))

	default:
		panic(t) // unreachable.
	}
}

// ZeroExpr returns the ast.Expr representation of the zero value for any type t.
// The boolean result indicates whether the type is or contains an invalid type
// or a non-basic (constraint) interface type.
//
// Even for invalid input types, ZeroExpr may return a partially correct ast.Expr
// representation. The caller should use the returned isValid boolean to determine
// the validity of the expression.
//
// This function is designed for types suitable for variables and should not be
// used with Tuple or Union types.References to named types are qualified by an
// appropriate (optional) qualifier function.
//
// See [ZeroString] for a variant that returns a string.
func ZeroExpr(t types.Type, qual types.Qualifier) (_ ast.Expr, isValid bool) {
	switch t := t.(type) {
	case *types.Basic:
		switch {
		case t.Info()&types.IsBoolean != 0:
			return &ast.Ident{Name: "false"}, true
		case t.Info()&types.IsNumeric != 0:
			return &ast.BasicLit{Kind: token.INT, Value: "0"}, true
		case t.Info()&types.IsString != 0:
			return &ast.BasicLit{Kind: token.STRING, Value: `""`}, true
		case t.Kind() == types.UnsafePointer:
			fallthrough
		case t.Kind() == types.UntypedNil:
			return ast.NewIdent("nil"), true
		case t.Kind() == types.Invalid:
			return &ast.BasicLit{Kind: token.STRING, Value: `"invalid"`}, false
		default:
			panic(fmt.Sprintf("ZeroExpr for unexpected type %v", t))
		}

	case *types.Pointer, *types.Slice, *types.Chan, *types.Map, *types.Signature:
		return ast.NewIdent("nil"), true

	case *types.Interface:
		if !t.IsMethodSet() {
			return &ast.BasicLit{Kind: token.STRING, Value: `"invalid"`}, false
		}
		return ast.NewIdent("nil"), true

	case *types.Named:
		switch under := t.Underlying().(type) {
		case *types.Struct, *types.Array:
			return &ast.CompositeLit{
				Type: TypeExpr(t, qual),
			}, true
		default:
			return ZeroExpr(under, qual)
		}

	case *types.Alias:
		switch t.Underlying().(type) {
		case *types.Struct, *types.Array:
			return &ast.CompositeLit{
				Type: TypeExpr(t, qual),
			}, true
		default:
			return ZeroExpr(types.Unalias(t), qual)
		}

	case *types.Array, *types.Struct:
		return &ast.CompositeLit{
			Type: TypeExpr(t, qual),
		}, true

	case *types.TypeParam:
		return &ast.StarExpr{ // *new(T)
			X: &ast.CallExpr{
				// Assumes func new is not shadowed.
				Fun: ast.NewIdent("new"),
				Args: []ast.Expr{
					ast.NewIdent(t.Obj().Name()),
				},
			},
		}, true

	case *types.Tuple:
		// Unlike ZeroString, there is no ast.Expr can express tuple by
		// "(t[0], ..., t[n])".
		panic(fmt.Sprintf("invalid type for a variable: %v", t))

	case *types.Union:
		// Variables of these types cannot be created, so it makes
		// no sense to ask for their zero value.
		panic(fmt.Sprintf("invalid type for a variable: %v", t))

	default:
		panic(t) // unreachable.
	}
}

// IsZeroExpr uses simple syntactic heuristics to report whether expr
// is a obvious zero value, such as 0, "", nil, or false.
// It cannot do better without type information.
func IsZeroExpr(expr ast.Expr) bool {
	switch e := expr.(type) {
	case *ast.BasicLit:
		return e.Value == "0" || e.Value == `""`
	case *ast.Ident:
		return e.Name == "nil" || e.Name == "false"
	default:
		return false
	}
}

// TypeExpr returns syntax for the specified type. References to named types
// are qualified by an appropriate (optional) qualifier function.
// It may panic for types such as Tuple or Union.
func TypeExpr(t types.Type, qual types.Qualifier) ast.Expr {
	switch t := t.(type) {
	case *types.Basic:
		switch t.Kind() {
		case types.UnsafePointer:
			return &ast.SelectorExpr{X: ast.NewIdent(qual(types.NewPackage("unsafe", "unsafe"))), Sel: ast.NewIdent("Pointer")}
		default:
			return ast.NewIdent(t.Name())
		}

	case *types.Pointer:
		return &ast.UnaryExpr{
			Op: token.MUL,
			X:  TypeExpr(t.Elem(), qual),
		}

	case *types.Array:
		return &ast.ArrayType{
			Len: &ast.BasicLit{
				Kind:  token.INT,
				Value: fmt.Sprintf("%d", t.Len()),
			},
			Elt: TypeExpr(t.Elem(), qual),
		}

	case *types.Slice:
		return &ast.ArrayType{
			Elt: TypeExpr(t.Elem(), qual),
		}

	case *types.Map:
		return &ast.MapType{
			Key:   TypeExpr(t.Key(), qual),
			Value: TypeExpr(t.Elem(), qual),
		}

	case *types.Chan:
		dir := ast.ChanDir(t.Dir())
		if t.Dir() == types.SendRecv {
			dir = ast.SEND | ast.RECV
		}
		return &ast.ChanType{
			Dir:   dir,
			Value: TypeExpr(t.Elem(), qual),
		}

	case *types.Signature:
		var params []*ast.Field
		for i := 0; i < t.Params().Len(); i++ {
			params = append(params, &ast.Field{
				Type: TypeExpr(t.Params().At(i).Type(), qual),
				Names: []*ast.Ident{
					{
						Name: t.Params().At(i).Name(),
					},
				},
			})
		}
		if t.Variadic() {
			last := params[len(params)-1]
			last.Type = &ast.Ellipsis{Elt: last.Type.(*ast.ArrayType).Elt}
		}
		var returns []*ast.Field
		for i := 0; i < t.Results().Len(); i++ {
			returns = append(returns, &ast.Field{
				Type: TypeExpr(t.Results().At(i).Type(), qual),
			})
		}
		return &ast.FuncType{
			Params: &ast.FieldList{
				List: params,
			},
			Results: &ast.FieldList{
				List: returns,
			},
		}

	case *types.TypeParam:
		pkgName := qual(t.Obj().Pkg())
		if pkgName == "" || t.Obj().Pkg() == nil {
			return ast.NewIdent(t.Obj().Name())
		}
		return &ast.SelectorExpr{
			X:   ast.NewIdent(pkgName),
			Sel: ast.NewIdent(t.Obj().Name()),
		}

	// types.TypeParam also implements interface NamedOrAlias. To differentiate,
	// case TypeParam need to be present before case NamedOrAlias.
	// TODO(hxjiang): remove this comment once TypeArgs() is added to interface
	// NamedOrAlias.
	case NamedOrAlias:
		var expr ast.Expr = ast.NewIdent(t.Obj().Name())
		if pkgName := qual(t.Obj().Pkg()); pkgName != "." && pkgName != "" {
			expr = &ast.SelectorExpr{
				X:   ast.NewIdent(pkgName),
				Sel: expr.(*ast.Ident),
			}
		}

		// TODO(hxjiang): call t.TypeArgs after adding method TypeArgs() to
		// typesinternal.NamedOrAlias.
		if hasTypeArgs, ok := t.(interface{ TypeArgs() *types.TypeList }); ok {
			if typeArgs := hasTypeArgs.TypeArgs(); typeArgs != nil && typeArgs.Len() > 0 {
				var indices []ast.Expr
				for i := range typeArgs.Len() {
					indices = append(indices, TypeExpr(typeArgs.At(i), qual))
				}
				expr = &ast.IndexListExpr{
					X:       expr,
					Indices: indices,
				}
			}
		}

		return expr

	case *types.Struct:
		return ast.NewIdent(t.String())

	case *types.Interface:
		return ast.NewIdent(t.String())

	case *types.Union:
		if t.Len() == 0 {
			panic("Union type should have at least one term")
		}
		// Same as go/ast, the return expression will put last term in the
		// Y field at topmost level of BinaryExpr.
		// For union of type "float32 | float64 | int64", the structure looks
		// similar to:
		// {
		// 	X: {
		// 		X: float32,
		// 		Op: |
		// 		Y: float64,
		// 	}
		// 	Op: |,
		// 	Y: int64,
		// }
		var union ast.Expr
		for i := range t.Len() {
			term := t.Term(i)
			termExpr := TypeExpr(term.Type(), qual)
			if term.Tilde() {
				termExpr = &ast.UnaryExpr{
					Op: token.TILDE,
					X:  termExpr,
				}
			}
			if i == 0 {
				union = termExpr
			} else {
				union = &ast.BinaryExpr{
					X:  union,
					Op: token.OR,
					Y:  termExpr,
				}
			}
		}
		return union

	case *types.Tuple:
		panic("invalid input type types.Tuple")

	default:
		panic("unreachable")
	}
}
