// Copyright 2024 The Go Authors. All rights reserved.
// Use of this source code is governed by a BSD-style
// license that can be found in the LICENSE file.

package typesinternal

import (
	"go/types"
)

// ReceiverNamed returns the named type (if any) associated with the
// type of recv, which may be of the form N or *N, or aliases thereof.
// It also reports whether a Pointer was present.
//
// The named result may be nil in ill-typed code.
func ReceiverNamed(recv *types.Var) (isPtr bool, named *types.Named) {
	t := recv.Type()
	if ptr, ok := types.Unalias(t).(*types.Pointer); ok {
		isPtr = true
		t = ptr.Elem()
	}
	named, _ = types.Unalias(t).(*types.Named)
	return
}

// Unpointer returns T given *T or an alias thereof.
// For all other types it is the identity function.
// It does not look at underlying types.
// The result may be an alias.
//
// Use this function to strip off the optional pointer on a receiver
// in a field or method selection, without losing the named type
// (which is needed to compute the method set).
//
// See also [typeparams.MustDeref], which removes one level of
// indirection from the type, regardless of named types (analogous to
// a LOAD instruction).
func Unpointer(t types.Type) types.Type {
	if ptr, ok := types.Unalias(t).(*types.Pointer); ok {
		return ptr.Elem()
	}
	return t
}
