// Copyright 2020 The Go Authors. All rights reserved.
// Use of this source code is governed by a BSD-style
// license that can be found in the LICENSE file.

package typesinternal

//go:generate stringer -type=ErrorCode

type ErrorCode int

// This file defines the error codes that can be produced during type-checking.
// Collectively, these codes provide an identifier that may be used to
// implement special handling for certain types of errors.
//
// Error codes should be fine-grained enough that the exact nature of the error
// can be easily determined, but coarse enough that they are not an
// implementation detail of the type checking algorithm. As a rule-of-thumb,
// errors should be considered equivalent if there is a theoretical refactoring
// of the type checker in which they are emitted in exactly one place. For
// example, the type checker emits different error messages for "too many
// arguments" and "too few arguments", but one can imagine an alternative type
// checker where this check instead just emits a single "wrong number of
// arguments", so these errors should have the same code.
//
// Error code names should be as brief as possible while retaining accuracy and
// distinctiveness. In most cases names should start with an adjective
// describing the nature of the error (e.g. "invalid", "unused", "misplaced"),
// and end with a noun identifying the relevant language object. For example,
// "DuplicateDecl" or "InvalidSliceExpr". For brevity, naming follows the
// convention that "bad" implies a problem with syntax, and "invalid" implies a
// problem with types.

const (
	// InvalidSyntaxTree occurs if an invalid syntax tree is provided
	// to the type checker. It should never happen.
	InvalidSyntaxTree ErrorCode = -1
)

const (
	_ ErrorCode = iota

	// Test is reserved for errors that only apply while in self-test mode.
	Test

	/* package names */

	// BlankPkgName occurs when a package name is the blank identifier "_".
	//
	// Per the spec:
	//  "The PackageName must not be the blank identifier."
	BlankPkgName

	// MismatchedPkgName occurs when a file's package name doesn't match the
	// package name already established by other files.
	MismatchedPkgName

	// InvalidPkgUse occurs when a package identifier is used outside of a
	// selector expression.
	//
	// Example:
	//  import "fmt"
	//
	//  var _ = fmt
	InvalidPkgUse

	/* imports */

	// BadImportPath occurs when an import path is not valid.
	BadImportPath

	// BrokenImport occurs when importing a package fails.
	//
	// Example:
	//  import "amissingpackage"
	BrokenImport

	// ImportCRenamed occurs when the special import "C" is renamed. "C" is a
	// pseudo-package, and must not be renamed.
	//
	// Example:
	//  import _ "C"
	ImportCRenamed

	// UnusedImport occurs when an import is unused.
	//
	// Example:
	//  import "fmt"
	//
	//  func main() {}
	UnusedImport

	/* initialization */

	// InvalidInitCycle occurs when an invalid cycle is detected within the
	// initialization graph.
	//
	// Example:
	//  var x int = f()
	//
	//  func f() int { return x }
	InvalidInitCycle

	/* decls */

	// DuplicateDecl occurs when an identifier is declared multiple times.
	//
	// Example:
	//  var x = 1
	//  var x = 2
	DuplicateDecl

	// InvalidDeclCycle occurs when a declaration cycle is not valid.
	//
	// Example:
	//  import "unsafe"
	//
	//  type T struct {
	//  	a [n]int
	//  }
	//
	//  var n = unsafe.Sizeof(T{})
	InvalidDeclCycle

	// InvalidTypeCycle occurs when a cycle in type definitions results in a
	// type that is not well-defined.
	//
	// Example:
	//  import "unsafe"
	//
	//  type T [unsafe.Sizeof(T{})]int
	InvalidTypeCycle

	/* decls > const */

	// InvalidConstInit occurs when a const declaration has a non-constant
	// initializer.
	//
	// Example:
	//  var x int
	//  const _ = x
	InvalidConstInit

	// InvalidConstVal occurs when a const value cannot be converted to its
	// target type.
	//
	// TODO(findleyr): this error code and example are not very clear. Consider
	// removing it.
	//
	// Example:
	//  const _ = 1 << "hello"
	InvalidConstVal

	// InvalidConstType occurs when the underlying type in a const declaration
	// is not a valid constant type.
	//
	// Example:
	//  const c *int = 4
	InvalidConstType

	/* decls > var (+ other variable assignment codes) */

	// UntypedNilUse occurs when the predeclared (untyped) value nil is used to
	// initialize a variable declared without an explicit type.
	//
	// Example:
	//  var x = nil
	UntypedNilUse

	// WrongAssignCount occurs when the number of values on the right-hand side
	// of an assignment or initialization expression does not match the number
	// of variables on the left-hand side.
	//
	// Example:
	//  var x = 1, 2
	WrongAssignCount

	// UnassignableOperand occurs when the left-hand side of an assignment is
	// not assignable.
	//
	// Example:
	//  func f() {
	//  	const c = 1
	//  	c = 2
	//  }
	UnassignableOperand

	// NoNewVar occurs when a short variable declaration (':=') does not declare
	// new variables.
	//
	// Example:
	//  func f() {
	//  	x := 1
	//  	x := 2
	//  }
	NoNewVar

	// MultiValAssignOp occurs when an assignment operation (+=, *=, etc) does
	// not have single-valued left-hand or right-hand side.
	//
	// Per the spec:
	//  "In assignment operations, both the left- and right-hand expression lists
	//  must contain exactly one single-valued expression"
	//
	// Example:
	//  func f() int {
	//  	x, y := 1, 2
	//  	x, y += 1
	//  	return x + y
	//  }
	MultiValAssignOp

	// InvalidIfaceAssign occurs when a value of type T is used as an
	// interface, but T does not implement a method of the expected interface.
	//
	// Example:
	//  type I interface {
	//  	f()
	//  }
	//
	//  type T int
	//
	//  var x I = T(1)
	InvalidIfaceAssign

	// InvalidChanAssign occurs when a chan assignment is invalid.
	//
	// Per the spec, a value x is assignable to a channel type T if:
	//  "x is a bidirectional channel value, T is a channel type, x's type V and
	//  T have identical element types, and at least one of V or T is not a
	//  defined type."
	//
	// Example:
	//  type T1 chan int
	//  type T2 chan int
	//
	//  var x T1
	//  // Invalid assignment because both types are named
	//  var _ T2 = x
	InvalidChanAssign

	// IncompatibleAssign occurs when the type of the right-hand side expression
	// in an assignment cannot be assigned to the type of the variable being
	// assigned.
	//
	// Example:
	//  var x []int
	//  var _ int = x
	IncompatibleAssign

	// UnaddressableFieldAssign occurs when trying to assign to a struct field
	// in a map value.
	//
	// Example:
	//  func f() {
	//  	m := make(map[string]struct{i int})
	//  	m["foo"].i = 42
	//  }
	UnaddressableFieldAssign

	/* decls > type (+ other type expression codes) */

	// NotAType occurs when the identifier used as the underlying type in a type
	// declaration or the right-hand side of a type alias does not denote a type.
	//
	// Example:
	//  var S = 2
	//
	//  type T S
	NotAType

	// InvalidArrayLen occurs when an array length is not a constant value.
	//
	// Example:
	//  var n = 3
	//  var _ = [n]int{}
	InvalidArrayLen

	// BlankIfaceMethod occurs when a method name is '_'.
	//
	// Per the spec:
	//  "The name of each explicitly specified method must be unique and not
	//  blank."
	//
	// Example:
	//  type T interface {
	//  	_(int)
	//  }
	BlankIfaceMethod

	// IncomparableMapKey occurs when a map key type does not support the == and
	// != operators.
	//
	// Per the spec:
	//  "The comparison operators == and != must be fully defined for operands of
	//  the key type; thus the key type must not be a function, map, or slice."
	//
	// Example:
	//  var x map[T]int
	//
	//  type T []int
	IncomparableMapKey

	// InvalidIfaceEmbed occurs when a non-interface type is embedded in an
	// interface.
	//
	// Example:
	//  type T struct {}
	//
	//  func (T) m()
	//
	//  type I interface {
	//  	T
	//  }
	InvalidIfaceEmbed

	// InvalidPtrEmbed occurs when an embedded field is of the pointer form *T,
	// and T itself is itself a pointer, an unsafe.Pointer, or an interface.
	//
	// Per the spec:
	//  "An embedded field must be specified as a type name T or as a pointer to
	//  a non-interface type name *T, and T itself may not be a pointer type."
	//
	// Example:
	//  type T *int
	//
	//  type S struct {
	//  	*T
	//  }
	InvalidPtrEmbed

	/* decls > func and method */

	// BadRecv occurs when a method declaration does not have exactly one
	// receiver parameter.
	//
	// Example:
	//  func () _() {}
	BadRecv

	// InvalidRecv occurs when a receiver type expression is not of the form T
	// or *T, or T is a pointer type.
	//
	// Example:
	//  type T struct {}
	//
	//  func (**T) m() {}
	InvalidRecv

	// DuplicateFieldAndMethod occurs when an identifier appears as both a field
	// and method name.
	//
	// Example:
	//  type T struct {
	//  	m int
	//  }
	//
	//  func (T) m() {}
	DuplicateFieldAndMethod

	// DuplicateMethod occurs when two methods on the same receiver type have
	// the same name.
	//
	// Example:
	//  type T struct {}
	//  func (T) m() {}
	//  func (T) m(i int) int { return i }
	DuplicateMethod

	/* decls > special */

	// InvalidBlank occurs when a blank identifier is used as a value or type.
	//
	// Per the spec:
	//  "The blank identifier may appear as an operand only on the left-hand side
	//  of an assignment."
	//
	// Example:
	//  var x = _
	InvalidBlank

	// InvalidIota occurs when the predeclared identifier iota is used outside
	// of a constant declaration.
	//
	// Example:
	//  var x = iota
	InvalidIota

	// MissingInitBody occurs when an init function is missing its body.
	//
	// Example:
	//  func init()
	MissingInitBody

	// InvalidInitSig occurs when an init function declares parameters or
	// results.
	//
	// Example:
	//  func init() int { return 1 }
	InvalidInitSig

	// InvalidInitDecl occurs when init is declared as anything other than a
	// function.
	//
	// Example:
	//  var init = 1
	InvalidInitDecl

	// InvalidMainDecl occurs when main is declared as anything other than a
	// function, in a main package.
	InvalidMainDecl

	/* exprs */

	// TooManyValues occurs when a function returns too many values for the
	// expression context in which it is used.
	//
	// Example:
	//  func ReturnTwo() (int, int) {
	//  	return 1, 2
	//  }
	//
	//  var x = ReturnTwo()
	TooManyValues

	// NotAnExpr occurs when a type expression is used where a value expression
	// is expected.
	//
	// Example:
	//  type T struct {}
	//
	//  func f() {
	//  	T
	//  }
	NotAnExpr

	/* exprs > const */

	// TruncatedFloat occurs when a float constant is truncated to an integer
	// value.
	//
	// Example:
	//  var _ int = 98.6
	TruncatedFloat

	// NumericOverflow occurs when a numeric constant overflows its target type.
	//
	// Example:
	//  var x int8 = 1000
	NumericOverflow

	/* exprs > operation */

	// UndefinedOp occurs when an operator is not defined for the type(s) used
	// in an operation.
	//
	// Example:
	//  var c = "a" - "b"
	UndefinedOp

	// MismatchedTypes occurs when operand types are incompatible in a binary
	// operation.
	//
	// Example:
	//  var a = "hello"
	//  var b = 1
	//  var c = a - b
	MismatchedTypes

	// DivByZero occurs when a division operation is provable at compile
	// time to be a division by zero.
	//
	// Example:
	//  const divisor = 0
	//  var x int = 1/divisor
	DivByZero

	// NonNumericIncDec occurs when an increment or decrement operator is
	// applied to a non-numeric value.
	//
	// Example:
	//  func f() {
	//  	var c = "c"
	//  	c++
	//  }
	NonNumericIncDec

	/* exprs > ptr */

	// UnaddressableOperand occurs when the & operator is applied to an
	// unaddressable expression.
	//
	// Example:
	//  var x = &1
	UnaddressableOperand

	// InvalidIndirection occurs when a non-pointer value is indirected via the
	// '*' operator.
	//
	// Example:
	//  var x int
	//  var y = *x
	InvalidIndirection

	/* exprs > [] */

	// NonIndexableOperand occurs when an index operation is applied to a value
	// that cannot be indexed.
	//
	// Example:
	//  var x = 1
	//  var y = x[1]
	NonIndexableOperand

	// InvalidIndex occurs when an index argument is not of integer type,
	// negative, or out-of-bounds.
	//
	// Example:
	//  var s = [...]int{1,2,3}
	//  var x = s[5]
	//
	// Example:
	//  var s = []int{1,2,3}
	//  var _ = s[-1]
	//
	// Example:
	//  var s = []int{1,2,3}
	//  var i string
	//  var _ = s[i]
	InvalidIndex

	// SwappedSliceIndices occurs when constant indices in a slice expression
	// are decreasing in value.
	//
	// Example:
	//  var _ = []int{1,2,3}[2:1]
	SwappedSliceIndices

	/* operators > slice */

	// NonSliceableOperand occurs when a slice operation is applied to a value
	// whose type is not sliceable, or is unaddressable.
	//
	// Example:
	//  var x = [...]int{1, 2, 3}[:1]
	//
	// Example:
	//  var x = 1
	//  var y = 1[:1]
	NonSliceableOperand

	// InvalidSliceExpr occurs when a three-index slice expression (a[x:y:z]) is
	// applied to a string.
	//
	// Example:
	//  var s = "hello"
	//  var x = s[1:2:3]
	InvalidSliceExpr

	/* exprs > shift */

	// InvalidShiftCount occurs when the right-hand side of a shift operation is
	// either non-integer, negative, or too large.
	//
	// Example:
	//  var (
	//  	x string
	//  	y int = 1 << x
	//  )
	InvalidShiftCount

	// InvalidShiftOperand occurs when the shifted operand is not an integer.
	//
	// Example:
	//  var s = "hello"
	//  var x = s << 2
	InvalidShiftOperand

	/* exprs > chan */

	// InvalidReceive occurs when there is a channel receive from a value that
	// is either not a channel, or is a send-only channel.
	//
	// Example:
	//  func f() {
	//  	var x = 1
	//  	<-x
	//  }
	InvalidReceive

	// InvalidSend occurs when there is a channel send to a value that is not a
	// channel, or is a receive-only channel.
	//
	// Example:
	//  func f() {
	//  	var x = 1
	//  	x <- "hello!"
	//  }
	InvalidSend

	/* exprs > literal */

	// DuplicateLitKey occurs when an index is duplicated in a slice, array, or
	// map literal.
	//
	// Example:
	//  var _ = []int{0:1, 0:2}
	//
	// Example:
	//  var _ = map[string]int{"a": 1, "a": 2}
	DuplicateLitKey

	// MissingLitKey occurs when a map literal is missing a key expression.
	//
	// Example:
	//  var _ = map[string]int{1}
	MissingLitKey

	// InvalidLitIndex occurs when the key in a key-value element of a slice or
	// array literal is not an integer constant.
	//
	// Example:
	//  var i = 0
	//  var x = []string{i: "world"}
	InvalidLitIndex

	// OversizeArrayLit occurs when an array literal exceeds its length.
	//
	// Example:
	//  var _ = [2]int{1,2,3}
	OversizeArrayLit

	// MixedStructLit occurs when a struct literal contains a mix of positional
	// and named elements.
	//
	// Example:
	//  var _ = struct{i, j int}{i: 1, 2}
	MixedStructLit

	// InvalidStructLit occurs when a positional struct literal has an incorrect
	// number of values.
	//
	// Example:
	//  var _ = struct{i, j int}{1,2,3}
	InvalidStructLit

	// MissingLitField occurs when a struct literal refers to a field that does
	// not exist on the struct type.
	//
	// Example:
	//  var _ = struct{i int}{j: 2}
	MissingLitField

	// DuplicateLitField occurs when a struct literal contains duplicated
	// fields.
	//
	// Example:
	//  var _ = struct{i int}{i: 1, i: 2}
	DuplicateLitField

	// UnexportedLitField occurs when a positional struct literal implicitly
	// assigns an unexported field of an imported type.
	UnexportedLitField

	// InvalidLitField occurs when a field name is not a valid identifier.
	//
	// Example:
	//  var _ = struct{i int}{1: 1}
	InvalidLitField

	// UntypedLit occurs when a composite literal omits a required type
	// identifier.
	//
	// Example:
	//  type outer struct{
	//  	inner struct { i int }
	//  }
	//
	//  var _ = outer{inner: {1}}
	UntypedLit

	// InvalidLit occurs when a composite literal expression does not match its
	// type.
	//
	// Example:
	//  type P *struct{
	//  	x int
	//  }
	//  var _ = P {}
	InvalidLit

	/* exprs > selector */

	// AmbiguousSelector occurs when a selector is ambiguous.
	//
	// Example:
	//  type E1 struct { i int }
	//  type E2 struct { i int }
	//  type T struct { E1; E2 }
	//
	//  var x T
	//  var _ = x.i
	AmbiguousSelector

	// UndeclaredImportedName occurs when a package-qualified identifier is
	// undeclared by the imported package.
	//
	// Example:
	//  import "go/types"
	//
	//  var _ = types.NotAnActualIdentifier
	UndeclaredImportedName

	// UnexportedName occurs when a selector refers to an unexported identifier
	// of an imported package.
	//
	// Example:
	//  import "reflect"
	//
	//  type _ reflect.flag
	UnexportedName

	// UndeclaredName occurs when an identifier is not declared in the current
	// scope.
	//
	// Example:
	//  var x T
	UndeclaredName

	// MissingFieldOrMethod occurs when a selector references a field or method
	// that does not exist.
	//
	// Example:
	//  type T struct {}
	//
	//  var x = T{}.f
	MissingFieldOrMethod

	/* exprs > ... */

	// BadDotDotDotSyntax occurs when a "..." occurs in a context where it is
	// not valid.
	//
	// Example:
	//  var _ = map[int][...]int{0: {}}
	BadDotDotDotSyntax

	// NonVariadicDotDotDot occurs when a "..." is used on the final argument to
	// a non-variadic function.
	//
	// Example:
	//  func printArgs(s []string) {
	//  	for _, a := range s {
	//  		println(a)
	//  	}
	//  }
	//
	//  func f() {
	//  	s := []string{"a", "b", "c"}
	//  	printArgs(s...)
	//  }
	NonVariadicDotDotDot

	// MisplacedDotDotDot occurs when a "..." is used somewhere other than the
	// final argument to a function call.
	//
	// Example:
	//  func printArgs(args ...int) {
	//  	for _, a := range args {
	//  		println(a)
	//  	}
	//  }
	//
	//  func f() {
	//  	a := []int{1,2,3}
	//  	printArgs(0, a...)
	//  }
	MisplacedDotDotDot

	// InvalidDotDotDotOperand occurs when a "..." operator is applied to a
	// single-valued operand.
	//
	// Example:
	//  func printArgs(args ...int) {
	//  	for _, a := range args {
	//  		println(a)
	//  	}
	//  }
	//
	//  func f() {
	//  	a := 1
	//  	printArgs(a...)
	//  }
	//
	// Example:
	//  func args() (int, int) {
	//  	return 1, 2
	//  }
	//
	//  func printArgs(args ...int) {
	//  	for _, a := range args {
	//  		println(a)
	//  	}
	//  }
	//
	//  func g() {
	//  	printArgs(args()...)
	//  }
	InvalidDotDotDotOperand

	// InvalidDotDotDot occurs when a "..." is used in a non-variadic built-in
	// function.
	//
	// Example:
	//  var s = []int{1, 2, 3}
	//  var l = len(s...)
	InvalidDotDotDot

	/* exprs > built-in */

	// UncalledBuiltin occurs when a built-in function is used as a
	// function-valued expression, instead of being called.
	//
	// Per the spec:
	//  "The built-in functions do not have standard Go types, so they can only
	//  appear in call expressions; they cannot be used as function values."
	//
	// Example:
	//  var _ = copy
	UncalledBuiltin

	// InvalidAppend occurs when append is called with a first argument that is
	// not a slice.
	//
	// Example:
	//  var _ = append(1, 2)
	InvalidAppend

	// InvalidCap occurs when an argument to the cap built-in function is not of
	// supported type.
	//
	// See https://golang.org/ref/spec#Length_and_capacity for information on
	// which underlying types are supported as arguments to cap and len.
	//
	// Example:
	//  var s = 2
	//  var x = cap(s)
	InvalidCap

	// InvalidClose occurs when close(...) is called with an argument that is
	// not of channel type, or that is a receive-only channel.
	//
	// Example:
	//  func f() {
	//  	var x int
	//  	close(x)
	//  }
	InvalidClose

	// InvalidCopy occurs when the arguments are not of slice type or do not
	// have compatible type.
	//
	// See https://golang.org/ref/spec#Appending_and_copying_slices for more
	// information on the type requirements for the copy built-in.
	//
	// Example:
	//  func f() {
	//  	var x []int
	//  	y := []int64{1,2,3}
	//  	copy(x, y)
	//  }
	InvalidCopy

	// InvalidComplex occurs when the complex built-in function is called with
	// arguments with incompatible types.
	//
	// Example:
	//  var _ = complex(float32(1), float64(2))
	InvalidComplex

	// InvalidDelete occurs when the delete built-in function is called with a
	// first argument that is not a map.
	//
	// Example:
	//  func f() {
	//  	m := "hello"
	//  	delete(m, "e")
	//  }
	InvalidDelete

	// InvalidImag occurs when the imag built-in function is called with an
	// argument that does not have complex type.
	//
	// Example:
	//  var _ = imag(int(1))
	InvalidImag

	// InvalidLen occurs when an argument to the len built-in function is not of
	// supported type.
	//
	// See https://golang.org/ref/spec#Length_and_capacity for information on
	// which underlying types are supported as arguments to cap and len.
	//
	// Example:
	//  var s = 2
	//  var x = len(s)
	InvalidLen

	// SwappedMakeArgs occurs when make is called with three arguments, and its
	// length argument is larger than its capacity argument.
	//
	// Example:
	//  var x = make([]int, 3, 2)
	SwappedMakeArgs

	// InvalidMake occurs when make is called with an unsupported type argument.
	//
	// See https://golang.org/ref/spec#Making_slices_maps_and_channels for
	// information on the types that may be created using make.
	//
	// Example:
	//  var x = make(int)
	InvalidMake

	// InvalidReal occurs when the real built-in function is called with an
	// argument that does not have complex type.
	//
	// Example:
	//  var _ = real(int(1))
	InvalidReal

	/* exprs > assertion */

	// InvalidAssert occurs when a type assertion is applied to a
	// value that is not of interface type.
	//
	// Example:
	//  var x = 1
	//  var _ = x.(float64)
	InvalidAssert

	// ImpossibleAssert occurs for a type assertion x.(T) when the value x of
	// interface cannot have dynamic type T, due to a missing or mismatching
	// method on T.
	//
	// Example:
	//  type T int
	//
	//  func (t *T) m() int { return int(*t) }
	//
	//  type I interface { m() int }
	//
	//  var x I
	//  var _ = x.(T)
	ImpossibleAssert

	/* exprs > conversion */

	// InvalidConversion occurs when the argument type cannot be converted to the
	// target.
	//
	// See https://golang.org/ref/spec#Conversions for the rules of
	// convertibility.
	//
	// Example:
	//  var x float64
	//  var _ = string(x)
	InvalidConversion

	// InvalidUntypedConversion occurs when an there is no valid implicit
	// conversion from an untyped value satisfying the type constraints of the
	// context in which it is used.
	//
	// Example:
	//  var _ = 1 + ""
	InvalidUntypedConversion

	/* offsetof */

	// BadOffsetofSyntax occurs when unsafe.Offsetof is called with an argument
	// that is not a selector expression.
	//
	// Example:
	//  import "unsafe"
	//
	//  var x int
	//  var _ = unsafe.Offsetof(x)
	BadOffsetofSyntax

	// InvalidOffsetof occurs when unsafe.Offsetof is called with a method
	// selector, rather than a field selector, or when the field is embedded via
	// a pointer.
	//
	// Per the spec:
	//
	//  "If f is an embedded field, it must be reachable without pointer
	//  indirections through fields of the struct. "
	//
	// Example:
	//  import "unsafe"
	//
	//  type T struct { f int }
	//  type S struct { *T }
	//  var s S
	//  var _ = unsafe.Offsetof(s.f)
	//
	// Example:
	//  import "unsafe"
	//
	//  type S struct{}
	//
	//  func (S) m() {}
	//
	//  var s S
	//  var _ = unsafe.Offsetof(s.m)
	InvalidOffsetof

	/* control flow > scope */

	// UnusedExpr occurs when a side-effect free expression is used as a
	// statement. Such a statement has no effect.
	//
	// Example:
	//  func f(i int) {
	//  	i*i
	//  }
	UnusedExpr

	// UnusedVar occurs when a variable is declared but unused.
	//
	// Example:
	//  func f() {
	//  	x := 1
	//  }
	UnusedVar

	// MissingReturn occurs when a function with results is missing a return
	// statement.
	//
	// Example:
	//  func f() int {}
	MissingReturn

	// WrongResultCount occurs when a return statement returns an incorrect
	// number of values.
	//
	// Example:
	//  func ReturnOne() int {
	//  	return 1, 2
	//  }
	WrongResultCount

	// OutOfScopeResult occurs when the name of a value implicitly returned by
	// an empty return statement is shadowed in a nested scope.
	//
	// Example:
	//  func factor(n int) (i int) {
	//  	for i := 2; i < n; i++ {
	//  		if n%i == 0 {
	//  			return
	//  		}
	//  	}
	//  	return 0
	//  }
	OutOfScopeResult

	/* control flow > if */

	// InvalidCond occurs when an if condition is not a boolean expression.
	//
	// Example:
	//  func checkReturn(i int) {
	//  	if i {
	//  		panic("non-zero return")
	//  	}
	//  }
	InvalidCond

	/* control flow > for */

	// InvalidPostDecl occurs when there is a declaration in a for-loop post
	// statement.
	//
	// Example:
	//  func f() {
	//  	for i := 0; i < 10; j := 0 {}
	//  }
	InvalidPostDecl

	// InvalidChanRange occurs when a send-only channel used in a range
	// expression.
	//
	// Example:
	//  func sum(c chan<- int) {
	//  	s := 0
	//  	for i := range c {
	//  		s += i
	//  	}
	//  }
	InvalidChanRange

	// InvalidIterVar occurs when two iteration variables are used while ranging
	// over a channel.
	//
	// Example:
	//  func f(c chan int) {
	//  	for k, v := range c {
	//  		println(k, v)
	//  	}
	//  }
	InvalidIterVar

	// InvalidRangeExpr occurs when the type of a range expression is not array,
	// slice, string, map, or channel.
	//
	// Example:
	//  func f(i int) {
	//  	for j := range i {
	//  		println(j)
	//  	}
	//  }
	InvalidRangeExpr

	/* control flow > switch */

	// MisplacedBreak occurs when a break statement is not within a for, switch,
	// or select statement of the innermost function definition.
	//
	// Example:
	//  func f() {
	//  	break
	//  }
	MisplacedBreak

	// MisplacedContinue occurs when a continue statement is not within a for
	// loop of the innermost function definition.
	//
	// Example:
	//  func sumeven(n int) int {
	//  	proceed := func() {
	//  		continue
	//  	}
	//  	sum := 0
	//  	for i := 1; i <= n; i++ {
	//  		if i % 2 != 0 {
	//  			proceed()
	//  		}
	//  		sum += i
	//  	}
	//  	return sum
	//  }
	MisplacedContinue

	// MisplacedFallthrough occurs when a fallthrough statement is not within an
	// expression switch.
	//
	// Example:
	//  func typename(i interface{}) string {
	//  	switch i.(type) {
	//  	case int64:
	//  		fallthrough
	//  	case int:
	//  		return "int"
	//  	}
	//  	return "unsupported"
	//  }
	MisplacedFallthrough

	// DuplicateCase occurs when a type or expression switch has duplicate
	// cases.
	//
	// Example:
	//  func printInt(i int) {
	//  	switch i {
	//  	case 1:
	//  		println("one")
	//  	case 1:
	//  		println("One")
	//  	}
	//  }
	DuplicateCase

	// DuplicateDefault occurs when a type or expression switch has multiple
	// default clauses.
	//
	// Example:
	//  func printInt(i int) {
	//  	switch i {
	//  	case 1:
	//  		println("one")
	//  	default:
	//  		println("One")
	//  	default:
	//  		println("1")
	//  	}
	//  }
	DuplicateDefault

	// BadTypeKeyword occurs when a .(type) expression is used anywhere other
	// than a type switch.
	//
	// Example:
	//  type I interface {
	//  	m()
	//  }
	//  var t I
	//  var _ = t.(type)
	BadTypeKeyword

	// InvalidTypeSwitch occurs when .(type) is used on an expression that is
	// not of interface type.
	//
	// Example:
	//  func f(i int) {
	//  	switch x := i.(type) {}
	//  }
	InvalidTypeSwitch

	// InvalidExprSwitch occurs when a switch expression is not comparable.
	//
	// Example:
	//  func _() {
	//  	var a struct{ _ func() }
	//  	switch a /* ERROR cannot switch on a */ {
	//  	}
	//  }
	InvalidExprSwitch

	/* control flow > select */

	// InvalidSelectCase occurs when a select case is not a channel send or
	// receive.
	//
	// Example:
	//  func checkChan(c <-chan int) bool {
	//  	select {
	//  	case c:
	//  		return true
	//  	default:
	//  		return false
	//  	}
	//  }
	InvalidSelectCase

	/* control flow > labels and jumps */

	// UndeclaredLabel occurs when an undeclared label is jumped to.
	//
	// Example:
	//  func f() {
	//  	goto L
	//  }
	UndeclaredLabel

	// DuplicateLabel occurs when a label is declared more than once.
	//
	// Example:
	//  func f() int {
	//  L:
	//  L:
	//  	return 1
	//  }
	DuplicateLabel

	// MisplacedLabel occurs when a break or continue label is not on a for,
	// switch, or select statement.
	//
	// Example:
	//  func f() {
	//  L:
	//  	a := []int{1,2,3}
	//  	for _, e := range a {
	//  		if e > 10 {
	//  			break L
	//  		}
	//  		println(a)
	//  	}
	//  }
	MisplacedLabel

	// UnusedLabel occurs when a label is declared but not used.
	//
	// Example:
	//  func f() {
	//  L:
	//  }
	UnusedLabel

	// JumpOverDecl occurs when a label jumps over a variable declaration.
	//
	// Example:
	//  func f() int {
	//  	goto L
	//  	x := 2
	//  L:
	//  	x++
	//  	return x
	//  }
	JumpOverDecl

	// JumpIntoBlock occurs when a forward jump goes to a label inside a nested
	// block.
	//
	// Example:
	//  func f(x int) {
	//  	goto L
	//  	if x > 0 {
	//  	L:
	//  		print("inside block")
	//  	}
	// }
	JumpIntoBlock

	/* control flow > calls */

	// InvalidMethodExpr occurs when a pointer method is called but the argument
	// is not addressable.
	//
	// Example:
	//  type T struct {}
	//
	//  func (*T) m() int { return 1 }
	//
	//  var _ = T.m(T{})
	InvalidMethodExpr

	// WrongArgCount occurs when too few or too many arguments are passed by a
	// function call.
	//
	// Example:
	//  func f(i int) {}
	//  var x = f()
	WrongArgCount

	// InvalidCall occurs when an expression is called that is not of function
	// type.
	//
	// Example:
	//  var x = "x"
	//  var y = x()
	InvalidCall

	/* control flow > suspended */

	// UnusedResults occurs when a restricted expression-only built-in function
	// is suspended via go or defer. Such a suspension discards the results of
	// these side-effect free built-in functions, and therefore is ineffectual.
	//
	// Example:
	//  func f(a []int) int {
	//  	defer len(a)
	//  	return i
	//  }
	UnusedResults

	// InvalidDefer occurs when a deferred expression is not a function call,
	// for example if the expression is a type conversion.
	//
	// Example:
	//  func f(i int) int {
	//  	defer int32(i)
	//  	return i
	//  }
	InvalidDefer

	// InvalidGo occurs when a go expression is not a function call, for example
	// if the expression is a type conversion.
	//
	// Example:
	//  func f(i int) int {
	//  	go int32(i)
	//  	return i
	//  }
	InvalidGo

	// All codes below were added in Go 1.17.

	/* decl */

	// BadDecl occurs when a declaration has invalid syntax.
	BadDecl

	// RepeatedDecl occurs when an identifier occurs more than once on the left
	// hand side of a short variable declaration.
	//
	// Example:
	//  func _() {
	//  	x, y, y := 1, 2, 3
	//  }
	RepeatedDecl

	/* unsafe */

	// InvalidUnsafeAdd occurs when unsafe.Add is called with a
	// length argument that is not of integer type.
	//
	// Example:
	//  import "unsafe"
	//
	//  var p unsafe.Pointer
	//  var _ = unsafe.Add(p, float64(1))
	InvalidUnsafeAdd

	// InvalidUnsafeSlice occurs when unsafe.Slice is called with a
	// pointer argument that is not of pointer type or a length argument
	// that is not of integer type, negative, or out of bounds.
	//
	// Example:
	//  import "unsafe"
	//
	//  var x int
	//  var _ = unsafe.Slice(x, 1)
	//
	// Example:
	//  import "unsafe"
	//
	//  var x int
	//  var _ = unsafe.Slice(&x, float64(1))
	//
	// Example:
	//  import "unsafe"
	//
	//  var x int
	//  var _ = unsafe.Slice(&x, -1)
	//
	// Example:
	//  import "unsafe"
	//
	//  var x int
	//  var _ = unsafe.Slice(&x, uint64(1) << 63)
	InvalidUnsafeSlice

	// All codes below were added in Go 1.18.

	/* features */

	// UnsupportedFeature occurs when a language feature is used that is not
	// supported at this Go version.
	UnsupportedFeature

	/* type params */

	// NotAGenericType occurs when a non-generic type is used where a generic
	// type is expected: in type or function instantiation.
	//
	// Example:
	//  type T int
	//
	//  var _ T[int]
	NotAGenericType

	// WrongTypeArgCount occurs when a type or function is instantiated with an
	// incorrect number of type arguments, including when a generic type or
	// function is used without instantiation.
	//
	// Errors involving failed type inference are assigned other error codes.
	//
	// Example:
	//  type T[p any] int
	//
	//  var _ T[int, string]
	//
	// Example:
	//  func f[T any]() {}
	//
	//  var x = f
	WrongTypeArgCount

	// CannotInferTypeArgs occurs when type or function type argument inference
	// fails to infer all type arguments.
	//
	// Example:
	//  func f[T any]() {}
	//
	//  func _() {
	//  	f()
	//  }
	//
	// Example:
	//   type N[P, Q any] struct{}
	//
	//   var _ N[int]
	CannotInferTypeArgs

	// InvalidTypeArg occurs when a type argument does not satisfy its
	// corresponding type parameter constraints.
	//
	// Example:
	//  type T[P ~int] struct{}
	//
	//  var _ T[string]
	InvalidTypeArg // arguments? InferenceFailed

	// InvalidInstanceCycle occurs when an invalid cycle is detected
	// within the instantiation graph.
	//
	// Example:
	//  func f[T any]() { f[*T]() }
	InvalidInstanceCycle

	// InvalidUnion occurs when an embedded union or approximation element is
	// not valid.
	//
	// Example:
	//  type _ interface {
	//   	~int | interface{ m() }
	//  }
	InvalidUnion

	// MisplacedConstraintIface occurs when a constraint-type interface is used
	// outside of constraint position.
	//
	// Example:
	//   type I interface { ~int }
	//
	//   var _ I
	MisplacedConstraintIface

	// InvalidMethodTypeParams occurs when methods have type parameters.
	//
	// It cannot be encountered with an AST parsed using go/parser.
	InvalidMethodTypeParams

	// MisplacedTypeParam occurs when a type parameter is used in a place where
	// it is not permitted.
	//
	// Example:
	//  type T[P any] P
	//
	// Example:
	//  type T[P any] struct{ *P }
	MisplacedTypeParam

	// InvalidUnsafeSliceData occurs when unsafe.SliceData is called with
	// an argument that is not of slice type. It also occurs if it is used
	// in a package compiled for a language version before go1.20.
	//
	// Example:
	//  import "unsafe"
	//
	//  var x int
	//  var _ = unsafe.SliceData(x)
	InvalidUnsafeSliceData

	// InvalidUnsafeString occurs when unsafe.String is called with
	// a length argument that is not of integer type, negative, or
	// out of bounds. It also occurs if it is used in a package
	// compiled for a language version before go1.20.
	//
	// Example:
	//  import "unsafe"
	//
	//  var b [10]byte
	//  var _ = unsafe.String(&b[0], -1)
	InvalidUnsafeString

	// InvalidUnsafeStringData occurs if it is used in a package
	// compiled for a language version before go1.20.
	_ // not used anymore

)
