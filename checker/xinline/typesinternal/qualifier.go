// Copyright 2024 The Go Authors. All rights reserved.
// Use of this source code is governed by a BSD-style
// license that can be found in the LICENSE file.

package typesinternal

import (
	"go/ast"
	"go/types"
	"strconv"
)

// FileQualifier returns a [types.Qualifier] function that qualifies
// imported symbols appropriately based on the import environment of a given
// file.
// If the same package is imported multiple times, the last appearance is
// recorded.
func FileQualifier(f *ast.File, pkg *types.Package) types.Qualifier {
	// Construct mapping of import paths to their defined names.
	// It is only necessary to look at renaming imports.
	imports := make(map[string]string)
	for _, imp := range f.Imports {
		if imp.Name != nil && imp.Name.Name != "_" {
			path, _ := strconv.Unquote(imp.Path.Value)
			imports[path] = imp.Name.Name
		}
	}

	// Define qualifier to replace full package paths with names of the imports.
	return func(p *types.Package) string {
		if p == nil || p == pkg {
			return ""
		}

		if name, ok := imports[p.Path()]; ok {
			if name == "." {
				return ""
			} else {
				return name
			}
		}

		// If there is no local renaming, fall back to the package name.
		return p.Name()
	}
}
