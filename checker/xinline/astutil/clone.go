// Copyright 2023 The Go Authors. All rights reserved.
// Use of this source code is governed by a BSD-style
// license that can be found in the LICENSE file.

package astutil

import (
	"go/ast"
	"reflect"
)

// CloneNode returns a deep copy of a Node.
// It omits pointers to ast.{Scope,Object} variables.
func CloneNode[T ast.Node](n T) T {
	return cloneNode(n).(T)
}

func cloneNode(n ast.Node) ast.Node {
	var clone func(x reflect.Value) reflect.Value
	set := func(dst, src reflect.Value) {
		src = clone(src)
		if src.IsValid() {
			dst.Set(src)
		}
	}
	clone = func(x reflect.Value) reflect.Value {
		switch x.Kind() {
		case reflect.Ptr:
			if x.IsNil() {
				return x
			}
			// Skip fields of types potentially involved in cycles.
			switch x.Interface().(type) {
			case *ast.Object, *ast.Scope:
				return reflect.Zero(x.Type())
			}
			y := reflect.New(x.Type().Elem())
			set(y.Elem(), x.Elem())
			return y

		case reflect.Struct:
			y := reflect.New(x.Type()).Elem()
			for i := 0; i < x.Type().NumField(); i++ {
				set(y.Field(i), x.Field(i))
			}
			return y

		case reflect.Slice:
			if x.IsNil() {
				return x
			}
			y := reflect.MakeSlice(x.Type(), x.Len(), x.Cap())
			for i := 0; i < x.Len(); i++ {
				set(y.Index(i), x.Index(i))
			}
			return y

		case reflect.Interface:
			y := reflect.New(x.Type()).Elem()
			set(y, x.Elem())
			return y

		case reflect.Array, reflect.Chan, reflect.Func, reflect.Map, reflect.UnsafePointer:
			panic(x) // unreachable in AST

		default:
			return x // bool, string, number
		}
	}
	return clone(reflect.ValueOf(n)).Interface().(ast.Node)
}
