// Copyright 2024 The Go Authors. All rights reserved.
// Use of this source code is governed by a BSD-style
// license that can be found in the LICENSE file.

package aliases

import (
	"go/ast"
	"go/parser"
	"go/token"
	"go/types"
)

// Rhs returns the type on the right-hand side of the alias declaration.
func Rhs(alias *types.Alias) types.Type {
	if alias, ok := any(alias).(interface{ Rhs() types.Type }); ok {
		return alias.Rhs() // go1.23+
	}

	// go1.22's Alias didn't have the Rhs method,
	// so Unalias is the best we can do.
	return types.Unalias(alias)
}

// TypeParams returns the type parameter list of the alias.
func TypeParams(alias *types.Alias) *types.TypeParamList {
	if alias, ok := any(alias).(interface{ TypeParams() *types.TypeParamList }); ok {
		return alias.TypeParams() // go1.23+
	}
	return nil
}

// SetTypeParams sets the type parameters of the alias type.
func SetTypeParams(alias *types.Alias, tparams []*types.TypeParam) {
	if alias, ok := any(alias).(interface {
		SetTypeParams(tparams []*types.TypeParam)
	}); ok {
		alias.SetTypeParams(tparams) // go1.23+
	} else if len(tparams) > 0 {
		panic("cannot set type parameters of an Alias type in go1.22")
	}
}

// TypeArgs returns the type arguments used to instantiate the Alias type.
func TypeArgs(alias *types.Alias) *types.TypeList {
	if alias, ok := any(alias).(interface{ TypeArgs() *types.TypeList }); ok {
		return alias.TypeArgs() // go1.23+
	}
	return nil // empty (go1.22)
}

// Origin returns the generic Alias type of which alias is an instance.
// If alias is not an instance of a generic alias, Origin returns alias.
func Origin(alias *types.Alias) *types.Alias {
	if alias, ok := any(alias).(interface{ Origin() *types.Alias }); ok {
		return alias.Origin() // go1.23+
	}
	return alias // not an instance of a generic alias (go1.22)
}

// Enabled reports whether [NewAlias] should create [types.Alias] types.
//
// This function is expensive! Call it sparingly.
func Enabled() bool {
	// The only reliable way to compute the answer is to invoke go/types.
	// We don't parse the GODEBUG environment variable, because
	// (a) it's tricky to do so in a manner that is consistent
	//     with the godebug package; in particular, a simple
	//     substring check is not good enough. The value is a
	//     rightmost-wins list of options. But more importantly:
	// (b) it is impossible to detect changes to the effective
	//     setting caused by os.Setenv("GODEBUG"), as happens in
	//     many tests. Therefore any attempt to cache the result
	//     is just incorrect.
	fset := token.NewFileSet()
	f, _ := parser.ParseFile(fset, "a.go", "package p; type A = int", parser.SkipObjectResolution)
	pkg, _ := new(types.Config).Check("p", fset, []*ast.File{f}, nil)
	_, enabled := pkg.Scope().Lookup("A").Type().(*types.Alias)
	return enabled
}
