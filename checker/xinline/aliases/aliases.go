// Copyright 2024 The Go Authors. All rights reserved.
// Use of this source code is governed by a BSD-style
// license that can be found in the LICENSE file.

package aliases

import (
	"go/token"
	"go/types"
)

// Package aliases defines backward compatible shims
// for the types.Alias type representation added in 1.22.
// This defines placeholders for x/tools until 1.26.

// NewAlias creates a new TypeName in Package pkg that
// is an alias for the type rhs.
//
// The enabled parameter determines whether the resulting [TypeName]'s
// type is an [types.Alias]. Its value must be the result of a call to
// [Enabled], which computes the effective value of
// GODEBUG=gotypesalias=... by invoking the type checker. The Enabled
// function is expensive and should be called once per task (e.g.
// package import), not once per call to NewAlias.
//
// Precondition: enabled || len(tparams)==0.
// If materialized aliases are disabled, there must not be any type parameters.
func NewAlias(enabled bool, pos token.Pos, pkg *types.Package, name string, rhs types.Type, tparams []*types.TypeParam) *types.TypeName {
	if enabled {
		tname := types.NewTypeName(pos, pkg, name, nil)
		SetTypeParams(types.NewAlias(tname, rhs), tparams)
		return tname
	}
	if len(tparams) > 0 {
		panic("cannot create an alias with type parameters when gotypesalias is not enabled")
	}
	return types.NewTypeName(pos, pkg, name, rhs)
}
