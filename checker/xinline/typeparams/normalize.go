// Copyright 2021 The Go Authors. All rights reserved.
// Use of this source code is governed by a BSD-style
// license that can be found in the LICENSE file.

package typeparams

import (
	"errors"
	"fmt"
	"go/types"
	"os"
	"strings"
)

//go:generate go run copytermlist.go

const debug = false

var ErrEmptyTypeSet = errors.New("empty type set")

// StructuralTerms returns a slice of terms representing the normalized
// structural type restrictions of a type parameter, if any.
//
// Structural type restrictions of a type parameter are created via
// non-interface types embedded in its constraint interface (directly, or via a
// chain of interface embeddings). For example, in the declaration
//
//	type T[P interface{~int; m()}] int
//
// the structural restriction of the type parameter P is ~int.
//
// With interface embedding and unions, the specification of structural type
// restrictions may be arbitrarily complex. For example, consider the
// following:
//
//	type A interface{ ~string|~[]byte }
//
//	type B interface{ int|string }
//
//	type C interface { ~string|~int }
//
//	type T[P interface{ A|B; C }] int
//
// In this example, the structural type restriction of P is ~string|int: A|B
// expands to ~string|~[]byte|int|string, which reduces to ~string|~[]byte|int,
// which when intersected with C (~string|~int) yields ~string|int.
//
// StructuralTerms computes these expansions and reductions, producing a
// "normalized" form of the embeddings. A structural restriction is normalized
// if it is a single union containing no interface terms, and is minimal in the
// sense that removing any term changes the set of types satisfying the
// constraint. It is left as a proof for the reader that, modulo sorting, there
// is exactly one such normalized form.
//
// Because the minimal representation always takes this form, StructuralTerms
// returns a slice of tilde terms corresponding to the terms of the union in
// the normalized structural restriction. An error is returned if the
// constraint interface is invalid, exceeds complexity bounds, or has an empty
// type set. In the latter case, StructuralTerms returns ErrEmptyTypeSet.
//
// StructuralTerms makes no guarantees about the order of terms, except that it
// is deterministic.
func StructuralTerms(tparam *types.TypeParam) ([]*types.Term, error) {
	constraint := tparam.Constraint()
	if constraint == nil {
		return nil, fmt.Errorf("%s has nil constraint", tparam)
	}
	iface, _ := constraint.Underlying().(*types.Interface)
	if iface == nil {
		return nil, fmt.Errorf("constraint is %T, not *types.Interface", constraint.Underlying())
	}
	return InterfaceTermSet(iface)
}

// InterfaceTermSet computes the normalized terms for a constraint interface,
// returning an error if the term set cannot be computed or is empty. In the
// latter case, the error will be ErrEmptyTypeSet.
//
// See the documentation of StructuralTerms for more information on
// normalization.
func InterfaceTermSet(iface *types.Interface) ([]*types.Term, error) {
	return computeTermSet(iface)
}

// UnionTermSet computes the normalized terms for a union, returning an error
// if the term set cannot be computed or is empty. In the latter case, the
// error will be ErrEmptyTypeSet.
//
// See the documentation of StructuralTerms for more information on
// normalization.
func UnionTermSet(union *types.Union) ([]*types.Term, error) {
	return computeTermSet(union)
}

func computeTermSet(typ types.Type) ([]*types.Term, error) {
	tset, err := computeTermSetInternal(typ, make(map[types.Type]*termSet), 0)
	if err != nil {
		return nil, err
	}
	if tset.terms.isEmpty() {
		return nil, ErrEmptyTypeSet
	}
	if tset.terms.isAll() {
		return nil, nil
	}
	var terms []*types.Term
	for _, term := range tset.terms {
		terms = append(terms, types.NewTerm(term.tilde, term.typ))
	}
	return terms, nil
}

// A termSet holds the normalized set of terms for a given type.
//
// The name termSet is intentionally distinct from 'type set': a type set is
// all types that implement a type (and includes method restrictions), whereas
// a term set just represents the structural restrictions on a type.
type termSet struct {
	complete bool
	terms    termlist
}

func indentf(depth int, format string, args ...interface{}) {
	fmt.Fprintf(os.Stderr, strings.Repeat(".", depth)+format+"\n", args...)
}

func computeTermSetInternal(t types.Type, seen map[types.Type]*termSet, depth int) (res *termSet, err error) {
	if t == nil {
		panic("nil type")
	}

	if debug {
		indentf(depth, "%s", t.String())
		defer func() {
			if err != nil {
				indentf(depth, "=> %s", err)
			} else {
				indentf(depth, "=> %s", res.terms.String())
			}
		}()
	}

	const maxTermCount = 100
	if tset, ok := seen[t]; ok {
		if !tset.complete {
			return nil, fmt.Errorf("cycle detected in the declaration of %s", t)
		}
		return tset, nil
	}

	// Mark the current type as seen to avoid infinite recursion.
	tset := new(termSet)
	defer func() {
		tset.complete = true
	}()
	seen[t] = tset

	switch u := t.Underlying().(type) {
	case *types.Interface:
		// The term set of an interface is the intersection of the term sets of its
		// embedded types.
		tset.terms = allTermlist
		for i := 0; i < u.NumEmbeddeds(); i++ {
			embedded := u.EmbeddedType(i)
			if _, ok := embedded.Underlying().(*types.TypeParam); ok {
				return nil, fmt.Errorf("invalid embedded type %T", embedded)
			}
			tset2, err := computeTermSetInternal(embedded, seen, depth+1)
			if err != nil {
				return nil, err
			}
			tset.terms = tset.terms.intersect(tset2.terms)
		}
	case *types.Union:
		// The term set of a union is the union of term sets of its terms.
		tset.terms = nil
		for i := 0; i < u.Len(); i++ {
			t := u.Term(i)
			var terms termlist
			switch t.Type().Underlying().(type) {
			case *types.Interface:
				tset2, err := computeTermSetInternal(t.Type(), seen, depth+1)
				if err != nil {
					return nil, err
				}
				terms = tset2.terms
			case *types.TypeParam, *types.Union:
				// A stand-alone type parameter or union is not permitted as union
				// term.
				return nil, fmt.Errorf("invalid union term %T", t)
			default:
				if t.Type() == types.Typ[types.Invalid] {
					continue
				}
				terms = termlist{{t.Tilde(), t.Type()}}
			}
			tset.terms = tset.terms.union(terms)
			if len(tset.terms) > maxTermCount {
				return nil, fmt.Errorf("exceeded max term count %d", maxTermCount)
			}
		}
	case *types.TypeParam:
		panic("unreachable")
	default:
		// For all other types, the term set is just a single non-tilde term
		// holding the type itself.
		if u != types.Typ[types.Invalid] {
			tset.terms = termlist{{false, t}}
		}
	}
	return tset, nil
}

// under is a facade for the go/types internal function of the same name. It is
// used by typeterm.go.
func under(t types.Type) types.Type {
	return t.Underlying()
}
