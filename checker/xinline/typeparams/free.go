// Copyright 2024 The Go Authors. All rights reserved.
// Use of this source code is governed by a BSD-style
// license that can be found in the LICENSE file.

package typeparams

import (
	"go/types"

	"verif/checker/xinline/aliases"
)

// Free is a memoization of the set of free type parameters within a
// type. It makes a sequence of calls to [Free.Has] for overlapping
// types more efficient. The zero value is ready for use.
//
// NOTE: Adapted from go/types/infer.go. If it is later exported, factor.
type Free struct {
	seen map[types.Type]bool
}

// Has reports whether the specified type has a free type parameter.
func (w *Free) Has(typ types.Type) (res bool) {
	// detect cycles
	if x, ok := w.seen[typ]; ok {
		return x
	}
	if w.seen == nil {
		w.seen = make(map[types.Type]bool)
	}
	w.seen[typ] = false
	defer func() {
		w.seen[typ] = res
	}()

	switch t := typ.(type) {
	case nil, *types.Basic: // TODO(gri) should nil be handled here?
		break

	case *types.Alias:
		if aliases.TypeParams(t).Len() > aliases.TypeArgs(t).Len() {
			return true // This is an uninstantiated Alias.
		}
		// The expansion of an alias can have free type parameters,
		// whether or not the alias itself has type parameters:
		//
		//   func _[K comparable]() {
		//     type Set      = map[K]bool // free(Set)      = {K}
		//     type MapTo[V] = map[K]V    // free(Map[foo]) = {V}
		//   }
		//
		// So, we must Unalias.
		return w.Has(types.Unalias(t))

	case *types.Array:
		return w.Has(t.Elem())

	case *types.Slice:
		return w.Has(t.Elem())

	case *types.Struct:
		for i, n := 0, t.NumFields(); i < n; i++ {
			if w.Has(t.Field(i).Type()) {
				return true
			}
		}

	case *types.Pointer:
		return w.Has(t.Elem())

	case *types.Tuple:
		n := t.Len()
		for i := 0; i < n; i++ {
			if w.Has(t.At(i).Type()) {
				return true
			}
		}

	case *types.Signature:
		// t.tparams may not be nil if we are looking at a signature
		// of a generic function type (or an interface method) that is
		// part of the type we're testing. We don't care about these type
		// parameters.
		// Similarly, the receiver of a method may declare (rather than
		// use) type parameters, we don't care about those either.
		// Thus, we only need to look at the input and result parameters.
		return w.Has(t.Params()) || w.Has(t.Results())

	case *types.Interface:
		for i, n := 0, t.NumMethods(); i < n; i++ {
			if w.Has(t.Method(i).Type()) {
				return true
			}
		}
		terms, err := InterfaceTermSet(t)
		if err != nil {
			return false // ill typed
		}
		for _, term := range terms {
			if w.Has(term.Type()) {
				return true
			}
		}

	case *types.Map:
		return w.Has(t.Key()) || w.Has(t.Elem())

	case *types.Chan:
		return w.Has(t.Elem())

	case *types.Named:
		args := t.TypeArgs()
		if params := t.TypeParams(); params.Len() > args.Len() {
			return true // this is an uninstantiated named type.
		}
		for i, n := 0, args.Len(); i < n; i++ {
			if w.Has(args.At(i)) {
				return true
			}
		}
		return w.Has(t.Underlying()) // recurse for types local to parameterized functions

	case *types.TypeParam:
		return true

	default:
		panic(t) // unreachable
	}

	return false
}
