// Copyright 2021 The Go Authors. All rights reserved.
// Use of this source code is governed by a BSD-style
// license that can be found in the LICENSE file.

// Package typeparams contains common utilities for writing tools that
// interact with generic Go code, as introduced with Go 1.18. It
// supplements the standard library APIs. Notably, the StructuralTerms
// API computes a minimal representation of the structural
// restrictions on a type parameter.
//
// An external version of these APIs is available in the
// golang.org/x/exp/typeparams module.
package typeparams

import (
	"go/ast"
	"go/token"
	"go/types"
)

// UnpackIndexExpr extracts data from AST nodes that represent index
// expressions.
//
// For an ast.IndexExpr, the resulting indices slice will contain exactly one
// index expression. For an ast.IndexListExpr (go1.18+), it may have a variable
// number of index expressions.
//
// For nodes that don't represent index expressions, the first return value of
// UnpackIndexExpr will be nil.
func UnpackIndexExpr(n ast.Node) (x ast.Expr, lbrack token.Pos, indices []ast.Expr, rbrack token.Pos) {
	switch e := n.(type) {
	case *ast.IndexExpr:
		return e.X, e.Lbrack, []ast.Expr{e.Index}, e.Rbrack
	case *ast.IndexListExpr:
		return e.X, e.Lbrack, e.Indices, e.Rbrack
	}
	return nil, token.NoPos, nil, token.NoPos
}

// PackIndexExpr returns an *ast.IndexExpr or *ast.IndexListExpr, depending on
// the cardinality of indices. Calling PackIndexExpr with len(indices) == 0
// will panic.
func PackIndexExpr(x ast.Expr, lbrack token.Pos, indices []ast.Expr, rbrack token.Pos) ast.Expr {
	switch len(indices) {
	case 0:
		panic("empty indices")
	case 1:
		return &ast.IndexExpr{
			X:      x,
			Lbrack: lbrack,
			Index:  indices[0],
			Rbrack: rbrack,
		}
	default:
		return &ast.IndexListExpr{
			X:       x,
			Lbrack:  lbrack,
			Indices: indices,
			Rbrack:  rbrack,
		}
	}
}

// IsTypeParam reports whether t is a type parameter (or an alias of one).
func IsTypeParam(t types.Type) bool {
	_, ok := types.Unalias(t).(*types.TypeParam)
	return ok
}
