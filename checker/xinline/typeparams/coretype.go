// Copyright 2022 The Go Authors. All rights reserved.
// Use of this source code is governed by a BSD-style
// license that can be found in the LICENSE file.

package typeparams

import (
	"fmt"
	"go/types"
)

// CoreType returns the core type of T or nil if T does not have a core type.
//
// See https://go.dev/ref/spec#Core_types for the definition of a core type.
func CoreType(T types.Type) types.Type {
	U := T.Underlying()
	if _, ok := U.(*types.Interface); !ok {
		return U // for non-interface types,
	}

	terms, err := NormalTerms(U)
	if len(terms) == 0 || err != nil {
		// len(terms) -> empty type set of interface.
		// err != nil => U is invalid, exceeds complexity bounds, or has an empty type set.
		return nil // no core type.
	}

	U = terms[0].Type().Underlying()
	var identical int // i in [0,identical) => Identical(U, terms[i].Type().Underlying())
	for identical = 1; identical < len(terms); identical++ {
		if !types.Identical(U, terms[identical].Type().Underlying()) {
			break
		}
	}

	if identical == len(terms) {
		// https://go.dev/ref/spec#Core_types
		// "There is a single type U which is the underlying type of all types in the type set of T"
		return U
	}
	ch, ok := U.(*types.Chan)
	if !ok {
		return nil // no core type as identical < len(terms) and U is not a channel.
	}
	// https://go.dev/ref/spec#Core_types
	// "the type chan E if T contains only bidirectional channels, or the type chan<- E or
	// <-chan E depending on the direction of the directional channels present."
	for chans := identical; chans < len(terms); chans++ {
		curr, ok := terms[chans].Type().Underlying().(*types.Chan)
		if !ok {
			return nil
		}
		if !types.Identical(ch.Elem(), curr.Elem()) {
			return nil // channel elements are not identical.
		}
		if ch.Dir() == types.SendRecv {
			// ch is bidirectional. We can safely always use curr's direction.
			ch = curr
		} else if curr.Dir() != types.SendRecv && ch.Dir() != curr.Dir() {
			// ch and curr are not bidirectional and not the same direction.
			return nil
		}
	}
	return ch
}

// NormalTerms returns a slice of terms representing the normalized structural
// type restrictions of a type, if any.
//
// For all types other than *types.TypeParam, *types.Interface, and
// *types.Union, this is just a single term with Tilde() == false and
// Type() == typ. For *types.TypeParam, *types.Interface, and *types.Union, see
// below.
//
// Structural type restrictions of a type parameter are created via
// non-interface types embedded in its constraint interface (directly, or via a
// chain of interface embeddings). For example, in the declaration type
// T[P interface{~int; m()}] int the structural restriction of the type
// parameter P is ~int.
//
// With interface embedding and unions, the specification of structural type
// restrictions may be arbitrarily complex. For example, consider the
// following:
//
//	type A interface{ ~string|~[]byte }
//
//	type B interface{ int|string }
//
//	type C interface { ~string|~int }
//
//	type T[P interface{ A|B; C }] int
//
// In this example, the structural type restriction of P is ~string|int: A|B
// expands to ~string|~[]byte|int|string, which reduces to ~string|~[]byte|int,
// which when intersected with C (~string|~int) yields ~string|int.
//
// NormalTerms computes these expansions and reductions, producing a
// "normalized" form of the embeddings. A structural restriction is normalized
// if it is a single union containing no interface terms, and is minimal in the
// sense that removing any term changes the set of types satisfying the
// constraint. It is left as a proof for the reader that, modulo sorting, there
// is exactly one such normalized form.
//
// Because the minimal representation always takes this form, NormalTerms
// returns a slice of tilde terms corresponding to the terms of the union in
// the normalized structural restriction. An error is returned if the type is
// invalid, exceeds complexity bounds, or has an empty type set. In the latter
// case, NormalTerms returns ErrEmptyTypeSet.
//
// NormalTerms makes no guarantees about the order of terms, except that it
// is deterministic.
func NormalTerms(typ types.Type) ([]*types.Term, error) {
	switch typ := typ.Underlying().(type) {
	case *types.TypeParam:
		return StructuralTerms(typ)
	case *types.Union:
		return UnionTermSet(typ)
	case *types.Interface:
		return InterfaceTermSet(typ)
	default:
		return []*types.Term{types.NewTerm(false, typ)}, nil
	}
}

// Deref returns the type of the variable pointed to by t,
// if t's core type is a pointer; otherwise it returns t.
//
// Do not assume that Deref(T)==T implies T is not a pointer:
// consider "type T *T", for example.
//
// TODO(adonovan): ideally this would live in typesinternal, but that
// creates an import cycle. Move there when we melt this package down.
func Deref(t types.Type) types.Type {
	if ptr, ok := CoreType(t).(*types.Pointer); ok {
		return ptr.Elem()
	}
	return t
}

// MustDeref returns the type of the variable pointed to by t.
// It panics if t's core type is not a pointer.
//
// TODO(adonovan): ideally this would live in typesinternal, but that
// creates an import cycle. Move there when we melt this package down.
func MustDeref(t types.Type) types.Type {
	if ptr, ok := CoreType(t).(*types.Pointer); ok {
		return ptr.Elem()
	}
	panic(fmt.Sprintf("%v is not a pointer", t))
}
