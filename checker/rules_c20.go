package main

// C20 — numeric path segments index lists only within [0, MaxIdx].
// R20a: the classifier's guard, read off the CFG of parseField with branch polarity and evaluated on
// every ordering region of (idx, maxIdx) x numKeys x parse-error, is exactly
// !numKeys && err==nil && 0 <= idx <= maxIdx; names round-trip unmodified.
// R20b: numeric keys are disabled by parsePath only for multi-segment paths.
// R20c: parseField is the only place that turns text into an index field.
// R20d: the integer parse is ParseInt(in, 0, 64).

import (
	"fmt"
	"go/token"
	"go/types"
	"math"
	"sort"
	"strings"

	"golang.org/x/tools/go/ssa"
)

func init() {
	register("C20", "Truth-table decision of the index/name classifier: the path conditions of every return of parseField are read from SSA with polarity, restricted to comparisons of the parsed integer with constants and maxIdx, the numeric-keys flag and the parse error, and evaluated on all ordering regions (idx<0, 0, inside, =max, >max, extremes; max<0,0,>0); the result must equal !numKeys && parsed && 0<=idx<=max. Plus: names are returned unmodified, numeric keys are only disabled for multi-segment paths, ParseInt uses base 0/64 bits, and every other index constructor guards its index. The classifier touches the number only through comparisons, so the finite table covers all integers; list growth itself (fields.setAt) is decided under C07.", checkC20)
}

type c20atom struct {
	kind string // "numkeys" | "errnil" | "cmp" | "unknown"
	cmp  struct {
		l, r string // "idx" | "max" | "const"
		lc   int64
		rc   int64
		op   token.Token
	}
	desc string
}

type c20env struct {
	numKeys, errNil bool
	idx, max        int64
}

// userOptionsWinRule (R20e): makeOptions sets its defaults before the caller's options run and does
// not touch an option-settable field afterwards — a default applied "when the field is still zero"
// silently replaces an explicit MaxIdx(0) (or any other explicit zero) by the default.
func userOptionsWinRule(c *Ctx, r *Report) {
	r.Rule("R20e", "makeOptions stores into no field that an Option can set after the caller's options were applied (explicit values win, including zero: MaxIdx(0))", 1)
	mk := c.Func("", "makeOptions")
	optsT := c.Named("", "options")
	// fields an Option closure can set: stores through a *options parameter in functions of signature func(*options)
	settable := map[string]bool{}
	for _, fn := range c.SrcFuncs() {
		if fn.Pkg != c.SSA[""] || len(fn.Params) != 1 || fn.Signature.Results().Len() != 0 {
			continue
		}
		if pt, ok := fn.Params[0].Type().(*types.Pointer); !ok || !types.Identical(pt.Elem(), optsT) {
			continue
		}
		Instrs(fn, false, func(in ssa.Instruction) {
			if st, ok := in.(*ssa.Store); ok {
				if fa, ok := st.Addr.(*ssa.FieldAddr); ok && fa.X == ssa.Value(fn.Params[0]) {
					settable[fieldName(optsT, fa.Field)] = true
				}
			}
		})
	}
	r.Analysed["option-settable fields"] += len(settable)
	// the application of the caller's options: a dynamic call taking the address of the options value
	var apply ssa.Instruction
	Instrs(mk, false, func(in ssa.Instruction) {
		if call, ok := in.(*ssa.Call); ok && call.Call.StaticCallee() == nil && !call.Call.IsInvoke() && len(call.Call.Args) == 1 {
			if pt, ok := call.Call.Args[0].Type().(*types.Pointer); ok && types.Identical(pt.Elem(), optsT) {
				apply = call
			}
		}
	})
	if apply == nil || len(settable) < 5 {
		r.add("R20e", c.FnName(mk), "options applied", c.Pos(mk.Pos()), Undecided, true, fmt.Sprintf("could not find the application of the caller's options in makeOptions (or only %d option-settable fields)", len(settable)))
		return
	}
	bad := ""
	var pos token.Pos
	Instrs(mk, false, func(in ssa.Instruction) {
		st, ok := in.(*ssa.Store)
		if !ok {
			return
		}
		fa, ok := st.Addr.(*ssa.FieldAddr)
		if !ok || !types.Identical(derefType(fa.X.Type()), optsT) {
			return
		}
		f := fieldName(optsT, fa.Field)
		if !settable[f] {
			return
		}
		after := false
		if st.Block() == apply.Block() {
			after = InstrDominates(apply, st)
		} else if reachableAvoiding(apply.Block(), st.Block(), nil) {
			after = true
		}
		if after {
			bad = f
			pos = st.Pos()
		}
	})
	if pos == token.NoPos {
		pos = mk.Pos()
	}
	r.Check(bad == "", "R20e", c.FnName(mk), "defaults before options", c.Pos(pos), "no option-settable field is stored after the options ran",
		"makeOptions writes options."+bad+" after the caller's options were applied: an explicit value (MaxIdx(0): only index 0 allowed) is replaced by the default")
}

func checkC20(c *Ctx, r *Report) {
	defer addressOptionsRule(c, r)
	defer partDisciplineRule(c, r, "R20f")
	defer userOptionsWinRule(c, r)
	r.Assumption("strconv.ParseInt implements Go integer literal syntax for base 0 (trusted standard library)")
	pf := c.Func("", "parseField")
	name := c.FnName(pf)
	idxT := c.Named("", "idxField")
	namedT := c.Named("", "namedField")

	r.Rule("R20a", "parseField returns an index field exactly on !numKeys && err==nil && 0<=idx<=maxIdx (truth table over ordering regions); every other return is namedField{in} with the unmodified input", 3)
	r.Rule("R20d", "the integer parse is strconv.ParseInt(in, 0, 64) on the function's own input", 1)

	// locate parameters by type/position: (in string, maxIdx int64, enableNumKeys bool)
	var pIn, pMax, pNum *ssa.Parameter
	for _, p := range pf.Params {
		switch b := p.Type().Underlying().(type) {
		case *types.Basic:
			switch {
			case b.Kind() == types.String && pIn == nil:
				pIn = p
			case b.Info()&types.IsInteger != 0 && pMax == nil:
				pMax = p
			case b.Kind() == types.Bool && pNum == nil:
				pNum = p
			}
		}
	}
	if pIn == nil || pMax == nil || pNum == nil {
		undecidedf("ANCHOR-MISSING: parseField(in string, maxIdx int, enableNumKeys bool) signature not recognised")
	}

	// R20d
	var parse *ssa.Call
	nParse := 0
	for _, ci := range CallsIn(pf, false) {
		if f := ci.Common().StaticCallee(); f != nil && f.Pkg != nil && f.Pkg.Pkg.Path() == "strconv" {
			nParse++
			if call, ok := ci.(*ssa.Call); ok && f.Name() == "ParseInt" {
				parse = call
			}
		}
	}
	if parse == nil || nParse != 1 {
		r.Bad("R20d", name, "ParseInt", c.Pos(pf.Pos()), fmt.Sprintf("expected exactly one strconv call, ParseInt; found %d strconv calls", nParse))
		return
	}
	{
		a := parse.Call.Args
		base, ok1 := ConstInt(a[1])
		bits, ok2 := ConstInt(a[2])
		ok := a[0] == ssa.Value(pIn) && ok1 && ok2 && base == 0 && bits == 64
		r.Check(ok, "R20d", name, "ParseInt(in,0,64)", c.Pos(parse.Pos()), "ParseInt(in, 0, 64)", fmt.Sprintf("integer parse is not ParseInt(in, 0, 64): args %v %v %v — segments in some Go integer syntaxes are no longer recognised (or truncated)", a[0], a[1], a[2]))
	}

	isIdx := func(v ssa.Value) bool {
		for {
			switch x := v.(type) {
			case *ssa.Convert:
				// widening or same-size integer conversion of the parsed value keeps its order only if
				// it cannot truncate: accept conversions to 64-bit integers only
				if b, ok := x.Type().Underlying().(*types.Basic); ok && (b.Kind() == types.Int64) {
					v = x.X
					continue
				}
				return false
			case *ssa.ChangeType:
				v = x.X
				continue
			case *ssa.Extract:
				return x.Tuple == ssa.Value(parse) && x.Index == 0
			}
			return false
		}
	}
	isMax := func(v ssa.Value) bool {
		for {
			switch x := v.(type) {
			case *ssa.Convert:
				if b, ok := x.Type().Underlying().(*types.Basic); ok && b.Kind() == types.Int64 {
					v = x.X
					continue
				}
				return false
			case *ssa.ChangeType:
				v = x.X
				continue
			case *ssa.Parameter:
				return x == pMax
			}
			return false
		}
	}
	isErr := func(v ssa.Value) bool {
		e, ok := v.(*ssa.Extract)
		return ok && e.Tuple == ssa.Value(parse) && e.Index == 1
	}
	classify := func(pc PathCond) (c20atom, bool) {
		v, truth := pc.V, pc.Truth
		for {
			u, ok := v.(*ssa.UnOp)
			if !ok || u.Op != token.NOT {
				break
			}
			v, truth = u.X, !truth
		}
		var a c20atom
		if v == ssa.Value(pNum) {
			a.kind, a.desc = "numkeys", "enableNumKeys"
			return a, truth
		}
		if b, ok := v.(*ssa.BinOp); ok {
			if (b.Op == token.EQL || b.Op == token.NEQ) && ((isErr(b.X) && IsNilConst(b.Y)) || (isErr(b.Y) && IsNilConst(b.X))) {
				a.kind, a.desc = "errnil", "err == nil"
				if b.Op == token.NEQ {
					truth = !truth
				}
				return a, truth
			}
			side := func(x ssa.Value) (string, int64, bool) {
				if isIdx(x) {
					return "idx", 0, true
				}
				if isMax(x) {
					return "max", 0, true
				}
				if k, ok := ConstInt(x); ok {
					return "const", k, true
				}
				return "", 0, false
			}
			l, lc, okl := side(b.X)
			rr, rc, okr := side(b.Y)
			switch b.Op {
			case token.LSS, token.LEQ, token.GTR, token.GEQ, token.EQL, token.NEQ:
				if okl && okr {
					a.kind = "cmp"
					a.cmp.l, a.cmp.lc, a.cmp.r, a.cmp.rc, a.cmp.op = l, lc, rr, rc, b.Op
					a.desc = fmt.Sprintf("%s %s %s", sideStr(l, lc), b.Op, sideStr(rr, rc))
					return a, truth
				}
			}
		}
		a.kind, a.desc = "unknown", v.String()
		return a, truth
	}

	type lit struct {
		a     c20atom
		truth bool
	}
	var guard [][]lit // DNF for "returns idxField"
	consts := map[int64]bool{0: true, -1: true, 1: true}
	unknown := map[string]bool{}
	nIdxRet, nNamedRet := 0, 0
	for _, ret := range Returns(pf) {
		if len(ret.Results) != 1 {
			continue
		}
		kinds := map[string]bool{}
		for _, s := range Sources(ret.Results[0]) {
			t := s.Type()
			switch {
			case types.Identical(t, idxT):
				kinds["idx"] = true
			case types.Identical(t, namedT):
				kinds["named"] = true
			default:
				kinds["other:"+typeStr(t)] = true
			}
		}
		if len(kinds) != 1 {
			r.add("R20a", name, "return kind", c.Pos(ret.Pos()), Undecided, true, "cannot tell which field kind this return yields: "+strings.Join(sortedKeys(kinds), ","))
			continue
		}
		if kinds["named"] {
			nNamedRet++
			// the name stored is the unmodified input
			ok := false
			for _, s := range Sources(ret.Results[0]) {
				if l, isLoad := s.(*ssa.UnOp); isLoad {
					if a, isAlloc := l.X.(*ssa.Alloc); isAlloc {
						for _, ref := range *a.Referrers() {
							if fa, isFA := ref.(*ssa.FieldAddr); isFA {
								for _, r2 := range *fa.Referrers() {
									if st, isSt := r2.(*ssa.Store); isSt && st.Addr == ssa.Value(fa) && st.Val == ssa.Value(pIn) {
										ok = true
									}
								}
							}
						}
					}
				}
			}
			r.Check(ok, "R20a", name, "name round-trips", c.Pos(ret.Pos()), "namedField{in} with the unmodified parameter", "a non-index segment is not returned as namedField{in} with the unmodified input string")
			continue
		}
		if !kinds["idx"] {
			r.Bad("R20a", name, "return kind", c.Pos(ret.Pos()), "parseField returns a value that is neither idxField nor namedField")
			continue
		}
		nIdxRet++
		// the index stored is the parsed integer
		storedOK := false
		for _, s := range Sources(ret.Results[0]) {
			if l, isLoad := s.(*ssa.UnOp); isLoad {
				if a, isAlloc := l.X.(*ssa.Alloc); isAlloc {
					for _, ref := range *a.Referrers() {
						if fa, isFA := ref.(*ssa.FieldAddr); isFA {
							for _, r2 := range *fa.Referrers() {
								if st, isSt := r2.(*ssa.Store); isSt && st.Addr == ssa.Value(fa) {
									if cv, isCv := st.Val.(*ssa.Convert); isCv {
										if e, isE := cv.X.(*ssa.Extract); isE && e.Tuple == ssa.Value(parse) && e.Index == 0 {
											storedOK = true
										}
									}
								}
							}
						}
					}
				}
			}
		}
		r.Check(storedOK, "R20a", name, "index is the parsed integer", c.Pos(ret.Pos()), "idxField{int(idx)} of the integer that was range-tested", "the index stored in idxField is not the parsed integer that the guard tested")
		paths, ok := PathsTo(pf, ret.Block())
		if !ok {
			r.add("R20a", name, "guard", c.Pos(ret.Pos()), Undecided, true, "too many paths")
			continue
		}
		for _, p := range paths {
			var conj []lit
			for _, pc := range p.Conds {
				a, truth := classify(pc)
				if a.kind == "unknown" {
					unknown[a.desc] = true
				}
				if a.kind == "cmp" {
					if a.cmp.l == "const" {
						consts[a.cmp.lc] = true
					}
					if a.cmp.r == "const" {
						consts[a.cmp.rc] = true
					}
				}
				conj = append(conj, lit{a, truth})
			}
			guard = append(guard, conj)
		}
	}
	if nIdxRet == 0 {
		r.Bad("R20a", name, "guard", c.Pos(pf.Pos()), "parseField never returns an index field")
		return
	}
	if nNamedRet == 0 {
		r.Bad("R20a", name, "name round-trips", c.Pos(pf.Pos()), "parseField never returns a named field")
	}
	if len(unknown) > 0 {
		r.add("R20a", name, "guard", c.Pos(pf.Pos()), Undecided, true, "the classifier's guard depends on conditions outside the comparison vocabulary (numKeys, err==nil, idx/maxIdx/constant comparisons): "+strings.Join(sortedKeys(unknown), "; "))
		return
	}
	// truth table
	evalSide := func(s string, k int64, e c20env) int64 {
		switch s {
		case "idx":
			return e.idx
		case "max":
			return e.max
		}
		return k
	}
	evalAtom := func(a c20atom, e c20env) bool {
		switch a.kind {
		case "numkeys":
			return e.numKeys
		case "errnil":
			return e.errNil
		case "cmp":
			l, rr := evalSide(a.cmp.l, a.cmp.lc, e), evalSide(a.cmp.r, a.cmp.rc, e)
			switch a.cmp.op {
			case token.LSS:
				return l < rr
			case token.LEQ:
				return l <= rr
			case token.GTR:
				return l > rr
			case token.GEQ:
				return l >= rr
			case token.EQL:
				return l == rr
			case token.NEQ:
				return l != rr
			}
		}
		return false
	}
	var maxes = []int64{1024, 5, 1, 0, -1, -7, math.MaxInt64}
	var cs []int64
	for k := range consts {
		cs = append(cs, k)
	}
	sort.Slice(cs, func(i, j int) bool { return cs[i] < cs[j] })
	rows, bad := 0, 0
	var firstBad []string
	for _, mx := range maxes {
		pts := map[int64]bool{math.MinInt64: true, math.MaxInt64: true}
		for _, k := range append(cs, mx) {
			pts[k] = true
			if k > math.MinInt64 {
				pts[k-1] = true
			}
			if k < math.MaxInt64 {
				pts[k+1] = true
			}
		}
		var idxs []int64
		for k := range pts {
			idxs = append(idxs, k)
		}
		sort.Slice(idxs, func(i, j int) bool { // small magnitudes first: the examples quoted are the telling ones
			ai, aj := idxs[i], idxs[j]
			if ai < 0 {
				ai = -(ai + 1)
			}
			if aj < 0 {
				aj = -(aj + 1)
			}
			if ai != aj {
				return ai < aj
			}
			return idxs[i] < idxs[j]
		})
		for _, ix := range idxs {
			for _, nk := range []bool{false, true} {
				for _, en := range []bool{false, true} {
					e := c20env{nk, en, ix, mx}
					if !en {
						e.idx = 0 // ParseInt returns 0 (or a clamped value) with an error; the value must not matter
					}
					got := false
					for _, conj := range guard {
						all := true
						for _, l := range conj {
							if evalAtom(l.a, e) != l.truth {
								all = false
								break
							}
						}
						if all {
							got = true
							break
						}
					}
					want := !nk && en && ix >= 0 && ix <= mx
					rows++
					if got != want {
						bad++
						if len(firstBad) < 4 {
							firstBad = append(firstBad, fmt.Sprintf("idx=%d maxIdx=%d numKeys=%v parsed=%v: classified as %s, must be %s", ix, mx, nk, en, kindStr(got), kindStr(want)))
						}
					}
				}
			}
		}
	}
	r.Analysed["truth-table rows"] = rows
	var gs []string
	for _, conj := range guard {
		var ls []string
		for _, l := range conj {
			if l.truth {
				ls = append(ls, l.a.desc)
			} else {
				ls = append(ls, "!("+l.a.desc+")")
			}
		}
		gs = append(gs, strings.Join(ls, " && "))
	}
	gstr := strings.Join(gs, "  ||  ")
	r.Check(bad == 0, "R20a", name, "guard", c.Pos(pf.Pos()), fmt.Sprintf("guard [%s] equals !numKeys && parsed && 0<=idx<=maxIdx on all %d rows", gstr, rows),
		fmt.Sprintf("index/name classifier guard [%s] differs from !numKeys && parsed && 0<=idx<=maxIdx on %d of %d rows, e.g. %s", gstr, bad, rows, strings.Join(firstBad, "; ")))

	// R20b
	r.Rule("R20b", "parsePath passes its own enableNumKeys to parseField, cleared to false only under len(elems) > 1", 2)
	pp := c.Func("", "parsePath")
	var ppNum *ssa.Parameter
	for _, p := range pp.Params {
		if p.Name() == pNum.Name() {
			ppNum = p
		}
	}
	if ppNum == nil {
		for _, p := range pp.Params {
			if b, ok := p.Type().Underlying().(*types.Basic); ok && b.Kind() == types.Bool && ppNum == nil {
				ppNum = p
			}
		}
	}
	nCalls := 0
	for _, ci := range CallsTo(pp, pf, true) {
		nCalls++
		arg := ci.Common().Args[2]
		verdict, fact := numKeysArg(arg, ppNum)
		r.Check(verdict, "R20b", c.FnName(pp), "numKeys argument", c.Pos(ci.Pos()), fact, fact)
		// only the segments of a split name are in question: the unsplit name taken as one segment (no separator
		// configured, an escaped name — also when it travels through a one-element list) is single by construction
		if verdict && arg == ssa.Value(ppNum) && splitDerived(ci.Common().Args[0]) {
			// nothing is cleared here: the rule "a name with more than one segment addresses list entries whatever
			// EnableNumKeys says" is then the callers' to keep — each of them must hand over the constant false
			// (it cannot know the number of segments without splitting the name itself)
			callers, asValue := c.StaticCallers(pp)
			if asValue {
				r.add("R20b", c.FnName(pp), "numKeys argument of the callers", c.Pos(pp.Pos()), Undecided, true, "parsePath is used as a value: its callers cannot be enumerated")
			}
			for _, cf := range callers {
				for _, cc := range CallsTo(cf, pp, false) {
					a := argOfParam(cc, pp, ppNum)
					b, isConst := ConstBool(a)
					r.Check(isConst && !b, "R20b", c.FnName(cf), "numKeys argument handed to parsePath", c.Pos(cc.Pos()), "the constant false: parsePath does not clear the flag itself",
						"parsePath hands its enableNumKeys to every segment without clearing it for names of more than one segment, and this caller passes a flag that can be true: with EnableNumKeys a numeric segment of a dotted name (`${list.1}`, `a.0.b`) becomes a name instead of a list index")
				}
			}
		}
	}
	if nCalls == 0 {
		r.Bad("R20b", c.FnName(pp), "numKeys argument", c.Pos(pp.Pos()), "parsePath does not call parseField")
	}
	// every other call of the classifier: the flag may be true only for a name that is one segment
	for _, fn := range c.SrcFuncs() {
		if fn == pp || fn.Pkg != c.SSA[""] {
			continue
		}
		for _, ci := range CallsTo(fn, pf, false) {
			arg := ci.Common().Args[2]
			if b, isConst := ConstBool(arg); isConst && !b {
				r.OK("R20b", c.FnName(fn), "numKeys argument", c.Pos(ci.Pos()), "the constant false")
				continue
			}
			ok := singleSegmentEvidence(ci.Block(), ci.Common().Args[0], 0)
			r.Check(ok, "R20b", c.FnName(fn), "numKeys argument", c.Pos(ci.Pos()), "the flag can be true only where the name was tested to hold no separator",
				"parseField is called outside parsePath with a numeric-keys flag that can be true and the name is not known to be a single segment (no `!strings.Contains(name, sep)` / `sep == \"\"` on every way to the call)")
		}
	}

	// R20c
	r.Rule("R20c", "parseField is the only classifier of textual segments: every other construction of an index field takes its index from an integer parameter (API index, bounded under C07), never from parsed text", 2)
	for _, fn := range c.SrcFuncs() {
		if fn == pf {
			continue
		}
		Instrs(fn, false, func(in ssa.Instruction) {
			st, ok := in.(*ssa.Store)
			if !ok {
				return
			}
			n, f, ok := FieldOf(st.Addr)
			if !ok || n != idxT || f != "i" {
				return
			}
			good := true
			for _, s := range Sources(st.Val) {
				p, isP := s.(*ssa.Parameter)
				if !isP {
					good = false
					continue
				}
				if b, isB := p.Type().Underlying().(*types.Basic); !isB || b.Info()&types.IsInteger == 0 {
					good = false
				}
			}
			r.Check(good, "R20c", c.FnName(fn), "idxField from API index", c.Pos(st.Pos()), "index comes from an integer parameter", "an index field is built outside parseField from a value that is not an integer parameter ("+describeVals(Sources(st.Val))+"): a second, unchecked classifier of path segments")
		})
	}
	// the other half: a segment becomes a *name* only by the classifier's verdict. A named field built anywhere else
	// skips the question "is this text an index?" (a fast path for "plain" names that knows decimal digits only
	// turns 0x2, +2, 1_0 into names).
	namedT = c.Named("", "namedField")
	for _, fn := range c.SrcFuncs() {
		if fn == pf || fn.Pkg != c.SSA[""] {
			continue
		}
		Instrs(fn, false, func(in ssa.Instruction) {
			st, ok := in.(*ssa.Store)
			if !ok {
				return
			}
			n, _, ok := FieldOf(st.Addr)
			if !ok || n != namedT {
				return
			}
			r.Bad("R20c", c.FnName(fn), "namedField built outside parseField", c.Pos(st.Pos()), "a named path segment is built outside parseField from "+describeVals(Sources(st.Val))+": the text was never asked whether it is a list index in one of Go's integer syntaxes (a second classifier of path segments)")
		})
	}
	r.Analysed["constructions of namedField outside parseField"] = 0
}

func sideStr(s string, k int64) string {
	if s == "const" {
		return fmt.Sprint(k)
	}
	return s
}

func kindStr(b bool) string {
	if b {
		return "index"
	}
	return "name"
}

// numKeysArg: the enableNumKeys argument is the parameter itself, or phi(param, false) where the
// false edge is only taken under len(x) > 1.
func numKeysArg(arg ssa.Value, param *ssa.Parameter) (bool, string) {
	if arg == ssa.Value(param) {
		return true, "parseField receives the caller's enableNumKeys unchanged"
	}
	phi, ok := arg.(*ssa.Phi)
	if !ok {
		return false, "the numeric-keys flag given to parseField is neither the caller's flag nor a conditional clearing of it: " + arg.String()
	}
	sawParam := false
	for i, e := range phi.Edges {
		if e == ssa.Value(param) {
			sawParam = true
			continue
		}
		if b, isb := ConstBool(e); isb && !b {
			pred := phi.Block().Preds[i]
			ok := false
			for _, f := range FactsAt(pred) {
				if isLenGT1(f) {
					ok = true
				}
			}
			if !ok {
				return false, "numeric keys are disabled on a path that is not restricted to multi-segment paths (len(elems) > 1): a single numeric key becomes a list index despite EnableNumKeys"
			}
			continue
		}
		return false, "unexpected value for the numeric-keys flag: " + e.String()
	}
	if !sawParam {
		return false, "the caller's enableNumKeys never reaches parseField"
	}
	return true, "enableNumKeys cleared only under len(elems) > 1"
}

// singleSegmentEvidence: every way into block b carries the fact that `name` holds no separator — the false edge of
// strings.Contains(name, sep) or the true edge of sep == "" — directly or further up a chain of single entries.
func singleSegmentEvidence(b *ssa.BasicBlock, name ssa.Value, depth int) bool {
	if depth > 6 || len(b.Preds) == 0 {
		return false
	}
	for _, p := range b.Preds {
		ifi, isIf := lastInstr(p).(*ssa.If)
		ev := false
		if isIf && len(p.Succs) == 2 && p.Succs[0] != p.Succs[1] {
			truth := p.Succs[0] == b
			cond := ifi.Cond
			if u, isNot := cond.(*ssa.UnOp); isNot && u.Op == token.NOT {
				cond, truth = u.X, !truth
			}
			switch x := cond.(type) {
			case *ssa.Call:
				if g := x.Call.StaticCallee(); g != nil && g.String() == "strings.Contains" && !truth && (x.Call.Args[0] == name || SameValue(x.Call.Args[0], name)) {
					ev = true
				}
			case *ssa.BinOp:
				if sv, isStr := ConstString(x.Y); isStr && sv == "" && (x.Op == token.EQL && truth || x.Op == token.NEQ && !truth) {
					ev = true
				}
			}
		}
		if !ev && !singleSegmentEvidence(p, name, depth+1) {
			return false
		}
	}
	return true
}

// splitDerived: v is an element of what strings.Split returned.
func splitDerived(v ssa.Value) bool {
	for _, src := range append([]ssa.Value{v}, Sources(v)...) {
		ld, ok := src.(*ssa.UnOp)
		if !ok || ld.Op != token.MUL {
			continue
		}
		ia, ok := ld.X.(*ssa.IndexAddr)
		if !ok {
			continue
		}
		for _, s2 := range append([]ssa.Value{ia.X}, Sources(ia.X)...) {
			if call, ok := s2.(*ssa.Call); ok {
				if g := call.Call.StaticCallee(); g != nil && g.String() == "strings.Split" {
					return true
				}
			}
		}
	}
	return false
}

// argOfParam: the argument a call of fn passes for parameter p.
func argOfParam(site ssa.CallInstruction, fn *ssa.Function, p *ssa.Parameter) ssa.Value {
	for i, q := range fn.Params {
		if q == p && i < len(site.Common().Args) {
			return site.Common().Args[i]
		}
	}
	return nil
}

func isLenGT1(f Cmp) bool {
	isLen := func(v ssa.Value) bool {
		call, ok := v.(*ssa.Call)
		return ok && BuiltinName(call) == "len"
	}
	x, y, op := f.X, f.Y, f.Op
	if isLen(y) {
		x, y, op = y, x, flipOp(op)
	}
	if !isLen(x) {
		return false
	}
	k, ok := ConstInt(y)
	if !ok {
		return false
	}
	return (op == token.GTR && k >= 1) || (op == token.GEQ && k >= 2) || (op == token.NEQ && k == 1 && false)
}

// idxConstructors checks every store into idxField.i outside `skip`.
func idxConstructors(c *Ctx, r *Report, rule string, skip *ssa.Function) {
	idxT := c.Named("", "idxField")
	optsT := c.Named("", "options")
	_ = optsT
	for _, fn := range c.SrcFuncs() {
		if fn == skip {
			continue
		}
		Instrs(fn, false, func(in ssa.Instruction) {
			st, ok := in.(*ssa.Store)
			if !ok {
				return
			}
			n, f, ok := FieldOf(st.Addr)
			if !ok || n != idxT || f != "i" {
				return
			}
			facts := FactsAt(st.Block())
			lo := LowerBoundConst(st.Val, facts, 0)
			hi := UpperBoundBy(st.Val, facts, func(w ssa.Value) bool {
				for _, s := range Sources(w) {
					if IsLoadOfField(s, "options", "maxIdx") {
						return true
					}
					if cv, ok := s.(*ssa.Convert); ok && IsLoadOfField(cv.X, "options", "maxIdx") {
						return true
					}
				}
				return false
			}, false)
			r.Check(lo, rule, c.FnName(fn), "idxField lower bound", c.Pos(st.Pos()), "construction dominated by idx >= 0", "an index field is built from "+st.Val.Name()+" without a dominating 0 <= idx test: negative indices reach the list accessors")
			r.Check(hi, rule, c.FnName(fn), "idxField maxIdx cap", c.Pos(st.Pos()), "construction dominated by idx <= opts.maxIdx", "an index field is built from "+st.Val.Name()+" without the MaxIdx cap: one call can grow a list beyond MaxIdx+1 entries")
		})
	}
}

// addressOptionsRule (R20g): the (name, idx) spelling of an address and the dotted spelling classify the name with
// the same options. parsePathIdx hands the name to the path parser together with the caller's options as they are —
// separator, MaxIdx, EnableNumKeys, EscapePath each read from the options object, none replaced by a constant or
// made to depend on idx.
func addressOptionsRule(c *Ctx, r *Report) {
	r.Rule("R20g", "parsePathIdx parses the name with the options it was given: every classification argument that reaches parsePath is a field of that options object", 1)
	ppi := c.Func("", "parsePathIdx")
	var optsParam *ssa.Parameter
	for _, p := range ppi.Params {
		if typeStr(p.Type()) == "*ucfg.options" {
			optsParam = p
		}
	}
	n := 0
	for _, ci := range CallsIn(ppi, false) {
		g := ci.Common().StaticCallee()
		if g == nil || g.Pkg != c.SSA[""] || !(g.Name() == "parsePath" || g.Name() == "parsePathWithOpts") {
			continue
		}
		n++
		bad := ""
		for i, a := range ci.Common().Args {
			if i == 0 {
				continue // the name
			}
			if a == ssa.Value(optsParam) {
				continue
			}
			ok := false
			if l, isL := a.(*ssa.UnOp); isL && l.Op == token.MUL {
				if fa, isFA := l.X.(*ssa.FieldAddr); isFA && fa.X == ssa.Value(optsParam) {
					ok = true
				}
			}
			if !ok {
				bad = fmt.Sprintf("argument %d is %s", i, a.String())
			}
		}
		r.Check(bad == "" && optsParam != nil, "R20g", c.FnName(ppi), "name parsed with the caller's options", c.Pos(ci.Pos()), "options handed through unchanged",
			"parsePathIdx does not parse the name with the caller's options as they are ("+bad+"): the (name, idx) spelling of an address classifies a numeric name differently from the dotted spelling and from the same name without an index — with EnableNumKeys a name like \"5\" is a key for String(\"5\", -1) and an index for String(\"5\", 1)")
	}
	if n == 0 {
		r.add("R20g", c.FnName(ppi), "name parsed with the caller's options", c.Pos(ppi.Pos()), Undecided, true, "parsePathIdx does not call the path parser")
	}
}
