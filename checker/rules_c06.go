package main

// C06 — struct -> Config -> struct is the identity.
// Decided: writer (normalize*) and reader (reify*) are inverse by construction only if they agree on
// the tables and expressions both sides derive from the struct type: the key a field is stored /
// looked up under and the conditions under which a field takes part (R06a), the inline kinds (R06d),
// the special-type table and its string encodings (R06b), the kind tables and which value classes
// each side produces / accepts per kind (R06c), and the cross-sign integer conversions the writer's
// sign splitting relies on (R06e). Equality of the values after the round trip is not decided.

import (
	"fmt"
	"go/constant"
	"go/token"
	"go/types"
	"sort"
	"strings"

	"golang.org/x/tools/go/ssa"
)

func init() {
	register("C06", "Writer/reader agreement (E7 normal forms + enum-dispatch simulation). The expression that names a struct field is read back from SSA on both sides — normalizeStructInto's argument to normalizeSetField and the name accessField returns to reifyStruct/reifyGetField — as a tree over shared roles (the struct value, the field index, the options), with locals resolved through their stores and loop-free helpers inlined; the two trees, the field value paired with the name, and the dominating conditions under which a field takes part (exported, not ignored, not inline) must be identical, and both sides must parse the name with the same path parser on the same options and access the same config. The reflect.Kind dispatches of normalizeValue, reifyMergeValue, reifyValue, doReifyPrimitive and the inline switches are simulated for every kind constant: every kind the writer accepts has a reader whose accepted value classes include what the writer produces; the special types compared before the kind dispatch in normalizeValue are exactly the keys of doReifyPrimitive's extras table, are tested before the numeric kinds on both sides, and are encoded/decoded by an inverse library pair; cfgUint.toInt and cfgInt.toUint have succeeding paths. Decides that the two directions cannot drift apart structurally; does not decide value equality (number formatting, pointer depth, nil vs empty).", checkC06)
}

func reflectKind(c *Ctx) (*types.Named, []enumConst) {
	var rp *types.Package
	for _, p := range c.Pkgs[""].Types.Imports() {
		if p.Path() == "reflect" {
			rp = p
		}
	}
	if rp == nil {
		undecidedf("ANCHOR-MISSING: import of reflect in the root package")
	}
	kt, _ := rp.Scope().Lookup("Kind").Type().(*types.Named)
	if kt == nil {
		undecidedf("ANCHOR-MISSING: reflect.Kind")
	}
	var out []enumConst
	for _, n := range rp.Scope().Names() {
		k, ok := rp.Scope().Lookup(n).(*types.Const)
		if !ok || !types.Identical(k.Type(), kt) {
			continue
		}
		v, _ := constant.Int64Val(k.Val())
		dup := false
		for _, o := range out {
			if o.Val == v {
				dup = true // Ptr / Pointer
			}
		}
		if !dup {
			out = append(out, enumConst{n, v})
		}
	}
	sort.Slice(out, func(i, j int) bool { return out[i].Val < out[j].Val })
	return kt, out
}

// region: blocks dominated by b.
func region(b *ssa.BasicBlock) []*ssa.BasicBlock {
	var out []*ssa.BasicBlock
	for _, x := range b.Parent().Blocks {
		if b.Dominates(x) {
			out = append(out, x)
		}
	}
	return out
}

// handlersIn: names of repository functions called (and interface methods invoked) in the region of b.
func handlersIn(c *Ctx, b *ssa.BasicBlock) map[string]bool {
	out := map[string]bool{}
	for _, x := range region(b) {
		for _, in := range x.Instrs {
			ci, ok := in.(ssa.CallInstruction)
			if !ok {
				continue
			}
			cc := ci.Common()
			if cc.IsInvoke() {
				out["invoke "+cc.Method.Name()] = true
				continue
			}
			if f := cc.StaticCallee(); f != nil && c.InRepo(f) {
				out[f.Name()] = true
			}
		}
	}
	return out
}

func libCallsIn(b *ssa.BasicBlock) map[string]bool {
	out := map[string]bool{}
	for _, x := range region(b) {
		for _, in := range x.Instrs {
			if ci, ok := in.(ssa.CallInstruction); ok {
				if f := ci.Common().StaticCallee(); f != nil && f.Pkg != nil && !strings.HasPrefix(f.Pkg.Pkg.Path(), modPath) {
					out[f.String()] = true
				}
			}
		}
	}
	return out
}

// value classes
var writerClass = map[string][]string{
	"newBool": {"bool"}, "newInt": {"int"}, "newUint": {"uint"}, "newFloat": {"float"}, "normalizeString": {"string"}, "newString": {"string"},
	"normalizeArray": {"array"}, "normalizeMapValue": {"map"}, "normalizeStructValue": {"struct"}, "tryTConfig": nil, "cpy": nil, "invoke cpy": nil,
	// the helpers one level down (normalize{Map,Struct}Value folded into normalizeValue)
	"normalizeMap": {"map"}, "normalizeStruct": {"struct"}, "SetContext": nil,
}
var readerClass = map[string][]string{
	"reifyBool": {"bool", "string"}, "reifyInt": {"int", "uint", "string"}, "reifyUint": {"int", "uint", "string"}, "reifyFloat": {"float", "int", "uint", "string"}, "invoke toString": {"string", "bool", "int", "uint", "float"},
	"reifyArray": {"array"}, "reifySliceMerge": {"array"}, "reifySlice": {"array"}, "reifyMap": {"map"}, "reifyStruct": {"struct"}, "reifyInto": {"map", "struct"},
	"mergeFieldConfig": {"map", "struct"}, // a target of a type defined on Config takes the sub-config as it is
}

// helper calls that carry no class information
var neutralHandlers = map[string]bool{
	"raiseConversion": true, "raiseExpectedObject": true, "raiseKeyInvalidTypeUnpack": true, "pointerize": true, "invoke toConfig": true,
	"reifyPrimitive": true, "invoke Context": true, "invoke meta": true, "raisePathErr": true, "invoke reflect": true, "raiseToTypeNotSupported": true,
	"chaseValuePointers": true, "chaseValueInterfaces": true, "chaseValue": true, "chaseTypePointers": true, "invoke ConvertibleTo": true, "path": true, "raisePointerRequired": true,
	"invoke Kind": true, "invoke Elem": true, "invoke Key": true,
}

func classesOf(hs map[string]bool, table map[string][]string) (map[string]bool, []string) {
	out := map[string]bool{}
	var unknown []string
	for h := range hs {
		cl, ok := table[h]
		if !ok {
			if !neutralHandlers[h] {
				unknown = append(unknown, h)
			}
			continue
		}
		for _, x := range cl {
			out[x] = true
		}
	}
	sort.Strings(unknown)
	return out, unknown
}

func checkC06(c *Ctx, r *Report) {
	defer listPartRule(c, r)
	r.Assumption("both directions are given the same options (struct tag name, path separator); Unpacker / InitDefaults implementations are user code")
	nameRule(c, r)
	pathRule(c, r)
	inlineRule(c, r)
	specialTypesRule(c, r)
	kindRule(c, r)
	crossSignRule(c, r)
	exactStoreRule(c, r)
	tagNameRule(c, r)
	accessorTightRule(c, r)
	fieldEnumerationRule(c, r)
	specialStructRule(c, r)
}

// specialStructRule (R06k): a struct type with a primitive encoding (regexp.Regexp: written as its text) is read back
// from a string. Wherever the unpack path demands an object for a struct-kinded target — "required 'object', but found
// 'string'" — the special struct types were excluded first (or the branch falls back to reifyPrimitive, which knows
// them). reifyValue and reifyMergeValue are siblings here: a fresh target and a pre-filled one take the same values.
func specialStructRule(c *Ctx, r *Report) {
	r.Rule("R06k", "reifyValue and reifyMergeValue demand an object for a struct-kinded target only after the struct types with a primitive encoding (tRegexp) were excluded", 1)
	kt, kinds := reflectKind(c)
	reo := c.Func("", "raiseExpectedObject")
	n := 0
	for _, fname := range []string{"reifyValue", "reifyMergeValue"} {
		fn := c.Func("", fname)
		ds := findDispatches(fn, kt)
		for _, ci := range CallsTo(fn, reo, false) {
			blk := ci.(ssa.Instruction).Block()
			structOnly := false
			for _, d := range ds {
				if shortCircuitDispatch(fn, d, kt) || !(d.Head == blk || d.Head.Dominates(blk)) {
					continue
				}
				reach := kindsReaching(d, kt, kinds, blk)
				if len(reach) <= 3 && reach[25] && !reach[21] {
					structOnly = true // Struct (25) gets here, Map (21) does not
				}
			}
			// the other spelling of the struct case: `if baseType.Kind() == reflect.Struct { … }`
			for _, cd := range DomConds(blk) {
				if _, k, ok := enumTest(cd.V, kt); ok && k == 25 {
					if bo := cd.V.(*ssa.BinOp); (bo.Op == token.EQL) == cd.Truth {
						structOnly = true
					}
				}
			}
			if !structOnly {
				continue
			}
			n++
			excluded := false
			for _, cd := range ExpandConds(DomConds(blk)) {
				// the Config types (convertible to Config) are objects by definition
				if cc, isCall := cd.V.(*ssa.Call); isCall && cd.Truth && calledName(cc) == "ConvertibleTo" {
					excluded = true
				}
				bo, ok := cd.V.(*ssa.BinOp)
				if !ok || !(bo.Op == token.EQL && !cd.Truth || bo.Op == token.NEQ && cd.Truth) {
					continue
				}
				for _, side := range []ssa.Value{bo.X, bo.Y} {
					if l, isL := side.(*ssa.UnOp); isL {
						if g, isG := l.X.(*ssa.Global); isG && g.Name() == "tRegexp" {
							excluded = true
						}
					}
				}
			}
			r.Check(excluded, "R06k", c.FnName(fn), "object demanded after the special structs", c.Pos(ci.Pos()), "under baseType != tRegexp",
				"an object is demanded for a struct-kinded target without excluding the struct types that are written as text: a pre-filled *regexp.Regexp (or a []regexp.Regexp element in place) cannot be overwritten — \"required 'object', but found 'string'\" — while the same field left nil unpacks")
		}
	}
	if n == 0 {
		r.Trivial("R06k", "ucfg", "object demanded after the special structs", "-", "no struct-only demand for an object (the struct cases fall back to reifyPrimitive)")
	}
}

// fieldEnumerationRule (R06j): the writer (normalizeStructInto) and the readers (reifyStruct, validateStruct, through
// accessField) walk the fields of a struct with the same reflect interface. The index loop (NumField / Field) sees
// the declared fields only; reflect.VisibleFields adds the fields promoted from embedded structs, FieldByName
// resolves shadowing — a side that switches sees other fields than its sibling, and an embedded struct is written
// once and read twice (or the other way round).
func fieldEnumerationRule(c *Ctx, r *Report) {
	r.Rule("R06j", "the struct writer and the struct readers enumerate fields with the same reflect interface (NumField/Field on both sides)", 1)
	apis := map[string]bool{"NumField": true, "Field": true, "VisibleFields": true, "FieldByIndex": true, "FieldByIndexErr": true, "FieldByName": true, "FieldByNameFunc": true}
	collect := func(names ...string) (map[string]bool, bool) {
		out := map[string]bool{}
		found := false
		for _, n := range names {
			fn := c.TryFunc("", n)
			if fn == nil {
				continue
			}
			found = true
			for _, g := range WithAnon(fn) {
				for _, ci := range CallsIn(g, false) {
					name := ""
					if ci.Common().IsInvoke() {
						if strings.HasSuffix(ci.Common().Value.Type().String(), "reflect.Type") {
							name = ci.Common().Method.Name()
						}
					} else if f := ci.Common().StaticCallee(); f != nil && f.Pkg != nil && f.Pkg.Pkg.Path() == "reflect" {
						name = f.Name()
					}
					if apis[name] {
						out[name] = true
					}
				}
			}
		}
		return out, found
	}
	w, okW := collect("normalizeStructInto")
	rd, okR := collect("reifyStruct", "validateStruct", "accessField")
	if !okW || !okR {
		r.add("R06j", "writer/reader", "field enumeration", "-", Undecided, true, "normalizeStructInto or the struct readers not found")
		return
	}
	same := len(w) == len(rd)
	for k := range w {
		if !rd[k] {
			same = false
		}
	}
	r.Check(same, "R06j", "writer/reader", "field enumeration", "-", "both sides: "+strings.Join(sortedKeys(w), ","),
		"the writer walks struct fields with ["+strings.Join(sortedKeys(w), ",")+"], the readers with ["+strings.Join(sortedKeys(rd), ",")+"]: the two see different fields for structs with embedded members (promoted fields are visited a second time by one side, under the outer namespace), so a struct does not come back as it went in")
}

// tagNameRule (R06g): in a struct tag `name,opt,opt` only the parts after the first comma are
// options. parseTags must compare nothing but elements of index >= 1 of the split tag with its
// option words: a field renamed to "ignore" or "inline" is a field with that name, not an option.
func tagNameRule(c *Ctx, r *Report) {
	r.Rule("R06g", "parseTags interprets only the parts after the first comma as options: every comparison with an option word reads an element of index >= 1 of the split tag (or text behind a separator found in it)", 4)
	fn := c.Func("", "parseTags")
	n := 0
	Instrs(fn, false, func(in ssa.Instruction) {
		bo, ok := in.(*ssa.BinOp)
		if !ok || bo.Op != token.EQL {
			return
		}
		var word string
		var other ssa.Value
		if w, isS := ConstString(bo.Y); isS {
			word, other = w, bo.X
		} else if w, isS := ConstString(bo.X); isS {
			word, other = w, bo.Y
		} else {
			return
		}
		if word == "" {
			return
		}
		n++
		ok2, why := elementFromIndexOne(other, 0)
		r.Check(ok2, "R06g", c.FnName(fn), "option word "+word, c.Pos(bo.Pos()), why, "the option word \""+word+"\" is compared with a part of the tag that can be the name part ("+why+"): a field whose tag renames it to that word is treated as carrying the option (skipped, inlined) in both directions and its value does not survive")
	})
	if n == 0 {
		r.add("R06g", c.FnName(fn), "option words", c.Pos(fn.Pos()), Undecided, true, "no comparison with an option word found in parseTags")
	}
}

// elementFromIndexOne: v is an element of a slice re-sliced from index >= 1 (x[1:]), or x[i] with a
// counter that starts at a constant >= 1.
func elementFromIndexOne(v ssa.Value, d int) (bool, string) {
	return (&tagPartProv{seen: map[ssa.Value]bool{}}).from(v, d)
}

type tagPartProv struct{ seen map[ssa.Value]bool }

func (e *tagPartProv) from(v ssa.Value, d int) (bool, string) {
	if d > 8 {
		return false, "too deep"
	}
	if e.seen[v] {
		return true, "loop-carried"
	}
	switch x := v.(type) {
	case *ssa.Const:
		// a constant is not the name part
		return true, "constant"
	case *ssa.Slice:
		// a hand-written scanner: text behind a separator found in the tag (tag[i+1:] with i the non-negative result of
		// an index search in the same text), and any substring of such a text
		if bt, ok := x.X.Type().Underlying().(*types.Basic); !ok || bt.Info()&types.IsString == 0 {
			return false, "not an element of the split tag"
		}
		if ok, _ := e.from(x.X, d+1); ok {
			if _, isConst := x.X.(*ssa.Const); !isConst {
				return true, "substring of the text behind the name"
			}
		}
		if x.Low != nil {
			if add, ok := x.Low.(*ssa.BinOp); ok && add.Op == token.ADD {
				idx, k := add.X, add.Y
				if _, isK := ConstInt(idx); isK {
					idx, k = k, idx
				}
				if kk, isK := ConstInt(k); isK && kk >= 1 {
					if call, ok := idx.(*ssa.Call); ok {
						if f := call.Call.StaticCallee(); f != nil && len(call.Call.Args) == 2 && SameValue(call.Call.Args[0], x.X) &&
							(f.String() == "strings.IndexByte" || f.String() == "strings.Index" || f.String() == "strings.IndexRune" || f.String() == "strings.LastIndexByte" || f.String() == "strings.LastIndex") {
							if indexFound(call, x.Block()) {
								return true, "text behind a separator of the tag"
							}
							return false, "text behind an index that can be -1: the whole tag"
						}
					}
				}
			}
		}
		return false, "substring that can contain the name part"
	case *ssa.UnOp:
		if x.Op != token.MUL {
			return false, "not an element load"
		}
		ia, ok := x.X.(*ssa.IndexAddr)
		if !ok {
			// range variable spilled into a local
			if vals, ok := localStores(x.X); ok && len(vals) > 0 {
				for _, s := range vals {
					if ok, why := e.from(s, d+1); !ok {
						return false, why
					}
				}
				return true, "element of the tag parts after the name"
			}
			return false, "not an element load"
		}
		if sl, ok := ia.X.(*ssa.Slice); ok && sl.Low != nil {
			if k, isK := ConstInt(sl.Low); isK && k >= 1 {
				return true, "element of parts[1:]"
			}
		}
		// x[i] with i a loop counter starting at a constant >= 1
		idx := ia.Index
		if b, ok := idx.(*ssa.BinOp); ok && b.Op == token.ADD {
			// rotated range loops index with phi+1
			if phi, ok := b.X.(*ssa.Phi); ok {
				if k, isK := ConstInt(b.Y); isK {
					if lo, ok := phiInit(phi); ok && lo+k >= 1 {
						return true, "element with index starting at " + itoa(lo+k)
					}
				}
			}
		}
		if phi, ok := idx.(*ssa.Phi); ok {
			if lo, ok := phiInit(phi); ok && lo >= 1 {
				return true, "element with index starting at " + itoa(lo)
			}
		}
		return false, "element of the whole split tag, index can be 0"
	case *ssa.Phi:
		e.seen[x] = true
		for _, ed := range x.Edges {
			if ok, why := e.from(ed, d+1); !ok {
				return false, why
			}
		}
		return true, "element of the tag parts after the name"
	case *ssa.Call:
		// strings.TrimSpace(elem) and the like keep the provenance
		if f := x.Call.StaticCallee(); f != nil && f.Pkg != nil && f.Pkg.Pkg.Path() == "strings" && len(x.Call.Args) >= 1 {
			return e.from(x.Call.Args[0], d+1)
		}
	}
	return false, "not an element of the split tag"
}

// indexFound: the result of an index search is known to be non-negative in block at (a dominating test).
func indexFound(idx ssa.Value, at *ssa.BasicBlock) bool {
	for _, cd := range ExpandConds(DomConds(at)) {
		bo, ok := cd.V.(*ssa.BinOp)
		if !ok {
			continue
		}
		x, y, op := bo.X, bo.Y, bo.Op
		if y == idx {
			x, y = y, x
			switch op {
			case token.LSS:
				op = token.GTR
			case token.GTR:
				op = token.LSS
			case token.LEQ:
				op = token.GEQ
			case token.GEQ:
				op = token.LEQ
			}
		}
		if x != idx {
			continue
		}
		k, isK := ConstInt(y)
		if !isK {
			continue
		}
		if !cd.Truth {
			switch op {
			case token.LSS:
				op = token.GEQ
			case token.GEQ:
				op = token.LSS
			case token.GTR:
				op = token.LEQ
			case token.LEQ:
				op = token.GTR
			case token.EQL:
				op = token.NEQ
			case token.NEQ:
				op = token.EQL
			}
		}
		switch {
		case op == token.GEQ && k >= 0, op == token.GTR && k >= -1, op == token.NEQ && k == -1, op == token.EQL && k >= 0:
			return true
		}
	}
	return false
}

// phiInit: the constant a loop counter starts with (its only non-self-derived edge).
func phiInit(phi *ssa.Phi) (int64, bool) {
	var init *int64
	for _, e := range phi.Edges {
		if k, ok := ConstInt(e); ok {
			if init != nil && *init != k {
				return 0, false
			}
			kk := k
			init = &kk
			continue
		}
		if b, ok := e.(*ssa.BinOp); ok && (b.X == ssa.Value(phi) || b.Y == ssa.Value(phi)) {
			continue
		}
		return 0, false
	}
	if init == nil {
		return 0, false
	}
	return *init, true
}

// exactStoreRule (R06f): numbers and booleans enter the config as the reflect accessor's own result
// (or the value-preserving int64 -> uint64 conversion of a positive number): no formatting, parsing,
// rounding or arithmetic on the way in.
func exactStoreRule(c *Ctx, r *Report) {
	r.Rule("R06f", "normalizeValue stores numbers and booleans exactly: the argument of newBool/newInt/newUint/newFloat is the reflect accessor's result on the value whose kind was dispatched on (or uint64 of a positive Int())", 5)
	NV := c.Func("", "normalizeValue")
	kt, _ := reflectKind(c)
	wd := kindDispatchOn(NV, kt, nil)
	if wd == nil {
		r.add("R06f", c.FnName(NV), "kind switch", c.Pos(NV.Pos()), Undecided, true, "no kind switch in normalizeValue")
		return
	}
	b := newNF(c)
	if kc, ok := wd.Tag.(*ssa.Call); ok && len(kc.Call.Args) == 1 {
		b.Role(kc.Call.Args[0], "V")
	}
	allowed := map[string][]string{
		"newBool":  {"(reflect.Value).Bool($V)"},
		"newInt":   {"(reflect.Value).Int($V)"},
		"newUint":  {"(reflect.Value).Uint($V)", "convert<uint64>((reflect.Value).Int($V))"},
		"newFloat": {"(reflect.Value).Float($V)"},
	}
	for _, ci := range CallsIn(NV, false) {
		g := ci.Common().StaticCallee()
		if g == nil || allowed[g.Name()] == nil || !c.InRepo(g) {
			continue
		}
		args := ci.Common().Args
		form := b.Of(args[len(args)-1]).String()
		ok := false
		for _, a := range allowed[g.Name()] {
			if a == form {
				ok = true
			}
		}
		r.Analysed["numeric stores in normalizeValue"]++
		r.Check(ok, "R06f", c.FnName(NV), "exact "+g.Name(), c.Pos(ci.Pos()), form, "the number stored is not the accessor's own result but "+form+": values can change on the way into the config (rounding, reformatting, truncation) and not come back")
	}
	// who may read a Go value by its kind: only normalizeValue, where the types with their own encoding (R06b) are
	// looked at first. A second place that turns reflect.Value.Int()/Uint()/Float()/Bool()/String() into a node
	// stores a time.Duration as a plain number of nanoseconds, which is read back as seconds.
	for _, fn := range c.SrcFuncs() {
		if fn.Pkg != c.SSA[""] || fn == NV || fn.Parent() == NV {
			continue
		}
		for _, ci := range CallsIn(fn, false) {
			g := ci.Common().StaticCallee()
			if g == nil || allowed[g.Name()] == nil && g.Name() != "newString" || g.Pkg != c.SSA[""] {
				continue
			}
			for _, a := range ci.Common().Args {
				for _, s := range Sources(a) {
					call, ok := s.(*ssa.Call)
					if !ok || call.Call.StaticCallee() == nil {
						continue
					}
					switch call.Call.StaticCallee().String() {
					case "(reflect.Value).Int", "(reflect.Value).Uint", "(reflect.Value).Float", "(reflect.Value).Bool", "(reflect.Value).String":
						r.Bad("R06f", c.FnName(fn), "kind accessor outside normalizeValue", c.Pos(ci.Pos()), "a Go value is read by its kind ("+call.Call.StaticCallee().Name()+"()) and stored with "+g.Name()+" outside normalizeValue: the types with an encoding of their own (time.Duration, regexp.Regexp, Config) are not looked at first — a Duration is stored as a number of nanoseconds and read back as seconds")
					}
				}
			}
		}
	}
}

// ---- R06a ------------------------------------------------------------------

type namingSide struct {
	name, value, tagOpts *nf
	conds                map[string]bool
	pos                  token.Pos
	why                  string
}

// fieldCallRoles binds the roles S (struct value) and I (field index) from a (reflect.Value).Field(S, I) call.
func fieldCallRoles(b *nfBuilder, v ssa.Value) bool {
	for _, s := range Sources(v) {
		call, ok := s.(*ssa.Call)
		if !ok {
			continue
		}
		if f := call.Call.StaticCallee(); f != nil && f.String() == "(reflect.Value).Field" {
			b.Role(call.Call.Args[0], "S")
			b.Role(call.Call.Args[1], "I")
			// other calls producing the same struct value (no CSE): x.Type() on S is found by argument identity
			return true
		}
	}
	return false
}

func relevantConds(conds map[string]bool) map[string]bool {
	out := map[string]bool{}
	for k, v := range conds {
		if !strings.Contains(k, "$S") {
			continue // not about the field (error checks, loop bounds)
		}
		if strings.Contains(k, "parseValidatorTags") {
			continue // the reader also parses the validator tag; an invalid validator tag is not a supported struct type
		}
		if strings.Contains(k, "NumField") || strings.HasPrefix(k, "<(") {
			continue // loop bound of the field loop
		}
		out[k] = v
	}
	return out
}

func condsStr(m map[string]bool) string {
	var ks []string
	for k, v := range m {
		ks = append(ks, fmt.Sprintf("%s=%v", k, v))
	}
	sort.Strings(ks)
	return strings.Join(ks, " ; ")
}

func nameRule(c *Ctx, r *Report) {
	r.Rule("R06a", "the key of a struct field, the value paired with it and the conditions under which the field takes part are the same expression of (struct value, field index, options) in normalizeStructInto and in accessField/reifyStruct", 6)
	W := c.Func("", "normalizeStructInto")
	A := c.Func("", "accessField")
	RS := c.Func("", "reifyStruct")
	setF := c.Func("", "normalizeSetField")
	getF := c.Func("", "reifyGetField")

	// writer
	var w namingSide
	ws := CallsTo(W, setF, false)
	if len(ws) != 1 {
		r.add("R06a", c.FnName(W), "store site", c.Pos(W.Pos()), Undecided, true, fmt.Sprintf("expected one call of normalizeSetField in normalizeStructInto, found %d", len(ws)))
		return
	}
	wb := newNF(c)
	wcall := ws[0].(*ssa.Call)
	// the arguments by the type of the callee's parameters (not by position): the name is the string, the value the
	// reflect.Value, the tag options the tagOptions (when they are not handed over: the second result of parseTags)
	argOf := func(pred func(t types.Type) bool) ssa.Value {
		for i, p := range setF.Params {
			if i < len(wcall.Call.Args) && pred(p.Type()) {
				return wcall.Call.Args[i]
			}
		}
		return nil
	}
	nameArg := argOf(func(t types.Type) bool { b, ok := t.Underlying().(*types.Basic); return ok && b.Kind() == types.String })
	valArg := argOf(func(t types.Type) bool { return isNamed(t, "reflect", "Value") })
	tagArg := argOf(func(t types.Type) bool { return isNamed(t, modPath, "tagOptions") })
	if tagArg == nil {
		for _, ci := range CallsIn(W, false) {
			if f := ci.Common().StaticCallee(); f != nil && f.Name() == "parseTags" && c.InRepo(f) {
				if call, ok := ci.(*ssa.Call); ok {
					for _, ref := range *call.Referrers() {
						if ex, ok := ref.(*ssa.Extract); ok && ex.Index == 1 {
							tagArg = ex
						}
					}
				}
			}
		}
	}
	if nameArg == nil || valArg == nil || tagArg == nil {
		r.add("R06a", c.FnName(W), "store site", c.Pos(wcall.Pos()), Undecided, true, "normalizeSetField is not handed a name (string) and a value (reflect.Value), or the tag options of the field are not found")
		return
	}
	if !fieldCallRoles(wb, valArg) {
		r.add("R06a", c.FnName(W), "store site", c.Pos(wcall.Pos()), Undecided, true, "the value stored is not a field of a struct value (reflect.Value.Field)")
		return
	}
	if p := optionsParam(W); p != nil {
		wb.Role(p, "O")
	}
	w.name, w.value, w.tagOpts = wb.Of(nameArg), wb.Of(valArg), wb.Of(tagArg)
	w.conds = relevantConds(wb.CondsAt(wcall))
	w.pos = wcall.Pos()

	// reader, part 1: accessField's successful return
	ab := newNF(c)
	var aret *ssa.Return
	for _, ret := range Returns(A) {
		if len(ret.Results) == 3 {
			if skip, ok := ConstBool(RetVal(ret, 1)); ok && !skip && IsNilConst(RetVal(ret, 2)) {
				aret = ret
			}
		}
	}
	if aret == nil {
		r.add("R06a", c.FnName(A), "field info", c.Pos(A.Pos()), Undecided, true, "no return (info, false, nil) found in accessField")
		return
	}
	// roles from the value field of the returned struct
	pre := newNF(c)
	info0 := pre.Of(RetVal(aret, 0))
	_ = info0
	var valueExpr ssa.Value
	Instrs(A, false, func(in ssa.Instruction) {
		if st, ok := in.(*ssa.Store); ok {
			if nt, f, ok := FieldOf(st.Addr); ok && nt.Obj().Name() == "fieldInfo" && f == "value" {
				valueExpr = st.Val
			}
		}
	})
	if valueExpr == nil || !fieldCallRoles(ab, valueExpr) {
		r.add("R06a", c.FnName(A), "field info", c.Pos(aret.Pos()), Undecided, true, "the value accessField returns is not a field of its struct value (reflect.Value.Field)")
		return
	}
	if p := optionsParam(A); p != nil {
		ab.Role(p, "O")
	}
	info := ab.Of(RetVal(aret, 0))
	rd := namingSide{name: info.sel("name"), value: info.sel("value"), tagOpts: info.sel("tagOptions"), pos: aret.Pos()}
	rd.conds = relevantConds(ab.CondsAt(aret))

	// reader, part 2: reifyStruct hands the info's own name and value to reifyGetField, under !skip && !squash
	acalls := CallsTo(RS, A, false)
	gcalls := CallsTo(RS, getF, false)
	if len(acalls) != 1 || len(gcalls) != 1 {
		r.add("R06a", c.FnName(RS), "lookup site", c.Pos(RS.Pos()), Undecided, true, fmt.Sprintf("expected one accessField and one reifyGetField call in reifyStruct, found %d and %d", len(acalls), len(gcalls)))
		return
	}
	sb := newNF(c)
	acall := acalls[0].(*ssa.Call)
	for _, ref := range *acall.Referrers() {
		if ex, ok := ref.(*ssa.Extract); ok {
			sb.Role(ex, []string{"F", "skip", "err"}[ex.Index])
		}
	}
	gcall := gcalls[0].(*ssa.Call)
	// the field's own name, value and type reach the lookup: as three arguments (in any position) or as the info itself
	gname, gval, gtyp := "(not passed)", "(not passed)", "(not passed)"
	for _, a := range gcall.Call.Args {
		switch f := sb.Of(a).String(); f {
		case "$F.name":
			gname = f
		case "$F.value":
			gval = f
		case "$F.ftype":
			gtyp = f
		case "$F":
			gname, gval, gtyp = "$F.name", "$F.value", "$F.ftype" // handed over whole: the callee selects the fields (R06p reads its use of the name)
		}
	}
	r.Check(gname == "$F.name" && gval == "$F.value" && gtyp == "$F.ftype", "R06a", c.FnName(RS), "lookup uses the field's own info", c.Pos(gcall.Pos()),
		"reifyGetField(cfg, ..., info.name, info.value, info.ftype) with info from accessField for this field",
		fmt.Sprintf("reifyStruct looks a field up under a name / into a value / with a type that is not accessField's result for that field: name=%s value=%s type=%s", gname, gval, gtyp))
	gconds := sb.CondsAt(gcall)
	skipOK := false
	squashOK := false
	for k, v := range gconds {
		if k == "$skip" && !v {
			skipOK = true
		}
		if k == "$F.tagOptions.squash" && !v {
			squashOK = true
		}
	}
	r.Check(skipOK, "R06a", c.FnName(RS), "skip honoured", c.Pos(gcall.Pos()), "the lookup is dominated by !skip", "reifyStruct uses a field although accessField said to skip it (unexported / ignored fields would be read)")
	if squashOK {
		rd.conds[rd.tagOpts.sel("squash").String()] = false
	}

	// agreement
	r.Analysed["naming expressions compared"] += 2
	same := w.name.String() == rd.name.String()
	if !same && (w.name.hasOpaque() || rd.name.hasOpaque()) {
		r.add("R06a", "writer/reader", "field key", c.Pos(w.pos), Undecided, true, "the key expressions differ but contain constructs the normal form cannot interpret: writer "+w.name.String()+" ; reader "+rd.name.String())
	} else {
		r.Check(same, "R06a", "writer/reader", "field key", c.Pos(w.pos), "both sides: "+w.name.String(),
			"a struct field is stored under one key and looked up under another: writer "+w.name.String()+" ; reader "+rd.name.String())
	}
	r.Check(w.value.String() == rd.value.String() && w.value.String() == "(reflect.Value).Field($S, $I)", "R06a", "writer/reader", "field value", c.Pos(w.pos), "both sides pair the key with field I of the struct the key was derived from",
		"the value paired with the key is not the field the key was derived from: writer "+w.value.String()+" ; reader "+rd.value.String())
	r.Check(condsStr(w.conds) == condsStr(rd.conds), "R06a", "writer/reader", "participation conditions", c.Pos(w.pos), "both sides: "+condsStr(w.conds),
		"the two directions do not take the same fields: writer under ["+condsStr(w.conds)+"] ; reader under ["+condsStr(rd.conds)+"]")
	r.Check(len(w.conds) >= 3, "R06a", "writer/reader", "filters present", c.Pos(w.pos), "export filter, ignore and inline tests found", "fewer than the three known participation conditions (exported, not ignored, not inline) were found: ["+condsStr(w.conds)+"]")
	r.Check(w.tagOpts.String() == rd.tagOpts.String(), "R06a", "writer/reader", "tag options", c.Pos(w.pos), "both sides: "+w.tagOpts.String(),
		"the tag options are derived differently: writer "+w.tagOpts.String()+" ; reader "+rd.tagOpts.String())
}

// pathRule: normalizeSetField and reifyGetField parse the key with the same parser and options and
// access the config they were given.
func pathRule(c *Ctx, r *Report) {
	r.Rule("R06p", "normalizeSetField stores through and reifyGetField reads through parsePathWithOpts(name, opts) — same parser, the name and options they were given, on the config they were given", 2)
	type side struct {
		fn     *ssa.Function
		method string
	}
	var forms []string
	for _, s := range []side{{c.Func("", "normalizeSetField"), "SetValue"}, {c.Func("", "reifyGetField"), "GetValue"}} {
		b := newNF(c)
		for _, p := range s.fn.Params {
			switch {
			case p.Name() == "name":
				b.Role(p, "N")
			case isNamed(derefType(p.Type()), modPath, "options"):
				b.Role(p, "O")
			case isNamed(p.Type(), modPath, "fieldOptions"):
				b.bind[p] = &nf{op: "struct", name: "fieldOptions", fields: map[string]*nf{"opts": {op: "role", name: "O"}}}
			case isNamed(p.Type(), modPath, "fieldInfo"):
				// the field's info handed over whole: its name and options carry the roles
				b.bind[p] = &nf{op: "struct", name: "fieldInfo", fields: map[string]*nf{"name": {op: "role", name: "N"}, "options": {op: "role", name: "O"}}}
			case isNamed(derefType(p.Type()), modPath, "Config"):
				b.Role(p, "C")
			}
		}
		m := c.Method("", "cfgPath", s.method)
		calls := CallsTo(s.fn, m, false)
		if len(calls) != 1 {
			r.add("R06p", c.FnName(s.fn), "path access", c.Pos(s.fn.Pos()), Undecided, true, fmt.Sprintf("expected one cfgPath.%s call, found %d", s.method, len(calls)))
			continue
		}
		call := calls[0].(*ssa.Call)
		// spilled struct parameter: fieldOptions is copied into a local; bind the local too
		Instrs(s.fn, false, func(in ssa.Instruction) {
			if st, ok := in.(*ssa.Store); ok {
				if p, ok := st.Val.(*ssa.Parameter); ok {
					if al, ok := st.Addr.(*ssa.Alloc); ok {
						if n, ok := b.bind[p]; ok {
							b.bind[al] = n
						}
					}
				}
			}
		})
		form := fmt.Sprintf("path=%s on=%s opts=%s", b.Of(call.Call.Args[0]), b.Of(call.Call.Args[1]), b.Of(call.Call.Args[2]))
		forms = append(forms, form)
		ok := strings.Contains(form, "$N") && strings.Contains(form, "on=$C") && strings.HasSuffix(form, "opts=$O")
		r.Check(ok, "R06p", c.FnName(s.fn), "path access", c.Pos(call.Pos()), form, "the field is not accessed on the given config through a path parsed from the given name with the given options: "+form)
	}
	if len(forms) == 2 {
		r.Check(forms[0] == forms[1], "R06p", "writer/reader", "same address", "-", "both sides: "+forms[0], "the writer and the reader address the field differently: "+forms[0]+" vs "+forms[1])
	}
}

// ---- R06d ------------------------------------------------------------------

func kindDispatchOn(fn *ssa.Function, kt types.Type, pick func(d *dispatch) bool) *dispatch {
	for _, d := range findDispatches(fn, kt) {
		if pick == nil || pick(d) {
			return d
		}
	}
	return nil
}

func acceptedKinds(c *Ctx, d *dispatch, kt types.Type, kinds []enumConst) map[string]map[string]bool {
	out := map[string]map[string]bool{}
	def := d.Target(9999, kt)
	for _, k := range kinds {
		t := d.Target(k.Val, kt)
		if t == def {
			continue
		}
		out[k.Name] = handlersIn(c, t)
	}
	return out
}

func inlineRule(c *Ctx, r *Report) {
	r.Rule("R06d", "every kind accepted for an inline (squash) field on the way in is accepted on the way out, and both directions work on the enclosing config", 2)
	kt, kinds := reflectKind(c)
	W := c.Func("", "normalizeStructInto")
	RS := c.Func("", "reifyStruct")
	underSquash := func(d *dispatch) bool {
		for _, cd := range DomConds(d.Head) {
			if IsLoadOfField(cd.V, "tagOptions", "squash") && cd.Truth {
				return true
			}
			if u, ok := cd.V.(*ssa.UnOp); ok && u.Op == token.MUL {
				if _, f, ok := FieldOf(u.X); ok && f == "squash" && cd.Truth {
					return true
				}
			}
		}
		return false
	}
	wd := kindDispatchOn(W, kt, underSquash)
	rdp := kindDispatchOn(RS, kt, underSquash)
	if wd == nil || rdp == nil {
		r.add("R06d", "writer/reader", "inline kinds", c.Pos(W.Pos()), Undecided, true, "no kind switch under the inline test found in normalizeStructInto / reifyStruct")
		return
	}
	wk := acceptedKinds(c, wd, kt, kinds)
	rk := acceptedKinds(c, rdp, kt, kinds)
	// a kind is rejected when its case does nothing but raise an error (`default: return raiseInlineNeedsObject`);
	// a case that unpacks the field and raises when a validator fails afterwards accepts the kind
	isRaise := func(hs map[string]bool) bool {
		raises, works := false, false
		for h := range hs {
			switch {
			case strings.HasPrefix(h, "raise"):
				raises = true
			case strings.HasPrefix(h, "reify") || strings.HasPrefix(h, "normalize") || strings.HasPrefix(h, "merge"):
				works = true
			}
		}
		return raises && !works
	}
	var ws []string
	for k, hs := range wk {
		if isRaise(hs) {
			continue
		}
		ws = append(ws, k)
	}
	sort.Strings(ws)
	for _, k := range ws {
		hs, ok := rk[k]
		r.Check(ok && !isRaise(hs), "R06d", "writer/reader", "inline kind "+k, c.Pos(wd.Head.Instrs[0].Pos()), "accepted by both directions", "an inline field of kind "+k+" is flattened into the config on the way in but rejected on the way out")
	}
	r.Analysed["inline kinds accepted by the writer"] += len(ws)
	// both work on the enclosing config
	cfgW, cfgR := configParam(W), configParam(RS)
	okW, okR := true, true
	for _, b := range region(wd.Head) {
		for _, in := range b.Instrs {
			if call, ok := in.(*ssa.Call); ok {
				if f := call.Call.StaticCallee(); f != nil && (f.Name() == "normalizeStructInto" || f.Name() == "normalizeMapInto") && call.Call.Args[0] != ssa.Value(cfgW) {
					okW = false
				}
			}
		}
	}
	for _, b := range region(rdp.Head) {
		for _, in := range b.Instrs {
			if call, ok := in.(*ssa.Call); ok {
				if f := call.Call.StaticCallee(); f != nil && f.Name() == "reifyInto" && call.Call.Args[2] != ssa.Value(cfgR) {
					okR = false
				}
				if f := call.Call.StaticCallee(); f != nil && f.Name() == "reifyMergeValue" {
					// cfgSub{cfg}
					if n := newNFWith(c, cfgR, "C").Of(call.Call.Args[2]); !strings.Contains(n.String(), "$C") {
						okR = false
					}
				}
			}
		}
	}
	r.Check(okW && okR, "R06d", "writer/reader", "inline target", c.Pos(wd.Head.Instrs[0].Pos()), "inline fields are written into / read from the enclosing config", "an inline field is not written into / read from the enclosing config")
}

func newNFWith(c *Ctx, v ssa.Value, role string) *nfBuilder {
	b := newNF(c)
	if v != nil {
		b.Role(v, role)
	}
	return b
}

func configParam(fn *ssa.Function) *ssa.Parameter {
	for _, p := range fn.Params {
		if isNamed(derefType(p.Type()), modPath, "Config") {
			return p
		}
	}
	return nil
}

// ---- R06b ------------------------------------------------------------------

var inversePairs = map[string]string{
	"(time.Duration).String":  "time.ParseDuration",
	"(*regexp.Regexp).String": "regexp.Compile",
}

func specialTypesRule(c *Ctx, r *Report) {
	r.Rule("R06b", "the types normalizeValue encodes specially are exactly the keys of doReifyPrimitive's extras table, are tested before the kind dispatch on both sides, and each is written and read by an inverse pair of library functions", 5)
	NV := c.Func("", "normalizeValue")
	DP := c.Func("", "doReifyPrimitive")
	kt, _ := reflectKind(c)
	// writer: comparisons of v.Type() with a package-level reflect.Type
	type wcase struct {
		g   string
		ifi *ssa.If
		pos token.Pos
	}
	var wcases []wcase
	for _, b := range NV.Blocks {
		ifi, ok := lastInstr(b).(*ssa.If)
		if !ok {
			continue
		}
		bo, ok := ifi.Cond.(*ssa.BinOp)
		if !ok || bo.Op != token.EQL {
			continue
		}
		for _, side := range []ssa.Value{bo.X, bo.Y} {
			if u, ok := side.(*ssa.UnOp); ok && u.Op == token.MUL {
				if g, ok := u.X.(*ssa.Global); ok && typeStr(g.Type()) == "*reflect.Type" {
					wcases = append(wcases, wcase{g.Name(), ifi, bo.Pos()})
				}
			}
		}
	}
	wset := map[string]bool{}
	for _, w := range wcases {
		wset[w.g] = true
	}
	// reader: keys of the extras map
	rset := map[string]*ssa.Function{}
	Instrs(DP, false, func(in ssa.Instruction) {
		mu, ok := in.(*ssa.MapUpdate)
		if !ok {
			return
		}
		for _, s := range Sources(mu.Key) {
			if u, ok := s.(*ssa.UnOp); ok && u.Op == token.MUL {
				if g, ok := u.X.(*ssa.Global); ok {
					var fn *ssa.Function
					for _, vs := range Sources(mu.Value) {
						if f, ok := vs.(*ssa.Function); ok {
							fn = f
						}
					}
					rset[g.Name()] = fn
				}
			}
		}
	})
	// the other spelling of the reader: comparisons of the destination type with the package-level types, each
	// followed by the call of its converter (switch baseType { case tDuration: return reifyDuration(…) })
	type rcase struct {
		g   string
		ifi *ssa.If
	}
	var rcases []rcase
	for _, b := range DP.Blocks {
		ifi, ok := lastInstr(b).(*ssa.If)
		if !ok {
			continue
		}
		bo, ok := ifi.Cond.(*ssa.BinOp)
		if !ok || bo.Op != token.EQL {
			continue
		}
		for _, side := range []ssa.Value{bo.X, bo.Y} {
			if u, ok := side.(*ssa.UnOp); ok && u.Op == token.MUL {
				if g, ok := u.X.(*ssa.Global); ok && typeStr(g.Type()) == "*reflect.Type" {
					if _, have := rset[g.Name()]; !have {
						if f := firstRepoCall(c, b.Succs[0]); f != nil {
							rset[g.Name()] = f
							rcases = append(rcases, rcase{g.Name(), ifi})
						}
					}
				}
			}
		}
	}
	var all []string
	for g := range wset {
		all = append(all, g)
	}
	for g := range rset {
		if !wset[g] {
			all = append(all, g)
		}
	}
	sort.Strings(all)
	for _, g := range all {
		_, inR := rset[g]
		r.Check(wset[g] && inR, "R06b", "writer/reader", "special type "+g, c.Pos(NV.Pos()), "encoded by normalizeValue and decoded through extras",
			fmt.Sprintf("special type %s: written specially=%v, read specially=%v — one direction treats it by kind", g, wset[g], inR))
	}
	// precedence, writer: the kind dispatch is reached only on the false edges of all special-type tests
	wd := kindDispatchOn(NV, kt, nil)
	if wd == nil {
		r.add("R06b", c.FnName(NV), "special before kind", c.Pos(NV.Pos()), Undecided, true, "no kind switch in normalizeValue")
	} else {
		falseOf := map[*ssa.If]bool{}
		for _, cd := range DomConds(wd.Head) {
			if !cd.Truth {
				falseOf[cd.If] = true
			}
		}
		for _, w := range wcases {
			// dominated by the false edge, or (after a join) not reachable from the true edge at all
			okPrec := falseOf[w.ifi] || !reachableFromEdge(w.ifi.Block(), w.ifi.Block().Succs[0], wd.Head, nil)
			r.Check(okPrec, "R06b", c.FnName(NV), "special before kind "+w.g, c.Pos(w.pos), "the kind switch is entered only after the type was compared with "+w.g+" and differed",
				"a value of type "+w.g+" can reach the kind switch and be written as a plain number / struct")
		}
	}
	// precedence, reader: the numeric predicates are consulted only after extras[baseType] == nil
	for _, ci := range CallsIn(DP, false) {
		f := ci.Common().StaticCallee()
		if f == nil || !c.InRepo(f) || len(f.Params) != 1 || !types.Identical(f.Params[0].Type(), kt) {
			continue
		}
		ok := false
		for _, cd := range DomConds(ci.(ssa.Instruction).Block()) {
			if bo, isB := cd.V.(*ssa.BinOp); isB && bo.Op == token.NEQ && !cd.Truth {
				if lk, isL := bo.X.(*ssa.Lookup); isL {
					if _, isMap := lk.X.Type().Underlying().(*types.Map); isMap {
						ok = true
					}
				}
			}
		}
		if !ok && len(rcases) > 0 {
			// comparison form: the predicate is consulted only after every special type was compared and differed
			falseOf := map[*ssa.If]bool{}
			for _, cd := range DomConds(ci.(ssa.Instruction).Block()) {
				if !cd.Truth {
					falseOf[cd.If] = true
				}
			}
			ok = true
			for _, rc := range rcases {
				if !falseOf[rc.ifi] && reachableFromEdge(rc.ifi.Block(), rc.ifi.Block().Succs[0], ci.(ssa.Instruction).Block(), nil) {
					ok = false
				}
				if !falseOf[rc.ifi] && !rc.ifi.Block().Dominates(ci.(ssa.Instruction).Block()) {
					ok = false // the comparison is not on every way to the predicate
				}
			}
		}
		r.Check(ok, "R06b", c.FnName(DP), "extras before "+f.Name(), c.Pos(ci.Pos()), "the kind predicate is consulted only when the extras table has no entry for the type",
			"a special type can be read by its kind ("+f.Name()+") before the extras table is consulted")
	}
	// shortcuts in front of the table: before the special types are looked up, doReifyPrimitive may only succeed when
	// the stored value has exactly the requested type, or for a string target (the text is the encoding). A wider
	// shortcut ("same representation", "convertible") hands an int64 to a Duration as nanoseconds.
	for _, ret := range Returns(DP) {
		if len(ret.Results) < 2 || !IsNilConst(RetVal(ret, len(ret.Results)-1)) {
			continue
		}
		afterTable, exact := false, false
		for _, cd := range ExpandConds(DomConds(ret.Block())) {
			if bo, isB := cd.V.(*ssa.BinOp); isB {
				if bo.Op == token.NEQ && !cd.Truth || bo.Op == token.EQL && cd.Truth {
					if lk, isL := bo.X.(*ssa.Lookup); isL {
						if _, isMap := lk.X.Type().Underlying().(*types.Map); isMap && bo.Op == token.NEQ {
							afterTable = true
						}
					}
				}
				if bo.Op == token.NEQ && cd.Truth {
					if lk, isL := bo.X.(*ssa.Lookup); isL {
						if _, isMap := lk.X.Type().Underlying().(*types.Map); isMap {
							afterTable = true // the table's own entry is being used
						}
					}
				}
				if bo.Op == token.EQL && cd.Truth && typeStr(bo.X.Type()) == "reflect.Type" && typeStr(bo.Y.Type()) == "reflect.Type" {
					exact = true
				}
				if _, k, ok := enumTest(bo, kt); ok && k == 24 && bo.Op == token.EQL && cd.Truth {
					exact = true // kind == String
				}
			}
		}
		for _, rc := range rcases {
			for _, cd := range DomConds(ret.Block()) {
				if cd.If == rc.ifi {
					afterTable = true
				}
			}
		}
		if afterTable {
			continue
		}
		r.Check(exact, "R06b", c.FnName(DP), "shortcut before the special types", c.Pos(ret.Pos()), "a result in front of the table only for the identical type or a string target",
			"doReifyPrimitive can succeed before the special types are consulted under a test wider than type identity: a number stored as int64 reaches a time.Duration target as nanoseconds, while the same document read through a front-end that decodes numbers as float64 gives seconds")
	}
	// encodings
	for _, w := range wcases {
		enc := ""
		for lib := range libCallsIn(w.ifi.Block().Succs[0]) {
			if _, ok := inversePairs[lib]; ok {
				enc = lib
			}
		}
		dec := rset[w.g]
		if dec == nil {
			continue
		}
		decs := map[string]bool{}
		for fn := range c.Reach([]*ssa.Function{dec}, nil, nil) {
			if fn.Pkg != nil && !strings.HasPrefix(fn.Pkg.Pkg.Path(), modPath) {
				decs[fn.String()] = true
			}
		}
		want := inversePairs[enc]
		switch {
		case enc == "":
			r.add("R06b", "writer/reader", "encoding of "+w.g, c.Pos(w.pos), Undecided, true, "the writer's encoder for "+w.g+" is not in the table of known inverse pairs")
		default:
			r.Check(decs[want], "R06b", "writer/reader", "encoding of "+w.g, c.Pos(w.pos), enc+" is read back by "+want+" in "+dec.Name(),
				"the text written by "+enc+" is not read back by "+want+" ("+dec.Name()+" does not call it)")
		}
	}
}

// ---- R06c ------------------------------------------------------------------

func kindRule(c *Ctx, r *Report) {
	r.Rule("R06c", "every reflect.Kind the writer accepts is accepted by the reader, and the value classes the writer produces for it are among those the reader's converter for that kind accepts; the writer accepts every kind the property names", 34)
	kt, kinds := reflectKind(c)
	NV := c.Func("", "normalizeValue")
	wd := kindDispatchOn(NV, kt, nil)
	if wd == nil {
		r.add("R06c", c.FnName(NV), "kind switch", c.Pos(NV.Pos()), Undecided, true, "no kind switch in normalizeValue")
		return
	}
	wk := acceptedKinds(c, wd, kt, kinds)

	// reader tables
	reader := map[string]map[string]bool{} // kind -> handlers
	add := func(k string, hs map[string]bool) {
		if reader[k] == nil {
			reader[k] = map[string]bool{}
		}
		for h := range hs {
			reader[k][h] = true
		}
	}
	valueTable := map[string]bool{}
	for _, name := range []string{"reifyMergeValue", "reifyValue"} {
		fn := c.Func("", name)
		for _, d := range findDispatches(fn, kt) {
			for k, hs := range acceptedKinds(c, d, kt, kinds) {
				if name == "reifyMergeValue" {
					add(k, hs)
				} else {
					valueTable[k] = true
				}
			}
		}
	}
	DP := c.Func("", "doReifyPrimitive")
	// direct comparisons kind == K
	for _, b := range DP.Blocks {
		ifi, ok := lastInstr(b).(*ssa.If)
		if !ok {
			continue
		}
		if _, k, ok := enumTest(ifi.Cond, kt); ok {
			if bo := ifi.Cond.(*ssa.BinOp); bo.Op == token.EQL {
				for _, kc := range kinds {
					if kc.Val == k {
						add(kc.Name, handlersIn(c, b.Succs[0]))
					}
				}
			}
		}
		// predicate calls p(kind)
		if call, ok := ifi.Cond.(*ssa.Call); ok {
			f := call.Call.StaticCallee()
			if f != nil && c.InRepo(f) && len(f.Params) == 1 && types.Identical(f.Params[0].Type(), kt) {
				for _, kc := range kinds {
					v, ok := evalIntPredicate(f, kc.Val)
					if !ok {
						r.add("R06c", c.FnName(f), "kind predicate", c.Pos(f.Pos()), Undecided, true, "the kind predicate "+f.Name()+" could not be evaluated for "+kc.Name)
						break
					}
					if v {
						add(kc.Name, handlersIn(c, b.Succs[0]))
					}
				}
			}
		}
	}
	// the kinds the property names as supported must be accepted by the writer at all
	for _, k := range []string{"Bool", "Int", "Int8", "Int16", "Int32", "Int64", "Uint", "Uint8", "Uint16", "Uint32", "Uint64", "Float32", "Float64", "String", "Array", "Slice", "Map", "Struct"} {
		_, ok := wk[k]
		r.Check(ok, "R06c", c.FnName(NV), "writer accepts "+k, c.Pos(wd.Head.Instrs[0].Pos()), "normalizeValue has a case for the kind", "normalizeValue has no case for kind "+k+": a struct with such a field cannot be merged into a config at all")
	}
	var ws []string
	for k := range wk {
		ws = append(ws, k)
	}
	sort.Strings(ws)
	for _, k := range ws {
		wc, wu := classesOf(wk[k], writerClass)
		hs, ok := reader[k]
		if !ok {
			r.Bad("R06c", "writer/reader", "kind "+k, c.Pos(wd.Head.Instrs[0].Pos()), "values of kind "+k+" are written into a config but no reader (reifyMergeValue / doReifyPrimitive) accepts that kind")
			continue
		}
		rc, ru := classesOf(hs, readerClass)
		if len(wu) > 0 || len(ru) > 0 {
			r.add("R06c", "writer/reader", "kind "+k, c.Pos(wd.Head.Instrs[0].Pos()), Undecided, true, fmt.Sprintf("handlers not in the class tables: writer %v reader %v", wu, ru))
			continue
		}
		missing := ""
		for cl := range wc {
			if !rc[cl] {
				missing = cl
			}
		}
		r.Check(missing == "" && len(wc) > 0, "R06c", "writer/reader", "kind "+k, c.Pos(wd.Head.Instrs[0].Pos()),
			fmt.Sprintf("writer produces %v, reader accepts %v", sortedKeys(wc), sortedKeys(rc)),
			fmt.Sprintf("for kind %s the writer produces %v but the reader's converter accepts only %v (missing %q)", k, sortedKeys(wc), sortedKeys(rc), missing))
	}
	// reifyValue (targets without an old value: map and interface elements, nil pointers) covers the
	// container kinds except the documented gap
	for _, k := range []string{"Map", "Slice", "Struct"} {
		if _, w := wk[k]; w {
			r.Check(valueTable[k], "R06c", c.FnName(c.Func("", "reifyValue")), "container kind "+k, c.Pos(c.Func("", "reifyValue").Pos()), "handled without an old value too", "reifyValue has no case for kind "+k+": such values cannot be read back as map elements or behind nil pointers")
		}
	}
	r.Note("fixed-size arrays as direct map / interface elements go through reifyValue, which has no Array case: excluded by the property's own quantifier")
}

// ---- R06e ------------------------------------------------------------------

func crossSignRule(c *Ctx, r *Report) {
	r.Rule("R06e", "the writer stores positive signed integers as unsigned values: cfgUint.toInt and cfgInt.toUint (the reader's cross-sign conversions) have a succeeding path that converts the stored number", 2)
	for _, m := range [][2]string{{"cfgUint", "toInt"}, {"cfgInt", "toUint"}} {
		fn := c.Method("", m[0], m[1])
		ok := false
		b := newNFWith(c, fn.Params[0], "V")
		form := ""
		for _, ret := range Returns(fn) {
			if len(ret.Results) == 2 && IsNilConst(RetVal(ret, 1)) {
				form = b.Of(RetVal(ret, 0)).String()
				if strings.HasPrefix(form, "convert<") && (strings.Contains(form, "deref($V).u") || strings.Contains(form, "deref($V).i")) {
					ok = true
				}
			}
		}
		_ = form
		r.Check(ok, "R06e", c.FnName(fn), "cross-sign conversion", c.Pos(fn.Pos()), "a return with a nil error yields the stored number converted", "no succeeding path converts the stored number: positive ints written as cfgUint (or unsigned targets reading a cfgInt) cannot be read back")
	}
}

func loadAddr(v ssa.Value) ssa.Value {
	if u, ok := v.(*ssa.UnOp); ok && u.Op == token.MUL {
		return u.X
	}
	return v
}

// evalIntPredicate evaluates a loop-free function of one integer parameter returning bool for the
// argument k by folding its SSA (comparisons, boolean phis, branches): a finite table, no execution.
func evalIntPredicate(fn *ssa.Function, k int64) (result bool, ok bool) {
	if len(fn.Params) != 1 || fn.Blocks == nil || hasLoop(fn) {
		return false, false
	}
	vals := map[ssa.Value]interface{}{fn.Params[0]: k}
	get := func(v ssa.Value) (interface{}, bool) {
		if x, ok := vals[v]; ok {
			return x, true
		}
		if c, isC := v.(*ssa.Const); isC {
			if b, ok := ConstBool(c); ok {
				return b, true
			}
			if i, ok := ConstInt(c); ok {
				return i, true
			}
		}
		return nil, false
	}
	b := fn.Blocks[0]
	var prev *ssa.BasicBlock
	for steps := 0; steps < 1000; steps++ {
		for _, in := range b.Instrs {
			switch x := in.(type) {
			case *ssa.Phi:
				for i, p := range b.Preds {
					if p == prev {
						v, ok := get(x.Edges[i])
						if !ok {
							return false, false
						}
						vals[x] = v
					}
				}
			case *ssa.BinOp:
				l, ok1 := get(x.X)
				rr, ok2 := get(x.Y)
				if !ok1 || !ok2 {
					return false, false
				}
				li, lok := l.(int64)
				ri, rok := rr.(int64)
				if !lok || !rok {
					return false, false
				}
				switch x.Op {
				case token.EQL:
					vals[x] = li == ri
				case token.NEQ:
					vals[x] = li != ri
				case token.LSS:
					vals[x] = li < ri
				case token.LEQ:
					vals[x] = li <= ri
				case token.GTR:
					vals[x] = li > ri
				case token.GEQ:
					vals[x] = li >= ri
				default:
					return false, false
				}
			case *ssa.UnOp:
				v, ok := get(x.X)
				bv, isB := v.(bool)
				if !ok || !isB || x.Op != token.NOT {
					return false, false
				}
				vals[x] = !bv
			case *ssa.Convert:
				v, ok := get(x.X)
				if !ok {
					return false, false
				}
				vals[x] = v
			case *ssa.ChangeType:
				v, ok := get(x.X)
				if !ok {
					return false, false
				}
				vals[x] = v
			case *ssa.DebugRef:
			case *ssa.If:
				v, ok := get(x.Cond)
				bv, isB := v.(bool)
				if !ok || !isB {
					return false, false
				}
				prev = b
				if bv {
					b = b.Succs[0]
				} else {
					b = b.Succs[1]
				}
			case *ssa.Jump:
				prev = b
				b = b.Succs[0]
			case *ssa.Return:
				if len(x.Results) != 1 {
					return false, false
				}
				v, ok := get(x.Results[0])
				bv, isB := v.(bool)
				return bv, ok && isB
			default:
				return false, false
			}
		}
	}
	return false, false
}

// listPartRule (R06l): the writer puts a slice or array into the list part of a node and named settings into the
// dictionary part; the reader's castArr is where a node is read back as a list. For a sub-configuration it answers
// with the list part — `fields.array()` — and only a primitive is wrapped as a list of one. A sub-configuration wrapped
// as its own single element ("an object is a list of length 1") turns the dictionary part that dotted sibling names
// created next to an empty list (hosts: [] beside hosts.balance) into an element the element type cannot take.
func listPartRule(c *Ctx, r *Report) {
	r.Rule("R06l", "castArr reads a sub-configuration as its list part (fields.array()): no cfgSub is stored as the element of a list it returns", 1)
	fn := c.Func("", "castArr")
	subT := c.Named("", "cfgSub")
	arrayFn := c.Method("", "fields", "array")
	bad := ""
	Instrs(fn, false, func(in ssa.Instruction) {
		st, ok := in.(*ssa.Store)
		if !ok {
			return
		}
		if _, isIdx := st.Addr.(*ssa.IndexAddr); !isIdx {
			return
		}
		for _, src := range append([]ssa.Value{st.Val}, Sources(st.Val)...) {
			if mi, isMI := src.(*ssa.MakeInterface); isMI && namedOf(mi.X.Type()) == subT {
				bad = c.Pos(st.Pos())
			}
		}
	})
	n := len(CallsTo(fn, arrayFn, false))
	r.Check(bad == "" && n > 0, "R06l", c.FnName(fn), "a sub-configuration is read as its list part", c.Pos(fn.Pos()), fmt.Sprintf("%d call(s) of fields.array(); no sub-configuration wrapped as an element", n),
		"castArr wraps a sub-configuration as the single element of a list (at "+bad+") or no longer reads the list part: a node that has named settings only — the dictionary that dotted sibling names create next to an empty list — is handed to the element type as an object, and a struct that was merged no longer unpacks")
}
