package main

// C07 — no input makes the library panic, hang or allocate without bound.
// R07a bounds of every index/slice operation the compiler cannot prove (E3); R07c index-derived
// allocation is bounded; R07d explicit panics and single-result type assertions; R07e the lexer
// goroutine is always drained; R07f reflect kind preconditions of IsNil.

import (
	"encoding/json"
	"fmt"
	"go/token"
	"go/types"
	"os"
	"os/exec"
	"path/filepath"
	"regexp"
	"sort"
	"strconv"
	"strings"

	"golang.org/x/tools/go/ssa"
)

func init() {
	register("C07", "Enumeration and discharge of the program points that can panic. (a) The compiler's bounds-check-elimination report (go build -gcflags=-d=ssa/check_bce/debug=1 on the current tree) lists every index/slice operation its sound prove pass could not discharge; each is located in SSA and must be proved by the checker's linear bounds prover (dominating comparisons with polarity, arithmetic definitions, len of slices/concatenations/make, strings.Index* results, range indices and loop counters, loads of the same storage without an intervening possible write, induction over phis, facts holding at every call site of an unexported function, checked type invariants; entailment by Fourier–Motzkin elimination) or is a reasoned exception. (c) the size of every make/append growth that depends on an index is bounded by a guarded index. (d) every explicit panic and every single-result type assertion reachable from the API is listed and must be dead or type-guarded. (e) parseSplice registers the drain of the lexer channel before its first return and the lexer closes its channels on every exit. (f) reflect IsNil is only called on kinds that allow it. Totality over all byte strings is a runtime claim; decided is that each program point that can panic is guarded on every path. Third-party decoders, stack depth for deeply nested input and termination of parser loops are not decided.", checkC07)
}

type bceSite struct {
	file string // relative to the repository
	line int
	col  int
	kind string
}

var bceLine = regexp.MustCompile(`^(.*\.go):(\d+):(\d+): Found (IsInBounds|IsSliceInBounds)`)

// runBCE asks the compiler which bounds checks it could not eliminate.
func runBCE(c *Ctx) []bceSite {
	args := []string{"build", "-gcflags=-d=ssa/check_bce/debug=1"}
	var cleanup func()
	if len(c.Overlay) > 0 {
		dir, err := os.MkdirTemp("", "ucfgcheck-bce-")
		if err != nil {
			undecidedf("BCE: cannot create temp dir: %v", err)
		}
		cleanup = func() { os.RemoveAll(dir) }
		repl := map[string]string{}
		i := 0
		for path, content := range c.Overlay {
			f := filepath.Join(dir, fmt.Sprintf("f%d.go", i))
			i++
			if err := os.WriteFile(f, content, 0o644); err != nil {
				cleanup()
				undecidedf("BCE: %v", err)
			}
			repl[path] = f
		}
		b, _ := json.Marshal(map[string]interface{}{"Replace": repl})
		of := filepath.Join(dir, "overlay.json")
		os.WriteFile(of, b, 0o644)
		args = append(args, "-overlay", of)
	}
	args = append(args, "./...")
	cmd := exec.Command("go", args...)
	cmd.Dir = c.RepoDir
	cmd.Env = append(os.Environ(), "GOFLAGS=-mod=mod", "GOPROXY=off", "GOSUMDB=off", "GOWORK=off", "GOTOOLCHAIN=local")
	if c.GOARCH != "" {
		cmd.Env = append(cmd.Env, "GOARCH="+c.GOARCH)
	}
	out, err := cmd.CombinedOutput()
	if cleanup != nil {
		cleanup()
	}
	if err != nil {
		undecidedf("BCE: go build failed: %v\n%s", err, truncate(string(out), 600))
	}
	var sites []bceSite
	pkgDir := ""
	for _, ln := range strings.Split(string(out), "\n") {
		if strings.HasPrefix(ln, "# ") {
			// "# github.com/elastic/go-ucfg/parse" : following relative paths are relative to the module root already
			pkgDir = strings.TrimPrefix(strings.TrimPrefix(strings.TrimSpace(ln[2:]), modPath), "/")
			continue
		}
		m := bceLine.FindStringSubmatch(ln)
		if m == nil {
			continue
		}
		f := filepath.Clean(m[1])
		if strings.HasPrefix(m[1], "./") && pkgDir != "" && !strings.HasPrefix(f, pkgDir+"/") {
			f = filepath.Join(pkgDir, f)
		}
		if filepath.IsAbs(f) {
			if rel, err := filepath.Rel(c.RepoDir, f); err == nil {
				f = rel
			}
		}
		l, _ := strconv.Atoi(m[2])
		col, _ := strconv.Atoi(m[3])
		sites = append(sites, bceSite{f, l, col, m[4]})
	}
	return sites
}

func truncate(s string, n int) string {
	if len(s) > n {
		return s[:n] + "..."
	}
	return s
}

// boundsExceptions: one named construct plus a reason (DESIGN §1 rule 4). Key: function + operand.
// kind: "" any, "slice", "index"; notIndexVar: the exception does not cover an index whose expression
// is a direct read of the named variable (such sites have their own local guard and must be proved).
// max: the number of sites the exception was granted for after reading them; if more sites of the
// function need it, none is excepted (a guard that used to be proved was probably removed).
var boundsExceptions = []struct {
	fn, operand, kind, notIndexVar string
	max                            int
	reason                         string
}{
	{"ucfg.parseVarExp", "stack", "", "", 4, "the parser's state stack is never empty when a token arrives: the lexer only emits a close/separator/string token after the corresponding open (varcount bookkeeping) and tokClose pops at most what tokOpen pushed; this is a protocol between two goroutines over a channel and not locally provable (the protocol endpoints are covered by R07e)"},
	{"ucfg.parseVarExp", "pieces", "", "", 4, "st.st is only ever assigned the constants stLeft (0) and stRight (1) and indexes a [2]-array"},
	{"ucfg.mergeConfigMergeArr", "array()", "index", "", 1, "to.fields.array() is re-read inside the loop after the recursive merge of element i; the loop bound l was taken from the same array and the iterations only replace elements in place (setAt with i < l) or merge below them, so its length cannot shrink; proving this needs reasoning about what the recursive merge may write"},
	{"ucfg.lexer$1", "content", "", "off", 1, "(one site since the prover proves joins alternative by alternative: the final re-slice content[off:]) loop invariant off <= len(content) of the lexer: off is reset to 0 whenever content is re-sliced and only advanced to idx+1 / idx+2 after the tests len(content) <= off; needs an inductive invariant over two captured variables that the prover does not infer. Reads content[off] are NOT covered by this exception: each has a local end-of-input test that is proved"},
	{"ucfg.reflectUnpackWithConfig", "Call()", "", "", 1, "reflect.Value.Call on a method whose signature was checked by implementsUnpacker to have exactly one result"},
}

func checkC07(c *Ctx, r *Report) {
	r.Assumption("the Go compiler's prove pass is sound: index/slice operations it does not list cannot fail")
	r.Assumption("yaml.v2, encoding/json and hjson-go are third-party decoders outside the tree")
	r.Assumption("stack depth for deeply nested input data and termination of the parser loops are not decided")
	be := newBoundsEngine(c)

	// type invariant cfgPath.fields: at least one field — checked at every store into the field
	r.Rule("R07i", "type invariant: every cfgPath is built with at least one field (checked at every store into cfgPath.fields)", 3)
	pathInvariant(c, r, be)

	r.Rule("R07a", "every index/slice operation the compiler cannot prove in bounds is proved by the linear bounds prover or is a reasoned exception", 30)
	sites := runBCE(c)
	r.Analysed["compiler-unproven bounds checks"] = len(sites)
	// index SSA instructions by position
	type key struct {
		file      string
		line, col int
	}
	idx := map[key][]boundSite{}
	for _, fn := range c.SrcFuncs() {
		Instrs(fn, false, func(in ssa.Instruction) {
			switch in.(type) {
			case *ssa.IndexAddr, *ssa.Index, *ssa.Slice, *ssa.Lookup:
				p := c.Fset.Position(in.Pos())
				rel, err := filepath.Rel(c.RepoDir, p.Filename)
				if err != nil {
					rel = p.Filename
				}
				k := key{rel, p.Line, p.Column}
				idx[k] = append(idx[k], boundSite{fn, in, ""})
			}
		})
	}
	sort.Slice(sites, func(i, j int) bool {
		if sites[i].file != sites[j].file {
			return sites[i].file < sites[j].file
		}
		if sites[i].line != sites[j].line {
			return sites[i].line < sites[j].line
		}
		return sites[i].col < sites[j].col
	})
	inlined := 0
	type pendingSite struct{ name, what, pos, why string }
	pendingEx := map[int][]pendingSite{}
	for _, s := range sites {
		if s.file == "<autogenerated>" || strings.HasPrefix(s.file, "<") {
			inlined++
			continue
		}
		bs := idx[key{s.file, s.line, s.col}]
		if len(bs) == 0 {
			// an inlined library body (e.g. time.Duration.String, bytes.Buffer.String): its own checks
			inlined++
			r.Note("compiler report at %s:%d:%d matches no index/slice operation of the repository: inlined library code, trusted", s.file, s.line, s.col)
			continue
		}
		for _, b := range bs {
			name := c.FnName(b.fn)
			operand := operandName(b.in)
			what := fmt.Sprintf("%s %s", opKind(b.in), operand)
			ok, why := be.proveSite(b.fn, b.in, 0)
			if ok {
				r.OK("R07a", name, what, c.Pos(b.in.Pos()), why)
				continue
			}
			if ei := boundsException(name, operand, opKind(b.in), indexVarName(b.in)); ei >= 0 {
				pendingEx[ei] = append(pendingEx[ei], pendingSite{name, what, c.Pos(b.in.Pos()), why})
				continue
			}
			r.Bad("R07a", name, what, c.Pos(b.in.Pos()), "this index/slice operation is not provably in bounds: "+why+" — a crafted input can make it panic")
		}
	}
	var eis []int
	for ei := range pendingEx {
		eis = append(eis, ei)
	}
	sort.Ints(eis)
	for _, ei := range eis {
		e := boundsExceptions[ei]
		ps := pendingEx[ei]
		for _, s := range ps {
			if len(ps) <= e.max {
				r.Except("R07a", s.name, s.what, s.pos, e.reason)
			} else {
				r.Bad("R07a", s.name, s.what, s.pos, fmt.Sprintf("not provably in bounds (%s); the reasoned exception for %s/%s was granted for %d sites but %d now need it — a local guard that used to be proved is gone", s.why, e.fn, e.operand, e.max, len(ps)))
			}
		}
	}
	r.Analysed["inlined library bounds checks (trusted)"] = inlined

	r.Rule("R07c", "every allocation whose size derives from an index (make in fields.setAt) is reached only with an index that passed the MaxIdx cap or the length of an existing array", 4)
	allocationRule(c, r)

	r.Rule("R07d", "every explicit panic is unreachable from the API except through Must*/init or dead; every single-result type assertion has its operand's dynamic type fixed by a dominating test or by what its producer can return", 8)
	panicRule(c, r)

	r.Rule("R07e", "parseSplice defers the drain of the token channel before its first return; the lexer goroutine closes both channels on every exit and sends only on channels it closes", 3)
	drainRule(c, r)

	r.Rule("R07f", "reflect.Value.IsNil is only called under kind facts that allow it (Chan, Func, Interface, Map, Ptr, Slice, UnsafePointer)", 6)
	isNilRule(c, r)
	addressabilityRule(c, r)
	typeAgreementRule(c, r)
	noGrowByResliceRule(c, r, be)
	valueErrorPairRule(c, r)
	paramKindContractRule(c, r)
	stringConvertRule(c, r)
	mergeResultRule(c, r)
	nilConfigArgRule(c, r)
	ancestorRule(c, r)
	zeroConfigRule(c, r)
	unhashableKeyRule(c, r)
}

// noGrowByResliceRule (R07k): a node's list ([]value) never grows by re-slicing into its spare
// capacity. The slots between len and cap hold whatever was there (delAt leaves nil behind); a list
// extended that way contains nil interface values, and the next traversal (Unpack, FlattenedKeys,
// Merge) calls a method on nil. The compiler accepts high <= cap, so these sites are not in its
// bounds-check report: every re-slice of a []value with an upper bound is proved against len here.
func noGrowByResliceRule(c *Ctx, r *Report, be *boundsEngine) {
	r.Rule("R07k", "every re-slice x[:h] / x[l:h] of a node's list ([]value) has h <= len(x): lists grow only by make+copy+fill or append, never into capacity left over by a removal", 1)
	valueT := c.Named("", "value")
	for _, fn := range c.SrcFuncs() {
		if fn.Pkg != c.SSA[""] {
			continue
		}
		Instrs(fn, false, func(in ssa.Instruction) {
			sl, ok := in.(*ssa.Slice)
			if !ok || sl.High == nil {
				return
			}
			st, ok := sl.X.Type().Underlying().(*types.Slice)
			if !ok || !types.Identical(st.Elem(), valueT) {
				return
			}
			okp, why := be.proveSite(fn, sl, 0)
			r.Check(okp, "R07k", c.FnName(fn), "re-slice of node list", c.Pos(sl.Pos()), why, "a node's list is re-sliced with an upper bound that is not provably within its length ("+why+"): slots beyond len are stale (nil after a removal) and become elements; the next traversal of the list dereferences nil")
		})
	}
}

func opKind(in ssa.Instruction) string {
	switch in.(type) {
	case *ssa.Slice:
		return "slice"
	}
	return "index"
}

func operandName(in ssa.Instruction) string {
	var x ssa.Value
	switch y := in.(type) {
	case *ssa.IndexAddr:
		x = y.X
	case *ssa.Index:
		x = y.X
	case *ssa.Lookup:
		x = y.X
	case *ssa.Slice:
		x = y.X
	}
	if x == nil {
		return "?"
	}
	// a stable, line-free description of the operand
	for i := 0; i < 6; i++ {
		switch y := x.(type) {
		case *ssa.UnOp:
			if y.Op == token.MUL {
				switch a := y.X.(type) {
				case *ssa.FieldAddr:
					if _, f, ok := FieldOf(a); ok {
						return f
					}
				case *ssa.FreeVar:
					return a.Name()
				case *ssa.Alloc:
					return a.Comment
				}
			}
		case *ssa.FieldAddr:
			if _, f, ok := FieldOf(y); ok {
				return f
			}
		case *ssa.Parameter:
			return y.Name()
		case *ssa.Phi:
			if y.Comment != "" {
				return y.Comment
			}
		case *ssa.Slice:
			x = y.X
			continue
		case *ssa.Call:
			if f := y.Call.StaticCallee(); f != nil {
				return f.Name() + "()"
			}
		case *ssa.Alloc:
			return y.Comment
		case *ssa.Extract:
			if call, ok := y.Tuple.(*ssa.Call); ok {
				return CalleeName(nil2(), call) + "#" + strconv.Itoa(y.Index)
			}
		}
		break
	}
	if x.Name() != "" {
		return typeStr(x.Type())
	}
	return "?"
}

func nil2() *Ctx { return &Ctx{} }

func boundsException(fn, operand, kind, indexVar string) int {
	for i, e := range boundsExceptions {
		if e.fn != fn || (e.operand != "" && e.operand != operand) {
			continue
		}
		if e.kind != "" && e.kind != kind {
			continue
		}
		if e.notIndexVar != "" && kind == "index" && indexVar == e.notIndexVar {
			continue
		}
		return i
	}
	return -1
}

// indexVarName: the local variable an index expression reads directly (x[v]), or "".
func indexVarName(in ssa.Instruction) string {
	var idx ssa.Value
	switch y := in.(type) {
	case *ssa.IndexAddr:
		idx = y.Index
	case *ssa.Index:
		idx = y.Index
	case *ssa.Lookup:
		idx = y.Index
	}
	for i := 0; i < 3 && idx != nil; i++ {
		switch y := idx.(type) {
		case *ssa.Convert:
			idx = y.X
			continue
		case *ssa.UnOp:
			if y.Op == token.MUL {
				switch a := y.X.(type) {
				case *ssa.FreeVar:
					return a.Name()
				case *ssa.Alloc:
					return a.Comment
				}
			}
		case *ssa.Parameter:
			return y.Name()
		}
		break
	}
	return ""
}

// pathInvariant: stores into cfgPath.fields establish len >= 1.
func pathInvariant(c *Ctx, r *Report, be *boundsEngine) {
	pathT := c.Named("", "cfgPath")
	all := true
	n := 0
	for _, fn := range c.SrcFuncs() {
		Instrs(fn, false, func(in ssa.Instruction) {
			st, ok := in.(*ssa.Store)
			if !ok {
				return
			}
			nt, f, ok := FieldOf(st.Addr)
			if !ok || nt != pathT || f != "fields" {
				return
			}
			n++
			p := be.prover(fn, 0)
			g := leq(linConst(1), p.lenOf(st.Val, 0), "len(fields) >= 1")
			ok2, _ := p.prove([]ineq{g}, st.Block(), nil)
			name := c.FnName(fn)
			switch {
			case ok2:
				r.OK("R07i", name, "store cfgPath.fields", c.Pos(st.Pos()), "the stored slice has at least one element")
			case isSplitSized(st.Val):
				r.Except("R07i", name, "store cfgPath.fields", c.Pos(st.Pos()), "the slice is made with the length of strings.Split(in, sep), which returns at least one element for a non-empty separator (library contract)")
			case isSplitLoop(st.Val):
				r.Except("R07i", name, "store cfgPath.fields", c.Pos(st.Pos()), "one parseField result is appended per element of strings.Split(in, sep), which returns at least one element for a non-empty separator (library contract); the loop count is not inferred")
			default:
				all = false
				r.Bad("R07i", name, "store cfgPath.fields", c.Pos(st.Pos()), "a path can be built with no field: the path walkers index fields[0] unconditionally")
			}
		})
	}
	if all && n > 0 {
		be.typeInv["cfgPath.fields"] = 1
	}
}

// isSplitSized: v is make([]T, len(x)) with x the result of strings.Split.
func isSplitSized(v ssa.Value) bool {
	for _, s := range Sources(v) {
		ms, ok := s.(*ssa.MakeSlice)
		if !ok {
			return false
		}
		call, ok := ms.Len.(*ssa.Call)
		if !ok || BuiltinName(call) != "len" {
			return false
		}
		isSplit := false
		for _, x := range Sources(call.Call.Args[0]) {
			if sc, ok := x.(*ssa.Call); ok {
				if f := sc.Call.StaticCallee(); f != nil && f.String() == "strings.Split" {
					isSplit = true
					continue
				}
			}
			return false
		}
		if !isSplit {
			return false
		}
	}
	return true
}

// isSplitLoop: v is phi(make(..), append(phi, x)) filled in a range loop over strings.Split(...).
func isSplitLoop(v ssa.Value) bool {
	phi, ok := v.(*ssa.Phi)
	if !ok {
		return false
	}
	hasAppend, hasMake := false, false
	for _, e := range phi.Edges {
		switch x := e.(type) {
		case *ssa.MakeSlice:
			hasMake = true
		case *ssa.Call:
			if BuiltinName(x) == "append" && x.Call.Args[0] == ssa.Value(phi) {
				hasAppend = true
			}
		}
	}
	if !hasAppend || !hasMake {
		return false
	}
	split := false
	Instrs(phi.Parent(), false, func(in ssa.Instruction) {
		if call, ok := in.(*ssa.Call); ok {
			if f := call.Call.StaticCallee(); f != nil && f.String() == "strings.Split" {
				split = true
			}
		}
	})
	return split
}

// allocationRule: make([]value, n) sites.
func allocationRule(c *Ctx, r *Report) {
	valueT := c.Named("", "value")
	setAt := c.Method("", "fields", "setAt")
	n := 0
	for _, fn := range c.SrcFuncs() {
		if fn.Pkg != c.SSA[""] {
			continue
		}
		Instrs(fn, false, func(in ssa.Instruction) {
			ms, ok := in.(*ssa.MakeSlice)
			if !ok {
				return
			}
			sl, ok := ms.Type().Underlying().(*types.Slice)
			if !ok || !types.Identical(sl.Elem(), valueT) {
				return
			}
			n++
			name := c.FnName(fn)
			// size sources
			good := true
			var bad []string
			for _, v := range []ssa.Value{ms.Len, ms.Cap} {
				for _, s := range intSources(v) {
					switch x := s.(type) {
					case *ssa.Const:
					case *ssa.Call:
						if BuiltinName(x) != "len" && !(calledName(x) == "Len" && x.Call.StaticCallee() != nil && x.Call.StaticCallee().Pkg != nil && x.Call.StaticCallee().Pkg.Pkg.Path() == "reflect") {
							good = false
							bad = append(bad, x.String())
						}
					case *ssa.Parameter:
						if fn == setAt {
							continue // checked at the call sites below
						}
						good = false
						bad = append(bad, "parameter "+x.Name())
					default:
						good = false
						bad = append(bad, s.String())
					}
				}
			}
			r.Check(good, "R07c", name, "make([]value, n)", c.Pos(ms.Pos()), "size is a constant, a length of an existing array, or setAt's index (checked at its call sites)", "the size of a node array derives from "+strings.Join(bad, ", "))
		})
	}
	// call sites of setAt: the index is a guarded idxField.i, a loop counter below a length, or a length
	for _, fn := range c.SrcFuncs() {
		for _, ci := range CallsTo(fn, setAt, false) {
			name := c.FnName(fn)
			arg := ci.Common().Args[1]
			verdict, why := "", ""
			for _, s := range intSources(arg) {
				switch x := s.(type) {
				case *ssa.Const:
				case *ssa.Call:
					if BuiltinName(x) != "len" {
						verdict, why = "bad", x.String()
					}
				case *ssa.Phi:
					// loop counter
				case *ssa.Extract:
					// range index
				case *ssa.Field:
					if _, f, ok := FieldOf(x); ok && f == "i" {
						if verdict == "" {
							verdict, why = "idx", "idxField.i"
						}
					} else {
						verdict, why = "bad", x.String()
					}
				case *ssa.UnOp:
					if nt, f, ok := FieldOf(x.X); ok && nt.Obj().Name() == "idxField" && f == "i" {
						if verdict == "" {
							verdict, why = "idx", "idxField.i"
						}
					} else {
						verdict, why = "bad", x.String()
					}
				default:
					verdict, why = "bad", s.String()
				}
			}
			switch verdict {
			case "":
				r.OK("R07c", name, "setAt index", c.Pos(ci.Pos()), "index is a loop counter, a range index or a length of an existing array")
			case "idx":
				// idxField.i: capped when it comes from parseField (C20); the API index of parsePathIdx is
				// capped only if the call is dominated by a comparison of the same index with options.maxIdx
				isMax := func(v ssa.Value) bool {
					v = stripConv(v)
					if u, ok := v.(*ssa.UnOp); ok && u.Op == token.MUL {
						if nt, f, ok := FieldOf(u.X); ok && nt.Obj().Name() == "options" && f == "maxIdx" {
							return true
						}
					}
					return false
				}
				if UpperBoundBy(arg, FactsAt(ci.(ssa.Instruction).Block()), isMax, false) {
					r.OK("R07c", name, "setAt index", c.Pos(ci.Pos()), "index field compared with options.maxIdx before the list is grown (and parsed indices are capped by parseField)")
					continue
				}
				r.Bad("R07c", name, "setAt index", c.Pos(ci.Pos()), "the list is grown up to an index field that is capped by MaxIdx only when it was parsed from text (parseField); the idx argument of the setters (parsePathIdx) reaches this allocation uncapped: SetInt(name, 1<<40, ...) requests 2^40 slots")
			default:
				r.Bad("R07c", name, "setAt index", c.Pos(ci.Pos()), "setAt is called with an index of unknown provenance: "+why)
			}
		}
	}
	if n == 0 {
		r.Bad("R07c", "ucfg", "make([]value, n)", "-", "no node array allocation found")
	}
}

// intSources: terminal sources of an integer through +,- with constants and conversions.
func intSources(v ssa.Value) []ssa.Value {
	var out []ssa.Value
	seen := map[ssa.Value]bool{}
	var rec func(v ssa.Value)
	rec = func(v ssa.Value) {
		if seen[v] {
			return
		}
		seen[v] = true
		switch x := v.(type) {
		case *ssa.BinOp:
			if x.Op == token.ADD || x.Op == token.SUB {
				rec(x.X)
				rec(x.Y)
				return
			}
		case *ssa.Convert:
			rec(x.X)
			return
		}
		out = append(out, v)
	}
	rec(v)
	return out
}

// panicRule: explicit panics and single-result type assertions.
func panicRule(c *Ctx, r *Report) {
	// API roots: exported functions and methods of all packages except Must* and init
	var roots []*ssa.Function
	for _, fn := range c.SrcFuncs() {
		if fn.Parent() != nil || fn.Synthetic != "" {
			continue
		}
		o := fn.Object()
		if o == nil || !o.Exported() || strings.HasPrefix(fn.Name(), "Must") {
			continue
		}
		roots = append(roots, fn)
	}
	reach := c.Reach(roots, nil, nil)
	errorT := c.Named("", "Error")
	for _, fn := range c.SrcFuncs() {
		name := c.FnName(fn)
		Instrs(fn, false, func(in ssa.Instruction) {
			switch x := in.(type) {
			case *ssa.Panic:
				top := fn
				for top.Parent() != nil {
					top = top.Parent()
				}
				switch {
				case !reach[fn] && !reach[top]:
					r.OK("R07d", name, "panic", c.Pos(x.Pos()), "not reachable from the public API (only through Must*/init)")
				case deadPanic(c, x):
					r.OK("R07d", name, "panic", c.Pos(x.Pos()), "follows an exhaustive switch over the only values ever stored in the tested field")
				default:
					r.Bad("R07d", name, "panic", c.Pos(x.Pos()), "an explicit panic is reachable from the public API")
				}
			case *ssa.TypeAssert:
				if x.CommaOk {
					return
				}
				if !reach[fn] {
					top := fn
					for top.Parent() != nil {
						top = top.Parent()
					}
					if !reach[top] {
						return
					}
				}
				ok, why := assertGuarded(c, x, errorT)
				r.Check(ok, "R07d", name, "assert to "+typeStr(x.AssertedType), c.Pos(x.Pos()), why, "a single-result type assertion can fail at run time: "+why)
			}
		})
	}
}

// deadPanic: the panic's block is reached only when a string field differs from all constants that
// are ever stored into that field.
func deadPanic(c *Ctx, p *ssa.Panic) bool {
	fn := p.Parent()
	// collect `x == "const"` tests that are false on the way to the panic
	var tested []string
	var subject ssa.Value
	for _, cd := range DomConds(p.Block()) {
		b, ok := cd.V.(*ssa.BinOp)
		if !ok || b.Op != token.EQL || cd.Truth {
			continue
		}
		if s, ok := ConstString(b.Y); ok {
			tested = append(tested, s)
			subject = b.X
		}
	}
	if subject == nil {
		return false
	}
	prm, ok := subject.(*ssa.Parameter)
	if !ok {
		return false
	}
	// every call site passes a load of one field; every store into that field stores one of the tested constants
	idx := -1
	for i, q := range fn.Params {
		if q == prm {
			idx = i
		}
	}
	node := c.CG().Nodes[fn]
	if node == nil || len(node.In) == 0 {
		return false
	}
	for _, e := range node.In {
		if e.Site == nil {
			return false
		}
		arg := e.Site.Common().Args[idx]
		var nt *types.Named
		fld := ""
		for _, s := range Sources(arg) {
			switch y := s.(type) {
			case *ssa.Field:
				nt, fld, _ = FieldOf(y)
			case *ssa.UnOp:
				nt, fld, _ = FieldOf(y.X)
			}
		}
		if nt == nil {
			return false
		}
		good := true
		for _, g := range c.SrcFuncs() {
			Instrs(g, false, func(in ssa.Instruction) {
				st, ok := in.(*ssa.Store)
				if !ok {
					return
				}
				n2, f2, ok := FieldOf(st.Addr)
				if !ok || n2 != nt || f2 != fld {
					return
				}
				for _, s := range Sources(st.Val) {
					okc := false
					if k, isK := ConstString(s); isK {
						for _, t := range tested {
							if t == k {
								okc = true
							}
						}
					}
					// a token value: loads of field val of token whose stores are the operator constants
					if !okc && tokenValOnlyConsts(c, s, tested) {
						okc = true
					}
					if !okc {
						good = false
					}
				}
			})
		}
		if !good {
			return false
		}
	}
	return true
}

// tokenValOnlyConsts: s is tok.val of a token received on the lexer channel under tok.typ == tokSep,
// and every separator token constructed in the package carries one of the tested constants.
func tokenValOnlyConsts(c *Ctx, s ssa.Value, tested []string) bool {
	var nt *types.Named
	var fld string
	ok := false
	switch f := s.(type) {
	case *ssa.Field:
		nt, fld, ok = FieldOf(f)
	case *ssa.UnOp:
		if f.Op == token.MUL {
			nt, fld, ok = FieldOf(f.X)
		}
	}
	if !ok || nt.Obj().Name() != "token" || fld != "val" {
		return false
	}
	// the use must be under typ == tokSep
	sepOK := false
	if in, isIn := s.(ssa.Instruction); isIn {
		for _, cd := range DomConds(in.Block()) {
			if b, isB := cd.V.(*ssa.BinOp); isB && b.Op == token.EQL && cd.Truth {
				if k, isK := ConstInt(b.Y); isK && k == 2 {
					sepOK = true
				}
			}
		}
	}
	if !sepOK {
		return false
	}
	// all token literals with typ tokSep (2) have val among tested: scan package-level initialisers and functions
	good, found := true, false
	for _, g := range c.SrcFuncs() {
		if g.Pkg != c.SSA[""] {
			continue
		}
		Instrs(g, false, func(in ssa.Instruction) {
			st, ok := in.(*ssa.Store)
			if !ok {
				return
			}
			n2, f2, ok := FieldOf(st.Addr)
			if !ok || n2 != nt || f2 != "typ" {
				return
			}
			if k, isK := ConstInt(st.Val); !isK || k != 2 {
				return
			}
			// sibling store to .val on the same base (same function)
			fa := st.Addr.(*ssa.FieldAddr)
			Instrs(g, false, func(in2 ssa.Instruction) {
				st2, ok := in2.(*ssa.Store)
				if !ok {
					return
				}
				fa2, ok := st2.Addr.(*ssa.FieldAddr)
				if !ok || fa2.X != fa.X {
					return
				}
				if _, f3, _ := FieldOf(fa2); f3 != "val" {
					return
				}
				found = true
				k, isK := ConstString(st2.Val)
				okc := false
				for _, t := range tested {
					if isK && t == k {
						okc = true
					}
				}
				if !okc {
					good = false
				}
			})
		})
	}
	return good && found
}

func assertGuarded(c *Ctx, ta *ssa.TypeAssert, errorT *types.Named) (bool, string) {
	// asserting an interface to an interface it statically implements cannot fail except for nil
	// 1. operand produced by reflect .Interface() under a dominating reflect type test
	for _, s := range Sources(ta.X) {
		if call, ok := s.(*ssa.Call); ok {
			if f := call.Call.StaticCallee(); f != nil && f.Name() == "Interface" && f.Pkg != nil && f.Pkg.Pkg.Path() == "reflect" {
				if reflectTypeFixed(call, ta) {
					return true, "operand's dynamic type fixed by a dominating reflect type test / conversion"
				}
				return false, "the value comes from reflect Interface() without a dominating test that fixes its type to " + typeStr(ta.AssertedType)
			}
		}
	}
	// 2. err.(Error) where every source of err already is an Error (E9)
	if types.Identical(ta.AssertedType, errorT) {
		p := newErrProv(c)
		bad := ""
		for _, t := range p.terms(ta.X, map[ssa.Value]bool{}, 0) {
			if !t.ok {
				bad = t.what
			}
			if t.ok && t.what == "nil" {
				// nil interface asserted to an interface type panics: must be dominated by != nil
				nn := false
				for _, cd := range DomConds(ta.Block()) {
					if isNilTestOf(cd, ta.X, false) {
						nn = true
					}
				}
				if !nn {
					bad = "the operand may be nil at the assertion"
				}
			}
		}
		if bad == "" {
			return true, "every producer of the operand returns a ucfg.Error and the operand is non-nil here"
		}
		return false, bad
	}
	// 3. dominated by a comma-ok assertion / type switch on the same operand to the same type
	for _, cd := range DomConds(ta.Block()) {
		if e, ok := cd.V.(*ssa.Extract); ok && cd.Truth && e.Index == 1 {
			if t2, ok := e.Tuple.(*ssa.TypeAssert); ok && t2.X == ta.X && types.Identical(t2.AssertedType, ta.AssertedType) {
				return true, "dominated by a successful comma-ok assertion to the same type"
			}
		}
	}
	// 4. the operand is what a statically resolved function returns, and every return of that function wraps a
	// value of exactly the asserted type (cfgSub{…}.cpy(ctx).(cfgSub))
	if call, ok := ta.X.(*ssa.Call); ok && !call.Call.IsInvoke() {
		if f := call.Call.StaticCallee(); f != nil && len(f.Blocks) > 0 && f.Signature.Results().Len() == 1 {
			all, n := true, 0
			for _, b := range f.Blocks {
				if ret, isRet := lastInstr(b).(*ssa.Return); isRet && len(ret.Results) == 1 {
					n++
					mi, isMI := ret.Results[0].(*ssa.MakeInterface)
					if !isMI || !types.Identical(mi.X.Type(), ta.AssertedType) {
						all = false
					}
				}
			}
			if all && n > 0 {
				return true, "every return of " + f.Name() + " wraps a value of the asserted type"
			}
		}
	}
	return false, "no dominating test fixes the dynamic type of " + ta.X.Name()
}

// reflectTypeFixed: the Interface() call's receiver had its type compared/converted to what is asserted.
func reflectTypeFixed(ifc *ssa.Call, ta *ssa.TypeAssert) bool {
	want := typeStr(ta.AssertedType)
	recv := ifc.Call.Args[0]
	// (a) receiver is x.Convert(T) / x.Addr().Convert(T) with T the matching package-level type
	globalFor := map[string][]string{"*ucfg.Config": {"tConfigPtr", "tConfig"}, "error": {"tError"}, "ucfg.Initializer": {"iInitializer"}, "ucfg.Validator": {"tValidator"}, "time.Duration": {"tDuration"}, "*regexp.Regexp": {"tRegexp"}}
	names := globalFor[want]
	var walk func(v ssa.Value, d int) bool
	walk = func(v ssa.Value, d int) bool {
		if d > 8 {
			return false
		}
		for _, s := range Sources(v) {
			call, ok := s.(*ssa.Call)
			if !ok {
				if e, isE := s.(*ssa.Extract); isE {
					if c2, isC := e.Tuple.(*ssa.Call); isC {
						if f := c2.Call.StaticCallee(); f != nil && f.Name() == "tryTConfig" {
							return true
						}
					}
				}
				continue
			}
			f := call.Call.StaticCallee()
			if f == nil {
				continue
			}
			switch f.Name() {
			case "Convert":
				for _, a := range call.Call.Args[1:] {
					if l, ok := a.(*ssa.UnOp); ok {
						if g, ok := l.X.(*ssa.Global); ok {
							for _, n := range names {
								if g.Name() == n {
									return true
								}
							}
						}
					}
				}
			case "Addr", "Elem", "pointerize", "chaseValue", "chaseValuePointers":
				if walk(call.Call.Args[len(call.Call.Args)-1], d+1) || walk(call.Call.Args[0], d+1) {
					return true
				}
			case "tryTConfig":
				return true
			}
		}
		return false
	}
	if walk(recv, 0) {
		return true
	}
	// (b) dominating condition: Type() == tX, or Implements(iX) true, on the same receiver value
	for _, cd := range DomConds(ta.Block()) {
		switch x := cd.V.(type) {
		case *ssa.BinOp:
			if x.Op == token.EQL && cd.Truth {
				for _, side := range []ssa.Value{x.X, x.Y} {
					if l, ok := side.(*ssa.UnOp); ok {
						if g, ok := l.X.(*ssa.Global); ok {
							for _, n := range names {
								if g.Name() == n {
									return true
								}
							}
						}
					}
				}
			}
		case *ssa.Call:
			if cd.Truth && calledName(x) == "Implements" {
				for _, a := range x.Call.Args {
					if l, ok := a.(*ssa.UnOp); ok {
						if g, ok := l.X.(*ssa.Global); ok {
							for _, n := range names {
								if g.Name() == n {
									// the type implements the interface — but a value of an interface type can hold nothing:
									// Interface() of a nil interface value is the nil interface, and the assertion panics.
									// Fine when the type asked is a pointer type made here (PtrTo: the value is pointerized),
									// otherwise the value must be known not to be nil.
									if implementsOnPtrTo(x) || notNilGuarded(ta) {
										return true
									}
								}
							}
						}
					}
				}
			}
		}
	}
	return false
}

// implementsOnPtrTo: the receiver of t.Implements(I) is reflect.PtrTo(…) / reflect.PointerTo(…).
func implementsOnPtrTo(call *ssa.Call) bool {
	if !call.Call.IsInvoke() {
		return false
	}
	for _, s := range append(Sources(call.Call.Value), call.Call.Value) {
		if pc, ok := s.(*ssa.Call); ok && pc.Call.StaticCallee() != nil {
			switch pc.Call.StaticCallee().String() {
			case "reflect.PtrTo", "reflect.PointerTo":
				return true
			}
		}
	}
	return false
}

// notNilGuarded: the reflect.Value whose Interface() is asserted is known not to be nil (a dominating IsNil() that
// answered false on the same value), or its kind was tested to be something that cannot be a nil interface.
func notNilGuarded(ta *ssa.TypeAssert) bool {
	ic, ok := ta.X.(*ssa.Call)
	if !ok || calledName(ic) != "Interface" || len(ic.Call.Args) != 1 {
		return false
	}
	recv := ic.Call.Args[0]
	// a dominating join that is entered only from tests: `if (k == Ptr || k == Interface) && v.IsNil() { return }` leaves
	// through the false edge of IsNil, or through the false edges of the kind tests
	for d := ta.Block(); d != nil; d = d.Idom() {
		if len(d.Preds) < 2 {
			continue
		}
		good, sawNil := true, false
		for _, pr := range d.Preds {
			ifi, isIf := lastInstr(pr).(*ssa.If)
			if !isIf || len(pr.Succs) != 2 {
				good = false
				break
			}
			onFalse := pr.Succs[1] == d && pr.Succs[0] != d
			switch x := ifi.Cond.(type) {
			case *ssa.Call:
				if calledName(x) == "IsNil" && len(x.Call.Args) == 1 && onFalse && (x.Call.Args[0] == recv || SameValue(x.Call.Args[0], recv) || sameSrc(x.Call.Args[0], recv)) {
					sawNil = true
				} else {
					good = false
				}
			case *ssa.BinOp:
				if !(strings.Contains(typeStr(x.X.Type()), "reflect.Kind") && x.Op == token.EQL && onFalse) {
					good = false
				}
			default:
				good = false
			}
		}
		if good && sawNil {
			return true
		}
	}
	for _, cd := range ExpandConds(DomConds(ta.Block())) {
		v, truth := cd.V, cd.Truth
		for {
			u, isU := v.(*ssa.UnOp)
			if !isU || u.Op != token.NOT {
				break
			}
			v, truth = u.X, !truth
		}
		isNilOfRecv := func(x ssa.Value) bool {
			nc, ok := x.(*ssa.Call)
			return ok && calledName(nc) == "IsNil" && len(nc.Call.Args) == 1 &&
				(nc.Call.Args[0] == recv || SameValue(nc.Call.Args[0], recv) || sameSrc(nc.Call.Args[0], recv))
		}
		if isNilOfRecv(v) && !truth {
			return true
		}
		// `(kind == Ptr || kind == Interface) && v.IsNil()` answered false: either the kind is none that can be nil,
		// or the value is not nil
		if phi, ok := v.(*ssa.Phi); ok && !truth {
			good, sawNil := true, false
			for i, e := range phi.Edges {
				if cb, isC := ConstBool(e); isC && !cb {
					// the way in on which the conjunction was cut short: a kind test
					pr := phi.Block().Preds[i]
					ifi, isIf := lastInstr(pr).(*ssa.If)
					if !isIf {
						good = false
						continue
					}
					if bo, isB := ifi.Cond.(*ssa.BinOp); !isB || !(bo.Op == token.EQL || bo.Op == token.NEQ) || !strings.Contains(typeStr(bo.X.Type()), "reflect.Kind") {
						good = false
					}
					continue
				}
				if isNilOfRecv(e) {
					sawNil = true
					continue
				}
				good = false
			}
			if good && sawNil {
				return true
			}
		}
	}
	return false
}

// drainRule: R07e.
func drainRule(c *Ctx, r *Report) {
	ps := c.Func("", "parseSplice")
	lexer := c.Func("", "lexer")
	name := c.FnName(ps)
	// the lexer call and the deferred drain closure
	var lexCall *ssa.Call
	for _, ci := range CallsTo(ps, lexer, false) {
		lexCall, _ = ci.(*ssa.Call)
	}
	var drain *ssa.Defer
	Instrs(ps, false, func(in ssa.Instruction) {
		d, ok := in.(*ssa.Defer)
		if !ok {
			return
		}
		for _, s := range Sources(d.Call.Value) {
			mc, ok := s.(*ssa.MakeClosure)
			if !ok {
				continue
			}
			// closure ranges over the token channel until it is closed
			ranges := false
			Instrs(mc.Fn.(*ssa.Function), false, func(in2 ssa.Instruction) {
				if u, ok := in2.(*ssa.UnOp); ok && u.Op == token.ARROW {
					if _, isChan := u.X.Type().Underlying().(*types.Chan); isChan && u.CommaOk {
						ranges = true
					}
				}
			})
			if ranges {
				drain = d
			}
		}
	})
	ok := lexCall != nil && drain != nil && InstrDominates(lexCall, drain)
	if ok {
		// no return between the lexer call and the defer
		// (a return that cannot be reached from the lexer call — before the goroutine exists — has nothing to drain)
		for _, ret := range Returns(ps) {
			afterLex := ret.Block() == lexCall.Block() || reachableAvoiding(lexCall.Block(), ret.Block(), nil)
			if afterLex && !InstrDominates(drain, ret) {
				ok = false
			}
		}
	}
	r.Check(ok, "R07e", name, "drain deferred before any return", c.Pos(ps.Pos()), "defer of the channel-draining closure dominates every return", "parseSplice can return without draining the lexer's token channel: the lexer goroutine blocks forever on its next send (leak)")
	// lexer goroutine: deferred closure closes every channel the goroutine sends on
	var gofn *ssa.Function
	Instrs(lexer, false, func(in ssa.Instruction) {
		if g, ok := in.(*ssa.Go); ok {
			for _, s := range Sources(g.Call.Value) {
				if mc, ok := s.(*ssa.MakeClosure); ok {
					gofn = mc.Fn.(*ssa.Function)
				}
			}
		}
	})
	if gofn == nil {
		r.Bad("R07e", c.FnName(lexer), "goroutine", c.Pos(lexer.Pos()), "the lexer goroutine was not found")
		return
	}
	sent := map[string]bool{}
	for _, f := range WithAnon(gofn) {
		Instrs(f, false, func(in ssa.Instruction) {
			if s, ok := in.(*ssa.Send); ok {
				sent[chanKey(s.Chan)] = true
			}
		})
	}
	closed := map[string]bool{}
	deferredFirst := false
	if len(gofn.Blocks) > 0 {
		for _, in := range gofn.Blocks[0].Instrs {
			if d, ok := in.(*ssa.Defer); ok {
				for _, s := range Sources(d.Call.Value) {
					if mc, ok := s.(*ssa.MakeClosure); ok {
						Instrs(mc.Fn.(*ssa.Function), false, func(in2 ssa.Instruction) {
							if call, ok := in2.(*ssa.Call); ok && BuiltinName(call) == "close" {
								closed[chanKey(call.Call.Args[0])] = true
								deferredFirst = true
							}
						})
					}
				}
			}
		}
	}
	allClosed := deferredFirst
	for k := range sent {
		if !closed[k] {
			allClosed = false
		}
	}
	r.Check(allClosed && len(sent) > 0, "R07e", c.FnName(gofn), "channels closed on every exit", c.Pos(gofn.Pos()), fmt.Sprintf("a defer in the entry block closes all %d channels the goroutine sends on", len(sent)), "the lexer goroutine can exit without closing a channel it sends on (the parser's range never ends) or closes are not deferred in its entry block")
	// both returned channels are closed
	r.Check(len(closed) >= 2, "R07e", c.FnName(gofn), "both channels closed", c.Pos(gofn.Pos()), "token and error channel are closed by the deferred closure", "the lexer does not close both of its channels")
}

func chanKey(v ssa.Value) string {
	for _, s := range Sources(v) {
		switch x := s.(type) {
		case *ssa.MakeChan:
			return fmt.Sprintf("chan@%p", x)
		case *ssa.FreeVar:
			if b := freeVarBinding(x); b != nil {
				return chanKey(b)
			}
			return "fv:" + x.Name()
		case *ssa.Alloc:
			return fmt.Sprintf("cell@%p", x)
		}
	}
	if fv, ok := v.(*ssa.FreeVar); ok {
		if b := freeVarBinding(fv); b != nil {
			return chanKey(b)
		}
	}
	return v.Name()
}

// isNilRule: R07f restricted to IsNil.
func isNilRule(c *Ctx, r *Report) {
	nilable := map[int64]bool{18: true, 19: true, 20: true, 21: true, 22: true, 23: true, 26: true} // Chan Func Interface Map Ptr Slice UnsafePointer
	for _, fn := range c.SrcFuncs() {
		if fn.Pkg != c.SSA[""] {
			continue
		}
		name := c.FnName(fn)
		for _, ci := range CallsIn(fn, false) {
			f := ci.Common().StaticCallee()
			if f == nil || f.Pkg == nil || f.Pkg.Pkg.Path() != "reflect" || f.Name() != "IsNil" {
				continue
			}
			recv := ci.Common().Args[0]
			in := ci.(ssa.Instruction)
			ok, why := kindAllowsIsNil(recv, in, nilable)
			if !ok {
				if ex := isNilException(name); ex != "" {
					r.Except("R07f", name, "IsNil", c.Pos(ci.Pos()), ex)
					continue
				}
			}
			r.Check(ok, "R07f", name, "IsNil", c.Pos(ci.Pos()), why, "reflect.Value.IsNil is called on a value whose kind is not restricted to the nil-able kinds: "+why+" — it panics for numbers, structs, complex values and uintptr")
		}
	}
}

func isNilException(fn string) string {
	switch fn {
	case "ucfg.reifyMap":
		return "reifyMap is only called for targets whose (pointer-chased) type kind is Map — reifyInto and reifyMergeValue dispatch on Kind() == reflect.Map, reifyValue passes a fresh reflect.MakeMap; the kind test is in the callers."
	case "ucfg.reifySliceMerge":
		return "old is either the zero reflect.Value (IsValid() is tested first in the same short circuit) or a value whose kind the caller reifyMergeValue has dispatched as reflect.Slice"
	}
	return ""
}

// kindAllowsIsNil: the receiver's kind is tested (== one of the nil-able kinds, possibly in a short
// circuit immediately before the call) on the same value.
func kindAllowsIsNil(recv ssa.Value, at ssa.Instruction, nilable map[int64]bool) (bool, string) {
	sameRecv := func(v ssa.Value) bool {
		if v == recv {
			return true
		}
		a, b := Sources(v), Sources(recv)
		return len(a) == 1 && len(b) == 1 && a[0] == b[0]
	}
	// kindTest: v is `x.Kind() == K` or `x.Kind() != K`; returns x, K and whether it is the equality form
	kindTest := func(v ssa.Value) (ssa.Value, int64, bool, bool) {
		b, ok := v.(*ssa.BinOp)
		if !ok || (b.Op != token.EQL && b.Op != token.NEQ) {
			return nil, 0, false, false
		}
		call, ok := b.X.(*ssa.Call)
		k, isK := ConstInt(b.Y)
		if !ok || !isK || calledName(call) != "Kind" {
			return nil, 0, false, false
		}
		eq := b.Op == token.EQL
		if call.Call.IsInvoke() {
			// t.Kind() with t = v.Type(): the kind of the value itself
			if tc, ok := call.Call.Value.(*ssa.Call); ok && calledName(tc) == "Type" && !tc.Call.IsInvoke() && len(tc.Call.Args) == 1 {
				return tc.Call.Args[0], k, eq, true
			}
			return call.Call.Value, k, eq, true
		}
		return call.Call.Args[0], k, eq, true
	}
	// holds: (cond == truth) implies that the receiver's kind is one of the allowed kinds
	holds := func(cond ssa.Value, truth bool) bool {
		rv, k, eq, ok := kindTest(cond)
		return ok && eq == truth && nilable[k] && sameRecv(rv)
	}
	// the call's block must be reachable only through edges on which some kind test on the same
	// receiver established an allowed kind: check all predecessor chains (short circuits build several)
	blk := at.Block()
	var check func(b *ssa.BasicBlock, seen map[*ssa.BasicBlock]bool) bool
	check = func(b *ssa.BasicBlock, seen map[*ssa.BasicBlock]bool) bool {
		if seen[b] {
			return true
		}
		seen[b] = true
		if len(b.Preds) == 0 {
			return false
		}
		for _, p := range b.Preds {
			ifi, ok := lastInstr(p).(*ssa.If)
			if ok && p.Succs[0] != p.Succs[1] {
				truth := p.Succs[0] == b
				if holds(ifi.Cond, truth) {
					continue
				}
				// `ok := a || b` / `a && b`: the branch condition is a boolean phi — an incoming edge can
				// take this branch only if its value equals `truth`; it must then carry an allowed kind
				if phi, isPhi := ifi.Cond.(*ssa.Phi); isPhi && phi.Block() == p {
					all := true
					for i, e := range phi.Edges {
						if cv, isC := ConstBool(e); isC {
							if cv != truth {
								continue // this edge takes the other branch
							}
							q := p.Preds[i]
							if qi, isIf := lastInstr(q).(*ssa.If); isIf && q.Succs[0] != q.Succs[1] && holds(qi.Cond, q.Succs[0] == p) {
								continue
							}
							if !check(q, seen) {
								all = false
							}
							continue
						}
						if holds(e, truth) {
							continue
						}
						all = false
					}
					if all {
						continue
					}
				}
			}
			// otherwise the predecessor itself must be guarded (and must not redefine the receiver)
			if !check(p, seen) {
				return false
			}
		}
		return true
	}
	if check(blk, map[*ssa.BasicBlock]bool{}) {
		return true, "every path to the call passes a Kind() == nil-able test on the same value"
	}
	// the receiver's static provenance fixes a nil-able kind: reflect.ValueOf of a pointer/map/slice/interface-typed value
	for _, s := range Sources(recv) {
		if call, ok := s.(*ssa.Call); ok && calledName(call) == "ValueOf" && len(call.Call.Args) == 1 {
			switch call.Call.Args[0].Type().Underlying().(type) {
			case *types.Pointer, *types.Map, *types.Slice, *types.Chan, *types.Signature:
				return true, "receiver is reflect.ValueOf of a value of nil-able static type"
			}
		}
	}
	return false, "no Kind() test on the same value guards the call"
}

var _ = sort.Strings

// valueErrorPairRule (R07n): the evaluators of dynamic values hand out a value or an error, never neither.
// cfgDynamic.withValue (and every other consumer) calls methods on the value whenever the error is nil; a
// (nil, nil) answer — an empty resolver result taken for "not found", say — is a nil-interface call far away
// from its cause. Checked for the implementations of dynValue.getValue, cfgDynamic.getValue (and the function
// literal it hands to the cache), parseValue and valueCache.cachedValue: on every return the value is known
// non-nil, or the error is known non-nil, or both results are those of one call of a member of this set, or the
// return stands under `v != nil || pred(err)` with pred true only for a non-nil argument.
func valueErrorPairRule(c *Ctx, r *Report) {
	r.Rule("R07n", "the evaluators of dynamic values (getValue implementations, parseValue, the per-call cache) never return a nil value together with a nil error", 5)
	set := map[*ssa.Function]bool{}
	add := func(f *ssa.Function) {
		if f != nil && f.Blocks != nil {
			set[f] = true
		}
	}
	if it, ok := c.Named("", "dynValue").Underlying().(*types.Interface); ok {
		for _, t := range c.Implementations("", it) {
			add(c.MethodImpl(t, "getValue"))
		}
	}
	dynGet := c.Method("", "cfgDynamic", "getValue")
	add(dynGet)
	for _, a := range dynGet.AnonFuncs {
		add(a)
	}
	add(c.Func("", "parseValue"))
	cached := c.Method("", "valueCache", "cachedValue")
	add(cached)
	inSet := func(call *ssa.Call) bool {
		if call == nil {
			return false
		}
		if call.Call.IsInvoke() {
			return call.Call.Method.Name() == "getValue"
		}
		for _, g := range c.Callees(call) {
			if !set[g] {
				return false
			}
		}
		if len(c.Callees(call)) == 0 {
			// the function parameter of cachedValue: its arguments are checked where they are made (AnonFuncs above)
			if p, ok := call.Call.Value.(*ssa.Parameter); ok && p.Parent() == cached {
				return true
			}
			return false
		}
		return true
	}
	// pred(x) is true only for x != nil
	nonNilPred := func(g *ssa.Function) bool {
		if g == nil || g.Blocks == nil || len(g.Params) != 1 {
			return false
		}
		for _, ret := range Returns(g) {
			if b, ok := ConstBool(RetVal(ret, 0)); ok && !b {
				continue
			}
			if nilness(g.Params[0], ret.Block(), 0) != 1 {
				return false
			}
		}
		return true
	}
	var pairOK func(v, e ssa.Value, at *ssa.BasicBlock, extra []Cond, d int) (bool, string)
	pairOK = func(v, e ssa.Value, at *ssa.BasicBlock, extra []Cond, d int) (bool, string) {
		if d > 6 {
			return false, "too deep"
		}
		if nilness(e, at, 0, extra...) == 1 {
			return true, "the error is not nil"
		}
		if nilness(v, at, 0, extra...) == 1 {
			return true, "the value is not nil"
		}
		// both results of one call of a member
		if ev, ok := v.(*ssa.Extract); ok {
			if ee, ok := e.(*ssa.Extract); ok && ee.Tuple == ev.Tuple {
				if call, ok := ev.Tuple.(*ssa.Call); ok && inSet(call) {
					return true, "both results of one evaluator call"
				}
			}
		}
		// merged pairs: φ(v1, v2), φ(e1, e2) of one block — pair by pair
		if pv, ok := v.(*ssa.Phi); ok {
			if pe, ok := e.(*ssa.Phi); ok && pe.Block() == pv.Block() {
				for i := range pv.Edges {
					var ec []Cond
					q := pv.Block().Preds[i]
					if ifi, ok := lastInstr(q).(*ssa.If); ok && q.Succs[0] != q.Succs[1] {
						ec = append(ec, Cond{ifi.Cond, q.Succs[0] == pv.Block(), ifi})
					}
					if pv.Edges[i] == ssa.Value(pv) && pe.Edges[i] == ssa.Value(pe) {
						continue
					}
					if ok, why := pairOK(pv.Edges[i], pe.Edges[i], q, ec, d+1); !ok {
						return false, "on the way in from block " + itoa(int64(q.Index)) + ": " + why
					}
				}
				return true, "every merged pair is a value or an error"
			}
		}
		// under `v != nil || pred(e)`
		for _, cd := range append(DomConds(at), extra...) {
			phi, ok := cd.V.(*ssa.Phi)
			if !ok || !cd.Truth {
				continue
			}
			all := true
			for i, ev := range phi.Edges {
				q := phi.Block().Preds[i]
				if b, isC := ConstBool(ev); isC {
					if !b {
						continue // this way in makes the condition false: not taken
					}
					var ec []Cond
					if ifi, ok := lastInstr(q).(*ssa.If); ok && q.Succs[0] != q.Succs[1] {
						ec = append(ec, Cond{ifi.Cond, q.Succs[0] == phi.Block(), ifi})
					}
					if nilness(v, q, 0, ec...) != 1 && nilness(e, q, 0, ec...) != 1 {
						all = false
					}
					continue
				}
				if call, ok := ev.(*ssa.Call); ok && len(call.Call.Args) == 1 && call.Call.Args[0] == e && nonNilPred(call.Call.StaticCallee()) {
					continue
				}
				all = false
			}
			if all {
				return true, "under a test that holds only for a non-nil value or a non-nil error"
			}
		}
		// a return reached from several tests (`if v != nil || pred(err) { return v, err }`): way by way
		if len(at.Preds) > 1 && d == 0 {
			all := true
			for _, q := range at.Preds {
				ifi, ok := lastInstr(q).(*ssa.If)
				if !ok || q.Succs[0] == q.Succs[1] {
					all = false
					break
				}
				ec := []Cond{{ifi.Cond, q.Succs[0] == at, ifi}}
				if nilness(v, q, 0, ec...) == 1 || nilness(e, q, 0, ec...) == 1 {
					continue
				}
				if call, ok := ifi.Cond.(*ssa.Call); ok && q.Succs[0] == at && len(call.Call.Args) == 1 && (call.Call.Args[0] == e || SameValue(call.Call.Args[0], e)) && nonNilPred(call.Call.StaticCallee()) {
					continue
				}
				all = false
			}
			if all {
				return true, "every test that leads here holds only for a non-nil value or a non-nil error"
			}
		}
		return false, "neither the value nor the error is known to be non-nil here"
	}
	var fns []*ssa.Function
	for f := range set {
		fns = append(fns, f)
	}
	sort.Slice(fns, func(i, j int) bool { return c.FnName(fns[i]) < c.FnName(fns[j]) })
	for _, fn := range fns {
		name := c.FnName(fn)
		for _, ret := range Returns(fn) {
			if len(ret.Results) != 2 {
				continue
			}
			ok, why := pairOK(RetVal(ret, 0), RetVal(ret, 1), ret.Block(), nil, 0)
			if !ok && fn == cached {
				// the cached pair: what the cache holds was stored by this very function under `v != nil && v.canCache()` (R08e
				// decides that guard exactly), so a cached entry without error has a value
				if l, isL := RetVal(ret, 0).(*ssa.UnOp); isL && l.Op == token.MUL {
					if _, f, isF := FieldOf(l.X); isF && f == "value" {
						r.Except("R07n", name, "value or error", c.Pos(ret.Pos()), "a cache hit without error returns the cached value, and entries are stored only for a non-nil value (the guard decided by R08e)")
						continue
					}
				}
			}
			r.Check(ok, "R07n", name, "value or error", c.Pos(ret.Pos()), why, "this evaluator can return a nil value together with a nil error ("+why+"): cfgDynamic.withValue and the other consumers call methods on the value whenever the error is nil — a nil pointer dereference for a resolver that answers with an empty string, say")
		}
	}
}
