package main

// C11 — reads are pure, so concurrent readers are safe.
// R11a: no read entry point modifies anything reachable from its receiver (E1 mod summaries);
// R11b: no non-atomic write to package-level state is reachable from a read entry point;
// R11c: nothing is stored on dynamic values / expression trees after construction (shared with C02).

import (
	"fmt"
	"go/token"
	"go/types"
	"sort"
	"strings"

	"golang.org/x/tools/go/ssa"
)

func init() {
	register("C11", "Interprocedural mod/derivation analysis (E1: roots = parameters shallow/deep, allocation sites, globals; summaries to fixpoint over all repository functions, interface calls joined over VTA callees, closures specialised per call site, reflect and library calls by table): for every read entry point (Unpack, UnpackWithoutOptions, the six getters, Has, HasField, CountField, GetFields, IsDict, IsArray, Path, PathOf, Parent, FlattenedKeys; Merge/NewFrom w.r.t. the source) the receiver's reachable state is not in the mod set, nothing receiver-derived is stored into package-level state, no non-atomic package-level write is reachable, and no store targets an expression/dynamic-value object outside its constructor. Purity of every code path implies data-race freedom of concurrent readers for all interleavings; that each reader computes the same result as alone is not decided beyond purity.", checkC11)
}

var readEntryPoints = []string{"Unpack", "UnpackWithoutOptions", "Bool", "Int", "Uint", "Float", "String", "Child", "Has", "HasField",
	"CountField", "GetFields", "IsDict", "IsArray", "Path", "PathOf", "Parent", "FlattenedKeys"}

func checkC11(c *Ctx, r *Report) {
	e := c.E1()
	e1Assumptions(r, e)
	r.Rule("R11a", "the receiver of a read entry point (and the source of Merge/NewFrom) is in no mod set: no store, map update, element store, copy/delete or reflect setter through a pointer derived from it, in the entry point or anything it calls", 66)
	r.Rule("R11b", "no read entry point reaches a non-atomic write to a package-level variable or map, and nothing derived from the receiver is stored into package-level state", 18)
	type ep struct {
		fn   *ssa.Function
		idx  int
		role string
	}
	var eps []ep
	for _, n := range readEntryPoints {
		eps = append(eps, ep{c.Method("", "Config", n), 0, "receiver"})
	}
	eps = append(eps, ep{c.Method("", "Config", "Merge"), 1, "source"})
	eps = append(eps, ep{c.Func("", "NewFrom"), 0, "source"})
	eps = append(eps, ep{c.Func("", "MustNewFrom"), 0, "source"})
	eps = append(eps, ep{c.Func("diff", "CompareConfigs"), 0, "old config"})
	eps = append(eps, ep{c.Func("diff", "CompareConfigs"), 1, "new config"})
	for _, p := range eps {
		s := e.Summary(p.fn)
		if s == nil {
			r.add("R11a", c.FnName(p.fn), p.role, c.Pos(p.fn.Pos()), Undecided, true, "entry point not analysed")
			continue
		}
		r.Analysed["entry points"]++
		for _, sl := range paramSlots(p.idx) {
			what := p.role + " object"
			switch sl % nLv {
			case 1:
				what = "state one load below the " + p.role
			case nLv - 1:
				what = "state reachable from the " + p.role
			}
			if m := s.mods[sl]; m != nil {
				r.Bad("R11a", c.FnName(p.fn), "no mod of "+what, c.Pos(p.fn.Pos()), "a read operation writes "+what+": "+e.Chain(m))
			} else {
				r.OK("R11a", c.FnName(p.fn), "no mod of "+what, c.Pos(p.fn.Pos()), "not in the mod set of the entry point's summary")
			}
		}
		leak := ""
		for _, sl := range paramSlots(p.idx) {
			if s.flows[sl][-1] {
				leak = e.Chain(s.flowWhy[[2]int{sl, -1}])
			}
		}
		if p.role != "receiver" {
			continue
		}
		switch {
		case s.gmod != nil:
			r.Bad("R11b", c.FnName(p.fn), "package-level state", c.Pos(p.fn.Pos()), "a read operation writes package-level state non-atomically: "+e.Chain(s.gmod))
		case leak != "":
			r.Bad("R11b", c.FnName(p.fn), "package-level state", c.Pos(p.fn.Pos()), "a read operation stores receiver-derived state into a package-level variable: "+leak)
		default:
			r.OK("R11b", c.FnName(p.fn), "package-level state", c.Pos(p.fn.Pos()), "no package-level write reachable (atomic counter updates excepted)")
		}
	}
	r.Rule("R11c", "no store into an expression / dynamic-value / path / metadata object outside the function that constructs it (these objects are shared between a source and its copies and between concurrent readers)", 10)
	immutableStoresRule(c, r, "R11c")
	capturedConfigRule(c, r)
	oneHeaderRule(c, r, "R11f")
	globalStateRule(c, r)
}

// oneHeaderRule (R11f): a node's content (its `fields` object) belongs to exactly one Config header. The identity
// test R11d relies on, the ownership analysis (whose roots are headers) and Parent()/Path() all identify a node
// by its header: a second header over the same fields — a "view" handed out by a reader — is a different node
// for every one of them, and a write through it lands in the node it was made from.
func oneHeaderRule(c *Ctx, r *Report, rule string) {
	r.Rule(rule, "a Config header only ever receives a `fields` object allocated in the same function (New, cpy): no second header is made over the content of an existing node", 2)
	cfgT := c.Named("", "Config")
	for _, fn := range c.SrcFuncs() {
		if fn.Pkg != c.SSA[""] {
			continue
		}
		Instrs(fn, true, func(in ssa.Instruction) {
			st, ok := in.(*ssa.Store)
			if !ok {
				return
			}
			// a whole header copied from an existing one (`tmp := *cfg`) shares the content just the same
			if types.Identical(st.Val.Type(), cfgT) {
				for _, s := range Sources(st.Val) {
					if l, isL := s.(*ssa.UnOp); isL && l.Op == token.MUL {
						if _, local := l.X.(*ssa.Alloc); !local {
							r.Bad(rule, c.FnName(fn), "header copied", c.Pos(st.Pos()), "a Config header is copied by value from an existing node: the copy shares the node's content (fields) but is a different node for identity tests, Parent() and the ownership of writes")
						}
					}
				}
				return
			}
			nt, f, ok := FieldOf(st.Addr)
			if !ok || nt != cfgT || f != "fields" {
				return
			}
			fresh := true
			why := ""
			for _, s := range Sources(st.Val) {
				if a, isA := s.(*ssa.Alloc); isA && a.Heap {
					continue
				}
				fresh = false
				why = s.String()
			}
			r.Check(fresh, rule, c.FnName(fn), "content of a new header", c.Pos(st.Pos()), "the fields object is allocated here",
				"a Config header is given the fields object of another node ("+why+"): two headers now denote one node — the identity test that keeps a second Unpack from merging a captured child into itself fails, and writes through the new header change the node it was made from")
		})
	}
}

// globalStateRule (R11e): the library keeps no process-wide mutable state besides its atomic
// sequence counter. A package-level variable whose address is handed to code outside the repository
// (sync.Map.Store, a mutex, append through a pointer ...) is shared by all configs, all option sets
// and all goroutines: a memo keyed too coarsely makes one call's result depend on an earlier call.
func globalStateRule(c *Ctx, r *Report) {
	r.Rule("R11e", "no package-level variable is handed by address to code outside the repository, except to sync/atomic (process-wide mutable state: caches, memos, registries)", 1)
	globalStateRuleAs(c, r, "R11e")
}

func globalStateRuleAs(c *Ctx, r *Report, rule string) {
	n := 0
	for _, fn := range c.SrcFuncs() {
		if !c.InRepo(fn) || strings.HasSuffix(fn.Name(), "init") && fn.Parent() == nil && strings.HasPrefix(fn.Name(), "init") {
			continue
		}
		for _, ci := range CallsIn(fn, false) {
			g := ci.Common().StaticCallee()
			if g == nil || c.InRepo(g) || BuiltinName(ci) != "" {
				continue
			}
			for _, a := range ci.Common().Args {
				gl, ok := a.(*ssa.Global)
				if !ok || gl.Pkg == nil || !strings.HasPrefix(gl.Pkg.Pkg.Path(), modPath) {
					continue
				}
				n++
				atomicOK := g.Pkg != nil && g.Pkg.Pkg.Path() == "sync/atomic"
				r.Check(atomicOK, rule, c.FnName(fn), "global "+gl.Name()+" passed to "+g.String(), c.Pos(ci.Pos()), "atomic counter update",
					"the package-level variable "+gl.Name()+" is handed to "+g.String()+": process-wide mutable state shared by every config, option set and goroutine (a memo or cache there makes a call depend on earlier calls with other options)")
			}
		}
	}
	if n == 0 {
		r.Trivial(rule, "ucfg", "package-level state", "-", "no package-level variable is passed by address to library code")
	}
}

// capturedConfigRule (R11d): a *Config found in the unpack target may be the very child of the
// config being read (captured by an earlier Unpack into the same target; E1's reflect sink cut does
// not see that alias). Merging the source's sub-config into it is a write into the shared config
// unless the two are known to differ: the merge must be dominated by an identity test.
func capturedConfigRule(c *Ctx, r *Report) {
	r.Rule("R11d", "while unpacking, a config found in the target is merged with the source or a sub-config of it only under an identity test that excludes old == source (a target filled by an earlier Unpack holds the source's own child)", 2)
	mergeFns := map[*ssa.Function]bool{}
	for _, n := range []string{"mergeConfig", "mergeFieldConfig"} {
		if f := c.TryFunc("", n); f != nil {
			mergeFns[f] = true
		}
	}
	for _, fn := range c.SrcFuncs() {
		if fn.Pkg != c.SSA[""] || !strings.HasPrefix(fn.Name(), "reify") {
			continue
		}
		for _, ci := range CallsIn(fn, false) {
			g := ci.Common().StaticCallee()
			if g == nil || !mergeFns[g] {
				continue
			}
			args := ci.Common().Args
			to, from := args[len(args)-2], args[len(args)-1]
			// `from` produced by a toConfig call in this function, `to` read out of the target by reflection
			fromSub, toReflect := false, false
			for _, s := range append(Sources(from), from) {
				if ex, ok := s.(*ssa.Extract); ok {
					if call, ok := ex.Tuple.(*ssa.Call); ok && call.Call.IsInvoke() && call.Call.Method.Name() == "toConfig" {
						fromSub = true
					}
				}
			}
			for _, s := range append(Sources(to), to) {
				if ta, ok := s.(*ssa.TypeAssert); ok {
					s = ta.X
				}
				if call, ok := s.(*ssa.Call); ok {
					if f := call.Call.StaticCallee(); f != nil && f.String() == "(reflect.Value).Interface" {
						toReflect = true
					}
				}
			}
			// ... or `from` is the configuration this function was asked to read (reifyInto's own parameter):
			// the caller, or an earlier Unpack through an inline *Config field, can have put it into the target
			if p, isP := from.(*ssa.Parameter); isP && typeStr(p.Type()) == "*ucfg.Config" {
				fromSub = true
			}
			if !fromSub || !toReflect {
				continue
			}
			guarded := false
			for _, cd := range DomConds(ci.(ssa.Instruction).Block()) {
				bo, ok := cd.V.(*ssa.BinOp)
				if !ok || (bo.Op != token.EQL && bo.Op != token.NEQ) {
					continue
				}
				same := (sameSrc(bo.X, to) && sameSrc(bo.Y, from)) || (sameSrc(bo.X, from) && sameSrc(bo.Y, to))
				if same && (bo.Op == token.EQL) != cd.Truth {
					guarded = true
				}
			}
			r.Analysed["merges into configs found in the target"]++
			r.Check(guarded, "R11d", c.FnName(fn), "merge into captured config", c.Pos(ci.Pos()), "dominated by old != source",
				"a config found in the unpack target is merged with the source's sub-config without excluding that they are the same object: a second Unpack into a target that captured the child rewrites the shared config (lists grow under append, references are replaced by copies) while other readers use it")
		}
	}
}

func sameSrc(a, b ssa.Value) bool {
	if a == b {
		return true
	}
	sa, sb := Sources(a), Sources(b)
	return len(sa) == 1 && len(sb) == 1 && sa[0] == sb[0]
}

func e1Assumptions(r *Report, e *E1) {
	r.Assumption("user callbacks (Unpacker.Unpack, Validator.Validate, Initializer.InitDefaults, resolver functions, flag.FileLoader) read their arguments and do not mutate configs")
	r.Assumption("E1 merges the objects reachable from one parameter into three blobs by depth (the object itself, one load below, everything deeper); parameters are assumed not to alias each other at entry")
	r.Assumption("reflect sink cut: what is stored into reflect-addressed storage (the caller's unpack target) is not tracked through that storage; captured *Config pointers in a target are the caller's responsibility")
	r.Assumption("valueCache.cachedValue(id, f) is modelled as 'returns what f returns' (per-call cache, primitives only — see C08 R08e)")
	var ks []string
	for k := range e.Modelled {
		ks = append(ks, k)
	}
	sort.Strings(ks)
	for _, k := range ks {
		r.Assumption("modelled: " + e.Modelled[k])
	}
	var ext []string
	for k := range e.External {
		ext = append(ext, k)
	}
	sort.Strings(ext)
	r.Note("calls treated as external (user callbacks): %s", strings.Join(ext, ", "))
	r.Analysed["functions analysed by E1"] = len(e.all)
}

// protected: struct types whose objects are immutable after construction, and extra (type, field) pairs.
var protectedTypes = []string{"reference", "splice", "expansion", "expansionSingle", "expansionDefault", "expansionAlt", "expansionErr",
	"cfgPath", "namedField", "idxField", "Meta", "baseError", "criticalError", "refDynValue", "spliceDynValue", "validatorTag"}
var protectedFields = map[string]bool{"cfgDynamic.dyn": true, "cfgDynamic.id": true}

// immutableStoresRule: every store into a protected object addresses an allocation of the same
// function (i.e. happens while constructing it).
func immutableStoresRule(c *Ctx, r *Report, rule string) {
	prot := map[*types.Named]bool{}
	for _, n := range protectedTypes {
		if t := c.TryNamed("", n); t != nil {
			prot[t] = true
		}
	}
	if len(prot) < 8 {
		undecidedf("ANCHOR-MISSING: expression/value types for rule %s (%d found)", rule, len(prot))
	}
	n := 0
	for _, fn := range c.SrcFuncs() {
		if fn.Pkg != c.SSA[""] && (fn.Parent() == nil || !c.InRepo(fn)) {
			continue
		}
		Instrs(fn, false, func(in ssa.Instruction) {
			st, ok := in.(*ssa.Store)
			if !ok {
				return
			}
			// walk the address chain: FieldAddr / IndexAddr(on array) up to its base
			hit := ""
			addr := st.Addr
			var base ssa.Value = addr
			for {
				switch x := base.(type) {
				case *ssa.FieldAddr:
					if nt, f, ok := FieldOf(x); ok {
						if prot[nt] {
							hit = nt.Obj().Name() + "." + f
						}
						if protectedFields[nt.Obj().Name()+"."+f] {
							hit = nt.Obj().Name() + "." + f
						}
					}
					base = x.X
					continue
				case *ssa.IndexAddr:
					if _, isArr := derefType(x.X.Type()).Underlying().(*types.Array); isArr {
						base = x.X
						continue
					}
				}
				break
			}
			// whole-object store *p = v with p of protected pointer type
			if hit == "" {
				var nt *types.Named
				if pt, ok := addr.Type().Underlying().(*types.Pointer); ok {
					nt, _ = types.Unalias(pt.Elem()).(*types.Named)
				}
				if nt != nil && prot[nt] {
					if _, isAlloc := addr.(*ssa.Alloc); !isAlloc {
						hit = nt.Obj().Name() + " (whole object)"
					} else {
						return
					}
				}
			}
			if hit == "" {
				return
			}
			n++
			_, isAlloc := base.(*ssa.Alloc)
			if !isAlloc && localRoot(base) != nil {
				isAlloc = true // a local variable captured by a closure
			}
			if ia, ok := base.(*ssa.IndexAddr); ok && !isAlloc {
				// an element of a slice made in this function (tags := make([]T, n); tags[i] = T{…})
				made := true
				for _, s := range append(Sources(ia.X), ia.X) {
					if _, isMk := s.(*ssa.MakeSlice); !isMk {
						if k, isK := s.(*ssa.Const); !isK || !k.IsNil() {
							made = false
						}
					}
				}
				if made {
					isAlloc = true
				}
			}
			r.Check(isAlloc, rule, c.FnName(fn), "store "+hit, c.Pos(st.Pos()), "store into an object this function is constructing", fmt.Sprintf("store into %s through a pointer that is not a local construction (%s): an object shared by copies and concurrent readers is modified after it was built", hit, base.String()))
		})
	}
	if n == 0 {
		r.Bad(rule, "ucfg", "stores into protected types", "-", "no construction site of expression/value objects found")
	}
}
