package main

// Edge-sensitive control flow ("jump threading" without changing the program). After a helper with
// several returns has been inlined, its results meet in φ-nodes that are tested right away:
//
//	end:  err = φ(e1 from B1, nil from B2);  if err != nil { return err }
//
// A block-level walk sees a path B2 → end → return and a path B1 → end → continue although neither can
// happen. EdgeOutcome decides the branch at the end of a block for one particular way into the block,
// when the condition is a nil test (or a boolean) of a φ of that block and the incoming value is known
// to be nil / non-nil (true / false): constants, freshly built values, results of functions that never
// return nil (NonNilResult, a small interprocedural summary), and values under a dominating test.
// reachableAvoiding and the rules that enumerate paths use LiveSuccs instead of Succs.

import (
	"go/token"
	"go/types"
	"sync"

	"golang.org/x/tools/go/ssa"
)

// memo tables (self-test overlays are analysed concurrently; each has its own functions and blocks, the lock only protects the maps)
var threadMu sync.Mutex
var nonNilMemo = map[nnKey]int{} // (fn, result index) -> +1 never nil, 0 unknown (-2 in progress)

type nnKey struct {
	fn  *ssa.Function
	idx int
}

// NonNilResult: result #idx of fn (with a body) is never nil.
func NonNilResult(fn *ssa.Function, idx int) bool {
	if fn == nil || fn.Blocks == nil {
		return false
	}
	k := nnKey{fn, idx}
	threadMu.Lock()
	v, seen := nonNilMemo[k]
	if !seen {
		nonNilMemo[k] = -2
	}
	threadMu.Unlock()
	if seen {
		return v == 1 // in progress (-2) counts as unknown: recursion gives no proof
	}
	ok := true
	n := 0
	for _, b := range fn.Blocks {
		ret, isRet := lastInstr(b).(*ssa.Return)
		if !isRet {
			continue
		}
		n++
		if idx >= len(ret.Results) || nilness(RetVal(ret, idx), b, 0) != 1 {
			ok = false
			break
		}
	}
	if n == 0 {
		ok = false
	}
	threadMu.Lock()
	if ok {
		nonNilMemo[k] = 1
	} else {
		nonNilMemo[k] = 0
	}
	threadMu.Unlock()
	return ok
}

var globalNonNilMemo = map[*ssa.Global]bool{}

// globalNonNil: every store to the package-level variable g is in its package's initialiser and stores the
// result of errors.New / fmt.Errorf (or a freshly boxed value); nothing takes its address otherwise.
func globalNonNil(g *ssa.Global) bool {
	threadMu.Lock()
	v, done := globalNonNilMemo[g]
	threadMu.Unlock()
	if done {
		return v
	}
	ok, stores := true, 0
	if g.Pkg == nil {
		ok = false
	} else {
		var fns []*ssa.Function
		for _, m := range g.Pkg.Members {
			switch x := m.(type) {
			case *ssa.Function:
				fns = append(fns, WithAnon(x)...)
			case *ssa.Type:
				for _, t := range []types.Type{x.Type(), types.NewPointer(x.Type())} {
					ms := g.Pkg.Prog.MethodSets.MethodSet(t)
					for i := 0; i < ms.Len(); i++ {
						if f := g.Pkg.Prog.MethodValue(ms.At(i)); f != nil && f.Pkg == g.Pkg {
							fns = append(fns, WithAnon(f)...)
						}
					}
				}
			}
		}
		for _, fn := range fns {
			for _, b := range fn.Blocks {
				for _, in := range b.Instrs {
					for _, op := range in.Operands(nil) {
						if *op != ssa.Value(g) {
							continue
						}
						switch y := in.(type) {
						case *ssa.UnOp:
							// a load
						case *ssa.Store:
							if y.Addr != ssa.Value(g) || fn.Name() != "init" || fn.Synthetic == "" {
								ok = false
								continue
							}
							stores++
							good := false
							switch val := y.Val.(type) {
							case *ssa.Call:
								if f := val.Call.StaticCallee(); f != nil && (f.String() == "errors.New" || f.String() == "fmt.Errorf") {
									good = true
								}
							case *ssa.MakeInterface:
								good = true
							}
							if !good {
								ok = false
							}
						default:
							ok = false // address taken
						}
					}
				}
			}
		}
	}
	ok = ok && stores > 0
	threadMu.Lock()
	globalNonNilMemo[g] = ok
	threadMu.Unlock()
	return ok
}

// nilness of v when control is in block `at` (conditions dominating `at` hold): +1 non-nil, -1 nil, 0 unknown.
func nilness(v ssa.Value, at *ssa.BasicBlock, depth int, extra ...Cond) int {
	if depth > 6 {
		return 0
	}
	switch x := v.(type) {
	case *ssa.Const:
		if x.IsNil() {
			return -1
		}
		return 0
	case *ssa.MakeInterface, *ssa.Alloc, *ssa.MakeMap, *ssa.MakeSlice, *ssa.MakeChan, *ssa.MakeClosure, *ssa.FieldAddr, *ssa.IndexAddr, *ssa.Function, *ssa.Global:
		return 1
	case *ssa.UnOp:
		// a package-level error value: set once, in the package initialiser, from a constructor
		if g, ok := x.X.(*ssa.Global); ok && x.Op == token.MUL && globalNonNil(g) {
			return 1
		}
	case *ssa.ChangeInterface:
		if n := nilness(x.X, at, depth+1, extra...); n != 0 {
			return n
		}
	case *ssa.ChangeType:
		if n := nilness(x.X, at, depth+1, extra...); n != 0 {
			return n
		}
	case *ssa.Call:
		if f := x.Call.StaticCallee(); f != nil && f.Signature.Results().Len() == 1 && NonNilResult(f, 0) {
			return 1
		}
	case *ssa.Extract:
		if c, ok := x.Tuple.(*ssa.Call); ok {
			if f := c.Call.StaticCallee(); f != nil && NonNilResult(f, x.Index) {
				return 1
			}
		}
	case *ssa.Phi:
		res := 2
		for i, e := range x.Edges {
			var n int
			if e == ssa.Value(x) {
				continue
			}
			if i < len(x.Block().Preds) {
				n = nilness(e, x.Block().Preds[i], depth+1)
			}
			if res == 2 {
				res = n
			} else if res != n {
				return 0
			}
		}
		if res != 2 && res != 0 {
			return res
		}
	}
	if at != nil {
		for _, cd := range append(append([]Cond{}, extra...), DomConds(at)...) {
			if tv, neq, ok := nilTest(cd.V); ok && (tv == v || SameValue(tv, v)) {
				// cond is (v != nil) when neq, (v == nil) otherwise
				if cd.Truth == neq {
					return 1
				}
				return -1
			}
			// `x, ok := v.(T)` with ok true: a nil interface holds no type
			if ex, isEx := cd.V.(*ssa.Extract); isEx && ex.Index == 1 && cd.Truth {
				if ta, isTA := ex.Tuple.(*ssa.TypeAssert); isTA && ta.CommaOk && (ta.X == v || SameValue(ta.X, v)) {
					return 1
				}
			}
		}
	}
	return 0
}

// nilTest recognises `x != nil` (neq) and `x == nil`, looking through negations.
func nilTest(c ssa.Value) (x ssa.Value, neq bool, ok bool) {
	flip := false
	for {
		u, isU := c.(*ssa.UnOp)
		if !isU || u.Op != token.NOT {
			break
		}
		flip = !flip
		c = u.X
	}
	b, isB := c.(*ssa.BinOp)
	if !isB || (b.Op != token.EQL && b.Op != token.NEQ) {
		return nil, false, false
	}
	var other ssa.Value
	if k, isK := b.Y.(*ssa.Const); isK && k.IsNil() {
		other = b.X
	} else if k, isK := b.X.(*ssa.Const); isK && k.IsNil() {
		other = b.Y
	} else {
		return nil, false, false
	}
	neq = b.Op == token.NEQ
	if flip {
		neq = !neq
	}
	return other, neq, true
}

// boolness of v in block at: +1 true, -1 false, 0 unknown.
func boolness(v ssa.Value, at *ssa.BasicBlock, depth int, extra ...Cond) int {
	if depth > 6 {
		return 0
	}
	switch x := v.(type) {
	case *ssa.Const:
		if b, ok := x.Type().Underlying().(*types.Basic); ok && b.Info()&types.IsBoolean != 0 && x.Value != nil {
			if x.Value.String() == "true" {
				return 1
			}
			return -1
		}
	case *ssa.UnOp:
		if x.Op == token.NOT {
			return -boolness(x.X, at, depth+1, extra...)
		}
	}
	if tv, neq, ok := nilTest(v); ok {
		n := nilness(tv, at, depth+1, extra...)
		if n == 0 {
			return 0
		}
		if (n == 1) == neq {
			return 1
		}
		return -1
	}
	if at != nil {
		for _, cd := range append(append([]Cond{}, extra...), DomConds(at)...) {
			if cd.V == v {
				if cd.Truth {
					return 1
				}
				return -1
			}
		}
	}
	return 0
}

// wstate is a position in an edge-sensitive walk: block cur was entered from prev; anchor is the last
// block with φ-nodes on the way (entered from apred), so that a test of one of its φs further down —
// `x, err := f(); if err != nil {…}; if x {…}` — can still be resolved.
// anchor2/apred2: the join before that one, for a φ whose incoming value is itself a φ of the previous join (nested
// `if`s that end in the same assignment: `if a { if b { err = E } }; if err != nil {…}`).
type wstate struct{ prev, cur, anchor, apred, anchor2, apred2 *ssa.BasicBlock }

func hasPhi(b *ssa.BasicBlock) bool {
	if len(b.Instrs) == 0 {
		return false
	}
	_, ok := b.Instrs[0].(*ssa.Phi)
	return ok
}

func enterState(from wstate, to *ssa.BasicBlock) wstate {
	st := wstate{prev: from.cur, cur: to, anchor: from.anchor, apred: from.apred, anchor2: from.anchor2, apred2: from.apred2}
	if hasPhi(to) {
		st.anchor2, st.apred2 = from.anchor, from.apred
		st.anchor, st.apred = to, from.cur
	}
	return st
}

func startState(prev, cur *ssa.BasicBlock) wstate {
	st := wstate{prev: prev, cur: cur}
	if prev != nil && hasPhi(cur) {
		st.anchor, st.apred = cur, prev
	}
	return st
}

// EdgeOutcome decides the If that ends block b for executions entering b from p: +1 only the true
// successor (Succs[0]), -1 only the false successor, 0 both. p == nil: no particular way in.
func EdgeOutcome(p, b *ssa.BasicBlock) int { return stateOutcome(startState(p, b)) }

var outcomeMemo = map[wstate]int8{}

func stateOutcome(st wstate) int {
	ifi, ok := lastInstr(st.cur).(*ssa.If)
	if !ok {
		return 0
	}
	key := st
	key.prev = nil // the outcome depends on the anchor and the way into it only
	threadMu.Lock()
	v, ok := outcomeMemo[key]
	threadMu.Unlock()
	if ok {
		return int(v)
	}
	o := condOutcome(ifi.Cond, st, 0)
	threadMu.Lock()
	outcomeMemo[key] = int8(o)
	threadMu.Unlock()
	return o
}

func condOutcome(c ssa.Value, st wstate, depth int) int {
	if depth > 4 {
		return 0
	}
	if u, ok := c.(*ssa.UnOp); ok && u.Op == token.NOT {
		return -condOutcome(u.X, st, depth+1)
	}
	b := st.cur
	// the condition of the edge apred -> anchor itself, when apred branches and anchor is exactly one of its targets
	var edge []Cond
	if p := st.apred; p != nil {
		if pi, ok := lastInstr(p).(*ssa.If); ok && p.Succs[0] != p.Succs[1] {
			if p.Succs[0] == st.anchor {
				edge = append(edge, Cond{pi.Cond, true, pi})
			} else if p.Succs[1] == st.anchor {
				edge = append(edge, Cond{pi.Cond, false, pi})
			}
		}
	}
	// the value tested, resolved for the way into the anchor block (and, when what comes in is a φ of the join
	// before, for the way into that one)
	edgeVal := func(phi *ssa.Phi, blk, pred *ssa.BasicBlock) ssa.Value {
		var got ssa.Value
		for i, pr := range blk.Preds {
			if pr == pred {
				if got != nil && got != phi.Edges[i] {
					return nil
				}
				got = phi.Edges[i]
			}
		}
		return got
	}
	resolve := func(v ssa.Value) (ssa.Value, *ssa.BasicBlock) {
		if phi, ok := v.(*ssa.Phi); ok && st.anchor != nil && phi.Block() == st.anchor && st.apred != nil {
			if got := edgeVal(phi, st.anchor, st.apred); got != nil {
				if phi2, ok := got.(*ssa.Phi); ok && st.anchor2 != nil && st.anchor2 != st.anchor && phi2.Block() == st.anchor2 && st.apred2 != nil {
					if got2 := edgeVal(phi2, st.anchor2, st.apred2); got2 != nil {
						if p := st.apred2; p != nil {
							if pi, ok := lastInstr(p).(*ssa.If); ok && p.Succs[0] != p.Succs[1] {
								if p.Succs[0] == st.anchor2 {
									edge = append(edge, Cond{pi.Cond, true, pi})
								} else if p.Succs[1] == st.anchor2 {
									edge = append(edge, Cond{pi.Cond, false, pi})
								}
							}
						}
						return got2, st.apred2
					}
				}
				return got, st.apred
			}
		}
		return v, b
	}
	if x, neq, ok := nilTest(c); ok {
		v, at := resolve(x)
		var n int
		if at == b {
			n = nilness(v, b, 0) // nothing learnt from the way in: the conditions that hold on entry of b
		} else {
			n = nilness(v, at, 0, edge...)
		}
		if n == 0 {
			return 0
		}
		if (n == 1) == neq {
			return 1
		}
		return -1
	}
	v, at := resolve(c)
	if at == b {
		return boolness(v, b, 0) // decided only by constants and by tests that dominate b
	}
	return boolness(v, at, 0, edge...)
}

func nextStates(st wstate) []wstate {
	var succs []*ssa.BasicBlock
	switch stateOutcome(st) {
	case 1:
		succs = st.cur.Succs[:1]
	case -1:
		succs = st.cur.Succs[1:2]
	default:
		succs = st.cur.Succs
	}
	out := make([]wstate, 0, len(succs))
	for _, s := range succs {
		out = append(out, enterState(st, s))
	}
	return out
}

// LiveSuccs: the successors of b that executions entering from p can take.
func LiveSuccs(p, b *ssa.BasicBlock) []*ssa.BasicBlock {
	switch EdgeOutcome(p, b) {
	case 1:
		return b.Succs[:1]
	case -1:
		return b.Succs[1:2]
	}
	return b.Succs
}

// reachableFromEdge: can execution that enters `from` coming from `prev` reach `to` without entering a
// block of `avoid`? Edge sensitive (see EdgeOutcome).
func reachableFromEdge(prev, from, to *ssa.BasicBlock, avoid map[*ssa.BasicBlock]bool) bool {
	if from == to {
		return true
	}
	st0 := startState(prev, from)
	seen := map[wstate]bool{st0: true}
	work := []wstate{st0}
	for len(work) > 0 {
		st := work[len(work)-1]
		work = work[:len(work)-1]
		for _, ns := range nextStates(st) {
			if avoid[ns.cur] {
				continue
			}
			if ns.cur == to {
				return true
			}
			if !seen[ns] {
				seen[ns] = true
				work = append(work, ns)
			}
		}
	}
	return false
}

// feasibleRegion: the blocks that lie on some feasible path from block a (left through any successor)
// to block b that does not re-enter a. a and b themselves are not included unless they lie strictly
// inside such a path (b on a cycle avoiding a).
func feasibleRegion(a, b *ssa.BasicBlock) map[*ssa.BasicBlock]bool {
	type edge struct{ from, to wstate }
	st0 := startState(nil, a)
	var starts []wstate
	for _, ns := range nextStates(st0) {
		if ns.cur != a {
			starts = append(starts, ns)
		}
	}
	seen := map[wstate]bool{}
	preds := map[wstate][]wstate{}
	work := append([]wstate{}, starts...)
	for _, s := range starts {
		seen[s] = true
	}
	for len(work) > 0 {
		st := work[len(work)-1]
		work = work[:len(work)-1]
		for _, ns := range nextStates(st) {
			if ns.cur == a {
				continue
			}
			preds[ns] = append(preds[ns], st)
			if !seen[ns] {
				seen[ns] = true
				work = append(work, ns)
			}
		}
	}
	// backwards from the states at b
	back := map[wstate]bool{}
	for st := range seen {
		if st.cur == b {
			back[st] = true
			work = append(work, st)
		}
	}
	for len(work) > 0 {
		st := work[len(work)-1]
		work = work[:len(work)-1]
		for _, p := range preds[st] {
			if !back[p] {
				back[p] = true
				work = append(work, p)
			}
		}
	}
	out := map[*ssa.BasicBlock]bool{}
	for st := range back {
		if st.cur != b {
			out[st.cur] = true
		}
	}
	// b itself is inside the region when a state at b has a successor chain back to b
	for st := range back {
		if st.cur == b {
			for _, p := range preds[st] {
				_ = p
			}
		}
	}
	for st := range back {
		if st.cur != b {
			continue
		}
		for _, ns := range nextStates(st) {
			if back[ns] {
				out[b] = true
			}
		}
	}
	return out
}

// phiEdgeInfeasible: executions that are in block `at` cannot have entered phi's block through its i-th
// predecessor the last time: a test that holds at `at` (it dominates `at` and is itself dominated by the
// φ-block) has the other outcome for the values the φs of that block take on this way in.
func phiEdgeInfeasible(phi *ssa.Phi, i int, at *ssa.BasicBlock) bool {
	j := phi.Block()
	if i >= len(j.Preds) || !(j == at || j.Dominates(at)) {
		return false
	}
	// a predecessor that occurs twice (both branches of one test lead here) is not resolved
	n := 0
	for _, p := range j.Preds {
		if p == j.Preds[i] {
			n++
		}
	}
	if n != 1 {
		return false
	}
	for _, cd := range DomConds(at) {
		d := cd.If.Block()
		if !(d == j || j.Dominates(d)) {
			continue
		}
		st := wstate{cur: d, anchor: j, apred: j.Preds[i]}
		o := condOutcome(cd.V, st, 0)
		if o != 0 && (o == 1) != cd.Truth {
			return true
		}
	}
	return false
}
