package main

// C14 — every failure is a typed error that names the offending setting.
// E9 error provenance: which concrete values can flow into the `error` results of the Config API.
// R14a every source is nil or a value whose type implements ucfg.Error; R14b error literals have a
// class and a non-nil reason; R14c constructors get the context and metadata of one object, and
// that object is the operand of the failing call; R14d metadata reaches values (shared with C18).

import (
	"fmt"
	"go/token"
	"go/types"
	"sort"
	"strings"

	"golang.org/x/tools/go/ssa"
)

func init() {
	register("C14", "Error-provenance analysis on SSA (E9): from every `error`-typed result of the Config API (NewFrom, Merge, Unpack, UnpackWithoutOptions, getters, setters, SetChild, Has, Remove, CountField) values are traced backwards through phis, named results, locals captured by closures, *error out-parameters, struct fields (all stores to the field), and callee results (interface calls joined over VTA callees) to their terminal sources; a value whose static type is ucfg.Error is typed by construction, every other source must be nil or a conversion of a type implementing ucfg.Error — package-level Err* variables, errors.New/fmt.Errorf, library and callback errors are violations unless wrapped by a raise* constructor. Plus: every baseError/criticalError literal sets class to a class variable and reason to a value that is non-nil on that path (interprocedurally for constructor parameters); context and metadata handed to a constructor come from one object, which is the receiver of the failing conversion. Decides the type half of the property for all inputs; message text and completeness of the dotted path rest on C15 and are not decided.", checkC14)
}

var c14API = []string{"Merge", "Unpack", "UnpackWithoutOptions", "Bool", "Int", "Uint", "Float", "String", "Child", "SetBool", "SetInt", "SetUint", "SetFloat", "SetString", "SetChild", "Has", "Remove", "CountField"}

type errTerm struct {
	ok   bool
	what string
	pos  token.Pos
	via  []string
}

type errProv struct {
	c       *Ctx
	errorT  *types.Named // ucfg.Error
	iface   *types.Interface
	memoRet map[retKeyE][]errTerm
	inProg  map[retKeyE]bool
	stores  map[string][]ssa.Value // "Type.field" -> stored values
}

type retKeyE struct {
	fn *ssa.Function
	i  int
}

func newErrProv(c *Ctx) *errProv {
	p := &errProv{c: c, errorT: c.Named("", "Error"), memoRet: map[retKeyE][]errTerm{}, inProg: map[retKeyE]bool{}, stores: map[string][]ssa.Value{}}
	p.iface = p.errorT.Underlying().(*types.Interface)
	for _, fn := range c.SrcFuncs() {
		Instrs(fn, false, func(in ssa.Instruction) {
			if st, ok := in.(*ssa.Store); ok {
				if nt, f, ok := FieldOf(st.Addr); ok {
					k := nt.Obj().Name() + "." + f
					p.stores[k] = append(p.stores[k], st.Val)
				}
			}
		})
	}
	return p
}

func (p *errProv) isTyped(t types.Type) bool {
	return types.Identical(t, p.errorT)
}

func (p *errProv) implements(t types.Type) bool {
	return types.Implements(t, p.iface)
}

// terms returns the terminal sources of error value v.
func (p *errProv) terms(v ssa.Value, seen map[ssa.Value]bool, depth int) []errTerm {
	if v == nil {
		return nil
	}
	if seen[v] {
		return nil
	}
	seen[v] = true
	if depth > 40 {
		return []errTerm{{false, "provenance too deep to follow", v.Pos(), nil}}
	}
	if p.isTyped(v.Type()) {
		return []errTerm{{true, "static type ucfg.Error", v.Pos(), nil}}
	}
	switch x := v.(type) {
	case *ssa.Const:
		if x.Value == nil {
			return []errTerm{{true, "nil", v.Pos(), nil}}
		}
	case *ssa.MakeInterface:
		if p.implements(x.X.Type()) {
			return []errTerm{{true, "conversion of " + typeStr(x.X.Type()), v.Pos(), nil}}
		}
		return []errTerm{{false, "a plain " + typeStr(x.X.Type()) + " value", v.Pos(), nil}}
	case *ssa.ChangeInterface:
		return p.terms(x.X, seen, depth+1)
	case *ssa.ChangeType:
		return p.terms(x.X, seen, depth+1)
	case *ssa.Phi:
		var out []errTerm
		for _, e := range x.Edges {
			out = append(out, p.terms(e, seen, depth+1)...)
		}
		return out
	case *ssa.TypeAssert:
		if p.isTyped(x.AssertedType) || p.implements(x.AssertedType) {
			return []errTerm{{true, "asserted to " + typeStr(x.AssertedType), v.Pos(), nil}}
		}
		return p.terms(x.X, seen, depth+1)
	case *ssa.Extract:
		if call, ok := x.Tuple.(*ssa.Call); ok {
			return p.callResult(call, x.Index, depth)
		}
		if ta, ok := x.Tuple.(*ssa.TypeAssert); ok && x.Index == 0 {
			return p.terms(ta, seen, depth+1)
		}
	case *ssa.Call:
		return p.callResult(x, 0, depth)
	case *ssa.UnOp:
		if x.Op == token.MUL {
			if g, ok := x.X.(*ssa.Global); ok {
				return []errTerm{{false, "the package-level error variable " + g.Name() + " (not a ucfg.Error)", v.Pos(), nil}}
			}
			if vals, ok := localStores(x.X); ok {
				var out []errTerm
				if len(vals) == 0 {
					return []errTerm{{true, "zero value (nil)", v.Pos(), nil}}
				}
				for _, s := range vals {
					if at, isAT := s.(*addrTaken); isAT {
						out = append(out, p.outParam(at, depth)...)
						continue
					}
					out = append(out, p.terms(s, seen, depth+1)...)
				}
				return out
			}
			if nt, f, ok := FieldOf(x.X); ok {
				var out []errTerm
				for _, s := range p.stores[nt.Obj().Name()+"."+f] {
					out = append(out, p.terms(s, seen, depth+1)...)
				}
				if len(out) == 0 {
					out = append(out, errTerm{true, "field never assigned (nil)", v.Pos(), nil})
				}
				return out
			}
			// load through a pointer parameter (*error out-parameter read back)
			if prm, ok := x.X.(*ssa.Parameter); ok {
				return []errTerm{{true, "read of out-parameter " + prm.Name() + " (its writers are checked where it is assigned)", v.Pos(), nil}}
			}
		}
	case *ssa.Parameter:
		return []errTerm{{false, "the error parameter " + x.Name() + " returned unwrapped", v.Pos(), nil}}
	case *ssa.Field:
		if nt, f, ok := FieldOf(x); ok {
			var out []errTerm
			for _, s := range p.stores[nt.Obj().Name()+"."+f] {
				out = append(out, p.terms(s, seen, depth+1)...)
			}
			// struct built as a value (e.g. spliceValue{err, v}): look at how the struct value was built
			out = append(out, p.terms(x.X, seen, depth+1)...)
			return out
		}
	case *ssa.Lookup:
		return p.terms(x.X, seen, depth+1)
	case *ssa.FreeVar:
		if b := freeVarBinding(x); b != nil {
			return p.terms(b, seen, depth+1)
		}
	}
	if !types.IsInterface(v.Type()) {
		// aggregate values on the way (map of structs, struct values): nothing to say here
		return nil
	}
	return []errTerm{{false, fmt.Sprintf("a value of unknown provenance (%T %s)", v, v.String()), v.Pos(), nil}}
}

// outParam: the variable's address was passed to a call: what does the callee store through it?
func (p *errProv) outParam(at *addrTaken, depth int) []errTerm {
	if at.Call == nil {
		return nil
	}
	var out []errTerm
	for _, g := range p.c.Callees(at.Call) {
		if !p.c.InRepo(g) {
			out = append(out, errTerm{false, "assigned by library function " + g.String(), at.Call.Pos(), nil})
			continue
		}
		// parameter index
		idx := -1
		args := at.Call.Call.Args
		off := 0
		if at.Call.Call.IsInvoke() {
			off = 1
		}
		for i, a := range args {
			if a == at.Addr {
				idx = i + off
			}
		}
		if idx < 0 || idx >= len(g.Params) {
			continue
		}
		prm := g.Params[idx]
		Instrs(g, true, func(in ssa.Instruction) {
			if st, ok := in.(*ssa.Store); ok && st.Addr == ssa.Value(prm) {
				for _, t := range p.terms(st.Val, map[ssa.Value]bool{}, depth+1) {
					t.via = append([]string{p.c.FnName(g)}, t.via...)
					out = append(out, t)
				}
			}
		})
	}
	return out
}

func (p *errProv) callResult(call *ssa.Call, idx int, depth int) []errTerm {
	if b := BuiltinName(call); b != "" {
		return nil
	}
	callees := p.c.Callees(call)
	if len(callees) == 0 {
		return []errTerm{{false, "the error of a user callback / unresolved call " + CalleeName(p.c, call), call.Pos(), nil}}
	}
	var out []errTerm
	for _, g := range callees {
		if !p.c.InRepo(g) || g.Blocks == nil {
			out = append(out, errTerm{false, "an error of library function " + g.String(), call.Pos(), nil})
			continue
		}
		for _, t := range p.retTerms(g, idx, depth) {
			t.via = append([]string{p.c.FnName(g)}, t.via...)
			out = append(out, t)
		}
	}
	return out
}

func (p *errProv) retTerms(g *ssa.Function, idx int, depth int) []errTerm {
	k := retKeyE{g, idx}
	if t, ok := p.memoRet[k]; ok {
		return t
	}
	if p.inProg[k] {
		return nil
	}
	// static type already Error?
	if res := g.Signature.Results(); idx < res.Len() && p.isTyped(res.At(idx).Type()) {
		t := []errTerm{{true, "static type ucfg.Error", g.Pos(), nil}}
		p.memoRet[k] = t
		return t
	}
	p.inProg[k] = true
	var out []errTerm
	for _, ret := range Returns(g) {
		if idx >= len(ret.Results) {
			continue
		}
		out = append(out, p.terms(RetVal(ret, idx), map[ssa.Value]bool{}, depth+1)...)
	}
	delete(p.inProg, k)
	// dedupe
	seen := map[string]bool{}
	var ded []errTerm
	for _, t := range out {
		key := fmt.Sprint(t.ok, t.what, t.pos, t.via)
		if !seen[key] {
			seen[key] = true
			ded = append(ded, t)
		}
	}
	p.memoRet[k] = ded
	return ded
}

func checkC14(c *Ctx, r *Report) {
	defer constructorsBuildRule(c, r)
	defer pathNotKeptRule(c, r, "R14j")
	r.Assumption("RegisterValidator and the front-end / flag packages are outside the property's observation points (they return decoder and I/O errors by design)")
	r.Assumption("the dotted path in a message is right when contexts are right (C15); message text is not decided")
	p := newErrProv(c)

	r.Rule("R14a", "every value that can reach an `error` result of the Config API is nil or has a concrete type implementing ucfg.Error (static type ucfg.Error counts by construction)", 19)
	var api []*ssa.Function
	api = append(api, c.Func("", "NewFrom"))
	for _, n := range c14API {
		api = append(api, c.Method("", "Config", n))
	}
	for _, fn := range api {
		res := fn.Signature.Results()
		idx := res.Len() - 1
		name := c.FnName(fn)
		terms := p.retTerms(fn, idx, 0)
		r.Analysed["API results traced"]++
		bad := map[string]errTerm{}
		nOK := 0
		for _, t := range terms {
			if t.ok {
				nOK++
				continue
			}
			k := t.what + " @" + c.Pos(t.pos)
			if _, ok := bad[k]; !ok {
				bad[k] = t
			}
		}
		if len(bad) == 0 {
			r.OK("R14a", name, "typed errors only", c.Pos(fn.Pos()), fmt.Sprintf("%d terminal sources, all nil or ucfg.Error", nOK))
			continue
		}
		var ks []string
		for k := range bad {
			ks = append(ks, k)
		}
		sort.Strings(ks)
		var descr []string
		for i, k := range ks {
			if i >= 4 {
				descr = append(descr, fmt.Sprintf("... %d more", len(ks)-4))
				break
			}
			t := bad[k]
			via := ""
			if len(t.via) > 0 {
				v := t.via
				if len(v) > 5 {
					v = append(append([]string{}, v[:2]...), append([]string{"..."}, v[len(v)-2:]...)...)
				}
				via = " via " + strings.Join(v, " -> ")
			}
			descr = append(descr, k+via)
		}
		r.Bad("R14a", name, "typed errors only", c.Pos(fn.Pos()), "the API can return an error that is not a ucfg.Error: "+strings.Join(descr, "; "))
	}

	// R14b
	r.Rule("R14b", "every baseError/criticalError literal sets class to one of the class variables and reason to a value that is non-nil on that path (constructor parameters are followed to their call sites)", 13)
	errLiteralRule(c, r)

	// R14c
	r.Rule("R14c", "constructors receive the context and the metadata of one and the same object; for conversion/validation constructors that object is the receiver of the failing call", 20)
	pairingRule(c, r)

	// R14d
	userErrorRule(c, r)
	ownSourceRule(c, r)
	walkerPlaceRule(c, r)
	r.Rule("R14d", "every value built by normalize* carries the options' metadata (shared with C18 R18b)", 12)
	metaReachesValues(c, r, "R14d")
}

// nonNilAt: is error value v non-nil at block `at`?
func nonNilErrAt(c *Ctx, v ssa.Value, at *ssa.BasicBlock, depth int, seen map[ssa.Value]bool) (bool, string) {
	if seen[v] {
		return true, ""
	}
	seen[v] = true
	for _, cd := range DomConds(at) {
		if isNilTestOf(cd, v, false) {
			return true, ""
		}
	}
	switch x := v.(type) {
	case *ssa.Const:
		if x.Value == nil {
			return false, "the nil constant"
		}
	case *ssa.UnOp:
		if g, ok := x.X.(*ssa.Global); ok && x.Op == token.MUL && strings.HasPrefix(g.Name(), "Err") {
			return true, ""
		}
		if x.Op == token.MUL {
			if vals, ok := localStores(x.X); ok && len(vals) > 0 {
				for _, s := range vals {
					if _, isAT := s.(*addrTaken); isAT {
						return false, "a variable assigned by a callee"
					}
					if ok2, why := nonNilErrAt(c, s, at, depth, seen); !ok2 {
						// a local tested by an equivalent load
						return false, why
					}
				}
				return true, ""
			}
		}
	case *ssa.MakeInterface:
		return true, ""
	case *ssa.ChangeInterface:
		return nonNilErrAt(c, x.X, at, depth, seen)
	case *ssa.Call:
		if f := x.Call.StaticCallee(); f != nil && (strings.HasPrefix(f.Name(), "raise") || f.String() == "errors.New" || f.String() == "fmt.Errorf") {
			return true, ""
		}
	case *ssa.Phi:
		for i, e := range x.Edges {
			if ok, why := nonNilErrAt(c, e, x.Block().Preds[i], depth, seen); !ok {
				return false, why
			}
		}
		return true, ""
	case *ssa.Extract:
		// tested through another load of the same tuple component?
		for _, cd := range DomConds(at) {
			if isNilTestOfExtract(cd, x.Tuple, x.Index, false) {
				return true, ""
			}
		}
	case *ssa.Parameter:
		if depth >= 3 {
			return false, "parameter " + x.Name() + " (call chain too deep)"
		}
		fn := x.Parent()
		idx := -1
		for i, p := range fn.Params {
			if p == x {
				idx = i
			}
		}
		n := c.CG().Nodes[fn]
		if n == nil || len(n.In) == 0 {
			return true, "" // never called
		}
		for _, e := range n.In {
			if !c.InRepo(e.Caller.Func) || e.Site == nil {
				continue
			}
			args := e.Site.Common().Args
			off := 0
			if e.Site.Common().IsInvoke() {
				off = 1
			}
			if idx-off < 0 || idx-off >= len(args) {
				continue
			}
			if ok, why := nonNilErrAt(c, args[idx-off], e.Site.Block(), depth+1, map[ssa.Value]bool{}); !ok {
				return false, fmt.Sprintf("%s at call %s in %s", why, c.Pos(e.Site.Pos()), c.FnName(e.Caller.Func))
			}
		}
		return true, ""
	}
	// loads of the same local tested earlier
	if p, ok := AccessPath(v); ok {
		for _, cd := range DomConds(at) {
			if b, isB := cd.V.(*ssa.BinOp); isB {
				for _, side := range []ssa.Value{b.X, b.Y} {
					if q, okq := AccessPath(side); okq && q == p && !isAddrPath(p) {
						if isNilTestOf(cd, side, false) {
							return true, ""
						}
					}
				}
			}
		}
	}
	return false, "a value that may be nil: " + v.String()
}

func errLiteralRule(c *Ctx, r *Report) {
	baseT := c.Named("", "baseError")
	classes := map[string]bool{"ErrConfig": true, "ErrImplementation": true, "ErrUnknown": true}
	for _, fn := range c.SrcFuncs() {
		if fn.Pkg != c.SSA[""] {
			continue
		}
		name := c.FnName(fn)
		Instrs(fn, false, func(in ssa.Instruction) {
			st, ok := in.(*ssa.Store)
			if !ok {
				return
			}
			nt, f, ok := FieldOf(st.Addr)
			if !ok || nt != baseT {
				return
			}
			switch f {
			case "class":
				good := false
				if l, isL := st.Val.(*ssa.UnOp); isL {
					if g, isG := l.X.(*ssa.Global); isG && classes[g.Name()] {
						good = true
					}
				}
				r.Check(good, "R14b", name, "class of error literal", c.Pos(st.Pos()), "class is a class variable", "an error literal's class is not one of ErrConfig/ErrImplementation/ErrUnknown")
			case "reason":
				ok2, why := nonNilErrAt(c, st.Val, st.Block(), 0, map[ssa.Value]bool{})
				r.Check(ok2, "R14b", name, "reason of error literal", c.Pos(st.Pos()), "reason is non-nil on this path", "an error can be built with a nil Reason: "+why)
			}
		})
		// literals that never set class (zero value) are caught by counting: each literal must store class
	}
	// each literal (Alloc of baseError / criticalError complit) stores both class and reason
	for _, fn := range c.SrcFuncs() {
		if fn.Pkg != c.SSA[""] {
			continue
		}
		Instrs(fn, false, func(in ssa.Instruction) {
			a, ok := in.(*ssa.Alloc)
			if !ok || a.Comment != "complit" {
				return
			}
			t := derefType(a.Type())
			n := namedOf(t)
			if n == nil || (n.Obj().Name() != "baseError" && n.Obj().Name() != "criticalError") || n.Obj().Pkg() == nil || n.Obj().Pkg().Path() != modPath {
				return
			}
			has := map[string]bool{}
			var walk func(v ssa.Value)
			walk = func(v ssa.Value) {
				refs := v.Referrers()
				if refs == nil {
					return
				}
				for _, ref := range *refs {
					if fa, isFA := ref.(*ssa.FieldAddr); isFA {
						if _, f, okf := FieldOf(fa); okf {
							for _, r2 := range *fa.Referrers() {
								if st, isSt := r2.(*ssa.Store); isSt && st.Addr == ssa.Value(fa) {
									has[f] = true
								}
							}
							if f == "baseError" {
								walk(fa)
							}
						}
					}
				}
			}
			walk(a)
			r.Check(has["class"] && has["reason"], "R14b", c.FnName(fn), "literal sets class and reason", c.Pos(a.Pos()), "both fields assigned", "an error literal leaves class or reason at its zero value (nil)")
		})
	}
}

// objOf: the object a context / metadata expression is taken from.
func objOfCtx(v ssa.Value) (ssa.Value, string) {
	for _, s := range Sources(v) {
		switch x := s.(type) {
		case *ssa.Call:
			if x.Call.IsInvoke() && x.Call.Method.Name() == "Context" {
				return x.Call.Value, "Context() of " + x.Call.Value.Name()
			}
			if f := x.Call.StaticCallee(); f != nil && f.Name() == "Context" {
				return x.Call.Args[0], "Context() of " + x.Call.Args[0].Name()
			}
		case *ssa.UnOp:
			if fa, ok := x.X.(*ssa.FieldAddr); ok {
				if _, f, ok := FieldOf(fa); ok && f == "ctx" {
					return fa.X, "field ctx of " + fa.X.Name()
				}
			}
		case *ssa.Parameter:
			return x, "parameter " + x.Name()
		}
	}
	return nil, ""
}

func objOfMeta(v ssa.Value) (ssa.Value, string) {
	for _, s := range Sources(v) {
		switch x := s.(type) {
		case *ssa.Call:
			if x.Call.IsInvoke() && x.Call.Method.Name() == "meta" {
				return x.Call.Value, "meta() of " + x.Call.Value.Name()
			}
			if f := x.Call.StaticCallee(); f != nil && f.Name() == "meta" {
				return x.Call.Args[0], "meta() of " + x.Call.Args[0].Name()
			}
		case *ssa.UnOp:
			if fa, ok := x.X.(*ssa.FieldAddr); ok {
				if nt, f, ok := FieldOf(fa); ok && (f == "metadata" || (f == "meta" && nt.Obj().Name() == "options")) {
					return fa.X, "field " + f + " of " + fa.X.Name()
				}
			}
		case *ssa.Parameter:
			return x, "parameter " + x.Name()
		}
	}
	return nil, ""
}

func sameObj(a, b ssa.Value) bool {
	if a == nil || b == nil {
		return false
	}
	if a == b || SameValue(a, b) {
		return true
	}
	// cfgSub{c} wrappers / loads of the same local
	sa, sb := Sources(a), Sources(b)
	for _, x := range sa {
		for _, y := range sb {
			if x == y {
				return true
			}
		}
	}
	return false
}

func pairingRule(c *Ctx, r *Report) {
	for _, fn := range c.SrcFuncs() {
		if fn.Pkg != c.SSA[""] {
			continue
		}
		name := c.FnName(fn)
		for _, ci := range CallsIn(fn, true) {
			g := ci.Common().StaticCallee()
			if g == nil || g.Pkg != c.SSA[""] || !strings.HasPrefix(g.Name(), "raise") {
				continue
			}
			args := ci.Common().Args
			// (context, *Meta) pair
			ctxI, metaI, valI, errI := -1, -1, -1, -1
			for i, prm := range g.Params {
				switch {
				case isNamed(prm.Type(), modPath, "context"):
					ctxI = i
				case isNamed(prm.Type(), modPath, "Meta"):
					metaI = i
				case isNamed(prm.Type(), modPath, "value"):
					valI = i
				case prm.Type().String() == "error":
					errI = i
				}
			}
			if ctxI >= 0 && metaI >= 0 {
				co, cd := objOfCtx(args[ctxI])
				mo, md := objOfMeta(args[metaI])
				ok := sameObj(co, mo)
				// a constructor's own context parameter paired with the options' metadata: the value being built
				if !ok {
					if _, isP := co.(*ssa.Parameter); isP && strings.Contains(md, "field meta of") {
						ok = true
					}
				}
				// both are the function's parameters (forwarding)
				if !ok {
					_, p1 := co.(*ssa.Parameter)
					_, p2 := mo.(*ssa.Parameter)
					ok = p1 && p2
				}
				r.Check(ok, "R14c", name, "context/metadata pair of "+g.Name(), c.Pos(ci.Pos()), cd+" with "+md, fmt.Sprintf("the error is built from the context of one object (%s) and the metadata of another (%s): the path or the source named in the message is not that of the setting at fault", cd, md))
			}
			// value + failing call
			if valI >= 0 && errI >= 0 {
				// the err argument: result #k of an invoke on X => the value argument must be X
				var recv ssa.Value
				for _, s := range Sources(args[errI]) {
					if e, ok := s.(*ssa.Extract); ok {
						if call, ok := e.Tuple.(*ssa.Call); ok && call.Call.IsInvoke() {
							recv = call.Call.Value
						}
					}
				}
				if recv != nil {
					ok := sameObj(recv, args[valI])
					r.Check(ok, "R14c", name, "failing operand of "+g.Name(), c.Pos(ci.Pos()), "the value reported is the receiver of the failing conversion", "the conversion error is attributed to a value other than the one whose conversion failed")
				}
			}
		}
	}
}

// userErrorRule (R14e): an error that comes out of user code (Unpacker.Unpack, Validator.Validate,
// resolver functions, anything called through an interface the repository does not implement, or
// through reflect.Value.Call) knows nothing about the setting it was raised for. A function whose
// result is a ucfg.Error must not hand such an error on by asserting it to Error: it has to go
// through a constructor that attaches the setting's path and metadata — also when the user's error
// happens to be a ucfg.Error already (a nested Config.Unpack reports paths relative to its own root).
func userErrorRule(c *Ctx, r *Report) {
	r.Rule("R14e", "no ucfg.Error result is a type assertion of an error produced by user code: such errors are wrapped by a constructor with the setting's path and metadata", 3)
	errT := c.Named("", "Error")
	n := 0
	for _, fn := range c.SrcFuncs() {
		if fn.Pkg != c.SSA[""] {
			continue
		}
		Instrs(fn, false, func(in ssa.Instruction) {
			ta, ok := in.(*ssa.TypeAssert)
			if !ok || !types.Identical(ta.AssertedType, errT) {
				return
			}
			n++
			// provenance of the asserted operand
			var user []string
			seen := map[ssa.Value]bool{}
			var walk func(v ssa.Value, d int)
			walk = func(v ssa.Value, d int) {
				if v == nil || seen[v] || d > 12 {
					return
				}
				seen[v] = true
				switch x := v.(type) {
				case *ssa.Phi:
					for _, e := range x.Edges {
						walk(e, d+1)
					}
				case *ssa.Extract:
					walk(x.Tuple, d+1)
				case *ssa.TypeAssert:
					walk(x.X, d+1)
				case *ssa.ChangeInterface:
					walk(x.X, d+1)
				case *ssa.MakeInterface:
					walk(x.X, d+1)
				case *ssa.UnOp:
					if x.Op == token.MUL {
						if vals, ok := localStores(x.X); ok {
							for _, s := range vals {
								walk(s, d+1)
							}
						}
					}
				case *ssa.Call:
					cc := x.Call
					switch {
					case cc.IsInvoke():
						callees := c.Callees(x)
						inRepo := 0
						for _, g := range callees {
							if c.InRepo(g) {
								inRepo++
							}
						}
						if inRepo == 0 || inRepo < len(callees) {
							user = append(user, "invoke "+cc.Method.Name()+" on "+typeStr(cc.Value.Type()))
						}
					case cc.StaticCallee() == nil:
						user = append(user, "dynamic call")
					case cc.StaticCallee().String() == "(reflect.Value).Call":
						user = append(user, "reflect.Value.Call")
					}
				}
			}
			walk(ta.X, 0)
			// is the asserted value returned as the function's Error result?
			returned := false
			for _, ret := range Returns(fn) {
				for i := range ret.Results {
					for _, s := range append(Sources(RetVal(ret, i)), RetVal(ret, i)) {
						if s == ssa.Value(ta) {
							returned = true
						}
						if ex, ok := s.(*ssa.Extract); ok && ex.Tuple == ssa.Value(ta) && ex.Index == 0 {
							returned = true
						}
					}
				}
			}
			bad := returned && len(user) > 0
			why := "asserted operand comes from repository code only"
			if !returned {
				why = "the asserted value is inspected, not returned"
			}
			r.Check(!bad, "R14e", c.FnName(fn), "assertion to Error", c.Pos(ta.Pos()), why,
				"an error produced by user code ("+strings.Join(user, ", ")+") is returned as the ucfg.Error result without being wrapped: it carries no path, or a path relative to another root, and not the source of the offending setting")
		})
	}
	_ = n
	// the same through errors.As: `var e Error; if errors.As(err, &e) { return e }`
	for _, fn := range c.SrcFuncs() {
		if fn.Pkg != c.SSA[""] {
			continue
		}
		for _, ci := range CallsIn(fn, false) {
			g := ci.Common().StaticCallee()
			if g == nil || g.String() != "errors.As" || len(ci.Common().Args) != 2 {
				continue
			}
			var target *ssa.Alloc
			for _, s := range append(Sources(ci.Common().Args[1]), ci.Common().Args[1]) {
				if a, ok := s.(*ssa.Alloc); ok && types.Identical(a.Type().(*types.Pointer).Elem(), errT) {
					target = a
				}
			}
			if target == nil {
				continue
			}
			user := userProvenance(c, ci.Common().Args[0])
			returned := false
			for _, ret := range Returns(fn) {
				for i := range ret.Results {
					for _, s := range append(Sources(RetVal(ret, i)), RetVal(ret, i)) {
						if l, ok := s.(*ssa.UnOp); ok && l.Op == token.MUL && l.X == ssa.Value(target) {
							returned = true
						}
					}
				}
			}
			bad := returned && len(user) > 0
			why := "the operand comes from repository code only"
			if !returned {
				why = "the extracted value is inspected, not returned"
			}
			r.Check(!bad, "R14e", c.FnName(fn), "errors.As to Error", c.Pos(ci.Pos()), why,
				"an error produced by user code ("+strings.Join(user, ", ")+") is extracted with errors.As and returned as the ucfg.Error result without being wrapped: it carries a path relative to another root (a Config built inside the user's Unpack) and not the source of the offending setting")
		}
	}
}

// userProvenance: the calls into user code (interfaces the repository does not implement alone, dynamic calls,
// reflect.Value.Call) that v can come from.
func userProvenance(c *Ctx, v0 ssa.Value) []string {
	var user []string
	seen := map[ssa.Value]bool{}
	var walk func(v ssa.Value, d int)
	walk = func(v ssa.Value, d int) {
		if v == nil || seen[v] || d > 12 {
			return
		}
		seen[v] = true
		switch x := v.(type) {
		case *ssa.Phi:
			for _, e := range x.Edges {
				walk(e, d+1)
			}
		case *ssa.Extract:
			walk(x.Tuple, d+1)
		case *ssa.TypeAssert:
			walk(x.X, d+1)
		case *ssa.ChangeInterface:
			walk(x.X, d+1)
		case *ssa.MakeInterface:
			walk(x.X, d+1)
		case *ssa.UnOp:
			if x.Op == token.MUL {
				if vals, ok := localStores(x.X); ok {
					for _, s := range vals {
						walk(s, d+1)
					}
				}
			}
		case *ssa.Call:
			cc := x.Call
			switch {
			case cc.IsInvoke():
				callees := c.Callees(x)
				inRepo := 0
				for _, g := range callees {
					if c.InRepo(g) {
						inRepo++
					}
				}
				if inRepo == 0 || inRepo < len(callees) {
					user = append(user, "invoke "+cc.Method.Name()+" on "+typeStr(cc.Value.Type()))
				}
			case cc.StaticCallee() == nil:
				user = append(user, "dynamic call")
			case cc.StaticCallee().String() == "(reflect.Value).Call":
				user = append(user, "reflect.Value.Call")
			}
		}
	}
	walk(v0, 0)
	return user
}

// ownSourceRule (R14g): where a function has the setting at fault in hand — castArr its parameter, reifyGetField the
// result of the lookup — the source named in the error is that setting's own (`.meta()` of it), not the metadata of
// the configuration that holds it: after a Merge the two differ (the reference or the explicit null came from b.yml,
// the enclosing section from a.yml). The container's metadata is right only for a setting that is missing.
func ownSourceRule(c *Ctx, r *Report) {
	r.Rule("R14g", "castArr and reifyGetField report a setting they have in hand with that setting's own metadata, not with the metadata of the configuration around it", 4)
	type site struct {
		fn     *ssa.Function
		inHand func(v ssa.Value) bool
	}
	var sites []site
	if fn := c.Func("", "castArr"); fn != nil {
		var p *ssa.Parameter
		for _, q := range fn.Params {
			if isNamed(q.Type(), modPath, "value") {
				p = q
			}
		}
		sites = append(sites, site{fn, func(v ssa.Value) bool {
			for _, s := range append(Sources(v), v) {
				if s == ssa.Value(p) {
					return true
				}
			}
			return false
		}})
	}
	if fn := c.Func("", "reifyGetField"); fn != nil {
		sites = append(sites, site{fn, func(v ssa.Value) bool {
			for _, s := range append(Sources(v), v) {
				if e, ok := s.(*ssa.Extract); ok && e.Index == 0 {
					if call, ok := e.Tuple.(*ssa.Call); ok && calledName(call) == "GetValue" {
						return true
					}
				}
			}
			return false
		}})
	}
	for _, st := range sites {
		name := c.FnName(st.fn)
		for _, ci := range CallsIn(st.fn, true) {
			g := ci.Common().StaticCallee()
			if g == nil || g.Pkg != c.SSA[""] || !strings.HasPrefix(g.Name(), "raise") {
				continue
			}
			metaI, cfgI := -1, -1
			for i, prm := range g.Params {
				if isNamed(prm.Type(), modPath, "Meta") {
					metaI = i
				}
				if typeStr(prm.Type()) == "*ucfg.Config" {
					cfgI = i
				}
			}
			what := "source of " + g.Name()
			switch {
			case metaI >= 0:
				own := false
				for _, s := range append(Sources(ci.Common().Args[metaI]), ci.Common().Args[metaI]) {
					call, ok := s.(*ssa.Call)
					if !ok || calledName(call) != "meta" {
						continue
					}
					recv := call.Call.Value
					if !call.Call.IsInvoke() {
						// a concrete node (ref.meta() with ref the asserted *cfgDynamic): through the embedded primitive
						recv = call.Call.Args[0]
						for {
							if fa, isFA := recv.(*ssa.FieldAddr); isFA {
								recv = fa.X
								continue
							}
							break
						}
					}
					if st.inHand(recv) {
						own = true
					}
				}
				r.Check(own, "R14g", name, what, c.Pos(ci.Pos()), "the metadata is (or can be) meta() of the setting in hand", "the error names the source of the enclosing configuration although the setting at fault is in hand: after a Merge of a second file the message points to the wrong file (an unresolvable reference or an explicit null from b.yml is reported with source a.yml)")
			case cfgI >= 0:
				r.Bad("R14g", name, what, c.Pos(ci.Pos()), g.Name()+" takes the source from a configuration, not from the setting in hand: after a Merge of a second file the message points to the wrong file")
			}
		}
	}
}

// walkerPlaceRule (R14h): the walkers of a path (the methods of cfgPath) report a failure at the node the walk has
// reached. An error raised from the configuration the walk *started* from names only the last step below that start:
// Int("a.zz.b") said "missing field accessing 'zz'" instead of 'a.zz', and through a child handle even a setting that
// is not on the way ('a.b' for n.b below a). No raise* call in a walker receives the walker's *Config parameter, as it
// is or wrapped into a node on the spot; the cursor of the walk (a phi that starts there) is what names the place.
func walkerPlaceRule(c *Ctx, r *Report) {
	r.Rule("R14h", "the walkers of a path raise their errors at the node the walk has reached, never at the configuration it started from", 3)
	for _, fn := range c.SrcFuncs() {
		if fn.Pkg != c.SSA[""] || fn.Signature.Recv() == nil || !isNamed(fn.Signature.Recv().Type(), modPath, "cfgPath") {
			continue
		}
		var start *ssa.Parameter
		for _, p := range fn.Params {
			if typeStr(p.Type()) == "*ucfg.Config" {
				start = p
			}
		}
		if start == nil {
			continue
		}
		name := c.FnName(fn)
		for _, ci := range CallsIn(fn, true) {
			g := ci.Common().StaticCallee()
			if g == nil || g.Pkg != c.SSA[""] || !strings.HasPrefix(g.Name(), "raise") {
				continue
			}
			bad := ""
			for _, a := range ci.Common().Args {
				if _, isPhi := a.(*ssa.Phi); isPhi {
					continue
				}
				if a == ssa.Value(start) {
					bad = "the *Config the walk started from"
					continue
				}
				// cfgSub{cfg} built for the call
				if mi, ok := a.(*ssa.MakeInterface); ok {
					for _, s := range append(Sources(mi.X), mi.X) {
						if ld, isLd := s.(*ssa.UnOp); isLd && ld.Op == token.MUL {
							if al, isAl := ld.X.(*ssa.Alloc); isAl {
								for _, ref := range *al.Referrers() {
									if fa, isFA := ref.(*ssa.FieldAddr); isFA {
										for _, r2 := range *fa.Referrers() {
											if st, isSt := r2.(*ssa.Store); isSt && st.Val == ssa.Value(start) {
												bad = "a node made on the spot from the *Config the walk started from"
											}
										}
									}
								}
							}
						}
					}
				}
			}
			r.Check(bad == "", "R14h", name, "place of "+g.Name(), c.Pos(ci.Pos()), "raised at the cursor of the walk", "the error is raised at "+bad+": its path is the name of the last step below the start of the walk, not the path of the setting (Int(\"a.zz.b\") reports 'zz'; through a child handle a setting that is not even on the way)")
		}
	}
}

// constructorsBuildRule (R14i): the raise* constructors are where an error gets the path and the source of the setting
// the caller has in hand. Each of them therefore answers with an error it builds (a baseError / criticalError literal,
// or the answer of another constructor) — never with an error it was given: one that "names its setting already"
// names the place an inner lookup ended at, not the setting that holds the reference or the field being unpacked.
func constructorsBuildRule(c *Ctx, r *Report) {
	r.Rule("R14i", "every raise* constructor returns an error value it builds (a baseError / criticalError literal or another constructor's result), never one of its arguments", 28)
	for _, fn := range c.SrcFuncs() {
		if fn.Pkg != c.SSA[""] || fn.Parent() != nil || !strings.HasPrefix(fn.Name(), "raise") {
			continue
		}
		if fn.Signature.Results().Len() != 1 {
			continue
		}
		bad := ""
		for _, ret := range Returns(fn) {
			var visit func(v ssa.Value, depth int)
			seen := map[ssa.Value]bool{}
			visit = func(v ssa.Value, depth int) {
				if seen[v] || depth > 8 {
					return
				}
				seen[v] = true
				switch x := v.(type) {
				case *ssa.Phi:
					for _, e := range x.Edges {
						visit(e, depth+1)
					}
				case *ssa.MakeInterface:
					if n := namedOf(x.X.Type()); n != nil && (n.Obj().Name() == "baseError" || n.Obj().Name() == "criticalError") {
						return
					}
					bad = "a value of type " + typeStr(x.X.Type()) + " at " + c.Pos(ret.Pos())
				case *ssa.ChangeInterface:
					visit(x.X, depth+1)
				case *ssa.Call:
					if g := x.Call.StaticCallee(); g != nil && g.Pkg == fn.Pkg && strings.HasPrefix(g.Name(), "raise") {
						return
					}
					bad = "the result of " + x.Call.String() + " at " + c.Pos(ret.Pos())
				default:
					bad = describeVals([]ssa.Value{v}) + " at " + c.Pos(ret.Pos())
				}
			}
			visit(RetVal(ret, 0), 0)
		}
		r.Check(bad == "", "R14i", c.FnName(fn), "answers with an error it builds", c.Pos(fn.Pos()), "baseError / criticalError literal or another constructor",
			"the constructor can answer with an error it did not build ("+bad+"): path, source and class of that error are those of the place it came from, not of the setting this call reports")
	}
}

// pathNotKeptRule (R14j, R15o): the path an error names — and the one Path() and FlattenedKeys answer with — is
// rendered from the parent chain at the moment it is asked for. Removing a list entry renumbers the ones behind it,
// SetChild and Merge re-parent nodes: a path kept from an earlier rendering (a memo in the node, dropped only for the
// node that moved itself) is stale for everything below the node that moved. The producers context.path / pathOf and
// what they call inside the package therefore write no memory but their own locals.
func pathNotKeptRule(c *Ctx, r *Report, rule string) {
	r.Rule(rule, "context.path and context.pathOf (with the package functions they call) write nothing but locals: a path is rendered from the parent chain on every call, never kept in a node", 2)
	for _, mn := range []string{"path", "pathOf"} {
		root := c.Method("", "context", mn)
		seen := map[*ssa.Function]bool{root: true}
		work := []*ssa.Function{root}
		bad := ""
		for len(work) > 0 {
			f := work[len(work)-1]
			work = work[:len(work)-1]
			Instrs(f, true, func(in ssa.Instruction) {
				switch x := in.(type) {
				case *ssa.Store:
					addr := x.Addr
					for i := 0; i < 8; i++ {
						if fa, ok := addr.(*ssa.FieldAddr); ok {
							addr = fa.X
						} else if ia, ok := addr.(*ssa.IndexAddr); ok {
							addr = ia.X
						} else {
							break
						}
					}
					if _, isAlloc := addr.(*ssa.Alloc); !isAlloc { // an object made in this call (a literal, the varargs array)
						bad = "store at " + c.Pos(x.Pos()) + " in " + c.FnName(f)
					}
				case *ssa.MapUpdate:
					if _, isMake := x.Map.(*ssa.MakeMap); !isMake {
						bad = "map update at " + c.Pos(x.Pos()) + " in " + c.FnName(f)
					}
				case ssa.CallInstruction:
					for _, g := range c.Callees(x) {
						if g.Pkg == root.Pkg && !seen[g] && len(seen) < 40 {
							seen[g] = true
							work = append(work, g)
						}
					}
				}
			})
		}
		r.Check(bad == "", rule, c.FnName(root), "renders from the parent chain", c.Pos(root.Pos()), fmt.Sprintf("no write outside locals in %d function(s)", len(seen)),
			"rendering a path writes memory ("+bad+"): a path kept from an earlier call is stale for every setting below a node that was renumbered by Remove or re-parented by SetChild / Merge, and errors, Path() and FlattenedKeys then name settings that are not there")
	}
}
