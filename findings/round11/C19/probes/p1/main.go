package main

import (
	"encoding/json"
	"fmt"
	"strings"

	ucfg "github.com/elastic/go-ucfg"
	"github.com/elastic/go-ucfg/flag"
	"github.com/elastic/go-ucfg/parse"
)

func dump(c *ucfg.Config, opts []ucfg.Option) string {
	var m map[string]interface{}
	if err := c.Unpack(&m, opts...); err != nil {
		return "ERR:" + err.Error()
	}
	b, _ := json.Marshal(m)
	return string(b)
}

func ref(args []string, opts []ucfg.Option) (string, error) {
	c := ucfg.New()
	var first error
	for _, a := range args {
		if first != nil {
			break
		}
		var key string
		var val interface{}
		i := strings.Index(a, "=")
		if i < 0 {
			key, val = a, true
		} else {
			key = a[:i]
			if a[i+1:] == "" {
				continue
			}
			v, err := parse.Value(a[i+1:])
			if err != nil {
				first = err
				continue
			}
			val = v
		}
		s, err := ucfg.NewFrom(map[string]interface{}{key: val}, opts...)
		if err != nil {
			first = err
			continue
		}
		if err := c.Merge(s, opts...); err != nil {
			first = err
		}
	}
	return dump(c, opts), first
}

func main() {
	optsets := map[string][]ucfg.Option{
		"pathsep":  {ucfg.PathSep(".")},
		"none":     {},
		"append":   {ucfg.PathSep("."), ucfg.AppendValues},
		"prepend":  {ucfg.PathSep("."), ucfg.PrependValues},
		"replace":  {ucfg.PathSep("."), ucfg.ReplaceValues},
		"varexp":   {ucfg.PathSep("."), ucfg.VarExp},
		"fieldapp": {ucfg.PathSep("."), ucfg.FieldAppendValues("a")},
	}
	seqs := [][]string{
		{"a=1", "a=2"},
		{"a=[1,2]", "a=[3]"},
		{"a=1,2", "a=3"},
		{"a.0=1", "a.1=2", "a.0=3"},
		{"a.b=1", "a.c=2", "a=5"},
		{"a=5", "a.b=1"},
		{"a={b: 1}", "a.c=2"},
		{"a.1=x", "a.0=y"},
		{"a= ", "b"},
		{"a=1", "a= "},
		{"=5", "a"},
		{"a=[1", "a=2", "b=3"},
		{"a=1", "a=[1", "a=2"},
		{"a=${b}", "b=2"},
		{"a='x'", "a=\"y\\n\""},
		{"a.b=[1,2]", "a.b.0=9"},
		{"a.b=[1,2]", "a.b.5=9"},
		{"a", "a.b"},
		{"a.b", "a"},
		{"a=null", "b=1"},
		{"a=1", "a=null"},
		{"a.0.b=1", "a.0.c=2", "a.1.b=3"},
		{"a=[{b: 1}]", "a=[{c: 2}]"},
		{"a==", "b=c=d"},
		{"0=1", "1=2"},
		{"a.-1=1"},
		{"a..b=1"},
		{".a=1"},
		{"a.=1"},
		{"a.b=1", "a.b.c=2", "x=1"},
		{"a=0x10", "b=1e3", "c=-5", "d=+5", "e=1.", "f=true,false"},
		{"a=18446744073709551615", "b=18446744073709551616", "c=-9223372036854775808"},
	}
	bad := 0
	for name, opts := range optsets {
		for _, seq := range seqs {
			v := flag.NewFlagKeyValue(nil, true, opts...)
			for _, a := range seq {
				v.Set(a)
			}
			got := dump(v.Config(), opts)
			want, werr := ref(seq, opts)
			gerr := v.Error()
			if got != want || (gerr == nil) != (werr == nil) || (gerr != nil && gerr.Error() != werr.Error()) {
				bad++
				fmt.Printf("DIFF [%s] %q\n  got  %s err=%v\n  want %s err=%v\n", name, seq, got, gerr, want, werr)
			} else if len(opts) <= 1 || name == "append" {
				fmt.Printf("ok [%s] %q => %s err=%v String=%s\n", name, seq, got, gerr, v.String())
			}
		}
	}
	fmt.Println("bad:", bad)
}
