package main

import (
	"fmt"

	ucfg "github.com/elastic/go-ucfg"
	"github.com/elastic/go-ucfg/flag"
)

func main() {
	opts := []ucfg.Option{ucfg.PathSep(".")}
	v := flag.NewFlagKeyValue(nil, true, opts...)
	fmt.Println(v.Set("0=x"), v.Set("1=y"), v.Error(), v.String())
	n, err := v.Config().CountField("")
	fmt.Println("count root:", n, err)
	s, err := v.Config().String("", 0)
	fmt.Println("root[0]:", s, err)
	s, err = v.Config().String("0", -1, opts...)
	fmt.Println("field 0:", s, err, v.Config().GetFields())

	// autoBool=false
	w := flag.NewFlagKeyValue(nil, false, opts...)
	fmt.Println(w.Set("a=1"), w.Set("b"), w.Set("c=3"), "|", w.Error(), w.String())

	// big index
	x := flag.NewFlagKeyValue(nil, true, opts...)
	fmt.Println(x.Set("a.99999=1"), x.Set("b=2"), "|", x.Error(), x.String())

	// file flag without loader: Set is silent, error sticky
	f := flag.NewFlagFiles(nil, map[string]flag.FileLoader{".ok": func(string, ...ucfg.Option) (*ucfg.Config, error) {
		return ucfg.NewFrom(map[string]interface{}{"k": 1})
	}}, opts...)
	fmt.Println(f.Set("x.ok"), f.Set("y.none"), f.Set("z.ok"), "|", f.Error(), f.String())

	// zero FlagValue
	var z flag.FlagValue
	fmt.Println("zero String:", z.String())
}
