package main

import (
	"fmt"

	ucfg "github.com/elastic/go-ucfg"
	"github.com/elastic/go-ucfg/flag"
)

func show(tag string, c *ucfg.Config, opts []ucfg.Option) {
	n, _ := c.CountField("")
	s0, e0 := c.String("", 0, opts...)
	s1, e1 := c.String("", 1, opts...)
	fmt.Printf("%s: count=%d [0]=%q(%v) [1]=%q(%v) fields=%v\n", tag, n, s0, e0, s1, e1, c.GetFields())
}

func main() {
	opts := []ucfg.Option{ucfg.PathSep(".")}
	s0, _ := ucfg.NewFrom(map[string]interface{}{"0": "x"}, opts...)
	show("setting 0=x", s0, opts)
	s1, _ := ucfg.NewFrom(map[string]interface{}{"1": "y"}, opts...)
	show("setting 1=y", s1, opts)
	r := ucfg.New()
	r.Merge(s0, opts...)
	show("ref after 0=x", r, opts)
	r.Merge(s1, opts...)
	show("ref after 1=y", r, opts)

	v := flag.NewFlagKeyValue(nil, true, opts...)
	v.Set("0=x")
	show("flag after 0=x", v.Config(), opts)
	v.Set("1=y")
	show("flag after 1=y", v.Config(), opts)
}
