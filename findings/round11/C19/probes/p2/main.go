package main

import (
	"encoding/json"
	"fmt"

	ucfg "github.com/elastic/go-ucfg"
	"github.com/elastic/go-ucfg/parse"
)

func dump(c *ucfg.Config, opts []ucfg.Option) string {
	var m map[string]interface{}
	if err := c.Unpack(&m, opts...); err != nil {
		return "ERR:" + err.Error()
	}
	b, _ := json.Marshal(m)
	return fmt.Sprintf("%s fields=%v", b, c.GetFields())
}

func main() {
	opts := []ucfg.Option{ucfg.PathSep("."), ucfg.VarExp}
	for _, kv := range [][2]string{{"a", "null"}, {"a", "[]"}, {"a", "{}"}, {"a.1", "x"}, {"a", "[null,1]"}, {"a", "{b: null}"}, {"0", "1"}, {"a", "${b}"}, {"a.b", "[{c: null}]"}} {
		v, _ := parse.Value(kv[1])
		s, err := ucfg.NewFrom(map[string]interface{}{kv[0]: v}, opts...)
		if err != nil {
			fmt.Println(kv, "ERR", err)
			continue
		}
		m := ucfg.New()
		if err := m.Merge(s, opts...); err != nil {
			fmt.Println(kv, "MERR", err)
		}
		has1, _ := s.Has("a", -1, opts...)
		has2, _ := m.Has("a", -1, opts...)
		fmt.Printf("%v\n  adopt: %s has=%v\n  merge: %s has=%v\n", kv, dump(s, opts), has1, dump(m, opts), has2)
	}
}
