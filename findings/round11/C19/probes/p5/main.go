package main

import (
	"fmt"

	ucfg "github.com/elastic/go-ucfg"
	"github.com/elastic/go-ucfg/flag"
)

func main() {
	opts := []ucfg.Option{ucfg.PathSep(".")}
	for _, seq := range [][]string{
		{"a.0=x", "a.1=y"},
		{"a.0=x", "a.1=y", "a.2=z"},
		{"a.0.k=x", "a.1.k=y"},
		{"a=[x,y]", "a.1=z"},
		{"hosts.0=h1", "hosts.1=h2"},
	} {
		v := flag.NewFlagKeyValue(nil, true, opts...)
		for _, a := range seq {
			v.Set(a)
		}
		fmt.Printf("%q => %s err=%v\n", seq, v.String(), v.Error())
	}
}
