module demo

go 1.18

require github.com/elastic/go-ucfg v0.0.0

require gopkg.in/yaml.v2 v2.2.8 // indirect

replace github.com/elastic/go-ucfg => /tmp/mut11/wt_C19
