package main

import (
	"errors"
	"fmt"
	"strings"
	"time"

	ucfg "github.com/elastic/go-ucfg"
	"github.com/elastic/go-ucfg/parse"
)

var M = ucfg.MetaData(ucfg.Meta{Source: "file.yml"})

func report(name string, err error, wantPath string, wantSrc bool) {
	if err == nil {
		fmt.Printf("%-28s NO ERROR\n", name)
		return
	}
	e, ok := err.(ucfg.Error)
	if !ok {
		fmt.Printf("%-28s !! NOT ucfg.Error: %T %v\n", name, err, err)
		return
	}
	flag := ""
	if e.Reason() == nil || e.Class() == nil {
		flag += " !!nil reason/class"
	}
	msg := strings.SplitN(e.Error(), "\nTrace", 2)[0]
	if wantPath != "" && !strings.Contains(msg, "'"+wantPath+"'") {
		flag += " !!path(" + wantPath + ")"
	}
	if wantSrc && !strings.Contains(msg, "file.yml") {
		flag += " !!source"
	}
	fmt.Printf("%-28s%s  | %s\n", name, flag, msg)
}

type pos struct{ V int }

func (p pos) Validate() error {
	if p.V < 0 {
		return errors.New("neg")
	}
	return nil
}

type strU struct{ s string }

func (s *strU) Unpack(v string) error {
	if v == "bad" {
		return errors.New("bad string")
	}
	s.s = v
	return nil
}

func main() {
	opts := []ucfg.Option{M, ucfg.PathSep("."), ucfg.VarExp}

	// 1 deep list in map in ptr
	{
		c := ucfg.MustNewFrom(map[string]interface{}{
			"a": map[string]interface{}{"l": []interface{}{map[string]interface{}{"x": "nope"}}},
		}, opts...)
		var t struct {
			A *struct {
				L []map[string]*int `config:"l"`
			} `config:"a"`
		}
		report("list/map/ptr int", c.Unpack(&t, opts...), "a.l.0.x", true)
	}
	// 2 inline
	{
		c := ucfg.MustNewFrom(map[string]interface{}{"o": map[string]interface{}{"x": "nope"}}, opts...)
		type In struct {
			X uint `config:"x"`
		}
		var t struct {
			O struct {
				In `config:",inline"`
			} `config:"o"`
		}
		report("inline uint", c.Unpack(&t, opts...), "o.x", true)
	}
	// 3 array size
	{
		c := ucfg.MustNewFrom(map[string]interface{}{"o": map[string]interface{}{"x": []int{1, 2, 3}}}, opts...)
		var t struct {
			O struct {
				X [2]int `config:"x"`
			} `config:"o"`
		}
		report("array size", c.Unpack(&t, opts...), "o.x", true)
	}
	// 4 unresolvable ref nested
	{
		c := ucfg.MustNewFrom(map[string]interface{}{"o": map[string]interface{}{"x": "${nothere}"}}, opts...)
		var t struct {
			O struct {
				X string `config:"x"`
			} `config:"o"`
		}
		report("unresolved ref string", c.Unpack(&t, opts...), "o.x", true)
		var t2 struct {
			O struct {
				X int `config:"x"`
			} `config:"o"`
		}
		report("unresolved ref int", c.Unpack(&t2, opts...), "o.x", true)
		var t3 struct {
			O struct {
				X []int `config:"x"`
			} `config:"o"`
		}
		report("unresolved ref slice", c.Unpack(&t3, opts...), "o.x", true)
		var t4 struct {
			O struct {
				X map[string]int `config:"x"`
			} `config:"o"`
		}
		report("unresolved ref map", c.Unpack(&t4, opts...), "o.x", true)
		var t5 struct {
			O struct {
				X struct{ A int } `config:"x"`
			} `config:"o"`
		}
		report("unresolved ref struct", c.Unpack(&t5, opts...), "o.x", true)
		var t6 struct {
			O struct {
				X interface{} `config:"x"`
			} `config:"o"`
		}
		report("unresolved ref iface", c.Unpack(&t6, opts...), "o.x", true)
		var t7 map[string]interface{}
		report("unresolved ref map[string]ifc", c.Unpack(&t7, opts...), "o.x", true)
		var t8 struct {
			O struct {
				X *ucfg.Config `config:"x"`
			} `config:"o"`
		}
		report("unresolved ref *Config", c.Unpack(&t8, opts...), "o.x", true)
		var t9 struct {
			O struct {
				X time.Duration `config:"x"`
			} `config:"o"`
		}
		report("unresolved ref duration", c.Unpack(&t9, opts...), "o.x", true)
		_, err := c.String("o.x", -1, opts...)
		report("getter String unresolved", err, "o.x", true)
		_, err = c.Child("o.x", -1, opts...)
		report("getter Child unresolved", err, "o.x", true)
		_, err = c.CountField("o.x", opts...)
		report("CountField unresolved", err, "o.x", true)
		_, err = c.Has("o.x.y", -1, opts...)
		report("Has below unresolved", err, "o.x", true)
		_, err = c.Remove("o.x.y", -1, opts...)
		report("Remove below unresolved", err, "o.x", true)
		var ts struct {
			O struct {
				X strU `config:"x"`
			} `config:"o"`
		}
		report("unresolved ref unpacker", c.Unpack(&ts, opts...), "o.x", true)
	}
	// 5 cyclic
	{
		c := ucfg.MustNewFrom(map[string]interface{}{"o": map[string]interface{}{"x": "${o.y}", "y": "${o.x}"}}, opts...)
		var t struct {
			O struct {
				X string `config:"x"`
			} `config:"o"`
		}
		report("cyclic ref", c.Unpack(&t, opts...), "o.x", true)
	}
	// 6 validator
	{
		c := ucfg.MustNewFrom(map[string]interface{}{"o": map[string]interface{}{"l": []interface{}{map[string]interface{}{"v": -1}}}}, opts...)
		var t struct {
			O struct {
				L []pos `config:"l"`
			} `config:"o"`
		}
		report("Validate in list", c.Unpack(&t, opts...), "o.l.0", true)
		var t2 struct {
			O struct {
				L []struct {
					V int `config:"v" validate:"min=0"`
				} `config:"l"`
			} `config:"o"`
		}
		report("min tag in list", c.Unpack(&t2, opts...), "o.l.0.v", true)
	}
	// 7 string unpacker fails
	{
		c := ucfg.MustNewFrom(map[string]interface{}{"o": map[string]interface{}{"m": map[string]interface{}{"k": "bad"}}}, opts...)
		var t struct {
			O struct {
				M map[string]strU `config:"m"`
			} `config:"o"`
		}
		report("unpacker in map", c.Unpack(&t, opts...), "o.m.k", true)
	}
	// 8 expected object
	{
		c := ucfg.MustNewFrom(map[string]interface{}{"o": map[string]interface{}{"m": "str"}}, opts...)
		var t struct {
			O struct {
				M map[string]int `config:"m"`
			} `config:"o"`
		}
		report("expected object map", c.Unpack(&t, opts...), "o.m", true)
		var t2 struct {
			O struct {
				M *ucfg.Config `config:"m"`
			} `config:"o"`
		}
		report("expected object *Config", c.Unpack(&t2, opts...), "o.m", true)
		var t3 struct {
			O struct {
				M struct{ A int } `config:"m"`
			} `config:"o"`
		}
		report("expected object struct", c.Unpack(&t3, opts...), "o.m", true)
		_, err := c.Int("o.m.z", -1, opts...)
		report("getter through primitive", err, "o.m", true)
		err = c.SetInt("o.m.z", -1, 3, opts...)
		report("setter through primitive", err, "o.m", true)
	}
	// 9 merged trees: path after merge
	{
		c := ucfg.MustNewFrom(map[string]interface{}{"o": map[string]interface{}{"l": []interface{}{1}}}, opts...)
		other := ucfg.MustNewFrom(map[string]interface{}{"o": map[string]interface{}{"l": []interface{}{2, map[string]interface{}{"z": "bad"}}}},
			ucfg.MetaData(ucfg.Meta{Source: "second.yml"}), ucfg.PathSep("."))
		for _, o := range [][]ucfg.Option{{ucfg.PathSep(".")}, {ucfg.PathSep("."), ucfg.AppendValues}, {ucfg.PathSep("."), ucfg.PrependValues}, {ucfg.PathSep("."), ucfg.ReplaceValues}} {
			cc := ucfg.MustNewFrom(c, opts...)
			if err := cc.Merge(other, o...); err != nil {
				report("merge", err, "", false)
			}
			n, _ := cc.CountField("o.l")
			for i := 0; i < n; i++ {
				ch, err := cc.Child("o.l", i, ucfg.PathSep("."))
				if err != nil {
					continue
				}
				_, err = ch.Int("z", -1)
				report(fmt.Sprintf("merged list idx %d", i), err, fmt.Sprintf("o.l.%d.z", i), false)
				if err != nil && !strings.Contains(err.Error(), "second.yml") {
					fmt.Println("   !! source second.yml missing")
				}
			}
		}
	}
	// 10 resolver error
	{
		c := ucfg.MustNewFrom(map[string]interface{}{"o": map[string]interface{}{"x": "${env}"}}, opts...)
		res := ucfg.Resolve(func(string) (string, parse.Config, error) { return "", parse.DefaultConfig, errors.New("boom") })
		var t struct {
			O struct {
				X int `config:"x"`
			} `config:"o"`
		}
		report("resolver error", c.Unpack(&t, append(opts, res)...), "o.x", true)
		res2 := ucfg.Resolve(func(string) (string, parse.Config, error) { return "[1,2", parse.DefaultConfig, nil })
		report("resolver bad parse", c.Unpack(&t, append(opts, res2)...), "o.x", true)
		res3 := ucfg.Resolve(func(string) (string, parse.Config, error) { return "{a: x}", parse.DefaultConfig, nil })
		var t3 struct {
			O struct {
				X struct {
					A int `config:"a"`
				} `config:"x"`
			} `config:"o"`
		}
		report("resolver obj inner fault", c.Unpack(&t3, append(opts, res3)...), "o.x.a", true)
	}
	// 11 NewFrom errors
	{
		_, err := ucfg.NewFrom(map[string]interface{}{"o": map[string]interface{}{"x": "${unterminated"}}, opts...)
		report("parse splice", err, "o.x", true)
		_, err = ucfg.NewFrom(map[string]interface{}{"o": map[string]interface{}{"x": make(chan int)}}, opts...)
		report("unsupported type", err, "o.x", true)
		_, err = ucfg.NewFrom(map[string]interface{}{"o": []interface{}{map[string]interface{}{"x": make(chan int)}}}, opts...)
		report("unsupported type in list", err, "o.0.x", true)
		_, err = ucfg.NewFrom(map[string]interface{}{"o": map[string]interface{}{"a": 1, "a.b": 2}}, opts...)
		report("dup key", err, "o.a", true)
		_, err = ucfg.NewFrom(map[string]interface{}{"o": map[int]interface{}{1: 1}}, opts...)
		report("int key", err, "o", true)
		_, err = ucfg.NewFrom(3, opts...)
		report("toplevel int", err, "", true)
	}
	// 12 index out of range
	{
		c := ucfg.MustNewFrom(map[string]interface{}{"o": map[string]interface{}{"l": []int{1}}}, opts...)
		_, err := c.Int("o.l", 4, opts...)
		report("idx out of range", err, "o.l.4", true)
		_, err = c.Int("o.l.7", -1, opts...)
		report("idx out of range path", err, "o.l.7", true)
		_, err = c.Int("o.q", -1, opts...)
		report("missing", err, "o.q", true)
		ch, _ := c.Child("o", -1)
		_, err = ch.Int("l", 3)
		report("child idx oor", err, "o.l.3", true)
	}
	// 13 required
	{
		c := ucfg.MustNewFrom(map[string]interface{}{"o": map[string]interface{}{"l": []interface{}{map[string]interface{}{}}}}, opts...)
		var t struct {
			O struct {
				L []struct {
					V string `config:"v" validate:"required"`
				} `config:"l"`
			} `config:"o"`
		}
		report("required in list", c.Unpack(&t, opts...), "o.l.0.v", true)
		var t2 struct {
			O struct {
				L []struct {
					P struct {
						V string `config:"v" validate:"required"`
					} `config:"p"`
				} `config:"l"`
			} `config:"o"`
		}
		report("required below missing", c.Unpack(&t2, opts...), "o.l.0.p.v", true)
	}
	// 14 splice
	{
		c := ucfg.MustNewFrom(map[string]interface{}{"o": map[string]interface{}{"x": "a ${nothere} b", "y": "${o.z:?custom msg}"}}, opts...)
		var t struct {
			O struct {
				X string `config:"x"`
			} `config:"o"`
		}
		report("splice unresolved", c.Unpack(&t, opts...), "o.x", true)
		var t2 struct {
			O struct {
				Y string `config:"y"`
			} `config:"o"`
		}
		report("expansion err", c.Unpack(&t2, opts...), "o.y", true)
		var t3 map[string]interface{}
		report("splice to ifc", c.Unpack(&t3, opts...), "o.x", true)
	}
	// 15 duration / regex
	{
		c := ucfg.MustNewFrom(map[string]interface{}{"o": []interface{}{map[string]interface{}{"d": "1x", "r": "(", "n": map[string]interface{}{"a": 1}}}}, opts...)
		var t struct {
			O []struct {
				D time.Duration `config:"d"`
			} `config:"o"`
		}
		report("duration", c.Unpack(&t, opts...), "o.0.d", true)
		var t3 struct {
			O []struct {
				N time.Duration `config:"n"`
			} `config:"o"`
		}
		report("duration from obj", c.Unpack(&t3, opts...), "o.0.n", true)
		var t4 struct {
			O []struct {
				N string `config:"n"`
			} `config:"o"`
		}
		report("string from obj", c.Unpack(&t4, opts...), "o.0.n", true)
		var t5 struct {
			O []struct {
				N bool `config:"n"`
			} `config:"o"`
		}
		report("bool from obj", c.Unpack(&t5, opts...), "o.0.n", true)
		var t6 struct {
			O []struct {
				N complex128 `config:"n"`
			} `config:"o"`
		}
		report("complex from obj", c.Unpack(&t6, opts...), "o.0.n", true)
	}
	// 16 ref to object, fault inside
	{
		c := ucfg.MustNewFrom(map[string]interface{}{"base": map[string]interface{}{"v": "x"}, "o": map[string]interface{}{"r": "${base}"}}, opts...)
		var t struct {
			O struct {
				R struct {
					V int `config:"v"`
				} `config:"r"`
			} `config:"o"`
		}
		report("ref obj inner fault", c.Unpack(&t, opts...), "base.v", true)
	}
	// 17 env
	{
		env := ucfg.MustNewFrom(map[string]interface{}{"e": map[string]interface{}{"v": "x"}}, ucfg.MetaData(ucfg.Meta{Source: "env.yml"}), ucfg.PathSep("."))
		c := ucfg.MustNewFrom(map[string]interface{}{"o": map[string]interface{}{"r": "${e.v}"}}, opts...)
		var t struct {
			O struct {
				R int `config:"r"`
			} `config:"o"`
		}
		report("env ref conv", c.Unpack(&t, append(opts, ucfg.Env(env))...), "o.r", true)
	}
	// 18 nil / pointer required
	{
		var c *ucfg.Config
		report("nil config", c.Unpack(&struct{}{}), "", false)
		c = ucfg.New()
		report("non pointer", c.Unpack(struct{}{}), "", false)
		var ip *int
		report("nil ptr", c.Unpack(ip), "", false)
		x := 3
		report("int target", c.Unpack(&x), "", false)
		report("setchild nil", c.SetChild("a", -1, nil), "", false)
		report("setchild self", c.SetChild("a", -1, c), "", false)
		report("set idx neg", c.SetInt("", -5, 1), "", false)
	}
}
