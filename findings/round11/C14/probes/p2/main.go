package main

import (
	"fmt"

	ucfg "github.com/elastic/go-ucfg"
	"github.com/elastic/go-ucfg/json"
	"github.com/elastic/go-ucfg/yaml"
)

func show(name string, err error) {
	_, ok := err.(ucfg.Error)
	fmt.Printf("%-34s ucfg.Error=%v  %T | %v\n", name, ok, err, err)
}

func main() {
	opts := []ucfg.Option{ucfg.MetaData(ucfg.Meta{Source: "file.yml"}), ucfg.PathSep("."), ucfg.VarExp}

	// 1. deep fault unpacked into interface{} / map[string]interface{}
	c := ucfg.MustNewFrom(map[string]interface{}{
		"a": map[string]interface{}{"b": map[string]interface{}{"c": []interface{}{map[string]interface{}{"x": "${nothere}"}}}},
		"fine": 1,
	}, opts...)
	var m map[string]interface{}
	show("map[string]interface{} deep ref", c.Unpack(&m, opts...))
	var s struct {
		A interface{} `config:"a"`
	}
	show("interface{} field deep ref", c.Unpack(&s, opts...))
	var s2 struct {
		A struct {
			B map[string]interface{} `config:"b"`
		} `config:"a"`
	}
	show("nested map[string]ifc deep ref", c.Unpack(&s2, opts...))

	// 2. loaders
	_, err := yaml.NewConfig([]byte("a: [1, 2"), opts...)
	show("yaml syntax error", err)
	_, err = yaml.NewConfigWithFile("/nonexistent.yml", opts...)
	show("yaml missing file", err)
	_, err = json.NewConfig([]byte("{"), opts...)
	show("json syntax error", err)
	_, err = yaml.NewConfig([]byte("a:\n  b: ${x"), opts...)
	show("yaml nested bad splice", err)
	_, err = yaml.NewConfig([]byte("a:\n  1: x\n"), opts...)
	show("yaml int key nested", err)

	// 3. missing below a node with a source, root has none
	_, err = c.Int("a.b.q", -1, opts...)
	show("missing a.b.q (root made by New)", err)
	ch, _ := c.Child("a.b", -1, opts...)
	_, err = ch.Int("q", -1, opts...)
	show("missing q in child a.b", err)

	// 4. setting named "" at top level
	c2 := ucfg.MustNewFrom(map[string]interface{}{"": "x"}, ucfg.MetaData(ucfg.Meta{Source: "file.yml"}))
	var mi map[string]int
	show("top-level key \"\"", c2.Unpack(&mi))

	// 5. other path separator
	c3 := ucfg.MustNewFrom(map[string]interface{}{"a/b": "x"}, ucfg.PathSep("/"), ucfg.MetaData(ucfg.Meta{Source: "file.yml"}))
	_, err = c3.Int("a/b", -1, ucfg.PathSep("/"))
	show("PathSep(/) conversion", err)
	_, err = c3.Int("a/q", -1, ucfg.PathSep("/"))
	show("PathSep(/) missing", err)
}
