package main

import (
	"errors"
	"fmt"

	ucfg "github.com/elastic/go-ucfg"
)

type V struct{ N int }

func (v V) Validate() error {
	if v.N < 10 {
		return errors.New("N too small")
	}
	return nil
}

type In struct {
	A int `validate:"min=5"`
}

func try(name string, cfg map[string]interface{}, to interface{}, opts ...ucfg.Option) {
	c, err := ucfg.NewFrom(cfg, opts...)
	if err != nil {
		fmt.Println(name, "NewFrom err", err)
		return
	}
	err = c.Unpack(to, opts...)
	fmt.Printf("%-40s err=%v  result=%+v\n", name, err, to)
}

func main() {
	{
		s := struct {
			F map[string]interface{}
		}{F: map[string]interface{}{"a": V{N: 1}}}
		try("map iface kept entry V, other key named", map[string]interface{}{"f": map[string]interface{}{"b": 1}}, &s)
	}
	{
		s := struct {
			F []interface{}
		}{F: []interface{}{1, V{N: 1}}}
		try("[]iface kept elem V", map[string]interface{}{"f": []interface{}{2}}, &s)
	}
	{
		s := struct {
			F uintptr `validate:"max=5"`
		}{}
		try("uintptr max=5 val 9", map[string]interface{}{"f": 9}, &s)
	}
	{
		// tag on struct In held in iface: control, tags work
		s := struct {
			F interface{}
		}{F: In{A: 1}}
		try("iface default In (tags) control", map[string]interface{}{"x": 1}, &s)
	}
	{
		// top-level map with iface default
		m := map[string]interface{}{"a": V{N: 1}}
		try("top-level map kept V", map[string]interface{}{"b": 1}, m)
	}
	{
		// ptr-to-ptr-to-struct with tag'd default
		p := &In{A: 1}
		s := struct{ F **In }{F: &p}
		try("**In default tags control", map[string]interface{}{"x": 1}, &s)
	}
}
