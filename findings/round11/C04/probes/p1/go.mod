module probe

go 1.20

require github.com/elastic/go-ucfg v0.0.0

replace github.com/elastic/go-ucfg => /tmp/mut11/wt_C04
