package main

import (
	"errors"
	"fmt"
	"time"

	ucfg "github.com/elastic/go-ucfg"
)

type V struct{ N int }

func (v V) Validate() error {
	if v.N < 10 {
		return errors.New("N too small")
	}
	return nil
}

type PV struct{ N int }

func (v *PV) Validate() error {
	if v.N < 10 {
		return errors.New("N too small")
	}
	return nil
}

func try(name string, cfg map[string]interface{}, to interface{}, opts ...ucfg.Option) {
	c, err := ucfg.NewFrom(cfg, opts...)
	if err != nil {
		fmt.Println(name, "NewFrom err", err)
		return
	}
	err = c.Unpack(to, opts...)
	fmt.Printf("%-40s err=%v  result=%+v\n", name, err, to)
}

func main() {
	// a) uintptr
	{
		var s struct {
			F uintptr `validate:"required"`
		}
		try("uintptr required zero", map[string]interface{}{"f": 0}, &s)
	}
	{
		var s struct {
			F uintptr `validate:"nonzero"`
		}
		try("uintptr nonzero zero", map[string]interface{}{"f": 0}, &s)
	}
	{
		var s struct {
			F uintptr `validate:"min=5"`
		}
		try("uintptr min=5 val 1", map[string]interface{}{"f": 1}, &s)
	}
	// m) interface default holding Validator
	{
		s := struct {
			F interface{}
		}{F: V{N: 1}}
		try("iface default V", map[string]interface{}{"x": 1}, &s)
	}
	{
		s := struct {
			F map[string]interface{}
		}{F: map[string]interface{}{"a": V{N: 1}}}
		try("map iface default V", map[string]interface{}{"x": 1}, &s)
	}
	{
		p := &PV{N: 1}
		s := struct {
			F **PV
		}{F: &p}
		try("**PV default", map[string]interface{}{"x": 1}, &s)
	}
	{
		p := &PV{N: 1}
		s := struct {
			F **PV
		}{F: &p}
		try("**PV default, cfg names other field", map[string]interface{}{"f": map[string]interface{}{"m": 3}}, &s)
	}
	{
		s := struct {
			F []interface{}
		}{F: []interface{}{V{N: 1}}}
		try("[]iface default V", map[string]interface{}{"x": 1}, &s)
	}
	{
		type D time.Duration
		s := struct {
			F D `validate:"min=1"`
		}{}
		try("named duration min", map[string]interface{}{"f": 0}, &s)
	}
	{
		// bool nonzero / required
		s := struct {
			F bool `validate:"required"`
		}{}
		try("bool required false", map[string]interface{}{"f": false}, &s)
	}
	{
		// complex
		s := struct {
			F [0]int `validate:"required"`
		}{}
		try("[0]int required", map[string]interface{}{"x": 1}, &s)
	}
	{
		// interface with nil ptr inside + required
		var ip *int
		s := struct {
			F interface{} `validate:"required"`
		}{F: ip}
		try("iface nil ptr required", map[string]interface{}{"x": 1}, &s)
	}
	{
		var e string
		pe := &e
		s := struct {
			F **string `validate:"required"`
		}{F: &pe}
		try("**string empty required", map[string]interface{}{"x": 1}, &s)
	}
	{
		var pe *string
		s := struct {
			F **string `validate:"required"`
		}{F: &pe}
		try("**string ->nil required", map[string]interface{}{"x": 1}, &s)
	}
}
