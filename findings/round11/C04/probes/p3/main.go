package main

import (
	"fmt"

	ucfg "github.com/elastic/go-ucfg"
)

func try(name string, cfg map[string]interface{}, to interface{}, opts ...ucfg.Option) {
	c, err := ucfg.NewFrom(cfg, opts...)
	if err != nil {
		fmt.Println(name, "NewFrom err", err)
		return
	}
	err = c.Unpack(to, opts...)
	fmt.Printf("%-45s err=%v  result=%+v\n", name, err, to)
}

func main() {
	{
		s := struct {
			F []int `validate:"min=3"`
		}{}
		try("[]int min=3, cfg [5,1]", map[string]interface{}{"f": []interface{}{5, 1}}, &s)
	}
	{
		s := struct {
			F []int `validate:"min=3"`
		}{F: []int{1, 1}}
		try("[]int min=3, default [1,1], cfg [5]", map[string]interface{}{"f": []interface{}{5}}, &s)
	}
	{
		s := struct {
			F []int `validate:"min=3"`
		}{F: []int{1, 1}}
		try("[]int min=3, default [1,1], cfg absent", map[string]interface{}{"x": 1}, &s)
	}
	{
		s := struct {
			F map[string]int `validate:"min=3"`
		}{}
		try("map[string]int min=3, cfg {a:1}", map[string]interface{}{"f": map[string]interface{}{"a": 1}}, &s)
	}
}
