package main

import (
	"fmt"
	"os"
	"reflect"
	"sync"

	ucfg "github.com/elastic/go-ucfg"
	"github.com/elastic/go-ucfg/parse"
)

type T struct {
	A    *ucfg.Config   `config:"a"`
	B    *ucfg.Config   `config:"b"`
	S    string         `config:"s"`
	N    int            `config:"n"`
	Obj  map[string]int `config:"obj"`
	L    []int          `config:"l"`
	Nul  *ucfg.Config   `config:"nul"`
	Deep interface{}    `config:"deep"`
}

func main() {
	res := ucfg.Resolve(func(name string) (string, parse.Config, error) {
		if name == "objenv" {
			return `{"p": 1, "q": 2}`, parse.DefaultConfig, nil
		}
		if name == "lst" {
			return "1,2,3", parse.DefaultConfig, nil
		}
		return "", parse.DefaultConfig, ucfg.ErrMissing
	})
	opts := []ucfg.Option{ucfg.PathSep("."), ucfg.VarExp, res}
	cfg := ucfg.MustNewFrom(map[string]interface{}{
		"a":    map[string]interface{}{"x": 1, "y": "${a.x}"},
		"b":    "${a}",
		"s":    "pre-${a.x}-${n}",
		"n":    "${a.x}",
		"obj":  "${objenv}",
		"l":    "${lst}",
		"nul":  nil,
		"deep": map[string]interface{}{"k": []interface{}{"${s}", map[string]interface{}{"z": "${obj}"}}},
	}, opts...)

	run := func() string {
		var t T
		err := cfg.Unpack(&t, opts...)
		out := fmt.Sprintf("%v|%v %v %v %v %v", err, t.S, t.N, t.Obj, t.L, t.Deep)
		if t.A != nil {
			out += fmt.Sprint(t.A.GetFields() != nil, t.A.Path("."), t.B.Path("."), t.Nul == nil)
		}
		s, e := cfg.String("s", -1, opts...)
		out += fmt.Sprint(s, e)
		i, e := cfg.Int("b.y", -1, opts...)
		out += fmt.Sprint(i, e)
		c, e := cfg.Child("obj", -1, opts...)
		out += fmt.Sprint(c.FlattenedKeys(opts...), e)
		h, e := cfg.Has("deep.k.1.z.p", -1, opts...)
		out += fmt.Sprint(h, e)
		n, e := cfg.CountField("l", opts...)
		out += fmt.Sprint(n, e)
		out += fmt.Sprint(len(cfg.GetFields()), cfg.Path("."))
		out += fmt.Sprint(cfg.FlattenedKeys(opts...))
		d := ucfg.New()
		e = d.Merge(cfg, opts...)
		var m map[string]interface{}
		e2 := d.Unpack(&m, opts...)
		out += fmt.Sprint(e, e2, m)
		return out
	}
	want := run()
	var wg sync.WaitGroup
	bad := false
	var mu sync.Mutex
	for g := 0; g < 8; g++ {
		wg.Add(1)
		go func() {
			defer wg.Done()
			for i := 0; i < 200; i++ {
				if got := run(); got != want {
					mu.Lock()
					bad = true
					fmt.Println("DIFF\n", got, "\n", want)
					mu.Unlock()
					return
				}
			}
		}()
	}
	wg.Wait()
	_ = reflect.DeepEqual
	if bad {
		os.Exit(1)
	}
	fmt.Println("ok", want)
}
