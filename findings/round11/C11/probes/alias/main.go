package main

import (
	"fmt"
	"os"

	ucfg "github.com/elastic/go-ucfg"
)

type T struct {
	C *ucfg.Config `config:"c"`
}

func main() {
	cfg := ucfg.MustNewFrom(map[string]interface{}{
		"items": []interface{}{
			map[string]interface{}{"c": map[string]interface{}{"x": 1}},
			map[string]interface{}{"c": map[string]interface{}{"y": 2}},
		},
	})
	before := fmt.Sprint(cfg.FlattenedKeys())
	var t T // reused across iterations
	for i := 0; i < 2; i++ {
		child, err := cfg.Child("items", i)
		if err != nil {
			panic(err)
		}
		if err := child.Unpack(&t); err != nil {
			panic(err)
		}
	}
	after := fmt.Sprint(cfg.FlattenedKeys())
	fmt.Println("before:", before)
	fmt.Println("after: ", after)

	// variant 2: map target, same key
	cfg2 := ucfg.MustNewFrom(map[string]interface{}{
		"a": map[string]interface{}{"c": map[string]interface{}{"x": 1}},
		"b": map[string]interface{}{"c": map[string]interface{}{"y": 2}},
	})
	b2 := fmt.Sprint(cfg2.FlattenedKeys())
	m := map[string]*ucfg.Config{}
	a, _ := cfg2.Child("a", -1)
	b, _ := cfg2.Child("b", -1)
	a.Unpack(&m)
	b.Unpack(&m)
	a2 := fmt.Sprint(cfg2.FlattenedKeys())
	fmt.Println("map before:", b2)
	fmt.Println("map after: ", a2)
	if before != after || b2 != a2 {
		os.Exit(1)
	}
}
