package main

import (
	"fmt"

	ucfg "github.com/elastic/go-ucfg"
)

func main() {
	src := ucfg.MustNewFrom(map[string]interface{}{"hosts": []interface{}{map[string]interface{}{"name": "a"}}})
	dst := ucfg.MustNewFrom(map[string]interface{}{"hosts": []interface{}{map[string]interface{}{"name": "local"}}})
	dst.Merge(src, ucfg.AppendValues)
	s0, _ := src.Child("hosts", 0)
	d1, _ := dst.Child("hosts", 1)
	fmt.Println("same node:", s0 == d1)
	d1.SetString("name", -1, "changed")
	n, _ := s0.String("name", -1)
	fmt.Println("src hosts.0.name =", n)
}
