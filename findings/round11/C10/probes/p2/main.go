package main

import (
	"fmt"

	ucfg "github.com/elastic/go-ucfg"
	"github.com/elastic/go-ucfg/cfgutil"
)

func dump(c *ucfg.Config) string {
	var m map[string]interface{}
	if err := c.Unpack(&m, ucfg.VarExp, ucfg.PathSep(".")); err != nil {
		var a []interface{}
		if err := c.Unpack(&a, ucfg.VarExp, ucfg.PathSep(".")); err != nil {
			return "ERR " + err.Error()
		}
		return fmt.Sprintf("%v path=%q parent=%p", a, c.Path("."), c.Parent())
	}
	return fmt.Sprintf("%v path=%q parent=%p", m, c.Path("."), c.Parent())
}

func main() {
	o := ucfg.PathSep(".")
	// (a) merge a child into its own parent, child holds a key named like itself
	root := ucfg.MustNewFrom(map[string]interface{}{"a": map[string]interface{}{"a": map[string]interface{}{"z": 1}, "k": 2}})
	child, _ := root.Child("a", -1)
	b := dump(child)
	root.Merge(child)
	fmt.Println("(a) child before:", b, "\n    child after: ", dump(child), "(destination contains the source: expected aliasing)")

	// (f) ping-pong
	s := ucfg.MustNewFrom(map[string]interface{}{"x": map[string]interface{}{"l": []interface{}{map[string]interface{}{"p": 1}}}})
	d := ucfg.New()
	d.Merge(s)
	s.Merge(d)
	d.Merge(map[string]interface{}{"x": s}, ucfg.AppendValues)
	bs, bd := dump(s), dump(d)
	d.SetInt("x.l.0.p", -1, 9, o)
	d.SetInt("x.x.l.0.p", -1, 9, o)
	fmt.Println("(f) s unchanged:", bs == dump(s))
	bd = dump(d)
	s.SetInt("x.l.0.p", -1, 5, o)
	s.Remove("x.l", 0, o)
	fmt.Println("(f) d unchanged:", bd == dump(d))

	// (c) collector
	col := cfgutil.NewCollector(nil, ucfg.PathSep("."))
	col.Add(s, nil)
	bs = dump(s)
	col.Config().SetInt("x.q", -1, 1, o)
	fmt.Println("(c) s unchanged:", bs == dump(s))
	col2 := cfgutil.NewCollector(s)
	fmt.Println("(c) NewCollector(cfg) keeps cfg itself (documented constructor, not a merge):", col2.Config() == s)

	// (h) array root with references, merged into zero value
	as := ucfg.MustNewFrom([]interface{}{map[string]interface{}{"v": "${0.w}", "w": 3}, "${0.w}"}, ucfg.VarExp, ucfg.PathSep("."))
	var z ucfg.Config
	bs = dump(as)
	z.Merge(as, ucfg.VarExp, ucfg.PathSep("."))
	z.Merge([]interface{}{as}, ucfg.PrependValues)
	fmt.Println("(h) as unchanged:", bs == dump(as), dump(&z))
	z.SetInt("0.0.w", -1, 8, o)
	z.SetInt("1.w", -1, 8, o)
	fmt.Println("(h) as unchanged:", bs == dump(as))

	// (i) unpack *Config then merge it elsewhere and mutate
	var st struct{ A *ucfg.Config }
	root2 := ucfg.MustNewFrom(map[string]interface{}{"a": map[string]interface{}{"k": []int{1, 2}}})
	root2.Unpack(&st)
	d2 := ucfg.New()
	d2.Merge(st)
	d2.Merge(&st)
	b2 := dump(root2)
	d2.SetInt("a.k", 0, 7, o)
	d2.Remove("a.k", 1, o)
	fmt.Println("(i) root2 unchanged:", b2 == dump(root2), "sub path", st.A.Path("."), st.A.Parent() == root2)
}
