package main

import (
	"fmt"

	ucfg "github.com/elastic/go-ucfg"
)

func main() {
	sub := ucfg.MustNewFrom(map[string]interface{}{"k": 1})
	st := struct {
		X int          `config:"x"`
		C *ucfg.Config `config:",inline"`
	}{1, sub}
	c, err := ucfg.NewFrom(st)
	fmt.Println(err)
	var m map[string]interface{}
	c.Unpack(&m)
	fmt.Println(m)
}
