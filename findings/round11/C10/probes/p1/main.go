package main

import (
	"fmt"
	"os"
	"reflect"

	ucfg "github.com/elastic/go-ucfg"
)

type MyCfg ucfg.Config

var bad = 0

func snap(c *ucfg.Config, opts ...ucfg.Option) string {
	var m interface{}
	var mm map[string]interface{}
	err := c.Unpack(&mm, opts...)
	m = mm
	if err != nil {
		var a []interface{}
		err2 := c.Unpack(&a, opts...)
		if err2 == nil {
			m = a
		} else {
			m = fmt.Sprintf("ERR %v", err)
		}
	}
	s := fmt.Sprintf("%#v|path=%q|parent=%p|keys=%v", m, c.Path("."), c.Parent(), c.FlattenedKeys())
	return s
}

func walk(c *ucfg.Config, pfx string, out *[]string) {
	*out = append(*out, fmt.Sprintf("%s:%q:%p", pfx, c.Path("."), c.Parent()))
	if len(pfx) > 24 {
		return
	}
	for _, k := range sorted(c.GetFields()) {
		if ch, err := c.Child(k, -1); err == nil {
			walk(ch, pfx+"/"+k, out)
		}
	}
	n, _ := c.CountField("")
	for i := 0; i < n; i++ {
		if ch, err := c.Child("", i); err == nil {
			walk(ch, fmt.Sprintf("%s/[%d]", pfx, i), out)
		}
	}
}
func sorted(s []string) []string {
	for i := range s {
		for j := i + 1; j < len(s); j++ {
			if s[j] < s[i] {
				s[i], s[j] = s[j], s[i]
			}
		}
	}
	return s
}

func full(c *ucfg.Config) string {
	var w []string
	walk(c, "", &w)
	return snap(c, ucfg.VarExp, ucfg.PathSep(".")) + fmt.Sprint(w)
}

func mkSrc() *ucfg.Config {
	return ucfg.MustNewFrom(map[string]interface{}{
		"a":   map[string]interface{}{"x": 1, "l": []interface{}{1, map[string]interface{}{"q": "z"}, []int{7, 8}}},
		"b":   "${a.x}",
		"r":   "${a}",
		"s":   "pre-${a.x}",
		"n":   nil,
		"arr": []interface{}{map[string]interface{}{"k": 1}, 2, "${a.x}"},
	}, ucfg.VarExp, ucfg.PathSep("."))
}

func mkDst() *ucfg.Config {
	return ucfg.MustNewFrom(map[string]interface{}{
		"a":   map[string]interface{}{"y": 2, "l": []interface{}{9, map[string]interface{}{"w": 1}}},
		"r":   map[string]interface{}{"own": 1},
		"n":   map[string]interface{}{"own": 1},
		"arr": []interface{}{map[string]interface{}{"d": 1}},
	}, ucfg.VarExp, ucfg.PathSep("."))
}

func check(name string, before, after string) {
	if before != after {
		bad++
		fmt.Printf("VIOLATION %s:\n  before %s\n  after  %s\n", name, before, after)
	}
}

func mutate(c *ucfg.Config) {
	o := ucfg.PathSep(".")
	c.SetInt("a.x", -1, 999, o)
	c.SetString("a.l.1.q", -1, "MUT", o)
	c.SetInt("a.l.2", 0, 555, o)
	c.SetInt("arr.0.k", -1, 777, o)
	c.SetInt("arr.0.new", -1, 777, o)
	c.Remove("a.l", 0, o)
	c.Remove("arr", 1, o)
	c.SetInt("r.z", -1, 4, o)
	c.SetInt("n.z", -1, 4, o)
	c.Remove("b", -1, o)
	c.Merge(map[string]interface{}{"a": map[string]interface{}{"l": []interface{}{map[string]interface{}{"deep": 1}, map[string]interface{}{"deep": 2}, map[string]interface{}{"deep": 3}}}})
	c.Merge(map[string]interface{}{"arr": []interface{}{map[string]interface{}{"deep": 1}}}, ucfg.AppendValues)
}

func main() {
	pols := map[string][]ucfg.Option{
		"default": {}, "replace": {ucfg.ReplaceValues}, "append": {ucfg.AppendValues}, "prepend": {ucfg.PrependValues},
		"repArr": {ucfg.ReplaceArrValues}, "fieldapp": {ucfg.FieldAppendValues("arr"), ucfg.FieldReplaceValues("a")},
	}
	wraps := map[string]func(s *ucfg.Config) interface{}{
		"ptr":      func(s *ucfg.Config) interface{} { return s },
		"val":      func(s *ucfg.Config) interface{} { return *s },
		"rebrand":  func(s *ucfg.Config) interface{} { return (*MyCfg)(s) },
		"rebrandv": func(s *ucfg.Config) interface{} { return *(*MyCfg)(s) },
		"map":      func(s *ucfg.Config) interface{} { return map[string]interface{}{"a": s, "w": s} },
		"mapv":     func(s *ucfg.Config) interface{} { return map[string]interface{}{"a": *s, "w": (*MyCfg)(s)} },
		"mapT":     func(s *ucfg.Config) interface{} { return map[string]*ucfg.Config{"a": s, "arr": s} },
		"slice":    func(s *ucfg.Config) interface{} { return map[string]interface{}{"arr": []interface{}{s, s}} },
		"sliceT":   func(s *ucfg.Config) interface{} { return map[string]interface{}{"arr": []*ucfg.Config{s}, "a": []ucfg.Config{*s}} },
		"struct": func(s *ucfg.Config) interface{} {
			return struct {
				A *ucfg.Config `config:"a"`
				B ucfg.Config  `config:"w"`
				C *ucfg.Config `config:"w"`
				D *MyCfg       `config:"a.sub"`
			}{s, *s, s, (*MyCfg)(s)}
		},
		"child": func(s *ucfg.Config) interface{} { c, _ := s.Child("a", -1); return map[string]interface{}{"a": c, "r": c} },
		"childtop": func(s *ucfg.Config) interface{} { c, _ := s.Child("a", -1); return c },
		"arrchild": func(s *ucfg.Config) interface{} { c, _ := s.Child("arr", -1); return c },
		"refchild": func(s *ucfg.Config) interface{} { c, _ := s.Child("r", -1); return map[string]interface{}{"a": c} },
	}
	for pn, p := range pols {
		for wn, w := range wraps {
			for _, zero := range []bool{false, true} {
				name := fmt.Sprintf("%s/%s/zero=%v", pn, wn, zero); _ = 0
				src := mkSrc()
				var dst *ucfg.Config
				if zero {
					dst = &ucfg.Config{}
				} else {
					dst = mkDst()
				}
				b := full(src)
				opts := append([]ucfg.Option{ucfg.VarExp, ucfg.PathSep(".")}, p...)
				if err := dst.Merge(w(src), opts...); err != nil {
					fmt.Println("merge err", name, err)
				}
				check(name+" src after merge", b, full(src))
				// second merge
				dst.Merge(w(src), opts...)
				check(name+" src after merge2", b, full(src))
				d := full(dst)
				mutate(src)
				check(name+" dst after src mutation", d, full(dst))
				src = mkSrc()
				dst = mkDst()
				dst.Merge(w(src), opts...)
				b = full(src)
				mutate(dst)
				// also mutate under the wrapped keys
				o := ucfg.PathSep(".")
				dst.SetInt("w.a.x", -1, 31337, o)
				dst.SetInt("a.a.x", -1, 31337, o)
				dst.SetInt("a.sub.a.x", -1, 31337, o)
				dst.SetInt("arr.0.a.x", -1, 31337, o)
				dst.SetInt("arr.1.a.x", -1, 31337, o)
				dst.SetInt("a.0.a.x", -1, 31337, o)
				dst.Remove("a.a", -1, o)
				dst.Remove("arr.0.arr", 0, o)
				dst.SetInt("a.l.1.q", -1, 1, o)
				dst.SetInt("k", -1, 1, o)
				dst.SetInt("", 0, 1, o)
				check(name+" src after dst mutation", b, full(src))
			}
		}
	}
	_ = reflect.TypeOf
	if bad > 0 {
		os.Exit(1)
	}
	fmt.Println("no violation")
}
