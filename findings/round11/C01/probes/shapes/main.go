package main

import (
	"fmt"

	ucfg "github.com/elastic/go-ucfg"
)

type m = map[string]interface{}
type l = []interface{}

type inner struct {
	X int
	P *int
}
type src struct {
	A  *inner
	M  map[string]int
	L  []int
	I  interface{}
	In inner
}

func show(name string, a interface{}, b interface{}, opts ...ucfg.Option) {
	c := ucfg.MustNewFrom(a)
	if err := c.Merge(b, opts...); err != nil {
		fmt.Println(name, "ERR", err)
		return
	}
	var out interface{}
	if c.IsArray() && !c.IsDict() {
		var o l
		if err := c.Unpack(&o); err != nil {
			fmt.Println(name, "UNPACK ERR", err)
			return
		}
		out = o
	} else {
		o := m{}
		if err := c.Unpack(&o); err != nil {
			fmt.Println(name, "UNPACK ERR", err)
			return
		}
		out = o
	}
	fmt.Printf("%-40s %#v\n", name, out)
}

func main() {
	base := m{"a": m{"k": 1}, "m": m{"k": 1}, "l": l{1, 2}, "i": m{"k": 1}, "in": m{"k": 1, "p": m{"q": 1}}}
	show("struct zero over containers", base, src{})
	show("struct zero, replace", base, src{}, ucfg.ReplaceValues)
	show("struct zero, arr replace", base, src{}, ucfg.ReplaceArrValues)
	show("struct zero, append", base, src{}, ucfg.AppendValues)
	show("prim over object", m{"a": m{"k": 1}}, m{"a": 5})
	show("object over prim", m{"a": 5}, m{"a": m{"k": 1}})
	show("array over dict", m{"a": m{"k": 1}}, m{"a": l{7}})
	show("dict over array", m{"a": l{7}}, m{"a": m{"k": 1}})
	show("empty dict over prim", m{"a": 5, "b": 1}, m{"a": m{}})
	show("empty list over prim", m{"a": 5, "b": 1}, m{"a": l{}})
	show("nil over prim", m{"a": 5, "b": 1}, m{"a": nil})
	show("nil elem over container elem", m{"a": l{m{"k": 1}, 2}}, m{"a": l{nil, nil}})
	show("longer B default", m{"a": l{1}}, m{"a": l{nil, 2, 3}})
	show("shorter B default", m{"a": l{1, 2, 3}}, m{"a": l{9}})
	show("prepend nested", m{"a": l{m{"b": l{1}}}}, m{"a": l{m{"b": l{2}}}}, ucfg.PrependValues)
	show("append nested in dict", m{"a": m{"b": l{1}}}, m{"a": m{"b": l{2}, "c": l{3}}}, ucfg.AppendValues)
	show("replace nested empty", m{"a": m{"b": l{1}, "d": m{"x": 1}}}, m{"a": m{"b": l{}, "d": m{}}}, ucfg.ReplaceValues)
	show("arr replace nested", m{"a": m{"b": l{1, 2}, "d": m{"x": 1}}}, m{"a": m{"b": l{3}, "d": m{"y": 1}}}, ucfg.ReplaceArrValues)
	show("pathsep overlap", m{"a": m{"b": 1}}, m{"a.c": 2, "a": m{"d": 3}}, ucfg.PathSep("."))
	show("top-level list into dict", m{"a": 1}, l{1, 2})
	show("top-level dict into list", l{1, 2}, m{"a": 1})
}
