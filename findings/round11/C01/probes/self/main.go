package main

import (
	"fmt"
	"math/rand"
	"os"
	"reflect"

	ucfg "github.com/elastic/go-ucfg"
)

func gen(r *rand.Rand, depth int) interface{} {
	n := r.Intn(10)
	if depth <= 0 && n >= 4 {
		n = r.Intn(4)
	}
	switch {
	case n == 0:
		return nil
	case n <= 2:
		return uint64(r.Intn(5) + 1)
	case n == 3:
		return fmt.Sprintf("s%d", r.Intn(5))
	case n <= 6:
		return genMap(r, depth-1)
	default:
		l := r.Intn(4)
		out := make([]interface{}, l)
		for i := range out {
			out[i] = gen(r, depth-1)
		}
		return out
	}
}

func genMap(r *rand.Rand, depth int) map[string]interface{} {
	m := map[string]interface{}{}
	l := r.Intn(4)
	for i := 0; i < l; i++ {
		m[string(rune('a'+r.Intn(4)))] = gen(r, depth)
	}
	return m
}

func unpack(c *ucfg.Config) map[string]interface{} {
	m := map[string]interface{}{}
	if err := c.Unpack(&m); err != nil {
		panic(err)
	}
	return m
}

func main() {
	r := rand.New(rand.NewSource(7))
	bad := 0
	pols := [][]ucfg.Option{nil, {ucfg.ReplaceValues}, {ucfg.ReplaceArrValues}, {ucfg.AppendValues}, {ucfg.PrependValues}}
	for it := 0; it < 50000 && bad < 5; it++ {
		src := genMap(r, 3)
		for pi, pol := range pols {
			// identity both directions
			c := ucfg.MustNewFrom(src)
			before := unpack(c)
			if err := c.Merge(ucfg.New(), pol...); err != nil {
				panic(err)
			}
			if err := c.Merge(map[string]interface{}{}, pol...); err != nil {
				panic(err)
			}
			if !reflect.DeepEqual(before, unpack(c)) {
				bad++
				fmt.Println("empty into c changed", pi, src)
			}
			e := ucfg.New()
			if err := e.Merge(c, pol...); err != nil {
				panic(err)
			}
			if !reflect.DeepEqual(before, unpack(e)) {
				bad++
				fmt.Printf("c into empty differs pol=%d\n src=%#v\n got=%#v\n", pi, before, unpack(e))
			}
			// self merge
			if pi <= 2 {
				if err := c.Merge(c, pol...); err != nil {
					panic(err)
				}
				if !reflect.DeepEqual(before, unpack(c)) {
					bad++
					fmt.Printf("self merge changed pol=%d\n before=%#v\n after=%#v\n", pi, before, unpack(c))
				}
				// merge a copy
				if err := c.Merge(ucfg.MustNewFrom(src), pol...); err != nil {
					panic(err)
				}
				if !reflect.DeepEqual(before, unpack(c)) {
					bad++
					fmt.Printf("copy merge changed pol=%d\n before=%#v\n after=%#v\n", pi, before, unpack(c))
				}
			}
		}
	}
	// arrays at top level: append self
	for _, pol := range pols[3:] {
		c := ucfg.MustNewFrom([]interface{}{1, "x", map[string]interface{}{"a": 1}})
		if err := c.Merge(c, pol...); err != nil {
			panic(err)
		}
		var out []interface{}
		if err := c.Unpack(&out); err != nil {
			panic(err)
		}
		fmt.Printf("self append/prepend: %#v\n", out)
		if len(out) != 6 {
			bad++
		}
	}
	if bad > 0 {
		os.Exit(1)
	}
	fmt.Println("ok")
}
