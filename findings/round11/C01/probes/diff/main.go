package main

import (
	"fmt"
	"math/rand"
	"os"
	"reflect"

	ucfg "github.com/elastic/go-ucfg"
)

type node struct {
	d map[string]interface{}
	a []interface{} // non-nil => has array part
}

func gen(r *rand.Rand, depth int) interface{} {
	n := r.Intn(10)
	if depth <= 0 && n >= 4 {
		n = r.Intn(4)
	}
	switch {
	case n == 0:
		return nil
	case n <= 2:
		return uint64(r.Intn(5) + 1)
	case n == 3:
		return fmt.Sprintf("s%d", r.Intn(5))
	case n <= 6:
		return genMap(r, depth-1)
	default:
		l := r.Intn(4)
		out := make([]interface{}, l)
		for i := range out {
			out[i] = gen(r, depth-1)
		}
		return out
	}
}

func genMap(r *rand.Rand, depth int) map[string]interface{} {
	m := map[string]interface{}{}
	l := r.Intn(4)
	for i := 0; i < l; i++ {
		m[string(rune('a'+r.Intn(4)))] = gen(r, depth)
	}
	return m
}

func toModel(x interface{}) interface{} {
	switch v := x.(type) {
	case map[string]interface{}:
		n := &node{}
		for k, e := range v {
			if n.d == nil {
				n.d = map[string]interface{}{}
			}
			n.d[k] = toModel(e)
		}
		return n
	case []interface{}:
		n := &node{a: []interface{}{}}
		for _, e := range v {
			n.a = append(n.a, toModel(e))
		}
		return n
	}
	return x
}

func cp(x interface{}) interface{} {
	n, ok := x.(*node)
	if !ok {
		return x
	}
	o := &node{}
	for k, e := range n.d {
		if o.d == nil {
			o.d = map[string]interface{}{}
		}
		o.d[k] = cp(e)
	}
	if n.a != nil {
		o.a = []interface{}{}
		for _, e := range n.a {
			o.a = append(o.a, cp(e))
		}
	}
	return o
}

const (
	pDefault = iota
	pReplace
	pArrReplace
	pAppend
	pPrepend
)

func mergeVal(old, v interface{}, pol int) interface{} {
	if old == nil {
		return cp(v)
	}
	on, ok := old.(*node)
	if !ok {
		return cp(v)
	}
	if v == nil {
		return on
	}
	vn, ok := v.(*node)
	if !ok {
		return v
	}
	mergeNode(on, vn, pol)
	return on
}

func mergeNode(to, from *node, pol int) {
	if len(from.d) > 0 {
		if pol == pReplace {
			to.d = nil
		}
		for k, v := range from.d {
			var old interface{}
			if to.d != nil {
				old = to.d[k]
			}
			if to.d == nil {
				to.d = map[string]interface{}{}
			}
			to.d[k] = mergeVal(old, v, pol)
		}
	}
	fa := from.a
	switch pol {
	case pReplace, pArrReplace:
		if len(fa) > 0 {
			to.a = cp(&node{a: fa}).(*node).a
		}
	case pPrepend:
		if len(fa) > 0 {
			to.a = append(cp(&node{a: fa}).(*node).a, to.a...)
		}
	case pAppend:
		if len(fa) > 0 {
			to.a = append(to.a, cp(&node{a: fa}).(*node).a...)
		}
	default:
		for i, v := range fa {
			if i < len(to.a) {
				to.a[i] = mergeVal(to.a[i], v, pol)
			} else {
				to.a = append(to.a, cp(v))
			}
		}
		if fa != nil && to.a == nil && len(fa) == 0 {
			// nothing
		}
	}
}

func reify(x interface{}) interface{} {
	n, ok := x.(*node)
	if !ok {
		return x
	}
	switch {
	case len(n.d) == 0 && len(n.a) == 0 && n.a != nil:
		return []interface{}{}
	case len(n.d) == 0 && len(n.a) == 0:
		return nil
	case len(n.a) == 0:
		m := map[string]interface{}{}
		for k, v := range n.d {
			m[k] = reify(v)
		}
		return m
	case len(n.d) == 0:
		m := make([]interface{}, len(n.a))
		for i, v := range n.a {
			m[i] = reify(v)
		}
		return m
	default:
		m := map[string]interface{}{}
		for k, v := range n.d {
			m[k] = reify(v)
		}
		for i, v := range n.a {
			m[fmt.Sprint(i)] = reify(v)
		}
		return m
	}
}

func polOpts(p int) []ucfg.Option {
	switch p {
	case pReplace:
		return []ucfg.Option{ucfg.ReplaceValues}
	case pArrReplace:
		return []ucfg.Option{ucfg.ReplaceArrValues}
	case pAppend:
		return []ucfg.Option{ucfg.AppendValues}
	case pPrepend:
		return []ucfg.Option{ucfg.PrependValues}
	}
	return nil
}

func main() {
	r := rand.New(rand.NewSource(1))
	bad := 0
	for it := 0; it < 200000 && bad < 8; it++ {
		chain := 2 + r.Intn(2)
		pol := r.Intn(5)
		var srcs []map[string]interface{}
		for i := 0; i < chain; i++ {
			srcs = append(srcs, genMap(r, 3))
		}
		model := &node{}
		c := ucfg.New()
		failed := false
		asCfg := r.Intn(2) == 0
		for _, s := range srcs {
			mergeNode(model, toModel(s).(*node), pol)
			var from interface{} = s
			if asCfg {
				from = ucfg.MustNewFrom(s)
			}
			if err := c.Merge(from, polOpts(pol)...); err != nil {
				fmt.Println("merge error", err, srcs)
				failed = true
				break
			}
		}
		if failed {
			bad++
			continue
		}
		var got interface{}
		gm := map[string]interface{}{}
		if err := c.Unpack(&gm); err != nil {
			fmt.Println("unpack error", err, srcs)
			bad++
			continue
		}
		got = gm
		want := reify(model)
		if want == nil {
			want = map[string]interface{}{}
		}
		if wm, ok := want.(map[string]interface{}); ok {
			for k, v := range wm {
				if v == nil {
					delete(wm, k)
				}
			}
		}
		for k, v := range gm {
			if v == nil {
				delete(gm, k)
			}
		}
		if !reflect.DeepEqual(got, want) {
			bad++
			fmt.Printf("MISMATCH pol=%d cfg=%v\n srcs=%#v\n got =%#v\n want=%#v\n", pol, asCfg, srcs, got, want)
		}
	}
	if bad > 0 {
		os.Exit(1)
	}
	fmt.Println("ok")
}
