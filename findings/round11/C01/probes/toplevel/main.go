package main

import (
	"fmt"

	ucfg "github.com/elastic/go-ucfg"
)

func main() {
	c := ucfg.MustNewFrom(map[string]interface{}{"a": 1})
	fmt.Println(c.Merge([]interface{}{1, 2}))
	m := map[string]interface{}{}
	fmt.Println(c.Unpack(&m), m)
	var l []interface{}
	fmt.Println(c.Unpack(&l), l)
	h := ucfg.MustNewFrom(map[string]interface{}{"k": c})
	hm := map[string]interface{}{}
	fmt.Println(h.Unpack(&hm), hm)
}
