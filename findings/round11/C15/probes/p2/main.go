package main

import (
	"fmt"

	ucfg "github.com/elastic/go-ucfg"
	"github.com/elastic/go-ucfg/diff"
)

func main() {
	// A. Unpack into *Config field: is the unpacked node the tree's node?
	{
		c := ucfg.MustNewFrom(map[string]interface{}{"sub": map[string]interface{}{"x": map[string]interface{}{"y": 1}}})
		var out struct {
			Sub *ucfg.Config `config:"sub"`
		}
		if err := c.Unpack(&out); err != nil {
			fmt.Println(err)
		}
		ch, _ := c.Child("sub", -1)
		fmt.Println("unpack: same node:", ch == out.Sub, "path:", out.Sub.Path("."), "parent==c:", out.Sub.Parent() == c)
		x, _ := out.Sub.Child("x", -1)
		fmt.Println("unpack: x path:", x.Path("."), "parent==out.Sub:", x.Parent() == out.Sub)
	}
	// B. move a list element to another index of the same list, then remove
	{
		c := ucfg.MustNewFrom(map[string]interface{}{"l": []interface{}{
			map[string]interface{}{"a": 1}, map[string]interface{}{"b": 1}, map[string]interface{}{"c": 1}}})
		e0, _ := c.Child("l", 0)
		c.SetChild("l", 2, e0)
		fmt.Println("samelist keys:", c.FlattenedKeys())
		c.Remove("l", 1)
		fmt.Println("samelist keys after remove:", c.FlattenedKeys())
		x, _ := c.Child("l", 0)
		fmt.Println("l.0 path:", x.Path("."))
	}
	// C. replace merge with arrays then paths
	{
		c := ucfg.MustNewFrom(map[string]interface{}{"l": []interface{}{map[string]interface{}{"a": 1}, 2, 3}})
		c.Merge(map[string]interface{}{"l": []interface{}{map[string]interface{}{"z": 1}}}, ucfg.ReplaceValues)
		fmt.Println("replace keys:", c.FlattenedKeys())
	}
	// D. SetChild with path creating intermediates at index
	{
		c := ucfg.New()
		s := ucfg.MustNewFrom(map[string]interface{}{"q": 1})
		c.SetChild("a.2.b", -1, s, ucfg.PathSep("."))
		fmt.Println("deep keys:", c.FlattenedKeys())
		n, _ := c.Child("a.2.b", -1, ucfg.PathSep("."))
		fmt.Println("deep path:", n.Path("."), n.Parent().Path("."), n.Parent().Parent().Path("."))
	}
	// E. diff with different PathSep and keys containing the separator
	{
		a := ucfg.MustNewFrom(map[string]interface{}{"a.b": 1})
		b := ucfg.MustNewFrom(map[string]interface{}{"a": map[string]interface{}{"b": 1}})
		fmt.Println("sepdiff:", diff.CompareConfigs(a, b), a.FlattenedKeys(), b.FlattenedKeys())
	}
	// F. field-level append via struct tag moves elements
	{
		type T struct {
			L []interface{} `config:"l,append"`
		}
		c := ucfg.MustNewFrom(map[string]interface{}{"l": []interface{}{map[string]interface{}{"a": 1}}})
		c.Merge(T{L: []interface{}{map[string]interface{}{"b": []int{1}}}})
		fmt.Println("tag append keys:", c.FlattenedKeys())
		if n, err := c.Child("l", 1); err == nil {
			fmt.Println("l.1 path:", n.Path("."), n.Parent().Path("."))
		}
	}
	// G. prepend via FieldPrependValues on nested list
	{
		c := ucfg.MustNewFrom(map[string]interface{}{"m": map[string]interface{}{"l": []interface{}{map[string]interface{}{"a": []int{1}}}}}, ucfg.PathSep("."))
		c.Merge(map[string]interface{}{"m": map[string]interface{}{"l": []interface{}{map[string]interface{}{"b": 1}}}}, ucfg.PathSep("."), ucfg.FieldPrependValues("m.l"))
		fmt.Println("field prepend keys:", c.FlattenedKeys())
		n, _ := c.Child("m.l", 1, ucfg.PathSep("."))
		fmt.Println("m.l.1 path:", n.Path("."), n.Parent().Path("."))
	}
}
