package main

import (
	"fmt"

	ucfg "github.com/elastic/go-ucfg"
	"github.com/elastic/go-ucfg/diff"
)

func walk(c *ucfg.Config, want string, parent *ucfg.Config, label string) {
	if got := c.Path("."); got != want {
		fmt.Printf("[%s] PATH MISMATCH want %q got %q\n", label, want, got)
	}
	if c.Parent() != parent {
		fmt.Printf("[%s] PARENT MISMATCH at %q\n", label, want)
	}
	for _, k := range c.GetFields() {
		ch, err := c.Child(k, -1, ucfg.PathSep(""), ucfg.EnableNumKeys(true))
		if err != nil {
			continue
		}
		p := k
		if want != "" || parent != nil {
			p = want + "." + k
		}
		walk(ch, p, c, label)
	}
	n, _ := c.CountField("")
	n -= len(c.GetFields())
	for i := 0; i < n; i++ {
		ch, err := c.Child("", i)
		if err != nil {
			continue
		}
		p := fmt.Sprint(i)
		if want != "" || parent != nil {
			p = want + "." + p
		}
		walk(ch, p, c, label)
	}
}

func main() {
	// 1. re-attached child at two places
	{
		c := ucfg.New()
		sub := ucfg.MustNewFrom(map[string]interface{}{"x": 1})
		c.SetChild("a", -1, sub)
		c.SetChild("b", -1, sub)
		walk(c, "", nil, "reattach")
		fmt.Println("reattach keys:", c.FlattenedKeys())
	}
	// 2. remove from middle of list
	{
		c := ucfg.MustNewFrom(map[string]interface{}{"l": []interface{}{
			map[string]interface{}{"a": 1}, map[string]interface{}{"b": 2}, map[string]interface{}{"c": []int{1, 2}}, 7}})
		c.Remove("l", 1)
		walk(c, "", nil, "remove")
		fmt.Println("remove keys:", c.FlattenedKeys())
	}
	// 3. prepend
	{
		c := ucfg.MustNewFrom(map[string]interface{}{"l": []interface{}{
			map[string]interface{}{"a": 1}, 5}})
		c.Merge(map[string]interface{}{"l": []interface{}{map[string]interface{}{"z": []int{1}}}}, ucfg.PrependValues)
		walk(c, "", nil, "prepend")
		fmt.Println("prepend keys:", c.FlattenedKeys())
	}
	// 4. SetChild with idx beyond end, then SetInt at dict with idx
	{
		c := ucfg.New()
		sub := ucfg.MustNewFrom(map[string]interface{}{"x": 1})
		c.SetChild("l", 3, sub)
		c.SetInt("", 0, 4)
		c.SetInt("d.e.2.f", -1, 4, ucfg.PathSep("."))
		walk(c, "", nil, "setidx")
		fmt.Println("setidx keys:", c.FlattenedKeys())
	}
	// 5. Child of root list merged into named
	{
		src := ucfg.MustNewFrom([]interface{}{map[string]interface{}{"a": 1}, 2})
		el, _ := src.Child("", 0)
		c := ucfg.New()
		c.SetChild("k", -1, el)
		walk(c, "", nil, "moved")
		walk(src, "", nil, "moved-src")
		fmt.Println("moved keys:", c.FlattenedKeys(), src.FlattenedKeys())
	}
	// 6. merge config into itself
	{
		c := ucfg.MustNewFrom(map[string]interface{}{"l": []interface{}{map[string]interface{}{"a": 1}}, "m": map[string]interface{}{"q": 1}})
		c.Merge(c, ucfg.AppendValues)
		walk(c, "", nil, "self")
		fmt.Println("self keys:", c.FlattenedKeys())
		d := diff.CompareConfigs(c, c)
		fmt.Println("self diff changed:", d.HasChanged())
	}
	// 7. nested merge of child into own parent
	{
		c := ucfg.MustNewFrom(map[string]interface{}{"m": map[string]interface{}{"q": 1, "l": []int{1, 2}}})
		m, _ := c.Child("m", -1)
		c.Merge(m)
		walk(c, "", nil, "childmerge")
		fmt.Println("childmerge keys:", c.FlattenedKeys())
	}
	// 8. empty key names
	{
		c := ucfg.MustNewFrom(map[string]interface{}{"": map[string]interface{}{"": map[string]interface{}{"x": 1}}})
		walk(c, "", nil, "emptyname")
		fmt.Printf("emptyname keys: %q\n", c.FlattenedKeys())
	}
	// 9. diff with nil values & mixed
	{
		a := ucfg.MustNewFrom(map[string]interface{}{"a": nil, "b": 1, "l": []interface{}{nil, 1}})
		b := ucfg.MustNewFrom(map[string]interface{}{"a": 1, "b": nil, "l": []interface{}{1, nil}})
		fmt.Println("nil diff:", diff.CompareConfigs(a, b), "|", a.FlattenedKeys(), b.FlattenedKeys())
	}
}
