package main

import (
	"fmt"

	ucfg "github.com/elastic/go-ucfg"
)

func main() {
	sep := ucfg.PathSep(".")
	// P1: child of nil pad is not live
	{
		c := ucfg.New()
		c.SetInt("", 2, 7)
		ch, err := c.Child("", 0)
		fmt.Println("P1 child of nil pad:", ch != nil, err)
		if ch != nil {
			ch.SetInt("x", -1, 1)
			ok, err := c.Has("0.x", -1, sep)
			fmt.Println("P1 parent sees 0.x:", ok, err)
		}
	}
	// P2: child handle stale after Merge
	{
		c := ucfg.New()
		c.SetInt("a.x", -1, 1, sep)
		ch, _ := c.Child("a", -1)
		c.Merge(map[string]interface{}{"a": map[string]interface{}{"y": 2}})
		ch.SetInt("z", -1, 3)
		ok, err := c.Has("a.z", -1, sep)
		okc, _ := ch.Has("y", -1)
		fmt.Println("P2 parent sees a.z after merge:", ok, err, "child sees y:", okc)
	}
	// P3: hex/octal/underscore/plus names
	{
		for _, n := range []string{"0x3", "010", "+2", "1_0", "0b11", "-1", "00"} {
			c := ucfg.New()
			err := c.SetInt(n, -1, 1)
			cnt, _ := c.CountField("")
			fmt.Printf("P3 name %q: err=%v count=%d isArr=%v isDict=%v\n", n, err, cnt, c.IsArray(), c.IsDict())
		}
	}
	// P4: primitive as list
	{
		c := ucfg.New()
		c.SetInt("a", -1, 5)
		v, err := c.Int("a", 0)
		h, herr := c.Has("a", 0)
		h1, herr1 := c.Has("a", 1)
		r, rerr := c.Remove("a", 0)
		fmt.Println("P4:", v, err, h, herr, h1, herr1, r, rerr)
		v2, err2 := c.Int("a.0.0.0", -1, sep)
		fmt.Println("P4b:", v2, err2)
		_, e3 := c.Int("a.b", -1, sep)
		_, e4 := c.Has("a.b", -1, sep)
		fmt.Println("P4c:", e3, "|", e4)
	}
	// P5: remove last elem; IsArray, CountField
	{
		c := ucfg.New()
		c.SetInt("l", 0, 1)
		c.Remove("l", 0)
		n, err := c.CountField("l")
		ch, _ := c.Child("l", -1)
		fmt.Println("P5:", n, err, ch.IsArray(), ch.IsDict())
		c.SetInt("d.k", -1, 1, sep)
		c.Remove("d.k", -1, sep)
		n, err = c.CountField("d")
		ch, _ = c.Child("d", -1)
		fmt.Println("P5b:", n, err, ch.IsArray(), ch.IsDict())
	}
	// P6: SetChild same config under two names: aliasing; and set over itself
	{
		c := ucfg.New()
		s := ucfg.New()
		s.SetInt("x", -1, 1)
		c.SetChild("a", -1, s)
		c.SetChild("b", -1, s)
		c.SetInt("a.x", -1, 2, sep)
		v, _ := c.Int("b.x", -1, sep)
		fmt.Println("P6 b.x after writing a.x:", v)
	}
	// P7: remove shifting & child handles
	{
		c := ucfg.New()
		for i := 0; i < 3; i++ {
			c.SetInt(fmt.Sprintf("l.%d.v", i), -1, int64(i), sep)
		}
		ch2, _ := c.Child("l", 2)
		c.Remove("l", 0)
		ch2.SetInt("w", -1, 9)
		v, err := c.Int("l.1.w", -1, sep)
		fmt.Println("P7:", v, err, ch2.Path("."))
	}
	// P8: name+idx where name empty and idx -1; negative idx
	{
		c := ucfg.New()
		fmt.Println("P8:", c.SetInt("", -1, 1))
		_, err := c.Has("", -1)
		fmt.Println("P8b:", err)
		fmt.Println("P8c:", c.SetInt("a", -2, 1))
		ok, _ := c.Has("a", -1)
		v, e := c.Int("a", -1)
		fmt.Println("P8d: a exists after idx -2 write:", ok, v, e)
	}
	// P9: writing a.b when a is primitive; a.0 when a dict
	{
		c := ucfg.New()
		c.SetInt("a", -1, 1)
		fmt.Println("P9:", c.SetInt("a.b", -1, 2, sep))
		c.SetInt("d.k", -1, 1, sep)
		fmt.Println("P9b:", c.SetInt("d", 1, 2))
		ch, _ := c.Child("d", -1)
		n, _ := c.CountField("d")
		fmt.Println("P9c:", ch.IsArray(), ch.IsDict(), n)
		s, e := c.String("d", 0)
		fmt.Println("P9d:", s, e)
	}
}
