package main

import (
	"fmt"

	ucfg "github.com/elastic/go-ucfg"
)

func main() {
	sep := ucfg.PathSep(".")
	// P10: removed child keeps its parent link: re-parenting the old root under it is refused
	{
		c := ucfg.New()
		c.SetInt("a.x", -1, 1, sep)
		ch, _ := c.Child("a", -1)
		ok, _ := c.Remove("a", -1)
		err := ch.SetChild("p", -1, c)
		fmt.Println("P10 removed:", ok, "SetChild(old parent) under detached child:", err)
	}
	// P11: overwritten child likewise
	{
		c := ucfg.New()
		c.SetInt("a.x", -1, 1, sep)
		ch, _ := c.Child("a", -1)
		c.SetInt("a", -1, 5)
		err := ch.SetChild("p", -1, c)
		fmt.Println("P11 SetChild under overwritten child:", err)
	}
	// P12: list + dict in one node; CountField(name) for dict-with-list
	{
		c := ucfg.New()
		c.SetInt("n.k", -1, 1, sep)
		c.SetInt("n", 0, 2)
		c.Remove("n", 0)
		n, err := c.CountField("n")
		fmt.Println("P12 CountField of dict whose list part was emptied:", n, err)
	}
	// P13: Merge of list onto padded list keeps nils?
	{
		c := ucfg.New()
		c.SetInt("", 2, 1)
		err := c.Merge([]interface{}{nil, 5})
		s0, _ := c.String("", 0)
		s1, _ := c.String("", 1)
		n, _ := c.CountField("")
		fmt.Println("P13:", err, s0, s1, n)
	}
	// P14: a.0 path equivalence on write: name+idx vs dotted, hex index
	{
		c := ucfg.New()
		c.SetInt("a", 2, 7)
		v1, e1 := c.Int("a.2", -1, sep)
		v2, e2 := c.Int("a.0x2", -1, sep)
		fmt.Println("P14:", v1, e1, v2, e2)
	}
}
