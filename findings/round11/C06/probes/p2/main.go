package main

import (
	"fmt"
	"reflect"
	"strings"

	ucfg "github.com/elastic/go-ucfg"
)

type Inner struct{ X int }

type S1 struct {
	Name  string `config:"name"`
	Table []int  `config:",inline"`
}
type S2 struct {
	A [2]*Inner
}
type S3 struct {
	E Inner // embedded-like named
	Inner
}
type S4 struct {
	A int `config:"x"`
	B struct {
		C int `config:"x"`
	} `config:",inline"`
}

func rt(name string, in interface{}, opts ...ucfg.Option) {
	c, err := ucfg.NewFrom(in, opts...)
	if err != nil {
		fmt.Printf("%-20s MERGE ERR %s\n", name, strings.SplitN(err.Error(), "\n", 2)[0])
		return
	}
	out := reflect.New(reflect.TypeOf(in).Elem())
	if err := c.Unpack(out.Interface(), opts...); err != nil {
		fmt.Printf("%-20s UNPACK ERR %s\n", name, strings.SplitN(err.Error(), "\n", 2)[0])
		return
	}
	if reflect.DeepEqual(in, out.Interface()) {
		fmt.Printf("%-20s ok\n", name)
	} else {
		fmt.Printf("%-20s DIFF in=%+v out=%+v\n", name, reflect.ValueOf(in).Elem().Interface(), out.Elem().Interface())
	}
}

func main() {
	rt("inline slice", &S1{"n", []int{1, 2}})
	rt("array of ptr struct", &S2{[2]*Inner{{1}, {2}}})
	rt("embedded", &S3{Inner{1}, Inner{2}})
	rt("inline dup name", &S4{A: 1})
}
