package main

import (
	"fmt"
	"math"
	"reflect"
	"regexp"
	"time"

	ucfg "github.com/elastic/go-ucfg"
)

func rt(name string, in interface{}, opts ...ucfg.Option) {
	defer func() {
		if r := recover(); r != nil {
			fmt.Printf("%-28s PANIC %v\n", name, r)
		}
	}()
	c, err := ucfg.NewFrom(in, opts...)
	if err != nil {
		fmt.Printf("%-28s MERGE ERR %v\n", name, err)
		return
	}
	out := reflect.New(reflect.TypeOf(in).Elem())
	if err := c.Unpack(out.Interface(), opts...); err != nil {
		fmt.Printf("%-28s UNPACK ERR %v\n", name, err)
		return
	}
	a, b := fmt.Sprintf("%+v", reflect.ValueOf(in).Elem().Interface()), fmt.Sprintf("%+v", out.Elem().Interface())
	if reflect.DeepEqual(in, out.Interface()) {
		fmt.Printf("%-28s ok\n", name)
	} else {
		fmt.Printf("%-28s DIFF in=%s out=%s\n", name, a, b)
	}
}

type Inner struct{ X int }

type T1 struct{ M map[string]int }
type T2 struct {
	A int
	M map[string]int `config:",inline"`
}
type T3 struct{ P *[2]int }
type T4 struct{ U uintptr }
type T5 struct {
	*Inner `config:",inline"`
}
type T6 struct{ D time.Duration }
type T7 struct{ R regexp.Regexp }
type T8 struct{ L []*[2]int }
type T9 struct{ F float32 }
type T10 struct {
	A int `config:"0"`
	B int `config:"x"`
}
type T11 struct {
	I Inner `config:",inline"`
	J *Inner
}
type T12 struct{ M map[string]interface{} }
type T13 struct{ S []string }
type T14 struct {
	A int `config:"a.b"`
	B int `config:"a.c"`
}
type T15 struct{ PP **int }
type T16 struct{ A [2][]int }
type T17 struct{ M map[string]*Inner }
type T18 struct{ I int64; U uint64; I8 int8 }
type T19 struct{ R *regexp.Regexp }
type T20 struct{ S string }
type T21 struct{ A [0]int; B []struct{} }
type T22 struct{ M *map[string]int }
type T23 struct{ S *[]int }
type T24 struct{ B []byte }
type T25 struct{ M map[string][]int }
type T26 struct{ L []map[string]int }
type T27 struct{ L [][]int }
type MyS string
type T28 struct{ M map[MyS]MyS }
type T29 struct {
	A int `config:"a"`
	B Inner `config:"a.x"`
}

func main() {
	ps := ucfg.PathSep(".")
	rt("map key 1", &T1{map[string]int{"1": 5}})
	rt("map key 0", &T1{map[string]int{"0": 5}})
	rt("map key 0,x", &T1{map[string]int{"0": 5, "x": 1}})
	rt("map key a.b ps", &T1{map[string]int{"a.b": 5}}, ps)
	rt("map key empty", &T1{map[string]int{"": 5}})
	rt("map key empty ps", &T1{map[string]int{"": 5}}, ps)
	rt("inline map+named", &T2{A: 1, M: map[string]int{"z": 2}})
	rt("inline map+named zero", &T2{})
	rt("ptr to array", &T3{&[2]int{1, 2}})
	rt("uintptr", &T4{3})
	rt("inline ptr nonnil", &T5{&Inner{3}})
	rt("inline ptr nil", &T5{})
	rt("dur min", &T6{time.Duration(math.MinInt64)})
	rt("dur max", &T6{time.Duration(math.MaxInt64)})
	rt("dur 1ns", &T6{1})
	rt("regexp by value", &T7{*regexp.MustCompile("a+")})
	rt("slice ptr arr", &T8{[]*[2]int{{1, 2}}})
	rt("float32", &T9{0.1})
	rt("float32 max", &T9{math.MaxFloat32})
	rt("tag 0", &T10{1, 2})
	rt("inline struct", &T11{Inner{1}, &Inner{2}})
	rt("inline struct zero", &T11{})
	rt("strings", &T13{[]string{"$", "${a}", "a.b", "a,b", "{x}", "$${", "${", ""}})
	rt("strings varexp", &T13{[]string{"a.b", "a,b", "{x}"}}, ucfg.VarExp)
	rt("dotted", &T14{1, 2}, ps)
	rt("dotted nops", &T14{1, 2})
	x := 5
	px := &x
	rt("ptrptr", &T15{&px})
	rt("arr of slices", &T16{[2][]int{{1}, nil}})
	rt("map ptr struct", &T17{map[string]*Inner{"a": {1}}})
	rt("extreme", &T18{math.MinInt64, math.MaxUint64, -128})
	rt("extreme2", &T18{math.MaxInt64, 0, 127})
	rt("regexp ptr", &T19{regexp.MustCompile(`^\$\{a\}.,$`)})
	rt("regexp nil", &T19{})
	rt("empty arr", &T21{})
	rt("empty arr2", &T21{B: []struct{}{{}, {}}})
	m := map[string]int{"a": 1}
	rt("ptr map", &T22{&m})
	s := []int{1}
	rt("ptr slice", &T23{&s})
	es := []int{}
	rt("ptr empty slice", &T23{&es})
	rt("bytes", &T24{[]byte{0, 255}})
	rt("map slices", &T25{map[string][]int{"a": {}, "b": nil, "c": {1}}})
	rt("slice maps", &T26{[]map[string]int{{}, nil, {"a": 1}}})
	rt("slice slices", &T27{[][]int{{}, nil, {1}}})
	rt("named str map", &T28{map[MyS]MyS{"a": "b"}})
	rt("str true", &T20{"true"})
	rt("str num", &T20{"0x10"})
	rt("overlap dotted", &T29{0, Inner{1}}, ps)
}
