package main

import (
	"errors"
	"fmt"

	ucfg "github.com/elastic/go-ucfg"
	"github.com/elastic/go-ucfg/parse"
)

var base = []ucfg.Option{ucfg.PathSep("."), ucfg.VarExp}

func mk(m map[string]interface{}, extra ...ucfg.Option) *ucfg.Config {
	c, err := ucfg.NewFrom(m, append(append([]ucfg.Option{}, base...), extra...)...)
	if err != nil {
		panic(err)
	}
	return c
}

func res(kv map[string]string) ucfg.Option {
	return ucfg.Resolve(func(name string) (string, parse.Config, error) {
		if v, ok := kv[name]; ok {
			return v, parse.DefaultConfig, nil
		}
		return "", parse.DefaultConfig, ucfg.ErrMissing
	})
}

func str(label string, c *ucfg.Config, name string, extra ...ucfg.Option) {
	s, err := c.String(name, -1, append(append([]ucfg.Option{}, base...), extra...)...)
	fmt.Printf("%-40s => %q err=%v\n", label, s, err)
}

func main() {
	// 1 intermediate primitive, resolver has it
	c := mk(map[string]interface{}{"a": 5, "r": "${a.b.c}", "r2": "${a.b}", "r3": "x${a.b.c}", "r4": "${a.b.c:dflt}"})
	rr := res(map[string]string{"a.b.c": "fromres", "a.b": "fromres2"})
	str("interm prim + resolver (ref)", c, "r", rr)
	str("last prim + resolver (ref)", c, "r2", rr)
	str("interm prim + resolver (splice)", c, "r3", rr)
	str("interm prim default", c, "r4")
	env := mk(map[string]interface{}{"a": map[string]interface{}{"b": map[string]interface{}{"c": "fromenv"}}})
	str("interm prim + env", c, "r", ucfg.Env(env))
	env2 := mk(map[string]interface{}{"z": 1})
	str("interm prim + env2(miss) + resolver", c, "r", ucfg.Env(env2), rr)
	str("interm prim + env2(miss) + resolver splice", c, "r3", ucfg.Env(env2), rr)

	// 2 missing without resolver
	c = mk(map[string]interface{}{"r": "${nope}", "s": "x${nope}y", "n": map[string]interface{}{"r": "${nope}"}})
	str("missing ref", c, "r")
	str("missing splice", c, "s")
	var out map[string]interface{}
	fmt.Println("unpack missing:", c.Unpack(&out, base...), out)
	ch, err := c.Child("n", -1, base...)
	fmt.Println(err)
	str("child missing", ch, "r")

	// 3 null values
	c = mk(map[string]interface{}{"x": nil, "r": "${x}", "d": "${x:dd}", "a": "${x:+alt}", "e": "${x:?boom}", "s": "[${x}]"})
	for _, k := range []string{"r", "d", "a", "e", "s"} {
		str("nil x "+k, c, k)
	}
	// empty
	c = mk(map[string]interface{}{"x": "", "r": "${x}", "d": "${x:dd}", "a": "${x:+alt}", "e": "${x:?boom}", "s": "[${x}]"})
	for _, k := range []string{"r", "d", "a", "e", "s"} {
		str("empty x "+k, c, k)
	}
	// resolver gives ""
	c = mk(map[string]interface{}{"r": "${x}", "d": "${x:dd}", "a": "${x:+alt}", "e": "${x:?boom}", "s": "[${x}]"})
	for _, k := range []string{"r", "d", "a", "e", "s"} {
		str("resolver-empty x "+k, c, k, res(map[string]string{"x": ""}))
	}
	// resolver other error then earlier resolver ok
	bad := ucfg.Resolve(func(string) (string, parse.Config, error) { return "", parse.DefaultConfig, errors.New("bad") })
	str("res order: ok then bad(last)", c, "r", res(map[string]string{"x": "first"}), bad)
	str("res order two", c, "r", res(map[string]string{"x": "first"}), res(map[string]string{"x": "second"}))
	// env order
	e1 := mk(map[string]interface{}{"x": "e1"})
	e2 := mk(map[string]interface{}{"x": "e2"})
	str("env order", c, "r", ucfg.Env(e1), ucfg.Env(e2))
	str("env before resolver", c, "r", ucfg.Env(e1), res(map[string]string{"x": "res"}))
	str("env before resolver splice", c, "s", ucfg.Env(e1), res(map[string]string{"x": "res"}))
	// env with nil value
	e3 := mk(map[string]interface{}{"x": nil})
	str("env nil then e1", c, "r", ucfg.Env(e1), ucfg.Env(e3))
	// env holds a ref to its own
	e4 := mk(map[string]interface{}{"x": "${y}", "y": "e4y"})
	str("env own ref", c, "r", ucfg.Env(e4))
	str("env own ref splice", c, "s", ucfg.Env(e4))
	// env holds ref to name in root only
	c2 := mk(map[string]interface{}{"r": "${x}", "y": "rooty", "s": "[${x}]"})
	e5 := mk(map[string]interface{}{"x": "${y}"})
	str("env ref to root-only name", c2, "r", ucfg.Env(e5))
	str("env ref to root-only name splice", c2, "s", ucfg.Env(e5))
	// escapes
	c = mk(map[string]interface{}{"a": "A", "e1": "$${a}", "e2": "${nope:x$}y}", "e3": "a$}b", "e4": "$$$${a}", "e5": "$$${a}", "e6": "cost: $5", "e7": "end$", "e8": "${nope:a:b}", "e9": "${nope::}", "e10": "${nope:$${a$}}", "e11": "$", "e12": "$$"})
	for _, k := range []string{"e1", "e2", "e3", "e4", "e5", "e6", "e7", "e8", "e9", "e10", "e11", "e12"} {
		str("escape "+k, c, k)
	}
	// twice
	c = mk(map[string]interface{}{"a": "A", "t": "${a}${a}", "t2": "${b}-${b}", "b": "${a}", "t3": "${a:${a}}", "t4": "${nope:${a}${a}}"})
	for _, k := range []string{"t", "t2", "t3", "t4"} {
		str("twice "+k, c, k)
	}
	// typed
	c = mk(map[string]interface{}{"n": 5, "r": "${n}", "l": []interface{}{1, 2}, "rl": "${l}", "o": map[string]interface{}{"k": "v"}, "ro": "${o}", "rr": "${r}"})
	i, err := c.Int("r", -1, base...)
	fmt.Println("typed int", i, err)
	i, err = c.Int("rr", -1, base...)
	fmt.Println("typed int via chain", i, err)
	out = nil
	fmt.Println("unpack typed:", c.Unpack(&out, base...), out)
	// late binding
	c = mk(map[string]interface{}{"r": "${late}", "s": "<${late}>"})
	str("before merge", c, "r")
	c.Merge(map[string]interface{}{"late": "now"}, base...)
	str("after merge", c, "r")
	str("after merge splice", c, "s")
	c.Merge(map[string]interface{}{"late": "changed"}, base...)
	str("after 2nd merge", c, "r")
	c.SetString("late", -1, "set", base...)
	str("after set", c, "s")
}
