// Minimal reproductions of the three hunt findings on the unchanged tree.
package main

import (
	"fmt"

	ucfg "github.com/elastic/go-ucfg"
	"github.com/elastic/go-ucfg/parse"
)

var base = []ucfg.Option{ucfg.PathSep("."), ucfg.VarExp}

func with(o ...ucfg.Option) []ucfg.Option { return append(append([]ucfg.Option{}, base...), o...) }

func table(kv map[string]string) ucfg.Option {
	return ucfg.Resolve(func(name string) (string, parse.Config, error) {
		if v, ok := kv[name]; ok {
			return v, parse.DefaultConfig, nil
		}
		return "", parse.DefaultConfig, ucfg.ErrMissing
	})
}

func main() {
	// H1: a name whose path runs through a primitive of the root tree never
	// reaches the resolvers - unless some Env config is present.
	c, _ := ucfg.NewFrom(map[string]interface{}{"a": 5, "r": "${a.b.c}", "s": "x${a.b.c}"}, base...)
	rr := table(map[string]string{"a.b.c": "from-resolver"})
	s, err := c.String("r", -1, with(rr)...)
	fmt.Printf("H1 ref, resolver only:            %q %v\n", s, err)
	s, err = c.String("s", -1, with(rr)...)
	fmt.Printf("H1 splice, resolver only:         %q %v\n", s, err)
	s, err = c.String("r", -1, with(ucfg.Env(ucfg.New()), rr)...)
	fmt.Printf("H1 ref, empty Env + resolver:     %q %v\n", s, err)

	// H2: SetChild re-parents the child it is given; the tree it came from
	// now resolves the child's references from the other tree's root.
	c, _ = ucfg.NewFrom(map[string]interface{}{"top": "T", "sub": map[string]interface{}{"r": "${top}"}}, base...)
	s, err = c.String("sub.r", -1, base...)
	fmt.Printf("H2 before SetChild:  c.sub.r = %q %v\n", s, err)
	sub, _ := c.Child("sub", -1, base...)
	n := ucfg.New()
	n.SetChild("moved", -1, sub, base...)
	s, err = c.String("sub.r", -1, base...)
	fmt.Printf("H2 after SetChild:   c.sub.r = %q %v   (c.top is still T)\n", s, err)
	n.SetString("top", -1, "OTHER", base...)
	s, err = c.String("sub.r", -1, base...)
	fmt.Printf("H2 after n.top=OTHER: c.sub.r = %q %v\n", s, err)

	// H3: a resolver answering "" - alone the reference reads as "", inside
	// a longer string the same reference is an error.
	c, _ = ucfg.NewFrom(map[string]interface{}{"r": "${x}", "s": "<${x}>"}, base...)
	empty := table(map[string]string{"x": ""})
	s, err = c.String("r", -1, with(empty)...)
	fmt.Printf("H3 ${x}:   %q %v\n", s, err)
	s, err = c.String("s", -1, with(empty)...)
	fmt.Printf("H3 <${x}>: %q %v\n", s, err)
}
