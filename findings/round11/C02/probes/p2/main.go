package main

import (
	"fmt"

	ucfg "github.com/elastic/go-ucfg"
	"github.com/elastic/go-ucfg/parse"
)

var base = []ucfg.Option{ucfg.PathSep("."), ucfg.VarExp}

func mk(m map[string]interface{}, extra ...ucfg.Option) *ucfg.Config {
	c, err := ucfg.NewFrom(m, append(append([]ucfg.Option{}, base...), extra...)...)
	if err != nil {
		panic(err)
	}
	return c
}

func res(kv map[string]string) ucfg.Option {
	return ucfg.Resolve(func(name string) (string, parse.Config, error) {
		if v, ok := kv[name]; ok {
			return v, parse.DefaultConfig, nil
		}
		return "", parse.DefaultConfig, ucfg.ErrMissing
	})
}

func str(label string, c *ucfg.Config, name string, extra ...ucfg.Option) {
	s, err := c.String(name, -1, append(append([]ucfg.Option{}, base...), extra...)...)
	var reason error
	if e, ok := err.(ucfg.Error); ok {
		reason = e.Reason()
	}
	fmt.Printf("%-40s => %q err=%v reason=%v\n", label, s, err, reason)
}

func main() {
	c := mk(map[string]interface{}{"x": "", "e": "${x:?boom}", "e2": "${nope:?boom ${x:really}}", "s": "<${x}>", "e3": "<${nope:?msg3}>"})
	str("err op", c, "e")
	str("err op nested", c, "e2")
	str("err op in splice", c, "e3")
	var out map[string]interface{}
	fmt.Println("unpack err op:", c.Unpack(&out, base...))
	str("empty splice", c, "s")
	e1 := mk(map[string]interface{}{"x": "e1"})
	c = mk(map[string]interface{}{"s": "<${x}>", "r": "${x}"})
	str("env before resolver splice", c, "s", ucfg.Env(e1), res(map[string]string{"x": "res"}))
	e4 := mk(map[string]interface{}{"x": "${y}", "y": "e4y"})
	str("env own ref splice", c, "s", ucfg.Env(e4))
	str("resolver-empty splice", c, "s", res(map[string]string{"x": ""}))
	str("resolver-empty ref", c, "r", res(map[string]string{"x": ""}))
	// nil x splice
	c = mk(map[string]interface{}{"x": nil, "s": "<${x}>", "u": "${u1:+set}", "u1": "${nope}", "d": "${u1:dflt}"})
	str("nil x splice", c, "s")
	str("alt on unresolvable", c, "u")
	str("default on unresolvable", c, "d")
	// deep nesting
	c = mk(map[string]interface{}{"n": "k", "o": map[string]interface{}{"k": "OK"}, "l": []interface{}{"zero", "one"},
		"d3": "${a:${b:${c:deep}}}", "nn": "${o.${n}}", "nn2": "${${n2}}", "n2": "n", "li": "${l.1}", "d4": "${a:${b:${c:${n}}}}",
		"alt": "${n:+${o.k}}", "alt2": "${zz:+${o.k}}-", "mix": "$${${n}$}:${n:+x}:${zz:y$}}", "top": "T",
		"sub": map[string]interface{}{"r": "${top}", "rel": "${r}", "s": "<${top}>"}})
	for _, k := range []string{"d3", "nn", "nn2", "li", "d4", "alt", "alt2", "mix", "sub.r", "sub.rel", "sub.s"} {
		str(k, c, k)
	}
	ch, _ := c.Child("sub", -1, base...)
	str("child r", ch, "r")
	str("child s", ch, "s")
	str("child rel", ch, "rel")
	type T struct {
		R, S string
	}
	var t T
	fmt.Println(ch.Unpack(&t, base...), t)
	// move child to a new tree
	n := ucfg.New()
	fmt.Println(n.SetChild("moved", -1, ch, base...))
	str("moved child r (old root has top)", n, "moved.r")
	n.SetString("top", -1, "NEWTOP", base...)
	str("moved child r after set", n, "moved.r")
	str("orig child r", c, "sub.r")
	// merged child
	m := ucfg.New()
	m.Merge(map[string]interface{}{"top": "MT"}, base...)
	m.Merge(c, base...)
	str("merged top (c wins)", m, "sub.r")
	m2 := ucfg.New()
	m2.Merge(ch, base...)
	str("merged child alone", m2, "r")
	m2.Merge(map[string]interface{}{"top": "later"}, base...)
	str("merged child alone + later top", m2, "r")
	str("merged child alone + later top s", m2, "s")
	// typed
	c = mk(map[string]interface{}{"b": true, "f": 1.5, "u": uint(7), "rb": "${b}", "rf": "${f}", "ru": "${u}", "sb": "${b}${nope:}", "si": "${u}${u}"})
	b, err := c.Bool("rb", -1, base...)
	fmt.Println(b, err)
	f, err := c.Float("rf", -1, base...)
	fmt.Println(f, err)
	u, err := c.Uint("ru", -1, base...)
	fmt.Println(u, err)
	b, err = c.Bool("sb", -1, base...)
	fmt.Println(b, err)
	i, err := c.Int("si", -1, base...)
	fmt.Println(i, err)
	// missing in Unpack nested/array
	c = mk(map[string]interface{}{"l": []interface{}{"a", "${nope}"}})
	out = nil
	fmt.Println("unpack arr missing:", c.Unpack(&out, base...), out)
	var ts struct{ L []string }
	fmt.Println("unpack arr missing struct:", c.Unpack(&ts, base...), ts)
	// no VarExp at read time
	c = mk(map[string]interface{}{"a": "A", "r": "${a}", "s": "<${a}>", "m": "${nope}"})
	s, err := c.String("r", -1, ucfg.PathSep("."))
	fmt.Println("read w/o VarExp:", s, err)
	s, err = c.String("m", -1, ucfg.PathSep("."))
	fmt.Printf("read missing w/o VarExp: %q %v\n", s, err)
	// Has / CountField / IsDict on missing ref
	ok, err := c.Has("m", -1, base...)
	fmt.Println("has m", ok, err)
	fmt.Println(c.IsDict(), c.GetFields())
	// flatten keys etc
	fmt.Println(c.FlattenedKeys(base...))
}
