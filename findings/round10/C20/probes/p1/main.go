package main

import (
	"fmt"
	"math"
	"strconv"

	ucfg "github.com/elastic/go-ucfg"
)

var keys = []string{
	"0", "1", "5", "-0", "+0", "-1", "+1", "+5", "-5", "007", "010", "0x10", "0X10", "0o17", "0O17", "0b101", "0B101",
	"1_0", "1__0", "_1", "1_", "0_7", "0x_1f", "1024", "1025", "+1024", "0x400", "0x401", "02000", "02001",
	"9223372036854775807", "9223372036854775808", "-9223372036854775808", "-9223372036854775809", "18446744073709551615",
	"1e3", "1.0", " 1", "1 ", "", "٣", "１", "0x", "0b", "0o", "--1", "+-1", "1.", ".1", "0x1p3", "१", "a", "1a", "[1]", "-", "+",
	"00000000000000000000000000000000000000000003", "0b11111111111", "1_024", "1_025",
}

type res struct {
	panicked interface{}
	err      error
	isArr    bool
	isDict   bool
	count    int
	fields   []string
	unpacked interface{}
	uerr     error
}

func try(key string, opts ...ucfg.Option) (r res) {
	defer func() {
		if p := recover(); p != nil {
			r.panicked = p
		}
	}()
	c, err := ucfg.NewFrom(map[string]interface{}{key: "v"}, opts...)
	if err != nil {
		r.err = err
		return
	}
	r.isArr = c.IsArray()
	r.isDict = c.IsDict()
	r.count, _ = c.CountField("")
	r.fields = c.GetFields()
	var out interface{}
	m := map[string]interface{}{}
	if r.isDict {
		r.uerr = c.Unpack(&m, opts...)
		out = m
	} else {
		var l []interface{}
		r.uerr = c.Unpack(&l, opts...)
		out = l
	}
	r.unpacked = out
	return
}

func main() {
	maxes := []int64{-1, 0, 1, 5, 16, 1024, 2000, math.MinInt64}
	bad := 0
	for _, sep := range []string{"", "."} {
		for _, en := range []bool{false, true} {
			for _, mx := range maxes {
				for _, k := range keys {
					opts := []ucfg.Option{ucfg.MaxIdx(mx), ucfg.EnableNumKeys(en)}
					if sep != "" {
						opts = append(opts, ucfg.PathSep(sep))
					}
					if sep == "." && (k == "1.0" || k == "1." || k == ".1") {
						continue
					}
					r := try(k, opts...)
					n, perr := strconv.ParseInt(k, 0, 64)
					wantIdx := !en && perr == nil && n >= 0 && n <= mx
					tag := fmt.Sprintf("sep=%q en=%v max=%d key=%q", sep, en, mx, k)
					if r.panicked != nil {
						fmt.Println("PANIC", tag, r.panicked)
						bad++
						continue
					}
					if r.err != nil {
						fmt.Println("ERR", tag, r.err)
						bad++
						continue
					}
					if wantIdx {
						if !r.isArr || r.isDict || int64(r.count) != n+1 || int64(r.count) > mx+1 {
							fmt.Println("IDXBAD", tag, r)
							bad++
						}
					} else {
						if r.isArr || !r.isDict || r.count != 1 || len(r.fields) != 1 || r.fields[0] != k {
							fmt.Println("NAMEBAD", tag, r)
							bad++
							continue
						}
						m := r.unpacked.(map[string]interface{})
						if r.uerr != nil || len(m) != 1 || m[k] != "v" {
							fmt.Println("UNPACKBAD", tag, r.uerr, m)
							bad++
						}
					}
				}
			}
		}
	}
	fmt.Println("bad:", bad)
}
