package main

import (
	"fmt"

	ucfg "github.com/elastic/go-ucfg"
	"github.com/elastic/go-ucfg/flag"
	"github.com/elastic/go-ucfg/json"
	"github.com/elastic/go-ucfg/yaml"
)

func show(name string, c *ucfg.Config, err error, opts ...ucfg.Option) {
	defer func() {
		if p := recover(); p != nil {
			fmt.Println(name, "PANIC", p)
		}
	}()
	if err != nil {
		fmt.Println(name, "ERR", err)
		return
	}
	var m interface{}
	mm := map[string]interface{}{}
	e := c.Unpack(&mm, opts...)
	m = mm
	n, _ := c.CountField("")
	fmt.Println(name, "arr:", c.IsArray(), "dict:", c.IsDict(), "n:", n, "fields:", c.GetFields(), "unpack:", e, m)
}

func main() {
	c, err := yaml.NewConfig([]byte("\"-1\": a\n\"2\": b\n\"0x3\": c\n\"2000\": d\n"))
	show("yaml str keys", c, err)
	c, err = yaml.NewConfig([]byte("-1: a\n"))
	show("yaml int key", c, err)
	c, err = json.NewConfig([]byte(`{"-1": 1, "1": 2, "+3": 3, "1025": 4}`))
	show("json", c, err)
	c, err = yaml.NewConfig([]byte("a.-1.b: x\na.1.b: y\na.0x2.b: z\n"), ucfg.PathSep("."))
	show("yaml dotted", c, err, ucfg.PathSep("."))

	fv := flag.NewFlagKeyValue(ucfg.New(), true, ucfg.PathSep("."))
	for _, a := range []string{"-1=x", "a.-2=y", "a.1=z", "0x2=w", "9999999999999999999999=q", "a.1025=r"} {
		if err := fv.Set(a); err != nil {
			fmt.Println("flag set", a, err)
		}
	}
	show("flag", fv.Config(), fv.Error(), ucfg.PathSep("."))

	// top-level list and references by number
	c, err = ucfg.NewFrom(map[string]interface{}{"0": "first", "1": "${0}", "2": "${-1:none}", "-1": "neg"}, ucfg.VarExp, ucfg.PathSep("."))
	if err == nil {
		for i := 0; i < 3; i++ {
			s, e := c.String("", i, ucfg.VarExp, ucfg.PathSep("."))
			fmt.Println(i, s, e)
		}
	}
	show("toplist+refs", c, err, ucfg.VarExp, ucfg.PathSep("."))

	// multi-char separator
	c, err = ucfg.NewFrom(map[string]interface{}{"a::-1::b": 1, "a::3": 2}, ucfg.PathSep("::"))
	show("multichar sep", c, err, ucfg.PathSep("::"))

	// two keys that spell the same index
	c, err = ucfg.NewFrom(map[string]interface{}{"1": "a", "0x1": "b"})
	show("same idx two spellings", c, err)
	c, err = ucfg.NewFrom(map[string]interface{}{"1": "a", "01": "b", "+1": "c"})
	show("same idx three spellings", c, err)

	// getters with option mismatch
	c = ucfg.MustNewFrom(map[string]interface{}{"7": "named"}, ucfg.EnableNumKeys(true))
	s, e := c.String("7", -1)
	fmt.Println("get '7' w/o numkeys:", s, e)
	s, e = c.String("7", -1, ucfg.EnableNumKeys(true))
	fmt.Println("get '7' with numkeys:", s, e)
	ok, e := c.Remove("7", -1, ucfg.EnableNumKeys(true))
	fmt.Println("remove '7' with numkeys:", ok, e)

	// Child + set with dotted path and EnableNumKeys
	c = ucfg.New()
	e = c.SetString("a.3", -1, "v", ucfg.PathSep("."), ucfg.EnableNumKeys(true))
	show("set a.3 numkeys", c, e, ucfg.PathSep("."))
	c = ucfg.New()
	e = c.SetString("3", 2, "v", ucfg.EnableNumKeys(true))
	show("set name=3 idx=2 numkeys", c, e)
	c = ucfg.New()
	e = c.SetString("3", 2, "v", ucfg.MaxIdx(2))
	show("set name=3 idx=2 maxidx2", c, e)
	c = ucfg.New()
	e = c.SetString("2", 3, "v", ucfg.MaxIdx(2))
	show("set name=2 idx=3 maxidx2", c, e)
}
