package main

import (
	"fmt"
	"math"

	ucfg "github.com/elastic/go-ucfg"
)

func try(name string, f func() error) {
	defer func() {
		if p := recover(); p != nil {
			fmt.Println(name, "PANIC:", p)
		}
	}()
	err := f()
	fmt.Println(name, "->", err)
}

func main() {
	try("NewFrom maxint64 key with MaxIdx(MaxInt64)", func() error {
		_, err := ucfg.NewFrom(map[string]interface{}{"9223372036854775807": 1}, ucfg.MaxIdx(math.MaxInt64))
		return err
	})
	try("SetInt idx maxint with MaxIdx(MaxInt64)", func() error {
		c := ucfg.New()
		return c.SetInt("", math.MaxInt64, 1, ucfg.MaxIdx(math.MaxInt64))
	})
	try("SetInt name=a idx=2000 default", func() error {
		c := ucfg.New()
		err := c.SetInt("a", 2000, 1)
		fmt.Println(c.CountField("a"))
		return err
	})
	try("SetInt name='' idx=-1", func() error {
		c := ucfg.New()
		return c.SetInt("", -1, 1)
	})
	try("SetInt name='' idx=-5", func() error {
		c := ucfg.New()
		return c.SetInt("", -5, 1)
	})
	try("Int name='' idx=-5", func() error {
		c := ucfg.MustNewFrom([]int{1, 2, 3})
		_, err := c.Int("", -5)
		return err
	})
	try("Remove name='' idx=-5", func() error {
		c := ucfg.MustNewFrom([]int{1, 2, 3})
		_, err := c.Remove("", -5)
		return err
	})
	try("Has name='' idx=-5", func() error {
		c := ucfg.MustNewFrom([]int{1, 2, 3})
		_, err := c.Has("", -5)
		return err
	})
	try("Has a.-1", func() error {
		c := ucfg.MustNewFrom(map[string]interface{}{"a": []int{1, 2, 3}})
		ok, err := c.Has("a.-1", -1, ucfg.PathSep("."))
		fmt.Println(ok)
		return err
	})
	try("Int a.-1", func() error {
		c := ucfg.MustNewFrom(map[string]interface{}{"a": []int{1, 2, 3}})
		_, err := c.Int("a.-1", -1, ucfg.PathSep("."))
		return err
	})
	try("SetInt a.-1", func() error {
		c := ucfg.MustNewFrom(map[string]interface{}{"a": []int{1, 2, 3}})
		err := c.SetInt("a.-1", -1, 9, ucfg.PathSep("."))
		var m map[string]interface{}
		fmt.Println(c.Unpack(&m), m)
		return err
	})
	try("Remove a.-1", func() error {
		c := ucfg.MustNewFrom(map[string]interface{}{"a": []int{1, 2, 3}})
		_, err := c.Remove("a.-1", -1, ucfg.PathSep("."))
		return err
	})
	try("nested path a.1025.b", func() error {
		c, err := ucfg.NewFrom(map[string]interface{}{"a.1025.b": 1}, ucfg.PathSep("."))
		if err == nil {
			ch, _ := c.Child("a", -1)
			fmt.Println(ch.IsArray(), ch.IsDict(), ch.GetFields())
		}
		return err
	})
	try("nested path a.1024.b", func() error {
		c, err := ucfg.NewFrom(map[string]interface{}{"a.1024.b": 1}, ucfg.PathSep("."))
		if err == nil {
			ch, _ := c.Child("a", -1)
			n, _ := ch.CountField("")
			fmt.Println(ch.IsArray(), ch.IsDict(), n)
		}
		return err
	})
	try("enableNumKeys multi a.5", func() error {
		c, err := ucfg.NewFrom(map[string]interface{}{"a.5": 1}, ucfg.PathSep("."), ucfg.EnableNumKeys(true))
		if err == nil {
			ch, _ := c.Child("a", -1)
			n, _ := ch.CountField("")
			fmt.Println(ch.IsArray(), ch.IsDict(), n)
		}
		return err
	})
	// nested map with numeric keys under EnableNumKeys
	try("enableNumKeys nested map", func() error {
		c, err := ucfg.NewFrom(map[string]interface{}{"a": map[string]interface{}{"5": 1, "-3": 2}}, ucfg.PathSep("."), ucfg.EnableNumKeys(true))
		if err == nil {
			ch, _ := c.Child("a", -1)
			n, _ := ch.CountField("")
			fmt.Println(ch.IsArray(), ch.IsDict(), n, ch.GetFields())
		}
		return err
	})
	// struct tags
	type T struct {
		A int `config:"-1"`
		B int `config:"3"`
		C int `config:"0x2"`
		D int `config:"2000"`
	}
	try("struct tags", func() error {
		c, err := ucfg.NewFrom(T{1, 2, 3, 4})
		if err == nil {
			n, _ := c.CountField("")
			fmt.Println(c.IsArray(), c.IsDict(), n, c.GetFields())
			var t T
			fmt.Println(c.Unpack(&t), t)
		}
		return err
	})
	try("struct tags numkeys", func() error {
		c, err := ucfg.NewFrom(T{1, 2, 3, 4}, ucfg.EnableNumKeys(true))
		if err == nil {
			n, _ := c.CountField("")
			fmt.Println(c.IsArray(), c.IsDict(), n, c.GetFields())
			var t T
			fmt.Println(c.Unpack(&t, ucfg.EnableNumKeys(true)), t)
		}
		return err
	})
	// variable references
	try("ref ${a.-1}", func() error {
		c, err := ucfg.NewFrom(map[string]interface{}{"a": []int{1, 2}, "b": "${a.-1}", "c": "${a.1}", "d": "${a.5000:x}"}, ucfg.PathSep("."), ucfg.VarExp)
		if err != nil {
			return err
		}
		s, err := c.String("b", -1, ucfg.PathSep("."), ucfg.VarExp)
		fmt.Println("b:", s, err)
		s, err = c.String("c", -1, ucfg.PathSep("."), ucfg.VarExp)
		fmt.Println("c:", s, err)
		s, err = c.String("d", -1, ucfg.PathSep("."), ucfg.VarExp)
		fmt.Println("d:", s, err)
		return nil
	})
	try("merge key -1 into list", func() error {
		c := ucfg.MustNewFrom([]int{1, 2, 3})
		err := c.Merge(map[string]interface{}{"-1": 7, "1": 9})
		n, _ := c.CountField("")
		fmt.Println(c.IsArray(), c.IsDict(), n, c.GetFields())
		return err
	})
	try("FieldReplaceValues with num", func() error {
		c := ucfg.MustNewFrom(map[string]interface{}{"a": []int{1, 2, 3}}, ucfg.PathSep("."))
		err := c.Merge(map[string]interface{}{"a.5000": 1}, ucfg.PathSep("."), ucfg.FieldReplaceValues("a.5000"))
		var m map[string]interface{}
		fmt.Println(c.Unpack(&m), m)
		return err
	})
	try("FieldReplaceValues with -1", func() error {
		c := ucfg.MustNewFrom(map[string]interface{}{"a": []int{1, 2, 3}}, ucfg.PathSep("."))
		err := c.Merge(map[string]interface{}{"a": []int{4}}, ucfg.PathSep("."), ucfg.FieldReplaceValues("a.-1"))
		var m map[string]interface{}
		fmt.Println(c.Unpack(&m), m)
		return err
	})
	try("FieldAppendValues 2000 maxidx", func() error {
		c := ucfg.MustNewFrom(map[string]interface{}{"a": []int{1, 2, 3}}, ucfg.PathSep("."))
		err := c.Merge(map[string]interface{}{"a": []int{4}}, ucfg.PathSep("."), ucfg.MaxIdx(4), ucfg.FieldAppendValues("900"))
		var m map[string]interface{}
		fmt.Println(c.Unpack(&m), m)
		return err
	})
}
