package main

import (
	"fmt"

	ucfg "github.com/elastic/go-ucfg"
)

func main() {
	// a named key "5" (above MaxIdx(2)) next to list entries 0..5
	c := ucfg.MustNewFrom(map[string]interface{}{"5": "named"}, ucfg.MaxIdx(2))
	fmt.Println("dict:", c.IsDict(), "arr:", c.IsArray(), c.GetFields())
	if err := c.Merge([]interface{}{"i0", "i1", "i2", "i3", "i4", "i5"}); err != nil {
		panic(err)
	}
	fmt.Println("dict:", c.IsDict(), "arr:", c.IsArray(), c.GetFields())
	var out interface{}
	m := map[string]interface{}{}
	fmt.Println(c.Unpack(&m, ucfg.MaxIdx(2)), m)
	_ = out
	var im map[string]interface{}
	type T struct {
		X interface{} `config:"x"`
	}
	p := ucfg.New()
	p.SetChild("x", -1, c)
	var t T
	fmt.Println(p.Unpack(&t), t.X)
	fmt.Println(p.FlattenedKeys())
	_ = im

	// EnableNumKeys: named "0" plus list entry 0
	d := ucfg.MustNewFrom(map[string]interface{}{"0": "named"}, ucfg.EnableNumKeys(true))
	d.Merge([]interface{}{"i0"})
	q := ucfg.New()
	q.SetChild("x", -1, d)
	var t2 T
	fmt.Println(q.Unpack(&t2, ucfg.EnableNumKeys(true)), t2.X)
	fmt.Println(q.FlattenedKeys())
}
