package main

import (
	"fmt"
	"reflect"

	ucfg "github.com/elastic/go-ucfg"
	"github.com/elastic/go-ucfg/hjson"
	"github.com/elastic/go-ucfg/json"
	"github.com/elastic/go-ucfg/yaml"
)

type loader struct {
	name string
	fn   func([]byte, ...ucfg.Option) (*ucfg.Config, error)
}

var loaders = []loader{{"yaml", yaml.NewConfig}, {"json", json.NewConfig}, {"hjson", hjson.NewConfig}}

func norm(v interface{}) interface{} {
	switch x := v.(type) {
	case int64:
		return fmt.Sprintf("num:%v", float64(x))
	case uint64:
		return fmt.Sprintf("num:%v", float64(x))
	case float64:
		return fmt.Sprintf("num:%v", x)
	case map[string]interface{}:
		m := map[string]interface{}{}
		for k, e := range x {
			m[k] = norm(e)
		}
		return m
	case []interface{}:
		a := make([]interface{}, len(x))
		for i, e := range x {
			a[i] = norm(e)
		}
		return a
	}
	return v
}

type typed struct {
	S   string
	I   int64
	U   uint64
	F   float64
	B   bool
	L   []string
	M   map[string]string
	Any interface{}
}

func try(doc string, opts ...ucfg.Option) {
	fmt.Printf("=== %s\n", doc)
	for _, l := range loaders {
		c, err := l.fn([]byte(doc), opts...)
		if err != nil {
			fmt.Printf("  %-5s load error: %v\n", l.name, err)
			continue
		}
		var g interface{}
		if c.IsArray() && !c.IsDict() {
			var a []interface{}
			err = c.Unpack(&a, opts...)
			g = a
		} else {
			m := map[string]interface{}{}
			err = c.Unpack(&m, opts...)
			g = m
		}
		fmt.Printf("  %-5s generic: %#v err=%v\n", l.name, g, err)
		var t typed
		err = c.Unpack(&t, opts...)
		fmt.Printf("  %-5s typed:   %+v err=%v\n", l.name, t, err)
	}
}

var _ = reflect.DeepEqual

func main() {
	try(`{"i": 9007199254740993, "u": 18446744073709551615}`)
	try(`{"i": 9223372036854775807}`)
	try(`{"s": 1000000}`)
	try(`{"s": 100}`)
	try(`{"s": 1.0}`)
	try(`{"s": 1e2, "i": 1e2}`)
	try(`{"s": -0, "f": -0}`)
	try(`{"s": "😀"}`)
	try(`{"s": "a\/b"}`)
	try("{\"s\": \"a\x7fb\"}")
	try(`{"s": "\u0000\u001f"}`)
	try(`{"": 1, "s": "x"}`)
	try(`{"a":1,"a":2}`)
	try(`{"l": "x", "m": {"a": 1}}`)
	try(`{"l": [1, 2.5, true, null, "x"]}`)
	try(`{"any": {"1": "x"}}`)
	try(`{"any.1": "x", "any.0": "y"}`, ucfg.PathSep("."))
	try(`{"any": "${s}", "s": 1000000}`, ucfg.VarExp)
	try(`{"any": "${s}", "s": 12345678}`, ucfg.VarExp, ucfg.PathSep("."))
	try(`{"any": "${s}x", "s": 12345678}`, ucfg.VarExp, ucfg.PathSep("."))
	try(`[1,2,{"a":[]}]`)
	try(`null`)
	try(`3`)
	try(`"x"`)
	try(`{"any": {}}`)
	try(`{"any": []}`)
	try(`{"any": [[], {}, null]}`)
}
