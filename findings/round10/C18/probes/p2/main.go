package main

import (
	"fmt"
	"io/ioutil"
	"os"
	"path/filepath"
	"strings"

	ucfg "github.com/elastic/go-ucfg"
	"github.com/elastic/go-ucfg/hjson"
	"github.com/elastic/go-ucfg/json"
	"github.com/elastic/go-ucfg/yaml"
)

type floader struct {
	name string
	fn   func(string, ...ucfg.Option) (*ucfg.Config, error)
}

var loaders = []floader{{"yaml", yaml.NewConfigWithFile}, {"json", json.NewConfigWithFile}, {"hjson", hjson.NewConfigWithFile}}

var dir string

func try(label, doc string, target func() interface{}, opts ...ucfg.Option) {
	fmt.Printf("=== %s: %s\n", label, doc)
	for _, l := range loaders {
		name := filepath.Join(dir, "cfg."+l.name)
		ioutil.WriteFile(name, []byte(doc), 0644)
		c, err := l.fn(name, opts...)
		if err != nil {
			fmt.Printf("  %-5s [%v] load error: %v\n", l.name, strings.Contains(err.Error(), name), err)
			continue
		}
		err = c.Unpack(target(), opts...)
		if err == nil {
			fmt.Printf("  %-5s no error\n", l.name)
			continue
		}
		fmt.Printf("  %-5s [%v] %v\n", l.name, strings.Contains(err.Error(), name), err)
	}
}

type req struct {
	A string `config:"a" validate:"required"`
}
type nested struct {
	Sub req `config:"sub"`
}
type ints struct {
	I int `config:"i"`
}
type lst struct {
	L []req `config:"l"`
}
type pos struct {
	I int `config:"i" validate:"positive"`
}
type arr2 struct {
	L [2]int `config:"l"`
}
type v struct{ I int }

func (x v) Validate() error {
	if x.I == 0 {
		return fmt.Errorf("I is zero")
	}
	return nil
}

type nv struct {
	Sub v `config:"sub"`
}
type dur struct {
	D map[string]int `config:"d"`
}

func main() {
	dir, _ = ioutil.TempDir("", "p2")
	defer os.RemoveAll(dir)
	try("top-level required missing", `{"b": 1}`, func() interface{} { return &req{} })
	try("nested required missing", `{"sub": {"b": 1}}`, func() interface{} { return &nested{} })
	try("nested sub missing entirely", `{"b": 1}`, func() interface{} { return &nested{} })
	try("type mismatch", `{"i": "abc"}`, func() interface{} { return &ints{} })
	try("type mismatch nested pathsep", `{"x.y.i": "abc"}`, func() interface{} { return &struct {
		X struct{ Y ints }
	}{} }, ucfg.PathSep("."))
	try("list hole", `{"l.1": {"a": "x"}}`, func() interface{} { return &lst{} }, ucfg.PathSep("."))
	try("list elem required", `{"l": [{"a": "x"}, {"b": 1}]}`, func() interface{} { return &lst{} })
	try("validator positive", `{"i": -1}`, func() interface{} { return &pos{} })
	try("array size", `{"l": [1,2,3]}`, func() interface{} { return &arr2{} })
	try("top-level array size", `[1,2,3]`, func() interface{} { return &[2]int{} })
	try("top-level array elem", `[1,"x",3]`, func() interface{} { return &[]int{} })
	try("top-level Validate", `{"i": 0}`, func() interface{} { return &v{} })
	try("nested Validate", `{"sub": {"i": 0}}`, func() interface{} { return &nv{} })
	try("missing ref", `{"i": "${nope}"}`, func() interface{} { return &ints{} }, ucfg.VarExp)
	try("missing ref in splice", `{"i": "1${nope}"}`, func() interface{} { return &ints{} }, ucfg.VarExp)
	try("bad splice", `{"i": "${nope"}`, func() interface{} { return &ints{} }, ucfg.VarExp)
	try("cyclic ref", `{"i": "${i}"}`, func() interface{} { return &ints{} }, ucfg.VarExp)
	try("ref to wrong type", `{"i": "${s}", "s": "abc"}`, func() interface{} { return &ints{} }, ucfg.VarExp)
	try("expected object", `{"d": 5}`, func() interface{} { return &dur{} })
	try("expected object top", `{"sub": 5}`, func() interface{} { return &nested{} })
	try("dup key", `{"a.b": 1, "a": {"b": 2}}`, func() interface{} { return &map[string]interface{}{} }, ucfg.PathSep("."))
	try("dup key nested", `{"x": {"a.b": 1, "a": {"b": 2}}}`, func() interface{} { return &map[string]interface{}{} }, ucfg.PathSep("."))
	try("top scalar", `3`, func() interface{} { return &map[string]interface{}{} })
	try("path through primitive", `{"a": 1, "a.b": 2}`, func() interface{} { return &map[string]interface{}{} }, ucfg.PathSep("."))
	try("ref through primitive", `{"a": 1, "i": "${a.b}"}`, func() interface{} { return &ints{} }, ucfg.PathSep("."), ucfg.VarExp)
	try("list of list elem", `{"l": [[1, "x"]]}`, func() interface{} { return &struct{ L [][]int }{} })
	try("map value", `{"d": {"k": "x"}}`, func() interface{} { return &dur{} })
}
