package main

import (
	"fmt"

	ucfg "github.com/elastic/go-ucfg"
	"github.com/elastic/go-ucfg/hjson"
	"github.com/elastic/go-ucfg/json"
	"github.com/elastic/go-ucfg/yaml"
)

func main() {
	doc := []byte(`{"a": "\ud83d\ude00", "b": "\u00e9", "c": "\ud800"}`)
	for name, fn := range map[string]func([]byte, ...ucfg.Option) (*ucfg.Config, error){"yaml": yaml.NewConfig, "json": json.NewConfig, "hjson": hjson.NewConfig} {
		c, err := fn(doc)
		if err != nil {
			fmt.Println(name, "load error:", err)
			continue
		}
		m := map[string]interface{}{}
		err = c.Unpack(&m)
		fmt.Printf("%s %q %v\n", name, m, err)
	}
}
