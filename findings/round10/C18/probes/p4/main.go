package main

import (
	"fmt"
	"strings"

	ucfg "github.com/elastic/go-ucfg"
	"github.com/elastic/go-ucfg/hjson"
	"github.com/elastic/go-ucfg/json"
	"github.com/elastic/go-ucfg/yaml"
)

type loader struct {
	name string
	fn   func([]byte, ...ucfg.Option) (*ucfg.Config, error)
}

var loaders = []loader{{"yaml", yaml.NewConfig}, {"json", json.NewConfig}, {"hjson", hjson.NewConfig}}

type U struct{ got interface{} }

func (u *U) Unpack(v interface{}) error { u.got = v; return nil }

func try(doc string, mk func() interface{}, opts ...ucfg.Option) {
	d := doc
	if len(d) > 100 {
		d = d[:100] + "..."
	}
	fmt.Printf("=== %q\n", d)
	for _, l := range loaders {
		c, err := l.fn([]byte(doc), opts...)
		if err != nil {
			fmt.Printf("  %-5s load error: %v\n", l.name, err)
			continue
		}
		t := mk()
		err = c.Unpack(t, opts...)
		fmt.Printf("  %-5s %+v err=%v\n", l.name, t, err)
	}
}

func main() {
	// validators on generic fields
	try(`{"a": 3}`, func() interface{} { return &struct {
		A interface{} `validate:"min=2.5"`
	}{} })
	try(`{"a": 3}`, func() interface{} { return &struct {
		A interface{} `validate:"min=-1"`
	}{} })
	try(`{"a": 3}`, func() interface{} { return &struct {
		A interface{} `validate:"max=2"`
	}{} })
	// Unpacker sees different number types
	try(`{"a": 3}`, func() interface{} { return &struct{ A U }{} })
	// durations
	try(`{"a": 3, "b": 1.5, "c": 90000000}`, func() interface{} { return &struct {
		A, B, C interface{}
	}{} })
	// syntax corners
	try(`{"a": "x\/y"}`, func() interface{} { return &map[string]interface{}{} })
	try("{\"a\": \"x\x7fy\"}", func() interface{} { return &map[string]interface{}{} })
	try(`{"a": "😀"}`, func() interface{} { return &map[string]interface{}{} })
	try(`{"`+strings.Repeat("k", 1100)+`": 1}`, func() interface{} { return &map[string]interface{}{} })
	try("{\"a\"\n: 1}", func() interface{} { return &map[string]interface{}{} })
	try("{\n\t\"a\": 1,\n\t\"b\": [\n\t\t1,\n\t\t2\n\t]\n}", func() interface{} { return &map[string]interface{}{} })
	try("\ufeff{\"a\": 1}", func() interface{} { return &map[string]interface{}{} })
	try(`{"a": 1e400}`, func() interface{} { return &map[string]interface{}{} })
	try(`{"a": "x", "a": "y"}`, func() interface{} { return &map[string]interface{}{} })
	try(`{"a": {"b": 1}, "a": {"c": 2}}`, func() interface{} { return &map[string]interface{}{} })
	try(`{"a": "#c", "b": "//x", "c": "/*x*/", "d": "'''"}`, func() interface{} { return &map[string]interface{}{} })
	try(`[]`, func() interface{} { return &[]interface{}{} })
	try(`{}`, func() interface{} { return &map[string]interface{}{} })
	try(``, func() interface{} { return &map[string]interface{}{} })
	try(`{"a": "${b}", "b": {"c": 1}}`, func() interface{} { return &map[string]interface{}{} }, ucfg.VarExp)
	try(`{"a": "${b.0}", "b": [1000000, 2]}`, func() interface{} { return &struct{ A string }{} }, ucfg.VarExp, ucfg.PathSep("."))
}
