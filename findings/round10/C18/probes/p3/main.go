package main

import (
	stdjson "encoding/json"
	"fmt"
	"math/rand"
	"reflect"
	"strings"

	ucfg "github.com/elastic/go-ucfg"
	"github.com/elastic/go-ucfg/hjson"
	"github.com/elastic/go-ucfg/json"
	"github.com/elastic/go-ucfg/yaml"
)

type loader struct {
	name string
	fn   func([]byte, ...ucfg.Option) (*ucfg.Config, error)
}

var loaders = []loader{{"yaml", yaml.NewConfig}, {"json", json.NewConfig}, {"hjson", hjson.NewConfig}}

func norm(v interface{}) interface{} {
	switch x := v.(type) {
	case int64:
		return fmt.Sprintf("num:%v", float64(x))
	case uint64:
		return fmt.Sprintf("num:%v", float64(x))
	case float64:
		if x == 0 {
			x = 0
		}
		return fmt.Sprintf("num:%v", x)
	case map[string]interface{}:
		m := map[string]interface{}{}
		for k, e := range x {
			m[k] = norm(e)
		}
		return m
	case []interface{}:
		a := make([]interface{}, len(x))
		for i, e := range x {
			a[i] = norm(e)
		}
		return a
	}
	return v
}

var alphabet = []string{"a", "b", "c", ".", "0", "1", "2", " ", "$", "{", "}", ":", "-", "#", "/", "*", "'", "\\\"", "\\\\", "\\n", "\\t", "é", "日", "😀", "\\u00e9", "<", ">", "&", "%", "@", "!", "~", "|", "[", "]", ",", "null", "true", "\\u2028", "_", "=", "?", "`", "+"}

func rstr(r *rand.Rand, varexp bool) string {
	n := r.Intn(5)
	var sb strings.Builder
	for i := 0; i < n; i++ {
		s := alphabet[r.Intn(len(alphabet))]
		if !varexp && false {
			_ = s
		}
		sb.WriteString(s)
	}
	return sb.String()
}

var keys = []string{"a", "b", "c", "a.b", "a.c", "0", "1", "2", "b.0", "b.1", "x y", "", "a.", ".a", "<<", "true", "null", "1.5", "-1", "é", "a b", "A", "y", "n", "on", "~", "007", "0x1", "1e3", "c.d.e", "c.d"}

func rval(r *rand.Rand, depth int, varexp bool) string {
	k := r.Intn(10)
	if depth <= 0 && k >= 8 {
		k = r.Intn(8)
	}
	switch k {
	case 0:
		return "null"
	case 1:
		return "true"
	case 2:
		return "false"
	case 3:
		return fmt.Sprint(r.Intn(2000000) - 1000000)
	case 4:
		fs := []string{"0.5", "-1.25", "1e3", "1E-2", "2.5e+3", "0.0", "-0.0", "1.0", "123456.789", "1e21", "1e-7", "0.1", "3.0e0", "-0", "0", "1e5"}
		return fs[r.Intn(len(fs))]
	case 5, 6:
		return `"` + rstr(r, varexp) + `"`
	case 7:
		special := []string{`"true"`, `"null"`, `"1"`, `"1.5"`, `"0x10"`, `"~"`, `"yes"`, `"1s"`, `""`, `" "`, `"[1,2]"`, `"{a: 1}"`, `"a,b"`, `"1,2"`}
		return special[r.Intn(len(special))]
	case 8:
		n := r.Intn(4)
		var parts []string
		for i := 0; i < n; i++ {
			parts = append(parts, rval(r, depth-1, varexp))
		}
		return "[" + strings.Join(parts, ", ") + "]"
	default:
		return robj(r, depth-1, varexp)
	}
}

func robj(r *rand.Rand, depth int, varexp bool) string {
	n := r.Intn(4)
	var parts []string
	used := map[string]bool{}
	for i := 0; i < n; i++ {
		k := keys[r.Intn(len(keys))]
		if used[k] {
			continue
		}
		used[k] = true
		kb, _ := stdjson.Marshal(k)
		parts = append(parts, string(kb)+": "+rval(r, depth, varexp))
	}
	return "{" + strings.Join(parts, ", ") + "}"
}

type typed struct {
	A   interface{}            `config:"a"`
	B   []interface{}          `config:"b"`
	C   map[string]interface{} `config:"c"`
	X   *ucfg.Config           `config:"x y"`
	F   float64                `config:"y"`
	I   int                    `config:"n"`
	Bo  bool                   `config:"on"`
}

func main() {
	r := rand.New(rand.NewSource(42))
	bad := 0
	classes := map[string]int{}
	for iter := 0; iter < 200000 && bad < 40; iter++ {
		var opts []ucfg.Option
		mode := r.Intn(4)
		if mode&1 != 0 {
			opts = append(opts, ucfg.PathSep("."))
		}
		if mode&2 != 0 {
			opts = append(opts, ucfg.VarExp)
		}
		var doc string
		if r.Intn(8) == 0 {
			doc = rval(r, 2, mode&2 != 0)
		} else {
			doc = robj(r, 3, mode&2 != 0)
		}
		var outs []string
		for _, l := range loaders {
			c, err := l.fn([]byte(doc), opts...)
			if err != nil {
				e := err.Error()
				e = strings.Replace(e, "'float64'", "'NUM'", -1)
				e = strings.Replace(e, "'int'", "'NUM'", -1)
				e = strings.Replace(e, "'float'", "'NUM'", -1)
				e = strings.Replace(e, "'uint'", "'NUM'", -1)
				e = strings.Replace(e, "map[interface {}]interface {}", "MAP", -1)
				e = strings.Replace(e, "map[string]interface {}", "MAP", -1)
				if i := strings.Index(e, "\nTrace"); i >= 0 {
					e = e[:i]
				}
				outs = append(outs, "LOADERR "+e)
				continue
			}
			var g interface{}
			var uerr error
			if c.IsArray() && !c.IsDict() {
				var a []interface{}
				uerr = c.Unpack(&a, opts...)
				g = a
			} else {
				m := map[string]interface{}{}
				uerr = c.Unpack(&m, opts...)
				g = m
			}
			var t typed
			terr := c.Unpack(&t, opts...)
			var tx interface{}
			if t.X != nil {
				m := map[string]interface{}{}
				t.X.Unpack(&m, opts...)
				tx = norm(m)
			}
			se := func(e error) string {
				if e == nil {
					return "<nil>"
				}
				s := e.Error()
				for _, w := range []string{"'float'", "'int'", "'uint'"} {
					s = strings.Replace(s, w, "'NUM'", -1)
				}
				return s
			}
			outs = append(outs, fmt.Sprintf("G=%v Gerr=%v T=%v %v %v %v %v %v %v Terr=%v keys=%v", norm(g), se(uerr), norm(t.A), norm(t.B), norm(t.C), tx, t.F, t.I, t.Bo, se(terr), c.FlattenedKeys(opts...)))
		}
		if !(outs[0] == outs[1] && outs[1] == outs[2]) {
			cls := "other"
			if strings.HasPrefix(outs[0], "LOADERR yaml:") {
				cls = "yamlparse"
			}
			if doc == "null" {
				cls = "hjsonnull"
			}
			if strings.Contains(doc, "1e21") {
				cls = "1e21"
			}
			classes[cls]++
			if classes[cls] > 8 {
				continue
			}
			bad++
			fmt.Printf("MISMATCH mode=%d doc=%s\n", mode, doc)
			for i, o := range outs {
				fmt.Printf("   %-5s %s\n", loaders[i].name, o)
			}
		}
	}
	fmt.Println("classes:", classes)
	_ = reflect.DeepEqual
}
