package main

import (
	"fmt"

	ucfg "github.com/elastic/go-ucfg"
)

type Inner struct {
	A int
	B string
}

type level int

func (l *level) InitDefaults() {
	if *l == 0 {
		*l = 3
	}
}

func main() {
	// inline pointer, nil and non-nil
	type P struct {
		X   int
		Inl *Inner `config:",inline"`
	}
	p := P{X: 1}
	err := ucfg.MustNewFrom(map[string]interface{}{"x": 2, "a": 5}).Unpack(&p)
	fmt.Printf("inline nil ptr: err=%v p=%+v\n", err, p)
	p = P{X: 1, Inl: &Inner{1, "keep"}}
	err = ucfg.MustNewFrom(map[string]interface{}{"x": "zz", "a": 5}).Unpack(&p)
	fmt.Printf("inline ptr then fail (X is first, fails first): err=%v p.X=%v inl=%+v\n", err, p.X, *p.Inl)

	// explicit null for Initializer primitive, and for a map entry / list element
	type Q struct {
		Lvl level
		M   map[string]int
		L   []int
		P   *int
		I   interface{}
	}
	seven := 7
	q := Q{Lvl: 7, M: map[string]int{"k": 1}, L: []int{1, 2}, P: &seven, I: 7}
	err = ucfg.MustNewFrom(map[string]interface{}{"lvl": nil, "m": map[string]interface{}{"k": nil}, "l": []interface{}{nil, 5}, "p": nil, "i": nil}).Unpack(&q)
	fmt.Printf("nulls inside: err=%v q.Lvl=%v M=%v L=%v P=%v I=%v\n", err, q.Lvl, q.M, q.L, *q.P, q.I)

	// list setting given as a scalar, default merge over longer list
	q = Q{L: []int{1, 2, 3}}
	err = ucfg.MustNewFrom(map[string]interface{}{"l": 9}).Unpack(&q)
	fmt.Printf("scalar into list: err=%v L=%v\n", err, q.L)

	// top-level map of structs by value, failure in second key
	m := map[string]Inner{"a": {1, "a"}, "b": {2, "b"}}
	err = ucfg.MustNewFrom(map[string]interface{}{"a": map[string]interface{}{"a": 9}, "b": map[string]interface{}{"a": "zz"}}).Unpack(m)
	fmt.Printf("top map fail: err=%v m=%v (map contents may differ)\n", err, m)
}
