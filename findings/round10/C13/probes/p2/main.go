package main

import (
	"errors"
	"fmt"

	ucfg "github.com/elastic/go-ucfg"
)

type level int

func (l *level) InitDefaults() {
	if *l == 0 {
		*l = 3
	}
}

type name string

func (n *name) InitDefaults() { *n = "dflt" }

type Inner struct {
	A int
	B string
}

// struct that unpacks itself and then fails validation
type SU struct {
	A int
	B int
}

func (s *SU) Unpack(c *ucfg.Config) error {
	s.A = 99
	return errors.New("boom")
}

type SV struct {
	A int
}

func (s *SV) Validate() error {
	if s.A > 5 {
		s.A = -1 // a validator that writes
		return errors.New("too big")
	}
	return nil
}

type T struct {
	Lvl   level
	PLvl  *level
	IfLvl interface{}
	N     name
	LL    []level
	ML    map[string]level
	AL    [2]level
	Nest  struct{ Lvl level }
	LR    []int `config:"lr,replace"`
}

func main() {
	seven := level(7)
	t := T{Lvl: 7, PLvl: &seven, IfLvl: level(7), N: "mine", LL: []level{7, 7}, ML: map[string]level{"a": 7}, AL: [2]level{7, 7}, LR: []int{1, 2}}
	t.Nest.Lvl = 7
	c, _ := ucfg.NewFrom(map[string]interface{}{"ll": []interface{}{1}})
	err := c.Unpack(&t)
	fmt.Printf("absent initializer prims: err=%v Lvl=%v PLvl=%v IfLvl=%v N=%q LL=%v ML=%v AL=%v Nest=%v LR=%v\n", err, t.Lvl, *t.PLvl, t.IfLvl, t.N, t.LL, t.ML, t.AL, t.Nest, t.LR)

	// top-level unpacker failing after a write
	su := SU{1, 2}
	err = ucfg.MustNewFrom(map[string]interface{}{"a": 5}).Unpack(&su)
	fmt.Printf("SU: err=%v su=%v\n", err, su)

	sv := SV{1}
	err = ucfg.MustNewFrom(map[string]interface{}{"a": 9}).Unpack(&sv)
	fmt.Printf("SV: err=%v sv=%v\n", err, sv)

	// nested
	type W struct {
		X  int
		SU SU
		SV SV
	}
	w := W{1, SU{1, 2}, SV{1}}
	err = ucfg.MustNewFrom(map[string]interface{}{"x": 2, "sv": map[string]interface{}{"a": 9}}).Unpack(&w)
	fmt.Printf("W sv: err=%v w=%v\n", err, w)
	w = W{1, SU{1, 2}, SV{1}}
	err = ucfg.MustNewFrom(map[string]interface{}{"x": 2, "su": map[string]interface{}{"a": 9}}).Unpack(&w)
	fmt.Printf("W su: err=%v w=%v\n", err, w)

	// top-level array of structs
	arr := [2]Inner{{1, "a"}, {2, "b"}}
	err = ucfg.MustNewFrom([]interface{}{map[string]interface{}{"a": 9}, map[string]interface{}{"a": "zz"}}).Unpack(&arr)
	fmt.Printf("top [2]Inner: err=%v arr=%v\n", err, arr)

	// struct with slice field, ReplaceValues, absent / null
	type R struct {
		L []int
		M map[string]int
		I Inner
	}
	r := R{L: []int{1, 2}, M: map[string]int{"a": 1}, I: Inner{1, "x"}}
	err = ucfg.MustNewFrom(map[string]interface{}{"l": nil, "i": nil}).Unpack(&r, ucfg.ReplaceValues)
	fmt.Printf("R null replace: err=%v r=%v\n", err, r)
	r = R{L: []int{1, 2}, M: map[string]int{"a": 1}, I: Inner{1, "x"}}
	err = ucfg.MustNewFrom(map[string]interface{}{"i": map[string]interface{}{"a": 5}, "m": map[string]interface{}{"b": 2}}).Unpack(&r, ucfg.ReplaceValues)
	fmt.Printf("R replace struct/map: err=%v r=%v\n", err, r)

	// empty list setting
	r = R{L: []int{1, 2}}
	err = ucfg.MustNewFrom(map[string]interface{}{"l": []interface{}{}}).Unpack(&r)
	fmt.Printf("R empty list default: err=%v r=%v\n", err, r)
	r = R{L: []int{1, 2}}
	err = ucfg.MustNewFrom(map[string]interface{}{"l": []interface{}{}}).Unpack(&r, ucfg.ReplaceValues)
	fmt.Printf("R empty list replace: err=%v r=%v\n", err, r)

	// struct tag
	type G struct {
		Name string `cfg:"name,ignore" config:"n2"`
		Port int    `cfg:"port"`
	}
	g := G{"keep", 1}
	err = ucfg.MustNewFrom(map[string]interface{}{"name": "x", "port": 2, "n2": "y"}).Unpack(&g, ucfg.StructTag("cfg"))
	fmt.Printf("G cfg tag: err=%v g=%v\n", err, g)
}
