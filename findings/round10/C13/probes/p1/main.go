package main

import (
	"errors"
	"fmt"
	"reflect"
	"regexp"
	"time"

	ucfg "github.com/elastic/go-ucfg"
)

var failed int

func report(name string, ok bool, detail string) {
	st := "ok  "
	if !ok {
		st = "DIFF"
		failed++
	}
	fmt.Printf("%s %-40s %s\n", st, name, detail)
}

type level int

func (l *level) InitDefaults() {
	if *l == 0 {
		*l = 3
	}
}

type Inner struct {
	A int
	B string
	c int
}

type pos int

func (p pos) Validate() error {
	if p < 0 {
		return errors.New("neg")
	}
	return nil
}

type U struct {
	V   string
	Cnt int
}

func (u *U) Unpack(v interface{}) error {
	u.Cnt++
	s, ok := v.(string)
	if !ok {
		return errors.New("want string")
	}
	u.V = s
	return nil
}

type WithInit struct {
	X int
	Y int
}

func (w *WithInit) InitDefaults() {
	if w.X == 0 {
		w.X = 11
	}
}

type S struct {
	Lvl    level
	I      int
	Str    string
	In     Inner
	PIn    *Inner
	L      []int
	LS     []Inner
	Arr    [3]int
	M      map[string]int
	If     interface{}
	D      time.Duration
	Re     regexp.Regexp
	PRe    *regexp.Regexp
	Ign    int `config:"ign,ignore"`
	priv   int
	U      U
	WI     WithInit
	P      *int
	Z      pos `config:"z"`
	Late   int `config:"late" validate:"min=5"`
	IfS    interface{}
	LApp   []int `config:"lapp,append"`
	LPre   []int `config:"lpre,prepend"`
	Inl    Inner `config:",inline"`
	MS     map[string]Inner
	ArrS   [2]Inner
	PP     **int
	IfList interface{}
}

func mk() S {
	seven := 7
	pseven := &seven
	return S{
		Lvl: 7, I: 1, Str: "s", In: Inner{1, "b", 9}, PIn: &Inner{2, "pb", 8},
		L: []int{1, 2, 3}, LS: []Inner{{1, "x", 1}, {2, "y", 2}}, Arr: [3]int{1, 2, 3},
		M: map[string]int{"k": 1}, If: 5, D: time.Second, Re: *regexp.MustCompile("a+"),
		PRe: regexp.MustCompile("b+"), Ign: 4, priv: 5, U: U{"u", 0}, WI: WithInit{0, 2}, P: &seven,
		Z: 1, Late: 9, IfS: Inner{3, "ifs", 7}, LApp: []int{1}, LPre: []int{1},
		Inl: Inner{5, "inl", 6}, MS: map[string]Inner{"a": {1, "ma", 1}}, ArrS: [2]Inner{{1, "a0", 1}, {2, "a1", 2}},
		PP: &pseven, IfList: []interface{}{1, 2},
	}
}

// shallow: compare everything except map contents / pointees
func snap(s S) string {
	return fmt.Sprintf("%v|%v|%q|%v|%p|%v|%v|%v|%p|%v|%v|%q|%p|%v|%v|%v|%v|%p|%v|%v|%v|%v|%v|%v|%p|%v|%p|%v",
		s.Lvl, s.I, s.Str, s.In, s.PIn, s.L, s.LS, s.Arr, s.M, s.If, s.D, s.Re.String(), s.PRe, s.Ign, s.priv, s.U, s.WI, s.P,
		s.Z, s.Late, s.IfS, s.LApp, s.LPre, s.Inl, s.MS, s.ArrS, s.PP, s.IfList)
}

func tryFail(name string, in map[string]interface{}, opts ...ucfg.Option) {
	c, err := ucfg.NewFrom(in, opts...)
	if err != nil {
		fmt.Println("newfrom", name, err)
		return
	}
	s := mk()
	before := snap(s)
	err = c.Unpack(&s, opts...)
	if err == nil {
		report(name, false, "expected an error, got none: "+snap(s))
		return
	}
	after := snap(s)
	report(name, before == after, fmt.Sprintf("err=%v\n   before=%s\n   after =%s", err, before, after))
}

func main() {
	// --- success cases: absent settings leave fields alone
	{
		c, _ := ucfg.NewFrom(map[string]interface{}{"i": 2})
		s := mk()
		b := mk()
		err := c.Unpack(&s)
		b.I = 2
		b.WI.X = 11
		// pointers differ between mk() calls, compare through deep equal on values
		report("only-i err", err == nil, fmt.Sprint(err))
		report("only-i lvl kept", s.Lvl == 7, fmt.Sprint(s.Lvl))
		s.Lvl = b.Lvl
		report("only-i rest", reflect.DeepEqual(fmt.Sprintf("%+v", deref(s)), fmt.Sprintf("%+v", deref(b))), fmt.Sprintf("\n  got  %+v\n  want %+v", deref(s), deref(b)))
	}
	{
		// explicit nulls
		c, _ := ucfg.NewFrom(map[string]interface{}{"i": nil, "str": nil, "in": nil, "pin": nil, "l": nil, "m": nil, "if": nil, "p": nil, "lvl": nil, "arr": nil, "re": nil, "d": nil})
		s := mk()
		err := c.Unpack(&s)
		report("nulls err", err == nil, fmt.Sprint(err))
		fmt.Printf("   after nulls: %+v\n", deref(s))
	}
	{
		// empty config
		c := ucfg.New()
		s := mk()
		b := snap(s)
		err := c.Unpack(&s)
		report("empty err", err == nil, fmt.Sprint(err))
		report("empty same", snap(s) == b, "\n  "+b+"\n  "+snap(s))
	}

	// --- failure cases
	tryFail("late validate", map[string]interface{}{"i": 2, "str": "x", "late": 1})
	tryFail("late conv", map[string]interface{}{"i": 2, "str": "x", "late": "zz"})
	tryFail("nested fail", map[string]interface{}{"i": 2, "in": map[string]interface{}{"a": 5, "b": "nb"}, "late": 1})
	tryFail("slice elem fail", map[string]interface{}{"l": []interface{}{9, "zz"}})
	tryFail("slice then late", map[string]interface{}{"l": []interface{}{9, 8}, "ls": []interface{}{map[string]interface{}{"a": 9}}, "late": 1})
	tryFail("array elem fail", map[string]interface{}{"arr": []interface{}{9, 8, "zz"}})
	tryFail("array then late", map[string]interface{}{"arr": []interface{}{9, 8, 7}, "arrs": []interface{}{map[string]interface{}{"a": 9}, map[string]interface{}{"a": "zz"}}})
	tryFail("array size", map[string]interface{}{"i": 3, "arr": []interface{}{9, 8}})
	tryFail("unpacker then late", map[string]interface{}{"u": "new", "late": 1})
	tryFail("unpacker fails", map[string]interface{}{"i": 4, "u": 5})
	tryFail("ifs struct then late", map[string]interface{}{"ifs": map[string]interface{}{"a": 9}, "late": 1})
	tryFail("append then late", map[string]interface{}{"lapp": []interface{}{5}, "lpre": []interface{}{5}, "late": 1})
	tryFail("inline then late", map[string]interface{}{"a": 77, "b": "bb", "late": 1})
	tryFail("inline fails", map[string]interface{}{"i": 5, "a": "zz"})
	tryFail("validate type", map[string]interface{}{"i": 5, "z": -1})
	tryFail("p then late", map[string]interface{}{"p": 5, "pp": 6, "late": 1})
	tryFail("re then late", map[string]interface{}{"re": "c+", "pre": "d+", "d": "5s", "late": 1})
	tryFail("bad regex", map[string]interface{}{"i": 5, "pre": "(", "late": 7})
	tryFail("iflist then late", map[string]interface{}{"iflist": []interface{}{5}, "if": "str", "late": 1})
	tryFail("wi then late", map[string]interface{}{"wi": map[string]interface{}{"y": 5}, "late": 1})
	tryFail("missing ref", map[string]interface{}{"i": 5, "str": "${nope}"}, ucfg.VarExp)
	tryFail("missing ref late", map[string]interface{}{"i": 5, "late": "${nope}"}, ucfg.VarExp)
	tryFail("ms then late", map[string]interface{}{"ms": map[string]interface{}{"b": map[string]interface{}{"a": 1}}, "late": 1})

	// top-level array
	{
		c, _ := ucfg.NewFrom([]interface{}{9, 8, "zz"})
		arr := [3]int{1, 2, 3}
		err := c.Unpack(&arr)
		report("top array fail", arr == [3]int{1, 2, 3}, fmt.Sprintf("err=%v arr=%v", err, arr))
	}
	{
		c, _ := ucfg.NewFrom([]interface{}{9, 8, "zz"})
		sl := []int{1, 2, 3}
		err := c.Unpack(&sl)
		report("top slice fail", reflect.DeepEqual(sl, []int{1, 2, 3}), fmt.Sprintf("err=%v sl=%v", err, sl))
	}
	if failed > 0 {
		fmt.Println("DIFFS:", failed)
	}
}

type flat struct {
	S   S
	PIn Inner
	P   int
	PRe string
	PP  int
}

func deref(s S) flat {
	f := flat{S: s}
	if s.PIn != nil {
		f.PIn = *s.PIn
	}
	if s.P != nil {
		f.P = *s.P
	}
	if s.PRe != nil {
		f.PRe = s.PRe.String()
	}
	if s.PP != nil && *s.PP != nil {
		f.PP = **s.PP
	}
	f.S.PIn, f.S.P, f.S.PRe, f.S.PP = nil, nil, nil, nil
	f.S.Re = regexp.Regexp{}
	return f
}
