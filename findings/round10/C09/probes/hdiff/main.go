package main

import (
	"fmt"

	ucfg "github.com/elastic/go-ucfg"
	"github.com/elastic/go-ucfg/diff"
)

func main() {
	seen := map[string]int{}
	seenF := map[string]int{}
	for i := 0; i < 200; i++ {
		a := ucfg.MustNewFrom(map[string]interface{}{"a": 1, "b": 2, "c": 3, "d": 4})
		b := ucfg.MustNewFrom(map[string]interface{}{"e": 1, "f": 2, "g": 3, "h": 4})
		d := diff.CompareConfigs(a, b)
		seen[fmt.Sprint(d[diff.Add], d[diff.Remove])]++
		seenF[fmt.Sprint(a.GetFields())]++
	}
	fmt.Println("distinct CompareConfigs results:", len(seen))
	fmt.Println("distinct GetFields results:", len(seenF))
}
