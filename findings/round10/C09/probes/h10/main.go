package main

import (
	"fmt"

	ucfg "github.com/elastic/go-ucfg"
)

func main() {
	opts := []ucfg.Option{ucfg.VarExp, ucfg.PathSep(".")}
	seen := map[string]int{}
	for i := 0; i < 200; i++ {
		to, err := ucfg.NewFrom(map[string]interface{}{
			"a": "${x}",
			"b": "${x}",
			"x": map[string]interface{}{"k": 1},
		}, opts...)
		if err != nil {
			panic(err)
		}
		err = to.Merge(map[string]interface{}{
			"a": map[string]interface{}{"j": 2},
			"b": map[string]interface{}{"j": 2},
		}, opts...)
		if err != nil {
			seen["merr:"+err.Error()]++
			continue
		}
		var out map[string]interface{}
		if err := to.Unpack(&out, opts...); err != nil {
			seen["uerr:"+err.Error()]++
			continue
		}
		seen[fmt.Sprint(out)]++
	}
	for k, v := range seen {
		fmt.Println(v, k)
	}
}
