package main

import (
	"fmt"

	ucfg "github.com/elastic/go-ucfg"
)

func keyA(s string) interface{} {
	type K string
	return K(s)
}

func keyB(s string) interface{} {
	type K string
	return K(s)
}

func main() {
	seen := map[string]int{}
	for i := 0; i < 400; i++ {
		m := map[interface{}]interface{}{}
		// pad so the runtime uses a hashed map with random iteration start
		m[keyA("a")] = []interface{}{1}
		m[keyB("a")] = []interface{}{2, 3}
		c, err := ucfg.NewFrom(m)
		if err != nil {
			seen["err:"+err.Error()]++
			continue
		}
		var out map[string]interface{}
		if err := c.Unpack(&out); err != nil {
			seen["uerr:"+err.Error()]++
			continue
		}
		seen[fmt.Sprint(out)]++
	}
	fmt.Println(seen)
}
