package main

import (
	"fmt"

	ucfg "github.com/elastic/go-ucfg"
)

type S string

func main() {
	run := func(name string, mk func() interface{}) {
		seen := map[string]int{}
		for i := 0; i < 400; i++ {
			c, err := ucfg.NewFrom(mk())
			if err != nil {
				e := err.(ucfg.Error)
				seen[fmt.Sprintf("error: %v / %v", e.Class(), e.Reason())]++
				continue
			}
			var out map[string]interface{}
			if err := c.Unpack(&out); err != nil {
				seen["uerr:"+err.Error()]++
				continue
			}
			seen[fmt.Sprint(out)]++
		}
		fmt.Println(name, len(seen), seen)
	}
	run("string and S", func() interface{} {
		return map[interface{}]interface{}{"a": []interface{}{1}, S("a"): []interface{}{2, 3}, "b": 1, "c": 2}
	})
	ch := make(chan int)
	run("non-string keys mixed with faults", func() interface{} {
		return map[interface{}]interface{}{5: 1, "5": ch, "x": ch, 1.5: 2, true: 3, nil: 4}
	})
}
