package main

import (
	"errors"
	"fmt"

	ucfg "github.com/elastic/go-ucfg"
)

type V struct{ msg string }

func (v V) Validate() error {
	if v.msg == "" {
		return nil
	}
	return errors.New(v.msg)
}

func keyA(s string) interface{} {
	type K string
	return K(s)
}

func keyB(s string) interface{} {
	type K string
	return K(s)
}

type target struct {
	Name string                `config:"name"`
	M    map[interface{}]V     `config:"m"`
}

func main() {
	seen := map[string]int{}
	c := ucfg.MustNewFrom(map[string]interface{}{"name": "x"})
	for i := 0; i < 400; i++ {
		t := target{M: map[interface{}]V{
			keyA("a"): {"first is bad"},
			keyB("a"): {"second is bad"},
		}}
		err := c.Unpack(&t)
		seen[fmt.Sprint(err)]++
	}
	for k, v := range seen {
		fmt.Println(v, "x", k)
	}
}
