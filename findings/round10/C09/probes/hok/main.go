package main

import (
	"fmt"
	"math/rand"
	"os"
	"sort"

	ucfg "github.com/elastic/go-ucfg"
)

type kv struct {
	k string
	v func() interface{}
}

// build inserts the pairs in a random order (and the runtime randomizes on top)
func build(pairs []kv) map[string]interface{} {
	m := map[string]interface{}{}
	for _, i := range rand.Perm(len(pairs)) {
		m[pairs[i].k] = pairs[i].v()
	}
	return m
}

func render(c *ucfg.Config, opts ...ucfg.Option) string {
	var out map[string]interface{}
	if err := c.Unpack(&out, opts...); err != nil {
		return "unpack error: " + err.Error()
	}
	return fmt.Sprint(out)
}

func val(x interface{}) func() interface{} { return func() interface{} { return x } }

type scenario struct {
	name string
	run  func() string
}

func main() {
	dot := []ucfg.Option{ucfg.PathSep("."), ucfg.VarExp}
	var pad []kv
	for i := 0; i < 20; i++ {
		pad = append(pad, kv{fmt.Sprintf("pad%02d", i), val(i)})
	}
	scenarios := []scenario{
		{"overlap a / a.b / a.b.c", func() string {
			m := build(append([]kv{
				{"a", func() interface{} { return map[string]interface{}{"x": 1} }},
				{"a.b", func() interface{} { return map[string]interface{}{"y": 2} }},
				{"a.b.c", val(3)},
				{"a.b.y", val(4)},
			}, pad...))
			c, err := ucfg.NewFrom(m, dot...)
			if err != nil {
				return "error: " + err.Error()
			}
			return render(c, dot...)
		}},
		{"overlap lists a / a.0 / a.1", func() string {
			m := build(append([]kv{
				{"a", func() interface{} { return []interface{}{map[string]interface{}{"x": 1}} }},
				{"a.0", func() interface{} { return map[string]interface{}{"y": 2} }},
				{"a.1.z", val(3)},
			}, pad...))
			c, err := ucfg.NewFrom(m, dot...)
			if err != nil {
				return "error: " + err.Error()
			}
			return render(c, dot...)
		}},
		{"two faults in input (dup + unsupported)", func() string {
			m := build(append([]kv{
				{"a", val(1)},
				{"a.b", val(2)},
				{"z", func() interface{} { return make(chan int) }},
				{"b.c", val(1)},
				{"b", val("x")},
			}, pad...))
			_, err := ucfg.NewFrom(m, dot...)
			return fmt.Sprint(err)
		}},
		{"mutual references + cycles, unpack", func() string {
			m := build(append([]kv{
				{"a", val("${b}")},
				{"b", val("${c}")},
				{"c", val("${a}")},
				{"d", val("${e}-${e}")},
				{"e", val("${f}")},
				{"f", val(7)},
				{"g", val("${missing}")},
			}, pad...))
			c, err := ucfg.NewFrom(m, dot...)
			if err != nil {
				return "error: " + err.Error()
			}
			return render(c, dot...)
		}},
		{"refs ok, unpack", func() string {
			m := build(append([]kv{
				{"d", val("${e}-${e}")},
				{"e", val("${f}")},
				{"f", val(7)},
				{"h", val("${sub}")},
				{"i", val("${sub.k}")},
				{"sub", func() interface{} { return map[string]interface{}{"k": "${f}", "l": "${d}"} }},
			}, pad...))
			c, err := ucfg.NewFrom(m, dot...)
			if err != nil {
				return "error: " + err.Error()
			}
			return render(c, dot...)
		}},
		{"merge two configs with refs and lists, append", func() string {
			a, err := ucfg.NewFrom(build(append([]kv{
				{"l", func() interface{} { return []interface{}{1, 2} }},
				{"r", val("${o}")},
				{"o", func() interface{} { return map[string]interface{}{"k": 1} }},
				{"p.q", val(1)},
			}, pad...)), dot...)
			if err != nil {
				return "error: " + err.Error()
			}
			b := build(append([]kv{
				{"l", func() interface{} { return []interface{}{3} }},
				{"r", func() interface{} { return map[string]interface{}{"j": 1} }},
				{"p", func() interface{} { return map[string]interface{}{"q": map[string]interface{}{"x": 1}} }},
				{"p.r", val(5)},
			}, pad...))
			if err := a.Merge(b, append(dot, ucfg.AppendValues)...); err != nil {
				return "merge error: " + err.Error()
			}
			return render(a, dot...)
		}},
		{"unpack two faults into struct map", func() string {
			c, err := ucfg.NewFrom(build(append([]kv{
				{"m", func() interface{} {
					return build([]kv{{"a", val("x")}, {"b", val("y")}, {"c", val(-1)}, {"d", val("${nope}")}})
				}},
			}, pad...)), dot...)
			if err != nil {
				return "error: " + err.Error()
			}
			var t struct {
				M map[string]uint `config:"m"`
			}
			return fmt.Sprint(c.Unpack(&t, dot...))
		}},
		{"field handling options", func() string {
			a, err := ucfg.NewFrom(build([]kv{
				{"x.l", func() interface{} { return []interface{}{1, 2} }},
				{"y.l", func() interface{} { return []interface{}{1, 2} }},
				{"z", func() interface{} { return map[string]interface{}{"l": []interface{}{1, 2}} }},
			}), dot...)
			if err != nil {
				return "error: " + err.Error()
			}
			b := build([]kv{
				{"x", func() interface{} { return map[string]interface{}{"l": []interface{}{3}} }},
				{"y.l", func() interface{} { return []interface{}{3} }},
				{"z.l.0", val(9)},
			})
			o := append(dot, ucfg.FieldAppendValues("x.l", "z"), ucfg.FieldPrependValues("y"), ucfg.FieldReplaceValues("z.l"))
			if err := a.Merge(b, o...); err != nil {
				return "merge error: " + err.Error()
			}
			return render(a, dot...)
		}},
	}

	bad := 0
	for _, s := range scenarios {
		seen := map[string]int{}
		for i := 0; i < 500; i++ {
			seen[s.run()]++
		}
		keys := make([]string, 0, len(seen))
		for k := range seen {
			keys = append(keys, k)
		}
		sort.Strings(keys)
		fmt.Printf("%-45s distinct outcomes: %d\n", s.name, len(seen))
		if len(seen) > 1 {
			bad++
		}
		for _, k := range keys {
			if len(k) > 300 {
				k = k[:300] + "..."
			}
			fmt.Printf("    %4d x %s\n", seen[k], k)
		}
	}
	if bad > 0 {
		os.Exit(1)
	}
}
