// differential probe: random JSON values -> text (compact / indented / CRLF / odd whitespace)
// -> parse.Value -> compare with the generating value.
package main

import (
	"bytes"
	"encoding/json"
	"fmt"
	"math"
	"math/rand"
	"os"
	"reflect"
	"strings"

	"github.com/elastic/go-ucfg/parse"
)

var runes = []rune{'a', 'Z', '0', ' ', '"', '\\', '/', '\'', ',', ':', '[', ']', '{', '}', '\n', '\r', '\t', '\b', '\f', 0, 1, 0x1f, 0x7f, 0x80, 0xa0, 0xe9, 0x2028, 0x2029, 0xfeff, 0xfffd, 0x1F600, 0x10FFFF, '$', '#', '<', '>', '&'}

func rstr(r *rand.Rand) string {
	n := r.Intn(6)
	var b strings.Builder
	for i := 0; i < n; i++ {
		b.WriteRune(runes[r.Intn(len(runes))])
	}
	return b.String()
}

func gen(r *rand.Rand, d int) interface{} {
	k := r.Intn(9)
	if d <= 0 && k >= 7 {
		k = r.Intn(7)
	}
	switch k {
	case 0:
		return nil
	case 1:
		return r.Intn(2) == 0
	case 2:
		return float64(r.Intn(2000) - 1000)
	case 3:
		return r.NormFloat64() * math.Pow(10, float64(r.Intn(40)-20))
	case 4:
		return float64(r.Int63()) * float64(r.Intn(3)-1)
	case 5, 6:
		return rstr(r)
	case 7:
		n := r.Intn(4)
		a := make([]interface{}, n)
		for i := range a {
			a[i] = gen(r, d-1)
		}
		return a
	default:
		n := r.Intn(4)
		m := map[string]interface{}{}
		for i := 0; i < n; i++ {
			m[rstr(r)] = gen(r, d-1)
		}
		return m
	}
}

// norm: expected shape, with the known deviation empty container -> nil
func norm(v interface{}) interface{} {
	switch t := v.(type) {
	case []interface{}:
		if len(t) == 0 {
			return nil
		}
		o := make([]interface{}, len(t))
		for i := range t {
			o[i] = norm(t[i])
		}
		return o
	case map[string]interface{}:
		if len(t) == 0 {
			return nil
		}
		o := map[string]interface{}{}
		for k, x := range t {
			o[k] = norm(x)
		}
		return o
	case uint64:
		return float64(t)
	case int64:
		return float64(t)
	}
	return v
}

func main() {
	r := rand.New(rand.NewSource(42))
	bad := 0
	for it := 0; it < 200000 && bad < 15; it++ {
		v := gen(r, 4)
		var texts []string
		var buf bytes.Buffer
		enc := json.NewEncoder(&buf)
		enc.SetEscapeHTML(r.Intn(2) == 0)
		if err := enc.Encode(v); err != nil {
			panic(err)
		}
		c := buf.String()
		texts = append(texts, c)
		var ind bytes.Buffer
		json.Indent(&ind, []byte(c), "", "\t")
		texts = append(texts, ind.String(), strings.Replace(ind.String(), "\n", "\r\n", -1))
		var ind2 bytes.Buffer
		json.Indent(&ind2, []byte(c), " ", "  ")
		texts = append(texts, ind2.String())
		// exotic: put whitespace around every structural char of the compact form (outside strings)
		var ex strings.Builder
		inStr, esc := false, false
		for i := 0; i < len(c); i++ {
			ch := c[i]
			if inStr {
				ex.WriteByte(ch)
				if esc {
					esc = false
				} else if ch == '\\' {
					esc = true
				} else if ch == '"' {
					inStr = false
					ex.WriteString(" \t")
				}
				continue
			}
			switch ch {
			case '"':
				inStr = true
				ex.WriteString("\r\n ")
				ex.WriteByte(ch)
			case '[', ']', '{', '}', ',', ':':
				ex.WriteString(" \n")
				ex.WriteByte(ch)
				ex.WriteString("\t\r")
			default:
				ex.WriteByte(ch)
			}
		}
		texts = append(texts, ex.String())
		// reference decode by encoding/json
		var ref interface{}
		if err := json.Unmarshal([]byte(c), &ref); err != nil {
			panic(err)
		}
		want := norm(ref)
		for ti, txt := range texts {
			got, err := parse.Value(txt)
			if err != nil {
				fmt.Printf("ERR layout %d: %q: %v\n", ti, txt, err)
				bad++
				continue
			}
			if !reflect.DeepEqual(norm(got), want) {
				fmt.Printf("DIFF layout %d: %q\n   got  %#v\n   want %#v\n", ti, txt, norm(got), want)
				bad++
			}
		}
	}
	fmt.Println("bad:", bad)
	if bad > 0 {
		os.Exit(1)
	}
}
