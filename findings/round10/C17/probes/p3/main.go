// probe: extreme nesting depth and a few option corner cases
package main

import (
	"fmt"
	"os"
	"strconv"
	"strings"

	"github.com/elastic/go-ucfg/parse"
)

func main() {
	n := 100000
	if len(os.Args) > 1 {
		n, _ = strconv.Atoi(os.Args[1])
	}
	in := strings.Repeat("[", n) + "1" + strings.Repeat("]", n)
	v, err := parse.Value(in)
	d := 0
	for {
		a, ok := v.([]interface{})
		if !ok {
			break
		}
		d++
		v = a[0]
	}
	fmt.Println("depth", n, "->", d, v, err)

	ic := parse.Config{Array: true, Object: false, StringDQuote: true, StringSQuote: true, IgnoreCommas: true}
	for _, s := range []string{`{"a":1,"b":2}`, `{"a":"x","b":"y"}`, `"a", "b"`, `[1,2] , 3`} {
		v, err := parse.ValueWithConfig(s, ic)
		fmt.Printf("%q IgnoreCommas+noobj -> %#v %v\n", s, v, err)
	}
}
