// probe: the confirmed deviations of the UNCHANGED library, one line each
package main

import (
	"fmt"
	"reflect"

	"github.com/elastic/go-ucfg/parse"
)

func main() {
	d := parse.DefaultConfig
	p := func(tag, in string, cfg parse.Config) interface{} {
		v, err := parse.ValueWithConfig(in, cfg)
		fmt.Printf("%-4s %-28q -> %#v  err=%v\n", tag, in, v, err)
		return v
	}
	// H1 empty containers collapse to nil, indistinguishable from null
	a := p("H1", `[[],{}]`, d)
	b := p("H1", `[null,null]`, d)
	fmt.Println("     same result:", reflect.DeepEqual(a, b))
	p("H1", `{"a":{}}`, d)
	// H2 JSON numbers outside the float64 range come back as strings
	p("H2", `1e400`, d)
	p("H2", `[-1e309]`, d)
	// H3 IgnoreCommas: a top-level comma still builds a list behind a quoted string / array / object
	ic := d
	ic.IgnoreCommas = true
	p("H3", `"a","b"`, ic)
	p("H3", `[1],[2]`, ic)
	p("H3", `{"a":1},{"b":2}`, ic)
	p("H3", `a,b`, ic) // the documented case works
	// H4 disabled syntax is not taken literally but rejected, once a quoted string follows a comma
	p("H4", `{"a":1,"b":2}`, parse.EnvConfig)
	p("H4", `[{"a":1,"b":2}]`, parse.EnvConfig)
	p("H4", `["a","b"]`, parse.Config{StringDQuote: true, StringSQuote: true})
	// H5 keys ignore the quote-style switches (pinned by parse_test.go)
	p("H5", `{"a":"b"}`, parse.Config{Array: true, Object: true})
}
