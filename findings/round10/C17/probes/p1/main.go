package main

import (
	"fmt"

	"github.com/elastic/go-ucfg/parse"
)

func show(in string, cfg parse.Config) {
	v, err := parse.ValueWithConfig(in, cfg)
	fmt.Printf("%-45q cfg=%+v\n    -> %#v   err=%v\n", in, cfg, v, err)
}

func main() {
	d := parse.DefaultConfig
	for _, in := range []string{
		`[]`, `{}`, `[[]]`, `[{}]`, `{"a":{}}`, `{"a":[]}`, `[null]`,
		`1e400`, `-1e400`, `1e309`, `18446744073709551616`, `18446744073709551615`, `-9223372036854775808`, `-9223372036854775809`,
		`-0`, `-0.0`, `0e1`, `1E5`, `123456789012345678901234567890`,
		`"\/"`, `"\ud83d\ude00"`, `"\uD83D\uDE00"`, `"\ud800"`, `"a\\"`, `"\\\""`, `"\u0000"`, "\"\x7f\"", `"\u2028"`, "\"\u2028\"",
		`{"":1}`, `{"a":1,"a":2}`, `{"\/":1}`, `{"\ud83d\ude00":1}`,
		"{\r\n  \"a\": 1\r\n}", "[\r\n \"x\"\r\n]", "{\n\t\"a\"\n:\n1\n}",
		`"a,b"`, ` "x" `, "\"tab\there\"", "[1 , 2 ]", `[true,false,null]`, `{"a":true,"b":null}`,
		`"true"`, `"1"`, `"null"`, `""`, `[""]`,
		`Infinity`, `NaN`, `inf`, `1_000`, `0x10`, `010`,
	} {
		show(in, d)
	}
	fmt.Println("---- IgnoreCommas")
	ic := d
	ic.IgnoreCommas = true
	for _, in := range []string{`a,b`, `"a","b"`, `[1],[2]`, `{"a":1},{"b":2}`, `1,2`, `"a",b`, `'a','b'`} {
		show(in, ic)
	}
	fmt.Println("---- Env (no obj)")
	for _, in := range []string{`{"a":1}`, `{"a":1,"b":2}`, `{"a":[1,2]}`, `[{"a":1}]`, `[{"a":1,"b":2}]`, `{"a":"x,y"}`} {
		show(in, parse.EnvConfig)
	}
	fmt.Println("---- no array/obj")
	na := parse.Config{StringDQuote: true, StringSQuote: true}
	for _, in := range []string{`[1,2]`, `["a","b"]`, `[]`, `["a"]`, `[ "a" ]`, `{"a":1}`} {
		show(in, na)
	}
	fmt.Println("---- no dquote")
	nd := parse.Config{Array: true, Object: true, StringSQuote: true}
	for _, in := range []string{`"a"`, `"a,b"`, `["a,b"]`, `{"a":"b"}`, `{"a:b":"c"}`, `["a]"]`, `{"k":"v}"}`, `"a\"b"`} {
		show(in, nd)
	}
	fmt.Println("---- noop")
	for _, in := range []string{`{"a":[1,"x"]}`, `"a"`, `[1,2]`, "  [1,\n2] "} {
		show(in, parse.NoopConfig)
	}
}
