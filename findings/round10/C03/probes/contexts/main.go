package main

import (
	"fmt"
	"strings"
	"time"

	ucfg "github.com/elastic/go-ucfg"
)

func first(err error) string {
	if err == nil {
		return "<nil>"
	}
	return strings.SplitN(err.Error(), "\n", 2)[0]
}

func main() {
	c, _ := ucfg.NewFrom(map[string]interface{}{"m": map[string]interface{}{"a": 128, "b": -129}, "l": []interface{}{1, -1}, "l2": []interface{}{300}, "arr": []interface{}{40000, 1}, "p": 200, "d": []interface{}{9223372037}, "f": []interface{}{1e39}})
	{
		var t struct{ M map[string]int8 `config:"m"` }
		err := c.Unpack(&t)
		fmt.Println("map[string]int8 {128,-129}:", t.M, first(err))
	}
	{
		t := struct{ M map[string]int8 `config:"m"` }{M: map[string]int8{"a": 1, "b": 2}}
		err := c.Unpack(&t)
		fmt.Println("map[string]int8 prefilled {128,-129}:", t.M, first(err))
	}
	{
		var t struct{ L []uint8 `config:"l"` }
		err := c.Unpack(&t)
		fmt.Println("[]uint8 {1,-1}:", t.L, first(err))
	}
	{
		t := struct{ L []uint8 `config:"l2"` }{L: []uint8{7, 7}}
		err := c.Unpack(&t)
		fmt.Println("[]uint8 prefilled {300}:", t.L, first(err))
	}
	{
		var t struct{ A [2]int16 `config:"arr"` }
		err := c.Unpack(&t)
		fmt.Println("[2]int16 {40000,1}:", t.A, first(err))
	}
	{
		x := int8(5)
		t := struct{ P *int8 `config:"p"` }{P: &x}
		err := c.Unpack(&t)
		fmt.Println("*int8 preset 200:", *t.P, first(err))
	}
	{
		t := struct{ P interface{} `config:"p"` }{P: int8(5)}
		err := c.Unpack(&t)
		fmt.Println("interface{int8} 200:", t.P, first(err))
	}
	{
		x := uint8(5)
		t := struct{ P interface{} `config:"p"` }{P: &x}
		err := c.Unpack(&t)
		fmt.Println("interface{*uint8} 200:", x, first(err))
	}
	{
		var t struct{ D []time.Duration `config:"d"` }
		err := c.Unpack(&t)
		fmt.Println("[]Duration {9223372037}:", t.D, first(err))
	}
	{
		var t struct{ F []float32 `config:"f"` }
		err := c.Unpack(&t)
		fmt.Println("[]float32 {1e39}:", t.F, first(err))
	}
	{
		// primitive as list of length one
		var t struct{ P []int8 `config:"p"` }
		err := c.Unpack(&t)
		fmt.Println("[]int8 from primitive 200:", t.P, first(err))
	}
	{
		var m map[string]uint8
		c2, _ := ucfg.NewFrom(map[string]interface{}{"a": 256, "b": -1})
		err := c2.Unpack(&m)
		fmt.Println("top-level map[string]uint8:", m, first(err))
	}
	{
		var l []int8
		c2, _ := ucfg.NewFrom([]interface{}{127, 128})
		err := c2.Unpack(&l)
		fmt.Println("top-level []int8:", l, first(err))
	}
	{
		// getters with idx
		c2, _ := ucfg.NewFrom(map[string]interface{}{"l": []interface{}{uint64(1) << 63, -1, 1e19}})
		i, err := c2.Int("l", 0)
		fmt.Println("Int(l,0)=2^63:", i, first(err))
		u, err := c2.Uint("l", 1)
		fmt.Println("Uint(l,1)=-1:", u, first(err))
		u, err = c2.Uint("l", 2)
		fmt.Println("Uint(l,2)=1e19:", u, first(err))
		i, err = c2.Int("l", 2)
		fmt.Println("Int(l,2)=1e19:", i, first(err))
		b, err := c2.Bool("l", 1)
		fmt.Println("Bool(l,1)=-1:", b, first(err))
	}
	{
		// merged values
		c2, _ := ucfg.NewFrom(map[string]interface{}{"v": 1})
		c2.Merge(map[string]interface{}{"v": -1})
		var t struct{ V uint8 `config:"v"` }
		err := c2.Unpack(&t)
		fmt.Println("merged -1 -> uint8:", t.V, first(err))
		c2.SetUint("v", -1, 1<<63)
		var t2 struct{ V int64 `config:"v"` }
		err = c2.Unpack(&t2)
		fmt.Println("SetUint 2^63 -> int64:", t2.V, first(err))
	}
}
