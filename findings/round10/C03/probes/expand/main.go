package main

import (
	"fmt"
	"strings"
	"time"

	ucfg "github.com/elastic/go-ucfg"
	"github.com/elastic/go-ucfg/parse"
	"github.com/elastic/go-ucfg/yaml"
)

func first(err error) string {
	if err == nil {
		return "<nil>"
	}
	return strings.SplitN(err.Error(), "\n", 2)[0]
}

type T struct {
	I64 int64         `config:"v"`
}
type TD struct {
	D time.Duration `config:"v"`
}
type TU struct {
	U uint64 `config:"v"`
}
type TI8 struct {
	I int8 `config:"v"`
}

func show(label string, c *ucfg.Config, opts ...ucfg.Option) {
	var t T
	err := c.Unpack(&t, opts...)
	fmt.Printf("%-50s int64: %v err=%s\n", label, t.I64, first(err))
	var d TD
	err = c.Unpack(&d, opts...)
	fmt.Printf("%-50s dur  : %v err=%s\n", label, int64(d.D), first(err))
	var u TU
	err = c.Unpack(&u, opts...)
	fmt.Printf("%-50s uint64: %v err=%s\n", label, u.U, first(err))
	var i8 TI8
	err = c.Unpack(&i8, opts...)
	fmt.Printf("%-50s int8: %v err=%s\n", label, i8.I, first(err))
	i, err := c.Int("v", -1, opts...)
	fmt.Printf("%-50s Int(): %v err=%s\n", label, i, first(err))
	uu, err := c.Uint("v", -1, opts...)
	fmt.Printf("%-50s Uint(): %v err=%s\n", label, uu, first(err))
	f, err := c.Float("v", -1, opts...)
	fmt.Printf("%-50s Float(): %v err=%s\n", label, f, first(err))
	s, err := c.String("v", -1, opts...)
	fmt.Printf("%-50s String(): %q err=%s\n", label, s, first(err))
}

func main() {
	texts := []string{"-9223372036854775809", "-9223372036854775808", "9223372036854775808", "18446744073709551616", "18446744073709551617",
		"-18446744073709551615", "1e400", "0x1p63", "0x1p64", "-0x1p63", "1_0", "0x_10", "+5", "-0", "300", "-129", "128", "1e2", "1.28e2", "127.9", "nan", "inf", " 7 ", "٣"}
	for _, txt := range texts {
		txt := txt
		res := ucfg.Resolve(func(name string) (string, parse.Config, error) {
			if name == "ENV" {
				return txt, parse.EnvConfig, nil
			}
			return "", parse.EnvConfig, ucfg.ErrMissing
		})
		c, err := ucfg.NewFrom(map[string]interface{}{"v": "${ENV}"}, ucfg.VarExp, res)
		if err != nil {
			fmt.Println("build", err)
			continue
		}
		show(fmt.Sprintf("env %q", txt), c, ucfg.VarExp, res)
	}
	// splices
	c, _ := ucfg.NewFrom(map[string]interface{}{"a": uint64(9223372036854775809), "v": "-${a}"}, ucfg.VarExp)
	show("splice -${a}, a=2^63+1", c, ucfg.VarExp)
	c, _ = ucfg.NewFrom(map[string]interface{}{"a": 12, "b": 8, "v": "${a}${b}"}, ucfg.VarExp)
	show("splice ${a}${b} = 128", c, ucfg.VarExp)
	c, _ = ucfg.NewFrom(map[string]interface{}{"a": 1.5, "v": "${a}e400"}, ucfg.VarExp)
	show("splice 1.5e400", c, ucfg.VarExp)
	c, _ = ucfg.NewFrom(map[string]interface{}{"a": 1e21, "v": "${a} "}, ucfg.VarExp)
	show("splice 1e21 float to text", c, ucfg.VarExp)
	c, _ = ucfg.NewFrom(map[string]interface{}{"a": float64(9007199254740993), "v": "${a} "}, ucfg.VarExp)
	show("splice float 2^53+1 to text", c, ucfg.VarExp)
	c, _ = ucfg.NewFrom(map[string]interface{}{"a": float32(0.1), "v": "${a}"}, ucfg.VarExp)
	show("float32 0.1", c, ucfg.VarExp)
	c, _ = ucfg.NewFrom(map[string]interface{}{"v": "${missing:300}"}, ucfg.VarExp)
	show("default 300", c, ucfg.VarExp)
	c, _ = ucfg.NewFrom(map[string]interface{}{"v": "${missing:-9223372036854775809}"}, ucfg.VarExp)
	show("default -2^63-1", c, ucfg.VarExp)

	for _, y := range []string{"v: -9223372036854775809", "v: 18446744073709551616", "v: 0x8000000000000000", "v: .inf", "v: .nan", "v: 1_000", "v: 0b1000_0000", "v: 0o200", "v: 1:30", "v: 190:20:30", "v: 1e3", "v: ~", "v: 0200", "v: -0x81", "v: 9223372036.854775808"} {
		c, err := yaml.NewConfig([]byte(y))
		if err != nil {
			fmt.Println("yaml", y, err)
			continue
		}
		show("yaml "+y, c)
	}
}
