package main

import (
	"fmt"
	"math"
	"math/big"
	"os"
	"reflect"
	"strconv"
	"time"

	ucfg "github.com/elastic/go-ucfg"
)

type MyInt8 int8
type MyUint16 uint16
type MyF32 float32
type MyBool bool
type MyStr string

var targets = []reflect.Type{
	reflect.TypeOf(false), reflect.TypeOf(int(0)), reflect.TypeOf(int8(0)), reflect.TypeOf(int16(0)),
	reflect.TypeOf(int32(0)), reflect.TypeOf(int64(0)), reflect.TypeOf(uint(0)), reflect.TypeOf(uint8(0)),
	reflect.TypeOf(uint16(0)), reflect.TypeOf(uint32(0)), reflect.TypeOf(uint64(0)), reflect.TypeOf(uintptr(0)),
	reflect.TypeOf(float32(0)), reflect.TypeOf(float64(0)), reflect.TypeOf(""), reflect.TypeOf(time.Duration(0)),
	reflect.TypeOf(MyInt8(0)), reflect.TypeOf(MyUint16(0)), reflect.TypeOf(MyF32(0)), reflect.TypeOf(MyBool(false)), reflect.TypeOf(MyStr("")),
	reflect.PtrTo(reflect.TypeOf(int8(0))), reflect.PtrTo(reflect.TypeOf(uint32(0))), reflect.PtrTo(reflect.TypeOf(time.Duration(0))),
	reflect.PtrTo(reflect.PtrTo(reflect.TypeOf(int16(0)))),
}

var tDur = reflect.TypeOf(time.Duration(0))

// exact: the mathematical value of a numeric source; special for NaN/Inf
type num struct {
	f       *big.Float // exact
	special bool       // NaN or Inf
	raw     interface{}
}

func mk(v interface{}) num {
	switch x := v.(type) {
	case int64:
		return num{f: new(big.Float).SetPrec(200).SetInt64(x), raw: v}
	case uint64:
		return num{f: new(big.Float).SetPrec(200).SetUint64(x), raw: v}
	case float64:
		if math.IsNaN(x) || math.IsInf(x, 0) {
			return num{special: true, raw: v}
		}
		return num{f: new(big.Float).SetPrec(200).SetFloat64(x), raw: v}
	}
	panic("x")
}

func bits(t reflect.Type) int { return t.Bits() }

var bad int

func report(format string, a ...interface{}) {
	bad++
	fmt.Printf(format+"\n", a...)
}

// unpack c["v"] into a struct { V T }
func unpack(c *ucfg.Config, t reflect.Type, opts ...ucfg.Option) (res reflect.Value, err error) {
	st := reflect.StructOf([]reflect.StructField{{Name: "V", Type: t, Tag: `config:"v"`}})
	p := reflect.New(st)
	defer func() {
		if r := recover(); r != nil {
			err = fmt.Errorf("PANIC: %v", r)
			report("PANIC unpacking into %v: %v", t, r)
		}
	}()
	err = c.Unpack(p.Interface(), opts...)
	v := p.Elem().Field(0)
	for v.Kind() == reflect.Ptr {
		if v.IsNil() {
			if err == nil {
				report("nil pointer result for %v", t)
			}
			return v, err
		}
		v = v.Elem()
	}
	return v, err
}

func base(t reflect.Type) reflect.Type {
	for t.Kind() == reflect.Ptr {
		t = t.Elem()
	}
	return t
}

func checkNum(label string, n num, t reflect.Type, got reflect.Value, err error) {
	bt := base(t)
	k := bt.Kind()
	switch {
	case bt == tDur:
		if n.special {
			if err == nil {
				report("%s -> %v: want error, got %v", label, t, got)
			}
			return
		}
		ns := new(big.Float).SetPrec(300).Mul(n.f, big.NewFloat(1e9))
		i, _ := ns.Int(nil)
		if i.IsInt64() {
			if err != nil {
				report("%s -> %v: want %v, got error %v", label, t, i, err)
			} else if got.Int() != i.Int64() {
				report("%s -> %v: want %v, got %v", label, t, i, got.Int())
			}
		} else if err == nil {
			report("%s -> %v: want overflow error, got %v", label, t, got)
		}
	case k == reflect.Bool:
		if err == nil {
			report("%s -> %v: number into bool gave %v", label, t, got)
		}
	case k >= reflect.Int && k <= reflect.Int64:
		if n.special {
			if err == nil {
				report("%s -> %v: want error, got %v", label, t, got)
			}
			return
		}
		i, _ := n.f.Int(nil)
		lo := new(big.Int).Lsh(big.NewInt(-1), uint(bits(bt)-1))
		hi := new(big.Int).Sub(new(big.Int).Lsh(big.NewInt(1), uint(bits(bt)-1)), big.NewInt(1))
		if i.Cmp(lo) >= 0 && i.Cmp(hi) <= 0 {
			if err != nil {
				report("%s -> %v: want %v, got error %v", label, t, i, err)
			} else if got.Int() != i.Int64() {
				report("%s -> %v: want %v, got %v", label, t, i, got.Int())
			}
		} else if err == nil {
			report("%s -> %v: want range error, got %v", label, t, got)
		}
	case k >= reflect.Uint && k <= reflect.Uintptr:
		if n.special {
			if err == nil {
				report("%s -> %v: want error, got %v", label, t, got)
			}
			return
		}
		if n.f.Sign() < 0 {
			if err == nil {
				report("%s -> %v: negative, want error, got %v", label, t, got)
			}
			return
		}
		i, _ := n.f.Int(nil)
		hi := new(big.Int).Sub(new(big.Int).Lsh(big.NewInt(1), uint(bits(bt))), big.NewInt(1))
		if i.Cmp(hi) <= 0 {
			if err != nil {
				report("%s -> %v: want %v, got error %v", label, t, i, err)
			} else if got.Uint() != i.Uint64() {
				report("%s -> %v: want %v, got %v", label, t, i, got.Uint())
			}
		} else if err == nil {
			report("%s -> %v: want range error, got %v", label, t, got)
		}
	case k == reflect.Float32 || k == reflect.Float64:
		if n.special {
			f := n.raw.(float64)
			if err != nil {
				report("%s -> %v: want %v got error %v", label, t, f, err)
			} else if !(got.Float() == f || (math.IsNaN(f) && math.IsNaN(got.Float()))) {
				report("%s -> %v: want %v got %v", label, t, f, got.Float())
			}
			return
		}
		f64, acc := n.f.Float64()
		if k == reflect.Float32 {
			if math.Abs(f64) > math.MaxFloat32 {
				if err == nil {
					report("%s -> %v: want range error, got %v", label, t, got)
				}
				return
			}
			if err != nil {
				report("%s -> %v: want %v got error %v", label, t, float32(f64), err)
			} else if float32(got.Float()) != float32(f64) {
				report("%s -> %v: want %v got %v", label, t, float32(f64), got.Float())
			}
			return
		}
		if err != nil {
			report("%s -> %v: want %v got error %v", label, t, f64, err)
		} else if got.Float() != f64 {
			report("%s -> %v: want %v got %v", label, t, f64, got.Float())
		} else if acc != big.Exact {
			fmt.Printf("INEXACT(note) %s -> %v: stored %v, setting is %v\n", label, t, got.Float(), n.f.Text('f', 0))
		}
	case k == reflect.String:
		if err != nil {
			report("%s -> %v: error %v", label, t, err)
		}
	}
}

func checkStr(label, s string, t reflect.Type, got reflect.Value, err error) {
	bt := base(t)
	k := bt.Kind()
	switch {
	case bt == tDur:
		d, perr := time.ParseDuration(s)
		if perr != nil {
			if err == nil {
				report("%s -> %v: unparsable, got %v", label, t, got)
			}
		} else if err != nil {
			report("%s -> %v: want %v, got error %v", label, t, d, err)
		} else if got.Int() != int64(d) {
			report("%s -> %v: want %v, got %v", label, t, d, got)
		}
	case k == reflect.Bool:
		b, perr := strconv.ParseBool(s)
		if perr != nil {
			if err == nil {
				report("%s -> %v: unparsable, got %v", label, t, got)
			}
		} else if err != nil {
			report("%s -> %v: want %v, got error %v", label, t, b, err)
		} else if got.Bool() != b {
			report("%s -> %v: want %v, got %v", label, t, b, got)
		}
	case k >= reflect.Int && k <= reflect.Int64:
		i, perr := strconv.ParseInt(s, 0, bits(bt))
		if perr != nil {
			if err == nil {
				report("%s -> %v: unparsable/out of range, got %v", label, t, got)
			}
		} else if err != nil {
			report("%s -> %v: want %v, got error %v", label, t, i, err)
		} else if got.Int() != i {
			report("%s -> %v: want %v, got %v", label, t, i, got)
		}
	case k >= reflect.Uint && k <= reflect.Uintptr:
		i, perr := strconv.ParseUint(s, 0, bits(bt))
		if perr != nil {
			if err == nil {
				report("%s -> %v: unparsable/out of range, got %v", label, t, got)
			}
		} else if err != nil {
			report("%s -> %v: want %v, got error %v", label, t, i, err)
		} else if got.Uint() != i {
			report("%s -> %v: want %v, got %v", label, t, i, got)
		}
	case k == reflect.Float32 || k == reflect.Float64:
		f, perr := strconv.ParseFloat(s, bits(bt))
		if perr != nil {
			if err == nil {
				report("%s -> %v: unparsable/out of range, got %v", label, t, got)
			}
		} else if err != nil {
			report("%s -> %v: want %v, got error %v", label, t, f, err)
		} else if !(got.Float() == f || math.IsNaN(f) && math.IsNaN(got.Float())) {
			report("%s -> %v: want %v, got %v", label, t, f, got)
		}
	case k == reflect.String:
		if err != nil {
			report("%s -> %v: error %v", label, t, err)
		} else if got.String() != s {
			report("%s -> %v: want %q, got %q", label, t, s, got.String())
		}
	}
}

func main() {
	var nums []interface{}
	for _, b := range []uint{7, 8, 15, 16, 31, 32, 53, 62, 63} {
		p := int64(1) << b
		if b == 63 {
			nums = append(nums, int64(math.MinInt64), int64(math.MinInt64+1), int64(math.MaxInt64), int64(math.MaxInt64-1))
			continue
		}
		for _, d := range []int64{-2, -1, 0, 1, 2} {
			nums = append(nums, p+d, -(p + d))
		}
	}
	nums = append(nums, int64(0), int64(-1), int64(1), int64(9223372036), int64(9223372037), int64(-9223372036), int64(-9223372037))
	for _, b := range []uint{7, 8, 15, 16, 31, 32, 53, 63} {
		p := uint64(1) << b
		nums = append(nums, p-1, p, p+1)
	}
	nums = append(nums, uint64(math.MaxUint64), uint64(math.MaxUint64-1), uint64(9223372036), uint64(9223372037))
	fl := []float64{0, math.Copysign(0, -1), 0.5, -0.5, -0.9999, 0.9999, 1.5, -1.5, 127, 127.5, 127.999, 128, -128, -128.5, -128.9999, -129,
		255, 255.9, 256, 32767.9, 32768, -32768.9, -32769, 65535.9, 65536, 2147483647.9, 2147483648, -2147483648.9, -2147483649,
		4294967295.9, 4294967296, 9007199254740993, 9223372036854775807, 9223372036854775808, -9223372036854775808,
		math.Nextafter(9223372036854775808, 0), math.Nextafter(-9223372036854775808, -math.MaxFloat64),
		18446744073709551615, 18446744073709551616, math.Nextafter(18446744073709551616, 0), 1e19, 1e20, 1e300, -1e300,
		math.MaxFloat32, math.Nextafter(math.MaxFloat32, math.Inf(1)), -math.MaxFloat32, math.MaxFloat64, -math.MaxFloat64,
		math.SmallestNonzeroFloat64, -math.SmallestNonzeroFloat64, math.SmallestNonzeroFloat32, 1e-50,
		math.NaN(), math.Inf(1), math.Inf(-1),
		9223372036.854775807, 9223372036.854775808, 9223372036.854776, 9223372037, -9223372036.854775808, -9223372036.85478, -9223372037, 4.35, 0.29, 1e-10, -1e-10,
		3.4028235677973366e+38, 3.4028235e38, 3.40282356e38}
	for _, f := range fl {
		nums = append(nums, f)
	}

	strs := []string{"", " ", "0", "-0", "+0", "1", "+1", "-1", " 1", "1 ", "127", "128", "-128", "-129", "255", "256", "0x7f", "0x80", "0X80", "0b1111111", "0b10000000",
		"0o177", "0177", "0200", "1_000", "1__0", "_1", "1_", "0x_ff", "0xff", "0x100", "-0x80", "-0x81", "65535", "65536", "32767", "32768", "-32768", "-32769",
		"2147483647", "2147483648", "-2147483648", "-2147483649", "4294967295", "4294967296",
		"9223372036854775807", "9223372036854775808", "-9223372036854775808", "-9223372036854775809", "18446744073709551615", "18446744073709551616",
		"0x7fffffffffffffff", "0x8000000000000000", "0xffffffffffffffff", "0x10000000000000000",
		"1.0", "1.5", "1e3", "1E3", "1e400", "-1e400", "1e-400", "inf", "+Inf", "-inf", "Infinity", "nan", "NaN", "0x1p-2", "0x1.8p1", "1_0.5", "3.4028235e38", "3.5e38", "3.4028236e38",
		"true", "false", "t", "f", "T", "F", "TRUE", "True", "on", "off", "yes", "no", "1s", "1.5h", "-3m", "1h1m1s", "2562047h", "2562048h", "9223372036854775807ns", "9223372036854775808ns", "1d", "5", "1e3s", "١٢٣", "１２３", "0x", "--1", "+-1", "1e", "٣s", "abc", "null"}

	type variant struct {
		name string
		mk   func(v interface{}) (*ucfg.Config, []ucfg.Option, error)
	}
	variants := []variant{
		{"NewFrom", func(v interface{}) (*ucfg.Config, []ucfg.Option, error) {
			c, err := ucfg.NewFrom(map[string]interface{}{"v": v})
			return c, nil, err
		}},
		{"Set", func(v interface{}) (*ucfg.Config, []ucfg.Option, error) {
			c := ucfg.New()
			var err error
			switch x := v.(type) {
			case int64:
				err = c.SetInt("v", -1, x)
			case uint64:
				err = c.SetUint("v", -1, x)
			case float64:
				err = c.SetFloat("v", -1, x)
			case string:
				err = c.SetString("v", -1, x)
			}
			return c, nil, err
		}},
		{"Ref", func(v interface{}) (*ucfg.Config, []ucfg.Option, error) {
			c, err := ucfg.NewFrom(map[string]interface{}{"src": v, "v": "${src}"}, ucfg.VarExp)
			return c, []ucfg.Option{ucfg.VarExp}, err
		}},
		{"RefRef", func(v interface{}) (*ucfg.Config, []ucfg.Option, error) {
			c, err := ucfg.NewFrom(map[string]interface{}{"src": v, "mid": "${src}", "v": "${mid}"}, ucfg.VarExp)
			return c, []ucfg.Option{ucfg.VarExp}, err
		}},
	}

	for _, vr := range variants {
		for _, raw := range nums {
			n := mk(raw)
			label := fmt.Sprintf("[%s] %T(%v)", vr.name, raw, raw)
			for _, t := range targets {
				c, opts, err := vr.mk(raw)
				if err != nil {
					report("%s: build error %v", label, err)
					continue
				}
				got, uerr := unpack(c, t, opts...)
				checkNum(label, n, t, got, uerr)
			}
			// getters
			c, opts, _ := vr.mk(raw)
			i, e := c.Int("v", -1, opts...)
			checkNum(label+" Int()", n, reflect.TypeOf(int64(0)), reflect.ValueOf(i), e)
			u, e := c.Uint("v", -1, opts...)
			checkNum(label+" Uint()", n, reflect.TypeOf(uint64(0)), reflect.ValueOf(u), e)
			f, e := c.Float("v", -1, opts...)
			checkNum(label+" Float()", n, reflect.TypeOf(float64(0)), reflect.ValueOf(f), e)
			b, e := c.Bool("v", -1, opts...)
			checkNum(label+" Bool()", n, reflect.TypeOf(false), reflect.ValueOf(b), e)
			_, e = c.String("v", -1, opts...)
			if e != nil {
				report("%s String(): %v", label, e)
			}
		}
		for _, s := range strs {
			label := fmt.Sprintf("[%s] string(%q)", vr.name, s)
			for _, t := range targets {
				c, opts, err := vr.mk(s)
				if err != nil {
					report("%s: build error %v", label, err)
					continue
				}
				got, uerr := unpack(c, t, opts...)
				checkStr(label, s, t, got, uerr)
			}
			c, opts, _ := vr.mk(s)
			i, e := c.Int("v", -1, opts...)
			checkStr(label+" Int()", s, reflect.TypeOf(int64(0)), reflect.ValueOf(i), e)
			u, e := c.Uint("v", -1, opts...)
			checkStr(label+" Uint()", s, reflect.TypeOf(uint64(0)), reflect.ValueOf(u), e)
			f, e := c.Float("v", -1, opts...)
			checkStr(label+" Float()", s, reflect.TypeOf(float64(0)), reflect.ValueOf(f), e)
			b, e := c.Bool("v", -1, opts...)
			checkStr(label+" Bool()", s, reflect.TypeOf(false), reflect.ValueOf(b), e)
			st, e := c.String("v", -1, opts...)
			checkStr(label+" String()", s, reflect.TypeOf(""), reflect.ValueOf(st), e)
		}
	}
	fmt.Println("violations:", bad)
	if bad > 0 {
		os.Exit(1)
	}
}
