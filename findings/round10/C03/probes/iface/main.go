package main

import (
	"fmt"
	"strings"

	ucfg "github.com/elastic/go-ucfg"
)

func first(err error) string {
	if err == nil {
		return "<nil>"
	}
	return strings.SplitN(err.Error(), "\n", 2)[0]
}

func main() {
	for _, n := range []int{200, 300, -1} {
		c, _ := ucfg.NewFrom(map[string]interface{}{"p": n})
		x := uint8(5)
		t := struct{ P interface{} `config:"p"` }{P: &x}
		err := c.Unpack(&t)
		fmt.Printf("interface{*uint8} %d: x=%v t.P=%T %v err=%s\n", n, x, t.P, *(t.P.(*uint8)), first(err))
	}
}
