// Compact confirmation of the HUNT.md findings on the unchanged library.
package main

import (
	"fmt"
	"math"
	"strings"
	"time"

	ucfg "github.com/elastic/go-ucfg"
	"github.com/elastic/go-ucfg/parse"
	"github.com/elastic/go-ucfg/yaml"
)

func first(err error) string {
	if err == nil {
		return "<nil>"
	}
	return strings.SplitN(err.Error(), "\n", 2)[0]
}

func main() {
	// F1: uintptr target, no sign / range check
	for _, v := range []interface{}{int64(-1), int64(math.MinInt64), -1.5, 1e300, math.NaN(), math.Inf(-1)} {
		c, _ := ucfg.NewFrom(map[string]interface{}{"v": v})
		var t struct{ V uintptr `config:"v"` }
		err := c.Unpack(&t)
		fmt.Printf("F1 %T(%v) -> uintptr: %d err=%s\n", v, v, t.V, first(err))
	}

	// F2: integer text below -2^63 produced by expansion -> int64 MinInt64
	res := ucfg.Resolve(func(name string) (string, parse.Config, error) {
		if name == "N" {
			return "-9223372036854775809", parse.EnvConfig, nil
		}
		return "", parse.EnvConfig, ucfg.ErrMissing
	})
	c, _ := ucfg.NewFrom(map[string]interface{}{"v": "${N}"}, ucfg.VarExp, res)
	var t2 struct{ V int64 `config:"v"` }
	err := c.Unpack(&t2, ucfg.VarExp, res)
	fmt.Printf("F2 env -9223372036854775809 -> int64: %d err=%s\n", t2.V, first(err))
	i, err := c.Int("v", -1, ucfg.VarExp, res)
	fmt.Printf("F2 env -9223372036854775809 Int(): %d err=%s\n", i, first(err))
	c, _ = ucfg.NewFrom(map[string]interface{}{"a": uint64(9223372036854775809), "v": "-${a}"}, ucfg.VarExp)
	err = c.Unpack(&t2, ucfg.VarExp)
	fmt.Printf("F2 splice -${a} (a=2^63+1) -> int64: %d err=%s\n", t2.V, first(err))
	c, _ = ucfg.NewFrom(map[string]interface{}{"v": "${unset:-9223372036854775809}"}, ucfg.VarExp)
	err = c.Unpack(&t2, ucfg.VarExp)
	fmt.Printf("F2 default -9223372036854775809 -> int64: %d err=%s\n", t2.V, first(err))
	c, _ = yaml.NewConfig([]byte("v: -9223372036854775809"))
	err = c.Unpack(&t2)
	fmt.Printf("F2 yaml -9223372036854775809 -> int64: %d err=%s\n", t2.V, first(err))

	// F3: float seconds just below the Duration range are accepted as MinInt64;
	// float multiplication rounds nanoseconds of in-range values
	for _, f := range []float64{-9223372036.854776, 4.35, 0.29, 4294967295.9} {
		c := ucfg.New()
		c.SetFloat("v", -1, f)
		var t struct{ V time.Duration `config:"v"` }
		err := c.Unpack(&t)
		fmt.Printf("F3 %v s (exactly %.12f) -> Duration: %d ns err=%s\n", f, f, int64(t.V), first(err))
	}

	// F4 (inherent): integers beyond 2^53 into float targets are rounded
	c, _ = ucfg.NewFrom(map[string]interface{}{"v": int64(-9007199254740993)})
	var t4 struct{ V float64 `config:"v"` }
	err = c.Unpack(&t4)
	fmt.Printf("F4 int64(-9007199254740993) -> float64: %.0f err=%s\n", t4.V, first(err))
}
