package main

import (
	"fmt"

	ucfg "github.com/elastic/go-ucfg"
)

func try(name string, in interface{}, opts ...ucfg.Option) {
	c, err := ucfg.NewFrom(in, opts...)
	if err != nil {
		fmt.Printf("%s: ERR %v\n", name, err)
		return
	}
	var m map[string]interface{}
	err = c.Unpack(&m, opts...)
	fmt.Printf("%s: %#v %v\n", name, m, err)
}

type S1 struct {
	A []int `config:"a"`
	B []int `config:"a"`
}
type S2 struct {
	A map[string]int `config:"a"`
	B map[string]int `config:"a"`
}

func main() {
	ps := ucfg.PathSep(".")
	try("dup-sub-merge", map[string]interface{}{"a": map[string]interface{}{"b": map[string]interface{}{"x": 2}}, "a.b": map[string]interface{}{"x": 1}}, ps)
	try("dup-leaf", map[string]interface{}{"a": map[string]interface{}{"b": 2}, "a.b": 1}, ps)
	try("dup-arr-elem", map[string]interface{}{"a": []interface{}{map[string]interface{}{"x": 1}}, "a.0": map[string]interface{}{"x": 2}}, ps)
	try("dup-arr-elem-leaf", map[string]interface{}{"a": []interface{}{map[string]interface{}{"x": 1}}, "a.0.x": 2}, ps)
	try("struct-two-lists", S1{[]int{1, 2}, []int{3}})
	try("struct-two-maps", S2{map[string]int{"x": 1}, map[string]int{"x": 2}})
	try("prim-then-path", map[string]interface{}{"a": 1, "a.b": 2}, ps)
	try("list-vs-list", map[string]interface{}{"a": []int{1, 2}, "a.0": []int{3}}, ps)
	try("lists", map[string]interface{}{"a.b": []int{1, 2}, "a": map[string]interface{}{"b": []int{3}}}, ps)
	try("num-key", map[string]interface{}{"0": "x"})
	try("num-key1", map[string]interface{}{"1": "x"})
	try("num-key-nested", map[string]interface{}{"a": map[string]interface{}{"1": "x"}})
	try("nil-then-dot", map[string]interface{}{"a": nil, "a.b": 1}, ps)
	try("empty-then-dot", map[string]interface{}{"a": map[string]interface{}{}, "a.b": 1}, ps)
	try("emptyarr-then-dot", map[string]interface{}{"a": []int{}, "a.b": 1}, ps)
	try("arr-then-named", map[string]interface{}{"a": []int{7}, "a.b": 1}, ps)
}
