package main

import (
	"fmt"

	ucfg "github.com/elastic/go-ucfg"
)

type ns string

type rev struct {
	AB int `config:"a.b"`
	A  int `config:"a"`
}

func main() {
	_, err := ucfg.NewFrom(map[interface{}]interface{}{"a": 1, ns("a"): 2})
	fmt.Println("named string twin:", err)
	_, err = ucfg.NewFrom(rev{2, 1}, ucfg.PathSep("."))
	fmt.Println("struct, dotted first then scalar:", err)
	_, err = ucfg.NewFrom(map[string]interface{}{"a": 1, "a.b": 2}, ucfg.PathSep("."))
	fmt.Println("map, scalar then dotted:", err)
}
