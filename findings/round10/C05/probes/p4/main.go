package main

import (
	"fmt"

	ucfg "github.com/elastic/go-ucfg"
)

type M = map[string]interface{}
type L = []interface{}

func try(name string, in interface{}, opts ...ucfg.Option) {
	c, err := ucfg.NewFrom(M{"v": in}, opts...)
	if err != nil {
		fmt.Printf("%-28s ERR %v\n", name, err)
		return
	}
	var m M
	err = c.Unpack(&m, opts...)
	fmt.Printf("%-28s %#v %v\n", name, m["v"], err)
}

type InlCfg struct {
	X int          `config:"x"`
	C *ucfg.Config `config:",inline"`
}
type InlCfgV struct {
	X int         `config:"x"`
	C ucfg.Config `config:",inline"`
}
type InlList struct {
	L []int `config:",inline"`
}
type Sub struct {
	B int `config:"b"`
}
type Order1 struct {
	AB int            `config:"a.b"`
	A  map[string]int `config:"a"`
}
type Order2 struct {
	AB int  `config:"a.b"`
	A  *Sub `config:"a"`
}
type Order3 struct {
	A1 int   `config:"a.1"`
	A  []int `config:"a"`
}

func main() {
	ps := ucfg.PathSep(".")
	sub := ucfg.MustNewFrom(M{"y": 2})
	try("inline *Config", InlCfg{1, sub})
	try("inline Config", InlCfgV{1, *sub})
	try("inline list", InlList{[]int{1, 2}})
	try("struct order dup", Order1{1, map[string]int{"b": 2}}, ps)
	try("map order dup", M{"a.b": 1, "a": map[string]int{"b": 2}}, ps)
	try("struct order nil", Order2{1, nil}, ps)
	try("struct order list", Order3{5, []int{7}}, ps)
	try("replace: nested+dotted", M{"a": M{"b": M{"x": 1}}, "a.b": M{"y": 2}}, ps, ucfg.ReplaceValues)
	try("default: nested+dotted", M{"a": M{"b": M{"x": 1}}, "a.b": M{"y": 2}}, ps)
}
