package main

import (
	"fmt"
	"math/rand"
	"os"
	"reflect"
	"sort"
	"strings"

	ucfg "github.com/elastic/go-ucfg"
)

var keys = []string{"a", "b", "c", "x1", "Key"}

func genLeaf(r *rand.Rand) interface{} {
	switch r.Intn(9) {
	case 0:
		return r.Intn(2) == 0
	case 1:
		return []string{"", "s", "hello world", "1", "true", "a.b", "${x}"}[r.Intn(7)]
	case 2:
		return int64(r.Intn(7) - 3)
	case 3:
		return uint64(r.Intn(5))
	case 4:
		return []float64{0, 1.5, -2.25, 3}[r.Intn(4)]
	case 5:
		return nil
	case 6:
		return map[string]interface{}{}
	case 7:
		return []interface{}{}
	default:
		return int64(r.Intn(100))
	}
}

func genTree(r *rand.Rand, depth int) interface{} {
	if depth == 0 || r.Intn(4) == 0 {
		return genLeaf(r)
	}
	if r.Intn(3) == 0 {
		n := r.Intn(4)
		l := make([]interface{}, n)
		for i := range l {
			l[i] = genTree(r, depth-1)
		}
		return l
	}
	return genMap(r, depth)
}

func genMap(r *rand.Rand, depth int) map[string]interface{} {
	m := map[string]interface{}{}
	n := 1 + r.Intn(4)
	for i := 0; i < n; i++ {
		m[keys[r.Intn(len(keys))]] = genTree(r, depth-1)
	}
	return m
}

// canonical form for comparison
func canon(x interface{}) interface{} {
	switch v := x.(type) {
	case nil:
		return nil
	case bool, string:
		return v
	case int64:
		return float64(v)
	case uint64:
		return float64(v)
	case int:
		return float64(v)
	case float64:
		return v
	case map[string]interface{}:
		if len(v) == 0 {
			return nil
		}
		m := map[string]interface{}{}
		for k, e := range v {
			m[k] = canon(e)
		}
		return m
	case []interface{}:
		l := make([]interface{}, len(v))
		for i, e := range v {
			l[i] = canon(e)
		}
		return l
	}
	panic(fmt.Sprintf("canon: %T", x))
}

func show(x interface{}) string {
	switch v := x.(type) {
	case map[string]interface{}:
		ks := make([]string, 0, len(v))
		for k := range v {
			ks = append(ks, k)
		}
		sort.Strings(ks)
		var sb strings.Builder
		sb.WriteString("{")
		for _, k := range ks {
			fmt.Fprintf(&sb, "%q:%s,", k, show(v[k]))
		}
		sb.WriteString("}")
		return sb.String()
	case map[interface{}]interface{}:
		var parts []string
		for k, e := range v {
			parts = append(parts, fmt.Sprintf("%#v:%s", k, show(e)))
		}
		sort.Strings(parts)
		return "I{" + strings.Join(parts, ",") + "}"
	case []interface{}:
		var sb strings.Builder
		sb.WriteString("[")
		for _, e := range v {
			sb.WriteString(show(e) + ",")
		}
		sb.WriteString("]")
		return sb.String()
	case *ucfg.Config:
		return "CFG"
	}
	rv := reflect.ValueOf(x)
	if rv.IsValid() && rv.Kind() == reflect.Ptr && !rv.IsNil() {
		return "&" + show(rv.Elem().Interface())
	}
	return fmt.Sprintf("%#v", x)
}

type mystr string

// representations
func repIfaceMap(r *rand.Rand, x interface{}) interface{} {
	switch v := x.(type) {
	case map[string]interface{}:
		m := map[interface{}]interface{}{}
		for k, e := range v {
			if r.Intn(3) == 0 {
				m[mystr(k)] = repIfaceMap(r, e)
			} else {
				m[k] = repIfaceMap(r, e)
			}
		}
		return m
	case []interface{}:
		l := make([]interface{}, len(v))
		for i, e := range v {
			l[i] = repIfaceMap(r, e)
		}
		return l
	}
	return x
}

func repPtr(r *rand.Rand, x interface{}) interface{} {
	var out interface{}
	switch v := x.(type) {
	case map[string]interface{}:
		m := map[string]interface{}{}
		for k, e := range v {
			m[k] = repPtr(r, e)
		}
		out = m
	case []interface{}:
		l := make([]interface{}, len(v))
		for i, e := range v {
			l[i] = repPtr(r, e)
		}
		out = l
	default:
		out = x
	}
	if out == nil {
		switch r.Intn(3) {
		case 0:
			return (*int)(nil)
		case 1:
			return (map[string]interface{})(nil)
		}
		return nil
	}
	if r.Intn(2) == 0 {
		p := reflect.New(reflect.TypeOf(out))
		p.Elem().Set(reflect.ValueOf(out))
		if r.Intn(2) == 0 {
			pp := reflect.New(p.Type())
			pp.Elem().Set(p)
			return pp.Interface()
		}
		return p.Interface()
	}
	return out
}

func repCfg(r *rand.Rand, x interface{}, top bool, opts []ucfg.Option) interface{} {
	switch v := x.(type) {
	case map[string]interface{}:
		if !top && len(v) > 0 && r.Intn(2) == 0 {
			c, err := ucfg.NewFrom(v, opts...)
			if err != nil {
				panic(err)
			}
			if r.Intn(2) == 0 {
				return *c
			}
			return c
		}
		m := map[string]interface{}{}
		for k, e := range v {
			m[k] = repCfg(r, e, false, opts)
		}
		return m
	case []interface{}:
		if !top && len(v) > 0 && r.Intn(3) == 0 {
			c, err := ucfg.NewFrom(v, opts...)
			if err != nil {
				panic(err)
			}
			return c
		}
		l := make([]interface{}, len(v))
		for i, e := range v {
			l[i] = repCfg(r, e, false, opts)
		}
		return l
	}
	return x
}

func repTyped(r *rand.Rand, x interface{}) interface{} {
	switch v := x.(type) {
	case map[string]interface{}:
		if len(v) == 0 {
			return v
		}
		elems := map[string]interface{}{}
		var t reflect.Type
		same := true
		for k, e := range v {
			elems[k] = repTyped(r, e)
			if elems[k] == nil {
				same = false
				continue
			}
			et := reflect.TypeOf(elems[k])
			if t == nil {
				t = et
			} else if t != et {
				same = false
			}
		}
		if same && t != nil {
			m := reflect.MakeMap(reflect.MapOf(reflect.TypeOf(""), t))
			for k, e := range elems {
				m.SetMapIndex(reflect.ValueOf(k), reflect.ValueOf(e))
			}
			return m.Interface()
		}
		return elems
	case []interface{}:
		if len(v) == 0 {
			return v
		}
		elems := make([]interface{}, len(v))
		var t reflect.Type
		same := true
		for i, e := range v {
			elems[i] = repTyped(r, e)
			if elems[i] == nil {
				same = false
				continue
			}
			et := reflect.TypeOf(elems[i])
			if t == nil {
				t = et
			} else if t != et {
				same = false
			}
		}
		if same && t != nil {
			if r.Intn(2) == 0 {
				a := reflect.New(reflect.ArrayOf(len(v), t)).Elem()
				for i, e := range elems {
					a.Index(i).Set(reflect.ValueOf(e))
				}
				return a.Interface()
			}
			s := reflect.MakeSlice(reflect.SliceOf(t), len(v), len(v))
			for i, e := range elems {
				s.Index(i).Set(reflect.ValueOf(e))
			}
			return s.Interface()
		}
		return elems
	case int64:
		switch r.Intn(4) {
		case 0:
			return int(v)
		case 1:
			return int8(v)
		case 2:
			if v >= 0 {
				return uint16(v)
			}
		}
		return v
	case uint64:
		if r.Intn(2) == 0 {
			return uint8(v)
		}
		return int32(v)
	case float64:
		if r.Intn(2) == 0 {
			return float32(v)
		}
	}
	return x
}

var ifaceT = reflect.TypeOf((*interface{})(nil)).Elem()

func repStruct(r *rand.Rand, x interface{}) interface{} {
	switch v := x.(type) {
	case map[string]interface{}:
		if len(v) == 0 {
			return v
		}
		ks := make([]string, 0, len(v))
		for k := range v {
			ks = append(ks, k)
		}
		r.Shuffle(len(ks), func(i, j int) { ks[i], ks[j] = ks[j], ks[i] })
		var fs []reflect.StructField
		vals := make([]interface{}, len(ks))
		for i, k := range ks {
			vals[i] = repStruct(r, v[k])
			t := ifaceT
			if vals[i] != nil && r.Intn(2) == 0 {
				t = reflect.TypeOf(vals[i])
			}
			name := fmt.Sprintf("F%d", i)
			tag := fmt.Sprintf(`config:"%s"`, k)
			if strings.ToLower(k) == k && r.Intn(2) == 0 && !strings.Contains(k, ".") {
				name = strings.ToUpper(k[:1]) + k[1:]
				tag = ""
			}
			fs = append(fs, reflect.StructField{Name: name, Type: t, Tag: reflect.StructTag(tag)})
		}
		s := reflect.New(reflect.StructOf(fs)).Elem()
		for i := range ks {
			if vals[i] != nil {
				s.Field(i).Set(reflect.ValueOf(vals[i]))
			}
		}
		if r.Intn(2) == 0 {
			return s.Addr().Interface()
		}
		return s.Interface()
	case []interface{}:
		l := make([]interface{}, len(v))
		for i, e := range v {
			l[i] = repStruct(r, e)
		}
		return l
	}
	return x
}

// partial flattening into dotted keys
func repFlat(r *rand.Rand, x interface{}, lists bool) interface{} {
	switch v := x.(type) {
	case map[string]interface{}:
		out := map[string]interface{}{}
		for k, e := range v {
			flatInto(r, out, k, e, lists)
		}
		return out
	case []interface{}:
		l := make([]interface{}, len(v))
		for i, e := range v {
			l[i] = repFlat(r, e, lists)
		}
		return l
	}
	return x
}

func flatInto(r *rand.Rand, out map[string]interface{}, prefix string, e interface{}, lists bool) {
	if m, ok := e.(map[string]interface{}); ok && len(m) > 0 && r.Intn(2) == 0 {
		// partition the children: some dotted, some nested
		nested := map[string]interface{}{}
		for k, c := range m {
			if r.Intn(3) == 0 {
				nested[k] = c
			} else {
				flatInto(r, out, prefix+"."+k, c, lists)
			}
		}
		if len(nested) > 0 || r.Intn(4) == 0 {
			out[prefix] = repFlat(r, nested, lists)
		}
		return
	}
	if l, ok := e.([]interface{}); ok && lists && len(l) > 0 && r.Intn(2) == 0 {
		// keep a prefix of the list nested, the rest dotted
		n := r.Intn(len(l) + 1)
		if n > 0 {
			out[prefix] = repFlat(r, l[:n], lists)
		}
		for i := n; i < len(l); i++ {
			flatInto(r, out, fmt.Sprintf("%s.%d", prefix, i), l[i], lists)
		}
		return
	}
	out[prefix] = repFlat(r, e, lists)
}

func unpack(c *ucfg.Config, opts []ucfg.Option) (map[string]interface{}, error) {
	var m map[string]interface{}
	err := c.Unpack(&m, opts...)
	return m, err
}

var fails int

func check(seed int64, what string, tree map[string]interface{}, rep interface{}, opts []ucfg.Option) {
	want := canon(map[string]interface{}{"v": tree})
	c, err := ucfg.NewFrom(map[string]interface{}{"v": rep}, opts...)
	if err != nil {
		fails++
		fmt.Printf("seed %d %s: NewFrom error %v\n  tree %s\n  rep  %s\n", seed, what, err, show(tree), show(rep))
		return
	}
	got, err := unpack(c, opts)
	if err != nil {
		fails++
		fmt.Printf("seed %d %s: Unpack error %v\n  tree %s\n  rep  %s\n", seed, what, err, show(tree), show(rep))
		return
	}
	if !reflect.DeepEqual(canon(got), want) {
		fails++
		fmt.Printf("seed %d %s: MISMATCH\n  tree %s\n  rep  %s\n  got  %s\n", seed, what, show(tree), show(rep), show(got))
		return
	}
	// idempotence
	c2, err := ucfg.NewFrom(got, opts...)
	if err != nil {
		fails++
		fmt.Printf("seed %d %s: re-feed error %v\n  got %s\n", seed, what, err, show(got))
		return
	}
	got2, err := unpack(c2, opts)
	if err != nil || !reflect.DeepEqual(got, got2) {
		fails++
		fmt.Printf("seed %d %s: NOT IDEMPOTENT %v\n  got  %s\n  got2 %s\n", seed, what, err, show(got), show(got2))
		return
	}
	// merging the result into the config it was read from changes nothing
	if err := c.Merge(got, opts...); err != nil {
		fails++
		fmt.Printf("seed %d %s: self merge error %v\n", seed, what, err)
		return
	}
	got3, err := unpack(c, opts)
	if err != nil || !reflect.DeepEqual(got, got3) {
		fails++
		fmt.Printf("seed %d %s: SELF MERGE CHANGES %v\n  got  %s\n  got3 %s\n", seed, what, err, show(got), show(got3))
		return
	}
	// unpacking into a struct with an interface{} field gives the same view
	var st struct {
		V interface{} `config:"v"`
	}
	if err := c.Unpack(&st, opts...); err != nil || !reflect.DeepEqual(canon(st.V), canon(got["v"])) {
		fails++
		fmt.Printf("seed %d %s: STRUCT VIEW differs %v\n  map    %s\n  struct %s\n", seed, what, err, show(got["v"]), show(st.V))
		return
	}
	k1 := c.FlattenedKeys(opts...)
	k2 := c2.FlattenedKeys(opts...)
	if !reflect.DeepEqual(k1, k2) {
		fails++
		fmt.Printf("seed %d %s: flattened keys differ\n  %v\n  %v\n  tree %s\n rep %s\n", seed, what, k1, k2, show(tree), show(rep))
	}
}

func main() {
	n := 3000
	ps := []ucfg.Option{ucfg.PathSep(".")}
	for seed := int64(1); seed <= int64(n); seed++ {
		r := rand.New(rand.NewSource(seed))
		tree := genMap(r, 4)
		// strings with dots are values only; keys never contain dots
		check(seed, "generic", tree, tree, nil)
		check(seed, "generic-ps", tree, tree, ps)
		check(seed, "ifacemap", tree, repIfaceMap(r, tree), nil)
		check(seed, "ptr", tree, repPtr(r, tree), nil)
		check(seed, "cfg", tree, repCfg(r, tree, true, nil), nil)
		check(seed, "cfg-ps", tree, repCfg(r, tree, true, ps), ps)
		check(seed, "typed", tree, repTyped(r, tree), nil)
		check(seed, "struct", tree, repStruct(r, tree), nil)
		check(seed, "struct-ps", tree, repStruct(r, repFlat(r, tree, false)), ps)
		check(seed, "flat", tree, repFlat(r, tree, false), ps)
		check(seed, "flat-lists", tree, repFlat(r, tree, true), ps)
		check(seed, "flat-iface", tree, repIfaceMap(r, repFlat(r, tree, false)), ps)
		check(seed, "flat-cfg", tree, repCfg(r, repFlat(r, tree, false), true, ps), ps)
		check(seed, "mix", tree, repPtr(r, repTyped(r, repCfg(r, tree, true, nil))), nil)
		if fails > 25 {
			break
		}
	}
	fmt.Println("fails:", fails)
	if fails > 0 {
		os.Exit(1)
	}
}
