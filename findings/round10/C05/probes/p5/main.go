package main

import (
	"fmt"

	ucfg "github.com/elastic/go-ucfg"
)

type M = map[string]interface{}
type L = []interface{}

func view(c *ucfg.Config, opts ...ucfg.Option) interface{} {
	var m M
	if err := c.Unpack(&m, opts...); err != nil {
		return err
	}
	return m
}

func main() {
	// 1. top-level keys holding null vanish from a map target, nested ones stay
	c := ucfg.MustNewFrom(M{"a": nil, "b": M{"c": nil}})
	fmt.Printf("top-level null:   %#v\n", view(c))

	// 2. an empty list that arrives as an existing Config reads as null
	fmt.Printf("empty list plain: %#v\n", view(ucfg.MustNewFrom(M{"l": L{}})))
	fmt.Printf("empty list *Cfg:  %#v\n", view(ucfg.MustNewFrom(M{"l": ucfg.MustNewFrom(L{})})))
	fmt.Printf("empty list []int: %#v\n", view(ucfg.MustNewFrom(M{"l": []int(nil)})))

	// 3. a document whose top-level keys are numbers unpacks to nothing
	fmt.Printf("top-level \"0\":    %#v\n", view(ucfg.MustNewFrom(M{"0": "x", "1": "y"})))
	var l L
	err := ucfg.MustNewFrom(M{"0": "x", "1": "y"}).Unpack(&l)
	fmt.Printf("  ... as list:    %#v %v\n", l, err)

	// 4. Merge twice: different spellings in two calls
	c = ucfg.New()
	ps := ucfg.PathSep(".")
	_ = c.Merge(M{"a.b": 1}, ps)
	_ = c.Merge(M{"a": M{"c": 2}}, ps)
	fmt.Printf("two merges:       %#v\n", view(c, ps))
}
