package main

import (
	"fmt"

	ucfg "github.com/elastic/go-ucfg"
)

type M = map[string]interface{}
type L = []interface{}

func try(name string, in interface{}, opts ...ucfg.Option) {
	c, err := ucfg.NewFrom(M{"v": in}, opts...)
	if err != nil {
		fmt.Printf("%-28s ERR %v\n", name, err)
		return
	}
	var m M
	err = c.Unpack(&m, opts...)
	fmt.Printf("%-28s %#v %v\n", name, m["v"], err)
}

type In struct {
	X int `config:"x"`
}
type Out struct {
	In  `config:",inline"`
	Y   int `config:"y"`
	P   *In `config:",inline"`
}
type Out2 struct {
	M map[string]interface{} `config:",inline"`
	X int                    `config:"x"`
}

func main() {
	ps := ucfg.PathSep(".")
	nk := ucfg.EnableNumKeys(true)
	try("key 01 and 1", M{"01": "a", "1": "b"})
	try("key 0x1", M{"0x1": "a"})
	try("key 1_0", M{"1_0": "a"})
	try("key 0", M{"0": "a"})
	try("key 2 + name", M{"2": "a", "n": 1})
	try("numkeys nested", M{"a": M{"0": 1}}, ps, nk)
	try("numkeys dotted", M{"a.0": 1}, ps, nk)
	try("numkeys both", M{"a": M{"0": 1}, "a.0": 2}, ps, nk)
	try("empty key", M{"": 1, "a": M{"": 2}}, ps)
	try("trailing dot", M{"a.": 1}, ps)
	try("leading dot", M{".a": 1}, ps)
	try("dot nested vs dotted", M{"a": M{"": M{"b": 1}}, "a..c": 2}, ps)
	try("dots no sep", M{"a.b": 1, "a": M{"b": 2}})
	try("escape", M{"[a.b]": 1, "a.b": 2}, ps, ucfg.EscapePath())
	try("escape2", M{"[a.b]": 1, "a": M{"b": 2}}, ps, ucfg.EscapePath())
	try("inline struct", Out{In{1}, 2, nil})
	try("inline struct p", Out{In{1}, 2, &In{5}})
	try("inline map dup", Out2{M{"x": 1}, 2})
	try("inline map dotted", Out2{M{"a.b": 1, "a": M{"c": 1}}, 2}, ps)
	try("list in list flat", M{"a": L{M{"x": 1}}, "a.0.y": 2, "a.1": 3}, ps)
	try("list idx skip", M{"a.2": 3}, ps)
	try("list a.10 order", M{"a.0": 0, "a.1": 1, "a.10": 10, "a.2": 2}, ps)
	try("neg idx", M{"a.-1": 3}, ps)
	try("big idx", M{"a.99999999": 3}, ps)
	try("top arr", L{1, M{"a.b": 2}}, ps)
	var np *In
	try("nil struct ptr", np)
	try("arr of nil ptr", []*In{nil, {3}})
	try("uint max", uint64(1<<64-1))
	try("int min", int64(-1<<63))
	try("rune/byte", []byte("ab"))
	try("map named str key", map[fmt.Stringer]int{})
	type ms string
	try("map mystr", map[ms]int{"k": 1})
	try("cfg in cfg dotted", M{"a": ucfg.MustNewFrom(M{"b.c": 1}), "a.b.d": 2}, ps)
	try("cfg in cfg dotted dup", M{"a": ucfg.MustNewFrom(M{"b": M{"c": 1}}), "a.b.c": 2}, ps)
}
