package main

import (
	"fmt"

	ucfg "github.com/elastic/go-ucfg"
)

type M = map[string]interface{}
type L = []interface{}

func try(name string, in interface{}, opts ...ucfg.Option) {
	c, err := ucfg.NewFrom(M{"v": in}, opts...)
	if err != nil {
		fmt.Printf("%-28s ERR %v\n", name, err)
		return
	}
	var m M
	err = c.Unpack(&m, opts...)
	fmt.Printf("%-28s %#v %v\n", name, m["v"], err)
}

func main() {
	ps := ucfg.PathSep(".")
	in := M{"a": M{"x": 1, "l": L{1, 2}}, "a.y": 2, "a.l.2": 3}
	try("default", in, ps)
	try("replace", in, ps, ucfg.ReplaceValues)
	try("append", in, ps, ucfg.AppendValues)
	try("prepend", in, ps, ucfg.PrependValues)
	try("fieldreplace", in, ps, ucfg.FieldReplaceValues("v.a"))
	in2 := M{"a": L{M{"x": 1}}, "a.0": M{"y": 2}}
	try("default2", in2, ps)
	try("replace2", in2, ps, ucfg.ReplaceValues)
	try("append2", in2, ps, ucfg.AppendValues)
	in3 := M{"a": M{"b": L{1, 2}}, "a.b": L{3}}
	try("default3", in3, ps)
	try("append3", in3, ps, ucfg.AppendValues)
	try("prepend3", in3, ps, ucfg.PrependValues)
	try("replace3", in3, ps, ucfg.ReplaceValues)
}
