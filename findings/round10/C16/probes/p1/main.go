package main

import (
	"encoding/json"
	"fmt"

	ucfg "github.com/elastic/go-ucfg"
)

type M = map[string]interface{}
type A = []interface{}

func run(name string, a, b interface{}, opts ...ucfg.Option) {
	c := ucfg.New()
	if err := c.Merge(a, opts...); err != nil {
		fmt.Println(name, "merge a err:", err)
		return
	}
	if err := c.Merge(b, opts...); err != nil {
		fmt.Println(name, "merge b err:", err)
		return
	}
	var out interface{}
	if c.IsArray() && !c.IsDict() {
		var o []interface{}
		if err := c.Unpack(&o); err != nil {
			fmt.Println(name, "unpack err:", err)
			return
		}
		out = o
	} else {
		o := M{}
		if err := c.Unpack(&o); err != nil {
			fmt.Println(name, "unpack err:", err)
			return
		}
		out = o
	}
	js, _ := json.Marshal(out)
	fmt.Printf("%-50s %s\n", name, js)
}

func main() {
	sep := ucfg.PathSep(".")
	a := M{"a": M{"x": 1, "y": 2, "l": A{1, 2}}, "b": M{"x": 1, "l": A{1}}, "l": A{"p"}}
	b := M{"a": M{"y": 3, "l": A{3}}, "b": M{"y": 9, "l": A{2}}, "l": A{"q"}}

	run("default", a, b, sep)
	run("global replace", a, b, sep, ucfg.ReplaceValues)
	run("global replace + FieldMerge(a)", a, b, sep, ucfg.ReplaceValues, ucfg.FieldMergeValues("a"))
	run("global replace + FieldAppend(a.l)", a, b, sep, ucfg.ReplaceValues, ucfg.FieldAppendValues("a.l"))
	run("global replace + FieldAppend(l)", a, b, sep, ucfg.ReplaceValues, ucfg.FieldAppendValues("l"))
	run("global append + FieldReplace(a)", a, b, sep, ucfg.AppendValues, ucfg.FieldReplaceValues("a"))
	run("no pathsep FieldReplace(l)", a, b, ucfg.FieldReplaceValues("l"), ucfg.AppendValues)
	run("pathsep after FieldReplace(l)", a, b, ucfg.FieldReplaceValues("l"), ucfg.AppendValues, sep)
	run("pathsep / FieldReplace(l)", a, b, ucfg.PathSep("/"), ucfg.FieldReplaceValues("l"), ucfg.AppendValues)
	run("pathsep / FieldReplace(a/l)", a, b, ucfg.PathSep("/"), ucfg.FieldReplaceValues("a/l"), ucfg.AppendValues)

	// array hops transparent
	a2 := M{"a": A{M{"b": A{1}}}, "c": M{"a": A{M{"b": A{1}}}}}
	b2 := M{"a": A{M{"b": A{2}}}, "c": M{"a": A{M{"b": A{2}}}}}
	run("FieldAppend(a.b) vs a.0.b", a2, b2, sep, ucfg.FieldAppendValues("a.b"))
	a3 := A{M{"paths": A{1}}}
	b3 := A{M{"paths": A{2}}}
	run("FieldAppend(paths) top array", a3, b3, sep, ucfg.FieldAppendValues("paths"))
	run("FieldAppend(*.paths) top array", a3, b3, sep, ucfg.FieldAppendValues("*.paths"))

	// ** with multi components
	a4 := M{"a": M{"b": A{1}}, "x": M{"a": M{"b": A{1}}}}
	b4 := M{"a": M{"b": A{2}}, "x": M{"a": M{"b": A{2}}}}
	run("FieldAppend(**.a.b)", a4, b4, sep, ucfg.FieldAppendValues("**.a.b"))
	run("FieldAppend(**.b)", a4, b4, sep, ucfg.FieldAppendValues("**.b"))
	run("FieldAppend(x.**.b)", a4, b4, sep, ucfg.FieldAppendValues("x.**.b"))

	// index combos
	a5 := M{"p": A{A{1}, A{1}, A{1}}}
	b5 := M{"p": A{A{2}, A{2}, A{2}}}
	run("FieldAppend(p.1)", a5, b5, sep, ucfg.FieldAppendValues("p.1"))
	run("FieldAppend(p.1)+FieldPrepend(p.2)", a5, b5, sep, ucfg.FieldAppendValues("p.1"), ucfg.FieldPrependValues("p.2"))
	run("FieldPrepend(p.2)+FieldAppend(p.1)", a5, b5, sep, ucfg.FieldPrependValues("p.2"), ucfg.FieldAppendValues("p.1"))
	run("FieldAppend(p.0)", a5, b5, sep, ucfg.FieldAppendValues("p.0"))
	run("FieldAppend(p.1, p.2) one call", a5, b5, sep, ucfg.FieldAppendValues("p.1", "p.2"))
}
