package main

import (
	"encoding/json"
	"fmt"

	ucfg "github.com/elastic/go-ucfg"
)

type M = map[string]interface{}
type A = []interface{}

func run(name string, a, b interface{}, opts ...ucfg.Option) {
	c := ucfg.New()
	if err := c.Merge(a, opts...); err != nil {
		fmt.Println(name, "merge a err:", err)
		return
	}
	if err := c.Merge(b, opts...); err != nil {
		fmt.Println(name, "merge b err:", err)
		return
	}
	var out interface{}
	if c.IsArray() && !c.IsDict() {
		var o []interface{}
		if err := c.Unpack(&o); err != nil {
			fmt.Println(name, "unpack err:", err)
			return
		}
		out = o
	} else {
		o := M{}
		if err := c.Unpack(&o); err != nil {
			fmt.Println(name, "unpack err:", err)
			return
		}
		out = o
	}
	js, _ := json.Marshal(out)
	fmt.Printf("%-50s %s\n", name, js)
}

func main() {
	sep := ucfg.PathSep(".")
	a := M{"a": M{"x": 1, "y": 2, "l": A{1, 2}, "z": M{"l": A{1}}}, "b": M{"x": 1, "l": A{1}}, "l": A{"p"}}
	b := M{"a": M{"y": 3, "l": A{3}, "z": M{"l": A{2}}}, "b": M{"y": 9, "l": A{2}}, "l": A{"q"}}

	run("FieldAppend(l)", a, b, sep, ucfg.FieldAppendValues("l"))
	run("FieldAppend(a.l)", a, b, sep, ucfg.FieldAppendValues("a.l"))
	run("append + FieldReplace(a.l)", a, b, sep, ucfg.AppendValues, ucfg.FieldReplaceValues("a.l"))
	run("prepend + FieldMerge(a.l)", a, b, sep, ucfg.PrependValues, ucfg.FieldMergeValues("a.l"))
	run("replacearr + FieldAppend(l)", a, b, sep, ucfg.ReplaceArrValues, ucfg.FieldAppendValues("l"))
	run("replacearr + FieldMerge(a.l)", a, b, sep, ucfg.ReplaceArrValues, ucfg.FieldMergeValues("a.l"))
	run("FieldAppend(nope.l)", a, b, sep, ucfg.FieldAppendValues("nope.l"))
	run("FieldAppend(a.x)", a, b, sep, ucfg.FieldAppendValues("a.x"))
	run("FieldReplace(a)+FieldAppend(a.l)", a, b, sep, ucfg.FieldReplaceValues("a"), ucfg.FieldAppendValues("a.l"))
	run("FieldAppend(a.l)+FieldReplace(a)", a, b, sep, ucfg.FieldAppendValues("a.l"), ucfg.FieldReplaceValues("a"))
	run("FieldAppend(a)+FieldReplace(a.z)", a, b, sep, ucfg.FieldAppendValues("a"), ucfg.FieldReplaceValues("a.z"))

	// ** combos
	a2 := M{"a": M{"q": M{"y": A{1}, "x": A{1}}}, "x": A{1}}
	b2 := M{"a": M{"q": M{"y": A{2}, "x": A{2}}}, "x": A{2}}
	run("FieldAppend(**.x)+FieldAppend(a.**.y)", a2, b2, sep, ucfg.FieldAppendValues("**.x"), ucfg.FieldAppendValues("a.**.y"))
	run("FieldAppend(a.**.y)", a2, b2, sep, ucfg.FieldAppendValues("a.**.y"))
	run("FieldAppend(**.x)+FieldPrepend(a.q.x)", a2, b2, sep, ucfg.FieldAppendValues("**.x"), ucfg.FieldPrependValues("a.q.x"))
	run("FieldAppend(**.x)+FieldPrepend(a.q.y)", a2, b2, sep, ucfg.FieldAppendValues("**.x"), ucfg.FieldPrependValues("a.q.y"))

	// x and x.*.paths
	a3 := M{"x": A{M{"paths": A{1}, "k": 1}}}
	b3 := M{"x": A{M{"paths": A{2}, "j": 1}}}
	run("FieldReplace(x)+FieldAppend(x.*.paths)", a3, b3, sep, ucfg.FieldReplaceValues("x"), ucfg.FieldAppendValues("x.*.paths"))
	run("FieldAppend(x.*.paths)+FieldReplace(x)", a3, b3, sep, ucfg.FieldAppendValues("x.*.paths"), ucfg.FieldReplaceValues("x"))
	run("FieldAppend(x.*.paths)", a3, b3, sep, ucfg.FieldAppendValues("x.*.paths"))
	run("FieldAppend(x.0.paths)", a3, b3, sep, ucfg.FieldAppendValues("x.0.paths"))
	run("FieldAppend(x.1.paths)", a3, b3, sep, ucfg.FieldAppendValues("x.1.paths"))

	// MaxIdx
	big := func(v int) M {
		arr := make(A, 1201)
		for i := range arr {
			arr[i] = A{0}
		}
		arr[1200] = A{v}
		return M{"p": arr}
	}
	c := ucfg.New()
	o := []ucfg.Option{sep, ucfg.MaxIdx(5000), ucfg.FieldAppendValues("p.1200")}
	c.Merge(big(1), o...)
	c.Merge(big(2), o...)
	ch, _ := c.Child("p", 1200)
	var got []int
	ch.Unpack(&got)
	fmt.Println("MaxIdx(5000)+FieldAppend(p.1200):", got)
	c = ucfg.New()
	o = []ucfg.Option{sep, ucfg.FieldAppendValues("p.1000")}
	c.Merge(big(1), o...)
	c.Merge(big(2), o...)
	ch, _ = c.Child("p", 1000)
	got = nil
	ch.Unpack(&got)
	fmt.Println("FieldAppend(p.1000):", got)
}
