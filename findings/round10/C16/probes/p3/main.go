package main

import (
	"encoding/json"
	"fmt"

	ucfg "github.com/elastic/go-ucfg"
)

type M = map[string]interface{}
type A = []interface{}

func run(name string, a, b interface{}, opts ...ucfg.Option) {
	c := ucfg.New()
	if err := c.Merge(a, opts...); err != nil {
		fmt.Println(name, "merge a err:", err)
		return
	}
	if err := c.Merge(b, opts...); err != nil {
		fmt.Println(name, "merge b err:", err)
		return
	}
	var out interface{}
	if c.IsArray() && !c.IsDict() {
		var o []interface{}
		if err := c.Unpack(&o); err != nil {
			fmt.Println(name, "unpack err:", err)
			return
		}
		out = o
	} else {
		o := M{}
		if err := c.Unpack(&o); err != nil {
			fmt.Println(name, "unpack err:", err)
			return
		}
		out = o
	}
	js, _ := json.Marshal(out)
	fmt.Printf("%-50s %s\n", name, js)
}

func main() {
	sep := ucfg.PathSep(".")
	ve := ucfg.VarExp
	// new value is a reference to a list elsewhere in the new tree
	a := M{"paths": A{"a", "b"}, "other": A{"a", "b"}}
	b := M{"paths": "${extra}", "other": "${extra}", "extra": A{"c"}}
	run("ref new: FieldAppend(paths)", a, b, sep, ve, ucfg.FieldAppendValues("paths"))
	run("ref new: global append", a, b, sep, ve, ucfg.AppendValues)
	run("ref new: append+FieldReplace(paths)", a, b, sep, ve, ucfg.AppendValues, ucfg.FieldReplaceValues("paths"))
	// old value is a reference
	a2 := M{"paths": "${defaults}", "other": "${defaults}", "defaults": A{"a", "b"}}
	b2 := M{"paths": A{"c"}, "other": A{"c"}}
	run("ref old: FieldAppend(paths)", a2, b2, sep, ve, ucfg.FieldAppendValues("paths"))
	run("ref old: append+FieldReplace(paths)", a2, b2, sep, ve, ucfg.AppendValues, ucfg.FieldReplaceValues("paths"))
	// reference inside a list element
	a3 := M{"p": A{A{1}, A{1}}}
	b3 := M{"p": A{"${e}", "${e}"}, "e": A{2}}
	run("ref idx: FieldAppend(p.1)", a3, b3, sep, ve, ucfg.FieldAppendValues("p.1"))

	// F8: p.*.paths + p.1
	a4 := M{"p": A{M{"paths": A{1}, "k": 1}, M{"paths": A{1}, "k": 1}}}
	b4 := M{"p": A{M{"paths": A{2}, "j": 1}, M{"paths": A{2}, "j": 1}}}
	run("FieldReplace(p.1)", a4, b4, sep, ucfg.FieldReplaceValues("p.1"))
	run("FieldReplace(p.1)+FieldAppend(p.*.paths)", a4, b4, sep, ucfg.FieldReplaceValues("p.1"), ucfg.FieldAppendValues("p.*.paths"))
	run("FieldAppend(p.*.paths)", a4, b4, sep, ucfg.FieldAppendValues("p.*.paths"))
	// ** + index sibling dropped at index hop
	a5 := M{"p": A{M{"q": A{1}, "paths": A{1}}}}
	b5 := M{"p": A{M{"q": A{2}, "paths": A{2}}}}
	run("FieldAppend(p.q)+FieldAppend(**.paths)", a5, b5, sep, ucfg.FieldAppendValues("p.q"), ucfg.FieldAppendValues("**.paths"))
	run("FieldAppend(p.q)", a5, b5, sep, ucfg.FieldAppendValues("p.q"))
}
