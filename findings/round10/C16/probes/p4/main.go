package main

import (
	"encoding/json"
	"fmt"

	ucfg "github.com/elastic/go-ucfg"
)

type M = map[string]interface{}
type A = []interface{}

func run(name string, a, b interface{}, opts ...ucfg.Option) {
	c := ucfg.New()
	if err := c.Merge(a, opts...); err != nil {
		fmt.Println(name, "merge a err:", err)
		return
	}
	if err := c.Merge(b, opts...); err != nil {
		fmt.Println(name, "merge b err:", err)
		return
	}
	var out interface{}
	if c.IsArray() && !c.IsDict() {
		var o []interface{}
		if err := c.Unpack(&o); err != nil {
			fmt.Println(name, "unpack err:", err)
			return
		}
		out = o
	} else {
		o := M{}
		if err := c.Unpack(&o); err != nil {
			fmt.Println(name, "unpack err:", err)
			return
		}
		out = o
	}
	js, _ := json.Marshal(out)
	fmt.Printf("%-50s %s\n", name, js)
}

func main() {
	sep := ucfg.PathSep(".")
	ve := ucfg.VarExp
	a := M{"paths": A{"a", "b"}}
	b := M{"paths": "${extra}", "extra": A{"c"}}
	run("only paths: global append", a, b, sep, ve, ucfg.AppendValues)
	a = M{"aa": A{"a", "b"}, "bb": A{"a", "b"}}
	b = M{"aa": "${extra}", "bb": "${extra}", "extra": A{"c"}}
	run("aa,bb,extra: global append", a, b, sep, ve, ucfg.AppendValues)
	b = M{"aa": "${zz}", "bb": "${zz}", "zz": A{"c"}}
	run("aa,bb,zz: global append", a, b, sep, ve, ucfg.AppendValues)
	run("aa,bb,zz: FieldAppend(aa)", a, b, sep, ve, ucfg.FieldAppendValues("aa"))
	run("aa,bb,zz: FieldAppend(bb)", a, b, sep, ve, ucfg.FieldAppendValues("bb"))
}
