package main

import (
	"fmt"
	"os"
	"reflect"
	"regexp"
	"time"
	"unsafe"

	ucfg "github.com/elastic/go-ucfg"
	"github.com/elastic/go-ucfg/cfgutil"
	"github.com/elastic/go-ucfg/diff"
	"github.com/elastic/go-ucfg/flag"
	"github.com/elastic/go-ucfg/hjson"
	"github.com/elastic/go-ucfg/json"
	"github.com/elastic/go-ucfg/yaml"
	stdflag "flag"
)

var fails int

func try(what string, f func()) {
	defer func() {
		if r := recover(); r != nil {
			fails++
			fmt.Printf("PANIC %s: %v\n", what, r)
		}
	}()
	f()
}

type N string
type S struct {
	A chan int
	B func()
	C *int
	D interface{}
	E unsafe.Pointer
	F complex128
	G [2]chan int
	H map[int]string
	I map[interface{}]interface{}
	J map[N]int
	K *regexp.Regexp
	L regexp.Regexp
	M time.Time
	O *ucfg.Config
	P ucfg.Config
	Q **ucfg.Config
	R uintptr
	T struct{ x int }
	U reflect.Value
}
type Sq1 struct {
	A *map[string]interface{} `config:",inline"`
}
type Sq2 struct {
	A interface{} `config:",inline"`
}
type Sq3 struct {
	A *ucfg.Config `config:",inline"`
}
type Sq4 struct {
	A []int `config:",inline"`
}

func main() {
	one := 1
	var nilm map[string]interface{}
	var nilp *S
	var nili interface{}
	cfgp := ucfg.New()
	froms := []interface{}{
		5, "s", 1.5, true, make(chan int), func() {}, unsafe.Pointer(&one), complex(1, 2), &one,
		nilm, nilp, &nili, &nilm, []interface{}(nil), [0]int{}, [2]int{1, 2}, []chan int{nil, make(chan int)},
		map[int]int{1: 2}, map[interface{}]interface{}{1: 2}, map[interface{}]interface{}{"a": 1, N("a"): 2, 3: 4, nil: 5},
		map[interface{}]interface{}{[2]int{1, 2}: 1, "x": map[interface{}]interface{}{1.5: 2}},
		map[N]interface{}{"a": 1}, map[string]chan int{"a": nil, "b": make(chan int)},
		S{}, &S{}, S{A: make(chan int)}, S{B: func() {}}, S{F: 1}, S{H: map[int]string{1: "a"}}, S{R: 3}, S{E: unsafe.Pointer(&one)},
		S{I: map[interface{}]interface{}{1: 1}}, S{J: map[N]int{"a": 1}}, S{U: reflect.ValueOf(1)},
		S{O: cfgp, P: *cfgp, Q: &cfgp}, S{D: S{D: &S{D: []interface{}{S{}}}}},
		Sq1{}, Sq2{}, Sq3{}, Sq4{}, Sq2{A: 5}, Sq2{A: map[string]interface{}{"a": 1}}, Sq2{A: &S{}}, Sq3{A: cfgp}, Sq4{A: []int{1}},
		ucfg.Config{}, &ucfg.Config{}, (*ucfg.Config)(nil), *cfgp, &cfgp,
		map[string]interface{}{"a.b": 1, "a": map[string]interface{}{"b": 2}},
		map[string]interface{}{"a.b": 1, "a": 2},
		map[string]interface{}{"a": 1, "a.b": 2},
		map[string]interface{}{"a.0": 1, "a.1.x": 2, "a": []interface{}{5}},
		map[string]interface{}{"a.1024": 1},
		map[string]interface{}{"a.1024.1024.1024": 1},
		map[string]interface{}{"a.-1": 1, "a.-0": 2, "a.+1": 3, "a.0x3": 4, "a.0b1": 5, "a.0_1": 6, "a.1_0": 7},
		map[string]interface{}{"": 1, ".": 2, "..": 3, "a.": 4, ".a": 5},
		map[string]interface{}{"0": 1, "a": 2},
		map[string]interface{}{"0.0.0": 1},
		map[string]interface{}{"1024": 1, "1025": 2},
		[]interface{}{map[string]interface{}{"0": 1}},
		time.Now(), time.Second, regexp.MustCompile("a"), *regexp.MustCompile("a"),
	}
	optsets := [][]ucfg.Option{
		nil,
		{ucfg.PathSep(".")},
		{ucfg.PathSep("."), ucfg.VarExp, ucfg.EscapePath()},
		{ucfg.PathSep("."), ucfg.EnableNumKeys(true)},
		{ucfg.PathSep("."), ucfg.MaxIdx(2)},
		{ucfg.PathSep("."), ucfg.AppendValues},
		{ucfg.PathSep("."), ucfg.ReplaceValues, ucfg.FieldAppendValues("a")},
		{ucfg.PathSep("."), ucfg.FieldReplaceValues("a.b", "a.*", "*", "**", "", ".", "0", "a.0"), ucfg.FieldPrependValues("a", "a.b.*")},
	}
	for fi, from := range froms {
		for oi, opts := range optsets {
			try(fmt.Sprintf("from%d(%T) o%d", fi, from, oi), func() {
				c, err := ucfg.NewFrom(from, opts...)
				if err != nil {
					return
				}
				var m interface{}
				mm := map[string]interface{}{}
				c.Unpack(&mm, opts...)
				_ = m
				c.FlattenedKeys(opts...)
				c.GetFields()
				c2 := ucfg.New()
				c2.Merge(c, opts...)
				c2.Merge(from, opts...)
				c2.Merge(c2, opts...)
				c.Merge(c, opts...)
				cfgutil.NewCollector(nil, opts...).Add(c, nil)
				diff.CompareConfigs(c, c2, opts...)
			})
		}
	}

	// loaders
	docs := []string{
		"", " ", "\x00", "~", "null", "[]", "{}", "1", "a", "- a", "a: 1", "a: [", "a: {", "a: &x [*x]", "&x a: *x", "a: &x {b: *x}",
		"? [a]\n: b", "? {a: 1}\n: b", "1: a", "1.5: a", "true: a", "~: a", "null: 1", "<<: {a: 1}", "<<: [1]", "<<: 1", "<<: *x",
		"a: !!binary x", "a: !!binary aGVsbG8=", "a: !!float x", "a: !!int x", "a: !!timestamp 2001-01-01", "a: 2001-01-01", "2001-01-01: 1", "a: !!set {x, y}", "a: !!omap [x: 1]", "a: !!map [1]", "a: !!seq {a: 1}", "a: !foo bar", "!!map {a: 1}",
		"a: .inf\nb: -.inf\nc: .nan", "a: 0x", "a: 0o17", "a: 1_000", "a: 99999999999999999999999999", "a: -99999999999999999999999999", "a: 1e999", "a: '${'", "a: ${", "a: \"${a\"", "a: ${a:${a:${a}}}", "a: ${a}", "a.b: 1\na:\n  b: 2", "a.b: 1\na: 2",
		"a: &a\n  b: *a", "a: |\n  x\n", "a: >-\n  x", "---\na: 1\n---\nb: 2", "--- !!str\na", "%YAML 1.1\n---\na: 1", "\t", "a:\t1", "- - - - - - - - a", "{a: {a: {a: {a: {a: 1}}}}}", "[[[[[[[[[[1]]]]]]]]]]",
		"a: &a [1,2,3,4,5,6,7,8,9]\nb: &b [*a,*a,*a,*a,*a,*a,*a,*a,*a]\nc: &c [*b,*b,*b,*b,*b,*b,*b,*b,*b]\nd: &d [*c,*c,*c,*c,*c,*c,*c,*c,*c]\ne: &e [*d,*d,*d,*d,*d,*d,*d,*d,*d]\nf: &f [*e,*e,*e,*e,*e,*e,*e,*e,*e]\ng: &g [*f,*f,*f,*f,*f,*f,*f,*f,*f]\nh: [*g,*g,*g,*g,*g,*g,*g,*g,*g]",
		"{\"a\":1}", "{\"a\":null}", "[null]", "[[]]", "{\"\":{\"\":{\"\":1}}}", "{\"a.b\":1,\"a\":{\"b\":2}}", "{\"a\":1e999}", "{\"a\":\"\\ud800\"}", "{\"1024\":1}", "{\"a.1024\":1}", "{\"a.1025\":1}", "{\"a.-1\":1}", "{\"a\":\"${a}\"}", "{\"a\":\"${\"}", "{\"a\":[1,{\"b\":\"${a.1.b}\"}]}",
		"{a:1}", "{a:", "a:1", "a:'''\nx\n'''", "{\n#c\na:1\n}", "[1,2", "{a:[1,,2]}", "{:1}", "{a:}", "{a b:1}", "{\"a\":1,}", "'''", "{a:'''", "/*", "{a:1 /*", "//", "{//\n}", "[\n]", "\"", "'", "{a:\"\\u", "{a:\"\\", "{a:-}", "{a:.}", "{a:1e}", "{a:tru}", "{a:nul}",
	}
	for di, d := range docs {
		for oi, opts := range optsets {
			for li, load := range []func([]byte, ...ucfg.Option) (*ucfg.Config, error){yaml.NewConfig, json.NewConfig, hjson.NewConfig} {
				try(fmt.Sprintf("doc%d(%q) o%d l%d", di, d, oi, li), func() {
					c, err := load([]byte(d), opts...)
					if err != nil || c == nil {
						return
					}
					mm := map[string]interface{}{}
					c.Unpack(&mm, opts...)
					c.FlattenedKeys(opts...)
				})
			}
		}
	}

	// flag values
	vals := []string{"", "=", "a", "a=", "=a", "a=[", "a={", "a=\"", "a='", "a=[1,{b:2}]", "a.b.c=1", "a.0=1", "a.-1=1", "a.1024=1", "a.1025=1", "a.99999999999=1", ".=1", "..=1", "a=${a}", "a=${", "a=1,2,,", "a=,", "a=[,]", "a={,}", "a={:}", "a={a:}", "a={a:{", "a=1=2", "0=1", "-1=1", "a=\\", "a=\"\\", "a=\"\\u\"", "a=\"\\ud800\"", "a='\\'"}
	for _, mkopts := range optsets {
		fs := stdflag.NewFlagSet("x", stdflag.ContinueOnError)
		fs.SetOutput(os.NewFile(0, os.DevNull))
		fv := flag.ConfigVar(fs, ucfg.New(), "E", "", mkopts...)
		_ = fv
		for _, v := range vals {
			try(fmt.Sprintf("flag %q", v), func() {
				fs.Parse([]string{"-E", v})
				fs.Parse([]string{"-E=" + v})
			})
		}
		try("flag cfg", func() {
			c := fv
			mm := map[string]interface{}{}
			c.Unpack(&mm, mkopts...)
		})
	}
	for _, v := range vals {
		try(fmt.Sprintf("flagvalue %q", v), func() {
			fv := flag.NewFlagKeyValue(ucfg.New(), true, ucfg.PathSep("."))
			fv.Set(v)
			fv.String()
			fv.Get()
			fv.Config()
			fv2 := flag.NewFlagKeyValue(ucfg.New(), false)
			fv2.Set(v)
			fv2.String()
			fv2.Set(v)
		})
	}
	fmt.Println("fails", fails)
	if fails > 0 {
		os.Exit(1)
	}
}
