package main

import (
	"fmt"

	ucfg "github.com/elastic/go-ucfg"
)

func try(what string, f func()) {
	defer func() {
		if r := recover(); r != nil {
			fmt.Printf("PANIC %s: %v\n", what, r)
		}
	}()
	f()
	fmt.Println("ok", what)
}

func main() {
	try("Bool", func() { var z ucfg.Config; z.Bool("a", 0) })
	try("Has", func() { var z ucfg.Config; z.Has("a", 0) })
	try("Remove name", func() { var z ucfg.Config; z.Remove("a", -1) })
	try("Remove idx", func() { var z ucfg.Config; z.Remove("", 0) })
	try("Remove neg idx", func() { var z ucfg.Config; z.Remove("", -1) })
	try("CountField", func() { var z ucfg.Config; z.CountField(""); z.CountField("a") })
	try("misc", func() { var z ucfg.Config; z.GetFields(); z.IsDict(); z.IsArray(); z.FlattenedKeys(); z.Path("."); z.Parent() })
	try("Unpack", func() { var z ucfg.Config; var m map[string]interface{}; z.Unpack(&m) })
	try("Set", func() { var z ucfg.Config; z.SetInt("a", 3, 1) })
	try("Merge", func() { var z ucfg.Config; z.Merge(map[string]interface{}{"a": 1}) })
	// a zero Config reached as a child: struct field of type Config left unset
	type T struct {
		Sub ucfg.Config
	}
	try("child zero Remove", func() {
		c := ucfg.New()
		fmt.Println(c.SetChild("sub", -1, &ucfg.Config{}))
		fmt.Println(c.Remove("sub.x", -1, ucfg.PathSep(".")))
	})
	try("struct zero Config merge then Remove", func() {
		c, err := ucfg.NewFrom(T{})
		fmt.Println(err)
		fmt.Println(c.Remove("sub.x", -1, ucfg.PathSep(".")))
		fmt.Println(c.Remove("sub.0", -1, ucfg.PathSep(".")))
	})
}
