package fz

import (
	"testing"

	ucfg "github.com/elastic/go-ucfg"
	"github.com/elastic/go-ucfg/hjson"
	"github.com/elastic/go-ucfg/json"
	"github.com/elastic/go-ucfg/parse"
	"github.com/elastic/go-ucfg/yaml"
)

var seeds = []string{"a: 1", "{a: [1, {b: '${a.0}'}]}", "a.b: ${x:${y}}\nx: [1,2]", "{\"a\":{\"b\":[1,2,{\"c\":null}]}}", "a: &x [1]\nb: *x\n<<: {c: 1}", "{\n a: '''\n x\n '''\n b: [1 2]\n}"}

func use(c *ucfg.Config, err error) {
	if err != nil || c == nil {
		return
	}
	var m map[string]interface{}
	c.Unpack(&m, ucfg.PathSep("."), ucfg.VarExp)
	c.FlattenedKeys(ucfg.PathSep("."))
}

func FuzzYAML(f *testing.F) {
	for _, s := range seeds {
		f.Add([]byte(s))
	}
	f.Fuzz(func(t *testing.T, b []byte) {
		use(yaml.NewConfig(b, ucfg.PathSep("."), ucfg.VarExp))
	})
}

func FuzzJSON(f *testing.F) {
	for _, s := range seeds {
		f.Add([]byte(s))
	}
	f.Fuzz(func(t *testing.T, b []byte) {
		use(json.NewConfig(b, ucfg.PathSep("."), ucfg.VarExp))
	})
}

func FuzzHJSON(f *testing.F) {
	for _, s := range seeds {
		f.Add([]byte(s))
	}
	f.Fuzz(func(t *testing.T, b []byte) {
		use(hjson.NewConfig(b, ucfg.PathSep("."), ucfg.VarExp))
	})
}

func FuzzParse(f *testing.F) {
	for _, s := range []string{"[1,{a:'b',\"c\":\"\\u00e9\"}]", "a,b", "{a:[1,2,],}", "\"\\ud83d\\ude00\""} {
		f.Add(s, uint8(15))
	}
	f.Fuzz(func(t *testing.T, s string, bits uint8) {
		cfg := parse.Config{Array: bits&1 != 0, Object: bits&2 != 0, StringDQuote: bits&4 != 0, StringSQuote: bits&8 != 0, IgnoreCommas: bits&16 != 0}
		parse.ValueWithConfig(s, cfg)
	})
}

func FuzzVarExp(f *testing.F) {
	for _, s := range []string{"${a}", "${a:${b}}", "x${a:+y}z", "${a:?msg}", "$${a}", "${${a}.b}"} {
		f.Add(s, "b")
	}
	f.Fuzz(func(t *testing.T, s, s2 string) {
		c, err := ucfg.NewFrom(map[string]interface{}{"a": s, "b": s2, "c": []interface{}{s, s2}}, ucfg.PathSep("."), ucfg.VarExp)
		use(c, err)
		if c != nil {
			c.String("a", -1, ucfg.PathSep("."))
			c.Child("a", -1, ucfg.PathSep("."))
			c.CountField("b")
		}
	})
}
