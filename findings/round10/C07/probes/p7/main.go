package main

import (
	"fmt"

	ucfg "github.com/elastic/go-ucfg"
	"github.com/elastic/go-ucfg/cfgutil"
	"github.com/elastic/go-ucfg/diff"
)

func try(what string, f func()) {
	defer func() {
		if r := recover(); r != nil {
			fmt.Printf("PANIC %s: %v\n", what, r)
			return
		}
	}()
	f()
	fmt.Println("ok", what)
}

func main() {
	var np *ucfg.Config
	c := ucfg.MustNewFrom(map[string]interface{}{"a": 1})
	try("diff.CompareConfigs(nil, c)", func() { diff.CompareConfigs(nil, c) })
	try("diff.CompareConfigs(c, nil)", func() { diff.CompareConfigs(c, nil) })
	try("nil.FlattenedKeys", func() { np.FlattenedKeys() })
	try("nil.Has", func() { np.Has("a", -1) })
	try("nil.Bool", func() { np.Bool("a", -1) })
	try("nil.CountField", func() { np.CountField("") })
	try("nil.GetFields", func() { np.GetFields() })
	try("nil.IsDict", func() { np.IsDict() })
	try("nil.Merge", func() { np.Merge(map[string]interface{}{"a": 1}) })
	try("nil.SetInt", func() { np.SetInt("a", -1, 1) })
	try("nil.Remove", func() { np.Remove("a", -1) })
	try("nil.Path", func() { np.Path(".") })
	try("nil.Parent", func() { np.Parent() })
	try("nil.Unpack", func() { var m map[string]interface{}; fmt.Println(np.Unpack(&m) != nil) })
	try("Collector zero value Add", func() { var col cfgutil.Collector; col.Add(c, nil) })
	try("Unpack Env(zero Config)", func() {
		r := ucfg.MustNewFrom(map[string]interface{}{"a": "${x}"}, ucfg.VarExp)
		var m map[string]interface{}
		fmt.Println(r.Unpack(&m, ucfg.VarExp, ucfg.Env(&ucfg.Config{})))
	})
}
