package main

import (
	"fmt"
	"io"
	"os"
	"reflect"
	"regexp"
	"time"
	"unsafe"

	ucfg "github.com/elastic/go-ucfg"
)

var fails int

func try(what string, f func()) {
	defer func() {
		if r := recover(); r != nil {
			fails++
			fmt.Printf("PANIC %s: %v\n", what, r)
		}
	}()
	f()
}

type Rec struct {
	A    int
	Next *Rec
	L    []Rec
	M    map[string]Rec
}

type Named string
type NamedI int
type Strukt struct{ X int }
type Emb struct {
	*Strukt `config:",inline"`
}
type Emb2 struct {
	Strukt
}
type Emb3 struct {
	*Strukt
}
type IfaceM interface{ Foo() }
type WithIface struct {
	A io.Reader
	B IfaceM
	C error
	D fmt.Stringer
}
type Inl1 struct {
	A int `config:",inline"`
}
type Inl2 struct {
	A interface{} `config:",inline"`
}
type Inl3 struct {
	A *map[string]interface{} `config:",inline"`
}
type Inl4 struct {
	A []int `config:",inline"`
}
type Inl5 struct {
	A [2]int `config:",inline"`
}
type Inl6 struct {
	A *[]int `config:",inline"`
}
type Inl7 struct {
	A **Strukt `config:",inline"`
}
type Inl8 struct {
	A chan int `config:",inline"`
}
type BadVal struct {
	A int `validate:"min"`
	B int `validate:"min=x"`
}
type BadVal2 struct {
	A int `validate:"nosuch"`
}
type BadVal3 struct {
	A chan int `validate:"required"`
	B func() `validate:"nonzero"`
	C complex128 `validate:"positive"`
	D [2]int `validate:"min=1"`
	E map[string]int `validate:"max=3"`
	F *int `validate:"min=1, max=2"`
	G interface{} `validate:"positive,min=1s"`
	H time.Duration `validate:"min=abc"`
	I *regexp.Regexp `validate:"nonzero,required,min=1"`
}

func main() {
	inputs := []interface{}{
		map[string]interface{}{},
		map[string]interface{}{"a": 1},
		map[string]interface{}{"a": "s", "b": []interface{}{1, "x", nil, map[string]interface{}{"q": 1}}, "c": map[string]interface{}{"a": 1}, "next": map[string]interface{}{"next": nil, "l": []interface{}{map[string]interface{}{"a": 1}}, "m": map[string]interface{}{"k": map[string]interface{}{"a": 2}}}, "x": 5, "strukt": map[string]interface{}{"x": 1}, "d": nil, "e": 1.5, "f": -1, "g": true, "h": "1s", "i": "(", "0": 7},
		[]interface{}{1, 2},
		[]interface{}{},
		[]interface{}{map[string]interface{}{"a": 1}, "x", nil},
		map[string]interface{}{"a": "${b}", "b": "${c}", "c": "${a}"},
		map[string]interface{}{"a": "${a.a}"},
		map[string]interface{}{"a": map[string]interface{}{"a": "${a}"}},
		map[string]interface{}{"a": []interface{}{"${a}"}},
		map[string]interface{}{"a": []interface{}{"${a.0}"}},
		map[string]interface{}{"a": "${b}", "b": map[string]interface{}{"c": "${a}"}},
		map[string]interface{}{"a": "${b:${a}}", "b": "${a:+${b}}"},
		map[string]interface{}{"a": "${${a}}"},
		map[string]interface{}{"a": "x${a}y"},
		map[string]interface{}{"a": "${b}", "b": "[${a}, ${b}]"},
		map[string]interface{}{"a": "${b}", "b": "x", "x": "${a}"},
	}
	targets := []func() interface{}{
		func() interface{} { return new(map[string]interface{}) },
		func() interface{} { return map[string]interface{}{} },
		func() interface{} { return new(interface{}) },
		func() interface{} { return new(int) },
		func() interface{} { return new(string) },
		func() interface{} { return new(chan int) },
		func() interface{} { return new(func()) },
		func() interface{} { return new(complex128) },
		func() interface{} { return new(unsafe.Pointer) },
		func() interface{} { return new(uintptr) },
		func() interface{} { return new([]int) },
		func() interface{} { return new([]interface{}) },
		func() interface{} { return new([]chan int) },
		func() interface{} { return new([]func()) },
		func() interface{} { return new([2]int) },
		func() interface{} { return new([0]int) },
		func() interface{} { return new([3]interface{}) },
		func() interface{} { return new(*[]int) },
		func() interface{} { return new(**[]int) },
		func() interface{} { return new(*[2]int) },
		func() interface{} { return new(**map[string]int) },
		func() interface{} { return new(map[int]int) },
		func() interface{} { return map[int]int{} },
		func() interface{} { return map[Named]interface{}{} },
		func() interface{} { return map[interface{}]interface{}{} },
		func() interface{} { return new(map[string]chan int) },
		func() interface{} { return new(map[string]func()) },
		func() interface{} { return new(map[string]complex64) },
		func() interface{} { return new(map[string]*int) },
		func() interface{} { return new(map[string]**Strukt) },
		func() interface{} { return new(map[string][]Rec) },
		func() interface{} { return map[string]interface{}{"a": make(chan int), "b": func() {}, "c": Strukt{}, "next": &Rec{}, "x": new(int), "d": (*int)(nil), "e": [2]int{}, "f": []int{1, 2, 3}, "g": map[string]int{}, "h": IfaceM(nil)} },
		func() interface{} { return map[string]interface{}{"a": [1]int{}, "b": [4]interface{}{}, "c": map[int]int{}, "next": Rec{}, "x": &[]int{1}, "strukt": new(*Strukt)} },
		func() interface{} { return new(Rec) },
		func() interface{} { return new(*Rec) },
		func() interface{} { return new(***Rec) },
		func() interface{} { return new(Emb) },
		func() interface{} { return new(Emb2) },
		func() interface{} { return new(Emb3) },
		func() interface{} { return new(WithIface) },
		func() interface{} { return &WithIface{A: os.Stdin} },
		func() interface{} { return new(Inl1) },
		func() interface{} { return new(Inl2) },
		func() interface{} { return &Inl2{A: map[string]interface{}{}} },
		func() interface{} { return &Inl2{A: []int{1}} },
		func() interface{} { return &Inl2{A: &[]int{1}} },
		func() interface{} { return &Inl2{A: [2]int{}} },
		func() interface{} { return &Inl2{A: Strukt{}} },
		func() interface{} { return &Inl2{A: &Strukt{}} },
		func() interface{} { return &Inl2{A: 5} },
		func() interface{} { return new(Inl3) },
		func() interface{} { return new(Inl4) },
		func() interface{} { return new(Inl5) },
		func() interface{} { return new(Inl6) },
		func() interface{} { return &Inl6{A: &[]int{1}} },
		func() interface{} { return new(Inl7) },
		func() interface{} { return new(Inl8) },
		func() interface{} { return new(BadVal) },
		func() interface{} { return new(BadVal2) },
		func() interface{} { return new(BadVal3) },
		func() interface{} { return new(time.Duration) },
		func() interface{} { return new(time.Time) },
		func() interface{} { return new(regexp.Regexp) },
		func() interface{} { return new(*regexp.Regexp) },
		func() interface{} { return new(ucfg.Config) },
		func() interface{} { return new(*ucfg.Config) },
		func() interface{} { return new(**ucfg.Config) },
		func() interface{} { return ucfg.New() },
		func() interface{} { return new([]ucfg.Config) },
		func() interface{} { return new([]*ucfg.Config) },
		func() interface{} { return new(map[string]ucfg.Config) },
		func() interface{} { return new(map[string]*ucfg.Config) },
		func() interface{} { return map[string]interface{}{"a": ucfg.Config{}, "c": &ucfg.Config{}, "b": (*ucfg.Config)(nil), "next": ucfg.New()} },
		func() interface{} { return new(struct{ A ucfg.Config; C *ucfg.Config; B **ucfg.Config; Next ucfg.Config }) },
		func() interface{} { return new(struct{ A, B, C, D, E, F, G, H, I, X time.Duration }) },
		func() interface{} { return new(struct{ A, B, C, D, E, F, G, H, I, X *regexp.Regexp }) },
		func() interface{} { return new(struct{ A, B, C, D, E, F, G, H, I, X regexp.Regexp }) },
		func() interface{} { return new(struct{ A, B, C, D, E, F, G, H, I, X uint8 }) },
		func() interface{} { return new(struct{ A, B, C, D, E, F, G, H, I, X float32 }) },
		func() interface{} { return new(struct{ A, B, C, D, E, F, G, H, I, X bool }) },
		func() interface{} { return new(struct{ A, B, C, D, E, F, G, H, I, X []string }) },
		func() interface{} { return new(struct{ A, B, C, D, E, F, G, H, I, X [1]string }) },
		func() interface{} { return new(struct{ A, B, C, D, E, F, G, H, I, X map[string]string }) },
		func() interface{} { return new(struct{ A, B, C, D, E, F, G, H, I, X interface{} }) },
		func() interface{} { return new(struct{ A, B, C, D, E, F, G, H, I, X NamedI }) },
		func() interface{} { return new(struct{ A, B, C, D, E, F, G, H, I, X chan int }) },
		func() interface{} { return new(struct{ A, B, C, D, E, F, G, H, I, X complex64 }) },
		func() interface{} { return new(struct{ A, B, C, D, E, F, G, H, I, X uintptr }) },
		func() interface{} { return new(struct{ A, B, C, D, E, F, G, H, I, X unsafe.Pointer }) },
		func() interface{} { return new(struct{ A, B, C, D, E, F, G, H, I, X func() }) },
		func() interface{} { return new(struct{ A, B, C, D, E, F, G, H, I, X struct{} }) },
		func() interface{} { return new(struct{ A, B, C, D, E, F, G, H, I, X *struct{ y int } }) },
		func() interface{} { return 5 },
		func() interface{} { return "x" },
		func() interface{} { return Strukt{} },
		func() interface{} { return []int{} },
		func() interface{} { return (*Strukt)(nil) },
		func() interface{} { return (map[string]interface{})(nil) },
		func() interface{} { return nil },
		func() interface{} { return reflect.ValueOf(1) },
		func() interface{} { return new(reflect.Value) },
	}
	optsets := [][]ucfg.Option{
		{ucfg.PathSep("."), ucfg.VarExp},
		{ucfg.PathSep("."), ucfg.VarExp, ucfg.AppendValues},
		{ucfg.PathSep("."), ucfg.VarExp, ucfg.PrependValues},
		{ucfg.PathSep("."), ucfg.VarExp, ucfg.ReplaceValues},
		{ucfg.VarExp, ucfg.FieldAppendValues("b", "a"), ucfg.FieldReplaceValues("c", "next.l")},
	}
	n := 0
	for ii, in := range inputs {
		for ti, mk := range targets {
			for oi, opts := range optsets {
				try(fmt.Sprintf("in%d t%d o%d", ii, ti, oi), func() {
					c, err := ucfg.NewFrom(in, opts...)
					if err != nil {
						return
					}
					n++
					c.Unpack(mk(), opts...)
					// second time into the same, prefilled target
					t := mk()
					c.Unpack(t, opts...)
					c.Unpack(t, opts...)
				})
			}
		}
	}
	fmt.Println("cases", n, "fails", fails)
	if fails > 0 {
		os.Exit(1)
	}
}
