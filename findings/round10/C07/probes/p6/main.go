package main

import (
	"fmt"
	"os"
	"strings"
	"time"

	ucfg "github.com/elastic/go-ucfg"
	"github.com/elastic/go-ucfg/hjson"
	"github.com/elastic/go-ucfg/parse"
	"github.com/elastic/go-ucfg/yaml"
)

func main() {
	switch os.Args[1] {
	case "cycle":
		A, B, C := ucfg.New(), ucfg.New(), ucfg.New()
		fmt.Println(A.SetChild("b", -1, B))
		fmt.Println(C.SetChild("b", -1, B))
		fmt.Println(B.SetChild("a", -1, A))
		fmt.Println("built")
		fmt.Println(len(A.FlattenedKeys()))
	case "cycle2":
		A, B, C := ucfg.New(), ucfg.New(), ucfg.New()
		A.SetChild("b", -1, B)
		C.SetChild("b", -1, B)
		B.SetChild("a", -1, A)
		var m map[string]interface{}
		fmt.Println(A.Unpack(&m))
	case "deepparse":
		n := 20000000
		if len(os.Args) > 2 {
			fmt.Sscan(os.Args[2], &n)
		}
		_, err := parse.Value(strings.Repeat("[", n))
		fmt.Println(err != nil)
	case "deepobj":
		n := 20000000
		_, err := parse.Value(strings.Repeat("{a:", n))
		fmt.Println(err != nil)
	case "deephjson":
		_, err := hjson.NewConfig([]byte(strings.Repeat("[", 20000000)))
		fmt.Println(err != nil)
	case "deepyaml":
		_, err := yaml.NewConfig([]byte(strings.Repeat("[", 20000000)))
		fmt.Println(err != nil)
	case "deepyaml2":
		_, err := yaml.NewConfig([]byte("a: " + strings.Repeat("[", 9000) + strings.Repeat("]", 9000)))
		fmt.Println(err)
	case "deepsplice":
		n := 5000000
		_, err := ucfg.NewFrom(map[string]interface{}{"a": strings.Repeat("${", n)}, ucfg.VarExp)
		fmt.Println(err != nil)
	case "deepsplice2":
		n := 3000000
		c, err := ucfg.NewFrom(map[string]interface{}{"a": strings.Repeat("${", n) + "a" + strings.Repeat("}", n)}, ucfg.VarExp)
		fmt.Println(err)
		if c != nil {
			_, err = c.String("a", -1)
			fmt.Println(err != nil)
		}
	case "quad":
		for _, n := range []int{20000, 40000, 80000, 160000} {
			s := strings.Repeat("$$", n)
			t0 := time.Now()
			_, err := ucfg.NewFrom(map[string]interface{}{"a": s}, ucfg.VarExp)
			fmt.Println("escapes", n, time.Since(t0), err)
		}
		for _, n := range []int{20000, 40000, 80000, 160000} {
			s := "${a:" + strings.Repeat(":", n) + "}"
			t0 := time.Now()
			_, err := ucfg.NewFrom(map[string]interface{}{"a": s}, ucfg.VarExp)
			fmt.Println("seps", n, time.Since(t0), err)
		}
		for _, n := range []int{20000, 40000, 80000, 160000} {
			s := strings.Repeat("a.", n)
			t0 := time.Now()
			c, err := ucfg.NewFrom(map[string]interface{}{s: 1}, ucfg.PathSep("."))
			fmt.Println("path", n, time.Since(t0), err)
			t0 = time.Now()
			c.FlattenedKeys(ucfg.PathSep("."))
			fmt.Println("path flatten", n, time.Since(t0), err)
		}
	}
}
