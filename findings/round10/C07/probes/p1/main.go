package main

import (
	"fmt"
	"os"
	"runtime"
	"time"

	ucfg "github.com/elastic/go-ucfg"
	"github.com/elastic/go-ucfg/parse"
)

var fails int

func guard(what string, f func()) {
	done := make(chan struct{})
	go func() {
		defer close(done)
		defer func() {
			if r := recover(); r != nil {
				fails++
				if fails < 40 {
					fmt.Printf("PANIC %s: %v\n", what, r)
				}
			}
		}()
		f()
	}()
	select {
	case <-done:
	case <-time.After(5 * time.Second):
		fmt.Printf("HANG %s\n", what)
		os.Exit(2)
	}
}

func gen(alpha string, n int, f func(string)) {
	var rec func(prefix []byte, k int)
	rec = func(prefix []byte, k int) {
		f(string(prefix))
		if k == 0 {
			return
		}
		for i := 0; i < len(alpha); i++ {
			rec(append(prefix, alpha[i]), k-1)
		}
	}
	rec(nil, n)
}

func main() {
	// 1. parse.Value under all configs
	cnt := 0
	gen("[]{}\"',:\\ a1", 5, func(s string) {
		for bits := 0; bits < 32; bits++ {
			cfg := parse.Config{Array: bits&1 != 0, Object: bits&2 != 0, StringDQuote: bits&4 != 0, StringSQuote: bits&8 != 0, IgnoreCommas: bits&16 != 0}
			cnt++
			func() {
				defer func() {
					if r := recover(); r != nil {
						fails++
						if fails < 40 {
							fmt.Printf("PANIC parse %q %+v: %v\n", s, cfg, r)
						}
					}
				}()
				parse.ValueWithConfig(s, cfg)
			}()
		}
	})
	fmt.Println("parse cases", cnt, "fails", fails)

	// 2. VarExp strings
	base := runtime.NumGoroutine()
	cnt = 0
	resolver := func(name string) (string, parse.Config, error) {
		if name == "e" {
			return "[1,{a:${a}}", parse.DefaultConfig, nil
		}
		return "", parse.DefaultConfig, ucfg.ErrMissing
	}
	gen("${}:+?.a0-", 6, func(s string) {
		cnt++
		func() {
			defer func() {
				if r := recover(); r != nil {
					fails++
					if fails < 40 {
						fmt.Printf("PANIC varexp %q: %v\n", s, r)
					}
				}
			}()
			c, err := ucfg.NewFrom(map[string]interface{}{"a": s, "0": "x", "b": map[string]interface{}{"a": []interface{}{1, 2}}}, ucfg.VarExp, ucfg.PathSep("."))
			if err != nil {
				return
			}
			var m map[string]interface{}
			c.Unpack(&m, ucfg.VarExp, ucfg.PathSep("."), ucfg.Resolve(resolver))
			c.String("a", -1, ucfg.PathSep("."))
			c.Child("a", -1, ucfg.PathSep("."))
			c.CountField("a")
			c.FlattenedKeys()
		}()
	})
	time.Sleep(200 * time.Millisecond)
	fmt.Println("varexp cases", cnt, "fails", fails, "goroutines", runtime.NumGoroutine(), "base", base)
	if fails > 0 {
		os.Exit(1)
	}
}
