package main

import (
	"fmt"
	"math"
	"os"
	"runtime"

	ucfg "github.com/elastic/go-ucfg"
)

var fails int

func try(what string, f func()) {
	defer func() {
		if r := recover(); r != nil {
			fails++
			if fails < 60 {
				fmt.Printf("PANIC %s: %v\n", what, r)
			}
		}
	}()
	f()
}

func mk() *ucfg.Config {
	c, err := ucfg.NewFrom(map[string]interface{}{
		"a": []interface{}{1, "x", map[string]interface{}{"k": []interface{}{true}}},
		"b": map[string]interface{}{"c": 1.5, "0": "zero", "-1": "neg"},
		"s": "str",
		"r": "${a}",
		"r2": "${b.c}",
		"r3": "${s.0.0}",
		"":  "empty",
		"n": nil,
	}, ucfg.VarExp, ucfg.PathSep("."))
	if err != nil {
		panic(err)
	}
	return c
}

func main() {
	names := []string{"", "a", "b", "s", "r", "r2", "r3", "n", "a.0", "a.2.k", "a.2.k.0", "a.-1", "a.5", "a.1024", "a.1025", "a.99999999999999999999", "b.0", "b.-1", "-1", "0", "1", "1024", "1025", ".", "..", "a.", ".a", "a..0", "[a]", "[a.0]", "[", "]", "[]", "s.0", "s.0.0", "s.1", "r.0", "r.5", "n.0", "n.x", "0x10", "a.0x1", "a.+1", "a.01", "+0", "-0", "a.-0", "9223372036854775807", "a.9223372036854775807", "a.-9223372036854775808", "x.y.z", "a.0.0.0.0"}
	idxs := []int{-1, 0, 1, 2, 3, 1023, 1024, 1025, -2, -100, math.MaxInt32, math.MinInt64, math.MaxInt64, 1 << 40}
	optsets := [][]ucfg.Option{
		nil,
		{ucfg.PathSep(".")},
		{ucfg.PathSep("."), ucfg.EscapePath()},
		{ucfg.PathSep("."), ucfg.EnableNumKeys(true)},
		{ucfg.EnableNumKeys(true)},
		{ucfg.PathSep("."), ucfg.MaxIdx(0)},
		{ucfg.PathSep("."), ucfg.MaxIdx(-5)},
		{ucfg.PathSep("."), ucfg.MaxIdx(5)},
		{ucfg.PathSep("")},
		{ucfg.PathSep("a")},
		{ucfg.PathSep("."), ucfg.VarExp},
	}
	var ms runtime.MemStats
	for oi, opts := range optsets {
		for _, n := range names {
			for _, i := range idxs {
				w := fmt.Sprintf("opt%d name=%q idx=%d", oi, n, i)
				c := mk()
				try("Bool "+w, func() { c.Bool(n, i, opts...) })
				try("Int "+w, func() { c.Int(n, i, opts...) })
				try("Uint "+w, func() { c.Uint(n, i, opts...) })
				try("Float "+w, func() { c.Float(n, i, opts...) })
				try("String "+w, func() { c.String(n, i, opts...) })
				try("Child "+w, func() { c.Child(n, i, opts...) })
				try("Has "+w, func() { c.Has(n, i, opts...) })
				try("CountField "+w, func() { c.CountField(n, opts...) })
				try("HasField "+w, func() { c.HasField(n) })
				try("PathOf "+w, func() { c.PathOf(n, ".") })
				try("Remove "+w, func() { mk().Remove(n, i, opts...) })
				for k := 0; k < 6; k++ {
					c := mk()
					runtime.ReadMemStats(&ms)
					before := ms.TotalAlloc
					try(fmt.Sprintf("Set%d %s", k, w), func() {
						var err error
						switch k {
						case 0:
							err = c.SetBool(n, i, true, opts...)
						case 1:
							err = c.SetInt(n, i, -3, opts...)
						case 2:
							err = c.SetUint(n, i, 3, opts...)
						case 3:
							err = c.SetFloat(n, i, 3.5, opts...)
						case 4:
							err = c.SetString(n, i, "v", opts...)
						case 5:
							err = c.SetChild(n, i, ucfg.New(), opts...)
						}
						_ = err
						// after a set, everything must still walk
						var m map[string]interface{}
						c.Unpack(&m, ucfg.PathSep("."))
						c.FlattenedKeys()
					})
					runtime.ReadMemStats(&ms)
					if d := ms.TotalAlloc - before; d > 4<<20 {
						fmt.Printf("ALLOC %s k=%d: %d bytes\n", w, k, d)
						fails++
					}
				}
			}
		}
	}
	// zero-value and nil configs
	var z ucfg.Config
	try("zero", func() {
		z.Bool("a", 0)
		z.Has("a", 0)
		z.Remove("a", 0)
		z.Remove("", 0)
		z.CountField("")
		z.CountField("a")
		z.GetFields()
		z.IsDict()
		z.IsArray()
		z.FlattenedKeys()
		z.Path(".")
		z.Parent()
		var m map[string]interface{}
		z.Unpack(&m)
		z.SetInt("a", 3, 1)
		z.Merge(map[string]interface{}{"a": 1})
	})
	var z2 ucfg.Config
	try("zero-remove", func() { z2.Remove("a", -1) })
	var z3 ucfg.Config
	try("zero-remove-idx", func() { z3.Remove("", 0) })
	var z4 ucfg.Config
	try("zero-merge", func() { z4.Merge(&z3) })
	try("zero-merge2", func() { ucfg.New().Merge(z3) })
	try("zero-merge3", func() { ucfg.New().Merge(&ucfg.Config{}) })
	try("zero-child", func() { ucfg.New().SetChild("a", -1, &ucfg.Config{}) })
	try("zero-child-unpack", func() {
		c := ucfg.New()
		c.SetChild("a", -1, &ucfg.Config{})
		var m map[string]interface{}
		fmt.Println(c.Unpack(&m), m)
		c.FlattenedKeys()
		c2 := ucfg.New()
		fmt.Println(c2.Merge(c))
		ch, _ := c.Child("a", -1)
		fmt.Println(ch.SetInt("x", -1, 1))
		ch.Remove("x", -1)
		ch.Remove("", 0)
	})
	var np *ucfg.Config
	try("nil-unpack", func() { var m map[string]interface{}; fmt.Println(np.Unpack(&m) != nil) })
	try("nil-merge-from", func() { fmt.Println(ucfg.New().Merge(np)) })
	try("nil-newfrom", func() { fmt.Println(ucfg.NewFrom(np)) })
	try("nil-setchild", func() { fmt.Println(ucfg.New().SetChild("a", -1, nil) != nil) })
	try("nil-env", func() {
		c := mk()
		var m map[string]interface{}
		c.Unpack(&m, ucfg.Env(nil), ucfg.Env(np), ucfg.PathSep("."))
	})
	fmt.Println("fails", fails)
	if fails > 0 {
		os.Exit(1)
	}
}
