package main

import (
	"fmt"
	"os"
	"time"

	ucfg "github.com/elastic/go-ucfg"
	"github.com/elastic/go-ucfg/yaml"
)

var base = []ucfg.Option{ucfg.PathSep("."), ucfg.VarExp}

func mk(y string) *ucfg.Config {
	c, err := yaml.NewConfig([]byte(y), base...)
	if err != nil {
		fmt.Println("new err", err)
		os.Exit(3)
	}
	return c
}

func main() {
	// single env variant of the false cycle
	A := mk("a: ${x}\nx: ${w}")
	B := mk("w: ${x}\nx: 5")
	opts := append(append([]ucfg.Option{}, base...), ucfg.Env(B))
	s, err := A.String("a", -1, opts...)
	fmt.Printf("1 String(a) = %q, %v\n", s, err)
	fmt.Println("1 flat", A.FlattenedKeys(opts...))

	// reference to an object unpacked into a Duration: reported as a cycle
	C := mk("d: ${o}\no:\n  k: 1")
	var st struct{ D time.Duration }
	fmt.Println("2", C.Unpack(&st, base...))
	var st2 struct{ D string }
	fmt.Println("3", C.Unpack(&st2, base...))
	var st3 struct{ D int }
	fmt.Println("4", C.Unpack(&st3, base...))
	_, err = C.Int("d", -1, base...)
	fmt.Println("5", err)

	// a path that walks twice through the same (non cyclic) reference target
	D := mk("a: ${o}\no:\n  p: ${q}\nq:\n  r: ${o.s}\no2: 1")
	_ = D
	// struct field with dotted name through a reference, value itself references the same object
	E := mk("a: ${o}\no:\n  k: ${o.j}\n  j: 7")
	var st5 struct {
		K int `config:"a.k"`
	}
	fmt.Println("6", E.Unpack(&st5, base...), st5)
	n, err := E.Int("a.k", -1, base...)
	fmt.Println("7", n, err)
	E2 := mk("a: ${o}\no:\n  k: ${o}\n")
	h, err := E2.Has("a.k.k.k", -1, base...)
	fmt.Println("8", h, err)
	// the same object referenced at two levels of one path, no cycle
	F := mk("a: ${o.x}\no:\n  x:\n    b: ${o.x.c}\n    c: 3")
	n, err = F.Int("a.b", -1, base...)
	fmt.Println("9", n, err)
	G := mk("a: ${o}\no:\n  b: ${p}\np:\n  c: ${o.d}\nq: 1")
	h, err = G.Has("a.b.c", -1, base...)
	fmt.Println("10", h, err)
	G2 := mk("a: ${o}\no:\n  b: ${o2}\n  d: 4\no2:\n  c: ${o}\n")
	n, err = G2.Int("a.b.c.d", -1, base...)
	fmt.Println("11", n, err)
}
