package main

import (
	"fmt"
	"os"
	"strconv"

	ucfg "github.com/elastic/go-ucfg"
	"github.com/elastic/go-ucfg/diff"
	"github.com/elastic/go-ucfg/yaml"
)

var opts = []ucfg.Option{ucfg.PathSep("."), ucfg.VarExp}

type M = map[string]interface{}

type tc struct {
	name string
	y    string
	// keys to read via String
	reads []string
}

var cases = []tc{
	{"self", `a: ${a}`, []string{"a"}},
	{"self splice", `a: "x${a}"`, []string{"a"}},
	{"two cycle", "a: ${b}\nb: ${a}", []string{"a", "b"}},
	{"diamond", "a: \"${b}-${c}\"\nb: ${d}\nc: ${d}\nd: 1", []string{"a", "b", "c", "d"}},
	{"repeat", "a: \"${b}${b}${b}\"\nb: ${c}\nc: v", []string{"a"}},
	{"repeat direct chain", "a: \"${b} ${c}\"\nb: ${c}\nc: ${d}\nd: v", []string{"a"}},
	{"ancestor", "a:\n  b: ${a}", []string{"a.b"}},
	{"ancestor splice", "a:\n  b: \"x ${a}\"", []string{"a.b"}},
	{"descendant", "a: ${x.w}\nx:\n  w: ${x.z}\n  z: 3", []string{"a"}},
	{"descendant obj", "a: ${x}\nx:\n  w: ${x.z}\n  z: 3", []string{"a.w", "a.z"}},
	{"default absorbs", "a: ${a:dflt}", []string{"a"}},
	{"default nested", "a: ${b:${c}}\nc: ${a:zz}", []string{"a", "c"}},
	{"default nested 2", "a: ${nope:${b}}\nb: ${nope2:${c}}\nc: final", []string{"a"}},
	{"name nested", "a: ${${b}}\nb: c\nc: val", []string{"a"}},
	{"name nested cyc", "a: ${${b}}\nb: a", []string{"a"}},
	{"name nested repeat", "a: ${${b}.${b}}\nb: c\nc:\n  c: deep", []string{"a"}},
	{"alt", "a: ${a:+x}", []string{"a"}},
	{"err op", "a: ${a:?boom}", []string{"a"}},
	{"list self", "c:\n  - a\n  - ${c.1}", []string{"c.1"}},
	{"list whole", "c:\n  - a\n  - ${c}", []string{"c.1"}},
	{"list idx0 prim", "a: ${b.0}\nb: 5", []string{"a"}},
	{"list idx0 self", "a: ${a.0}", []string{"a"}},
	{"obj diamond", "a:\n  p: ${o}\n  q: ${o}\no:\n  k: ${v}\n  l: ${v}\nv: 1", []string{"a.p.k", "a.q.l"}},
	{"ref to ref to obj twice", "a: ${b}\nb: ${o}\no:\n  k: 1\nc: ${b}", []string{"a.k", "c.k"}},
	{"path through ref", "a: ${b.k}\nb: ${o}\no:\n  k: ${o.j}\n  j: 7", []string{"a"}},
	{"path through ref cyc", "a: ${b.k}\nb: ${a}", []string{"a", "b"}},
	{"path through ref cyc2", "a: ${b.k}\nb: ${c}\nc:\n  k: ${a}", []string{"a", "b.k", "c.k"}},
	{"self desc", "a: ${a.b}", []string{"a"}},
	{"same leaf name", "x:\n  a: ${a}\na: 1", []string{"x.a"}},
	{"splice obj", "a: \"${o}\"\no:\n  k: 1", []string{"a"}},
	{"dollar nested default cyc", "a: \"${b:${a}}\"", []string{"a"}},
	{"dflt uses same twice", "a: \"${nope:${b}${b}}\"\nb: q", []string{"a"}},
	{"deep chain", "a0: ${a1}\na1: ${a2}\na2: ${a3}\na3: ${a4}\na4: ${a5}\na5: end", []string{"a0"}},
	{"two refs same target in list", "l:\n  - ${v}\n  - ${v}\n  - \"${v}${v}\"\nv: 2", []string{"l.0", "l.1", "l.2"}},
	{"ref to list elem ref", "l:\n  - ${m.0}\nm:\n  - ${l.0}", []string{"l.0"}},
	{"ref into sub via ref into sub", "a:\n  x: ${b.w}\nb:\n  w: ${a.z}\na2: 1", []string{"a.x"}},
}

func run(i int) {
	c := cases[i]
	fmt.Printf("== %d %s\n", i, c.name)
	cfg, err := yaml.NewConfig([]byte(c.y), opts...)
	if err != nil {
		fmt.Println("  new err:", err)
		return
	}
	for _, k := range c.reads {
		s, err := cfg.String(k, -1, opts...)
		fmt.Printf("  String(%s) = %q, %v\n", k, s, err)
		n, err := cfg.CountField(k, opts...)
		fmt.Printf("  CountField(%s) = %d, %v\n", k, n, err)
		h, err := cfg.Has(k, -1, opts...)
		fmt.Printf("  Has(%s) = %v, %v\n", k, h, err)
		h, err = cfg.Has(k+".zz", -1, opts...)
		fmt.Printf("  Has(%s.zz) = %v, %v\n", k, h, err)
		ch, err := cfg.Child(k, -1, opts...)
		fmt.Printf("  Child(%s) = %v, %v\n", k, ch != nil, err)
	}
	var m M
	err = cfg.Unpack(&m, opts...)
	fmt.Printf("  Unpack map = %v, %v\n", m, err)
	fmt.Printf("  FlattenedKeys = %v\n", cfg.FlattenedKeys(opts...))
	fmt.Printf("  Diff = %v\n", diff.CompareConfigs(cfg, cfg, opts...))
}

func main() {
	if len(os.Args) < 2 {
		fmt.Println(len(cases))
		return
	}
	i, _ := strconv.Atoi(os.Args[1])
	run(i)
}
