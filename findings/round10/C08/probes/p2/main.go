package main

import (
	"fmt"
	"os"
	"strconv"
	"time"

	ucfg "github.com/elastic/go-ucfg"
	"github.com/elastic/go-ucfg/diff"
	"github.com/elastic/go-ucfg/parse"
	"github.com/elastic/go-ucfg/yaml"
)

var base = []ucfg.Option{ucfg.PathSep("."), ucfg.VarExp}

type M = map[string]interface{}

func mk(y string, o ...ucfg.Option) *ucfg.Config {
	c, err := yaml.NewConfig([]byte(y), append(append([]ucfg.Option{}, base...), o...)...)
	if err != nil {
		fmt.Println("new err", err)
		os.Exit(3)
	}
	return c
}

func all(c *ucfg.Config, keys []string, o ...ucfg.Option) {
	opts := append(append([]ucfg.Option{}, base...), o...)
	for _, k := range keys {
		s, err := c.String(k, -1, opts...)
		fmt.Printf("  String(%s) = %q, %v\n", k, s, err)
		n, err := c.CountField(k, opts...)
		fmt.Printf("  CountField(%s) = %d, %v\n", k, n, err)
		h, err := c.Has(k, -1, opts...)
		fmt.Printf("  Has(%s) = %v, %v\n", k, h, err)
	}
	var m M
	err := c.Unpack(&m, opts...)
	fmt.Printf("  Unpack map = %v, %v\n", m, err)
	fmt.Printf("  FlattenedKeys = %v\n", c.FlattenedKeys(opts...))
	fmt.Printf("  Diff = %v\n", diff.CompareConfigs(c, c, opts...))
}

var cases = []func(){
	func() { // 0 env cycle: A.a -> x (in env B) -> a (B has none: missing)
		A := mk("a: ${x}")
		B := mk("x: ${a}")
		all(A, []string{"a"}, ucfg.Env(B))
	},
	func() { // 1 env: same name in env, not a cycle: A.x -> "x" found in A itself (self)
		A := mk("a: ${x}\n")
		B := mk("x: ${z}\nz: 9")
		all(A, []string{"a"}, ucfg.Env(B))
	},
	func() { // 2 env two levels, same name reused in deeper env: A.a -> v (B.v -> ${w}) , C.w
		A := mk("a: \"${v} ${v}\"")
		B := mk("v: ${w}")
		C := mk("w: 1")
		all(A, []string{"a"}, ucfg.Env(C), ucfg.Env(B))
	},
	func() { // 3 same key name in config and env; A.v refers to env's v?  A: v: ${v} is self-ref
		A := mk("v: ${v}")
		B := mk("v: 1")
		all(A, []string{"v"}, ucfg.Env(B))
	},
	func() { // 4 resolver that returns object text containing a reference to caller
		A := mk("a: ${r}")
		res := func(name string) (string, parse.Config, error) {
			if name == "r" {
				return "{k: '${a}'}", parse.DefaultConfig, nil
			}
			return "", parse.DefaultConfig, ucfg.ErrMissing
		}
		all(A, []string{"a", "a.k"}, ucfg.Resolve(res))
	},
	func() { // 5 resolver returns reference text to other var, diamond
		A := mk("a: \"${r}${r}\"\nb: 1")
		res := func(name string) (string, parse.Config, error) {
			if name == "r" {
				return "${b}", parse.DefaultConfig, nil
			}
			return "", parse.DefaultConfig, ucfg.ErrMissing
		}
		all(A, []string{"a"}, ucfg.Resolve(res))
	},
	func() { // 6 struct target with several views of the same ref
		A := mk("d: ${e}\ne: ${f}\nf: 5s\ng: ${d}\nh: [\"${d}\", \"${g}\"]\nm:\n  k: ${d}")
		var s struct {
			D time.Duration
			E string
			G time.Duration
			H []time.Duration
			M map[string]time.Duration
		}
		fmt.Println(A.Unpack(&s, base...), s)
	},
	func() { // 7 struct target, ref to object used twice
		A := mk("o:\n  k: ${v}\nv: 1\np: ${o}\nq: ${o}\nr: [\"${o}\", \"${p}\"]")
		type O struct{ K int }
		var s struct {
			O O
			P O
			Q *O
			R []O
		}
		fmt.Println(A.Unpack(&s, base...), s, s.Q)
	},
	func() { // 8 *Config fields holding refs
		A := mk("o:\n  k: ${v}\nv: 1\np: ${o}\nq: ${p}")
		var s struct {
			P *ucfg.Config
			Q *ucfg.Config
		}
		fmt.Println(A.Unpack(&s, base...))
		if s.P != nil {
			fmt.Println(s.P.FlattenedKeys(base...), s.Q.FlattenedKeys(base...))
			fmt.Println(s.Q.String("k", -1, base...))
		}
	},
	func() { // 9 child config read (sub config with parent) 
		A := mk("x:\n  a: ${x.b}\n  b: ${top}\n  c: \"${x.a}${x.b}\"\ntop: t")
		ch, err := A.Child("x", -1, base...)
		fmt.Println(err)
		all(ch, []string{"a", "b", "c"})
	},
	func() { // 10 list reference diamond, list of lists
		A := mk("l: [\"${m}\", \"${m}\"]\nm: [\"${v}\", \"${v}\"]\nv: 1")
		all(A, []string{"l.0.0", "l.1.1"})
	},
	func() { // 11 default containing cyclic + valid
		A := mk("a: \"${a:${b}} ${b}\"\nb: ${c:${d}}\nd: ok")
		all(A, []string{"a", "b"})
	},
	func() { // 12 dynamic name forming a cycle through default
		A := mk("a: \"${${nm}:fallback}\"\nnm: a")
		all(A, []string{"a"})
	},
	func() { // 13 reference to object containing cyc inside, only reading good key
		A := mk("o:\n  good: 1\n  bad: ${o.bad}\nr: ${o.good}")
		all(A, []string{"r", "o.good"})
	},
	func() { // 14 ref to key with dotted name w/o pathsep on unpack
		c, err := ucfg.NewFrom(M{"a.b": "${c}", "c": "${a.b:zz}"}, ucfg.VarExp)
		fmt.Println(err)
		var m M
		fmt.Println(c.Unpack(&m, ucfg.VarExp), m)
		fmt.Println(c.FlattenedKeys(ucfg.VarExp))
	},
	func() { // 15 merge with references then read
		A := mk("a: ${b}\nb:\n  k: 1")
		err := A.Merge(M{"a": M{"j": "${a.k}"}}, base...)
		fmt.Println("merge", err)
		all(A, []string{"a.k", "a.j"})
	},
	func() { // 16 merge self ref
		A := mk("a: ${a}")
		err := A.Merge(M{"a": M{"j": 1}}, base...)
		fmt.Println("merge", err)
		all(A, []string{"a"})
	},
	func() { // 17 merge cyc two
		A := mk("a: ${b}\nb: ${a}")
		B := mk("a: ${b}\nb: ${a}")
		err := A.Merge(B, base...)
		fmt.Println("merge", err)
		all(A, []string{"a"})
	},
	func() { // 18 numbers/idx forms equal strings
		A := mk("l: [x, \"${l.0x0}\", \"${l.00}\", \"${l.0} ${l.00}\"]")
		all(A, []string{"l.1", "l.2", "l.3"})
	},
	func() { // 19 resolver absorbs cycle
		A := mk("a: ${b}\nb: ${a}")
		res := func(name string) (string, parse.Config, error) {
			if name == "a" {
				return "resolved", parse.DefaultConfig, nil
			}
			return "", parse.DefaultConfig, ucfg.ErrMissing
		}
		all(A, []string{"a", "b"}, ucfg.Resolve(res))
	},
	func() { // 20 big fan-out diamond (exponential?)
		y := "a0: x\n"
		for i := 1; i < 22; i++ {
			y += fmt.Sprintf("a%d: \"${a%d}${a%d}\"\n", i, i-1, i-1)
		}
		A := mk(y)
		t := time.Now()
		s, err := A.String("a21", -1, base...)
		fmt.Println(len(s), err, time.Since(t))
	},
}

func main() {
	if len(os.Args) < 2 {
		fmt.Println(len(cases))
		return
	}
	i, _ := strconv.Atoi(os.Args[1])
	fmt.Println("==", i)
	cases[i]()
}
