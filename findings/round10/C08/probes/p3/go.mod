module probe

go 1.13

require github.com/elastic/go-ucfg v0.0.0

replace github.com/elastic/go-ucfg => /tmp/mut10/wt_C08
