package main

import (
	"fmt"
	"os"

	ucfg "github.com/elastic/go-ucfg"
	"github.com/elastic/go-ucfg/yaml"
)

var base = []ucfg.Option{ucfg.PathSep("."), ucfg.VarExp}

func mk(y string) *ucfg.Config {
	c, err := yaml.NewConfig([]byte(y), base...)
	if err != nil {
		fmt.Println("new err", err)
		os.Exit(3)
	}
	return c
}

func main() {
	// A.a -> "x": not in A, found in env B (B.x) -> "w": not in B, found in env C (C.w)
	// -> "x": found in C itself (C.x = 5). Three distinct settings, no setting is
	// re-entered.
	A := mk("a: ${x}")
	B := mk("x: ${w}")
	C := mk("w: ${x}\nx: 5")
	opts := append(append([]ucfg.Option{}, base...), ucfg.Env(C), ucfg.Env(B))
	s, err := A.String("a", -1, opts...)
	fmt.Printf("String(a) = %q, %v\n", s, err)
	var m map[string]interface{}
	err = A.Unpack(&m, opts...)
	fmt.Printf("Unpack = %v, %v\n", m, err)

	// control: rename so that names differ
	A2 := mk("a: ${x}")
	B2 := mk("x: ${w}")
	C2 := mk("w: ${x2}\nx2: 5")
	opts2 := append(append([]ucfg.Option{}, base...), ucfg.Env(C2), ucfg.Env(B2))
	s, err = A2.String("a", -1, opts2...)
	fmt.Printf("control String(a) = %q, %v\n", s, err)
}
