package main

import (
	"fmt"

	ucfg "github.com/elastic/go-ucfg"
)

var ro = []ucfg.Option{ucfg.PathSep("."), ucfg.VarExp}

func dump(c *ucfg.Config) string {
	var m interface{}
	mm := map[string]interface{}{}
	if err := c.Unpack(&mm, ro...); err != nil {
		return "ERR " + err.Error()
	}
	m = mm
	return fmt.Sprintf("%v", m)
}

type inl struct {
	P *ucfg.Config `config:",inline"`
}

func main() {
	// 1. inline *Config
	src := ucfg.MustNewFrom(map[string]interface{}{"x": 1}, ro...)
	d := ucfg.New()
	err := d.Merge(inl{src}, ro...)
	fmt.Println("inline *Config:", err, dump(d))

	// 2. two references to same path merged over subs
	src = ucfg.MustNewFrom(map[string]interface{}{"x": map[string]interface{}{"q": 2}, "a": "${x}", "b": "${x}"}, ro...)
	d = ucfg.MustNewFrom(map[string]interface{}{"a": map[string]interface{}{"p": 1}, "b": map[string]interface{}{"p": 1}}, ro...)
	err = d.Merge(src, ro...)
	fmt.Println("two refs:", err, dump(d))
	d.Remove("x", -1)
	fmt.Println("two refs after removing x:", dump(d))

	// 3. source is a child of dest
	d = ucfg.MustNewFrom(map[string]interface{}{"a": map[string]interface{}{"a": map[string]interface{}{"x": 1}, "y": 2}}, ro...)
	sub, _ := d.Child("a", -1)
	fmt.Println("before:", dump(sub))
	err = d.Merge(sub)
	fmt.Println("after:", err, dump(sub), "dest:", dump(d))

	// 4. self-merge
	d = ucfg.MustNewFrom(map[string]interface{}{"a": []interface{}{1, 2}, "b": map[string]interface{}{"c": 1}}, ro...)
	for _, o := range []ucfg.Option{ucfg.AppendValues, ucfg.PrependValues, ucfg.ReplaceValues} {
		err = d.Merge(d, o)
		fmt.Println("self:", err, dump(d))
	}
	// 5. Merge dest into its own child
	d = ucfg.MustNewFrom(map[string]interface{}{"a": map[string]interface{}{"y": 2}, "z": 1}, ro...)
	sub, _ = d.Child("a", -1)
	err = sub.Merge(d)
	fmt.Println("into child:", err, dump(d))
	err = sub.Merge(map[string]interface{}{"k": d})
	fmt.Println("into child:", err, dump(d))
}
