package main

import (
	"fmt"

	ucfg "github.com/elastic/go-ucfg"
)

var ro = []ucfg.Option{ucfg.PathSep("."), ucfg.VarExp}

func dump(c *ucfg.Config) string {
	mm := map[string]interface{}{}
	if err := c.Unpack(&mm, ro...); err != nil {
		return "ERR " + err.Error()
	}
	return fmt.Sprintf("%v", mm)
}

func main() {
	// A. env mutated through a dotted key crossing a reference
	env := ucfg.MustNewFrom(map[string]interface{}{"e": map[string]interface{}{"x": map[string]interface{}{"o": 1}}}, ro...)
	d := ucfg.New()
	err := d.Merge(map[string]interface{}{"k": "${e}", "k.x.y": 1}, ucfg.PathSep("."), ucfg.VarExp, ucfg.Env(env))
	fmt.Println("A env after:", err, dump(env), "dest:", dump(d))
	env = ucfg.MustNewFrom(map[string]interface{}{"e": map[string]interface{}{"x": map[string]interface{}{"o": 1}}}, ro...)
	d = ucfg.New()
	err = d.Merge(map[string]interface{}{"k": "${e}", "k.x": map[string]interface{}{"new": 1}}, ucfg.PathSep("."), ucfg.VarExp, ucfg.Env(env))
	fmt.Println("A2 env after:", err, dump(env), "dest:", dump(d))

	// A3: the same with the source itself: a map holding the source config and a reference to it
	src := ucfg.MustNewFrom(map[string]interface{}{"x": map[string]interface{}{"o": 1}}, ro...)
	d = ucfg.New()
	err = d.Merge(map[string]interface{}{"a": src, "k": "${a}", "k.x.y": 1}, ro...)
	fmt.Println("A3 src after:", err, dump(src), "dest:", dump(d))

	// B. Unpack into Config by value
	c := ucfg.MustNewFrom(map[string]interface{}{"s": map[string]interface{}{"o": 1}}, ro...)
	var st struct{ S ucfg.Config }
	err = c.Unpack(&st)
	st.S.SetInt("added", -1, 5)
	fmt.Println("B:", err, dump(c))

	// C. Unpack into fresh Config
	var cc ucfg.Config
	err = c.Unpack(&cc)
	cc.SetInt("s.added2", -1, 5, ucfg.PathSep("."))
	fmt.Println("C:", err, dump(c), dump(&cc))

	// D. struct with Config by value inside non-addressable struct, nested arrays of configs
	type S struct {
		A [2]ucfg.Config
		M map[string]ucfg.Config
	}
	src = ucfg.MustNewFrom(map[string]interface{}{"x": map[string]interface{}{"o": 1}, "l": []interface{}{1, 2}}, ro...)
	d = ucfg.New()
	err = d.Merge(S{A: [2]ucfg.Config{*src, *src}, M: map[string]ucfg.Config{"m": *src}})
	s0 := dump(src)
	d.SetInt("a.0.x.o", -1, 77, ucfg.PathSep("."))
	d.SetInt("m.m.l.0", -1, 77, ucfg.PathSep("."))
	d.Remove("a.1.l", 0, ucfg.PathSep("."))
	fmt.Println("D:", err, s0 == dump(src), dump(d))

	// E. merging twice the same source, then mutate first copy
	d = ucfg.New()
	d.Merge(map[string]interface{}{"p": src, "q": src})
	d.SetInt("p.x.o", -1, 5, ucfg.PathSep("."))
	fmt.Println("E:", dump(d), dump(src))
}
