package main

import (
	"fmt"
	"sort"
	"strings"

	ucfg "github.com/elastic/go-ucfg"
)

var ro = []ucfg.Option{ucfg.PathSep("."), ucfg.VarExp}

// fingerprint through the public API
func fp(c *ucfg.Config, ident bool) string {
	var sb strings.Builder
	seen := map[*ucfg.Config]bool{}
	var walk func(c *ucfg.Config, ind string)
	walk = func(c *ucfg.Config, ind string) {
		if seen[c] {
			fmt.Fprintf(&sb, "%s<seen>\n", ind)
			return
		}
		seen[c] = true
		defer delete(seen, c)
		if ident {
			fmt.Fprintf(&sb, "%s@%p path=%q parent=%p\n", ind, c, c.Path("."), c.Parent())
		} else {
			fmt.Fprintf(&sb, "%s path=%q\n", ind, c.Path("."))
		}
		names := c.GetFields()
		sort.Strings(names)
		for _, n := range names {
			if sub, err := c.Child(n, -1, ucfg.VarExp); err == nil {
				if sub2, _ := c.Child(n, -1, ucfg.VarExp); sub2 != sub {
					fmt.Fprintf(&sb, "%s%s: <transient> path=%q len=%d\n", ind, n, sub.Path("."), len(sub.GetFields()))
					continue
				}
				fmt.Fprintf(&sb, "%s%s:\n", ind, n)
				walk(sub, ind+"  ")
				continue
			}
			s, err := c.String(n, -1, ucfg.VarExp)
			fmt.Fprintf(&sb, "%s%s=%q err=%v\n", ind, n, s, err)
		}
		if c.IsArray() {
			for i := 0; ; i++ {
				if ok, _ := c.Has("", i); !ok {
					break
				}
				if sub, err := c.Child("", i, ucfg.VarExp); err == nil {
					fmt.Fprintf(&sb, "%s[%d]:\n", ind, i)
					walk(sub, ind+"  ")
					continue
				}
				s, err := c.String("", i, ucfg.VarExp)
				fmt.Fprintf(&sb, "%s[%d]=%q err=%v\n", ind, i, s, err)
			}
		}
	}
	walk(c, "")
	return sb.String()
}

func mkSrc() *ucfg.Config {
	return ucfg.MustNewFrom(map[string]interface{}{
		"a": map[string]interface{}{
			"b": 1,
			"c": []interface{}{1, 2, map[string]interface{}{"d": 3}, []interface{}{4, 5}},
			"e": map[string]interface{}{"f": "x"},
		},
		"r":  "${a.b}",
		"rs": "${a.e}",
		"sp": "v-${a.b}-${a.e.f}",
		"n":  nil,
		"l":  []interface{}{map[string]interface{}{"q": 1}, "${a.b}"},
	}, ro...)
}

func mkDst(kind int) *ucfg.Config {
	switch kind {
	case 0:
		return ucfg.New()
	case 1:
		return ucfg.MustNewFrom(map[string]interface{}{
			"a": map[string]interface{}{
				"b": 9,
				"c": []interface{}{7, map[string]interface{}{"z": 1}},
				"e": map[string]interface{}{"g": "y"},
			},
			"rs": map[string]interface{}{"own": 1},
			"l":  []interface{}{map[string]interface{}{"w": 1}},
			"k": map[string]interface{}{
				"a": map[string]interface{}{"e": map[string]interface{}{"h": 1}},
			},
		}, ro...)
	case 2:
		return ucfg.MustNewFrom(map[string]interface{}{
			"tgt": map[string]interface{}{"t": 1},
			"a":   "${tgt}",
			"rs":  "${tgt}",
			"k":   "${tgt}",
		}, ro...)
	case 3:
		return &ucfg.Config{}
	}
	return nil
}

type wrapS struct {
	P *ucfg.Config
	V ucfg.Config
	M map[string]*ucfg.Config
	L []*ucfg.Config
	I interface{}
}

type wrapInline struct {
	P *ucfg.Config `config:",inline"`
}

type rebrand ucfg.Config

func wrap(kind int, src *ucfg.Config) interface{} {
	switch kind {
	case 0:
		return src
	case 1:
		return map[string]interface{}{"k": src}
	case 2:
		return map[string]interface{}{"k": []interface{}{src, map[string]interface{}{"x": src}}}
	case 3:
		return wrapS{P: src, V: *src, M: map[string]*ucfg.Config{"m": src}, L: []*ucfg.Config{src}, I: src}
	case 4:
		return &wrapS{P: src, V: *src, M: map[string]*ucfg.Config{"m": src}, L: []*ucfg.Config{src}, I: *src}
	case 5:
		return *src
	case 6:
		return (*rebrand)(src)
	case 7:
		return map[string]interface{}{"k.a": src, "k": map[string]interface{}{"a": map[string]interface{}{"zz": 1}}}
	case 8:
		return map[string]*ucfg.Config{"k": src, "a": src}
	case 9:
		return []interface{}{src, src}
	case 10:
		return map[string]interface{}{"k": (*rebrand)(src)}
	case 11:
		return wrapInline{src}
	}
	return nil
}

var policies = map[string][]ucfg.Option{
	"default": nil,
	"replace": {ucfg.ReplaceValues},
	"append":  {ucfg.AppendValues},
	"prepend": {ucfg.PrependValues},
	"replarr": {ucfg.ReplaceArrValues},
	"fieldrep": {ucfg.FieldReplaceValues("a.c", "k.a"), ucfg.FieldAppendValues("l", "k.l")},
}

// mutate every node reachable
func mutateAll(c *ucfg.Config, depth int) {
	if depth > 6 {
		return
	}
	names := c.GetFields()
	sort.Strings(names)
	for _, n := range names {
		if sub, err := c.Child(n, -1); err == nil {
			mutateAll(sub, depth+1)
		}
	}
	if c.IsArray() {
		for i := 0; ; i++ {
			if ok, _ := c.Has("", i); !ok {
				break
			}
			if sub, err := c.Child("", i); err == nil {
				mutateAll(sub, depth+1)
			}
		}
	}
	c.SetString("MUT", -1, "mut")
	c.SetInt("", 0, 4242)
	c.SetInt("", 7, 4242)
	for _, n := range names {
		if n == "e" || n == "b" || n == "d" || n == "q" {
			c.Remove(n, -1)
		}
	}
	c.Remove("", 1)
	c.Merge(map[string]interface{}{"MERGED": map[string]interface{}{"x": 1}, "e": map[string]interface{}{"MM": 1}})
	c.Merge([]interface{}{map[string]interface{}{"AM": 1}}, ucfg.AppendValues)
}

func main() {
	bad := 0
	pnames := []string{}
	for k := range policies {
		pnames = append(pnames, k)
	}
	sort.Strings(pnames)
	for dk := 0; dk <= 3; dk++ {
		for wk := 0; wk <= 11; wk++ {
			for _, pn := range pnames {
				for _, withOpts := range []bool{false, true} {
					name := fmt.Sprintf("dst=%d wrap=%d pol=%s opts=%v", dk, wk, pn, withOpts)
					src := mkSrc()
					dst := mkDst(dk)
					before := fp(src, true)
					opts := append([]ucfg.Option{}, policies[pn]...)
					if withOpts {
						opts = append(opts, ro...)
					}
					func() {
						defer func() {
							if r := recover(); r != nil {
								fmt.Println(name, "PANIC", r)
								bad++
							}
						}()
						err := dst.Merge(wrap(wk, src), opts...)
						if err != nil {
							fmt.Println(name, "merge err:", err)
						}
						after := fp(src, true)
						if before != after {
							fmt.Println(name, "SOURCE CHANGED BY MERGE\n", before, "\n---\n", after)
							bad++
							return
						}
						mutateAll(dst, 0)
						after = fp(src, true)
						if before != after {
							fmt.Println(name, "SOURCE CHANGED BY DEST MUTATION\n", before, "\n---\n", after)
							bad++
							return
						}
						// other direction
						src2 := mkSrc()
						dst2 := mkDst(dk)
						dst2.Merge(wrap(wk, src2), opts...)
						d0 := fp(dst2, true)
						mutateAll(src2, 0)
						d1 := fp(dst2, true)
						if d0 != d1 {
							fmt.Println(name, "DEST CHANGED BY SOURCE MUTATION\n", d0, "\n---\n", d1)
							bad++
						}
					}()
				}
			}
		}
	}
	fmt.Println("bad:", bad)
}
