package main

import (
	"fmt"
	"time"

	ucfg "github.com/elastic/go-ucfg"
	"github.com/elastic/go-ucfg/yaml"
)

func cfg(s string) *ucfg.Config {
	c, err := yaml.NewConfig([]byte(s), ucfg.PathSep("."), ucfg.VarExp)
	if err != nil {
		panic(err)
	}
	return c
}

type Inner struct {
	N int `config:"num" validate:"min=1"`
}

type V struct{ X int }

func (v V) Validate() error {
	if v.X == 0 {
		return fmt.Errorf("X zero")
	}
	return nil
}

func try(name string, to interface{}, c *ucfg.Config, opts ...ucfg.Option) {
	err := c.Unpack(to, opts...)
	fmt.Printf("%-40s err=%v  result=%+v\n", name, err, to)
}

func main() {
	es := ""
	{
		t := struct {
			P *string `validate:"required"`
		}{P: &es}
		try("A *string default empty required", &t, cfg("x: 1"))
	}
	{
		t := struct {
			P *string `validate:"required"`
		}{}
		try("A' *string cfg empty required", &t, cfg("p: ''"))
	}
	{
		t := struct {
			P *string `validate:"nonzero"`
		}{P: &es}
		try("A2 *string default empty nonzero", &t, cfg("x: 1"))
	}
	{
		e := []string{}
		t := struct {
			P *[]string `validate:"nonzero"`
		}{P: &e}
		try("B *[]string default empty nonzero", &t, cfg("x: 1"))
	}
	{
		t := struct {
			P *[]string `validate:"nonzero"`
		}{}
		try("B' *[]string cfg empty nonzero", &t, cfg("p: []"))
	}
	{
		t := struct {
			M *map[string]int `validate:"required"`
		}{}
		try("C *map cfg {} required", &t, cfg("m: {}"))
	}
	{
		t := struct {
			M map[string]int `validate:"required"`
		}{}
		try("C' map cfg {} required", &t, cfg("m: {}"))
	}
	{
		t := struct {
			M *map[string]int `validate:"nonzero"`
		}{}
		try("C2 *map cfg {} nonzero", &t, cfg("m: {}"))
	}
	{
		t := struct {
			M map[string]int `validate:"nonzero"`
		}{}
		try("C2' map cfg {} nonzero", &t, cfg("m: {}"))
	}
	{
		t := struct {
			I interface{}
		}{I: &Inner{}}
		try("D iface default *Inner", &t, cfg("x: 1"))
	}
	{
		t := struct {
			I interface{}
		}{I: Inner{}}
		try("D2 iface Inner cfg other", &t, cfg("i: {z: 1}"))
	}
	{
		t := struct {
			M map[string]*Inner
		}{}
		try("G map *Inner null", &t, cfg("m: {a: null}"))
	}
	{
		t := struct {
			M map[string]interface{}
		}{M: map[string]interface{}{"a": Inner{}}}
		try("G2 map iface Inner prefilled, other key", &t, cfg("m: {b: 1}"))
	}
	{
		t := struct {
			A []Inner
		}{A: []Inner{{}, {}}}
		try("G3 map Inner prefilled other key", &struct{ M map[string]Inner }{M: map[string]Inner{"a": {}}}, cfg("m:\n  b:\n    num: 2\n"))
		try("H slice prefilled longer", &t, cfg("a:\n  - num: 2\n"))
	}
	{
		t := struct {
			A []V
		}{}
		try("H2 slice V", &t, cfg("a:\n  - x: 0\n"))
	}
	{
		t := struct {
			A [2]V
		}{}
		try("H3 arr V missing", &t, cfg("z: 1"))
	}
	{
		t := struct {
			D *time.Duration `validate:"nonzero"`
		}{}
		try("J *dur nonzero cfg 0", &t, cfg("d: 0"))
	}
	{
		var d time.Duration
		t := struct {
			D *time.Duration `validate:"nonzero"`
		}{D: &d}
		try("J2 *dur nonzero default 0", &t, cfg("z: 0"))
	}
	{
		t := struct {
			D time.Duration `validate:"min=1s,max=10s"`
		}{}
		try("J3 dur ref", &t, cfg("d: ${x}\nx: 20"))
	}
	{
		t := struct {
			U uint `validate:"min=-1"`
		}{}
		try("K uint min=-1", &t, cfg("u: 3"))
	}
	{
		t := struct {
			F float64 `validate:"positive"`
		}{}
		try("K2 float NaN positive", &t, cfg("f: .nan"))
	}
	{
		t := struct {
			F float64 `validate:"min=1"`
		}{}
		try("K3 float NaN min", &t, cfg("f: .nan"))
	}
	{
		t := struct {
			I interface{} `validate:"min=5"`
		}{}
		try("L iface min=5 cfg 3", &t, cfg("i: 3"))
	}
	{
		t := struct {
			I interface{} `validate:"nonzero"`
		}{}
		try("L2 iface nonzero cfg []", &t, cfg("i: []"))
	}
	{
		t := struct {
			I interface{} `validate:"required"`
		}{}
		try("L3 iface required cfg null", &t, cfg("i: null"))
	}
	{
		t := struct {
			I interface{} `validate:"min=5"`
		}{I: 3}
		try("L4 iface min=5 default 3", &t, cfg("z: 3"))
	}
	{
		t := struct {
			I interface{} `validate:"min=5"`
		}{I: []int{1}}
		try("L5 iface min=5 default slice, cfg [3]", &t, cfg("i: [3]"))
	}
}
