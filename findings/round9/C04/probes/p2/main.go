package main

import (
	"fmt"

	ucfg "github.com/elastic/go-ucfg"
	"github.com/elastic/go-ucfg/yaml"
)

func cfg(s string) *ucfg.Config {
	c, err := yaml.NewConfig([]byte(s), ucfg.PathSep("."), ucfg.VarExp)
	if err != nil {
		panic(err)
	}
	return c
}

type Inner struct {
	N int `config:"num" validate:"min=1"`
}

type U struct {
	N int `config:"num" validate:"min=1"`
}

func (u *U) Unpack(v interface{}) error { return nil }

type In struct {
	M map[string]Inner `config:",inline"`
}

type P struct {
	Q *Inner `config:",inline"`
}

type W struct {
	A []*Inner
}

func try(name string, to interface{}, c *ucfg.Config, opts ...ucfg.Option) {
	err := c.Unpack(to, opts...)
	fmt.Printf("%-40s err=%v  result=%+v\n", name, err, to)
}

func main() {
	try("U unpacker struct present", &struct{ U U }{}, cfg("u:\n  num: 0\n"))
	try("U unpacker struct absent", &struct{ U U }{}, cfg("z: 1"))
	try("U unpacker *struct default absent", &struct{ U *U }{U: &U{}}, cfg("z: 1"))
	try("U slice of unpacker", &struct{ U []U }{}, cfg("u:\n  - num: 0\n"))
	try("inline map prefilled", &In{M: map[string]Inner{"a": {}}}, cfg("b:\n  num: 3\n"))
	try("top map prefilled", &map[string]Inner{"a": {}}, cfg("b:\n  num: 3\n"))
	try("inline nil ptr", &P{}, cfg("z: 3\n"))
	try("slice of ptr with null", &W{}, cfg("a:\n  - null\n  - num: 2\n"))
	try("slice of ptr prefilled nil", &W{A: []*Inner{nil, {}}}, cfg("a:\n  - num: 2\n"))
	// append with invalid old
	try("append old invalid", &struct {
		A []Inner `config:",append"`
	}{A: []Inner{{}}}, cfg("a:\n  - num: 2\n"))
	try("prepend old invalid", &struct {
		A []Inner `config:",prepend"`
	}{A: []Inner{{}}}, cfg("a:\n  - num: 2\n"))
	try("replace old invalid (ok to pass)", &struct {
		A []Inner `config:",replace"`
	}{A: []Inner{{}, {}}}, cfg("a:\n  - num: 2\n"))
	// nested struct absent with required inside
	try("nested absent required", &struct {
		S struct {
			Name string `validate:"required"`
		}
	}{}, cfg("z: 1"))
	// array of struct partially
	try("array [2]Inner cfg 2", &struct{ A [2]Inner }{}, cfg("a:\n  - num: 2\n  - num: 0\n"))
	// map of slices
	try("map of slices prefilled", &struct{ M map[string][]Inner }{}, cfg("m:\n  k:\n    - num: 0\n"))
	// interface holding ptr to struct merging
	try("iface ptr merge", &struct{ I interface{} }{I: &Inner{N: 0}}, cfg("i:\n  other: 1\n"))
	// validator via expansion
	try("expansion", &struct {
		N int `validate:"max=3"`
	}{}, cfg("n: ${v}\nv: 7"))
	try("string expansion empty required", &struct {
		S string `validate:"required"`
	}{}, cfg("s: ${v}\nv: ''"))
	try("uint positive/min", &struct {
		S uint8 `validate:"min=300"`
	}{}, cfg("s: 200"))
	try("named dur type", &struct {
		S []int `validate:"max=3"`
	}{}, cfg("s: [1, 5]"))
}
