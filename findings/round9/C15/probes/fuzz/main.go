package main

import (
	"fmt"
	"math/rand"
	"os"
	"reflect"
	"sort"
	"strings"

	ucfg "github.com/elastic/go-ucfg"
	"github.com/elastic/go-ucfg/diff"
)

var names = []string{"a", "b", "c", "d"}

// random Go value: dict or list or primitive
func genVal(r *rand.Rand, depth int) interface{} {
	k := r.Intn(10)
	if depth <= 0 && k < 6 {
		k = 6 + r.Intn(4)
	}
	switch {
	case k < 3:
		return genMap(r, depth-1)
	case k < 6:
		n := r.Intn(4)
		l := make([]interface{}, n)
		for i := range l {
			l[i] = genVal(r, depth-1)
		}
		return l
	case k == 6:
		return nil
	case k == 7:
		return r.Intn(100)
	case k == 8:
		return fmt.Sprintf("s%d", r.Intn(100))
	default:
		return r.Intn(2) == 0
	}
}

func genMap(r *rand.Rand, depth int) map[string]interface{} {
	m := map[string]interface{}{}
	n := r.Intn(4)
	for i := 0; i < n; i++ {
		m[names[r.Intn(len(names))]] = genVal(r, depth)
	}
	return m
}

type checker struct {
	mixed bool
	errs []string
	keys []string
}

func (ck *checker) walk(c *ucfg.Config, path []string, parent *ucfg.Config) {
	want := strings.Join(path, ".")
	if got := c.Path("."); got != want {
		ck.errs = append(ck.errs, fmt.Sprintf("Path: got %q want %q", got, want))
	}
	if got := c.Parent(); got != parent {
		gp := "<nil>"
		if got != nil {
			gp = got.Path(".")
		}
		ck.errs = append(ck.errs, fmt.Sprintf("Parent of %q: got %p(%s) want %p", want, got, gp, parent))
	}
	if got := c.PathOf("zz", "."); got != strings.Join(append(append([]string{}, path...), "zz"), ".") {
		ck.errs = append(ck.errs, fmt.Sprintf("PathOf: got %q under %q", got, want))
	}
	if c.IsDict() && c.IsArray() {
		fs := c.GetFields()
		n, _ := c.CountField("")
		if len(fs) > 0 && n-len(fs) > 0 {
			ck.mixed = true
		}
	}
	fs := c.GetFields()
	sort.Strings(fs)
	for _, f := range fs {
		sub, err := c.Child(f, -1)
		p := append(append([]string{}, path...), f)
		if err == nil {
			// nil reads as an empty config
			isNull := false
			if s, e := c.String(f, -1); e == nil && s == "null" {
				isNull = true
			}
			if isNull {
				if sub.Path(".") != strings.Join(p, ".") {
					ck.errs = append(ck.errs, fmt.Sprintf("Path(null): got %q want %q", sub.Path("."), strings.Join(p, ".")))
				}
				continue
			}
			ck.walk(sub, p, c)
		} else {
			ck.keys = append(ck.keys, strings.Join(p, "."))
		}
	}
	n, _ := c.CountField("")
	n -= len(fs)
	for i := 0; i < n; i++ {
		sub, err := c.Child("", i)
		p := append(append([]string{}, path...), fmt.Sprint(i))
		if err == nil {
			if s, e := c.String("", i); e == nil && s == "null" {
				if sub.Path(".") != strings.Join(p, ".") {
					ck.errs = append(ck.errs, fmt.Sprintf("Path(null): got %q want %q", sub.Path("."), strings.Join(p, ".")))
				}
				continue
			}
			ck.walk(sub, p, c)
		} else {
			ck.keys = append(ck.keys, strings.Join(p, "."))
		}
	}
}

var abandon bool

func check(c *ucfg.Config, hist []string) bool {
	ck := &checker{}
	ck.walk(c, nil, nil)
	sort.Strings(ck.keys)
	got := c.FlattenedKeys()
	if len(got) == 0 && len(ck.keys) == 0 {
	} else if !reflect.DeepEqual(got, ck.keys) {
		ck.errs = append(ck.errs, fmt.Sprintf("FlattenedKeys: got %v want %v", got, ck.keys))
	}
	d := diff.CompareConfigs(c, c)
	if d.HasChanged() || len(d[diff.Keep]) != len(got) {
		ck.errs = append(ck.errs, fmt.Sprintf("self diff: %v", d))
	}
	if ck.mixed {
		abandon = true
		return true
	}
	if len(ck.errs) > 0 {
		fmt.Println("VIOLATION after history:")
		for _, h := range hist {
			fmt.Println("   ", h)
		}
		for _, e := range ck.errs {
			fmt.Println("  ->", e)
		}
		return false
	}
	return true
}

// collect all sub configs with their path
func collect(c *ucfg.Config, out *[]*ucfg.Config) {
	*out = append(*out, c)
	fs := c.GetFields()
	sort.Strings(fs)
	for _, f := range fs {
		if s, e := c.String(f, -1); e == nil && s == "null" {
			continue
		}
		if sub, err := c.Child(f, -1); err == nil {
			collect(sub, out)
		}
	}
	n, _ := c.CountField("")
	n -= len(fs)
	for i := 0; i < n; i++ {
		if s, e := c.String("", i); e == nil && s == "null" {
			continue
		}
		if sub, err := c.Child("", i); err == nil {
			collect(sub, out)
		}
	}
}

func randPath(r *rand.Rand) string {
	n := 1 + r.Intn(3)
	var p []string
	for i := 0; i < n; i++ {
		if r.Intn(3) == 0 {
			p = append(p, fmt.Sprint(r.Intn(4)))
		} else {
			p = append(p, names[r.Intn(len(names))])
		}
	}
	return strings.Join(p, ".")
}

func main() {
	seeds := 20000
	bad := 0
	nAbandon := 0
	for seed := 0; seed < seeds && bad < 8; seed++ {
		r := rand.New(rand.NewSource(int64(seed)))
		c, err := ucfg.NewFrom(genMap(r, 3))
		if err != nil {
			continue
		}
		var hist []string
		var detached []*ucfg.Config
		ok := true
		abandon = false
		for step := 0; step < 8 && ok && !abandon; step++ {
			var nodes []*ucfg.Config
			collect(c, &nodes)
			target := nodes[r.Intn(len(nodes))]
			tp := target.Path(".")
			switch op := r.Intn(9); op {
			case 0, 1:
				optNames := []string{"none", "append", "prepend", "replace", "replacearr", "pathsep"}
				opts := [][]ucfg.Option{nil, {ucfg.AppendValues}, {ucfg.PrependValues}, {ucfg.ReplaceValues}, {ucfg.ReplaceArrValues}, {ucfg.PathSep(".")}}
				i := r.Intn(len(opts))
				var v interface{}
				if target.IsArray() {
					n := r.Intn(4)
					l := make([]interface{}, n)
					for i := range l {
						l[i] = genVal(r, 2)
					}
					v = l
				} else {
					v = genMap(r, 2)
				}
				err := target.Merge(v, opts[i]...)
				hist = append(hist, fmt.Sprintf("[%s].Merge(%#v, %s) -> %v", tp, v, optNames[i], err))
			case 2:
				p := randPath(r)
				rem, err := target.Remove(p, -1, ucfg.PathSep("."))
				hist = append(hist, fmt.Sprintf("[%s].Remove(%q) -> %v %v", tp, p, rem, err))
			case 3:
				n, _ := target.CountField("")
				if target.IsArray() && n > 0 {
					i := r.Intn(n)
					sub, _ := target.Child("", i)
					rem, err := target.Remove("", i)
					hist = append(hist, fmt.Sprintf("[%s].Remove(idx %d) -> %v %v", tp, i, rem, err))
					if sub != nil && rem {
						detached = append(detached, sub)
					}
				}
			case 4:
				p := randPath(r)
				err := target.SetString(p, -1, "set", ucfg.PathSep("."))
				hist = append(hist, fmt.Sprintf("[%s].SetString(%q) -> %v", tp, p, err))
			case 5:
				if target.IsArray() {
					i := r.Intn(5)
					err := target.SetInt("", i, 7)
					hist = append(hist, fmt.Sprintf("[%s].SetInt(idx %d) -> %v", tp, i, err))
				} else {
					nm := names[r.Intn(len(names))]
					i := r.Intn(4) - 1
					err := target.SetInt(nm, i, 7)
					hist = append(hist, fmt.Sprintf("[%s].SetInt(%q,%d) -> %v", tp, nm, i, err))
				}
			case 6:
				// set a fresh child
				ch, _ := ucfg.NewFrom(genMap(r, 2))
				p := randPath(r)
				err := target.SetChild(p, -1, ch, ucfg.PathSep("."))
				hist = append(hist, fmt.Sprintf("[%s].SetChild(%q, fresh) -> %v", tp, p, err))
			case 7:
				// re-attach a detached child
				if len(detached) > 0 {
					ch := detached[len(detached)-1]
					detached = detached[:len(detached)-1]
					p := randPath(r)
					err := target.SetChild(p, -1, ch, ucfg.PathSep("."))
					hist = append(hist, fmt.Sprintf("[%s].SetChild(%q, detached) -> %v", tp, p, err))
				}
			case 8:
				// merge a subtree of c into c
				src := nodes[r.Intn(len(nodes))]
				nm := names[r.Intn(len(names))]
				if !target.IsArray() {
					err := target.Merge(map[string]interface{}{nm: src})
					hist = append(hist, fmt.Sprintf("[%s].Merge({%s: node[%s]}) -> %v", tp, nm, src.Path("."), err))
				} else {
					err := target.Merge([]interface{}{src}, ucfg.AppendValues)
					hist = append(hist, fmt.Sprintf("[%s].Merge([node[%s]], append) -> %v", tp, src.Path("."), err))
				}
			}
			ok = check(c, hist)
		}
		if os.Getenv("DBG") != "" && seed < 6 {
			fmt.Println("seed", seed, "abandon", abandon)
			for _, h := range hist {
				fmt.Println("   ", h)
			}
			fmt.Println("   keys:", c.FlattenedKeys())
		}
		if abandon {
			nAbandon++
		}
		if !ok {
			bad++
		}
	}
	fmt.Println("bad:", bad, "abandoned:", nAbandon)
	if bad > 0 {
		os.Exit(1)
	}
}
