package main

import (
	"fmt"

	ucfg "github.com/elastic/go-ucfg"
	"github.com/elastic/go-ucfg/diff"
)

func main() {
	// PathOf below a setting named "" that sits directly under the root
	c := ucfg.MustNewFrom(map[string]interface{}{"": map[string]interface{}{"x": 1}})
	var m map[string]*ucfg.Config
	fmt.Println("unpack:", c.Unpack(&m))
	e := m[""]
	fmt.Printf("1. child \"\": Path=%q PathOf(x)=%q FlattenedKeys(root)=%q\n", e.Path("."), e.PathOf("x", "."), c.FlattenedKeys())

	// detached child keeps its old position
	c2 := ucfg.MustNewFrom(map[string]interface{}{"a": map[string]interface{}{"x": 1}, "l": []interface{}{map[string]interface{}{"p": 1}, map[string]interface{}{"q": 1}}})
	a, _ := c2.Child("a", -1)
	c2.Remove("a", -1)
	fmt.Printf("2. removed child: Path=%q Parent==old %v keys=%q\n", a.Path("."), a.Parent() == c2, a.FlattenedKeys())
	d := diff.CompareConfigs(a, ucfg.MustNewFrom(map[string]interface{}{"x": 1}))
	fmt.Printf("   diff(removed child, equal fresh) changed=%v\n", d.HasChanged())
	l1, _ := c2.Child("l", 1)
	c2.Remove("l", 0)
	l0, _ := c2.Child("l", 0)
	fmt.Printf("3. after Remove(l,0): held former l.1 same node %v Path=%q\n", l0 == l1, l1.Path("."))

	// holding a child across a merge: child is replaced by a copy
	c3 := ucfg.MustNewFrom(map[string]interface{}{"a": map[string]interface{}{"x": 1}})
	h, _ := c3.Child("a", -1)
	c3.Merge(map[string]interface{}{"a": map[string]interface{}{"y": 2}})
	n, _ := c3.Child("a", -1)
	fmt.Printf("4. after merge: held==current %v held.keys=%q cur.keys=%q\n", h == n, h.FlattenedKeys(), n.FlattenedKeys())

	// Merge with field handling options that move elements
	c5 := ucfg.MustNewFrom(map[string]interface{}{"l": []interface{}{map[string]interface{}{"p": 1}}, "m": []interface{}{1}})
	c5.Merge(map[string]interface{}{"l": []interface{}{map[string]interface{}{"q": 1}}, "m": []interface{}{2}}, ucfg.PathSep("."), ucfg.FieldPrependValues("l"), ucfg.FieldAppendValues("m"))
	fmt.Printf("5. keys=%q\n", c5.FlattenedKeys())
	x, _ := c5.Child("l", 1)
	fmt.Printf("   l.1 Path=%q\n", x.Path("."))
}
