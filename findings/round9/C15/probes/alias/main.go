package main

import (
	"fmt"

	ucfg "github.com/elastic/go-ucfg"
	"github.com/elastic/go-ucfg/diff"
)

func main() {
	// 1. same child attached twice (no removal in between)
	c := ucfg.MustNewFrom(map[string]interface{}{"a": map[string]interface{}{"x": 1}})
	sub, _ := c.Child("a", -1)
	fmt.Println("1. SetChild b=sub(a):", c.SetChild("b", -1, sub))
	a, _ := c.Child("a", -1)
	b, _ := c.Child("b", -1)
	fmt.Printf("   a.Path=%q b.Path=%q same=%v keys=%v\n", a.Path("."), b.Path("."), a == b, c.FlattenedKeys())

	// 2. child of another config attached: the other tree still holds it
	o := ucfg.MustNewFrom(map[string]interface{}{"k": map[string]interface{}{"x": 1}})
	k, _ := o.Child("k", -1)
	d := ucfg.New()
	d.SetChild("n", -1, k)
	k2, _ := o.Child("k", -1)
	fmt.Printf("2. o.k.Path=%q parent==o %v parent==d %v o.keys=%v d.keys=%v\n", k2.Path("."), k2.Parent() == o, k2.Parent() == d, o.FlattenedKeys(), d.FlattenedKeys())

	// 3. unpack into Config value / pointer
	type T struct {
		A []*ucfg.Config `config:"l"`
		P *ucfg.Config  `config:"a"`
	}
	c3 := ucfg.MustNewFrom(map[string]interface{}{"a": map[string]interface{}{"x": map[string]interface{}{"y": 1}}, "l": []interface{}{map[string]interface{}{"x": map[string]interface{}{"y": 1}}}})
	var t T
	fmt.Println("3. unpack:", c3.Unpack(&t))
	orig, _ := c3.Child("l", 0)
	origA, _ := c3.Child("a", -1)
	x, _ := t.A[0].Child("x", -1)
	fmt.Printf("   t.A[0].Path=%q t.A[0].x.Parent==&t.A[0] %v ==orig %v ; t.P==origA %v\n", t.A[0].Path("."), x.Parent() == t.A[0], x.Parent() == orig, t.P == origA)

	// 4. key holding the separator vs. nested
	c4a := ucfg.MustNewFrom(map[string]interface{}{"a.b": 1})
	c4b := ucfg.MustNewFrom(map[string]interface{}{"a": map[string]interface{}{"b": 1}})
	fmt.Printf("4. keys %v vs %v diff: %v changed=%v\n", c4a.FlattenedKeys(), c4b.FlattenedKeys(), diff.CompareConfigs(c4a, c4b), func() bool { d := diff.CompareConfigs(c4a, c4b); return d.HasChanged() }())

	// 5. custom separator in FlattenedKeys and diff
	fmt.Printf("5. keys sep '/': %v ; sep '' : %v\n", c4b.FlattenedKeys(ucfg.PathSep("/")), c4b.FlattenedKeys(ucfg.PathSep("")))

	// 6. FlattenedKeys on a sub-config: absolute or relative?
	s6, _ := c3.Child("a", -1)
	fmt.Printf("6. sub.FlattenedKeys=%v\n", s6.FlattenedKeys())
	d6 := diff.CompareConfigs(s6, ucfg.MustNewFrom(map[string]interface{}{"x": map[string]interface{}{"y": 1}}))
	fmt.Printf("   diff(sub, equal root) = %v changed=%v\n", d6, d6.HasChanged())

	// 7. struct with tag path and inline
	type In struct {
		Y int `config:"y"`
	}
	type S struct {
		F  int `config:"m.n"`
		G  []In `config:"l"`
		In `config:",inline"`
	}
	c7 := ucfg.MustNewFrom(S{F: 1, G: []In{{1}, {2}}, In: In{3}}, ucfg.PathSep("."))
	fmt.Printf("7. keys=%v\n", c7.FlattenedKeys())
	l1, _ := c7.Child("l", 1)
	fmt.Printf("   l.1 path=%q parent.path=%q\n", l1.Path("."), l1.Parent().Path("."))

	// 8. empty-named settings
	c8 := ucfg.MustNewFrom(map[string]interface{}{"": map[string]interface{}{"x": 1, "": map[string]interface{}{"z": 2}}, "a": map[string]interface{}{"": 3}})
	fmt.Printf("8. keys=%q\n", c8.FlattenedKeys())
	e, _ := c8.Child("", -1)
	fmt.Printf("   child('').err ; ")
	if e != nil {
		fmt.Printf("path=%q parent==root %v\n", e.Path("."), e.Parent() == c8)
	} else {
		fmt.Println("nil")
	}

	// 9. array at the root
	c9 := ucfg.MustNewFrom([]interface{}{map[string]interface{}{"x": 1}, 2, []interface{}{3}})
	fmt.Printf("9. keys=%q\n", c9.FlattenedKeys())
	c9.Remove("", 0)
	fmt.Printf("   after remove 0 keys=%q\n", c9.FlattenedKeys())
	c9.Merge([]interface{}{9, 8}, ucfg.PrependValues)
	fmt.Printf("   after prepend keys=%q\n", c9.FlattenedKeys())
	z, _ := c9.Child("", 3)
	fmt.Printf("   [3].path=%q\n", z.Path("."))

	// 10. Merge of Config by value (rebrand) / a type convertible to Config
	type My ucfg.Config
	m := My(*ucfg.MustNewFrom(map[string]interface{}{"q": []int{1, 2}}))
	c10 := ucfg.MustNewFrom(map[string]interface{}{"w": m, "v": &m})
	fmt.Printf("10. keys=%q\n", c10.FlattenedKeys())
	w, _ := c10.Child("w.q", -1, ucfg.PathSep("."))
	fmt.Printf("   w.q path=%q parent=%q\n", w.Path("."), w.Parent().Path("."))
}
