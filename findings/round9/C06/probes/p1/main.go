package main

import (
	"fmt"
	"math"
	"reflect"
	"regexp"
	"time"

	ucfg "github.com/elastic/go-ucfg"
)

func rt(name string, in interface{}, opts ...ucfg.Option) {
	t := reflect.TypeOf(in)
	c, err := ucfg.NewFrom(in, opts...)
	if err != nil {
		fmt.Printf("%-28s NEWFROM ERR: %v\n", name, err)
		return
	}
	out := reflect.New(t)
	if err := c.Unpack(out.Interface(), opts...); err != nil {
		fmt.Printf("%-28s UNPACK ERR: %v\n", name, err)
		return
	}
	a, b := fmt.Sprintf("%#v", in), fmt.Sprintf("%#v", out.Elem().Interface())
	if !reflect.DeepEqual(in, out.Elem().Interface()) {
		fmt.Printf("%-28s DIFF\n   in : %s\n   out: %s\n", name, a, b)
		return
	}
	fmt.Printf("%-28s ok\n", name)
}

type Inner struct{ X int }
type InlPtr struct {
	In *Inner `config:",inline"`
	Y  int
}
type InlMap struct {
	M map[string]int `config:",inline"`
	Y int
}
type NumTag struct {
	A int    `config:"0"`
	B string `config:"1"`
}
type NumTag1 struct {
	B string `config:"1"`
}
type NumTagMixed struct {
	A int    `config:"0"`
	B string `config:"name"`
}
type PArr struct{ P *[2]int }
type PP struct{ P **int }
type PSl struct{ P *[]int }
type PMap struct{ P *map[string]int }
type Dur struct {
	D  time.Duration
	PD *time.Duration
	DS []time.Duration
	DM map[string]time.Duration
}
type Nums struct {
	I8  int8
	I64 int64
	U64 uint64
	U   uint
	F32 float32
	F64 float64
}
type Dotted struct {
	A int `config:"a.b"`
	B int `config:"a.c"`
	C struct{ D int } `config:"a"`
}
type MS struct{ M map[string]int }
type MSS struct{ M map[string]string }
type Str struct{ S string }
type Rx struct {
	R  *regexp.Regexp
	RV regexp.Regexp
}
type Sl struct {
	S  [][]int
	A  [2][]string
	SA [][2]int
	Z  [0]int
}
type Emb struct {
	Inner
	Z int
}
type EmbInl struct {
	Inner `config:",inline"`
	Z     int
}
type PEmpty struct{ P *struct{} }
type NamedT struct {
	D MyDur
	S MyStr
	B MyBool
}
type MyDur time.Duration
type MyStr string
type MyBool bool
type InlSlice struct {
	L []int `config:",inline"`
}
type MapArr struct{ M map[string][2]int }
type MapPtrStruct struct{ M map[string]*Inner }
type SlPtr struct{ S []*Inner }
type BoolP struct{ B *bool }
type IfaceF struct{ V interface{} }

func main() {
	one := 1
	pone := &one
	tr := true
	d := time.Duration(math.MinInt64)
	rt("inline nil *struct", InlPtr{Y: 1})
	rt("inline *struct", InlPtr{In: &Inner{2}, Y: 1})
	rt("inline nil map", InlMap{Y: 1})
	rt("inline map", InlMap{M: map[string]int{"a": 1}, Y: 1})
	rt("inline map clash", InlMap{M: map[string]int{"y": 3}, Y: 1})
	rt("numtag", NumTag{1, "x"})
	rt("numtag1", NumTag1{"x"})
	rt("numtag mixed", NumTagMixed{1, "x"})
	rt("ptr arr", PArr{&[2]int{1, 2}})
	rt("ptrptr", PP{&pone})
	rt("ptr slice", PSl{&[]int{1}})
	rt("ptr slice empty", PSl{&[]int{}})
	rt("ptr map", PMap{&map[string]int{"a": 1}})
	rt("dur min", Dur{D: d, PD: &d, DS: []time.Duration{d, 0, math.MaxInt64, 1}, DM: map[string]time.Duration{"a": -1}})
	rt("nums", Nums{math.MinInt8, math.MinInt64, math.MaxUint64, math.MaxUint64, math.MaxFloat32, math.SmallestNonzeroFloat64})
	rt("nums2", Nums{math.MaxInt8, math.MaxInt64, math.MaxInt64 + 1, 0, float32(math.Inf(1)), math.Copysign(0, -1)})
	rt("nums inf", Nums{F64: math.Inf(-1)})
	rt("dotted nosep", Dotted{1, 2, struct{ D int }{3}})
	rt("dotted sep", Dotted{1, 2, struct{ D int }{3}}, ucfg.PathSep("."))
	rt("map key 0", MS{map[string]int{"0": 5}})
	rt("map key 1", MS{map[string]int{"1": 5}})
	rt("map key 0,a", MS{map[string]int{"0": 5, "a": 6}})
	rt("map key 007", MS{map[string]int{"007": 5}})
	rt("map key 0x1", MS{map[string]int{"0x1": 5}})
	rt("map key empty", MS{map[string]int{"": 5}})
	rt("map key dot", MS{map[string]int{"a.b": 5, "a": 1}})
	rt("map key dot sep", MS{map[string]int{"a.b": 5}}, ucfg.PathSep("."))
	rt("top map key 0", map[string]int{"0": 5})
	rt("str dollar", Str{"${a} $$ {x} a.b,c ${"})
	rt("str dollar varexp", Str{"${a"}, ucfg.VarExp)
	rt("str dollar varexp2", Str{"a$b"}, ucfg.VarExp)
	rt("str empty", Str{""})
	rt("mss", MSS{map[string]string{"a": ""}})
	rt("rx nil", Rx{})
	rx := regexp.MustCompile("a.*b$")
	c, err := ucfg.NewFrom(Rx{R: rx, RV: *rx})
	fmt.Println("rx newfrom", err)
	var rxo Rx
	err = c.Unpack(&rxo)
	fmt.Println("rx unpack", err, rxo.R, rxo.RV.String())
	rt("slices", Sl{S: [][]int{nil, {1}, {}}, A: [2][]string{{"a"}, nil}, SA: [][2]int{{1, 2}}})
	rt("emb", Emb{Inner{1}, 2})
	rt("emb inline", EmbInl{Inner{1}, 2})
	rt("ptr empty struct", PEmpty{&struct{}{}})
	rt("named", NamedT{MyDur(5), "s", true})
	rt("inline slice", InlSlice{[]int{1, 2}})
	rt("map arr", MapArr{map[string][2]int{"a": {1, 2}}})
	rt("map ptr struct", MapPtrStruct{map[string]*Inner{"a": {1}}})
	rt("slice ptr struct", SlPtr{[]*Inner{{1}, {2}}})
	rt("bool ptr", BoolP{&tr})
	rt("iface int", IfaceF{5})
	rt("iface nil", IfaceF{nil})
	rt("iface str", IfaceF{"x"})
}
