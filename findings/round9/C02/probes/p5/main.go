package main

import (
	"fmt"
	"time"

	ucfg "github.com/elastic/go-ucfg"
	"github.com/elastic/go-ucfg/parse"
)

func main() {
	o := []ucfg.Option{ucfg.VarExp, ucfg.PathSep(".")}
	type M = map[string]interface{}
	c, _ := ucfg.NewFrom(M{"t": 5, "f": 1.5, "s": "2s", "direct": 5, "viaref": "${t}", "viaf": "${f}", "vias": "${s}", "spl": "${t}s", "res": "${r}"}, o...)
	var out struct {
		Direct, Viaref, Viaf, Vias, Spl, Res time.Duration
	}
	r := ucfg.Resolve(func(n string) (string, parse.Config, error) {
		if n == "r" {
			return "7", parse.DefaultConfig, nil
		}
		return "", parse.DefaultConfig, ucfg.ErrMissing
	})
	err := c.Unpack(&out, append(o, r)...)
	fmt.Printf("%+v err=%v\n", out, err)
	for _, n := range []string{"direct", "viaref", "viaf", "vias", "spl", "res"} {
		cc, _ := ucfg.NewFrom(M{"t": 5, "f": 1.5, "s": "2s", "d": func() interface{} { v, _ := map[string]interface{}{"direct": 5, "viaref": "${t}", "viaf": "${f}", "vias": "${s}", "spl": "${t}s", "res": "${r}"}[n]; return v }()}, o...)
		var o2 struct{ D time.Duration }
		err := cc.Unpack(&o2, append(o, r)...)
		fmt.Printf("%s: %v err=%v\n", n, o2.D, err)
	}

	// critical error at intermediate level blocks resolver
	c, _ = ucfg.NewFrom(M{"a": 5, "r": "${a.b.c}", "s": "p${a.b.c}", "t": "${a.b.c:d}"}, o...)
	rr := ucfg.Resolve(func(n string) (string, parse.Config, error) {
		if n == "a.b.c" {
			return "from-resolver", parse.DefaultConfig, nil
		}
		return "", parse.DefaultConfig, ucfg.ErrMissing
	})
	for _, n := range []string{"r", "s", "t"} {
		s, err := c.String(n, -1, append(o, rr)...)
		fmt.Printf("intermediate primitive %s => %q %v\n", n, s, err)
	}
	env, _ := ucfg.NewFrom(M{"a": M{"b": M{"c": "from-env"}}}, o...)
	for _, n := range []string{"r", "s", "t"} {
		s, err := c.String(n, -1, append(o, ucfg.Env(env))...)
		fmt.Printf("intermediate primitive + env %s => %q %v\n", n, s, err)
	}
	// env has primitive in path but root misses: resolver?
	c, _ = ucfg.NewFrom(M{"r": "${a.b.c}"}, o...)
	envp, _ := ucfg.NewFrom(M{"a": 5}, o...)
	s, err := c.String("r", -1, append(o, ucfg.Env(envp), rr)...)
	fmt.Printf("env primitive + resolver => %q %v\n", s, err)
	s, err = c.String("r", -1, append(o, ucfg.Env(env), ucfg.Env(envp))...)
	fmt.Printf("env primitive (last added) + good env => %q %v\n", s, err)
	s, err = c.String("r", -1, append(o, ucfg.Env(envp), ucfg.Env(env))...)
	fmt.Printf("good env (last added) + env primitive => %q %v\n", s, err)
}
