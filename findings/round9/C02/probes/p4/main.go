package main

import (
	"fmt"

	ucfg "github.com/elastic/go-ucfg"
)

func main() {
	o := []ucfg.Option{ucfg.VarExp, ucfg.PathSep(".")}
	type M = map[string]interface{}
	// reference merged over an object: resolved at merge time?
	c1, _ := ucfg.NewFrom(M{"o": M{"k": 1}}, o...)
	c2, _ := ucfg.NewFrom(M{"o": "${p}", "p": M{"j": 2}}, o...)
	fmt.Println("merge:", c1.Merge(c2, o...))
	j, err := c1.Int("o.j", -1, o...)
	fmt.Println("o.j after merge:", j, err)
	fmt.Println("merge2:", c1.Merge(M{"p": M{"j": 3}}, o...))
	j, err = c1.Int("o.j", -1, o...)
	fmt.Println("o.j after p.j=3 (late binding demands 3):", j, err)
	pj, err := c1.Int("p.j", -1, o...)
	fmt.Println("p.j:", pj, err)
	k, err := c1.Int("o.k", -1, o...)
	fmt.Println("o.k:", k, err)

	// the same but p defined later
	c1, _ = ucfg.NewFrom(M{"o": M{"k": 1}}, o...)
	fmt.Println("merge:", c1.Merge(M{"o": "${p}"}, o...))
	fmt.Println("merge:", c1.Merge(M{"p": M{"j": 3}}, o...))
	j, err = c1.Int("o.j", -1, o...)
	fmt.Println("[p later] o.j:", j, err)
	k, err = c1.Int("o.k", -1, o...)
	fmt.Println("[p later] o.k:", k, err)

	// arrays append with refs
	c1, _ = ucfg.NewFrom(M{"x": "X1", "l": []interface{}{"${x}"}}, o...)
	c2, _ = ucfg.NewFrom(M{"x": "X2", "l": []interface{}{"a-${x}", M{"in": "${x}"}}}, o...)
	fmt.Println("merge append:", c1.Merge(c2, append(o, ucfg.AppendValues)...))
	var out struct {
		L []interface{}
	}
	fmt.Println(c1.Unpack(&out, o...), out)
	c1, _ = ucfg.NewFrom(M{"x": "X1", "l": []interface{}{"${x}"}}, o...)
	fmt.Println("merge prepend:", c1.Merge(c2, append(o, ucfg.PrependValues)...))
	fmt.Println(c1.Unpack(&out, o...), out)
	c1, _ = ucfg.NewFrom(M{"x": "X1", "l": []interface{}{"${x}"}}, o...)
	fmt.Println("merge replace:", c1.Merge(c2, append(o, ucfg.ReplaceValues)...))
	out.L = nil
	fmt.Println(c1.Unpack(&out, o...), out)
	c1, _ = ucfg.NewFrom(M{"x": "X1", "l": []interface{}{"${x}"}}, o...)
	fmt.Println("merge default:", c1.Merge(c2, o...))
	out.L = nil
	fmt.Println(c1.Unpack(&out, o...), out)
	// nested arrays
	c1, _ = ucfg.NewFrom(M{"x": "X1", "l": []interface{}{[]interface{}{"${x}", []interface{}{"q${x}"}}}}, o...)
	out.L = nil
	fmt.Println(c1.Unpack(&out, o...), out)
	s, err := c1.String("l.0.1.0", -1, o...)
	fmt.Println(s, err)
}
