package main

import (
	"errors"
	"fmt"

	ucfg "github.com/elastic/go-ucfg"
	"github.com/elastic/go-ucfg/parse"
)

func res(m map[string]string) ucfg.Option {
	return ucfg.Resolve(func(name string) (string, parse.Config, error) {
		if v, ok := m[name]; ok {
			return v, parse.DefaultConfig, nil
		}
		return "", parse.DefaultConfig, ucfg.ErrMissing
	})
}

func mk(m map[string]interface{}, opts ...ucfg.Option) *ucfg.Config {
	c, err := ucfg.NewFrom(m, opts...)
	if err != nil {
		fmt.Println("  NewFrom err:", err)
		return ucfg.New()
	}
	return c
}

func str(label string, c *ucfg.Config, name string, opts ...ucfg.Option) {
	s, err := c.String(name, -1, opts...)
	fmt.Printf("%-40s => %q err=%v\n", label, s, err)
}

func main() {
	o := []ucfg.Option{ucfg.VarExp, ucfg.PathSep(".")}
	w := func(extra ...ucfg.Option) []ucfg.Option { return append(append([]ucfg.Option{}, o...), extra...) }

	// 1. resolver returning "" : sole ref vs splice
	c := mk(map[string]interface{}{"a": "${x}", "b": "p${x}s", "c": "${x:d}", "d": "${x:+alt}", "e": "${x:?boom}"}, o...)
	r := res(map[string]string{"x": ""})
	for _, n := range []string{"a", "b", "c", "d", "e"} {
		str("empty-resolver "+n, c, n, w(r)...)
	}
	// 2. x set to empty string in tree
	c = mk(map[string]interface{}{"x": "", "a": "${x}", "b": "p${x}s", "c": "${x:d}", "d": "${x:+alt}", "e": "${x:?boom}"}, o...)
	for _, n := range []string{"a", "b", "c", "d", "e"} {
		str("empty-tree "+n, c, n, o...)
	}
	// 3. x null in tree
	c = mk(map[string]interface{}{"x": nil, "a": "${x}", "b": "p${x}s", "c": "${x:d}", "d": "${x:+alt}", "e": "${x:?boom}"}, o...)
	for _, n := range []string{"a", "b", "c", "d", "e"} {
		str("null-tree "+n, c, n, o...)
	}
	// 4. missing everywhere, no resolver
	c = mk(map[string]interface{}{"a": "${x}", "b": "p${x}s", "c": "${x:d}", "d": "${x:+alt}", "e": "${x:?boom}"}, o...)
	for _, n := range []string{"a", "b", "c", "d", "e"} {
		str("missing "+n, c, n, o...)
	}
	// 5. same name twice
	c = mk(map[string]interface{}{"x": "v", "a": "${x}${x}", "b": "${x}-${x:d}-${x:+q}"}, o...)
	str("twice a", c, "a", o...)
	str("twice b", c, "b", o...)
	// 6. order: tree, env last-first, resolvers last-first
	e1 := mk(map[string]interface{}{"x": "e1", "y": "e1y"}, o...)
	e2 := mk(map[string]interface{}{"x": "e2"}, o...)
	c = mk(map[string]interface{}{"a": "${x}", "b": "${y}", "c": "${z}", "s": "[${x}${y}${z}]"}, o...)
	r1 := res(map[string]string{"z": "r1", "x": "r1x"})
	r2 := res(map[string]string{"z": "r2"})
	for _, n := range []string{"a", "b", "c", "s"} {
		str("order "+n, c, n, w(ucfg.Env(e1), ucfg.Env(e2), r1, r2)...)
	}
	// 7. escapes
	c = mk(map[string]interface{}{"x": "v", "a": "$${x}", "b": "${x:a$}b}", "c": "$$$${x}", "d": "$", "e": "a$b", "f": "${x:$$}", "g": "$}", "h": "${y:${x}$}}", "i": "$$", "j": "$${${x}}"}, o...)
	for _, n := range []string{"a", "b", "c", "d", "e", "f", "g", "h", "i", "j"} {
		str("escape "+n, c, n, o...)
	}
	// 8. nested
	c = mk(map[string]interface{}{"x": "y", "y": "deep", "a": "${${x}}", "b": "${${z:x}}", "c": "${${q:${z:x}}}", "d": "${q:${z:${x}}}", "e": "${q:?${x} missing}", "f": "${x:+${y}}", "g": "${${q:+x}:none}"}, o...)
	for _, n := range []string{"a", "b", "c", "d", "e", "f", "g"} {
		str("nested "+n, c, n, o...)
	}
	// 9. typed
	c = mk(map[string]interface{}{"n": 42, "f": 1.5, "t": true, "l": []int{1, 2}, "o": map[string]interface{}{"k": 1}, "a": "${n}", "b": "${f}", "c": "${t}", "d": "${l}", "e": "${o}", "s": "${n}${n}"}, o...)
	i, err := c.Int("a", -1, o...)
	fmt.Println("typed int", i, err)
	fl, err := c.Float("b", -1, o...)
	fmt.Println("typed float", fl, err)
	bb, err := c.Bool("c", -1, o...)
	fmt.Println("typed bool", bb, err)
	ch, err := c.Child("e", -1, o...)
	fmt.Println("typed child", ch, err)
	if ch != nil {
		k, err := ch.Int("k", -1, o...)
		fmt.Println("   k", k, err)
	}
	ch, err = c.Child("d", -1, o...)
	fmt.Println("typed child list", ch, err)
	i, err = c.Int("s", -1, o...)
	fmt.Println("typed splice int", i, err)
	var out struct {
		A int
		B float64
		C bool
		D []int
		E map[string]int
		S int
	}
	err = c.Unpack(&out, o...)
	fmt.Printf("unpack %+v %v\n", out, err)

	// 10. late binding
	c = mk(map[string]interface{}{"a": "${x}", "b": "p-${x}"}, o...)
	str("late before a", c, "a", o...)
	c.Merge(map[string]interface{}{"x": "later"}, o...)
	str("late after a", c, "a", o...)
	str("late after b", c, "b", o...)
	c.Merge(map[string]interface{}{"x": "later2"}, o...)
	str("late after2 a", c, "a", o...)
	// merge the referencing into another
	d := mk(map[string]interface{}{"x": "dx"}, o...)
	d.Merge(c, o...)
	str("merged d a", d, "a", o...)
	d.SetString("x", -1, "dx2", o...)
	str("merged d a", d, "a", o...)
	str("orig c a", c, "a", o...)

	// 11. child config read
	c = mk(map[string]interface{}{"top": "T", "sub": map[string]interface{}{"a": "${top}", "b": "${sub.c}", "c": "C", "d": "${c}"}}, o...)
	sub, _ := c.Child("sub", -1, o...)
	str("child a", sub, "a", o...)
	str("child b", sub, "b", o...)
	str("child d (c not at root)", sub, "d", o...)

	// 12. cycle
	c = mk(map[string]interface{}{"a": "${b}", "b": "${a}", "c": "x${c}", "d": "${d:dflt}", "e": "${e:+alt}"}, o...)
	for _, n := range []string{"a", "c", "d", "e"} {
		str("cycle "+n, c, n, o...)
	}
	// 13. failing resolver other than missing
	c = mk(map[string]interface{}{"a": "${x}", "b": "p${x}", "c": "${x:d}"}, o...)
	bad := ucfg.Resolve(func(string) (string, parse.Config, error) { return "", parse.DefaultConfig, errors.New("backend down") })
	for _, n := range []string{"a", "b", "c"} {
		str("badres-last "+n, c, n, w(res(map[string]string{"x": "ok"}), bad)...)
		str("badres-first "+n, c, n, w(bad, res(map[string]string{"x": "ok"}))...)
	}
}
