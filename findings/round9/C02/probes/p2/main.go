package main

import (
	"fmt"

	ucfg "github.com/elastic/go-ucfg"
)

func show(label string, err error) {
	fmt.Printf("%s: err=%v\n", label, err)
	if e, ok := err.(ucfg.Error); ok {
		fmt.Printf("    reason=%v  msg=%q path=%q\n", e.Reason(), e.Message(), e.Path())
	}
}

func main() {
	o := []ucfg.Option{ucfg.VarExp, ucfg.PathSep(".")}
	c, _ := ucfg.NewFrom(map[string]interface{}{"e": "${x:?boom}", "s": "p${x:?boom}", "m": "${x}", "n": "a${x}"}, o...)
	for _, n := range []string{"e", "s", "m", "n"} {
		_, err := c.String(n, -1, o...)
		show("String "+n, err)
		_, err = c.Int(n, -1, o...)
		show("Int "+n, err)
		_, err = c.Bool(n, -1, o...)
		show("Bool "+n, err)
		_, err = c.Child(n, -1, o...)
		show("Child "+n, err)
		var out map[string]interface{}
		cc, _ := ucfg.NewFrom(map[string]interface{}{n: map[string]interface{}{"v": c2(c, n)}}, o...)
		_ = cc
		sub, _ := ucfg.NewFrom(map[string]interface{}{"k": get(n)}, o...)
		err = sub.Unpack(&out, o...)
		show("Unpack map "+n, err)
		var st struct{ K string }
		err = sub.Unpack(&st, o...)
		show("Unpack struct string "+n, err)
		var st2 struct{ K int }
		err = sub.Unpack(&st2, o...)
		show("Unpack struct int "+n, err)
		var st3 struct{ K []string }
		err = sub.Unpack(&st3, o...)
		show("Unpack struct []string "+n, err)
		var st4 struct{ K interface{} }
		err = sub.Unpack(&st4, o...)
		show("Unpack struct iface "+n, err)
		var st5 struct{ K *ucfg.Config }
		err = sub.Unpack(&st5, o...)
		fmt.Printf("   st5=%v\n", st5.K)
		show("Unpack struct *Config "+n, err)
		var st6 struct{ K map[string]interface{} }
		err = sub.Unpack(&st6, o...)
		fmt.Printf("   st6=%v\n", st6.K)
		show("Unpack struct map "+n, err)
	}
}

var src = map[string]string{"e": "${x:?boom}", "s": "p${x:?boom}", "m": "${x}", "n": "a${x}"}

func get(n string) string { return src[n] }
func c2(c *ucfg.Config, n string) string { return "" }
