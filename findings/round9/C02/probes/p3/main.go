package main

import (
	"fmt"

	ucfg "github.com/elastic/go-ucfg"
	"github.com/elastic/go-ucfg/parse"
)

func res(m map[string]string) ucfg.Option {
	return ucfg.Resolve(func(name string) (string, parse.Config, error) {
		if v, ok := m[name]; ok {
			return v, parse.DefaultConfig, nil
		}
		return "", parse.DefaultConfig, ucfg.ErrMissing
	})
}

func mk(m map[string]interface{}, opts ...ucfg.Option) *ucfg.Config {
	c, err := ucfg.NewFrom(m, opts...)
	if err != nil {
		fmt.Println("  NewFrom err:", err)
		return ucfg.New()
	}
	return c
}

func str(label string, c *ucfg.Config, name string, opts ...ucfg.Option) {
	s, err := c.String(name, -1, opts...)
	fmt.Printf("%-40s => %q err=%v\n", label, s, err)
}

func main() {
	o := []ucfg.Option{ucfg.VarExp, ucfg.PathSep(".")}
	w := func(extra ...ucfg.Option) []ucfg.Option { return append(append([]ucfg.Option{}, o...), extra...) }

	// A. re-parse of spliced text
	c := mk(map[string]interface{}{"n": 10, "x": "T", "v": "1.0", "sp": " pad ",
		"a": "0${n}", "b": "${q:on}", "c": "${q:010}", "d": "${q:1.0}", "e": "v${v}", "f": "${v}0", "g": "${sp}|", "h": "|${sp}", "i": "${sp}${sp}", "j": "'${x}'", "k": "${x}, ${x}", "l": "${q:a,b}", "m": "${q:null}", "nn": "${q:0x1F}", "oo": "${q:T}", "p": "${q: spaced }", "q2": "${n}e2", "r": "${q:{a: 1}}", "s": "${q:[1]}", "t": "+${n}", "u": "${q:\"quoted\"}"}, o...)
	for _, n := range []string{"a", "b", "c", "d", "e", "f", "g", "h", "i", "j", "k", "l", "m", "nn", "oo", "p", "q2", "r", "s", "t", "u"} {
		str("reparse "+n, c, n, o...)
	}
	var st struct {
		B, C, D, M, OO string
	}
	err := c.Unpack(&st, o...)
	fmt.Printf("unpack strings %+v err=%v\n", st, err)

	// B. Env(child)
	envRoot := mk(map[string]interface{}{"x": "root-x", "sub": map[string]interface{}{"x": "sub-x", "y": "sub-y"}}, o...)
	envSub, _ := envRoot.Child("sub", -1, o...)
	c = mk(map[string]interface{}{"a": "${x}", "b": "${y}", "c": "${sub.y}"}, o...)
	for _, n := range []string{"a", "b", "c"} {
		str("Env(child) "+n, c, n, w(ucfg.Env(envSub))...)
	}

	// C. critical error in tree blocks resolvers / env order
	c = mk(map[string]interface{}{"a": 5, "r": "${a.b}", "s": "p${a.b}", "t": "${a.b:d}", "u": "${a.b:+alt}"}, o...)
	rr := res(map[string]string{"a.b": "from-resolver"})
	for _, n := range []string{"r", "s", "t", "u"} {
		str("prim-in-path+resolver "+n, c, n, w(rr)...)
	}
	env := mk(map[string]interface{}{"a": map[string]interface{}{"b": "from-env"}}, o...)
	for _, n := range []string{"r", "s", "t", "u"} {
		str("prim-in-path+env "+n, c, n, w(ucfg.Env(env))...)
	}
	c = mk(map[string]interface{}{"r": "${a.b}", "s": "p${a.b}"}, o...)
	envp := mk(map[string]interface{}{"a": 5}, o...)
	for _, n := range []string{"r", "s"} {
		str("env-prim-in-path+resolver "+n, c, n, w(ucfg.Env(envp), rr)...)
		str("env-prim(last)+env ok "+n, c, n, w(ucfg.Env(env), ucfg.Env(envp))...)
		str("env ok (last) +env-prim "+n, c, n, w(ucfg.Env(envp), ucfg.Env(env))...)
	}

	// D. arrays
	c = mk(map[string]interface{}{"x": "v", "l": []interface{}{"${x}", "${x}", "a${x}", "${l.0}"}, "m": "${l.2}", "oob": "${l.9}", "oobd": "${l.9:d}"}, o...)
	var sa struct {
		L []string
		M string
	}
	err = c.Unpack(&sa, o...)
	fmt.Printf("arrays %+v err=%v\n", sa, err)
	str("oob", c, "oob", o...)
	str("oobd", c, "oobd", o...)
	s, err := c.String("l", 3, o...)
	fmt.Println("l[3]", s, err)

	// E. chain & repeated
	c = mk(map[string]interface{}{"a": "${b}", "b": "${c}", "c": "end", "s": "${a} ${b} ${c} ${a}"}, o...)
	str("chain s", c, "s", o...)
	var se struct{ A, B, C, S string }
	err = c.Unpack(&se, o...)
	fmt.Printf("chain unpack %+v err=%v\n", se, err)
	var mm map[string]interface{}
	err = c.Unpack(&mm, o...)
	fmt.Printf("chain unpack map %+v err=%v\n", mm, err)

	// F. unpacked *Config child
	c = mk(map[string]interface{}{"top": "T", "sub": map[string]interface{}{"a": "${top}", "b": "x-${top}"}}, o...)
	var sc struct{ Sub *ucfg.Config }
	err = c.Unpack(&sc, o...)
	fmt.Println("unpack *Config", err)
	str("unpacked child a", sc.Sub, "a", o...)
	str("unpacked child b", sc.Sub, "b", o...)
	c.SetString("top", -1, "T2", o...)
	str("unpacked child a after set", sc.Sub, "a", o...)
	var sd struct{ Sub struct{ A, B string } }
	err = c.Unpack(&sd, o...)
	fmt.Printf("unpack nested %+v %v\n", sd, err)

	// G. typed via env / resolver / alt
	c = mk(map[string]interface{}{"a": "${n}", "b": "${m}", "c": "${o}", "d": "${n:+yes}", "e": "${m:+yes}", "f": "${zz:+yes}"}, o...)
	env = mk(map[string]interface{}{"n": 7, "o": map[string]interface{}{"k": "${n}"}}, o...)
	rr = res(map[string]string{"m": "8"})
	i, err := c.Int("a", -1, w(ucfg.Env(env), rr)...)
	fmt.Println("env int", i, err)
	i, err = c.Int("b", -1, w(ucfg.Env(env), rr)...)
	fmt.Println("resolver int", i, err)
	ch, err := c.Child("c", -1, w(ucfg.Env(env), rr)...)
	fmt.Println("env child", err)
	if ch != nil {
		i, err = ch.Int("k", -1, w(ucfg.Env(env), rr)...)
		fmt.Println("env child k (ref inside env, with env)", i, err)
		i, err = ch.Int("k", -1, o...)
		fmt.Println("env child k (ref inside env, no env)", i, err)
	}
	for _, n := range []string{"d", "e", "f"} {
		str("alt "+n, c, n, w(ucfg.Env(env), rr)...)
	}
}
