package main

import (
	"fmt"

	ucfg "github.com/elastic/go-ucfg"
)

func main() {
	o := []ucfg.Option{ucfg.VarExp, ucfg.PathSep(".")}
	type M = map[string]interface{}
	// a struct field addressed through an unresolvable reference
	c, _ := ucfg.NewFrom(M{"a": "${nowhere}"}, o...)
	var out struct {
		B int    `config:"a.b"`
		S string `config:"a.s"`
	}
	out.B = -1
	err := c.Unpack(&out, o...)
	fmt.Printf("unpack through unresolvable ref: %+v err=%v\n", out, err)
	_, err = c.Int("a.b", -1, o...)
	fmt.Println("getter:", err)

	// a nested struct target for an unresolvable reference
	var out2 struct {
		A struct{ B int }
	}
	err = c.Unpack(&out2, o...)
	fmt.Printf("nested struct: %+v err=%v\n", out2, err)
	var out3 struct {
		A *struct{ B int }
	}
	err = c.Unpack(&out3, o...)
	fmt.Printf("nested *struct: %+v err=%v\n", out3, err)

	// top-level escapes
	c, _ = ucfg.NewFrom(M{"x": "v", "a": "a$$b", "b": "a$}b", "c": "5$$", "d": "${x}$$", "e": "$$$$"}, o...)
	for _, n := range []string{"a", "b", "c", "d", "e"} {
		s, err := c.String(n, -1, o...)
		fmt.Printf("escape %s => %q %v\n", n, s, err)
	}
}
