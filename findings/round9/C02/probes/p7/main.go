package main

import (
	"fmt"

	ucfg "github.com/elastic/go-ucfg"
)

func main() {
	for _, s := range []string{"${", "${a:", "${}", "${:d}", "${a", "x${a:${b}", "${a$"} {
		_, err := ucfg.NewFrom(map[string]interface{}{"k": s}, ucfg.VarExp, ucfg.PathSep("."))
		fmt.Printf("%q -> %v\n", s, err)
	}
}
