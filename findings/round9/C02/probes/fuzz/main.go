package main

import (
	"errors"
	"fmt"
	"math/rand"
	"os"
	"strings"

	ucfg "github.com/elastic/go-ucfg"
	"github.com/elastic/go-ucfg/parse"
)

// model
type node interface {
	render(inVar bool, right bool) string
	eval(w *world) (string, error)
}

type lit string // raw logical text
type ref struct{ name []node }
type op struct {
	kind        string // ":", ":+", ":?"
	name, right []node
}

type world struct {
	layers []map[string]string // in lookup order
}

func (w *world) lookup(n string) (string, bool) {
	for _, l := range w.layers {
		if v, ok := l[n]; ok {
			return v, true
		}
	}
	return "", false
}

func (l lit) render(inVar, right bool) string {
	var b strings.Builder
	for _, c := range string(l) {
		switch c {
		case '$':
			b.WriteString("$$")
		case '}':
			if inVar {
				b.WriteString("$}")
			} else {
				b.WriteString("}")
			}
		default:
			b.WriteRune(c)
		}
	}
	return b.String()
}
func (l lit) eval(*world) (string, error) { return string(l), nil }

func renderAll(ns []node, inVar, right bool) string {
	var b strings.Builder
	for _, n := range ns {
		b.WriteString(n.render(inVar, right))
	}
	return b.String()
}
func evalAll(ns []node, w *world) (string, error) {
	var b strings.Builder
	for _, n := range ns {
		s, err := n.eval(w)
		if err != nil {
			return "", err
		}
		b.WriteString(s)
	}
	return b.String(), nil
}

func (r ref) render(bool, bool) string { return "${" + renderAll(r.name, true, false) + "}" }
func (r ref) eval(w *world) (string, error) {
	n, err := evalAll(r.name, w)
	if err != nil {
		return "", err
	}
	v, ok := w.lookup(n)
	if !ok {
		return "", errors.New("unresolved " + n)
	}
	return v, nil
}

func (o op) render(bool, bool) string {
	return "${" + renderAll(o.name, true, false) + o.kind + renderAll(o.right, true, true) + "}"
}
func (o op) eval(w *world) (string, error) {
	n, nerr := evalAll(o.name, w)
	var v string
	var set bool
	if nerr == nil && n != "" {
		v, set = w.lookup(n)
	}
	switch o.kind {
	case ":":
		if set && v != "" {
			return v, nil
		}
		return evalAll(o.right, w)
	case ":+":
		if set {
			return evalAll(o.right, w)
		}
		return "", nil
	default:
		if set && v != "" {
			return v, nil
		}
		m, err := evalAll(o.right, w)
		if err != nil {
			return "", err
		}
		return "", errors.New("MSG:" + m)
	}
}

var names = []string{"ka", "kb", "kc", "kd", "ke", "kf", "pa", "pb", "un", "em"}

func genLit(r *rand.Rand, inVarLeft, right bool) lit {
	alpha := "xyz"
	n := 1 + r.Intn(3)
	var b strings.Builder
	for i := 0; i < n; i++ {
		k := r.Intn(10)
		switch {
		case k == 0 && !inVarLeft:
			b.WriteByte('$')
		case k == 1 && !inVarLeft:
			b.WriteByte('}')
		case k == 2 && right:
			b.WriteByte(':')
		default:
			b.WriteByte(alpha[r.Intn(3)])
		}
	}
	return lit(b.String())
}

func genName(r *rand.Rand, depth int) []node {
	if depth <= 0 || r.Intn(3) > 0 {
		return []node{lit(names[r.Intn(len(names))])}
	}
	// computed name: pa -> "ka", pb -> "kb"; or "k" + ${sfx}
	switch r.Intn(3) {
	case 0:
		return []node{ref{[]node{lit([]string{"pa", "pb", "un"}[r.Intn(3)])}}}
	case 1:
		return []node{lit("k"), ref{[]node{lit([]string{"sa", "sb"}[r.Intn(2)])}}}
	default:
		return []node{op{":", genName(r, depth-1), []node{lit(names[r.Intn(len(names))])}}}
	}
}

func genPieces(r *rand.Rand, depth int, inVar bool) []node {
	n := 1 + r.Intn(3)
	if inVar {
		n = r.Intn(3)
	}
	var out []node
	lastLit := false
	for i := 0; i < n; i++ {
		if depth > 0 && r.Intn(2) == 0 {
			out = append(out, genExpr(r, depth-1))
			lastLit = false
		} else if !lastLit {
			out = append(out, genLit(r, false, inVar))
			lastLit = true
		}
	}
	return out
}

func genExpr(r *rand.Rand, depth int) node {
	switch r.Intn(4) {
	case 0:
		return ref{genName(r, depth)}
	case 1:
		return op{":", genName(r, depth), genPieces(r, depth, true)}
	case 2:
		return op{":+", genName(r, depth), genPieces(r, depth, true)}
	default:
		return op{":?", genName(r, depth), genPieces(r, depth, true)}
	}
}

func main() {
	seed := int64(1)
	r := rand.New(rand.NewSource(seed))
	o := []ucfg.Option{ucfg.VarExp, ucfg.PathSep(".")}
	bad := 0
	for it := 0; it < 30000 && bad < 25; it++ {
		// distribute names over layers
		vals := map[string]string{"ka": "Va", "kb": "Vb", "kc": "Vc", "kd": "Vd", "ke": "Ve", "kf": "Vf", "pa": "ka", "pb": "kb", "em": "", "sa": "a", "sb": "b"}
		root := map[string]string{}
		env1 := map[string]string{}
		env2 := map[string]string{}
		res1 := map[string]string{}
		res2 := map[string]string{}
		layers := []map[string]string{root, env2, env1, res2, res1}
		for k, v := range vals {
			// put in 1..2 layers, with decoy values in later layers
			first := r.Intn(5)
			if v == "" && first >= 3 {
				first = r.Intn(3) // resolver "" is treated as unset; keep em in configs
			}
			layers[first][k] = v
			if r.Intn(2) == 0 {
				second := r.Intn(5)
				if second > first {
					layers[second][k] = "DECOY"
				}
			}
		}
		w := &world{layers}
		pieces := genPieces(r, 3, false)
		text := renderAll(pieces, false, false)
		want, werr := evalAll(pieces, w)

		toI := func(m map[string]string) map[string]interface{} {
			out := map[string]interface{}{}
			for k, v := range m {
				out[k] = v
			}
			return out
		}
		rootI := toI(root)
		rootI["target"] = text
		c, err := ucfg.NewFrom(rootI, o...)
		if err != nil {
			fmt.Printf("PARSE FAIL text=%q err=%v\n", text, err)
			bad++
			continue
		}
		e1, _ := ucfg.NewFrom(toI(env1), o...)
		e2, _ := ucfg.NewFrom(toI(env2), o...)
		mkres := func(m map[string]string) ucfg.Option {
			return ucfg.Resolve(func(name string) (string, parse.Config, error) {
				if v, ok := m[name]; ok {
					return v, parse.NoopConfig, nil
				}
				return "", parse.NoopConfig, ucfg.ErrMissing
			})
		}
		opts := append(append([]ucfg.Option{}, o...), ucfg.Env(e1), ucfg.Env(e2), mkres(res1), mkres(res2))
		got, gerr := c.String("target", -1, opts...)
		if it < 12 { fmt.Printf("sample %q -> %q / %v  (got %q / %v)\n", text, want, werr, got, gerr) }
		mismatch := false
		if (werr == nil) != (gerr == nil) {
			mismatch = true
		} else if werr == nil && got != want {
			// top-level result is re-parsed: trimmed
			if strings.TrimSpace(want) != got {
				mismatch = true
			}
		} else if werr != nil && strings.HasPrefix(werr.Error(), "MSG:") {
			if ue, ok := gerr.(ucfg.Error); !ok || ue.Reason().Error() != strings.TrimPrefix(werr.Error(), "MSG:") {
				mismatch = true
			}
		}
		if mismatch {
			bad++
			fmt.Printf("MISMATCH text=%q\n   want=%q werr=%v\n   got=%q gerr=%v", text, want, werr, got, gerr)
			if ue, ok := gerr.(ucfg.Error); ok {
				fmt.Printf(" reason=%v", ue.Reason())
			}
			fmt.Printf("\n   layers=%v\n", layers)
		}
	}
	fmt.Println("mismatches:", bad)
	if bad > 0 {
		os.Exit(1)
	}
}
