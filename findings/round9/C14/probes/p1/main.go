package main

import (
	"fmt"
	"strings"

	ucfg "github.com/elastic/go-ucfg"
	"github.com/elastic/go-ucfg/parse"
)

var src = ucfg.MetaData(ucfg.Meta{Source: "file.yml"})

func check(name string, err error, wantPath string, wantSrc bool) {
	if err == nil {
		fmt.Printf("[%s] no error\n", name)
		return
	}
	e, ok := err.(ucfg.Error)
	status := "ok"
	if !ok {
		status = "NOT ucfg.Error"
	} else {
		if e.Reason() == nil || e.Class() == nil {
			status = "NIL reason/class"
		}
	}
	msg := err.Error()
	if i := strings.Index(msg, "\nTrace"); i >= 0 {
		msg = msg[:i] + " <trace>"
	}
	if wantPath != "" && !strings.Contains(msg, "'"+wantPath+"'") {
		status += " PATH-MISSING(" + wantPath + ")"
	}
	if wantSrc && !strings.Contains(msg, "file.yml") {
		status += " SOURCE-MISSING"
	}
	fmt.Printf("[%s] %s :: %s\n", name, status, msg)
}

func main() {
	opts := []ucfg.Option{src, ucfg.PathSep("."), ucfg.VarExp}

	// 1 splice parse error nested
	_, err := ucfg.NewFrom(map[string]interface{}{"a": map[string]interface{}{"b": "${x"}}, opts...)
	check("splice-parse nested map", err, "a.b", true)
	_, err = ucfg.NewFrom(map[string]interface{}{"a": []interface{}{map[string]interface{}{"b": "${x"}}}, opts...)
	check("splice-parse nested list/map", err, "a.0.b", true)
	_, err = ucfg.NewFrom(map[string]interface{}{"a": []interface{}{"ok", "${x"}}, opts...)
	check("splice-parse nested list", err, "a.1", true)

	// 2 duplicate key nested
	_, err = ucfg.NewFrom(map[string]interface{}{"a": map[string]interface{}{"b.c": 1, "b": map[string]interface{}{"c": 2}}}, opts...)
	check("dup key nested", err, "a.b.c", true)

	// 3 unsupported type nested
	_, err = ucfg.NewFrom(map[string]interface{}{"a": map[string]interface{}{"b": make(chan int)}}, opts...)
	check("unsupported nested", err, "a.b", true)

	// 4 unresolvable ref at depth
	c, _ := ucfg.NewFrom(map[string]interface{}{"a": map[string]interface{}{"b": "${nope}", "l": []interface{}{1, "x${nope}y"}}}, opts...)
	var t4 struct {
		A struct {
			B string
		}
	}
	check("unresolved ref", c.Unpack(&t4, opts...), "a.b", true)
	var t4b struct {
		A struct {
			L []string
		}
	}
	check("unresolved splice in list", c.Unpack(&t4b, opts...), "a.l.1", true)
	var t4c map[string]interface{}
	check("unresolved ref into interface{}", c.Unpack(&t4c, opts...), "a.b", true)
	var t4d struct {
		A map[string]interface{}
	}
	check("unresolved ref into struct/map iface", c.Unpack(&t4d, opts...), "a.b", true)
	var t4e struct {
		A interface{}
	}
	check("unresolved ref into struct iface", c.Unpack(&t4e, opts...), "a.b", true)

	// 6 ref of wrong type
	c, _ = ucfg.NewFrom(map[string]interface{}{"a": map[string]interface{}{"b": "${c}"}, "c": "str"}, opts...)
	var t6 struct {
		A struct{ B int }
	}
	check("ref wrong type", c.Unpack(&t6, opts...), "a.b", true)

	// 8 resolver returning object
	c, _ = ucfg.NewFrom(map[string]interface{}{"a": map[string]interface{}{"b": "${env}"}}, opts...)
	res := ucfg.Resolve(func(k string) (string, parse.Config, error) {
		if k == "env" {
			return "{x: str, y: [1, z]}", parse.DefaultConfig, nil
		}
		return "", parse.DefaultConfig, ucfg.ErrMissing
	})
	var t8 struct {
		A struct {
			B struct {
				X int
			}
		}
	}
	check("resolver obj field", c.Unpack(&t8, append(opts, res)...), "a.b.x", true)
	var t8b struct {
		A struct {
			B struct {
				Y []int
			}
		}
	}
	check("resolver obj list", c.Unpack(&t8b, append(opts, res)...), "a.b.y.1", true)
	var t8c struct {
		A struct {
			B int
		}
	}
	check("resolver obj to int", c.Unpack(&t8c, append(opts, res)...), "a.b", true)

	// resolver with parse error
	res2 := ucfg.Resolve(func(k string) (string, parse.Config, error) {
		return "{x: ", parse.DefaultConfig, nil
	})
	check("resolver parse err", c.Unpack(&t8c, append(opts, res2)...), "a.b", true)
	_, err = c.Int("a.b", -1, append(opts, res2)...)
	check("getter resolver parse err", err, "a.b", true)
	_, err = c.Child("a.b", -1, append(opts, res2)...)
	check("Child resolver parse err", err, "a.b", true)
	_, err = c.Child("a.b.x", -1, append(opts, res2)...)
	check("Child below resolver parse err", err, "a.b", true)
	_, err = c.Int("a.b.x", -1, opts...)
	check("Int below unresolved", err, "a.b", true)
	_, err = c.CountField("a.b", opts...)
	check("CountField unresolved", err, "a.b", true)
	_, err = c.Has("a.b.x", -1, opts...)
	check("Has below unresolved", err, "a.b", true)
	_, err = c.Remove("a.b.x", -1, opts...)
	check("Remove below unresolved", err, "a.b", true)

	// 10 arrays
	c, _ = ucfg.NewFrom(map[string]interface{}{"m": map[string]interface{}{"k": []interface{}{map[string]interface{}{"arr": []int{1, 2, 3}, "p": "x"}}}}, opts...)
	var t10 struct {
		M map[string][]struct {
			Arr [2]int
		}
	}
	check("array size", c.Unpack(&t10, opts...), "m.k.0.arr", true)
	var t10b struct {
		M map[string][]*struct {
			P *int
		}
	}
	check("ptr int conv", c.Unpack(&t10b, opts...), "m.k.0.p", true)
	var t10c struct {
		M map[string][]*struct {
			P []uint8
		}
	}
	check("prim as list conv", c.Unpack(&t10c, opts...), "m.k.0.p", true)
	var t10d struct {
		M map[string][]*struct {
			P map[string]int
		}
	}
	check("expected object", c.Unpack(&t10d, opts...), "m.k.0.p", true)
	var t10e struct {
		M map[string][]*struct {
			Arr []bool
		}
	}
	check("list elem conv", c.Unpack(&t10e, opts...), "m.k.0.arr.0", true)
	var t10f struct {
		M map[string]struct {
			X int
		}
	}
	check("list where struct", c.Unpack(&t10f, opts...), "", true)
	var t10g struct {
		M []int
	}
	check("obj where list", c.Unpack(&t10g, opts...), "m", true)
	var t10h struct {
		M struct {
			K [][]int
		}
	}
	check("obj where list2", c.Unpack(&t10h, opts...), "m.k.0", true)
}
