package main

import (
	"errors"
	"fmt"
	"regexp"
	"strings"
	"time"

	ucfg "github.com/elastic/go-ucfg"
	"github.com/elastic/go-ucfg/parse"
)

var src = ucfg.MetaData(ucfg.Meta{Source: "file.yml"})

func check(name string, err error, wantPath string, wantSrc string) {
	if err == nil {
		fmt.Printf("[%s] no error\n", name)
		return
	}
	e, ok := err.(ucfg.Error)
	status := "ok"
	if !ok {
		status = "NOT ucfg.Error"
	} else {
		if e.Reason() == nil || e.Class() == nil {
			status = "NIL reason/class"
		}
	}
	msg := err.Error()
	if i := strings.Index(msg, "\nTrace"); i >= 0 {
		msg = msg[:i] + " <trace>"
	}
	if wantPath != "" && !strings.Contains(msg, "'"+wantPath+"'") {
		status += " PATH-MISSING(" + wantPath + ")"
	}
	if wantSrc != "" && !strings.Contains(msg, "source:'"+wantSrc+"'") {
		status += " SOURCE-MISSING"
	}
	fmt.Printf("[%s] %s :: %s\n", name, status, msg)
}

type M = map[string]interface{}
type L = []interface{}

type val struct{ N int }

func (v *val) Validate() error {
	if v.N < 0 {
		return errors.New("neg N")
	}
	return nil
}

type upk struct{ s string }

func (u *upk) Unpack(v interface{}) error {
	return nil
}

type supk struct{ s string }

func (u *supk) Unpack(s string) error {
	if s == "bad" {
		return errors.New("bad string")
	}
	return nil
}

type Inl struct {
	Q int `validate:"min=5"`
	R val
}

func main() {
	load := []ucfg.Option{src, ucfg.PathSep("."), ucfg.VarExp}
	un := []ucfg.Option{ucfg.PathSep("."), ucfg.VarExp}

	// resolver object, unpack without meta
	c, _ := ucfg.NewFrom(M{"a": M{"b": "${env}"}}, load...)
	res := ucfg.Resolve(func(k string) (string, parse.Config, error) {
		if k == "env" {
			return "{x: str, y: [1, z]}", parse.DefaultConfig, nil
		}
		return "", parse.DefaultConfig, ucfg.ErrMissing
	})
	var t8 struct{ A struct{ B struct{ X int } } }
	check("resolver obj field", c.Unpack(&t8, append(un, res)...), "a.b.x", "file.yml")
	var t8b struct{ A struct{ B struct{ Y []int } } }
	check("resolver obj list", c.Unpack(&t8b, append(un, res)...), "a.b.y.1", "file.yml")

	// splice producing list
	c, _ = ucfg.NewFrom(M{"a": M{"b": "${x},zz", "x": "1"}}, load...)
	var t9 struct{ A struct{ B []int } }
	check("splice list elem", c.Unpack(&t9, un...), "a.b.1", "file.yml")

	// validators at depth
	c, _ = ucfg.NewFrom(M{"l": L{M{"v": M{"n": -1}, "q": 7}, M{"q": 1}}, "mp": M{"k": M{"n": -2}}, "pp": M{"n": -3},
		"d": "xx", "re": "(", "u": -5, "i8": 300, "f32": 1e300, "q": 9, "r": M{"n": -9}}, load...)
	var v1 struct{ L []struct{ V val } }
	check("Validate in list struct", c.Unpack(&v1, un...), "l.0.v", "file.yml")
	var v2 struct {
		L []struct {
			Q int `validate:"min=5"`
		}
	}
	check("min in list struct", c.Unpack(&v2, un...), "l.1.q", "file.yml")
	var v3 struct{ Mp map[string]*val }
	check("Validate in map ptr", c.Unpack(&v3, un...), "mp.k", "file.yml")
	var v4 struct{ Pp **val }
	check("Validate ptrptr", c.Unpack(&v4, un...), "pp", "file.yml")
	var v5 struct {
		L []struct {
			Z string `validate:"required"`
		}
	}
	check("required missing in list struct", c.Unpack(&v5, un...), "l.0.z", "file.yml")
	var v6 struct {
		L []struct {
			Z *struct {
				W string `validate:"required"`
			} `validate:"required"`
		}
	}
	check("required ptr missing in list struct", c.Unpack(&v6, un...), "l.0.z", "file.yml")
	var v7 struct {
		L []struct {
			Z struct {
				W string `validate:"required"`
			}
		}
	}
	check("required nested missing", c.Unpack(&v7, un...), "l.0.z.w", "file.yml")
	var v8 struct {
		Inl `config:",inline"`
	}
	check("inline min", c.Unpack(&v8, un...), "q", "file.yml")
	var v8b struct {
		X struct {
			Inl `config:",inline"`
		} `config:"l.1"`
	}
	check("inline min nested", c.Unpack(&v8b, un...), "l.1.q", "file.yml")
	var v8c struct {
		In struct {
			R val
		} `config:",inline"`
	}
	check("inline Validate", c.Unpack(&v8c, un...), "r", "file.yml")

	var d1 struct{ D time.Duration }
	check("duration", c.Unpack(&d1, un...), "d", "file.yml")
	var d2 struct{ Re *regexp.Regexp }
	check("regexp", c.Unpack(&d2, un...), "re", "file.yml")
	var d3 struct{ U uint }
	check("neg uint", c.Unpack(&d3, un...), "u", "file.yml")
	var d4 struct{ I8 int8 }
	check("i8", c.Unpack(&d4, un...), "i8", "file.yml")
	var d5 struct{ F32 float32 }
	check("f32", c.Unpack(&d5, un...), "f32", "file.yml")
	var d6 struct{ D *ucfg.Config }
	check("config from prim", c.Unpack(&d6, un...), "d", "file.yml")
	var d7 struct{ D supk }
	c.SetString("d", -1, "bad")
	check("string unpacker", c.Unpack(&d7, un...), "d", "")
	var d8 struct{ L []struct{ Q supk } }
	check("string unpacker from int? ", c.Unpack(&d8, un...), "", "file.yml")

	// sub config via Child then unpack
	sub, err := c.Child("l", 1, un...)
	check("child", err, "", "")
	var s1 struct {
		Q int `validate:"min=5"`
	}
	check("child unpack min", sub.Unpack(&s1, un...), "l.1.q", "file.yml")
	_, err = sub.Bool("q", -1)
	check("child getter", err, "l.1.q", "file.yml")
	_, err = sub.Bool("zz", -1)
	check("child getter missing", err, "l.1.zz", "file.yml")

	// merge from two sources
	a, _ := ucfg.NewFrom(M{"x": M{"p": 1, "l": L{1, 2}}}, ucfg.MetaData(ucfg.Meta{Source: "A"}), ucfg.PathSep("."))
	b, _ := ucfg.NewFrom(M{"x": M{"q": "s", "l": L{5, 6, "t"}}}, ucfg.MetaData(ucfg.Meta{Source: "B"}), ucfg.PathSep("."))
	check("merge", a.Merge(b), "", "")
	var m1 struct{ X struct{ Q int } }
	check("merged q", a.Unpack(&m1), "x.q", "B")
	var m2 struct{ X struct{ L []int } }
	check("merged l.2", a.Unpack(&m2), "x.l.2", "B")
	var m3 struct{ X struct{ P bool } }
	check("merged p", a.Unpack(&m3), "x.p", "A")
	for _, o := range []ucfg.Option{ucfg.AppendValues, ucfg.PrependValues, ucfg.ReplaceValues} {
		a, _ = ucfg.NewFrom(M{"x": M{"p": 1, "l": L{1, 2}}}, ucfg.MetaData(ucfg.Meta{Source: "A"}), ucfg.PathSep("."))
		check("merge", a.Merge(b, o), "", "")
		var m2 struct{ X struct{ L []int } }
		err := a.Unpack(&m2)
		fmt.Println("   ", err)
	}

	// merge struct into config w/ SetChild etc
	r := ucfg.New()
	ch, _ := ucfg.NewFrom(M{"k": "str"}, ucfg.MetaData(ucfg.Meta{Source: "CH"}))
	check("setchild", r.SetChild("a.b", 2, ch, ucfg.PathSep(".")), "", "")
	var sc struct{ A struct{ B []struct{ K int } } }
	check("setchild unpack", r.Unpack(&sc, ucfg.PathSep(".")), "a.b.2.k", "CH")
	_, err = r.Int("a.b.1.k", -1, ucfg.PathSep("."))
	check("getter through nil pad", err, "a.b.1.k", "")
	_, err = r.Int("a.b.7.k", -1, ucfg.PathSep("."))
	check("getter idx missing", err, "a.b.7", "")
	_, err = r.Int("a.b", 7, ucfg.PathSep("."))
	check("getter idx missing2", err, "a.b.7", "")
	_, err = r.Int("a.b.2.k.z", -1, ucfg.PathSep("."))
	check("getter through prim", err, "a.b.2.k", "CH")
	_, err = r.Int("a.b.2.k", 3, ucfg.PathSep("."))
	check("getter idx on prim", err, "a.b.2.k", "CH")
	err = r.SetInt("a.b.2.k.z", -1, 3, ucfg.PathSep("."))
	check("setter through prim", err, "a.b.2.k", "CH")
}
