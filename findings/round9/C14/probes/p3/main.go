package main

import (
	"errors"
	"fmt"
	"strings"

	ucfg "github.com/elastic/go-ucfg"
	"github.com/elastic/go-ucfg/flag"
	"github.com/elastic/go-ucfg/yaml"
	"github.com/elastic/go-ucfg/json"
	"github.com/elastic/go-ucfg/hjson"
	"github.com/elastic/go-ucfg/cfgutil"
	goflag "flag"
)

var src = ucfg.MetaData(ucfg.Meta{Source: "file.yml"})

func check(name string, err error, wantPath string, wantSrc string) {
	if err == nil {
		fmt.Printf("[%s] no error\n", name)
		return
	}
	e, ok := err.(ucfg.Error)
	status := "ok"
	if !ok {
		status = "NOT ucfg.Error"
	} else {
		if e.Reason() == nil || e.Class() == nil {
			status = "NIL reason/class"
		}
	}
	msg := err.Error()
	if i := strings.Index(msg, "\nTrace"); i >= 0 {
		msg = msg[:i] + " <trace>"
	}
	if wantPath != "" && !strings.Contains(msg, "'"+wantPath+"'") {
		status += " PATH-MISSING(" + wantPath + ")"
	}
	if wantSrc != "" && !strings.Contains(msg, "source:'"+wantSrc+"'") {
		status += " SOURCE-MISSING"
	}
	fmt.Printf("[%s] %s :: %s\n", name, status, msg)
}

type M = map[string]interface{}
type L = []interface{}

type iupk struct{}

func (u *iupk) Unpack(v interface{}) error { return nil }

type cupk struct{}

func (u *cupk) Unpack(c *ucfg.Config) error {
	var t struct{ N int }
	return c.Unpack(&t)
}

type eupk struct{}

func (u *eupk) Unpack(c *ucfg.Config) error {
	return errors.New("plain")
}

func main() {
	load := []ucfg.Option{src, ucfg.PathSep("."), ucfg.VarExp}
	un := []ucfg.Option{ucfg.PathSep("."), ucfg.VarExp}

	c, _ := ucfg.NewFrom(M{"a": M{"b": "${a.x},zz", "x": "1", "c": "${a.x},${nope}"}}, load...)
	var t9 struct{ A struct{ B []int } }
	check("splice list elem", c.Unpack(&t9, un...), "a.b.1", "file.yml")
	var t9b struct{ A struct{ C []int } }
	check("splice unresolved", c.Unpack(&t9b, un...), "a.c", "file.yml")

	// reference to subtree with fault
	c, _ = ucfg.NewFrom(M{"a": M{"b": "${t}"}, "t": M{"n": "str", "r": "${nope}"}}, load...)
	var r1 struct{ A struct{ B struct{ N int } } }
	check("ref to subtree", c.Unpack(&r1, un...), "", "file.yml")
	var r2 struct{ A struct{ B struct{ R int } } }
	check("ref to subtree, inner unresolved", c.Unpack(&r2, un...), "t.r", "file.yml")
	var r3 struct{ A struct{ B iupk } }
	check("ref to subtree, Unpacker iface", c.Unpack(&r3, un...), "t.r", "file.yml")
	var r3b struct{ T iupk }
	check("Unpacker iface inner unresolved", c.Unpack(&r3b, un...), "t.r", "file.yml")
	var r4 struct{ T cupk }
	check("ConfigUnpacker inner", c.Unpack(&r4, un...), "t.n", "file.yml")
	var r5 struct{ T eupk }
	check("ConfigUnpacker plain err", c.Unpack(&r5, un...), "t", "file.yml")

	// Env
	env, _ := ucfg.NewFrom(M{"e": M{"v": "str", "o": M{"k": "str"}}}, ucfg.MetaData(ucfg.Meta{Source: "ENV"}), ucfg.PathSep("."))
	c, _ = ucfg.NewFrom(M{"a": M{"b": "${e.v}", "o": "${e.o}", "z": "${e.zz}"}}, load...)
	var e1 struct{ A struct{ B int } }
	check("env ref conv", c.Unpack(&e1, append(un, ucfg.Env(env))...), "a.b", "file.yml")
	var e2 struct{ A struct{ O struct{ K int } } }
	check("env ref subtree conv", c.Unpack(&e2, append(un, ucfg.Env(env))...), "", "")
	var e3 struct{ A struct{ Z int } }
	check("env ref missing", c.Unpack(&e3, append(un, ucfg.Env(env))...), "a.z", "file.yml")

	// cyclic
	c, _ = ucfg.NewFrom(M{"a": M{"b": "${a.c}", "c": "${a.b}"}}, load...)
	var cy struct{ A struct{ B int } }
	check("cyclic", c.Unpack(&cy, un...), "a.b", "file.yml")
	_, err := c.Int("a.b", -1, un...)
	check("cyclic getter", err, "a.b", "file.yml")
	_, err = c.String("a.b", -1, un...)
	check("cyclic getter string", err, "a.b", "file.yml")

	// NoParse
	c, _ = ucfg.NewFrom(M{"a": M{"b": "${x}"}, "x": "1"}, load...)
	_, err = c.Remove("a.b.c", -1, un...)
	check("remove", err, "a.b", "file.yml")

	// parsers
	_, err = yaml.NewConfig([]byte("a: [1, 2"), load...)
	check("yaml syntax", err, "", "")
	_, err = json.NewConfig([]byte("{"), load...)
	check("json syntax", err, "", "")
	_, err = hjson.NewConfig([]byte("{a: [}"), load...)
	check("hjson syntax", err, "", "")
	_, err = yaml.NewConfig([]byte("42"), load...)
	check("yaml scalar", err, "", "file.yml")
	_, err = yaml.NewConfig([]byte("a:\n  1: x\n  b: ${"), load...)
	check("yaml int key", err, "a", "file.yml")
	_, err = yaml.NewConfigWithFile("/nonexistent.yml")
	check("yaml no file", err, "", "")

	// flag
	fv := flag.NewFlagKeyValue(nil, true, load...)
	fmt.Println("flag set err:", fv.Set("a.b=${x"))
	check("flag value err", fv.Error(), "a.b", "")
	fv = flag.NewFlagKeyValue(nil, true, load...)
	fmt.Println("flag set err:", fv.Set("a.b=1"), fv.Set("a.b.c=2"), fv.Set("a=1"))
	check("flag value err2", fv.Error(), "", "")
	var fl struct{ A struct{ B bool } }
	check("flag unpack", fv.Config().Unpack(&fl, un...), "", "")
	fv = flag.NewFlagKeyValue(nil, false, load...)
	fmt.Println("flag set err:", fv.Set("a"))
	check("flag empty", fv.Error(), "", "")
	fv = flag.NewFlagKeyValue(nil, false, load...)
	fmt.Println("flag set err:", fv.Set("a='x"))
	check("flag parse", fv.Error(), "", "")
	_ = goflag.ErrHelp

	ffv := flag.NewFlagFiles(nil, map[string]flag.FileLoader{".yml": yaml.NewConfigWithFile}, load...)
	fmt.Println("files set err:", ffv.Set("x.toml"))
	check("flag files no loader", ffv.Error(), "", "")
	ffv = flag.NewFlagFiles(nil, map[string]flag.FileLoader{".yml": yaml.NewConfigWithFile}, load...)
	fmt.Println("files set err:", ffv.Set("/nonexist.yml"))
	check("flag files nonexist", ffv.Error(), "", "")

	col := cfgutil.NewCollector(nil, load...)
	check("collector", col.Add(ucfg.NewFrom(42)), "", "")
}
