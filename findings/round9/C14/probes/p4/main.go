package main

import (
	"errors"
	"fmt"

	ucfg "github.com/elastic/go-ucfg"
)

type M = map[string]interface{}
type L = []interface{}

type val struct{ N int }

func (v val) Validate() error {
	if v.N < 0 {
		return errors.New("neg N")
	}
	return nil
}

func show(name string, err error) {
	if err == nil {
		fmt.Printf("[%s] no error\n", name)
		return
	}
	e, ok := err.(ucfg.Error)
	fmt.Printf("[%s] typed=%v path=%q :: %v\n", name, ok, func() string { if ok {return e.Path()}; return "" }(), e.Message())
}

func main() {
	load := []ucfg.Option{ucfg.MetaData(ucfg.Meta{Source: "file.yml"}), ucfg.PathSep("."), ucfg.VarExp}
	un := []ucfg.Option{ucfg.PathSep("."), ucfg.VarExp}

	c, _ := ucfg.NewFrom(M{"a": M{"l": L{M{"n": 1}}, "w": L{L{1, 2}, L{3, "x"}}, "ww": L{L{1, 2}, L{3}}}}, load...)
	t1 := struct{ A struct{ L []val } }{}
	t1.A.L = []val{{1}, {2}, {-3}}
	show("prefilled beyond list", c.Unpack(&t1, un...))

	var t2 struct{ A struct{ W [][]int } }
	show("list in list", c.Unpack(&t2, un...))
	var t3 struct{ A struct{ Ww [][2]int } }
	show("array in list", c.Unpack(&t3, un...))
	var t4 struct {
		A struct {
			Ww [][]int `validate:"min=1"`
			L  []val   `validate:"required"`
			Z  []int   `validate:"required"`
		}
	}
	show("required missing list", c.Unpack(&t4, un...))

	// Path()/Error accessor
	var t5 struct{ A struct{ L []struct{ N bool } } }
	show("conv path accessor", c.Unpack(&t5, un...))
	var t6 struct{ A struct{ L map[string]int } }
	show("expected obj path accessor", c.Unpack(&t6, un...))
	var t7 struct {
		A struct {
			L []struct {
				N int `validate:"min=5"`
			}
		}
	}
	show("validation path accessor", c.Unpack(&t7, un...))

	// escaped path / key with dot when no PathSep at load
	c, _ = ucfg.NewFrom(M{"a.b": M{"c": "x"}}, ucfg.MetaData(ucfg.Meta{Source: "file.yml"}))
	var t8 struct {
		AB struct{ C int } `config:"a.b"`
	}
	show("dotted key", c.Unpack(&t8))
	// different PathSep
	c, _ = ucfg.NewFrom(M{"a/b": M{"c": "x"}}, ucfg.MetaData(ucfg.Meta{Source: "file.yml"}), ucfg.PathSep("/"))
	var t9 struct {
		A struct{ B struct{ C int } }
	}
	show("slash sep", c.Unpack(&t9, ucfg.PathSep("/")))
	_, err := c.Int("a/b/c", -1, ucfg.PathSep("/"))
	show("slash sep getter", err)
	_, err = c.Int("a/b/zz", -1, ucfg.PathSep("/"))
	show("slash sep getter missing", err)
}
