package main

import (
	"fmt"

	ucfg "github.com/elastic/go-ucfg"
)

func main() {
	sep := ucfg.PathSep(".")
	// 1. child handle stale after merge
	{
		c := ucfg.New()
		c.SetInt("a.x", -1, 1, sep)
		ch, _ := c.Child("a", -1, sep)
		err := c.Merge(map[string]interface{}{"a": map[string]interface{}{"y": 2}}, sep)
		fmt.Println("merge err", err)
		y, err := ch.Int("y", -1)
		fmt.Println("child sees y:", y, err)
		ch.SetInt("z", -1, 3)
		z, err := c.Int("a.z", -1, sep)
		fmt.Println("parent sees a.z:", z, err)
		ch2, _ := c.Child("a", -1, sep)
		fmt.Println("same handle:", ch == ch2)
	}
	// 2. child of nil padding
	{
		c := ucfg.New()
		c.SetInt("a", 2, 1, sep)
		ch, err := c.Child("a", 0, sep)
		fmt.Println("child of nil:", ch != nil, err)
		if ch != nil {
			ch.SetInt("q", -1, 7)
			q, err := c.Int("a.0.q", -1, sep)
			fmt.Println("parent sees a.0.q:", q, err)
			fmt.Println("path", ch.Path("."))
		}
		h, err := c.Has("a", 0, sep)
		fmt.Println("has a.0", h, err)
		n, err := c.CountField("a.0", sep)
		fmt.Println("count a.0", n, err)
	}
	// 3. aliasing via SetChild twice
	{
		c := ucfg.New()
		k := ucfg.New()
		k.SetInt("v", -1, 1)
		fmt.Println(c.SetChild("a", -1, k), c.SetChild("b", -1, k))
		c.SetInt("a.v", -1, 9, sep)
		v, _ := c.Int("b.v", -1, sep)
		fmt.Println("b.v after writing a.v:", v, "path of k:", k.Path("."))
	}
	// 4. number spellings
	{
		c := ucfg.New()
		for _, n := range []string{"0x2", "1_0", "+3", "-0", "007", "08", "0b1"} {
			err := c.SetString(n, -1, n)
			fmt.Println("set", n, err)
		}
		fmt.Println(c.FlattenedKeys(), c.GetFields())
		n, _ := c.CountField("")
		fmt.Println("count", n)
	}
	// 5. idx with primitive
	{
		c := ucfg.New()
		c.SetInt("a", -1, 5, sep)
		v, err := c.Int("a", 0, sep)
		fmt.Println("a[0]", v, err)
		v, err = c.Int("a.0.0.0", -1, sep)
		fmt.Println("a.0.0.0", v, err)
		h, err := c.Has("a.0.0", -1, sep)
		fmt.Println("has a.0.0", h, err)
		ok, err := c.Remove("a", 0, sep)
		fmt.Println("remove a[0]", ok, err)
		ok, err = c.Remove("a.0.0", -1, sep)
		fmt.Println("remove a.0.0", ok, err)
		err = c.SetInt("a", 0, 6, sep)
		fmt.Println("set a[0]", err)
		err = c.SetInt("a", 1, 6, sep)
		fmt.Println("set a[1]", err)
	}
}
