package main

import (
	"fmt"
	"math/rand"
	"os"
	"sort"
	"strconv"
	"strings"

	ucfg "github.com/elastic/go-ucfg"
)

// ---- model ----
type node struct {
	kind int // 0 nil, 1 int, 2 sub
	i    int64
	d    map[string]*node
	a    []*node
	hasD bool
	hasA bool
}

type fld struct {
	named bool
	name  string
	idx   int
}

func parse(name string, idx int, sep bool) []fld {
	var fs []fld
	if name != "" {
		parts := []string{name}
		if sep {
			parts = strings.Split(name, ".")
		}
		for _, p := range parts {
			if n, err := strconv.ParseInt(p, 0, 64); err == nil && n >= 0 {
				fs = append(fs, fld{idx: int(n)})
			} else {
				fs = append(fs, fld{named: true, name: p})
			}
		}
		if idx >= 0 {
			fs = append(fs, fld{idx: idx})
		}
		return fs
	}
	return []fld{{idx: idx}}
}

var errMissing = fmt.Errorf("missing")
var errType = fmt.Errorf("type")

func (f fld) get(cur *node) (*node, error) {
	if f.named {
		if cur.kind == 1 {
			return nil, errType
		}
		if cur.kind == 0 {
			return nil, nil
		}
		return cur.d[f.name], nil
	}
	if cur.kind == 1 {
		if f.idx == 0 {
			return cur, nil
		}
		return nil, errType
	}
	if cur.kind == 0 || f.idx < 0 || f.idx >= len(cur.a) {
		return nil, errMissing
	}
	return cur.a[f.idx], nil
}

func (f fld) set(cur *node, v *node) error {
	if cur.kind != 2 {
		return errType
	}
	if f.named {
		if cur.d == nil {
			cur.d = map[string]*node{}
		}
		cur.hasD = true
		cur.d[f.name] = v
		return nil
	}
	if f.idx < 0 {
		return errType
	}
	for len(cur.a) <= f.idx {
		cur.a = append(cur.a, &node{})
	}
	cur.hasA = true
	cur.a[f.idx] = v
	return nil
}

func mget(root *node, fs []fld) (*node, error) {
	cur := root
	for ; len(fs) > 1; fs = fs[1:] {
		n, err := fs[0].get(cur)
		if err != nil {
			return nil, err
		}
		if n == nil {
			return nil, errMissing
		}
		cur = n
	}
	n, err := fs[0].get(cur)
	if err != nil {
		return nil, errMissing
	}
	if n == nil {
		return nil, errMissing
	}
	return n, nil
}

func mhas(root *node, fs []fld) (bool, error) {
	cur := root
	for ; len(fs) > 0; fs = fs[1:] {
		n, err := fs[0].get(cur)
		if err != nil {
			if err == errMissing {
				return false, nil
			}
			return false, err
		}
		if n == nil {
			return false, nil
		}
		cur = n
	}
	return true, nil
}

func mset(root *node, fs []fld, v *node) error {
	cur := root
	for ; len(fs) > 1; fs = fs[1:] {
		n, err := fs[0].get(cur)
		if err != nil {
			if err == errMissing {
				break
			}
			return err
		}
		if n == nil || n.kind == 0 {
			break
		}
		cur = n
	}
	for ; len(fs) > 1; fs = fs[:len(fs)-1] {
		n := &node{kind: 2}
		if err := fs[len(fs)-1].set(n, v); err != nil {
			return err
		}
		v = n
	}
	return fs[0].set(cur, v)
}

func mremove(root *node, fs []fld) (bool, error) {
	cur := root
	for ; len(fs) > 1; fs = fs[1:] {
		n, err := fs[0].get(cur)
		if err != nil {
			if err == errMissing {
				return false, nil
			}
			return false, err
		}
		if n == nil {
			return false, nil
		}
		cur = n
	}
	if cur.kind == 1 {
		return false, errType
	}
	if cur.kind == 0 {
		return false, nil
	}
	f := fs[0]
	if f.named {
		if _, ok := cur.d[f.name]; ok {
			delete(cur.d, f.name)
			return true, nil
		}
		return false, nil
	}
	if f.idx < 0 || f.idx >= len(cur.a) {
		return false, nil
	}
	cur.a = append(cur.a[:f.idx:f.idx], cur.a[f.idx+1:]...)
	return true, nil
}

// dump both to canonical strings
func mdump(n *node, p string, out *[]string) {
	switch n.kind {
	case 0:
		*out = append(*out, p+"=nil")
	case 1:
		*out = append(*out, fmt.Sprintf("%s=%d", p, n.i))
	case 2:
		*out = append(*out, fmt.Sprintf("%s:{D%v A%v n%d}", p, n.hasD, n.hasA, len(n.a)+len(n.d)))
		for k, v := range n.d {
			mdump(v, p+"/"+k, out)
		}
		for i, v := range n.a {
			mdump(v, p+"/#"+strconv.Itoa(i), out)
		}
	}
}

func cdump(c *ucfg.Config, p string, out *[]string) {
	cnt, _ := c.CountField("")
	*out = append(*out, fmt.Sprintf("%s:{D%v A%v n%d}", p, c.IsDict(), c.IsArray(), cnt))
	for _, k := range c.GetFields() {
		cval(c, k, p+"/"+k, out, func(opts ...ucfg.Option) (*ucfg.Config, error) { return childByName(c, k) },
			func() (int64, error) { return intByName(c, k) }, func() (string, error) { return strByName(c, k) })
	}
	// count array entries
	for i := 0; ; i++ {
		ok, err := c.Has("", i)
		if err != nil || !ok {
			break
		}
		i := i
		cval(c, "", p+"/#"+strconv.Itoa(i), out, func(opts ...ucfg.Option) (*ucfg.Config, error) { return c.Child("", i) },
			func() (int64, error) { return c.Int("", i) }, func() (string, error) { return c.String("", i) })
	}
}

// named access without number parsing trouble: names in this fuzz are never numeric at GetFields level
func childByName(c *ucfg.Config, k string) (*ucfg.Config, error) { return c.Child(k, -1) }
func intByName(c *ucfg.Config, k string) (int64, error)          { return c.Int(k, -1) }
func strByName(c *ucfg.Config, k string) (string, error)         { return c.String(k, -1) }

func cval(c *ucfg.Config, k, p string, out *[]string, child func(...ucfg.Option) (*ucfg.Config, error), in func() (int64, error), str func() (string, error)) {
	if s, err := str(); err == nil && s == "null" {
		if _, err := in(); err != nil {
			*out = append(*out, p+"=nil")
			return
		}
	}
	if v, err := in(); err == nil {
		*out = append(*out, fmt.Sprintf("%s=%d", p, v))
		return
	}
	ch, err := child()
	if err != nil {
		*out = append(*out, p+"=ERR "+err.Error())
		return
	}
	cdump(ch, p, out)
}

var names = []string{"a", "b", "a.b", "a.0", "a.1", "a.b.c", "a.0.b", "a.2.b", "b.a", "0", "1", "0.a", "1.0", "a.b.0", "b.0.0", ""}

func main() {
	seed := int64(1)
	if len(os.Args) > 1 {
		seed, _ = strconv.ParseInt(os.Args[1], 10, 64)
	}
	iters := 3000
	for it := 0; it < iters; it++ {
		r := rand.New(rand.NewSource(seed*100000 + int64(it)))
		root := ucfg.New()
		mroot := &node{kind: 2}
		type handle struct {
			c *ucfg.Config
			m *node
		}
		hs := []handle{{root, mroot}}
		var log []string
		for step := 0; step < 12; step++ {
			h := hs[r.Intn(len(hs))]
			name := names[r.Intn(len(names))]
			idx := r.Intn(4) - 1
			if name == "" && idx < 0 {
				idx = 0
			}
			sep := r.Intn(3) > 0
			var opts []ucfg.Option
			if sep {
				opts = append(opts, ucfg.PathSep("."))
			}
			fs := parse(name, idx, sep)
			op := r.Intn(6)
			desc := ""
			switch op {
			case 0, 1:
				v := int64(r.Intn(100))
				desc = fmt.Sprintf("h%p SetInt(%q,%d,%d,sep=%v)", h.c, name, idx, v, sep)
				e1 := h.c.SetInt(name, idx, v, opts...)
				e2 := mset(h.m, fs, &node{kind: 1, i: v})
				if (e1 == nil) != (e2 == nil) {
					fail(seed, it, log, desc, fmt.Sprintf("err mismatch: %v vs %v", e1, e2))
				}
			case 2:
				desc = fmt.Sprintf("h%p Remove(%q,%d,sep=%v)", h.c, name, idx, sep)
				ok1, e1 := h.c.Remove(name, idx, opts...)
				ok2, e2 := mremove(h.m, fs)
				if (e1 == nil) != (e2 == nil) || ok1 != ok2 {
					fail(seed, it, log, desc, fmt.Sprintf("mismatch: %v %v vs %v %v", ok1, e1, ok2, e2))
				}
			case 3:
				desc = fmt.Sprintf("h%p Child(%q,%d,sep=%v)", h.c, name, idx, sep)
				c1, e1 := h.c.Child(name, idx, opts...)
				n2, e2 := mget(h.m, fs)
				if e2 == nil && n2.kind == 1 {
					e2 = errType
				}
				if (e1 == nil) != (e2 == nil) {
					fail(seed, it, log, desc, fmt.Sprintf("err mismatch: %v vs %v", e1, e2))
				}
				if e1 == nil && n2.kind == 2 {
					hs = append(hs, handle{c1, n2})
				}
			case 4:
				nc := ucfg.New()
				nm := &node{kind: 2}
				if r.Intn(2) == 0 {
					nc.SetInt("k", -1, 5)
					mset(nm, parse("k", -1, false), &node{kind: 1, i: 5})
				}
				desc = fmt.Sprintf("h%p SetChild(%q,%d,new %p,sep=%v)", h.c, name, idx, nc, sep)
				e1 := h.c.SetChild(name, idx, nc, opts...)
				e2 := mset(h.m, fs, nm)
				if (e1 == nil) != (e2 == nil) {
					fail(seed, it, log, desc, fmt.Sprintf("err mismatch: %v vs %v", e1, e2))
				}
				if e1 == nil {
					hs = append(hs, handle{nc, nm})
				}
			case 5:
				desc = fmt.Sprintf("h%p Has(%q,%d,sep=%v)", h.c, name, idx, sep)
				ok1, e1 := h.c.Has(name, idx, opts...)
				ok2, e2 := mhas(h.m, fs)
				if (e1 == nil) != (e2 == nil) || ok1 != ok2 {
					fail(seed, it, log, desc, fmt.Sprintf("mismatch: %v %v vs %v %v", ok1, e1, ok2, e2))
				}
				// getter agreement
				_, e3 := h.c.Int(name, idx, opts...)
				n4, e4 := mget(h.m, fs)
				if e4 == nil && n4.kind != 1 {
					e4 = errType
				}
				if (e3 == nil) != (e4 == nil) {
					fail(seed, it, log, desc, fmt.Sprintf("Int mismatch: %v vs %v", e3, e4))
				}
				c5, e5 := h.c.CountField(name, opts...)
				if name != "" {
					n6, e6 := mget(h.m, parse(name, -1, sep))
					want := -1
					if e6 == nil {
						switch n6.kind {
						case 0:
							want = 0
						case 1:
							want = 1
						case 2:
							want = 1
							if n6.hasA {
								want = len(n6.a)
							}
						}
					}
					if (e5 == nil) != (e6 == nil) || c5 != want {
						fail(seed, it, log, desc, fmt.Sprintf("CountField mismatch: %v %v vs %v %v", c5, e5, want, e6))
					}
				}
			}
			log = append(log, desc)
			var d1, d2 []string
			cdump(root, "", &d1)
			mdump(mroot, "", &d2)
			sort.Strings(d1)
			sort.Strings(d2)
			if strings.Join(d1, "\n") != strings.Join(d2, "\n") {
				fail(seed, it, log, "", "STATE MISMATCH\nlib:\n"+strings.Join(d1, "\n")+"\nmodel:\n"+strings.Join(d2, "\n"))
			}
		}
	}
	fmt.Println("ok")
}

func fail(seed int64, it int, log []string, desc, msg string) {
	fmt.Printf("seed %d it %d\n%s\n>> %s\n%s\n", seed, it, strings.Join(log, "\n"), desc, msg)
	os.Exit(1)
}
