package main

import (
	"fmt"

	ucfg "github.com/elastic/go-ucfg"
)

func dump(c *ucfg.Config) interface{} {
	var m interface{}
	var mm map[string]interface{}
	if err := c.Unpack(&mm); err != nil {
		return err
	}
	m = mm
	return m
}

func main() {
	sep := ucfg.PathSep(".")
	{
		c := ucfg.New()
		c.SetInt("a", 0, 7, sep)
		c.SetInt("a", 1, 8, sep)
		err := c.Merge(map[string]interface{}{"a.1": 5}, sep)
		fmt.Println("merge a.1 over [7,8]:", err, dump(c))
		v, err := c.Int("a", 0, sep)
		fmt.Println("a.0 =", v, err)
	}
	{
		c := ucfg.New()
		c.SetInt("a.0.x", -1, 7, sep)
		c.SetInt("a", 1, 8, sep)
		err := c.Merge(map[string]interface{}{"a.1": 5}, sep)
		fmt.Println("merge a.1 over [{x:7},8]:", err, dump(c))
	}
	{
		c := ucfg.New()
		c.SetInt("a", -1, 7, sep)
		err := c.Merge(map[string]interface{}{"a": nil}, sep)
		fmt.Println("merge a:nil over a=7:", err, dump(c))
		h, _ := c.Has("a", -1)
		fmt.Println("has a", h)
	}
	{
		c := ucfg.New()
		c.SetInt("a.x", -1, 7, sep)
		err := c.Merge(map[string]interface{}{"a": nil}, sep)
		fmt.Println("merge a:nil over a={x:7}:", err, dump(c))
	}
	{
		// list handles after prepend
		c := ucfg.New()
		c.SetInt("l.0.x", -1, 1, sep)
		ch, _ := c.Child("l", 0, sep)
		err := c.Merge(map[string]interface{}{"l": []interface{}{map[string]interface{}{"y": 2}}}, sep, ucfg.AppendValues)
		fmt.Println(err, dump(c))
		ch.SetInt("z", -1, 3)
		fmt.Println("after append, write through handle:", dump(c))
		err = c.Merge(map[string]interface{}{"l": []interface{}{map[string]interface{}{"y": 2}}}, sep, ucfg.PrependValues)
		ch.SetInt("w", -1, 4)
		fmt.Println("after prepend, write through handle:", err, dump(c), ch.Path("."))
	}
	{
		// merge a Config by pointer: is the source affected by later writes?
		src := ucfg.New()
		src.SetInt("s.x", -1, 1, sep)
		c := ucfg.New()
		c.Merge(src)
		c.SetInt("s.x", -1, 2, sep)
		v, _ := src.Int("s.x", -1, sep)
		fmt.Println("src s.x after write to dest:", v)
		sch, _ := src.Child("s", -1)
		fmt.Println("src child path:", sch.Path("."), sch.Parent() == src)
	}
	{
		// merge handle into own parent
		c := ucfg.New()
		c.SetInt("a.x", -1, 1, sep)
		ch, _ := c.Child("a", -1)
		err := c.Merge(ch)
		fmt.Println(err, dump(c))
		err = ch.Merge(c)
		fmt.Println(err, dump(c))
	}
	{
		// replace values
		c := ucfg.New()
		c.SetInt("a.x", -1, 1, sep)
		c.SetInt("b", -1, 1, sep)
		err := c.Merge(map[string]interface{}{"a": map[string]interface{}{"y": 2}}, sep, ucfg.ReplaceValues)
		fmt.Println("replace:", err, dump(c))
	}
	{
		// Merge slice on root
		c := ucfg.New()
		c.SetInt("", 0, 1)
		c.SetInt("", 1, 2)
		c.SetInt("k", -1, 3)
		err := c.Merge([]int{9})
		fmt.Println("root arr:", err, dump(c), c.IsArray(), c.IsDict())
		n, _ := c.CountField("")
		fmt.Println(n)
	}
}
