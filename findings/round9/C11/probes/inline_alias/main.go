package main

import (
	"fmt"

	ucfg "github.com/elastic/go-ucfg"
)

type T struct {
	Raw *ucfg.Config `config:",inline"`
}

func main() {
	opts := []ucfg.Option{ucfg.PathSep("."), ucfg.VarExp}
	c := ucfg.MustNewFrom(map[string]interface{}{
		"out":   map[string]interface{}{"k": 1},
		"alias": "${out}",
		"hosts": []string{"a", "b"},
	}, opts...)
	out0, _ := c.Child("out", -1)
	fmt.Println("before:", c.FlattenedKeys(opts...))
	t := T{Raw: c}
	fmt.Println(c.Unpack(&t, opts...))
	out1, _ := c.Child("out", -1)
	fmt.Println("after: ", c.FlattenedKeys(opts...), "same child:", out0 == out1)
	// top level
	fmt.Println(c.Unpack(c, append([]ucfg.Option{ucfg.AppendValues}, opts...)...))
	fmt.Println("after c.Unpack(c, AppendValues): ", c.FlattenedKeys(opts...))

	var nilInline T
	fmt.Println("nil inline *Config:", c.Unpack(&nilInline, opts...))
	var p *ucfg.Config
	fmt.Println("Unpack(&p) nil *Config:", c.Unpack(&p, opts...), p.FlattenedKeys())
}
