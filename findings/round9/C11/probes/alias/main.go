package main

import (
	"fmt"

	ucfg "github.com/elastic/go-ucfg"
)

type T struct {
	Out *ucfg.Config `config:"output"`
}

type U struct {
	P *ucfg.Config `config:"b"`
}

func main() {
	// 1. reload: an old configuration is modified by unpacking a new one
	c1 := ucfg.MustNewFrom(map[string]interface{}{"output": map[string]interface{}{"host": "h1"}})
	c2 := ucfg.MustNewFrom(map[string]interface{}{"output": map[string]interface{}{"port": 1}})
	var t T
	fmt.Println(c1.Unpack(&t))
	fmt.Println("c1 before:", c1.FlattenedKeys())
	fmt.Println(c2.Unpack(&t))
	fmt.Println("c1 after unpacking c2 into t:", c1.FlattenedKeys())

	// 2. same config: a pointer captured from c.a is the default of a field fed from c.b
	c := ucfg.MustNewFrom(map[string]interface{}{"a": map[string]interface{}{"x": 1}, "b": map[string]interface{}{"y": 2}})
	a, _ := c.Child("a", -1)
	u := U{P: a}
	fmt.Println("c before:", c.FlattenedKeys())
	fmt.Println(c.Unpack(&u))
	fmt.Println("c after c.Unpack(&u):", c.FlattenedKeys())

	// 3. map[string]ucfg.Config shares the fields of the source
	c3 := ucfg.MustNewFrom(map[string]interface{}{"a": map[string]interface{}{"x": 1}})
	m := map[string]ucfg.Config{}
	fmt.Println(c3.Unpack(&m))
	v := m["a"]
	v.SetInt("z", -1, 3)
	fmt.Println("c3 after writing to the unpacked value copy:", c3.FlattenedKeys())
}
