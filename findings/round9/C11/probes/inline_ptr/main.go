package main

import (
	"fmt"

	ucfg "github.com/elastic/go-ucfg"
)

type Sub struct {
	A int    `config:"a" validate:"min=1"`
	B string `config:"b"`
}

type T struct {
	S *Sub                    `config:",inline"`
	M *map[string]interface{} `config:",inline"`
	I *int                    `config:",inline"`
}

func main() {
	c := ucfg.MustNewFrom(map[string]interface{}{"a": 3, "b": "x"})
	var t struct {
		S *Sub                    `config:",inline"`
		M *map[string]interface{} `config:",inline"`
	}
	fmt.Println(c.Unpack(&t), t.S, t.M)
	var u struct {
		I *int `config:",inline"`
	}
	err := c.Unpack(&u)
	fmt.Println(err != nil)
}
