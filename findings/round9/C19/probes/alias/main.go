package main

import (
	"fmt"

	ucfg "github.com/elastic/go-ucfg"
	"github.com/elastic/go-ucfg/flag"
)

func main() {
	// caller keeps one option slice and re-uses it for a second flag
	o := []ucfg.Option{ucfg.PathSep("."), ucfg.AppendValues}
	f1 := flag.NewFlagKeyValue(nil, true, o...)
	f1.Set("a=[1]")
	o[1] = ucfg.ReplaceValues // prepare options for another flag
	_ = flag.NewFlagKeyValue(nil, true, o...)
	f1.Set("a=[2]")
	fmt.Println("f1 created with AppendValues:", f1.String(), "(want {\"a\":[1,2]})")

	// file flag with def config and nested merges, model comparison
	def, _ := ucfg.NewFrom(map[string]interface{}{"a": []int{0}})
	f2 := flag.NewFlagKeyValue(def, true, ucfg.PathSep("."), ucfg.PrependValues)
	f2.Set("a=[1]")
	f2.Set("a=[2]")
	fmt.Println("prepend with def:", f2.String())
}
