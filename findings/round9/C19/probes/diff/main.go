package main

import (
	"fmt"
	"math/rand"
	"reflect"
	"strings"

	ucfg "github.com/elastic/go-ucfg"
	"github.com/elastic/go-ucfg/flag"
	"github.com/elastic/go-ucfg/parse"
)

type optset struct {
	name string
	opts []ucfg.Option
}

func model(args []string, autoBool bool, opts []ucfg.Option) (*ucfg.Config, error) {
	c := ucfg.New()
	for _, arg := range args {
		var key string
		var val interface{}
		i := strings.Index(arg, "=")
		if i < 0 {
			if !autoBool {
				return c, fmt.Errorf("argument '%v' is empty ", arg)
			}
			key, val = arg, true
		} else {
			key = arg[:i]
			rest := arg[i+1:]
			if rest == "" {
				continue
			}
			v, err := parse.Value(rest)
			if err != nil {
				return c, err
			}
			val = v
		}
		s, err := ucfg.NewFrom(map[string]interface{}{key: val}, opts...)
		if err != nil {
			return c, err
		}
		if err := c.Merge(s, opts...); err != nil {
			return c, err
		}
	}
	return c, nil
}

func dump(c *ucfg.Config, opts []ucfg.Option) string {
	var m interface{}
	var mm map[string]interface{}
	err := c.Unpack(&mm, opts...)
	m = mm
	keys := c.FlattenedKeys(opts...)
	var arr []interface{}
	err2 := c.Unpack(&arr, opts...)
	return fmt.Sprintf("%#v | %v | %v | %#v | %v", m, err, keys, arr, err2)
}

func main() {
	env, _ := ucfg.NewFrom(map[string]interface{}{"e": map[string]interface{}{"x": 1, "y": []int{1, 2}}, "s": "str"})
	sets := []optset{
		{"none", nil},
		{"sep", []ucfg.Option{ucfg.PathSep(".")}},
		{"sep+replace", []ucfg.Option{ucfg.PathSep("."), ucfg.ReplaceValues}},
		{"sep+replacearr", []ucfg.Option{ucfg.PathSep("."), ucfg.ReplaceArrValues}},
		{"sep+append", []ucfg.Option{ucfg.PathSep("."), ucfg.AppendValues}},
		{"sep+prepend", []ucfg.Option{ucfg.PathSep("."), ucfg.PrependValues}},
		{"sep+varexp", []ucfg.Option{ucfg.PathSep("."), ucfg.VarExp}},
		{"sep+varexp+env", []ucfg.Option{ucfg.PathSep("."), ucfg.VarExp, ucfg.Env(env)}},
		{"sep+varexp+noop", []ucfg.Option{ucfg.PathSep("."), ucfg.VarExp, ucfg.ResolveNOOP}},
		{"sep+fieldappend", []ucfg.Option{ucfg.PathSep("."), ucfg.FieldAppendValues("a"), ucfg.FieldReplaceValues("b.c")}},
		{"sep+fieldrepl", []ucfg.Option{ucfg.PathSep("."), ucfg.FieldReplaceValues("a"), ucfg.FieldPrependValues("b")}},
		{"sep+numkeys", []ucfg.Option{ucfg.PathSep("."), ucfg.EnableNumKeys(true)}},
		{"sep+maxidx", []ucfg.Option{ucfg.PathSep("."), ucfg.MaxIdx(2)}},
		{"sep+escape", []ucfg.Option{ucfg.PathSep("."), ucfg.EscapePath()}},
		{"sep+append+varexp+env", []ucfg.Option{ucfg.PathSep("."), ucfg.AppendValues, ucfg.VarExp, ucfg.Env(env)}},
	}
	keys := []string{"a", "b", "a.b", "a.0", "a.1", "a.b.c", "b.c", "b.c.0", "0", "1", "a.0.x", "", "a.", ".a", "a..b", "[a.b]", "[a.b].c", "b.c.d", "a.3", "a.5", " a"}
	vals := []string{"1", "-1", "x", "true", "1.5", "[1,2]", "[3]", "{b:1}", "{c:{d:2}}", "{0:1}", "1,2,3", "null", "[]", "{}", " ", "'q'", "\"dq\"", "${a}", "${e}", "${e.y}", "${b.c}", "${s}", "${", "[1", "{a", "\"x", "a b", "1,", "${a.b}", "${missing}", "${missing:def}", "{b:{c:[1,2]}}", "[{x:1},{y:2}]"}
	r := rand.New(rand.NewSource(42))
	bad := 0
	for iter := 0; iter < 60000; iter++ {
		os := sets[r.Intn(len(sets))]
		n := 1 + r.Intn(5)
		var args []string
		for i := 0; i < n; i++ {
			k := keys[r.Intn(len(keys))]
			switch r.Intn(10) {
			case 0:
				args = append(args, k)
			case 1:
				args = append(args, k+"=")
			default:
				args = append(args, k+"="+vals[r.Intn(len(vals))])
			}
		}
		autoBool := r.Intn(4) != 0
		observe := r.Intn(2) == 0
		func() {
			defer func() {
				if e := recover(); e != nil {
					fmt.Printf("PANIC opts=%s args=%q autoBool=%v: %v\n", os.name, args, autoBool, e)
					bad++
				}
			}()
			fv := flag.NewFlagKeyValue(nil, autoBool, os.opts...)
			var firstSetErr error
			for _, a := range args {
				if observe {
					_ = fv.String()
				}
				err := fv.Set(a)
				if err != nil && firstSetErr == nil {
					firstSetErr = err
				}
				if observe {
					_ = fv.String()
					_ = fv.Error()
				}
			}
			mc, merr := model(args, autoBool, os.opts)
			got := dump(fv.Config(), os.opts)
			want := dump(mc, os.opts)
			ge, we := fmt.Sprint(fv.Error()), fmt.Sprint(merr)
			if got != want || ge != we || fmt.Sprint(firstSetErr) != we {
				bad++
				if bad < 30 {
					fmt.Printf("DIFF opts=%s args=%q autoBool=%v observe=%v\n  got  %s\n  want %s\n  gerr %s\n  werr %s\n  seterr %v\n", os.name, args, autoBool, observe, got, want, ge, we, firstSetErr)
				}
			}
			_ = reflect.DeepEqual
		}()
	}
	fmt.Println("bad:", bad)
}
