package main

import (
	"errors"
	"fmt"

	ucfg "github.com/elastic/go-ucfg"
	"github.com/elastic/go-ucfg/cfgutil"
	"github.com/elastic/go-ucfg/flag"
)

func show(name string, autoBool bool, opts []ucfg.Option, args ...string) {
	fv := flag.NewFlagKeyValue(nil, autoBool, opts...)
	for _, a := range args {
		err := fv.Set(a)
		if err != nil {
			fmt.Printf("  [%s] Set(%q) -> %v\n", name, a, err)
		}
	}
	fmt.Printf("%s %q => %s  err=%v keys=%q\n", name, args, fv.String(), fv.Error(), fv.Config().FlattenedKeys(opts...))
}

func main() {
	sep := []ucfg.Option{ucfg.PathSep(".")}
	show("emptyarg", true, sep, "")
	show("emptyarg-noauto", false, sep, "")
	show("emptykey", true, sep, "=v")
	show("dot", true, sep, ".=v")
	show("dots", true, sep, "a..b=v")
	show("trail", true, sep, "a.=v")
	show("space", true, sep, "a=1", "a= ")
	show("nullover", true, sep, "a.b=1", "a=null")
	show("nullover2", true, sep, "a=1", "a=null")
	show("emptyobj", true, sep, "a.b=1", "a={}")
	show("arr", true, sep, "a=[1,2,3]", "a=[9]")
	show("arr-replace", true, append(sep, ucfg.ReplaceValues), "a.b=1", "a.c=2", "d=1")
	show("arr-append", true, append(sep, ucfg.AppendValues), "a=1,2", "a=3", "a.0=7")
	show("idx-gap", true, sep, "a.3=x")
	show("idx-gap2", true, sep, "a.3=x", "a.1=y")
	show("bigidx", true, sep, "a.1024=x")
	show("bigidx2", true, sep, "a.1025=x")
	show("top-idx", true, sep, "0=x", "a=y")
	show("after-error", true, sep, "a=1", "b=[1", "c=3", "d={")
	show("after-error-noauto", false, sep, "a=1", "b", "c=3")
	show("fieldappend", true, append(sep, ucfg.FieldAppendValues("a")), "a=1,2", "a=3", "b=1,2", "b=3")
	show("fieldappend-nested", true, append(sep, ucfg.FieldAppendValues("a.b")), "a.b=1,2", "a.b=3", "a={b:[4]}")
	show("varexp", true, append(sep, ucfg.VarExp), "a=${b}", "b=1")
	show("varexp-self", true, append(sep, ucfg.VarExp), "a=${a}")
	show("varexp-merge-over-ref", true, append(sep, ucfg.VarExp), "b.x=1", "a=${b}", "a.y=2")

	// Collector option aliasing
	o := []ucfg.Option{ucfg.PathSep("."), ucfg.AppendValues}
	c := cfgutil.NewCollector(nil, o...)
	a1, _ := ucfg.NewFrom(map[string]interface{}{"a": []int{1}}, o...)
	a2, _ := ucfg.NewFrom(map[string]interface{}{"a": []int{2}}, o...)
	c.Add(a1, nil)
	g := c.GetOptions()
	g[1] = ucfg.ReplaceValues
	c.Add(a2, nil)
	var m map[string]interface{}
	c.Config().Unpack(&m)
	fmt.Println("collector after GetOptions()[1]=ReplaceValues:", m)

	// Add with both
	c2 := cfgutil.NewCollector(nil)
	e1 := errors.New("first")
	fmt.Println(c2.Add(a1, e1), c2.Add(a2, nil), c2.Add(nil, errors.New("second")), c2.Error())
	m = nil
	c2.Config().Unpack(&m)
	fmt.Println(m)

	// file flag
	ff := flag.NewFlagFiles(nil, map[string]flag.FileLoader{
		".a": func(name string, opts ...ucfg.Option) (*ucfg.Config, error) {
			return ucfg.NewFrom(map[string]interface{}{"x.y": name}, opts...)
		},
		".nil": func(name string, opts ...ucfg.Option) (*ucfg.Config, error) { return nil, nil },
		".bad": func(name string, opts ...ucfg.Option) (*ucfg.Config, error) { return nil, errors.New("bad " + name) },
	}, ucfg.PathSep("."))
	for _, p := range []string{"1.a", "x.nil", "2.a", "3.zzz", "4.bad", "5.a"} {
		fmt.Printf("file Set(%q) -> %v ; Error=%v ; %s\n", p, ff.Set(p), ff.Error(), ff.String())
	}
}
