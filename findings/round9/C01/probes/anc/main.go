package main

import (
	"fmt"

	ucfg "github.com/elastic/go-ucfg"
)

type M = map[string]interface{}

func main() {
	for _, o := range [][]ucfg.Option{nil, {ucfg.ReplaceValues}} {
		c := ucfg.MustNewFrom(M{"a": M{"k": 1}})
		sub, _ := c.Child("a", -1)
		err := sub.Merge(c, o...)
		m := M{}
		c.Unpack(&m)
		fmt.Printf("%v %#v\n", err, m)

		// same with a snapshot of c as the source
		c2 := ucfg.MustNewFrom(M{"a": M{"k": 1}})
		sub2, _ := c2.Child("a", -1)
		snap := ucfg.MustNewFrom(c2)
		err = sub2.Merge(snap, o...)
		m = M{}
		c2.Unpack(&m)
		fmt.Printf("   snapshot: %v %#v\n", err, m)
	}
}
