package main

import (
	"fmt"

	ucfg "github.com/elastic/go-ucfg"
)

type M = map[string]interface{}
type L = []interface{}

func dumpM(c *ucfg.Config) string {
	m := M{}
	if err := c.Unpack(&m); err != nil {
		return "ERR " + err.Error()
	}
	return fmt.Sprintf("%#v", m)
}
func dumpL(c *ucfg.Config) string {
	var l L
	if err := c.Unpack(&l); err != nil {
		return "ERR " + err.Error()
	}
	return fmt.Sprintf("%#v", l)
}
func wrap(c *ucfg.Config) string {
	w := ucfg.MustNewFrom(M{"r": c})
	var s struct {
		R interface{} `config:"r"`
	}
	if err := w.Unpack(&s); err != nil {
		return "ERR " + err.Error()
	}
	return fmt.Sprintf("%#v", s.R)
}

func main() {
	pols := map[string][]ucfg.Option{"default": nil, "replace": {ucfg.ReplaceValues}, "replaceArr": {ucfg.ReplaceArrValues}, "append": {ucfg.AppendValues}, "prepend": {ucfg.PrependValues}}
	order := []string{"default", "replace", "replaceArr", "append", "prepend"}

	fmt.Println("== top-level arrays")
	for _, p := range order {
		c := ucfg.MustNewFrom(L{1, M{"x": 1}, L{1, 2}})
		err := c.Merge(L{M{"y": 2}, nil, L{3}, 4}, pols[p]...)
		fmt.Println(p, err, dumpL(c))
	}
	fmt.Println("== empty top-level array identity")
	{
		c := ucfg.MustNewFrom(L{})
		fmt.Println("IsArray", c.IsArray(), wrap(c))
		d := ucfg.New()
		d.Merge(c)
		fmt.Println("merged into New: IsArray", d.IsArray(), wrap(d))
		e := ucfg.MustNewFrom(M{"a": L{}})
		f := ucfg.New()
		f.Merge(e)
		fmt.Println(dumpM(f))
	}
	fmt.Println("== pathsep overlapping keys in B and policy")
	for _, p := range order {
		opts := append([]ucfg.Option{ucfg.PathSep(".")}, pols[p]...)
		c := ucfg.New()
		err := c.Merge(M{"a": M{"b": M{"x": 1}, "l": L{1, 2}}, "a.b": M{"y": 2}, "a.l": L{3}}, opts...)
		fmt.Println(p, err, dumpM(c))
	}
	fmt.Println("== pathsep index keys")
	for _, p := range order {
		opts := append([]ucfg.Option{ucfg.PathSep(".")}, pols[p]...)
		c := ucfg.MustNewFrom(M{"a": L{"p", "q", "r"}})
		err := c.Merge(M{"a.1": "X"}, opts...)
		fmt.Println(p, err, dumpM(c))
	}
	fmt.Println("== config by value / typed nil")
	{
		c := ucfg.MustNewFrom(M{"a": 1})
		var np *ucfg.Config
		fmt.Println("nil *Config:", c.Merge(np), dumpM(c))
		var nm M
		fmt.Println("nil map:", c.Merge(nm), dumpM(c))
		var zc ucfg.Config
		fmt.Println("zero Config:", c.Merge(zc), dumpM(c))
		fmt.Println("zero &Config:", c.Merge(&zc), dumpM(c))
		type S struct {
			C  ucfg.Config  `config:"c"`
			P  *ucfg.Config `config:"p"`
			A  int          `config:"a"`
			NS []string     `config:"ns"`
			NM map[string]int `config:"nm"`
		}
		fmt.Println("struct:", c.Merge(S{A: 5}), dumpM(c))
		c2 := ucfg.MustNewFrom(M{"c": M{"k": 1}, "p": M{"k": 1}, "ns": L{"a"}, "nm": M{"z": 1}})
		fmt.Println("struct over:", c2.Merge(S{A: 5}), dumpM(c2))
		fmt.Println("struct over replace:", c2.Merge(S{A: 5}, ucfg.ReplaceValues), dumpM(c2))
	}
	fmt.Println("== inline struct overlapping")
	{
		type In struct {
			X M `config:"x"`
		}
		type S struct {
			In `config:",inline"`
			X  M `config:"x"`
		}
		for _, p := range order {
			c := ucfg.New()
			err := c.Merge(S{In: In{X: M{"a": 1, "l": L{1}}}, X: M{"b": 2, "l": L{2}}}, pols[p]...)
			fmt.Println(p, err, dumpM(c))
		}
	}
	fmt.Println("== merge child of self into self")
	for _, p := range order {
		c := ucfg.MustNewFrom(M{"a": M{"a": M{"z": 1}, "l": L{1, 2}}, "l": L{9}})
		sub, _ := c.Child("a", -1)
		err := c.Merge(sub, pols[p]...)
		fmt.Println(p, err, dumpM(c))
	}
	fmt.Println("== merge self into child of self")
	for _, p := range order {
		c := ucfg.MustNewFrom(M{"a": M{"a": M{"z": 1}, "l": L{1, 2}}, "l": L{9}})
		sub, _ := c.Child("a", -1)
		err := sub.Merge(c, pols[p]...)
		fmt.Println(p, err, dumpM(c))
	}
}
