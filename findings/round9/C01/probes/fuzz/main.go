package main

import (
	"fmt"
	"math/rand"
	"os"
	"reflect"
	"sort"
	"strings"

	ucfg "github.com/elastic/go-ucfg"
)

// ---- model ----

type null struct{}

type cont struct {
	d    map[string]interface{} // values: null, prim, *cont
	a    []interface{}
	aSet bool
}

func norm(v interface{}) interface{} {
	switch x := v.(type) {
	case nil:
		return null{}
	case map[string]interface{}:
		c := &cont{}
		for k, e := range x {
			if c.d == nil {
				c.d = map[string]interface{}{}
			}
			c.d[k] = norm(e)
		}
		return c
	case []interface{}:
		c := &cont{aSet: true, a: []interface{}{}}
		for _, e := range x {
			c.a = append(c.a, norm(e))
		}
		return c
	case int:
		if x > 0 {
			return uint64(x)
		}
		return int64(x)
	default:
		rv := reflect.ValueOf(v)
		if rv.Kind() == reflect.Struct {
			c := &cont{}
			for i := 0; i < rv.NumField(); i++ {
				name := strings.Split(rv.Type().Field(i).Tag.Get("config"), ",")[0]
				if c.d == nil {
					c.d = map[string]interface{}{}
				}
				c.d[name] = norm(rv.Field(i).Interface())
			}
			return c
		}
		return v
	}
}

func cp(v interface{}) interface{} {
	c, ok := v.(*cont)
	if !ok {
		return v
	}
	n := &cont{aSet: c.aSet}
	if c.d != nil {
		n.d = map[string]interface{}{}
		for k, e := range c.d {
			n.d[k] = cp(e)
		}
	}
	if c.aSet {
		n.a = []interface{}{}
		for _, e := range c.a {
			n.a = append(n.a, cp(e))
		}
	}
	return n
}

const (
	pDefault = iota
	pReplace
	pReplaceArr
	pAppend
	pPrepend
)

var polNames = []string{"default", "ReplaceValues", "ReplaceArrValues", "AppendValues", "PrependValues"}

func polOpt(p int) []ucfg.Option {
	switch p {
	case pReplace:
		return []ucfg.Option{ucfg.ReplaceValues}
	case pReplaceArr:
		return []ucfg.Option{ucfg.ReplaceArrValues}
	case pAppend:
		return []ucfg.Option{ucfg.AppendValues}
	case pPrepend:
		return []ucfg.Option{ucfg.PrependValues}
	}
	return nil
}

func isNull(v interface{}) bool {
	if v == nil {
		return true
	}
	_, ok := v.(null)
	return ok
}

func mergeValues(p int, old, v interface{}) interface{} {
	if isNull(old) {
		return cp(v)
	}
	co, ok := old.(*cont)
	if !ok {
		return cp(v)
	}
	var cv *cont
	switch x := v.(type) {
	case null:
		cv = &cont{}
	case *cont:
		cv = x
	default:
		return cp(v)
	}
	mergeCont(p, co, cv)
	return co
}

func mergeCont(p int, to, from *cont) {
	if len(from.d) > 0 {
		if p == pReplace {
			to.d = nil
		}
		for k, v := range from.d {
			var old interface{}
			if to.d != nil {
				old = to.d[k]
			}
			m := mergeValues(p, old, v)
			if to.d == nil {
				to.d = map[string]interface{}{}
			}
			to.d[k] = m
		}
	}
	switch p {
	case pReplace, pReplaceArr:
		if len(from.a) > 0 {
			to.a = nil
			for _, e := range from.a {
				to.a = append(to.a, cp(e))
			}
			to.aSet = true
		}
	case pAppend:
		for _, e := range from.a {
			to.a = append(to.a, cp(e))
			to.aSet = true
		}
	case pPrepend:
		if len(from.a) > 0 {
			var n []interface{}
			for _, e := range from.a {
				n = append(n, cp(e))
			}
			n = append(n, to.a...)
			to.a = n
			to.aSet = true
		}
	default:
		for i, e := range from.a {
			if i < len(to.a) {
				to.a[i] = mergeValues(p, to.a[i], e)
			} else {
				to.a = append(to.a, cp(e))
				to.aSet = true
			}
		}
	}
}

func reify(v interface{}) interface{} {
	switch x := v.(type) {
	case null:
		return nil
	case *cont:
		switch {
		case len(x.d) == 0 && len(x.a) == 0 && x.aSet:
			return []interface{}{}
		case len(x.d) == 0 && len(x.a) == 0:
			return nil
		case len(x.d) > 0 && len(x.a) == 0:
			m := map[string]interface{}{}
			for k, e := range x.d {
				m[k] = reify(e)
			}
			return m
		case len(x.d) == 0:
			m := make([]interface{}, len(x.a))
			for i, e := range x.a {
				m[i] = reify(e)
			}
			return m
		default:
			m := map[string]interface{}{}
			for k, e := range x.d {
				m[k] = reify(e)
			}
			for i, e := range x.a {
				m[fmt.Sprint(i)] = reify(e)
			}
			return m
		}
	}
	return v
}

// ---- generation ----

var keys = []string{"a", "b", "c"}

func gen(r *rand.Rand, depth int) interface{} {
	n := r.Intn(10)
	if depth <= 0 && n >= 5 {
		n = r.Intn(5)
	}
	switch n {
	case 0:
		return nil
	case 1:
		return r.Intn(5) - 1
	case 2:
		return []string{"x", "y", "", "z w"}[r.Intn(4)]
	case 3:
		return r.Intn(2) == 0
	case 4:
		return 1.5
	case 5, 6, 7:
		return genMap(r, depth-1)
	default:
		l := r.Intn(4)
		a := []interface{}{}
		for i := 0; i < l; i++ {
			a = append(a, gen(r, depth-1))
		}
		return a
	}
}

func genMap(r *rand.Rand, depth int) map[string]interface{} {
	m := map[string]interface{}{}
	for _, k := range keys {
		if r.Intn(3) > 0 {
			m[k] = gen(r, depth)
		}
	}
	return m
}

// structify turns maps into struct values at random
func structify(r *rand.Rand, v interface{}, force bool) interface{} {
	switch x := v.(type) {
	case map[string]interface{}:
		if !force && r.Intn(2) == 0 {
			m := map[string]interface{}{}
			for k, e := range x {
				m[k] = structify(r, e, false)
			}
			return m
		}
		ks := []string{}
		for k := range x {
			ks = append(ks, k)
		}
		sort.Strings(ks)
		var fs []reflect.StructField
		var vals []interface{}
		for _, k := range ks {
			e := structify(r, x[k], false)
			fs = append(fs, reflect.StructField{
				Name: "F" + strings.ToUpper(k),
				Type: reflect.TypeOf((*interface{})(nil)).Elem(),
				Tag:  reflect.StructTag(fmt.Sprintf(`config:"%s"`, k)),
			})
			vals = append(vals, e)
		}
		st := reflect.New(reflect.StructOf(fs)).Elem()
		for i, e := range vals {
			if e != nil {
				st.Field(i).Set(reflect.ValueOf(e))
			}
		}
		if r.Intn(2) == 0 {
			return st.Addr().Interface()
		}
		return st.Interface()
	case []interface{}:
		a := []interface{}{}
		for _, e := range x {
			a = append(a, structify(r, e, false))
		}
		return a
	}
	return v
}

func show(v interface{}) string { return fmt.Sprintf("%#v", v) }

func main() {
	seed := int64(1)
	n := 200000
	if len(os.Args) > 1 {
		fmt.Sscan(os.Args[1], &seed)
	}
	if len(os.Args) > 2 {
		fmt.Sscan(os.Args[2], &n)
	}
	r := rand.New(rand.NewSource(seed))
	bad := 0
	for it := 0; it < n && bad < 8; it++ {
		depth := 1 + r.Intn(3)
		chain := 1 + r.Intn(3)
		A := genMap(r, depth)
		model := norm(A).(*cont)
		c, err := ucfg.NewFrom(A)
		if err != nil {
			fmt.Println("newfrom err", err)
			continue
		}
		desc := []string{"A=" + show(A)}
		failed := false
		for s := 0; s < chain; s++ {
			p := r.Intn(5)
			B := genMap(r, depth)
			kind := r.Intn(4)
			var src interface{} = B
			mb := norm(B).(*cont)
			switch kind {
			case 1:
				src = ucfg.MustNewFrom(B)
			case 2:
				src = structify(r, B, true)
			case 3:
				// self merge
				src = c
				mb = cp(model).(*cont)
			}
			desc = append(desc, fmt.Sprintf("merge[%s,kind=%d] B=%s", polNames[p], kind, show(B)))
			var before map[string]interface{}
			if kind == 1 {
				src.(*ucfg.Config).Unpack(&before)
			}
			if err := c.Merge(src, polOpt(p)...); err != nil {
				fmt.Println("merge err", err, desc)
				failed = true
				break
			}
			mergeCont(p, model, mb)
			if kind == 1 {
				var after map[string]interface{}
				src.(*ucfg.Config).Unpack(&after)
				if !reflect.DeepEqual(before, after) {
					fmt.Println("SOURCE CHANGED", desc)
					bad++
				}
			}
		}
		if failed {
			continue
		}
		got := map[string]interface{}{}
		if err := c.Unpack(&got); err != nil {
			fmt.Println("unpack err", err, desc)
			continue
		}
		want := map[string]interface{}{}
		for k, e := range model.d {
			if rv := reify(e); rv != nil {
				want[k] = rv
			}
		}
		if !reflect.DeepEqual(got, want) {
			bad++
			fmt.Println("MISMATCH")
			for _, d := range desc {
				fmt.Println("  ", d)
			}
			fmt.Println("   got ", show(got))
			fmt.Println("   want", show(want))
		}
		// also through interface{} field via wrapping
		w := ucfg.MustNewFrom(map[string]interface{}{"r": c})
		var wg struct {
			R interface{} `config:"r"`
		}
		if err := w.Unpack(&wg); err != nil {
			fmt.Println("unpack2 err", err, desc)
			continue
		}
		if w2 := reify(model); !reflect.DeepEqual(wg.R, w2) {
			bad++
			fmt.Println("MISMATCH(wrapped)")
			for _, d := range desc {
				fmt.Println("  ", d)
			}
			fmt.Println("   got ", show(wg.R))
			fmt.Println("   want", show(w2))
		}
	}
	fmt.Println("done, bad =", bad)
}
