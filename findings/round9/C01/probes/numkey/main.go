package main

import (
	"fmt"

	ucfg "github.com/elastic/go-ucfg"
)

type M = map[string]interface{}
type L = []interface{}

func main() {
	c := ucfg.MustNewFrom(M{"a": L{"p", "q", "r"}})
	err := c.Merge(M{"a": M{"1": "X"}})
	m := M{}
	c.Unpack(&m)
	fmt.Printf("%v %#v\n", err, m)

	c = ucfg.MustNewFrom(M{"a": M{"0x2": "p"}})
	m = M{}
	c.Unpack(&m)
	fmt.Printf("%#v\n", m)

	c = ucfg.MustNewFrom(M{"a": M{"1": "p"}})
	err = c.Merge(M{"a": M{"01": "q"}})
	m = M{}
	c.Unpack(&m)
	fmt.Printf("%v %#v\n", err, m)
}
