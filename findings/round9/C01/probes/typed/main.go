package main

import (
	"fmt"
	"regexp"
	"time"

	ucfg "github.com/elastic/go-ucfg"
)

type M = map[string]interface{}
type L = []interface{}

func dumpM(c *ucfg.Config) string {
	m := M{}
	if err := c.Unpack(&m); err != nil {
		return "ERR " + err.Error()
	}
	return fmt.Sprintf("%#v", m)
}

type Inner struct {
	N  int8              `config:"n"`
	F  float32           `config:"f"`
	D  time.Duration     `config:"d"`
	R  *regexp.Regexp    `config:"r"`
	A  [2]int            `config:"arr"`
	MM map[string][]M    `config:"mm"`
	PP **int             `config:"pp"`
	I  interface{}       `config:"i"`
}
type Outer struct {
	In  *Inner            `config:"in"`
	Ins []Inner           `config:"ins"`
	K   map[interface{}]interface{} `config:"k"`
	U   uint16 `config:"u"`
	unexported int
	Ig  int `config:",ignore"`
}

type skey string

func main() {
	pols := map[string][]ucfg.Option{"default": nil, "replace": {ucfg.ReplaceValues}, "replaceArr": {ucfg.ReplaceArrValues}, "append": {ucfg.AppendValues}, "prepend": {ucfg.PrependValues}}
	order := []string{"default", "replace", "replaceArr", "append", "prepend"}
	seven := 7
	p7 := &seven
	for _, p := range order {
		c := ucfg.MustNewFrom(M{"in": M{"n": 1, "keep": "me", "arr": L{9, 8, 7}, "mm": M{"q": L{M{"old": 1}}}}, "ins": L{M{"n": 5, "keep": 1}, M{"n": 6}}, "k": M{"z": 1}, "u": "str"})
		src := Outer{
			In:  &Inner{N: -3, F: 0.5, D: time.Second, R: regexp.MustCompile("a+"), A: [2]int{1, 2}, MM: map[string][]M{"q": {{"new": 2}}}, PP: &p7, I: &Inner{N: 2}},
			Ins: []Inner{{N: 1}},
			K:   map[interface{}]interface{}{"a": 1, skey("b"): L{1}},
			U:   3,
		}
		err := c.Merge(src, pols[p]...)
		fmt.Println(p, err)
		fmt.Println("   ", dumpM(c))
	}
	// FieldXxx handling
	fmt.Println("== field handling")
	{
		c := ucfg.MustNewFrom(M{"a": M{"l": L{1, 2}, "m": M{"x": 1}}, "b": M{"l": L{1, 2}}, "l": L{1}})
		err := c.Merge(M{"a": M{"l": L{3}, "m": M{"y": 1}}, "b": M{"l": L{3}}, "l": L{2}}, ucfg.PathSep("."), ucfg.FieldAppendValues("a.l"), ucfg.FieldReplaceValues("a.m"), ucfg.PrependValues)
		fmt.Println(err, dumpM(c))
	}
	// Setters then merge
	fmt.Println("== setters")
	for _, p := range order {
		c := ucfg.New()
		c.SetString("a", 2, "x")
		c.SetInt("b.c", -1, 4, ucfg.PathSep("."))
		d := ucfg.New()
		d.SetString("a", 0, "y")
		d.SetString("a", 3, "w")
		d.SetBool("b.d", -1, true, ucfg.PathSep("."))
		err := c.Merge(d, pols[p]...)
		fmt.Println(p, err, dumpM(c))
	}
}
