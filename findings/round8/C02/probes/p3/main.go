package main

import (
	"errors"
	"fmt"

	ucfg "github.com/elastic/go-ucfg"
	"github.com/elastic/go-ucfg/parse"
)

var O = []ucfg.Option{ucfg.PathSep("."), ucfg.VarExp}

func mk(m interface{}) *ucfg.Config {
	c, err := ucfg.NewFrom(m, O...)
	if err != nil {
		panic(err)
	}
	return c
}

func show(label string, v interface{}, err error) {
	r := interface{}(nil)
	if e, ok := err.(ucfg.Error); ok {
		r = e.Reason()
	}
	fmt.Printf("%-40s => %#v  err=%v reason=%v\n", label, v, err, r)
}

func res(tag string, names ...string) ucfg.Option {
	return ucfg.Resolve(func(n string) (string, parse.Config, error) {
		for _, x := range names {
			if x == n {
				return tag + ":" + n, parse.NoopConfig, nil
			}
		}
		return "", parse.NoopConfig, errors.New("nope " + tag)
	})
}

func main() {
	root := mk(map[string]interface{}{"r": "R", "v": "${r}|${e1}|${e2}|${both}|${x1}|${x2}|${xb}|${eb}", "n": map[string]interface{}{"k": "${r}-${both}"},
		"txt": "007", "t1": "${txt:zz}", "mode": "on", "t2": "${mode:off}", "t3": "${txt}"})
	env1 := mk(map[string]interface{}{"e1": "E1", "both": "B1", "r": "no", "eb": "EB1"})
	env2 := mk(map[string]interface{}{"e2": "E2", "both": "B2", "r": "no"})
	opts := []ucfg.Option{ucfg.PathSep("."), ucfg.Env(env1), ucfg.Env(env2), res("r1", "x1", "xb", "eb"), res("r2", "x2", "xb", "e1")}
	s, err := root.String("v", -1, opts...)
	show("order", s, err)
	ch, _ := root.Child("n", -1)
	s, err = ch.String("k", -1, opts...)
	show("child", s, err)
	for _, k := range []string{"t1", "t2", "t3"} {
		s, err = root.String(k, -1, opts...)
		show(k, s, err)
	}
	// late binding
	c := mk(map[string]interface{}{"a": "${b} ${c.d:none}"})
	s, err = c.String("a", -1)
	show("before", s, err)
	c.Merge(map[string]interface{}{"b": "B"}, O...)
	s, err = c.String("a", -1)
	show("after b", s, err)
	c.Merge(map[string]interface{}{"c.d": 5}, O...)
	s, err = c.String("a", -1)
	show("after c.d", s, err)
	c.SetString("b", -1, "B2")
	s, err = c.String("a", -1)
	show("after set", s, err)
	c.Remove("c.d", -1, ucfg.PathSep("."))
	s, err = c.String("a", -1)
	show("after remove", s, err)
	// typed
	tc := mk(map[string]interface{}{"i": -5, "u": uint64(1<<63 + 1), "f": 2.5, "b": true, "ri": "${i}", "ru": "${u}", "rf": "${f}", "rb": "${b}", "di": "${zz:17}", "l": []int{1, 2}, "rl": "${l}"})
	i, err := tc.Int("ri", -1)
	show("ri", i, err)
	u, err := tc.Uint("ru", -1)
	show("ru", u, err)
	f, err := tc.Float("rf", -1)
	show("rf", f, err)
	b, err := tc.Bool("rb", -1)
	show("rb", b, err)
	i, err = tc.Int("di", -1)
	show("di", i, err)
	var m map[string]interface{}
	err = tc.Unpack(&m)
	show("typed unpack", m, err)
}
