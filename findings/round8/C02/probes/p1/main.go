package main

import (
	"fmt"

	ucfg "github.com/elastic/go-ucfg"
	"github.com/elastic/go-ucfg/parse"
)

var O = []ucfg.Option{ucfg.PathSep("."), ucfg.VarExp}

func mk(m map[string]interface{}) *ucfg.Config {
	c, err := ucfg.NewFrom(m, O...)
	if err != nil {
		panic(err)
	}
	return c
}

func show(label string, v interface{}, err error) {
	fmt.Printf("%-40s => %#v  err=%v\n", label, v, err)
}

func main() {
	defer func() {
		if r := recover(); r != nil {
			fmt.Println("PANIC", r)
			panic(r)
		}
	}()
	// 1. false cycle across env
	{
		root := mk(map[string]interface{}{"v": "${a}"})
		env2 := mk(map[string]interface{}{"a": "${x}"})
		env1 := mk(map[string]interface{}{"x": "${a}", "a": 1})
		s, err := root.String("v", -1, ucfg.PathSep("."), ucfg.Env(env1), ucfg.Env(env2))
		show("false cycle env", s, err)
	}
	// 2. ref to object into various targets
	{
		root := mk(map[string]interface{}{"a": "${o}", "o": map[string]interface{}{"x": 1, "y": "${o.x}"}, "l": []interface{}{1, 2, "${l.0}"}, "b": "${l}"})
		var t1 struct {
			A map[string]interface{}
			B []int
		}
		err := root.Unpack(&t1, O...)
		show("unpack map/slice", t1, err)
		var t2 struct {
			A *ucfg.Config
			B *ucfg.Config
		}
		err = root.Unpack(&t2, O...)
		show("unpack *Config", nil, err)
		if err == nil {
			s, err := t2.A.String("y", -1, O...)
			show("  A.y", s, err)
			fmt.Println("  A.Path", t2.A.Path("."), "parent nil?", t2.A.Parent() == nil)
			s, err = t2.B.String("", 2, O...)
			show("  B.2", s, err)
		}
		var t3 struct {
			A interface{}
			B interface{}
		}
		err = root.Unpack(&t3, O...)
		show("unpack iface", t3, err)
		var t4 struct {
			A struct{ X, Y int }
			B [3]int
		}
		err = root.Unpack(&t4, O...)
		show("unpack struct/array", t4, err)
		var t5 struct {
			A *struct{ X, Y int }
			B *[]uint
		}
		err = root.Unpack(&t5, O...)
		show("unpack ptrs", t5.A, err)
		show("unpack ptrs B", t5.B, err)
		s, err := root.String("a", -1, O...)
		show("String(a) obj", s, err)
		n, err := root.CountField("b")
		show("CountField(b)", n, err)
		n, err = root.CountField("a")
		show("CountField(a)", n, err)
		i, err := root.Int("b", 2, O...)
		show("Int(b,2)", i, err)
		i, err = root.Int("a.y", -1, O...)
		show("Int(a.y)", i, err)
		fmt.Println(root.FlattenedKeys(O...))
	}
	// 3. whitespace / quoting
	{
		root := mk(map[string]interface{}{"a": "foo", "s1": "${a} ", "s2": "'${a}'", "s3": "[${a}", "s4": "\"${a}\" bad", "s5": "x: ${a}", "s6": "${a}, ${a}", "s7": "  ${a}", "e": "", "s8": "${e}", "s9": "${e}${e}", "s10": "${e:d}", "s11": "${e:+alt}", "s12": "${e:?msg}"})
		for _, k := range []string{"s1", "s2", "s3", "s4", "s5", "s6", "s7", "s8", "s9", "s10", "s11", "s12"} {
			s, err := root.String(k, -1, O...)
			show(k, s, err)
		}
	}
	// 4. resolvers
	{
		root := mk(map[string]interface{}{"a": "${x}", "b": "p-${x}", "c": "${x:d}", "d": "${x:+alt}", "e": "${x:?boom}"})
		r1 := ucfg.Resolve(func(n string) (string, parse.Config, error) { return "", parse.DefaultConfig, nil })
		for _, k := range []string{"a", "b", "c", "d", "e"} {
			s, err := root.String(k, -1, ucfg.PathSep("."), r1)
			show("empty resolver "+k, s, err)
		}
		for _, k := range []string{"a", "b", "c", "d", "e"} {
			s, err := root.String(k, -1, ucfg.PathSep("."))
			show("no resolver "+k, s, err)
		}
	}
	// 5. null
	{
		root := mk(map[string]interface{}{"n": nil, "a": "${n}", "b": "x${n}", "c": "${n:d}", "d": "${n:+alt}", "e": "${n:?boom}"})
		for _, k := range []string{"a", "b", "c", "d", "e"} {
			s, err := root.String(k, -1, O...)
			show("null "+k, s, err)
		}
		var t struct {
			A *string
			B string
		}
		err := root.Unpack(&t, O...)
		show("null unpack", t, err)
	}
}
