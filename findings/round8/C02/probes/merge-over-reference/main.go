// Merge evaluates references while merging (mergeValues calls toConfig on both
// sides): (1) merging an object over a setting that is a reference to an
// object writes into the REFERENCED object and freezes the reference;
// (2) merging a reference over an object binds the reference at merge time.
package main

import (
	"fmt"

	ucfg "github.com/elastic/go-ucfg"
)

func main() {
	o := []ucfg.Option{ucfg.PathSep("."), ucfg.VarExp}

	c := ucfg.MustNewFrom(map[string]interface{}{"a": "${o}", "o": map[string]interface{}{"x": 1}}, o...)
	err := c.Merge(map[string]interface{}{"a": map[string]interface{}{"z": 2}}, o...)
	var m map[string]interface{}
	err2 := c.Unpack(&m, o...)
	fmt.Printf("(1) %v %v: %v   <- o.z was never set\n", err, err2, m)

	c = ucfg.MustNewFrom(map[string]interface{}{"a": map[string]interface{}{"x": 1}}, o...)
	err = c.Merge(map[string]interface{}{"a": "${o}", "o": map[string]interface{}{"y": 2}}, o...)
	err2 = c.Merge(map[string]interface{}{"o": map[string]interface{}{"y": 3}}, o...)
	m = nil
	err3 := c.Unpack(&m, o...)
	fmt.Printf("(2) %v %v %v: %v   <- a.y keeps the value o.y had at merge time\n", err, err2, err3, m)
}
