// The cycle guard keys on the bare path text, not on (tree, path): the same
// name in two different trees is taken for a cycle.
package main

import (
	"fmt"

	ucfg "github.com/elastic/go-ucfg"
)

func main() {
	o := []ucfg.Option{ucfg.PathSep("."), ucfg.VarExp}
	root := ucfg.MustNewFrom(map[string]interface{}{"v": "${a}"}, o...)
	env2 := ucfg.MustNewFrom(map[string]interface{}{"a": "${x}"}, o...)         // added last, asked first
	env1 := ucfg.MustNewFrom(map[string]interface{}{"x": "${a}", "a": 1}, o...) // x -> env1.a = 1

	// root.v -> a: not in root, env2.a = ${x}: not in env2, env1.x = ${a}: env1.a = 1
	s, err := root.String("v", -1, ucfg.PathSep("."), ucfg.Env(env1), ucfg.Env(env2))
	fmt.Printf("root.v = %q, err = %v\n", s, err)
	if e, ok := err.(ucfg.Error); ok {
		fmt.Println("reason:", e.Reason())
	}
	s, err = env1.String("x", -1, ucfg.PathSep("."))
	fmt.Printf("env1.x read directly = %q, err = %v   (no cycle in env1)\n", s, err)
}
