// a: ${o}; o: {x: 1, y: ${a.x}} is acyclic (a.x -> o.x = 1, o.y -> a.x = 1), and
// o.y can be read - but not through the alias a, and not by Unpack of the root.
package main

import (
	"fmt"

	ucfg "github.com/elastic/go-ucfg"
)

func main() {
	o := []ucfg.Option{ucfg.PathSep("."), ucfg.VarExp}
	root := ucfg.MustNewFrom(map[string]interface{}{
		"a": "${o}",
		"o": map[string]interface{}{"x": 1, "y": "${a.x}"},
	}, o...)

	i, err := root.Int("o.y", -1, o...)
	fmt.Printf("Int(o.y) = %d, err = %v\n", i, err)
	i, err = root.Int("a.y", -1, o...)
	fmt.Printf("Int(a.y) = %d, err = %v\n", i, err)
	ch, _ := root.Child("a", -1, o...)
	i, err = ch.Int("y", -1, o...)
	fmt.Printf("Child(a).Int(y) = %d, err = %v\n", i, err)

	var m map[string]interface{}
	err = root.Unpack(&m, o...)
	fmt.Printf("Unpack(map) = %v, err = %v\n", m, err)
	var s struct{ A struct{ X, Y int } }
	err = root.Unpack(&s, o...)
	fmt.Printf("Unpack(struct{A{X,Y}}) = %+v, err = %v\n", s, err)
	var s2 struct{ O struct{ X, Y int } }
	err = root.Unpack(&s2, o...)
	fmt.Printf("Unpack(struct{O{X,Y}}) = %+v, err = %v\n", s2, err)
}
