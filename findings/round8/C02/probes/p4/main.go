package main

import (
	"fmt"

	ucfg "github.com/elastic/go-ucfg"
	"github.com/elastic/go-ucfg/parse"
)

var O = []ucfg.Option{ucfg.PathSep("."), ucfg.VarExp}

func mk(m interface{}) *ucfg.Config {
	c, err := ucfg.NewFrom(m, O...)
	if err != nil {
		panic(err)
	}
	return c
}

func show(label string, v interface{}, err error) {
	r := interface{}(nil)
	if e, ok := err.(ucfg.Error); ok {
		r = e.Reason()
	}
	fmt.Printf("%-40s => %#v  err=%v reason=%v\n", label, v, err, r)
}

func main() {
	// Env(child)
	{
		root := mk(map[string]interface{}{"v": "${k}", "w": "${s.k}"})
		other := mk(map[string]interface{}{"s": map[string]interface{}{"k": "in-child"}, "k": "in-root-of-child"})
		sub, _ := other.Child("s", -1)
		s, err := root.String("v", -1, ucfg.PathSep("."), ucfg.Env(sub))
		show("Env(child) ${k}", s, err)
		s, err = root.String("w", -1, ucfg.PathSep("."), ucfg.Env(sub))
		show("Env(child) ${s.k}", s, err)
	}
	// early binding at merge time
	{
		c := mk(map[string]interface{}{"a": map[string]interface{}{"x": 1}})
		err := c.Merge(map[string]interface{}{"a": "${o}", "o": map[string]interface{}{"y": 2}}, O...)
		show("merge", nil, err)
		err = c.Merge(map[string]interface{}{"o": map[string]interface{}{"y": 3}}, O...)
		show("merge2", nil, err)
		var m map[string]interface{}
		err = c.Unpack(&m, O...)
		show("early bound?", m, err)
	}
	// Env(nil) and resolvers
	{
		root := mk(map[string]interface{}{"v": "${a}"})
		r := ucfg.Resolve(func(n string) (string, parse.Config, error) { return "from-resolver", parse.NoopConfig, nil })
		s, err := root.String("v", -1, ucfg.PathSep("."), ucfg.Env(nil), r)
		show("Env(nil)+resolver", s, err)
		s, err = root.String("v", -1, ucfg.PathSep("."), r)
		show("resolver only", s, err)
	}
	// top-level list config with references
	{
		c := mk([]interface{}{"${1}", "x", "${0}-${1}"})
		s, err := c.String("", 0, O...)
		show("list ${1}", s, err)
		s, err = c.String("", 2, O...)
		show("list ${0}-${1}", s, err)
	}
	// reference into a list of a ref with index 0 of primitive
	{
		c := mk(map[string]interface{}{"p": 5, "a": "${p.0}", "b": "${p.0.0}", "c": "${p.1:none}"})
		for _, k := range []string{"a", "b", "c"} {
			s, err := c.String(k, -1, O...)
			show(k, s, err)
		}
	}
}
