// The text produced by a splice / operator is run through parse.Value again,
// which changes it (by design of cfgDynamic, but not "the text with every
// reference replaced").
package main

import (
	"fmt"

	ucfg "github.com/elastic/go-ucfg"
)

func main() {
	o := []ucfg.Option{ucfg.PathSep("."), ucfg.VarExp}
	c := ucfg.MustNewFrom(map[string]interface{}{
		"txt": "007", "mode": "on", "a": "foo",
		"t0": "${txt}",       // "007"
		"t1": "${txt:zz}",    // want "007"
		"t2": "${mode:off}",  // want "on"
		"t3": "${a} ",        // want "foo "
		"t4": "'${a}'",       // want "'foo'"
		"t5": "[${a}",        // want "[foo"
		"t6": "\"${a}\" bad", // want "\"foo\" bad"
		"t7": "${a}, ${a}",   // want "foo, foo"
	}, o...)
	for _, k := range []string{"t0", "t1", "t2", "t3", "t4", "t5", "t6", "t7"} {
		s, err := c.String(k, -1, o...)
		fmt.Printf("%s = %q, err = %v\n", k, s, err)
	}
}
