// A nil *Config passed to Env ends the whole lookup: older Env configurations
// and all resolvers are never asked.
package main

import (
	"fmt"

	ucfg "github.com/elastic/go-ucfg"
	"github.com/elastic/go-ucfg/parse"
)

func main() {
	o := []ucfg.Option{ucfg.PathSep("."), ucfg.VarExp}
	root := ucfg.MustNewFrom(map[string]interface{}{"v": "${a}"}, o...)
	env1 := ucfg.MustNewFrom(map[string]interface{}{"a": 1}, o...)
	res := ucfg.Resolve(func(string) (string, parse.Config, error) { return "from-resolver", parse.NoopConfig, nil })

	s, err := root.String("v", -1, ucfg.PathSep("."), ucfg.Env(nil), ucfg.Env(env1))
	fmt.Printf("Env(nil), Env(env1): %q, %v\n", s, err)
	s, err = root.String("v", -1, ucfg.PathSep("."), ucfg.Env(env1), ucfg.Env(nil))
	fmt.Printf("Env(env1), Env(nil): %q, %v   <- env1 never asked\n", s, err)
	s, err = root.String("v", -1, ucfg.PathSep("."), res)
	fmt.Printf("resolver only      : %q, %v\n", s, err)
	s, err = root.String("v", -1, ucfg.PathSep("."), ucfg.Env(nil), res)
	fmt.Printf("Env(nil), resolver : %q, %v   <- resolver never asked\n", s, err)
}
