package main

import (
	"fmt"

	ucfg "github.com/elastic/go-ucfg"
)

var O = []ucfg.Option{ucfg.PathSep("."), ucfg.VarExp}

func mk(m interface{}) *ucfg.Config {
	c, err := ucfg.NewFrom(m, O...)
	if err != nil {
		panic(err)
	}
	return c
}

func show(label string, v interface{}, err error) {
	r := interface{}(nil)
	if e, ok := err.(ucfg.Error); ok {
		r = e.Reason()
	}
	fmt.Printf("%-40s => %#v  err=%v reason=%v\n", label, v, err, r)
}

func main() {
	// 1. false cycle across env
	{
		root := mk(map[string]interface{}{"v": "${a}"})
		env2 := mk(map[string]interface{}{"a": "${x}"})
		env1 := mk(map[string]interface{}{"x": "${a}", "a": 1})
		s, err := root.String("v", -1, ucfg.PathSep("."), ucfg.Env(env1), ucfg.Env(env2))
		show("false cycle env", s, err)
		s, err = env1.String("x", -1, ucfg.PathSep("."))
		show("env1.x directly", s, err)
	}
	// alias
	{
		root := mk(map[string]interface{}{"a": "${o}", "o": map[string]interface{}{"x": 1, "y": "${a.x}"}})
		i, err := root.Int("o.y", -1, O...)
		show("Int(o.y)", i, err)
		i, err = root.Int("a.y", -1, O...)
		show("Int(a.y)", i, err)
		var t struct {
			A struct{ X, Y int }
		}
		err = root.Unpack(&t, O...)
		show("unpack A{X,Y}", t, err)
		var t2 struct {
			O struct{ X, Y int }
		}
		err = root.Unpack(&t2, O...)
		show("unpack O{X,Y}", t2, err)
		var t3 map[string]interface{}
		err = root.Unpack(&t3, O...)
		show("unpack map", t3, err)
		ch, err := root.Child("a", -1, O...)
		show("child a", nil, err)
		i, err = ch.Int("y", -1, O...)
		show("child(a).Int(y)", i, err)
	}
	// Env(nil)
	{
		root := mk(map[string]interface{}{"v": "${a}"})
		env1 := mk(map[string]interface{}{"a": 1})
		s, err := root.String("v", -1, ucfg.PathSep("."), ucfg.Env(env1), ucfg.Env(nil))
		show("Env(env1),Env(nil)", s, err)
		s, err = root.String("v", -1, ucfg.PathSep("."), ucfg.Env(nil), ucfg.Env(env1))
		show("Env(nil),Env(env1)", s, err)
	}
	// merge over a reference to an object
	{
		root := mk(map[string]interface{}{"a": "${o}", "o": map[string]interface{}{"x": 1}})
		err := root.Merge(map[string]interface{}{"a": map[string]interface{}{"z": 2}}, O...)
		show("merge", nil, err)
		var t map[string]interface{}
		err = root.Unpack(&t, O...)
		show("after merge over ref", t, err)
	}
	// :? message
	{
		root := mk(map[string]interface{}{"e": "${x:?boom}", "f": "pre ${x:?boom ${y:zz}} post"})
		s, err := root.String("e", -1, O...)
		show("err op", s, err)
		s, err = root.String("f", -1, O...)
		show("err op nested", s, err)
		var t struct{ E string }
		err = root.Unpack(&t, O...)
		show("unpack err op", t, err)
	}
	// nesting
	{
		root := mk(map[string]interface{}{
			"n": "a", "a": "A", "b": map[string]interface{}{"c": "BC"}, "k": "c",
			"s1": "${${n}}", "s2": "${b.${k}}", "s3": "${x:${y:${z:deep}}}", "s4": "${x:http://h:80/$}}", "s5": "$${a} $$ $} ${a}$", "s6": "${x:+${a}}|${a:+${b.c}}",
			"s7": "${a} ${a} ${a}", "s8": "${x:a:+b:?c}", "s9": "${${x:n}}", "s10": "${b.${x:k}}", "s11": "${b.${x:${k}}}", "s12": "${a:}", "s13": "${x:}",
			"s14": "$", "s15": "$a", "s16": "a:b", "s17": "}:{", "s18": "${a}:${a}",
		})
		for i := 1; i <= 18; i++ {
			k := fmt.Sprintf("s%d", i)
			s, err := root.String(k, -1, O...)
			show(k, s, err)
		}
	}
}
