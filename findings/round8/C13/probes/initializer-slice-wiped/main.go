package main

import (
	"fmt"

	ucfg "github.com/elastic/go-ucfg"
)

// a list type with an InitDefaults method (documented as "not supported", but
// accepted silently)
type IL []int

func (l *IL) InitDefaults() {}

type T struct {
	A int
	L IL `config:"l,replace"`
}

type U struct {
	A int
	L IL
}

func main() {
	c := ucfg.MustNewFrom(map[string]interface{}{"a": 1}) // does not mention l

	t := T{L: IL{1, 2, 3}}
	err := c.Unpack(&t)
	fmt.Printf("replace tag: err=%v L=%v (was [1 2 3])\n", err, t.L)

	u := U{}
	err = c.Unpack(&u)
	fmt.Printf("nil list:    err=%v L==nil: %v (was nil)\n", err, u.L == nil)
}
