package main

import (
	"errors"
	"fmt"
	"reflect"
	"regexp"
	"time"

	ucfg "github.com/elastic/go-ucfg"
)

type Inner struct {
	X int
	Y string
	l int
}

type Def struct {
	A int
	B string
}

func (d *Def) InitDefaults() { d.A = 42 }

type Val struct {
	N int
}

func (v *Val) Validate() error {
	if v.N < 0 {
		return errors.New("neg")
	}
	return nil
}

type SU struct{ s string }

func (u *SU) Unpack(s string) error {
	if s == "bad" {
		return errors.New("bad")
	}
	u.s = s
	return nil
}

type Emb struct {
	E1 int
	E2 []int
}

type T struct {
	A   int
	B   string
	C   float64
	D   time.Duration
	E   bool
	F   uint8
	L   []int
	LS  []Inner
	LP  []*Inner
	Arr [2]int
	AS  [2]Inner
	S   Inner
	P   *Inner
	PI  *int
	I   interface{}
	IS  interface{}
	IL  interface{}
	Df  Def
	V   Val
	U   SU
	Emb `config:",inline"`
	R   *regexp.Regexp
	Ign int `config:",ignore"`
	un  int
	Min int `validate:"min=1"`
	Z   int
}

func fill() *T {
	x := 5
	return &T{
		A: 1, B: "b", C: 1.5, D: time.Second, E: true, F: 3,
		L: []int{1, 2, 3}, LS: []Inner{{1, "a", 1}, {2, "b", 2}}, LP: []*Inner{{1, "a", 1}},
		Arr: [2]int{1, 2}, AS: [2]Inner{{1, "a", 1}, {2, "b", 2}},
		S: Inner{7, "s", 7}, P: &Inner{8, "p", 8}, PI: &x,
		I: 5, IS: Inner{9, "is", 9}, IL: []interface{}{1, 2},
		Df: Def{1, "df"}, V: Val{1}, U: SU{"u"}, Emb: Emb{1, []int{1, 2}},
		R: regexp.MustCompile("a"), Ign: 11, un: 12, Min: 5, Z: 9,
	}
}

// snapshot of everything the property protects (shallow w.r.t. pointers and maps)
func snap(t *T) string {
	return fmt.Sprintf("%v|%v|%v|%v|%v|%v|%v|%v|%p %v|%v|%v|%v|%p|%p|%v|%v|%v|%v|%v|%v|%v|%p|%v|%v|%v|%v",
		t.A, t.B, t.C, t.D, t.E, t.F, t.L, t.LS, t.LP[0], len(t.LP), t.Arr, t.AS, t.S, t.P, t.PI, t.I, t.IS, t.IL, t.Df, t.V, t.U, t.Emb, t.R, t.Ign, t.un, t.Min, t.Z)
}

func main() {
	good := map[string]interface{}{
		"a": 100, "b": "nb", "c": 2.5, "d": "3s", "e": false, "f": 9,
		"l": []int{9}, "ls": []interface{}{map[string]interface{}{"x": 100}}, "lp": []interface{}{map[string]interface{}{"x": 100}},
		"arr": []int{8, 9}, "as": []interface{}{map[string]interface{}{"x": 100}, map[string]interface{}{"y": "n"}},
		"s": map[string]interface{}{"x": 100}, "p": map[string]interface{}{"x": 100}, "pi": 100,
		"i": 100, "is": map[string]interface{}{"x": 100}, "il": []int{7},
		"df": map[string]interface{}{"b": "n"}, "v": map[string]interface{}{"n": 5}, "u": "nu",
		"e1": 100, "e2": []int{9}, "min": 7, "z": 100,
	}
	bad := map[string]interface{}{
		"a": "x", "c": "x", "d": "x", "e": "x", "f": 300,
		"l": []interface{}{9, "x"}, "ls": []interface{}{map[string]interface{}{"x": 100}, map[string]interface{}{"x": "x"}},
		"lp":  []interface{}{map[string]interface{}{"x": 100}, map[string]interface{}{"x": "x"}},
		"arr": []interface{}{8, "x"}, "as": []interface{}{map[string]interface{}{"x": 100}, map[string]interface{}{"x": "x"}},
		"s": map[string]interface{}{"x": 100, "y": []int{1, 2}}, "p": 5, "pi": "x",
		"i": "x", "is": map[string]interface{}{"x": "x"}, "il": []interface{}{7, "x"},
		"df": map[string]interface{}{"a": "x"}, "v": map[string]interface{}{"n": -1}, "u": "bad",
		"e1": "x", "e2": []interface{}{9, "x"}, "r": "(", "min": 0, "z": "x",
	}
	// sanity: good succeeds
	{
		c := ucfg.MustNewFrom(good)
		t := fill()
		if err := c.Unpack(t); err != nil {
			fmt.Println("good config fails:", err)
		}
		fmt.Printf("good: %+v\n", *t)
	}
	optsets := map[string][]ucfg.Option{"default": nil, "append": {ucfg.AppendValues}, "replace": {ucfg.ReplaceValues}, "prepend": {ucfg.PrependValues}}
	n := 0
	for on, opts := range optsets {
		for k, bv := range bad {
			m := map[string]interface{}{}
			for gk, gv := range good {
				m[gk] = gv
			}
			m[k] = bv
			c, err := ucfg.NewFrom(m)
			if err != nil {
				fmt.Println("newfrom", k, err)
				continue
			}
			t := fill()
			before := snap(t)
			func() {
				defer func() {
					if r := recover(); r != nil {
						fmt.Printf("PANIC %s/%s: %v\n", on, k, r)
					}
				}()
				err = c.Unpack(t, opts...)
			}()
			if err == nil {
				fmt.Printf("no error for bad %s/%s\n", on, k)
				continue
			}
			after := snap(t)
			n++
			if before != after {
				fmt.Printf("VIOLATION %s/%s:\n  before %s\n  after  %s\n", on, k, before, after)
			}
		}
	}
	fmt.Println("checked", n)
	_ = reflect.DeepEqual
}
