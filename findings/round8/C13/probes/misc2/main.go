package main

import (
	"fmt"
	"time"

	ucfg "github.com/elastic/go-ucfg"
)

func try(name string, f func()) {
	defer func() {
		if r := recover(); r != nil {
			fmt.Printf("[%s] PANIC: %v\n", name, r)
		}
	}()
	f()
}

type Inner struct{ X, Y int }

func main() {
	try("top-array", func() {
		arr := [3]int{1, 2, 3}
		c := ucfg.MustNewFrom([]interface{}{9, 8, "x"})
		err := c.Unpack(&arr)
		fmt.Printf("[top-array] err=%v arr=%v\n", err != nil, arr)
	})
	try("iface-int-string", func() {
		type T struct{ I interface{} }
		t := T{I: 5}
		c := ucfg.MustNewFrom(map[string]interface{}{"i": "hello"})
		err := c.Unpack(&t)
		fmt.Printf("[iface-int-string] err=%v t=%+v\n", err, t)
	})
	try("ptr-dur", func() {
		type T struct {
			D *time.Duration
			Z int
		}
		d := time.Second
		t := T{D: &d}
		c := ucfg.MustNewFrom(map[string]interface{}{"d": "5s", "z": "x"})
		err := c.Unpack(&t)
		fmt.Printf("[ptr-dur] err=%v d=%v *t.D=%v\n", err != nil, d, *t.D)
	})
	try("slice-of-struct-partial", func() {
		type T struct {
			L []Inner
		}
		t := T{L: []Inner{{1, 1}, {2, 2}}}
		c := ucfg.MustNewFrom(map[string]interface{}{"l": []interface{}{map[string]interface{}{"x": 9}, map[string]interface{}{"x": "bad"}}})
		err := c.Unpack(&t)
		fmt.Printf("[slice-of-struct-partial] err=%v t=%+v\n", err != nil, t)
	})
	try("map-inline", func() {
		type T struct {
			A int
			M map[string]interface{} `config:",inline"`
			Z int
		}
		t := T{A: 1, Z: 2}
		c := ucfg.MustNewFrom(map[string]interface{}{"a": 5, "z": "x"})
		err := c.Unpack(&t)
		fmt.Printf("[map-inline] err=%v t=%+v\n", err != nil, t)
	})
	try("double-ptr", func() {
		type T struct {
			A int
			Z int
		}
		var p *T
		c := ucfg.MustNewFrom(map[string]interface{}{"a": 5, "z": "x"})
		err := c.Unpack(&p)
		fmt.Printf("[double-ptr] err=%v p=%v\n", err != nil, p)
		t := &T{A: 1, Z: 2}
		err = c.Unpack(&t)
		fmt.Printf("[double-ptr2] err=%v t=%+v\n", err != nil, *t)
	})
	try("struct-in-map-in-struct", func() {
		type T struct {
			M map[string]Inner
		}
		t := T{M: map[string]Inner{"a": {1, 1}}}
		c := ucfg.MustNewFrom(map[string]interface{}{"m": map[string]interface{}{"a": map[string]interface{}{"x": 9, "y": "bad"}}})
		err := c.Unpack(&t)
		fmt.Printf("[struct-in-map] err=%v t=%+v\n", err != nil, t)
	})
}
