package main

import (
	"fmt"

	ucfg "github.com/elastic/go-ucfg"
)

func try(name string, f func()) {
	defer func() {
		if r := recover(); r != nil {
			fmt.Printf("[%s] PANIC: %v\n", name, r)
		}
	}()
	f()
}

type Inner struct {
	L []int
}

func main() {
	try("global-append", func() {
		type T struct {
			L []int
			N Inner
			T []int `config:"t,append"`
		}
		c := ucfg.MustNewFrom(map[string]interface{}{"l": []int{9}, "n": map[string]interface{}{"l": []int{9}}, "t": []int{9}})
		for _, o := range []struct {
			n string
			o ucfg.Option
		}{{"append", ucfg.AppendValues}, {"prepend", ucfg.PrependValues}, {"replace", ucfg.ReplaceValues}, {"replaceArr", ucfg.ReplaceArrValues}} {
			t := T{L: []int{1, 2}, N: Inner{L: []int{1, 2}}, T: []int{1, 2}}
			err := c.Unpack(&t, o.o)
			fmt.Printf("[global-%s] err=%v t=%+v\n", o.n, err, t)
		}
		// top-level slice
		l := []int{1, 2}
		cl := ucfg.MustNewFrom([]int{9})
		err := cl.Unpack(&l, ucfg.AppendValues)
		fmt.Printf("[top-append] err=%v l=%v\n", err, l)
		// map of slices
		m := map[string][]int{"l": {1, 2}}
		err = c.Unpack(&m, ucfg.AppendValues)
		fmt.Printf("[map-append] err=%v m=%v\n", err, m)
		// field options
		t := T{L: []int{1, 2}, N: Inner{L: []int{1, 2}}, T: []int{1, 2}}
		err = c.Unpack(&t, ucfg.FieldAppendValues("l", "n.l"))
		fmt.Printf("[field-append] err=%v t=%+v\n", err, t)
	})
}
