package main

import (
	"fmt"

	ucfg "github.com/elastic/go-ucfg"
)

// A field whose (interface) type has InitDefaults in its method set, left nil,
// and a configuration that does not mention it.
type T struct {
	A int
	D ucfg.Initializer
}

func main() {
	defer func() {
		if r := recover(); r != nil {
			fmt.Println("PANIC in Unpack:", r)
		}
	}()
	c := ucfg.MustNewFrom(map[string]interface{}{"a": 1})
	t := T{}
	err := c.Unpack(&t)
	fmt.Printf("err=%v t=%+v\n", err, t)
}
