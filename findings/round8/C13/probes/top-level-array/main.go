package main

import (
	"fmt"

	ucfg "github.com/elastic/go-ucfg"
)

func main() {
	arr := [3]int{1, 2, 3}
	c := ucfg.MustNewFrom([]interface{}{9, 8, "x"})
	err := c.Unpack(&arr)
	fmt.Printf("err=%v\narr=%v (was [1 2 3])\n", err, arr)
}
