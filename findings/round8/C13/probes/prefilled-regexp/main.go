package main

import (
	"fmt"
	"regexp"

	ucfg "github.com/elastic/go-ucfg"
)

type T struct {
	R *regexp.Regexp
}

func main() {
	c := ucfg.MustNewFrom(map[string]interface{}{"r": "b+"})

	empty := T{}
	fmt.Printf("nil field:        err=%v R=%v\n", c.Unpack(&empty), empty.R)

	pre := T{R: regexp.MustCompile("a")}
	fmt.Printf("pre-filled field: err=%v R=%v\n", c.Unpack(&pre), pre.R)
}
