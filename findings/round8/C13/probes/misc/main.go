package main

import (
	"fmt"
	"reflect"

	ucfg "github.com/elastic/go-ucfg"
)

func try(name string, f func()) {
	defer func() {
		if r := recover(); r != nil {
			fmt.Printf("[%s] PANIC: %v\n", name, r)
		}
	}()
	f()
}

type Defaulter interface{ InitDefaults() }

type impl struct{ X int }

func (i *impl) InitDefaults() { i.X = 7 }

// slice type with InitDefaults
type IL []int

func (l *IL) InitDefaults() {}

type Inner struct {
	X int
	Y string
}

func main() {
	// 1. interface-typed field with InitDefaults in its method set, nil, not mentioned
	try("iface-init-nil", func() {
		type T struct {
			A int
			D Defaulter
		}
		c := ucfg.MustNewFrom(map[string]interface{}{"a": 1})
		t := T{}
		err := c.Unpack(&t)
		fmt.Printf("[iface-init-nil] err=%v t=%+v\n", err, t)
	})
	try("iface-init-set", func() {
		type T struct {
			A int
			D Defaulter
		}
		c := ucfg.MustNewFrom(map[string]interface{}{"a": 1})
		t := T{D: &impl{X: 3}}
		err := c.Unpack(&t)
		fmt.Printf("[iface-init-set] err=%v t=%+v D=%+v\n", err, t, t.D)
	})
	try("ucfg.Initializer field", func() {
		type T struct {
			A int
			D ucfg.Initializer
		}
		c := ucfg.MustNewFrom(map[string]interface{}{"a": 1})
		t := T{}
		err := c.Unpack(&t)
		fmt.Printf("[ucfg.Initializer field] err=%v t=%+v\n", err, t)
	})

	// 2. slice type with InitDefaults, not mentioned, ReplaceValues
	try("IL-replace", func() {
		type T struct {
			A int
			L IL
		}
		c := ucfg.MustNewFrom(map[string]interface{}{"a": 1})
		t := T{L: IL{1, 2, 3}}
		err := c.Unpack(&t, ucfg.ReplaceValues)
		fmt.Printf("[IL-replace] err=%v t=%+v\n", err, t)
		t = T{L: IL{1, 2, 3}}
		err = c.Unpack(&t, ucfg.AppendValues)
		fmt.Printf("[IL-append] err=%v t=%+v\n", err, t)
		t = T{}
		err = c.Unpack(&t)
		fmt.Printf("[IL-nil] err=%v t=%+v Lnil=%v\n", err, t, t.L == nil)
	})
	try("IL-replace-tag", func() {
		type T struct {
			A int
			L IL `config:"l,replace"`
		}
		c := ucfg.MustNewFrom(map[string]interface{}{"a": 1})
		t := T{L: IL{1, 2, 3}}
		err := c.Unpack(&t)
		fmt.Printf("[IL-replace-tag] err=%v t=%+v\n", err, t)
	})

	// 3. inline nil pointer with nothing mentioned
	try("inline-nil-ptr", func() {
		type T struct {
			A int
			I *Inner `config:",inline"`
		}
		c := ucfg.MustNewFrom(map[string]interface{}{"a": 1})
		t := T{}
		err := c.Unpack(&t)
		fmt.Printf("[inline-nil-ptr] err=%v t=%+v\n", err, t)
	})
	// 3b nil slice fields stay nil?
	try("nil-slice", func() {
		type T struct {
			A int
			L []int
			M map[string]int
			S Inner
			P *Inner
			I interface{}
		}
		c := ucfg.MustNewFrom(map[string]interface{}{"a": 1})
		t := T{}
		err := c.Unpack(&t)
		fmt.Printf("[nil-slice] err=%v t=%+v Lnil=%v Mnil=%v\n", err, t, t.L == nil, t.M == nil)
	})
	// 4. struct field explicit null in config
	try("null-struct", func() {
		type T struct {
			A int
			S Inner
			L []int
			M map[string]int
			P *Inner
			I interface{}
			Str string
		}
		c := ucfg.MustNewFrom(map[string]interface{}{"a": 1, "s": nil, "l": nil, "m": nil, "p": nil, "i": nil, "str": nil})
		t := T{S: Inner{1, "y"}, L: []int{1}, M: map[string]int{"a": 1}, P: &Inner{2, "z"}, I: 5, Str: "s"}
		before := fmt.Sprintf("%+v %+v", t, t.P)
		err := c.Unpack(&t)
		after := fmt.Sprintf("%+v %+v", t, t.P)
		fmt.Printf("[null-struct] err=%v\n before=%s\n after= %s\n", err, before, after)
		t = T{S: Inner{1, "y"}, L: []int{1}, M: map[string]int{"a": 1}, P: &Inner{2, "z"}, I: 5, Str: "s"}
		err = c.Unpack(&t, ucfg.ReplaceValues)
		after = fmt.Sprintf("%+v %+v", t, t.P)
		fmt.Printf("[null-struct replace] err=%v\n after= %s\n", err, after)
	})
	// 5. array at struct level fails half way
	try("array-fail", func() {
		type T struct {
			A  [3]int
			PA *[3]int
			IA interface{}
		}
		c := ucfg.MustNewFrom(map[string]interface{}{"a": []interface{}{9, 8, "x"}})
		t := T{A: [3]int{1, 2, 3}}
		err := c.Unpack(&t)
		fmt.Printf("[array-fail] err=%v t=%+v\n", err != nil, t)
		c = ucfg.MustNewFrom(map[string]interface{}{"ia": []interface{}{9, 8, "x"}})
		arr := [3]int{1, 2, 3}
		t = T{IA: arr}
		err = c.Unpack(&t)
		fmt.Printf("[array-fail-iface] err=%v t=%+v\n", err != nil, t)
	})
	// 6. fail late, check all
	try("fail-late", func() {
		type T struct {
			A int
			B string
			L []Inner
			S Inner
			Z int
		}
		c := ucfg.MustNewFrom(map[string]interface{}{"a": 5, "b": "new", "l": []interface{}{map[string]interface{}{"x": 100}}, "s": map[string]interface{}{"x": 50}, "z": "bad"})
		t := T{A: 1, B: "old", L: []Inner{{1, "a"}, {2, "b"}}, S: Inner{3, "c"}, Z: 9}
		cp := t
		cp.L = append([]Inner(nil), t.L...)
		err := c.Unpack(&t)
		fmt.Printf("[fail-late] err=%v same=%v\n", err != nil, reflect.DeepEqual(t, cp))
	})
}
