package main

import (
	"fmt"

	ucfg "github.com/elastic/go-ucfg"
)

// Child of a null entry (a nil pad, or a nil merged in) succeeds and hands out
// a fresh Config that is not part of the tree: writes through it are lost.
func main() {
	sep := ucfg.PathSep(".")
	c := ucfg.New()
	c.SetInt("a", 2, 7) // a = [nil, nil, 7]
	has, _ := c.Has("a", 0)
	ch, err := c.Child("a", 0)
	fmt.Println("Has(a,0):", has, " Child(a,0) err:", err)
	fmt.Println("SetInt on the child:", ch.SetInt("x", -1, 1))
	seen, err := c.Has("a.0.x", -1, sep)
	fmt.Println("visible through the parent:", seen, err)

	d := ucfg.MustNewFrom(map[string]interface{}{"n": nil})
	ch, err = d.Child("n", -1)
	fmt.Println("Child(n) of a merged nil:", ch != nil, err)
	ch.SetInt("x", -1, 1)
	seen, err = d.Has("n.x", -1, sep)
	fmt.Println("visible through the parent:", seen, err)
}
