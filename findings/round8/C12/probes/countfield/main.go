package main

import (
	"fmt"

	ucfg "github.com/elastic/go-ucfg"
)

// CountField claims to support PathSep but looks the name up literally in the
// top-level dictionary, so it disagrees with Has and the getters for every
// dotted path and for every name that is an index.
func main() {
	sep := ucfg.PathSep(".")
	c := ucfg.New()
	c.SetInt("a.b", 2, 1, sep) // a.b = [nil, nil, 1]
	h, _ := c.Has("a.b", -1, sep)
	n, err := c.CountField("a.b", sep)
	fmt.Println("Has(a.b):", h, " CountField(a.b):", n, err)

	l := ucfg.New()
	l.SetInt("1", -1, 5) // the name "1" is an index: l = [nil, 5]
	h, _ = l.Has("1", -1)
	v, _ := l.Int("1", -1)
	n, err = l.CountField("1")
	fmt.Println("Has(1):", h, " Int(1):", v, " CountField(1):", n, err)

	// borderline: a dictionary counts as 1 entry, but index 0 is not addressable
	d := ucfg.New()
	d.SetInt("a.x", -1, 1, sep)
	n, _ = d.CountField("a")
	h, _ = d.Has("a", 0)
	_, err = d.Child("a", 0)
	fmt.Println("CountField(a) of a dictionary:", n, " Has(a,0):", h, " Child(a,0):", err)
}
