package main

import (
	"fmt"

	ucfg "github.com/elastic/go-ucfg"
)

// Reads, Has and Remove go through a reference to the linked config, and so do
// writes two or more levels below the reference. A write directly below the
// reference fails, with a message that contradicts itself.
func main() {
	sep := ucfg.PathSep(".")
	src := map[string]interface{}{
		"a": map[string]interface{}{"k": map[string]interface{}{"q": 1}, "r": 1},
		"b": "${a}",
	}
	c := ucfg.MustNewFrom(src, ucfg.VarExp, sep)
	v, err := c.Int("b.r", -1, sep)
	fmt.Println("Int(b.r):", v, err)
	fmt.Println("SetInt(b.k.y):", c.SetInt("b.k.y", -1, 5, sep))
	v, err = c.Int("a.k.y", -1, sep)
	fmt.Println("  landed in a.k.y:", v, err)
	fmt.Println("SetInt(b.x):  ", c.SetInt("b.x", -1, 5, sep))
	ok, err := c.Remove("b.r", -1, sep)
	fmt.Println("Remove(b.r):", ok, err)
}
