package main

import (
	"fmt"

	ucfg "github.com/elastic/go-ucfg"
)

// A child handle obtained before a Merge stops being a live view as soon as
// the Merge touches that child: mergeConfigDict / mergeConfigMergeArr merge
// into the old node and then store a *copy* of it in the parent.
func main() {
	sep := ucfg.PathSep(".")
	c := ucfg.New()
	c.SetInt("a.x", -1, 1, sep)
	ch, _ := c.Child("a", -1)
	fmt.Println("merge:", c.Merge(map[string]interface{}{"a": map[string]interface{}{"y": 2}}))
	hy, _ := ch.Has("y", -1)
	fmt.Println("old handle sees the merged key y:", hy)
	ch.SetInt("z", -1, 3)
	hz, _ := c.Has("a.z", -1, sep)
	fmt.Println("write through the old handle visible through the parent:", hz)
	c.SetInt("a.w", -1, 4, sep)
	hw, _ := ch.Has("w", -1)
	fmt.Println("write through the parent visible through the old handle:", hw)

	// same for list elements
	l := ucfg.New()
	l.SetInt("l.0.x", -1, 1, sep)
	e, _ := l.Child("l", 0)
	l.Merge(map[string]interface{}{"l": []interface{}{map[string]interface{}{"y": 2}}})
	e.SetInt("z", -1, 3)
	hz, _ = l.Has("l.0.z", -1, sep)
	fmt.Println("list element: write through the old handle visible:", hz)
}
