package main

import (
	"fmt"

	ucfg "github.com/elastic/go-ucfg"
)

func main() {
	c := ucfg.New()
	ch := ucfg.New()
	fmt.Println(c.SetChild("ch", -1, ch))
	fmt.Println(ch.SetChild("up", -1, c)) // accepted without an error
	// any getter that has to report an error now renders the path of c,
	// which walks c -> ch -> c -> ... without end
	_, err := c.Int("nope", -1)
	fmt.Println(err)
}
