package main

import (
	"fmt"

	ucfg "github.com/elastic/go-ucfg"
)

// borderline (documented fallback in parsePath): with EnableNumKeys the
// address (name "5", idx 0) and the dotted path "5.0" are different places.
func main() {
	opts := []ucfg.Option{ucfg.PathSep("."), ucfg.EnableNumKeys(true)}
	c := ucfg.New()
	fmt.Println(c.SetInt("5", 0, 7, opts...))
	v, err := c.Int("5", 0, opts...)
	fmt.Println("Int(5, 0):", v, err)
	v, err = c.Int("5.0", -1, opts...)
	fmt.Println("Int(5.0):", v, err)
	fmt.Println("IsDict:", c.IsDict(), "IsArray:", c.IsArray())
}
