// A resolver (here: the process environment) answers a name with a list that
// mentions the same name again. The cyclic-reference error raised on re-entry
// is handed to the resolvers, the resolver "knows the name", answers again,
// the answer is parsed again ... without bound.
//
// run: timeout 20 go run .     (ends with "fatal error: stack overflow")
package main

import (
	"fmt"
	"os"
	"runtime/debug"

	ucfg "github.com/elastic/go-ucfg"
)

func main() {
	debug.SetMaxStack(8 << 20) // fail fast; with the default 1GB it takes minutes
	os.Setenv("SEEDS", "${SEEDS},localhost:9200")

	opts := []ucfg.Option{ucfg.PathSep("."), ucfg.VarExp, ucfg.ResolveEnv}
	c := ucfg.MustNewFrom(map[string]interface{}{"hosts": "${SEEDS}"}, opts...)

	var m map[string]interface{}
	err := c.Unpack(&m, opts...) // never returns
	fmt.Println(m, err)
}
