package main

import (
	"fmt"
	"runtime/debug"
	"sort"

	ucfg "github.com/elastic/go-ucfg"
	"github.com/elastic/go-ucfg/diff"
)

var opts = []ucfg.Option{ucfg.PathSep("."), ucfg.VarExp}

type tc struct {
	name string
	cfg  map[string]interface{}
	keys []string // keys to read with String
}

func try(name string, f func()) {
	defer func() {
		if r := recover(); r != nil {
			fmt.Printf("  %-28s PANIC %v\n", name, r)
		}
	}()
	f()
}

func main() {
	debug.SetMaxStack(64 << 20)
	tests := []tc{
		{"repeat", map[string]interface{}{"a": "x", "b": "${a}-${a}"}, []string{"b"}},
		{"diamond", map[string]interface{}{"a": "x", "b": "${a}", "c": "${a}", "d": "${b}${c}"}, []string{"d"}},
		{"diamond-splice", map[string]interface{}{"a": "x", "b": "1${a}", "c": "2${a}", "d": "${b}${c}"}, []string{"d"}},
		{"chain", map[string]interface{}{"a": "x", "b": "${a}", "c": "${b}", "d": "${c}"}, []string{"d", "c"}},
		{"chain-twice", map[string]interface{}{"a": "x", "b": "${a}", "c": "${b}", "d": "${c}${c}"}, []string{"d", "c"}},
		{"self", map[string]interface{}{"a": "${a}"}, []string{"a"}},
		{"self-default", map[string]interface{}{"a": "${a:dflt}"}, []string{"a"}},
		{"two-cycle", map[string]interface{}{"a": "${b}", "b": "${a}"}, []string{"a", "b"}},
		{"two-cycle-default", map[string]interface{}{"a": "${b:d}", "b": "${a}"}, []string{"a", "b"}},
		{"ancestor", map[string]interface{}{"a": map[string]interface{}{"b": "${a}"}}, []string{"a.b"}},
		{"ancestor-splice", map[string]interface{}{"a": map[string]interface{}{"b": "x${a}"}}, []string{"a.b"}},
		{"descendant", map[string]interface{}{"a": "${b.c}", "b": map[string]interface{}{"c": "v"}}, []string{"a"}},
		{"obj-ref", map[string]interface{}{"a": "${b}", "b": map[string]interface{}{"c": "v", "d": "${b.c}"}}, []string{"a.d", "a.c"}},
		{"obj-ref-twice", map[string]interface{}{"a": "${b}", "a2": "${b}", "b": map[string]interface{}{"c": "v", "d": "${b.c}"}}, []string{"a.d", "a2.c"}},
		{"obj-ref-back", map[string]interface{}{"a": "${b}", "b": map[string]interface{}{"c": "${a}"}}, []string{"a.c", "b.c"}},
		{"nested-name", map[string]interface{}{"n": "a", "a": "x", "r": "${${n}}"}, []string{"r"}},
		{"nested-name-self", map[string]interface{}{"n": "r", "r": "${${n}}"}, []string{"r"}},
		{"nested-name-twice", map[string]interface{}{"n": "a", "aa": "x", "r": "${${n}${n}}"}, []string{"r"}},
		{"default-ref", map[string]interface{}{"a": "x", "r": "${missing:${a}}"}, []string{"r"}},
		{"default-ref-same", map[string]interface{}{"a": "", "r": "${a:${a}}"}, []string{"r"}},
		{"default-ref-same2", map[string]interface{}{"a": "x", "r": "${a:${a}}${a}"}, []string{"r"}},
		{"alt", map[string]interface{}{"a": "x", "r": "${a:+${a}}"}, []string{"r"}},
		{"alt-self", map[string]interface{}{"r": "${r:+y}"}, []string{"r"}},
		{"err-self", map[string]interface{}{"r": "${r:?boom}"}, []string{"r"}},
		{"arr-self", map[string]interface{}{"c": []interface{}{"a", "${c.1}"}}, []string{"c.1"}},
		{"arr-other", map[string]interface{}{"c": []interface{}{"a", "${c.0}", "${c.0}${c.1}"}}, []string{"c.2"}},
		{"arr-whole", map[string]interface{}{"c": []interface{}{"a", "${c}"}}, []string{"c.1"}},
		{"obj-in-splice", map[string]interface{}{"a": map[string]interface{}{"x": 1}, "r": "v${a}"}, []string{"r"}},
		{"ref-to-ref-obj", map[string]interface{}{"o": map[string]interface{}{"x": 1}, "a": "${o}", "b": "${a}", "c": "${b}${b}"}, []string{"b.x"}},
		{"idx0-prim", map[string]interface{}{"a": "x", "r": "${a.0}"}, []string{"r"}},
		{"idx0-ref", map[string]interface{}{"a": "${r.0}", "r": "${a.0}"}, []string{"r"}},
		{"through-ref", map[string]interface{}{"a": "${b}", "b": map[string]interface{}{"c": "v"}, "r": "${a.c}"}, []string{"r"}},
		{"through-ref-cycle", map[string]interface{}{"a": "${b}", "b": map[string]interface{}{"c": "${a.c}"}}, []string{"a.c", "b.c"}},
		{"through-ref-twice", map[string]interface{}{"a": "${b}", "b": map[string]interface{}{"c": "v", "d": "w"}, "r": "${a.c}${a.d}"}, []string{"r"}},
		{"through-ref-chain", map[string]interface{}{"a": "${b}", "b": "${o}", "o": map[string]interface{}{"c": "v", "d": "w"}, "r": "${a.c}${a.d}"}, []string{"r"}},
	}

	for _, t := range tests {
		fmt.Println("==", t.name)
		c, err := ucfg.NewFrom(t.cfg, opts...)
		if err != nil {
			fmt.Println("  NewFrom err:", err)
			continue
		}
		for _, k := range t.keys {
			try("String "+k, func() {
				s, err := c.String(k, -1, opts...)
				fmt.Printf("  String(%s) = %q, %v\n", k, s, err)
			})
			try("Has "+k, func() {
				s, err := c.Has(k, -1, opts...)
				fmt.Printf("  Has(%s) = %v, %v\n", k, s, err)
			})
		}
		try("Unpack map", func() {
			m := map[string]interface{}{}
			err := c.Unpack(&m, opts...)
			fmt.Printf("  Unpack = %v, %v\n", m, err)
		})
		try("FlattenedKeys", func() {
			ks := c.FlattenedKeys(opts...)
			fmt.Printf("  Flat = %v\n", ks)
		})
		try("Compare", func() {
			d := diff.CompareConfigs(c, c, opts...)
			var all []string
			for k, v := range d {
				for _, s := range v {
					all = append(all, k.String()+s)
				}
			}
			sort.Strings(all)
			fmt.Printf("  Diff = %v\n", all)
		})
		names := c.GetFields()
		sort.Strings(names)
		for _, n := range names {
			try("CountField "+n, func() {
				cnt, err := c.CountField(n, opts...)
				fmt.Printf("  Count(%s) = %v, %v\n", n, cnt, err)
			})
		}
	}
}
