// FlattenedKeys lists the settings of a referenced object under the path of
// the target, not of the setting that holds the reference, so the key appears
// twice and the referring setting not at all. CompareConfigs therefore does not
// notice that such a setting was added or removed.
package main

import (
	"fmt"
	"os"

	ucfg "github.com/elastic/go-ucfg"
	"github.com/elastic/go-ucfg/diff"
)

func main() {
	opts := []ucfg.Option{ucfg.PathSep("."), ucfg.VarExp}
	old := ucfg.MustNewFrom(map[string]interface{}{"b": map[string]interface{}{"c": 1}}, opts...)
	nw := ucfg.MustNewFrom(map[string]interface{}{"b": map[string]interface{}{"c": 1}, "a": "${b}"}, opts...)

	keys := nw.FlattenedKeys(opts...)
	fmt.Println("FlattenedKeys(new) =", keys, " (expected [a.c b.c])")
	d := diff.CompareConfigs(old, nw, opts...)
	fmt.Println("diff:", d, " HasChanged =", d.HasChanged())
	if !d.HasChanged() {
		fmt.Println("VIOLATION: setting 'a' was added, the diff is empty")
		os.Exit(1)
	}
}
