// Two different settings that happen to have the same name - one in the
// configuration, one in an Env configuration - are taken for one reference by
// the cycle guard (it is keyed by the path text only).
//
//   main: x = ${a}, a = ${b}        env: b = ${a}, a = 5
//
// x -> main.a -> env.b -> env.a = 5: no reference is re-entered. String("x")
// fails, String("a") works, and Unpack works only because it visits "a" before
// "x" and caches it.
package main

import (
	"fmt"
	"os"

	ucfg "github.com/elastic/go-ucfg"
)

func main() {
	opts := []ucfg.Option{ucfg.PathSep("."), ucfg.VarExp}
	env := ucfg.MustNewFrom(map[string]interface{}{"b": "${a}", "a": 5}, opts...)
	c := ucfg.MustNewFrom(map[string]interface{}{"x": "${a}", "a": "${b}"}, opts...)
	o := append([]ucfg.Option{ucfg.Env(env)}, opts...)

	a, errA := c.String("a", -1, o...)
	fmt.Printf("String(a) = %q, %v\n", a, errA)
	x, errX := c.String("x", -1, o...)
	fmt.Printf("String(x) = %q, %v\n", x, errX)
	var m map[string]interface{}
	err := c.Unpack(&m, o...)
	fmt.Printf("Unpack    = %v, %v\n", m, err)

	var onlyX struct {
		X string `config:"x"`
	}
	err = c.Unpack(&onlyX, o...)
	fmt.Printf("Unpack{X} = %+v, %v\n", onlyX, err)

	if errX != nil || err != nil {
		fmt.Println("VIOLATION: x never re-enters a reference, but does not resolve")
		os.Exit(1)
	}
}
