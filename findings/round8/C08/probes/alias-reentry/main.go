// A setting inside an object refers to its sibling through an alias of the
// object: no cycle anywhere, but reading it through the alias reports one.
package main

import (
	"fmt"
	"os"

	ucfg "github.com/elastic/go-ucfg"
)

var opts = []ucfg.Option{ucfg.PathSep("."), ucfg.VarExp}

func main() {
	c := ucfg.MustNewFrom(map[string]interface{}{
		"o": map[string]interface{}{"m": "v", "l": "${a.m}"},
		"a": "${o}", // alias of o
	}, opts...)

	bad := false
	s, err := c.String("o.l", -1, opts...)
	fmt.Printf("String(o.l) = %q, %v\n", s, err)
	s, err = c.String("a.m", -1, opts...)
	fmt.Printf("String(a.m) = %q, %v\n", s, err)
	s, err = c.String("a.l", -1, opts...)
	fmt.Printf("String(a.l) = %q, %v\n", s, err)
	bad = bad || err != nil

	var m map[string]interface{}
	err = c.Unpack(&m, opts...)
	fmt.Printf("Unpack = %v, %v\n", m, err)
	bad = bad || err != nil

	var t struct {
		A struct {
			L string `config:"l"`
		} `config:"a"`
	}
	err = c.Unpack(&t, opts...)
	fmt.Printf("Unpack struct = %+v, %v\n", t, err)
	bad = bad || err != nil
	fmt.Println("FlattenedKeys =", c.FlattenedKeys(opts...))
	if bad {
		fmt.Println("VIOLATION: no reference is re-entered while being evaluated, yet the read fails")
		os.Exit(1)
	}
}
