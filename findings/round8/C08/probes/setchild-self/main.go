// SetChild accepts the configuration itself (or an ancestor) as child. After
// that the tree is its own parent and read operations do not finish:
//   go run . flat   FlattenedKeys recurses without bound (stack overflow)
//   go run . ref    reading a reference spins in cfgRoot (parent chain loops)
package main

import (
	"fmt"
	"os"
	"runtime/debug"

	ucfg "github.com/elastic/go-ucfg"
)

func main() {
	debug.SetMaxStack(8 << 20)
	opts := []ucfg.Option{ucfg.PathSep("."), ucfg.VarExp}
	c := ucfg.MustNewFrom(map[string]interface{}{"k": "v", "r": "${k}"}, opts...)
	fmt.Println("SetChild(me, c) =", c.SetChild("me", -1, c))

	if len(os.Args) > 1 && os.Args[1] == "ref" {
		s, err := c.String("r", -1, opts...) // never returns
		fmt.Println(s, err)
		return
	}
	fmt.Println(c.FlattenedKeys(opts...)) // stack overflow
}
