package main

import (
	"fmt"
	"time"

	ucfg "github.com/elastic/go-ucfg"
	"github.com/elastic/go-ucfg/diff"
)

var opts = []ucfg.Option{ucfg.PathSep("."), ucfg.VarExp}

type Inner struct {
	K int    `config:"k"`
	S string `config:"s"`
}

type U struct{ v string }

func (u *U) Unpack(c *ucfg.Config) error {
	s, err := c.String("s", -1, opts...)
	u.v = s
	return err
}

func main() {
	src := map[string]interface{}{
		"o":    map[string]interface{}{"k": 1, "s": "${o.k}-${o.k}"},
		"a":    "${o}",
		"b":    "${a}",
		"l":    []interface{}{"${o}", "${a}", "${b}"},
		"lr":   "${l}",
		"d":    "${dur}",
		"dur":  "5s",
		"n":    "${num}",
		"num":  7,
		"nn":   "${n}",
		"nil":  nil,
		"rnil": "${nil}",
	}
	c := ucfg.MustNewFrom(src, opts...)

	var t struct {
		A    Inner             `config:"a"`
		B    *Inner            `config:"b"`
		C    *ucfg.Config      `config:"b"`
		L    []Inner           `config:"l"`
		LR   []*Inner          `config:"lr"`
		LA   [3]Inner          `config:"lr"`
		M    map[string]Inner  `config:"lr"`
		D    time.Duration     `config:"d"`
		N    uint8             `config:"nn" validate:"min=1"`
		F    float32           `config:"nn"`
		I    interface{}       `config:"lr"`
		U    U                 `config:"b"`
		PU   *U                `config:"a"`
		AK   int               `config:"b.k"`
		AS   string            `config:"b.s"`
		LS   string            `config:"lr.2.s"`
		RN   *Inner            `config:"rnil"`
		RNS  string            `config:"rnil"`
		Pre  map[string]interface{} `config:"b"`
	}
	t.Pre = map[string]interface{}{"k": 0}
	err := c.Unpack(&t, opts...)
	fmt.Printf("%+v\nerr=%v\n", t, err)
	if t.B != nil {
		fmt.Println(*t.B)
	}

	old := ucfg.MustNewFrom(map[string]interface{}{"b": map[string]interface{}{"c": 1}}, opts...)
	nw := ucfg.MustNewFrom(map[string]interface{}{"b": map[string]interface{}{"c": 1}, "a": "${b}"}, opts...)
	d := diff.CompareConfigs(old, nw, opts...)
	fmt.Println("diff:", d, "changed:", d.HasChanged())
}
