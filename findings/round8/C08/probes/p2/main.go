package main

import (
	"fmt"
	"os"
	"runtime/debug"

	ucfg "github.com/elastic/go-ucfg"
	"github.com/elastic/go-ucfg/parse"
)

var opts = []ucfg.Option{ucfg.PathSep("."), ucfg.VarExp}

func main() {
	debug.SetMaxStack(32 << 20)
	switch os.Args[1] {
	case "resolver-array":
		// resolver answers with a list that mentions the same name again
		res := ucfg.Resolve(func(name string) (string, parse.Config, error) {
			if name == "x" {
				return `["${x}"]`, parse.DefaultConfig, nil
			}
			return "", parse.DefaultConfig, ucfg.ErrMissing
		})
		c := ucfg.MustNewFrom(map[string]interface{}{"r": "${x}"}, opts...)
		o := append([]ucfg.Option{res}, opts...)
		m := map[string]interface{}{}
		err := c.Unpack(&m, o...)
		fmt.Println(m, err)
		fmt.Println(c.FlattenedKeys(o...))
	case "env-false-cycle":
		env := ucfg.MustNewFrom(map[string]interface{}{"b": "${a}", "a": 5}, opts...)
		c := ucfg.MustNewFrom(map[string]interface{}{"x": "${a}", "a": "${b}"}, opts...)
		o := append([]ucfg.Option{ucfg.Env(env)}, opts...)
		s, err := c.String("a", -1, o...)
		fmt.Printf("a=%q %v\n", s, err)
		s, err = c.String("x", -1, o...)
		fmt.Printf("x=%q %v\n", s, err)
		m := map[string]interface{}{}
		err = c.Unpack(&m, o...)
		fmt.Println(m, err)
	case "path-twice":
		c := ucfg.MustNewFrom(map[string]interface{}{"p": "${o}", "o": map[string]interface{}{"k": 1, "p2": "${o}"}}, opts...)
		s, err := c.String("p.k", -1, opts...)
		fmt.Printf("p.k=%q %v\n", s, err)
		s, err = c.String("p.p2.k", -1, opts...)
		fmt.Printf("p.p2.k=%q %v\n", s, err)
		s, err = c.String("o.p2.k", -1, opts...)
		fmt.Printf("o.p2.k=%q %v\n", s, err)
		h, err := c.Has("p.p2.k", -1, opts...)
		fmt.Printf("Has p.p2.k=%v %v\n", h, err)
		fmt.Println(c.FlattenedKeys(opts...))
	case "setchild-self-flat":
		c := ucfg.New()
		c.SetString("k", -1, "v")
		err := c.SetChild("me", -1, c)
		fmt.Println("setchild", err)
		fmt.Println(c.FlattenedKeys())
	case "setchild-self-ref":
		c := ucfg.MustNewFrom(map[string]interface{}{"k": "v", "r": "${k}"}, opts...)
		err := c.SetChild("me", -1, c)
		fmt.Println("setchild", err)
		s, err := c.String("r", -1, opts...)
		fmt.Printf("r=%q %v\n", s, err)
	case "merge-twice":
		c := ucfg.MustNewFrom(map[string]interface{}{"o": map[string]interface{}{"k": 1}, "a": "${o}"}, opts...)
		err := c.Merge(map[string]interface{}{"o": map[string]interface{}{"j": 2}, "a": "${o}"}, opts...)
		fmt.Println(err)
		m := map[string]interface{}{}
		err = c.Unpack(&m, opts...)
		fmt.Println(m, err)
	}
}
