// A uintptr target is served by the unguarded ConvertibleTo case of
// doReifyPrimitive: negative and oversized numbers wrap around.
package main

import (
	"fmt"

	ucfg "github.com/elastic/go-ucfg"
)

func main() {
	c, _ := ucfg.NewFrom(map[string]interface{}{"a": -1, "f": -1.5, "g": 1e30})
	var t1 struct{ A uintptr }
	err := c.Unpack(&t1)
	fmt.Printf("-1 -> uintptr: %d, err=%v\n", t1.A, err)
	var t2 struct{ F uintptr }
	err = c.Unpack(&t2)
	fmt.Printf("-1.5 -> uintptr: %d, err=%v\n", t2.F, err)
	var t3 struct{ G uintptr }
	err = c.Unpack(&t3)
	fmt.Printf("1e30 -> uintptr: %d, err=%v\n", t3.G, err)
}
