package main

import (
	"fmt"
	"math"
	"time"

	ucfg "github.com/elastic/go-ucfg"
	ujson "github.com/elastic/go-ucfg/json"
	"github.com/elastic/go-ucfg/parse"
	uyaml "github.com/elastic/go-ucfg/yaml"
)

func env(m map[string]string) ucfg.Option {
	return ucfg.Resolve(func(name string) (string, parse.Config, error) {
		if v, ok := m[name]; ok {
			return v, parse.DefaultConfig, nil
		}
		return "", parse.DefaultConfig, ucfg.ErrMissing
	})
}

func main() {
	_ = math.Pi
	// H1: expanded text below MinInt64
	{
		opts := []ucfg.Option{ucfg.VarExp, env(map[string]string{"X": "-9223372036854775809"})}
		c, err := ucfg.NewFrom(map[string]interface{}{"a": "${X}", "b": "-9223372036854775809"}, opts...)
		fmt.Println("H1 new:", err)
		var t struct{ A int64 }
		err = c.Unpack(&t, opts...)
		fmt.Println("H1 expanded -> int64:", t.A, err)
		var t2 struct{ B int64 }
		err = c.Unpack(&t2, opts...)
		fmt.Println("H1 literal string -> int64:", t2.B, err)
		i, err := c.Int("a", -1, opts...)
		fmt.Println("H1 Int getter:", i, err)
	}
	// H2: json precision
	{
		c, err := ujson.NewConfig([]byte(`{"a": 9007199254740993, "b": 18446744073709551615}`))
		fmt.Println("H2 new:", err)
		var t struct{ A int64 }
		err = c.Unpack(&t)
		fmt.Println("H2 json 9007199254740993 -> int64:", t.A, err)
		var t2 struct{ B uint64 }
		err = c.Unpack(&t2)
		fmt.Println("H2 json maxuint64 -> uint64:", t2.B, err)
		c, err = uyaml.NewConfig([]byte("a: 9007199254740993\nb: 18446744073709551615\nc: -9223372036854775809\n"))
		var t3 struct {
			A int64
			B uint64
		}
		err = c.Unpack(&t3)
		fmt.Println("H2 yaml:", t3, err)
		var t4 struct{ C int64 }
		err = c.Unpack(&t4)
		fmt.Println("H2 yaml -2^63-1 -> int64:", t4, err)
	}
	// H3: uintptr
	{
		c, _ := ucfg.NewFrom(map[string]interface{}{"a": -1, "f": -1.5, "g": 1e30})
		var t struct{ A uintptr }
		err := c.Unpack(&t)
		fmt.Println("H3 -1 -> uintptr:", t.A, err)
		var t2 struct{ F uintptr }
		err = c.Unpack(&t2)
		fmt.Println("H3 -1.5 -> uintptr:", t2.F, err)
		var t3 struct{ G uintptr }
		err = c.Unpack(&t3)
		fmt.Println("H3 1e30 -> uintptr:", t3.G, err)
		var t4 struct{ A complex128 }
		err = c.Unpack(&t4)
		fmt.Println("H3 -1 -> complex128:", t4.A, err)
	}
	// H4: ref to number into Duration
	{
		c, _ := ucfg.NewFrom(map[string]interface{}{"n": 5, "f": 1.5, "d": "${n}", "e": "${f}", "z": 0, "y": "${z}"}, ucfg.VarExp)
		var t struct{ D time.Duration }
		err := c.Unpack(&t, ucfg.VarExp)
		fmt.Println("H4 ref 5 -> Duration:", t.D, err)
		var t2 struct{ E time.Duration }
		err = c.Unpack(&t2, ucfg.VarExp)
		fmt.Println("H4 ref 1.5 -> Duration:", t2.E, err)
		var t3 struct{ Y time.Duration }
		err = c.Unpack(&t3, ucfg.VarExp)
		fmt.Println("H4 ref 0 -> Duration:", t3.Y, err)
	}
	// H17: getter with idx on primitive
	{
		c, _ := ucfg.NewFrom(map[string]interface{}{"a": 300, "l": []int{1, 2}})
		i, err := c.Int("a", 0)
		fmt.Println("H17 Int(a,0):", i, err)
		i, err = c.Int("a", 1)
		fmt.Println("H17 Int(a,1):", i, err)
		i, err = c.Int("l", -1)
		fmt.Println("H17 Int(l,-1):", i, err)
	}
	// null getters
	{
		c, _ := ucfg.NewFrom(map[string]interface{}{"a": nil, "r": "${a}"}, ucfg.VarExp)
		s, err := c.String("a", -1)
		fmt.Printf("null String: %q %v\n", s, err)
		var t struct{ R string }
		err = c.Unpack(&t, ucfg.VarExp)
		fmt.Printf("ref null -> string: %q %v\n", t.R, err)
		var t2 struct{ R int }
		err = c.Unpack(&t2, ucfg.VarExp)
		fmt.Printf("ref null -> int: %v %v\n", t2.R, err)
		var t3 struct{ R bool }
		err = c.Unpack(&t3, ucfg.VarExp)
		fmt.Printf("ref null -> bool: %v %v\n", t3.R, err)
	}
}
