package main

import (
	"fmt"
	"math"
	"math/big"
	"strconv"

	ucfg "github.com/elastic/go-ucfg"
	"github.com/elastic/go-ucfg/parse"
)

func exact(v interface{}) (*big.Float, bool) {
	f := new(big.Float).SetPrec(256)
	switch x := v.(type) {
	case int64:
		return f.SetInt64(x), true
	case uint64:
		return f.SetUint64(x), true
	case float64:
		if math.IsNaN(x) || math.IsInf(x, 0) {
			return nil, false
		}
		return f.SetFloat64(x), true
	}
	panic("x")
}

func trunc(f *big.Float) *big.Int { i, _ := f.Int(nil); return i }

func check(label string, c *ucfg.Config, v interface{}, opts []ucfg.Option) (bad int) {
	ex, fin := exact(v)
	if i, err := c.Int("v", -1, opts...); err == nil {
		if !fin || trunc(ex).Cmp(big.NewInt(i)) != 0 {
			fmt.Printf("BAD %s Int(%v) = %v\n", label, v, i)
			bad++
		}
	}
	if u, err := c.Uint("v", -1, opts...); err == nil {
		if !fin || ex.Sign() < 0 || trunc(ex).Cmp(new(big.Int).SetUint64(u)) != 0 {
			fmt.Printf("BAD %s Uint(%v) = %v\n", label, v, u)
			bad++
		}
	}
	if f, err := c.Float("v", -1, opts...); err == nil {
		if fin {
			w, _ := ex.Float64()
			if w != f {
				fmt.Printf("BAD %s Float(%v) = %v\n", label, v, f)
				bad++
			}
		}
	}
	if b, err := c.Bool("v", -1, opts...); err == nil {
		fmt.Printf("note %s Bool(%v) = %v\n", label, v, b)
	}
	if s, err := c.String("v", -1, opts...); err == nil {
		// must parse back to the same value
		ok := false
		if _, isf := v.(float64); isf {
			pf, perr := strconv.ParseFloat(s, 64)
			ok = perr == nil && pf == v.(float64)
		} else {
			bi, good := new(big.Int).SetString(s, 10)
			ok = good && bi.Cmp(trunc(ex)) == 0
		}
		if fin && !ok {
			fmt.Printf("BAD %s String(%v) = %q\n", label, v, s)
			bad++
		}
	}
	return
}

func main() {
	var vals []interface{}
	bounds := []float64{0, 1, 127, 128, 255, 256, 1 << 53, 1 << 62, 9223372036854774784, 9223372036854775808, 9223372036854777856, 18446744073709549568, 18446744073709551616, 1e30, 1e300, math.MaxFloat64, 5e-324, 0.5, 0.999}
	for _, b := range bounds {
		for _, d := range []float64{0, 0.5, -0.5, 1, -1} {
			vals = append(vals, b+d, -(b + d))
		}
	}
	vals = append(vals, math.NaN(), math.Inf(1), math.Inf(-1), math.Copysign(0, -1))
	for _, i := range []int64{0, 1, -1, math.MaxInt64, math.MinInt64, math.MaxInt64 - 1, math.MinInt64 + 1, 1<<53 + 1} {
		vals = append(vals, i)
		if i >= 0 {
			vals = append(vals, uint64(i))
		}
	}
	vals = append(vals, uint64(math.MaxUint64), uint64(math.MaxUint64-1), uint64(1<<63), uint64(1<<63+1))
	bad := 0
	for _, v := range vals {
		c, _ := ucfg.NewFrom(map[string]interface{}{"v": v})
		bad += check("lit", c, v, nil)
		c, _ = ucfg.NewFrom(map[string]interface{}{"x": v, "v": "${x}"}, ucfg.VarExp)
		bad += check("ref", c, v, []ucfg.Option{ucfg.VarExp})
		c, _ = ucfg.NewFrom(map[string]interface{}{"x": v, "v": "${x}${e}", "e": ""}, ucfg.VarExp)
		bad += check("splice", c, v, []ucfg.Option{ucfg.VarExp})
		txt := fmt.Sprintf("%v", v)
		opts := []ucfg.Option{ucfg.VarExp, ucfg.Resolve(func(string) (string, parse.Config, error) { return txt, parse.DefaultConfig, nil })}
		c, _ = ucfg.NewFrom(map[string]interface{}{"v": "${X}"}, opts...)
		bad += check("env", c, v, opts)
		c, _ = ucfg.NewFrom(map[string]interface{}{"v": txt})
		bad += check("str", c, v, nil)
	}
	fmt.Println("bad:", bad)
}
