package main

import (
	"fmt"
	"time"

	ucfg "github.com/elastic/go-ucfg"
	"github.com/elastic/go-ucfg/parse"
)

type T struct {
	I8  *int8
	I64 *int64
	U8  *uint8
	U64 *uint64
	F32 *float32
	F64 *float64
	B   *bool
	S   *string
	D   *time.Duration
}

func show(label string, c *ucfg.Config, opts []ucfg.Option) {
	fmt.Printf("%-8s", label)
	for _, f := range []string{"i8", "i64", "u8", "u64", "f32", "f64", "b", "s", "d"} {
		m := map[string]interface{}{}
		sub, _ := ucfg.NewFrom(map[string]interface{}{f: "${v}"}, ucfg.VarExp)
		_ = sub
		var t T
		cc := ucfg.New()
		v, err := c.Child("", -1)
		_ = v
		_ = err
		_ = m
		// build config with only field f = value of v
		x, _ := ucfg.NewFrom(map[string]interface{}{f: "${v}"}, ucfg.VarExp)
		cc.Merge(c, opts...)
		cc.Merge(x, opts...)
		err = cc.Unpack(&t, opts...)
		if err != nil {
			fmt.Printf(" %s=ERR", f)
			continue
		}
		switch f {
		case "i8":
			fmt.Printf(" %s=%v", f, *t.I8)
		case "i64":
			fmt.Printf(" %s=%v", f, *t.I64)
		case "u8":
			fmt.Printf(" %s=%v", f, *t.U8)
		case "u64":
			fmt.Printf(" %s=%v", f, *t.U64)
		case "f32":
			fmt.Printf(" %s=%v", f, *t.F32)
		case "f64":
			fmt.Printf(" %s=%v", f, *t.F64)
		case "b":
			fmt.Printf(" %s=%v", f, *t.B)
		case "s":
			fmt.Printf(" %s=%q", f, *t.S)
		case "d":
			fmt.Printf(" %s=%v", f, *t.D)
		}
	}
	fmt.Println()
}

func main() {
	texts := []string{"0x10", "0b101", "0o17", "017", "08", "1_000", "0x1p4", "1e3", "+5", " 5", "5 ", "٣", "Infinity", "inf", "-inf", "nan", "1e400", ".5", "5.", "0x", "1__0",
		"-9223372036854775809", "-9223372036854776832", "-9223372036854776833", "18446744073709551616", "9223372036854775808", "1e19", "-0", "-0.0", "-0.9", "255.9", "256", "-128.9", "-129",
		"true", "on", "1", "0", "T", "5s", "1.5h", "9223372036854775807ns", "9223372036854775808ns", "2562047h47m16.854775807s", "2562047h47m16.854775808s", "-2562047h47m16.854775808s", "1e3s", "5S", "0x10s",
		"9223372036", "9223372037", "9223372036.854775", "9223372036.8547758", "-9223372036.8547758", "-9223372036.854776"}
	for _, txt := range texts {
		fmt.Printf("== %q\n", txt)
		// literal string node
		c, err := ucfg.NewFrom(map[string]interface{}{"v": txt})
		if err != nil {
			fmt.Println("lit new:", err)
		} else {
			show("lit", c, []ucfg.Option{ucfg.VarExp})
		}
		txt := txt
		opts := []ucfg.Option{ucfg.VarExp, ucfg.Resolve(func(k string) (string, parse.Config, error) {
			if k == "v" {
				return txt, parse.DefaultConfig, nil
			}
			return "", parse.DefaultConfig, ucfg.ErrMissing
		})}
		show("env", ucfg.New(), opts)
	}
}
