// sanity check of the seeded change (not a hunt probe): what referenced values give
package main

import (
	"fmt"
	"math"
	"time"

	ucfg "github.com/elastic/go-ucfg"
)

func main() {
	for _, v := range []interface{}{5, -5, 9223372036, 9223372037, uint64(math.MaxUint64), 1.0, 1.5, -0.9, 1e30, math.NaN(), "5s", "10", "017", true, nil, []int{1}} {
		c, _ := ucfg.NewFrom(map[string]interface{}{"x": v, "d": "${x}"}, ucfg.VarExp)
		var t struct{ D time.Duration }
		err := c.Unpack(&t, ucfg.VarExp)
		fmt.Printf("%#v -> %v err=%v\n", v, t.D, err)
	}
}
