package main

import (
	"fmt"
	"math"
	"math/big"
	"reflect"
	"time"

	ucfg "github.com/elastic/go-ucfg"
	"github.com/elastic/go-ucfg/parse"
)

type MyI8 int8
type MyU16 uint16
type MyF32 float32

type target struct {
	name string
	ptr  func() interface{} // pointer to struct{V T}
}

func mk[T any]() func() interface{} { return func() interface{} { return &struct{ V T }{} } }

var targets = []target{
	{"int", mk[int]()}, {"int8", mk[int8]()}, {"int16", mk[int16]()}, {"int32", mk[int32]()}, {"int64", mk[int64]()},
	{"uint", mk[uint]()}, {"uint8", mk[uint8]()}, {"uint16", mk[uint16]()}, {"uint32", mk[uint32]()}, {"uint64", mk[uint64]()},
	{"float32", mk[float32]()}, {"float64", mk[float64]()},
	{"*int8", mk[*int8]()}, {"*uint32", mk[*uint32]()}, {"**int16", mk[**int16]()},
	{"MyI8", mk[MyI8]()}, {"MyU16", mk[MyU16]()}, {"*MyI8", mk[*MyI8]()}, {"MyF32", mk[MyF32]()},
	{"Duration", mk[time.Duration]()}, {"*Duration", mk[*time.Duration]()},
}

func exact(v interface{}) (*big.Float, bool) {
	f := new(big.Float).SetPrec(256)
	switch x := v.(type) {
	case int64:
		return f.SetInt64(x), true
	case int:
		return f.SetInt64(int64(x)), true
	case uint64:
		return f.SetUint64(x), true
	case float64:
		if math.IsNaN(x) || math.IsInf(x, 0) {
			return nil, false
		}
		return f.SetFloat64(x), true
	}
	panic("x")
}

func trunc(f *big.Float) *big.Int {
	i, _ := f.Int(nil)
	return i
}

func check(label string, cfg *ucfg.Config, v interface{}, opts []ucfg.Option) int {
	bad := 0
	for _, tg := range targets {
		p := tg.ptr()
		err := cfg.Unpack(p, opts...)
		fv := reflect.ValueOf(p).Elem().Field(0)
		for fv.Kind() == reflect.Ptr {
			if fv.IsNil() {
				break
			}
			fv = fv.Elem()
		}
		ex, finite := exact(v)
		if err != nil {
			continue // error is always allowed... but check later for spurious errors
		}
		if fv.Kind() == reflect.Ptr {
			fmt.Printf("BAD %s %v -> %s: nil pointer without error\n", label, v, tg.name)
			bad++
			continue
		}
		switch {
		case fv.Type() == reflect.TypeOf(time.Duration(0)):
			if !finite {
				fmt.Printf("BAD %s %v -> %s: got %v no error\n", label, v, tg.name, fv.Interface())
				bad++
				continue
			}
			ns := new(big.Float).SetPrec(256).Mul(ex, big.NewFloat(1e9))
			want := trunc(ns)
			got := big.NewInt(fv.Int())
			d := new(big.Int).Sub(want, got)
			d.Abs(d)
			// allow float rounding slack for float inputs: 1 part in 2^52
			slack := new(big.Int).Rsh(new(big.Int).Abs(want), 50)
			slack.Add(slack, big.NewInt(1))
			if _, isf := v.(float64); !isf {
				slack = big.NewInt(0)
			}
			if d.Cmp(slack) > 0 {
				fmt.Printf("BAD %s %v -> %s: got %v want %v ns\n", label, v, tg.name, got, want)
				bad++
			}
		case fv.CanInt():
			if !finite {
				fmt.Printf("BAD %s %v -> %s: got %v no error\n", label, v, tg.name, fv.Interface())
				bad++
				continue
			}
			if trunc(ex).Cmp(big.NewInt(fv.Int())) != 0 {
				fmt.Printf("BAD %s %v -> %s: got %v want %v\n", label, v, tg.name, fv.Int(), trunc(ex))
				bad++
			}
		case fv.CanUint():
			if !finite {
				fmt.Printf("BAD %s %v -> %s: got %v no error\n", label, v, tg.name, fv.Interface())
				bad++
				continue
			}
			if ex.Sign() < 0 || trunc(ex).Cmp(new(big.Int).SetUint64(fv.Uint())) != 0 {
				fmt.Printf("BAD %s %v -> %s: got %v want %v\n", label, v, tg.name, fv.Uint(), trunc(ex))
				bad++
			}
		case fv.CanFloat():
			got := fv.Float()
			if !finite {
				f := v.(float64)
				if !(math.IsNaN(f) && math.IsNaN(got)) && got != f {
					fmt.Printf("BAD %s %v -> %s: got %v\n", label, v, tg.name, got)
					bad++
				}
				continue
			}
			want, _ := ex.Float64()
			if fv.Kind() == reflect.Float32 {
				want = float64(float32(want))
			}
			if got != want {
				fmt.Printf("BAD %s %v -> %s: got %v want %v\n", label, v, tg.name, got, want)
				bad++
			}
		}
	}
	return bad
}

func main() {
	var vals []interface{}
	bounds := []float64{0, 1, 127, 128, 129, 255, 256, 32767, 32768, 65535, 65536, 2147483647, 2147483648, 4294967295, 4294967296,
		9223372036, 9223372037, 9223372036.8, 9223372036.9, 1 << 53, 1 << 62, 9223372036854774784, 9223372036854775808, 9223372036854777856, 18446744073709549568, 18446744073709551616, 1e30, 3.4e38, 3.5e38, 1e300, math.MaxFloat64, 5e-324, 0.5, 0.999, 1e-9, 1.5e-9}
	for _, b := range bounds {
		for _, d := range []float64{0, 0.5, -0.5, 1, -1} {
			vals = append(vals, b+d, -(b + d))
		}
	}
	vals = append(vals, math.NaN(), math.Inf(1), math.Inf(-1), math.Copysign(0, -1))
	ints := []int64{0, 1, -1, 127, 128, -128, -129, 255, 256, 32767, 32768, -32768, -32769, 65535, 65536, 2147483647, 2147483648, -2147483648, -2147483649,
		4294967295, 4294967296, 9223372036, 9223372037, -9223372036, -9223372037, math.MaxInt64, math.MinInt64, math.MaxInt64 - 1, math.MinInt64 + 1, 1<<53 + 1}
	for _, i := range ints {
		vals = append(vals, i)
		if i >= 0 {
			vals = append(vals, uint64(i))
		}
	}
	vals = append(vals, uint64(math.MaxUint64), uint64(math.MaxUint64-1), uint64(1<<63), uint64(1<<63+1))

	bad := 0
	for _, v := range vals {
		// literal
		cfg, err := ucfg.NewFrom(map[string]interface{}{"v": v})
		if err != nil {
			fmt.Println("newfrom", v, err)
			continue
		}
		bad += check("lit", cfg, v, nil)
		// reference
		cfg, err = ucfg.NewFrom(map[string]interface{}{"x": v, "v": "${x}"}, ucfg.VarExp)
		if err != nil {
			fmt.Println("newfrom", v, err)
			continue
		}
		bad += check("ref", cfg, v, []ucfg.Option{ucfg.VarExp})
		// splice through text
		cfg, err = ucfg.NewFrom(map[string]interface{}{"x": v, "e": "", "v": "${x}${e}"}, ucfg.VarExp)
		if err != nil {
			fmt.Println("newfrom", v, err)
			continue
		}
		bad += check("splice", cfg, v, []ucfg.Option{ucfg.VarExp})
		// env text
		txt := fmt.Sprintf("%v", v)
		opts := []ucfg.Option{ucfg.VarExp, ucfg.Resolve(func(string) (string, parse.Config, error) { return txt, parse.DefaultConfig, nil })}
		cfg, err = ucfg.NewFrom(map[string]interface{}{"v": "${X}"}, opts...)
		if err != nil {
			fmt.Println("newfrom", v, err)
			continue
		}
		bad += check("env", cfg, v, opts)
		// literal string
		cfg, err = ucfg.NewFrom(map[string]interface{}{"v": txt})
		bad += check("str", cfg, v, nil)
	}
	fmt.Println("bad:", bad, "values:", len(vals))
}
