// An expanded text that spells an integer just below -2^63 is stored as
// MinInt64 (no error); the same text as a literal string is an error.
package main

import (
	"fmt"

	ucfg "github.com/elastic/go-ucfg"
	"github.com/elastic/go-ucfg/parse"
)

func main() {
	const text = "-9223372036854775809" // -2^63 - 1
	opts := []ucfg.Option{ucfg.VarExp, ucfg.Resolve(func(name string) (string, parse.Config, error) {
		if name == "X" {
			return text, parse.DefaultConfig, nil
		}
		return "", parse.DefaultConfig, ucfg.ErrMissing
	})}
	c, err := ucfg.NewFrom(map[string]interface{}{"a": "${X}", "b": text}, opts...)
	if err != nil {
		panic(err)
	}
	var ta struct{ A int64 }
	err = c.Unpack(&ta, opts...)
	fmt.Printf("expanded %s -> int64: %d, err=%v\n", text, ta.A, err)
	i, err := c.Int("a", -1, opts...)
	fmt.Printf("expanded %s -> Int(): %d, err=%v\n", text, i, err)
	var ts struct{ A string }
	err = c.Unpack(&ts, opts...)
	fmt.Printf("expanded %s -> string: %q, err=%v\n", text, ts.A, err)
	var tb struct{ B int64 }
	err = c.Unpack(&tb, opts...)
	fmt.Printf("literal string %s -> int64: %d, err=%v\n", text, tb.B, err)
}
