// The JSON loader decodes every number as float64: integers above 2^53 are
// altered before they reach the typed target, without an error.
package main

import (
	"fmt"

	uhjson "github.com/elastic/go-ucfg/hjson"
	ujson "github.com/elastic/go-ucfg/json"
	uyaml "github.com/elastic/go-ucfg/yaml"
)

func main() {
	c, err := ujson.NewConfig([]byte(`{"a": 9007199254740993}`))
	if err != nil {
		panic(err)
	}
	var t struct{ A int64 }
	err = c.Unpack(&t)
	fmt.Printf("json 9007199254740993 -> int64: %d, err=%v\n", t.A, err)
	var u struct{ A uint64 }
	err = c.Unpack(&u)
	fmt.Printf("json 9007199254740993 -> uint64: %d, err=%v\n", u.A, err)

	c, err = uyaml.NewConfig([]byte(`a: 9007199254740993`))
	if err != nil {
		panic(err)
	}
	err = c.Unpack(&t)
	fmt.Printf("yaml 9007199254740993 -> int64: %d, err=%v\n", t.A, err)

	c, err = uhjson.NewConfig([]byte(`{a: 9007199254740993}`))
	if err != nil {
		panic(err)
	}
	err = c.Unpack(&t)
	fmt.Printf("hjson 9007199254740993 -> int64: %d, err=%v\n", t.A, err)
}
