package main

import (
	"fmt"

	ucfg "github.com/elastic/go-ucfg"
	"github.com/elastic/go-ucfg/yaml"
)

func try(doc string, opts ...ucfg.Option) string {
	c, err := yaml.NewConfig([]byte(doc), opts...)
	if err != nil {
		s := err.Error()
		if len(s) > 100 {
			s = s[:100]
		}
		return "error: " + s
	}
	var out map[string]interface{}
	if err := c.Unpack(&out, opts...); err != nil {
		return "unpack error: " + err.Error()
	}
	return fmt.Sprint(out)
}

func main() {
	docs := []string{
		"ports:\n  8080: http\n  \"8080\": https\n",
		"ports:\n  8080: http\n",
		"true: 1\n\"true\": 2\n",
		"a: 1\na: 2\n",
		"x:\n  on: 1\n  \"true\": 2\n",
		"x:\n  1.5: 1\n  \"1.5\": 2\n",
		"x:\n  ~: 1\n",
		"x:\n  [a, b]: 1\n",
		"x:\n  ? {a: b}\n  : 1\n",
	}
	for _, d := range docs {
		seen := map[string]int{}
		for i := 0; i < 300; i++ {
			seen[try(d)]++
		}
		fmt.Printf("%q => %v\n", d, seen)
	}
}
