package main

import (
	"fmt"
	"os"
	"sort"

	ucfg "github.com/elastic/go-ucfg"
	"github.com/elastic/go-ucfg/parse"
)

type caseFn func() string

func dump(c *ucfg.Config, opts ...ucfg.Option) string {
	var out interface{}
	var m map[string]interface{}
	if err := c.Unpack(&m, opts...); err != nil {
		return "unpack-err: " + err.Error()
	}
	out = m
	return render(out)
}

func render(v interface{}) string {
	switch t := v.(type) {
	case map[string]interface{}:
		keys := make([]string, 0, len(t))
		for k := range t {
			keys = append(keys, k)
		}
		sort.Strings(keys)
		s := "{"
		for _, k := range keys {
			s += k + ":" + render(t[k]) + ","
		}
		return s + "}"
	case []interface{}:
		s := "["
		for _, e := range t {
			s += render(e) + ","
		}
		return s + "]"
	default:
		return fmt.Sprintf("%T(%v)", v, v)
	}
}

type T struct {
	A string            `config:"a"`
	B string            `config:"b"`
	C string            `config:"c"`
	M map[string]string `config:"m"`
	R map[string]interface{} `config:",inline"`
}

func main() {
	ps := ucfg.PathSep(".")
	cases := map[string]caseFn{
		"overlap1": func() string {
			c, err := ucfg.NewFrom(map[string]interface{}{"a": map[string]interface{}{"b": 1}, "a.c": 2, "a.b.d": 3}, ps)
			if err != nil {
				return "err: " + err.Error()
			}
			return dump(c, ps)
		},
		"overlap2": func() string {
			c, err := ucfg.NewFrom(map[string]interface{}{"a.b": 1, "a": map[string]interface{}{"c": 1}, "a.c.d": 3, "a.0": 1}, ps)
			if err != nil {
				return "err: " + err.Error()
			}
			return dump(c, ps)
		},
		"overlap-nil": func() string {
			c, err := ucfg.NewFrom(map[string]interface{}{"a.b": nil, "a": map[string]interface{}{"b": 1}, "a.c": nil, "a.c.d": 1}, ps)
			if err != nil {
				return "err: " + err.Error()
			}
			return dump(c, ps)
		},
		"two-errors": func() string {
			_, err := ucfg.NewFrom(map[string]interface{}{"a": struct{ X chan int }{}, "b": struct{ X func() }{}, "c": "${", "d.e": 1, "d": 2}, ps, ucfg.VarExp)
			return fmt.Sprint(err == nil) + "|" + shortErr(err)
		},
		"refs": func() string {
			c, err := ucfg.NewFrom(map[string]interface{}{"a": "${b:1}", "b": "${a:2}", "c": "${a}-${b}", "d": "${e}", "e": "${d}", "f": "${g:+x}", "g": "${f:y}"}, ps, ucfg.VarExp)
			if err != nil {
				return "err: " + err.Error()
			}
			var t map[string]string
			err = c.Unpack(&t, ps, ucfg.VarExp)
			return fmt.Sprint(t) + "|" + shortErr(err)
		},
		"refs-noerr": func() string {
			c, err := ucfg.NewFrom(map[string]interface{}{"a": "${b:1}", "b": "${a:2}", "c": "${a}-${b}", "f": "${g:+x}", "g": "${f:y}", "h": "${i.j}", "i": map[string]interface{}{"j": "${a}${b}"}}, ps, ucfg.VarExp)
			if err != nil {
				return "err: " + err.Error()
			}
			return dump(c, ps, ucfg.VarExp)
		},
		"struct": func() string {
			c, err := ucfg.NewFrom(map[string]interface{}{"a": "${b:1}", "b": "${a:2}", "c": "${a}-${b}", "m": map[string]interface{}{"x": "${a}", "y": "${m.x}"}, "z": "${b}"}, ps, ucfg.VarExp)
			if err != nil {
				return "err: " + err.Error()
			}
			var t T
			err = c.Unpack(&t, ps, ucfg.VarExp)
			return fmt.Sprintf("%+v", t) + "|" + shortErr(err)
		},
		"merge": func() string {
			c := ucfg.MustNewFrom(map[string]interface{}{"a": []int{1, 2}, "b": map[string]interface{}{"x": 1, "y": []int{1}}}, ps)
			err := c.Merge(map[string]interface{}{"a.0": 5, "a": []int{7, 8, 9}, "b.y": []int{2}, "b": map[string]interface{}{"z": 1}}, ps, ucfg.AppendValues)
			return dump(c, ps) + "|" + shortErr(err)
		},
		"merge-field": func() string {
			c := ucfg.MustNewFrom(map[string]interface{}{"a": []int{1, 2}, "b": map[string]interface{}{"x": 1, "y": []int{1}}}, ps)
			err := c.Merge(map[string]interface{}{"a": []int{7, 8, 9}, "b": map[string]interface{}{"z": 1, "y": []int{2}}}, ps,
				ucfg.FieldAppendValues("a", "b.y"), ucfg.FieldReplaceValues("b", "a.b"), ucfg.FieldPrependValues("b.y"))
			return dump(c, ps) + "|" + shortErr(err)
		},
		"resolve": func() string {
			calls := ""
			c := ucfg.MustNewFrom(map[string]interface{}{"a": "${X}", "b": "${Y}", "c": "${X}${Y}"}, ucfg.VarExp)
			var t map[string]string
			err := c.Unpack(&t, ucfg.VarExp, ucfg.Resolve(func(n string) (string, parse.Config, error) {
				calls += n
				return n + "v", parse.DefaultConfig, nil
			}))
			return fmt.Sprint(t) + calls + "|" + shortErr(err)
		},
		"validate-two": func() string {
			c := ucfg.MustNewFrom(map[string]interface{}{"m": map[string]interface{}{"x": -1, "y": "nope", "z": 300}})
			var t struct {
				M map[string]uint8 `config:"m"`
			}
			err := c.Unpack(&t)
			return shortErr(err)
		},
	}

	names := make([]string, 0, len(cases))
	for n := range cases {
		names = append(names, n)
	}
	sort.Strings(names)
	bad := false
	for _, n := range names {
		seen := map[string]int{}
		for i := 0; i < 400; i++ {
			seen[cases[n]()]++
		}
		if len(seen) > 1 {
			bad = true
			fmt.Println("VARIES:", n, seen)
		} else {
			for k := range seen {
				fmt.Println("stable:", n, "=>", k)
			}
		}
	}
	if bad {
		os.Exit(1)
	}
}

func shortErr(err error) string {
	if err == nil {
		return "<nil>"
	}
	s := err.Error()
	if len(s) > 120 {
		s = s[:120]
	}
	return s
}
