package main

import (
	"fmt"
	"os"

	ucfg "github.com/elastic/go-ucfg"
)

// K is a second string-kinded key type: K("a") and "a" are distinct keys of a
// map[interface{}]interface{}, but name the same setting.
type K string

func once() string {
	in := map[interface{}]interface{}{
		"a":    map[string]interface{}{"x": 1},
		K("a"): map[string]interface{}{"x": 2},
	}
	c, err := ucfg.NewFrom(in)
	if err != nil {
		return "error: " + err.Error()
	}
	var out map[string]interface{}
	if err := c.Unpack(&out); err != nil {
		return "unpack error: " + err.Error()
	}
	return fmt.Sprint(out)
}

func main() {
	seen := map[string]int{}
	for i := 0; i < 2000; i++ {
		seen[once()]++
	}
	fmt.Println(seen)
	if len(seen) > 1 {
		fmt.Println("VIOLATION: NewFrom of the same input gives different configs")
		os.Exit(1)
	}
	fmt.Println("ok")
}
