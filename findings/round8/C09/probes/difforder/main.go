package main

import (
	"fmt"
	"os"
	"strings"

	ucfg "github.com/elastic/go-ucfg"
	"github.com/elastic/go-ucfg/diff"
)

func main() {
	oldC := ucfg.MustNewFrom(map[string]interface{}{"a": 1, "b": 2, "c": 3, "d": 4})
	newC := ucfg.MustNewFrom(map[string]interface{}{"c": 3, "d": 4, "e": 5, "f": 6, "g": 7})

	keep, add, str, fields := map[string]int{}, map[string]int{}, map[string]int{}, map[string]int{}
	for i := 0; i < 500; i++ {
		d := diff.CompareConfigs(oldC, newC)
		keep[strings.Join(d[diff.Keep], ",")]++
		add[strings.Join(d[diff.Add], ",")]++
		str[d.String()]++
		fields[strings.Join(newC.GetFields(), ",")]++
	}
	fmt.Println("Diff[Keep] variants:", len(keep), keep)
	fmt.Println("Diff[Add] variants:", len(add))
	fmt.Println("Diff.String variants:", len(str))
	fmt.Println("GetFields variants:", len(fields))
	if len(keep) > 1 || len(add) > 1 || len(str) > 1 || len(fields) > 1 {
		fmt.Println("VIOLATION (adjacent API): result order follows map iteration order")
		os.Exit(1)
	}
	fmt.Println("ok")
}
