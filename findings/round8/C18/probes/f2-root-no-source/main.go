// Errors raised against the root Config of a file do not name the file,
// the same error one level down does.
package main

import (
	"fmt"
	"os"
	"path/filepath"

	"github.com/elastic/go-ucfg/json"
)

type req struct {
	ID string `config:"id" validate:"required"`
}

func main() {
	dir, _ := os.MkdirTemp("", "h")
	defer os.RemoveAll(dir)
	fn := filepath.Join(dir, "a.json")
	os.WriteFile(fn, []byte(`{"name": null, "sub": {"x": 1}}`), 0o600)
	c, err := json.NewConfigWithFile(fn)
	if err != nil {
		panic(err)
	}
	fmt.Println("root, required missing :", c.Unpack(&req{}))
	fmt.Println("sub,  required missing :", c.Unpack(&struct{ Sub req }{}))
	fmt.Println("root, null string      :", c.Unpack(&struct {
		Name string `validate:"required"`
	}{}))
	_, err = c.String("nope", -1)
	fmt.Println("root, getter missing   :", err)
	s, _ := c.Child("sub", -1)
	_, err = s.String("nope", -1)
	fmt.Println("sub,  getter missing   :", err)
}
