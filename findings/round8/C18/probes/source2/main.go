package main

import (
	"fmt"
	"os"
	"path/filepath"
	"strings"

	ucfg "github.com/elastic/go-ucfg"
	"github.com/elastic/go-ucfg/json"
	"github.com/elastic/go-ucfg/yaml"
)

type tc struct {
	name string
	doc  string
	opts []ucfg.Option
	mk   func() interface{}
}

var sv = []ucfg.Option{ucfg.PathSep("."), ucfg.VarExp}

type req struct {
	B int `validate:"required"`
}

var cases = []tc{
	{"required under null list element", `{"a":[null,{"b":1}]}`, nil, func() interface{} { return &struct{ A []req }{} }},
	{"required under null object", `{"a":null}`, nil, func() interface{} { return &struct{ A req }{} }},
	{"required under nested null object", `{"x":{"a":null}}`, nil, func() interface{} { return &struct{ X struct{ A req } }{} }},
	{"required under nested missing object", `{"x":{"c":1}}`, nil, func() interface{} { return &struct{ X struct{ A req } }{} }},
	{"required under padded list element", `{"a.1.b":1}`, sv, func() interface{} { return &struct{ A []req }{} }},
	{"splice list elem type", `{"a":"1,${b}","b":"x"}`, sv, func() interface{} { return &struct{ A []int }{} }},
	{"splice obj elem type", `{"a":"{k: ${b}}","b":"x"}`, sv, func() interface{} { return &struct{ A map[string]int }{} }},
	{"ref to list elem type", `{"a":"${b}","b":["x"]}`, sv, func() interface{} { return &struct{ A []int }{} }},
	{"nonzero on empty list", `{"a":[]}`, nil, func() interface{} {
		return &struct {
			A []int `validate:"nonzero"`
		}{}
	}},
	{"nested nonzero on empty list", `{"x":{"a":[]}}`, nil, func() interface{} {
		return &struct {
			X struct {
				A []int `validate:"nonzero"`
			}
		}{}
	}},
	{"array size on empty", `{"x":{"a":[]}}`, nil, func() interface{} { return &struct{ X struct{ A [2]int } }{} }},
	{"min on interface", `{"x":{"a":5}}`, nil, func() interface{} {
		return &struct {
			X struct {
				A interface{} `validate:"min=-1"`
			}
		}{}
	}},
	{"min frac on interface", `{"x":{"a":5}}`, nil, func() interface{} {
		return &struct {
			X struct {
				A interface{} `validate:"min=2.5"`
			}
		}{}
	}},
}

func main() {
	dir, _ := os.MkdirTemp("", "h")
	for li, l := range []func(string, ...ucfg.Option) (*ucfg.Config, error){yaml.NewConfigWithFile, json.NewConfigWithFile} {
		for i, c := range cases {
			fn := filepath.Join(dir, fmt.Sprintf("%d-%d.conf", li, i))
			os.WriteFile(fn, []byte(c.doc), 0o644)
			cfg, err := l(fn, c.opts...)
			if err != nil {
				fmt.Printf("[%d] %s: LOAD ERR %v\n", li, c.name, err)
				continue
			}
			err = cfg.Unpack(c.mk(), c.opts...)
			if err == nil {
				fmt.Printf("[%d] %s: no error\n", li, c.name)
				continue
			}
			tag := "ok       "
			if !strings.Contains(err.Error(), fn) {
				tag = "NO SOURCE"
			}
			fmt.Printf("[%d] %s %s: %v\n", li, tag, c.name, strings.SplitN(err.Error(), "\n", 2)[0])
		}
	}
}
