// Elements of a list/object produced by parsing an expanded string do not name the file.
package main

import (
	"fmt"
	"os"
	"path/filepath"

	ucfg "github.com/elastic/go-ucfg"
	"github.com/elastic/go-ucfg/json"
)

func main() {
	dir, _ := os.MkdirTemp("", "h")
	defer os.RemoveAll(dir)
	fn := filepath.Join(dir, "a.json")
	os.WriteFile(fn, []byte(`{"x": {"ports": "1,${x.p}", "p": "http", "plain": [1, "http"]}}`), 0o600)
	opts := []ucfg.Option{ucfg.PathSep("."), ucfg.VarExp}
	c, err := json.NewConfigWithFile(fn, opts...)
	if err != nil {
		panic(err)
	}
	fmt.Println("literal list :", c.Unpack(&struct{ X struct{ Plain []int } }{}, opts...))
	fmt.Println("expanded list:", c.Unpack(&struct{ X struct{ Ports []int } }{}, opts...))
}
