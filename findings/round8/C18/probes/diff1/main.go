package main

import (
	"fmt"
	"os"
	"path/filepath"
	"reflect"

	ucfg "github.com/elastic/go-ucfg"
	"github.com/elastic/go-ucfg/hjson"
	"github.com/elastic/go-ucfg/json"
	"github.com/elastic/go-ucfg/yaml"
)

type loader struct {
	name string
	mem  func([]byte, ...ucfg.Option) (*ucfg.Config, error)
	file func(string, ...ucfg.Option) (*ucfg.Config, error)
}

var loaders = []loader{
	{"yaml", yaml.NewConfig, yaml.NewConfigWithFile},
	{"json", json.NewConfig, json.NewConfigWithFile},
	{"hjson", hjson.NewConfig, hjson.NewConfigWithFile},
}

func norm(v interface{}) interface{} {
	switch x := v.(type) {
	case map[string]interface{}:
		m := map[string]interface{}{}
		for k, e := range x {
			m[k] = norm(e)
		}
		return m
	case []interface{}:
		a := make([]interface{}, len(x))
		for i, e := range x {
			a[i] = norm(e)
		}
		return a
	case int64:
		return float64(x)
	case uint64:
		return float64(x)
	case int:
		return float64(x)
	}
	return v
}

var docs = []string{
	`{"a":1,"b":[1,2,{"c":"x"}],"d":{"e":null,"f":true,"g":1.5}}`,
	`{"a.b":1,"a":{"c":2}}`,
	`{"a":{"c":2},"a.b":1}`,
	`{"a":"${b}","b":"x"}`,
	`{"a":"${b}","b":7}`,
	`{"a":"${b}","b":1e7}`,
	`{"a":"x${b}","b":1e7}`,
	`{"a":"x${b}","b":10000000}`,
	`{"a":"x${b}","b":1.0}`,
	`{"a":[],"b":{}}`,
	`{"":1}`,
	`{"a":{"":1}}`,
	`{"0":1,"1":2}`,
	`{"a":{"0":"x","1":"y"}}`,
	`{"a":-0}`,
	`{"a":-0.0}`,
	`{"a":1E3}`,
	`{"a":1e+3}`,
	`{"a":123456789012}`,
	`{"a":9007199254740993}`,
	`{"a":-9223372036854775808}`,
	`{"a":18446744073709551615}`,
	`{"a":1e400}`,
	`{"a":"é\n\t\"\\\/"}`,
	`{"a":"yes","b":"null","c":"1","d":"~","e":"0x10","f":"1_000"}`,
	`[1,2,3]`,
	`[]`,
	`{}`,
	`null`,
	`[{"a":1},{"b":2}]`,
	`[[1,2],[3]]`,
	`{"a":[null,null]}`,
	`{"a":null}`,
	`{"a b":1," c":2,"d ":3}`,
	`{"a":"  spaced  "}`,
	`{"a":"# not comment","b":"// x","c":"/* y */"}`,
	`{"a":"'q'","b":"'''"}`,
	`{"a":"line1\nline2"}`,
	`{"a":""}`,
	`{"a":"${}"}`,
	`{"a":"$${b}"}`,
	`{"a":"${b:def}"}`,
	`{"a":"${b:}"}`,
	`{"a":{"b":{"c":[{"d":[1,{"e":2.5e-3}]}]}}}`,
	`{"a":0.1,"b":1.7976931348623157e308,"c":5e-324}`,
	`{"a":1.0,"b":2.50}`,
	`{"a":0e0}`,
	`{"a":1e2}`,
	`{"a":12e-1}`,
	`{"<<":{"x":1},"y":2}`,
	`{"a":{"<<":1}}`,
	`{"a":"😀"}`,
	`{"a":"\u0000"}`,
	`{"a":" "}`,
	`{"a": "x" , "b" :	2}`,
	"{\n\t\"a\": 1,\n\t\"b\": [\n\t\t1,\n\t\t2\n\t]\n}",
	`{"a.0":1,"a.1":2}`,
	`{"a.1":2}`,
	`{"a":[1,2],"a.2":3}`,
	`{"a":{"b":1},"a.b":null}`,
	`{"a.b":null,"a":{"b":1}}`,
	`{"true":1,"null":2,"1.5":3}`,
	`{"a":"true","b":"false","c":"1.5","d":"-3"}`,
	`{"on":1,"y":2,"n":3}`,
	`{"a":"012","b":"0o7","c":".inf","d":".nan","e":"2001-01-01"}`,
	`{"a":0.30000000000000004}`,
	`{"a":100000000000000000000}`,
	`{"a":1e21}`,
	`{"a":123456789.0}`,
}

type optset struct {
	name string
	opts []ucfg.Option
}

var optsets = []optset{
	{"plain", nil},
	{"sep", []ucfg.Option{ucfg.PathSep(".")}},
	{"sep+var", []ucfg.Option{ucfg.PathSep("."), ucfg.VarExp}},
	{"var", []ucfg.Option{ucfg.VarExp}},
}

func main() {
	dir, _ := os.MkdirTemp("", "h")
	bad := 0
	for di, doc := range docs {
		for _, os_ := range optsets {
			type res struct {
				v   interface{}
				err string
			}
			var rs []res
			for _, l := range loaders {
				for mode := 0; mode < 2; mode++ {
					var c *ucfg.Config
					var err error
					if mode == 0 {
						c, err = l.mem([]byte(doc), os_.opts...)
					} else {
						fn := filepath.Join(dir, fmt.Sprintf("d%d.%s", di, "cfg"))
						os.WriteFile(fn, []byte(doc), 0o644)
						c, err = l.file(fn, os_.opts...)
					}
					r := res{}
					if err != nil {
						r.err = "load: " + err.Error()
					} else {
						var m interface{}
						if c.IsArray() {
							var a []interface{}
							err = c.Unpack(&a, os_.opts...)
							m = a
							if a == nil {
								m = []interface{}{}
							}
						} else {
							mm := map[string]interface{}{}
							err = c.Unpack(&mm, os_.opts...)
							m = mm
						}
						if err != nil {
							r.err = "unpack: " + err.Error()
						} else {
							r.v = norm(m)
						}
					}
					rs = append(rs, r)
				}
			}
			same := true
			for i := 1; i < len(rs); i++ {
				if !reflect.DeepEqual(rs[0].v, rs[i].v) || (rs[0].err == "") != (rs[i].err == "") {
					same = false
				}
			}
			if !same {
				bad++
				fmt.Printf("DIFF doc=%s opts=%s\n", doc, os_.name)
				names := []string{"yaml", "yamlF", "json", "jsonF", "hjson", "hjsonF"}
				for i, r := range rs {
					fmt.Printf("   %-6s v=%#v err=%q\n", names[i], r.v, r.err)
				}
			}
		}
	}
	fmt.Println("diffs:", bad)
}
