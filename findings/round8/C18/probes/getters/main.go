package main

import (
	"fmt"

	ucfg "github.com/elastic/go-ucfg"
	"github.com/elastic/go-ucfg/hjson"
	"github.com/elastic/go-ucfg/json"
	"github.com/elastic/go-ucfg/yaml"
)

var loaders = []func([]byte, ...ucfg.Option) (*ucfg.Config, error){yaml.NewConfig, json.NewConfig, hjson.NewConfig}

var docs = []string{
	`{"a":1}`, `{"a":0}`, `{"a":-1}`, `{"a":1.0}`, `{"a":1.5}`, `{"a":-0.5}`, `{"a":255}`, `{"a":1e3}`, `{"a":12345678}`,
	`{"a":true}`, `{"a":null}`, `{"a":"1"}`, `{"a":[1,2]}`, `{"a":[]}`, `{"a":{}}`, `{"a":{"b":1}}`, `{"a":[5]}`, `{"a":[[5]]}`,
	`{"a":"${b}","b":3}`, `{"a":"${b}","b":[3,4]}`, `{"a":"${b}","b":{"c":1}}`, `{"a":"${b}","b":null}`, `{"a":"${b}${b}","b":3}`,
	`{"a":"${b.0}","b":[3,4]}`, `{"a":"${b.c}","b":{"c":1.0}}`,
}

func main() {
	opts := []ucfg.Option{ucfg.PathSep("."), ucfg.VarExp}
	bad := 0
	for _, d := range docs {
		var outs []string
		for _, l := range loaders {
			c, err := l([]byte(d), opts...)
			if err != nil {
				outs = append(outs, "load err")
				continue
			}
			s := ""
			for _, idx := range []int{-1, 0, 1} {
				i, e1 := c.Int("a", idx, opts...)
				u, e2 := c.Uint("a", idx, opts...)
				f, e3 := c.Float("a", idx, opts...)
				b, e4 := c.Bool("a", idx, opts...)
				st, e5 := c.String("a", idx, opts...)
				ch, e6 := c.Child("a", idx, opts...)
				n, e7 := c.CountField("a")
				h, e8 := c.Has("a", idx, opts...)
				chs := ""
				if ch != nil {
					chs = fmt.Sprint(ch.IsDict(), ch.IsArray(), ch.Path("."), ch.FlattenedKeys())
				}
				s += fmt.Sprintf("[%d] i=%v,%v u=%v,%v f=%v,%v b=%v,%v ch=%v,%v n=%v,%v h=%v,%v ", idx, i, e1 != nil, u, e2 != nil, f, e3 != nil, b, e4 != nil, chs, e6 != nil, n, e7 != nil, h, e8 != nil)
				_ = st
				_ = e5
			}
			s += fmt.Sprint(c.FlattenedKeys(opts...), c.GetFields(), c.IsDict(), c.IsArray())
			outs = append(outs, s)
		}
		if outs[0] != outs[1] || outs[1] != outs[2] {
			bad++
			fmt.Printf("DIFF %s\n  y=%s\n  j=%s\n  h=%s\n", d, outs[0], outs[1], outs[2])
		}
	}
	fmt.Println("diffs", bad)
}
