package main

import (
	"fmt"
	"os"
	"path/filepath"
	"regexp"
	"strings"
	"time"

	ucfg "github.com/elastic/go-ucfg"
	"github.com/elastic/go-ucfg/hjson"
	"github.com/elastic/go-ucfg/json"
	"github.com/elastic/go-ucfg/yaml"
)

type loader struct {
	name string
	file func(string, ...ucfg.Option) (*ucfg.Config, error)
}

var loaders = []loader{
	{"yaml", yaml.NewConfigWithFile},
	{"json", json.NewConfigWithFile},
	{"hjson", hjson.NewConfigWithFile},
}

type tc struct {
	name string
	doc  string
	opts []ucfg.Option
	run  func(c *ucfg.Config, opts []ucfg.Option) error
}

func unpackInto(mk func() interface{}) func(c *ucfg.Config, opts []ucfg.Option) error {
	return func(c *ucfg.Config, opts []ucfg.Option) error { return c.Unpack(mk(), opts...) }
}

var sv = []ucfg.Option{ucfg.PathSep("."), ucfg.VarExp}

var cases = []tc{
	{"int from string", `{"a":"x"}`, nil, unpackInto(func() interface{} { return &struct{ A int }{} })},
	{"int from obj", `{"a":{"b":1}}`, nil, unpackInto(func() interface{} { return &struct{ A int }{} })},
	{"obj from int", `{"a":1}`, nil, unpackInto(func() interface{} { return &struct{ A struct{ B int } }{} })},
	{"map from int", `{"a":1}`, nil, unpackInto(func() interface{} { return &struct{ A map[string]int }{} })},
	{"nested int from string", `{"a":{"b":[{"c":"x"}]}}`, nil, unpackInto(func() interface{} {
		return &struct{ A struct{ B []struct{ C int } } }{}
	})},
	{"int8 overflow", `{"a":300}`, nil, unpackInto(func() interface{} { return &struct{ A int8 }{} })},
	{"uint negative", `{"a":-3}`, nil, unpackInto(func() interface{} { return &struct{ A uint }{} })},
	{"bool from string", `{"a":"maybe"}`, nil, unpackInto(func() interface{} { return &struct{ A bool }{} })},
	{"duration invalid", `{"a":"10parsecs"}`, nil, unpackInto(func() interface{} { return &struct{ A time.Duration }{} })},
	{"duration negative uint", `{"a":-1.5}`, nil, unpackInto(func() interface{} { return &struct{ A time.Duration }{} })},
	{"duration huge", `{"a":1e30}`, nil, unpackInto(func() interface{} { return &struct{ A time.Duration }{} })},
	{"regexp invalid", `{"a":"(("}`, nil, unpackInto(func() interface{} { return &struct{ A *regexp.Regexp }{} })},
	{"array size", `{"a":[1,2,3]}`, nil, unpackInto(func() interface{} { return &struct{ A [2]int }{} })},
	{"validate positive", `{"a":-1}`, nil, unpackInto(func() interface{} {
		return &struct {
			A int `validate:"positive"`
		}{}
	})},
	{"validate required missing", `{"b":1}`, nil, unpackInto(func() interface{} {
		return &struct {
			A int `validate:"required"`
		}{}
	})},
	{"validate required nested missing", `{"s":{"b":1}}`, nil, unpackInto(func() interface{} {
		return &struct {
			S struct {
				A int `validate:"required"`
			}
		}{}
	})},
	{"validate required null", `{"a":null}`, nil, unpackInto(func() interface{} {
		return &struct {
			A string `validate:"required"`
		}{}
	})},
	{"validate nonzero", `{"a":0}`, nil, unpackInto(func() interface{} {
		return &struct {
			A int `validate:"nonzero"`
		}{}
	})},
	{"validate min", `{"a":1}`, nil, unpackInto(func() interface{} {
		return &struct {
			A int `validate:"min=3"`
		}{}
	})},
	{"validate nonzero arr", `{"a":[]}`, nil, unpackInto(func() interface{} {
		return &struct {
			A []int `validate:"nonzero"`
		}{}
	})},
	{"validate in map elem", `{"a":{"k":{"b":-1}}}`, nil, unpackInto(func() interface{} {
		return &struct {
			A map[string]struct {
				B int `validate:"positive"`
			}
		}{}
	})},
	{"validate in slice elem", `{"a":[{"b":-1}]}`, nil, unpackInto(func() interface{} {
		return &struct {
			A []struct {
				B int `validate:"positive"`
			}
		}{}
	})},
	{"missing ref", `{"a":"${nope}"}`, sv, unpackInto(func() interface{} { return &struct{ A string }{} })},
	{"missing ref generic", `{"a":"${nope}"}`, sv, unpackInto(func() interface{} { return &map[string]interface{}{} })},
	{"missing ref splice", `{"a":"x${nope}y"}`, sv, unpackInto(func() interface{} { return &struct{ A string }{} })},
	{"missing nested ref", `{"a":{"b":"${a.nope}"}}`, sv, unpackInto(func() interface{} { return &map[string]interface{}{} })},
	{"cyclic ref", `{"a":"${b}","b":"${a}"}`, sv, unpackInto(func() interface{} { return &struct{ A string }{} })},
	{"self ref", `{"a":"${a}"}`, sv, unpackInto(func() interface{} { return &struct{ A string }{} })},
	{"ref to obj in splice", `{"a":"x${b}","b":{"c":1}}`, sv, unpackInto(func() interface{} { return &struct{ A string }{} })},
	{"ref wrong type", `{"a":"${b}","b":"str"}`, sv, unpackInto(func() interface{} { return &struct{ A int }{} })},
	{"ref idx out of range", `{"a":"${b.5}","b":[1,2]}`, sv, unpackInto(func() interface{} { return &struct{ A int }{} })},
	{"getter missing", `{"a":1}`, nil, func(c *ucfg.Config, o []ucfg.Option) error { _, err := c.String("zz", -1, o...); return err }},
	{"getter nested missing", `{"a":{"b":1}}`, sv, func(c *ucfg.Config, o []ucfg.Option) error { _, err := c.String("a.zz", -1, o...); return err }},
	{"getter nested missing2", `{"a":{"b":1}}`, sv, func(c *ucfg.Config, o []ucfg.Option) error { _, err := c.String("zz.b", -1, o...); return err }},
	{"getter type", `{"a":"x"}`, nil, func(c *ucfg.Config, o []ucfg.Option) error { _, err := c.Int("a", -1, o...); return err }},
	{"getter bool type", `{"a":"x"}`, nil, func(c *ucfg.Config, o []ucfg.Option) error { _, err := c.Bool("a", -1, o...); return err }},
	{"getter child type", `{"a":"x"}`, nil, func(c *ucfg.Config, o []ucfg.Option) error { _, err := c.Child("a", -1, o...); return err }},
	{"getter idx", `{"a":[1,2]}`, nil, func(c *ucfg.Config, o []ucfg.Option) error { _, err := c.Int("a", 7, o...); return err }},
	{"getter idx on scalar", `{"a":1}`, nil, func(c *ucfg.Config, o []ucfg.Option) error { _, err := c.Int("a", 1, o...); return err }},
	{"getter path thru scalar", `{"a":1}`, sv, func(c *ucfg.Config, o []ucfg.Option) error { _, err := c.Int("a.b.c", -1, o...); return err }},
	{"getter path idx oob", `{"a":[1]}`, sv, func(c *ucfg.Config, o []ucfg.Option) error { _, err := c.Int("a.3", -1, o...); return err }},
	{"getter path idx oob nested", `{"a":[{"b":1}]}`, sv, func(c *ucfg.Config, o []ucfg.Option) error { _, err := c.Int("a.3.b", -1, o...); return err }},
	{"toplevel arr into struct", `[1,2]`, nil, unpackInto(func() interface{} { return &struct{ A int }{} })},
	{"toplevel obj into slice", `{"a":1}`, nil, unpackInto(func() interface{} { return &[]int{} })},
	{"slice of int from strings", `{"a":["x"]}`, nil, unpackInto(func() interface{} { return &struct{ A []int }{} })},
	{"map of int from strings", `{"a":{"k":"x"}}`, nil, unpackInto(func() interface{} { return &struct{ A map[string]int }{} })},
	{"slice from obj", `{"a":{"k":"x"}}`, nil, unpackInto(func() interface{} { return &struct{ A []int }{} })},
	{"child then unpack", `{"a":{"k":"x"}}`, nil, func(c *ucfg.Config, o []ucfg.Option) error {
		s, err := c.Child("a", -1)
		if err != nil {
			return err
		}
		return s.Unpack(&struct{ K int }{})
	}},
	{"arr child then unpack", `{"a":[{"k":"x"}]}`, nil, func(c *ucfg.Config, o []ucfg.Option) error {
		s, err := c.Child("a", 0)
		if err != nil {
			return err
		}
		return s.Unpack(&struct{ K int }{})
	}},
	{"unpack *Config then unpack", `{"a":[{"k":"x"}]}`, nil, func(c *ucfg.Config, o []ucfg.Option) error {
		var t struct{ A []*ucfg.Config }
		if err := c.Unpack(&t); err != nil {
			return err
		}
		return t.A[0].Unpack(&struct{ K int }{})
	}},
	{"merge copy then unpack", `{"a":[{"k":"x"}]}`, nil, func(c *ucfg.Config, o []ucfg.Option) error {
		n := ucfg.New()
		if err := n.Merge(c); err != nil {
			return err
		}
		return n.Unpack(&struct{ A []struct{ K int } }{})
	}},
	{"merge copy nested missing required", `{"a":{"k":"x"}}`, nil, func(c *ucfg.Config, o []ucfg.Option) error {
		n := ucfg.New()
		if err := n.Merge(c); err != nil {
			return err
		}
		return n.Unpack(&struct {
			A struct {
				Z int `validate:"required"`
			}
		}{})
	}},
	{"sep key expanded type", `{"a.b.c":"x"}`, sv, unpackInto(func() interface{} {
		return &struct{ A struct{ B struct{ C int } } }{}
	})},
	{"sep key expanded required", `{"a.b.c":"x"}`, sv, unpackInto(func() interface{} {
		return &struct {
			A struct {
				B struct {
					D int `validate:"required"`
				}
			}
		}{}
	})},
	{"sep key expanded expected obj", `{"a.b":"x"}`, sv, unpackInto(func() interface{} {
		return &struct{ A struct{ B struct{ C int } } }{}
	})},
	{"sep idx key", `{"a.1":"x"}`, sv, unpackInto(func() interface{} {
		return &struct{ A []int }{}
	})},
}

var loadErrCases = []struct {
	name string
	doc  string
	opts []ucfg.Option
}{
	{"dup key", `{"a.b":1,"a":{"b":2}}`, sv},
	{"dup key nested", `{"x":{"a.b":1,"a":{"b":2}}}`, sv},
	{"bad splice", `{"a":"${b"}`, sv},
	{"bad splice nested", `{"x":[{"a":"${b"}]}`, sv},
	{"top scalar", `3`, nil},
	{"top string", `"x"`, nil},
	{"path thru scalar", `{"a":1,"a.b":2}`, sv},
	{"idx too large", `{"a.99999999999":2}`, sv},
	{"neg idx", `{"a.-1":2}`, sv},
}

func main() {
	dir, _ := os.MkdirTemp("", "h")
	miss := 0
	for _, l := range loaders {
		for i, c := range cases {
			fn := filepath.Join(dir, fmt.Sprintf("%s-%d.conf", l.name, i))
			os.WriteFile(fn, []byte(c.doc), 0o644)
			cfg, err := l.file(fn, c.opts...)
			if err != nil {
				fmt.Printf("[%s] %s: LOAD ERR %v\n", l.name, c.name, err)
				continue
			}
			err = c.run(cfg, c.opts)
			if err == nil {
				fmt.Printf("[%s] %s: no error\n", l.name, c.name)
				continue
			}
			if !strings.Contains(err.Error(), fn) {
				miss++
				fmt.Printf("[%s] %s: NO SOURCE: %v\n", l.name, c.name, firstLine(err.Error()))
			}
		}
		for i, c := range loadErrCases {
			fn := filepath.Join(dir, fmt.Sprintf("%s-L%d.conf", l.name, i))
			os.WriteFile(fn, []byte(c.doc), 0o644)
			_, err := l.file(fn, c.opts...)
			if err == nil {
				fmt.Printf("[%s] load %s: no error\n", l.name, c.name)
				continue
			}
			if !strings.Contains(err.Error(), fn) {
				miss++
				fmt.Printf("[%s] load %s: NO SOURCE: %v\n", l.name, c.name, firstLine(err.Error()))
			}
		}
	}
	fmt.Println("missing source:", miss)
}

func firstLine(s string) string {
	if i := strings.Index(s, "\n"); i >= 0 {
		return s[:i]
	}
	return s
}
