// The document `null` is an empty configuration for yaml and json, an error for hjson.
package main

import (
	"fmt"

	"github.com/elastic/go-ucfg/hjson"
	"github.com/elastic/go-ucfg/json"
	"github.com/elastic/go-ucfg/yaml"
)

func main() {
	_, e1 := yaml.NewConfig([]byte("null"))
	_, e2 := json.NewConfig([]byte("null"))
	_, e3 := hjson.NewConfig([]byte("null"))
	fmt.Println("yaml :", e1)
	fmt.Println("json :", e2)
	fmt.Println("hjson:", e3)
}
