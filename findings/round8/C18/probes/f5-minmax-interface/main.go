// min/max on an interface{} field: the bound is parsed by the kind of the value,
// which is uint64 for YAML and float64 for JSON/HJSON.
package main

import (
	"fmt"

	ucfg "github.com/elastic/go-ucfg"
	"github.com/elastic/go-ucfg/hjson"
	"github.com/elastic/go-ucfg/json"
	"github.com/elastic/go-ucfg/yaml"
)

func main() {
	doc := []byte(`{"a": 5, "b": 5}`)
	for _, l := range []struct {
		n string
		f func([]byte, ...ucfg.Option) (*ucfg.Config, error)
	}{{"yaml", yaml.NewConfig}, {"json", json.NewConfig}, {"hjson", hjson.NewConfig}} {
		c, err := l.f(doc)
		if err != nil {
			panic(err)
		}
		var t struct {
			A interface{} `validate:"min=-1"`
			B interface{} `validate:"max=7.5"`
		}
		err = c.Unpack(&t)
		fmt.Printf("%-5s a=%v b=%v err=%v\n", l.n, t.A, t.B, err)
	}
}
