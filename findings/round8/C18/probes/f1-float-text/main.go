// Whole numbers >= 1e6 (and -0) read as text differ between YAML and JSON/HJSON.
package main

import (
	"fmt"

	ucfg "github.com/elastic/go-ucfg"
	"github.com/elastic/go-ucfg/hjson"
	"github.com/elastic/go-ucfg/json"
	"github.com/elastic/go-ucfg/yaml"
)

func main() {
	doc := []byte(`{"port": 10000000, "zero": -0, "url": "http://host:${port}/"}`)
	opts := []ucfg.Option{ucfg.VarExp}
	for _, l := range []struct {
		n string
		f func([]byte, ...ucfg.Option) (*ucfg.Config, error)
	}{{"yaml", yaml.NewConfig}, {"json", json.NewConfig}, {"hjson", hjson.NewConfig}} {
		c, err := l.f(doc, opts...)
		if err != nil {
			panic(err)
		}
		var typed struct {
			Port string
			Zero string
			URL  string `config:"url"`
		}
		if err := c.Unpack(&typed, opts...); err != nil {
			panic(err)
		}
		var generic map[string]interface{}
		if err := c.Unpack(&generic, opts...); err != nil {
			panic(err)
		}
		fmt.Printf("%-5s typed=%+v generic url=%q\n", l.n, typed, generic["url"])
	}
}
