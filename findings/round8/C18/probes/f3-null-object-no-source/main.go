// Errors about settings below a null (or absent) object do not name the file.
package main

import (
	"fmt"
	"os"
	"path/filepath"

	"github.com/elastic/go-ucfg/yaml"
)

type req struct {
	B int `validate:"required"`
}

func main() {
	dir, _ := os.MkdirTemp("", "h")
	defer os.RemoveAll(dir)
	fn := filepath.Join(dir, "a.yml")
	os.WriteFile(fn, []byte(`{"x": {"a": null, "l": [null, {"b": 1}], "c": {"z": 1}}}`), 0o600)
	c, err := yaml.NewConfigWithFile(fn)
	if err != nil {
		panic(err)
	}
	fmt.Println("x.c.b (object present):", c.Unpack(&struct{ X struct{ C req } }{}))
	fmt.Println("x.a.b (object null)   :", c.Unpack(&struct{ X struct{ A req } }{}))
	fmt.Println("x.q.b (object absent) :", c.Unpack(&struct{ X struct{ Q req } }{}))
	fmt.Println("x.l.0.b (null element):", c.Unpack(&struct{ X struct{ L []req } }{}))
}
