package main

import (
	"fmt"
	"reflect"
	"regexp"
	"time"

	ucfg "github.com/elastic/go-ucfg"
	"github.com/elastic/go-ucfg/hjson"
	"github.com/elastic/go-ucfg/json"
	"github.com/elastic/go-ucfg/yaml"
)

type loader struct {
	name string
	mem  func([]byte, ...ucfg.Option) (*ucfg.Config, error)
}

var loaders = []loader{
	{"yaml", yaml.NewConfig},
	{"json", json.NewConfig},
	{"hjson", hjson.NewConfig},
}

type MyInt int
type MyStr string

var targets = []func() interface{}{
	func() interface{} { return &struct{ A string }{} },
	func() interface{} { return &struct{ A *string }{} },
	func() interface{} { return &struct{ A MyStr }{} },
	func() interface{} { return &struct{ A int }{} },
	func() interface{} { return &struct{ A int8 }{} },
	func() interface{} { return &struct{ A MyInt }{} },
	func() interface{} { return &struct{ A uint }{} },
	func() interface{} { return &struct{ A uint8 }{} },
	func() interface{} { return &struct{ A float32 }{} },
	func() interface{} { return &struct{ A float64 }{} },
	func() interface{} { return &struct{ A bool }{} },
	func() interface{} { return &struct{ A time.Duration }{} },
	func() interface{} { return &struct{ A *regexp.Regexp }{} },
	func() interface{} { return &struct{ A []string }{} },
	func() interface{} { return &struct{ A []int }{} },
	func() interface{} { return &struct{ A map[string]string }{} },
	func() interface{} { return &struct{ A map[string]int }{} },
	func() interface{} { return &struct{ A interface{} }{} },
	func() interface{} { return &struct{ A interface{} }{A: 5} },
	func() interface{} { return &struct{ A interface{} }{A: "s"} },
	func() interface{} { return &struct{ A interface{} }{A: 1.5} },
	func() interface{} { return &struct{ A interface{} }{A: uint8(1)} },
	func() interface{} { return &struct{ A []interface{} }{} },
	func() interface{} { return &struct{ A [2]int }{} },
	func() interface{} { return &struct{ A struct{ B int } }{} },
	func() interface{} { return &struct{ A *struct{ B string } }{} },
	func() interface{} {
		return &struct {
			A int `validate:"positive"`
		}{}
	},
	func() interface{} {
		return &struct {
			A int `validate:"nonzero"`
		}{}
	},
	func() interface{} {
		return &struct {
			A interface{} `validate:"nonzero"`
		}{}
	},
	func() interface{} {
		return &struct {
			A interface{} `validate:"positive"`
		}{}
	},
	func() interface{} {
		return &struct {
			A interface{} `validate:"min=2"`
		}{}
	},
	func() interface{} {
		return &struct {
			A float64 `validate:"min=2, max=10"`
		}{}
	},
	func() interface{} {
		return &struct {
			A time.Duration `validate:"min=2s"`
		}{}
	},
	func() interface{} {
		return &struct {
			A string `validate:"required"`
		}{}
	},
	func() interface{} {
		return &struct {
			A []int `validate:"required"`
		}{}
	},
	func() interface{} { return &map[string]int{} },
	func() interface{} { return &map[string]string{} },
	func() interface{} { return &map[string]uint8{} },
	func() interface{} { return &map[string]bool{} },
	func() interface{} { return &map[string]float32{} },
	func() interface{} { return &map[string]time.Duration{} },
	func() interface{} { return &map[string]interface{}{"a": 3} },
	func() interface{} { return &map[string]interface{}{"a": "x"} },
	func() interface{} { return &map[string]interface{}{"a": map[string]interface{}{"z": 1}} },
	func() interface{} { return &map[string]interface{}{"a": []int{9, 9, 9}} },
}

var docs = []string{
	`{"a":1}`, `{"a":0}`, `{"a":-1}`, `{"a":1.0}`, `{"a":1.5}`, `{"a":-1.5}`, `{"a":0.0}`, `{"a":-0.0}`, `{"a":-0}`,
	`{"a":255}`, `{"a":256}`, `{"a":127}`, `{"a":128}`, `{"a":-128}`, `{"a":-129}`,
	`{"a":10000000}`, `{"a":1e7}`, `{"a":1e2}`, `{"a":0.000001}`, `{"a":1234567}`, `{"a":100000}`, `{"a":1000000}`,
	`{"a":2147483648}`, `{"a":4294967296}`, `{"a":1e19}`, `{"a":1e20}`, `{"a":9007199254740992}`,
	`{"a":3.4e39}`, `{"a":1e-50}`,
	`{"a":true}`, `{"a":false}`, `{"a":null}`, `{"a":"x"}`, `{"a":""}`, `{"a":"1"}`, `{"a":"1.0"}`, `{"a":"1e3"}`, `{"a":"0x10"}`, `{"a":"true"}`, `{"a":"10s"}`, `{"a":"-1"}`,
	`{"a":[]}`, `{"a":[1]}`, `{"a":[1,2]}`, `{"a":[1,2,3]}`, `{"a":["x","y"]}`, `{"a":[1.5,"x",null,true]}`, `{"a":[[1]]}`,
	`{"a":{}}`, `{"a":{"b":1}}`, `{"a":{"b":"x"}}`, `{"a":{"b":null}}`, `{"a":{"0":1}}`, `{"a":{"b":10000000}}`,
	`{}`, `{"A":1}`, `{"b":1}`,
	`{"a":3600}`, `{"a":0.5}`, `{"a":1e10}`, `{"a":9.3e9}`,
}

func main() {
	bad := 0
	for _, doc := range docs {
		for ti, mk := range targets {
			var outs []string
			var vals []interface{}
			for _, l := range loaders {
				c, err := l.mem([]byte(doc))
				if err != nil {
					outs = append(outs, "load:"+err.Error())
					vals = append(vals, nil)
					continue
				}
				t := mk()
				func() {
					defer func() {
						if r := recover(); r != nil {
							outs = append(outs, fmt.Sprintf("PANIC %v", r))
							vals = append(vals, nil)
							fmt.Printf("PANIC doc=%s target=%d(%T) loader=%s: %v\n", doc, ti, t, l.name, r)
						}
					}()
					err = c.Unpack(t)
					if err != nil {
						outs = append(outs, "err")
						vals = append(vals, nil)
						_ = err
					} else {
						outs = append(outs, fmt.Sprintf("%+v", deref(t)))
						vals = append(vals, t)
					}
				}()
			}
			same := true
			for i := 1; i < len(outs); i++ {
				if outs[i] != outs[0] {
					same = false
				}
			}
			if !same {
				bad++
				fmt.Printf("DIFF doc=%s target=%d(%T): %q\n", doc, ti, mk(), outs)
			}
		}
	}
	fmt.Println("diffs:", bad)
}

func deref(t interface{}) string {
	v := reflect.ValueOf(t).Elem()
	return dump(v)
}

func dump(v reflect.Value) string {
	switch v.Kind() {
	case reflect.Ptr, reflect.Interface:
		if v.IsNil() {
			return "nil"
		}
		if v.Type() == reflect.TypeOf((*regexp.Regexp)(nil)) {
			return "re:" + v.Interface().(*regexp.Regexp).String()
		}
		return "&" + dump(v.Elem())
	case reflect.Struct:
		s := "{"
		for i := 0; i < v.NumField(); i++ {
			s += v.Type().Field(i).Name + ":" + dump(v.Field(i)) + " "
		}
		return s + "}"
	case reflect.Map:
		if v.IsNil() {
			return "nilmap"
		}
		s := "map["
		keys := v.MapKeys()
		// sort
		for i := range keys {
			for j := i + 1; j < len(keys); j++ {
				if keys[j].String() < keys[i].String() {
					keys[i], keys[j] = keys[j], keys[i]
				}
			}
		}
		for _, k := range keys {
			s += k.String() + ":" + dump(v.MapIndex(k)) + " "
		}
		return s + "]"
	case reflect.Slice, reflect.Array:
		if v.Kind() == reflect.Slice && v.IsNil() {
			return "nilslice"
		}
		s := "["
		for i := 0; i < v.Len(); i++ {
			s += dump(v.Index(i)) + " "
		}
		return s + "]"
	case reflect.Int, reflect.Int8, reflect.Int16, reflect.Int32, reflect.Int64:
		if v.Type() == reflect.TypeOf(time.Duration(0)) {
			return "dur" + fmt.Sprint(v.Int())
		}
		return fmt.Sprintf("n%v", float64(v.Int()))
	case reflect.Uint, reflect.Uint8, reflect.Uint16, reflect.Uint32, reflect.Uint64:
		return fmt.Sprintf("n%v", float64(v.Uint()))
	case reflect.Float32, reflect.Float64:
		return fmt.Sprintf("n%v", v.Float())
	}
	return fmt.Sprintf("%v", v.Interface())
}
