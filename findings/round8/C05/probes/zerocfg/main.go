package main

import (
	"fmt"
	"regexp"

	ucfg "github.com/elastic/go-ucfg"
)

func try(name string, in interface{}) {
	defer func() {
		if r := recover(); r != nil {
			fmt.Printf("%-34s PANIC %v\n", name, r)
		}
	}()
	c, err := ucfg.NewFrom(in)
	if err != nil {
		fmt.Printf("%-34s ERR %.80s\n", name, err.Error())
		return
	}
	m := map[string]interface{}{}
	err = c.Unpack(&m)
	fmt.Printf("%-34s %#v (%v)\n", name, m, err)
}

func main() {
	try("zero Config value in struct", struct{ CV ucfg.Config }{})
	try("zero Config value in map", map[string]interface{}{"a": ucfg.Config{}})
	try("&Config{} in map", map[string]interface{}{"a": &ucfg.Config{}})
	try("zero Config top level", ucfg.Config{})
	try("&Config{} top level", &ucfg.Config{})
	try("zero regexp value", struct{ RV regexp.Regexp }{})
	try("New() in map (control)", map[string]interface{}{"a": ucfg.New()})
}
