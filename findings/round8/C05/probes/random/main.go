package main

import (
	"fmt"
	"math/rand"
	"reflect"
	"sort"
	"strings"

	ucfg "github.com/elastic/go-ucfg"
)

var names = []string{"a", "b", "c", "d1", "0", "1", "2", "x_y", "K", "00", "1e3", "0x2", "-1", "1025", "true", "null"}

func gen(r *rand.Rand, depth int) interface{} {
	k := r.Intn(10)
	if depth <= 0 && k < 4 {
		k = 4 + r.Intn(6)
	}
	switch {
	case k < 2:
		n := r.Intn(4)
		m := map[string]interface{}{}
		for i := 0; i < n; i++ {
			m[names[r.Intn(len(names))]] = gen(r, depth-1)
		}
		return m
	case k < 4:
		n := r.Intn(4)
		l := make([]interface{}, n)
		for i := range l {
			l[i] = gen(r, depth-1)
		}
		return l
	case k == 4:
		return r.Intn(2) == 0
	case k == 5:
		return int64(r.Intn(7) - 3)
	case k == 6:
		return uint64(r.Intn(5))
	case k == 7:
		return float64(r.Intn(5)) / 2
	case k == 8:
		return []string{"", "s", "1", "true", "a.b"}[r.Intn(5)]
	default:
		return nil
	}
}

// alternative representation
func alt(r *rand.Rand, v interface{}) interface{} {
	switch t := v.(type) {
	case map[string]interface{}:
		switch r.Intn(3) {
		case 0:
			m := map[interface{}]interface{}{}
			for k, e := range t {
				m[k] = alt(r, e)
			}
			return m
		case 1:
			m := map[string]interface{}{}
			for k, e := range t {
				m[k] = alt(r, e)
			}
			return &m
		default:
			c, err := ucfg.NewFrom(t, ucfg.PathSep("."))
			if err != nil {
				return t
			}
			return c
		}
	case []interface{}:
		l := make([]interface{}, len(t))
		for i, e := range t {
			l[i] = alt(r, e)
		}
		if r.Intn(2) == 0 {
			return &l
		}
		return l
	case int64:
		if r.Intn(2) == 0 {
			return int8(t)
		}
		x := int(t)
		return &x
	case uint64:
		if r.Intn(2) == 0 {
			return int32(t)
		}
		return uint8(t)
	case float64:
		return float32(t)
	}
	return v
}

// flatten partially
func flat(r *rand.Rand, m map[string]interface{}) map[string]interface{} {
	out := map[string]interface{}{}
	for k, v := range m {
		if sub, ok := v.(map[string]interface{}); ok && len(sub) > 0 && r.Intn(2) == 0 {
			for k2, v2 := range flat(r, sub) {
				out[k+"."+k2] = v2
			}
			continue
		}
		if l, ok := v.([]interface{}); ok && len(l) > 0 && r.Intn(3) == 0 {
			for i, e := range l {
				out[fmt.Sprintf("%s.%d", k, i)] = e
			}
			continue
		}
		out[k] = v
	}
	return out
}

func canon(v interface{}) string {
	switch t := v.(type) {
	case nil:
		return "nil"
	case map[string]interface{}:
		if len(t) == 0 {
			return "nil"
		}
		ks := make([]string, 0, len(t))
		for k := range t {
			ks = append(ks, k)
		}
		sort.Strings(ks)
		var b strings.Builder
		b.WriteString("{")
		for _, k := range ks {
			fmt.Fprintf(&b, "%q:%s,", k, canon(t[k]))
		}
		b.WriteString("}")
		return b.String()
	case []interface{}:
		var b strings.Builder
		b.WriteString("[")
		for _, e := range t {
			b.WriteString(canon(e) + ",")
		}
		b.WriteString("]")
		return b.String()
	case int64:
		return fmt.Sprintf("n%v", float64(t))
	case uint64:
		return fmt.Sprintf("n%v", float64(t))
	case float64:
		return fmt.Sprintf("n%v", t)
	case string:
		return fmt.Sprintf("%q", t)
	case bool:
		return fmt.Sprintf("%v", t)
	}
	return fmt.Sprintf("?%T", v)
}

func unpack(in interface{}) (s string, m map[string]interface{}, err error) {
	defer func() {
		if r := recover(); r != nil {
			err = fmt.Errorf("PANIC %v", r)
		}
	}()
	c, err := ucfg.NewFrom(in, ucfg.PathSep("."))
	if err != nil {
		return "", nil, err
	}
	m = map[string]interface{}{}
	if err := c.Unpack(&m, ucfg.PathSep(".")); err != nil {
		return "", nil, err
	}
	return canon(m), m, nil
}

func main() {
	r := rand.New(rand.NewSource(1))
	bad := 0
	for i := 0; i < 20000 && bad < 15; i++ {
		n := 1 + r.Intn(4)
		m := map[string]interface{}{}
		for j := 0; j < n; j++ {
			m[[]string{"a", "b", "c", "d", "e1"}[r.Intn(5)]] = gen(r, 3)
		}
		s0, m0, err0 := unpack(m)
		if err0 != nil {
			if strings.Contains(err0.Error(), "PANIC") {
				fmt.Println("PANIC", err0, m)
				bad++
			}
			continue
		}
		// idempotence
		s1, _, err1 := unpack(m0)
		if err1 != nil || s1 != s0 {
			fmt.Printf("IDEMP in=%v\n s0=%s\n s1=%s err=%v\n", m, s0, s1, err1)
			bad++
		}
		a := alt(r, m)
		s2, _, err2 := unpack(a)
		if err2 != nil || s2 != s0 {
			fmt.Printf("ALT in=%v\n s0=%s\n s2=%s err=%v\n", m, s0, s2, err2)
			bad++
		}
		f := flat(r, m)
		s3, _, err3 := unpack(f)
		if err3 != nil || s3 != s0 {
			fmt.Printf("FLAT in=%v\n flat=%v\n s0=%s\n s3=%s err=%v\n", m, f, s0, s3, err3)
			bad++
		}
		_ = reflect.DeepEqual
	}
	fmt.Println("done, bad =", bad)
}
