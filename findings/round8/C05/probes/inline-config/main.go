// Inlined fields in structs passed to NewFrom/Merge: the documentation of
// Merge says the field "can be a struct, a slice, an array, a map or of type
// *Config". A *Config is silently dropped, a slice and a nil pointer are
// refused with a critical (assert) error.
package main

import (
	"fmt"

	ucfg "github.com/elastic/go-ucfg"
)

type Inner struct {
	X int `config:"x"`
}

func show(name string, in interface{}) {
	c, err := ucfg.NewFrom(in)
	if err != nil {
		fmt.Printf("%-22s ERR %.90s\n", name, err.Error())
		return
	}
	m := map[string]interface{}{}
	c.Unpack(&m)
	fmt.Printf("%-22s %v\n", name, m)
}

func main() {
	sub := ucfg.MustNewFrom(map[string]interface{}{"q": 1})
	show("inline *Config", struct {
		C *ucfg.Config `config:",inline"`
		Y int          `config:"y"`
	}{sub, 2}) // q is lost
	show("inline Config value", struct {
		C ucfg.Config `config:",inline"`
		Y int         `config:"y"`
	}{*sub, 2}) // q is lost
	show("inline nil *struct", struct {
		*Inner `config:",inline"`
		Y      int `config:"y"`
	}{nil, 1})
	show("inline slice", struct {
		L []int `config:",inline"`
	}{[]int{1}})
}
