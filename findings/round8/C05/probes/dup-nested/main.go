// The same setting defined twice below two overlapping sub-trees is not
// rejected: normalizeSetField merges the two objects with mergeConfig (last
// one wins, nil overwrites) instead of applying its own duplicate / nil rules.
package main

import (
	"fmt"

	ucfg "github.com/elastic/go-ucfg"
)

type M = map[string]interface{}

func show(name string, in interface{}, opts ...ucfg.Option) {
	c, err := ucfg.NewFrom(in, opts...)
	if err != nil {
		fmt.Printf("%-28s rejected: %v\n", name, err)
		return
	}
	m := M{}
	c.Unpack(&m, opts...)
	fmt.Printf("%-28s ACCEPTED: %v\n", name, m)
}

type twice struct {
	A map[string]int `config:"a"`
	B map[string]int `config:"a"`
}
type lists struct {
	A []int `config:"a"`
	B []int `config:"a"`
}

func main() {
	sep := ucfg.PathSep(".")
	// control: one level -> duplicate key error
	show("control a.b twice", M{"a": M{"b": 2}, "a.b": 1}, sep)
	// a.b.c defined as 2 (nested) and as 1 (dotted): accepted, value 1
	show("a.b.c twice", M{"a": M{"b": M{"c": 2}}, "a.b": M{"c": 1}}, sep)
	// a.0.b twice
	show("a.0.b twice", M{"a": []interface{}{M{"b": 1}}, "a.0": M{"b": 2}}, sep)
	// struct: two fields with the same name holding objects / lists
	show("struct objects", twice{A: map[string]int{"x": 1}, B: map[string]int{"x": 2}})
	show("struct lists", lists{A: []int{1, 2}, B: []int{3}})
	// nil handling differs between spellings of the same input
	show("nil nested spelling", M{"a": M{"x": M{"b": 1}}, "a.x": M{"b": nil}}, sep)
	show("nil dotted spelling", M{"a": M{"x": M{"b": 1}}, "a.x.b": nil}, sep)
}
