// EnableNumKeys(true) with a path separator: the dotted key "a.0" still makes
// a list entry, the nested key "0" below "a" makes a dictionary entry, so the
// two spellings of one tree differ; given both, one value is lost in the
// generic view.
package main

import (
	"fmt"

	ucfg "github.com/elastic/go-ucfg"
)

type M = map[string]interface{}

func show(in M) {
	opts := []ucfg.Option{ucfg.PathSep("."), ucfg.EnableNumKeys(true)}
	c, err := ucfg.NewFrom(in, opts...)
	if err != nil {
		fmt.Println("ERR", err)
		return
	}
	m := M{}
	c.Unpack(&m, opts...)
	fmt.Printf("%#v\n", m)
}

func main() {
	show(M{"a.0": "x"})                    // a: ["x"]
	show(M{"a": M{"0": "x"}})              // a: {"0": "x"}
	show(M{"a": M{"0": "x"}, "a.0": "y"}) // a: {"0": "y"}, x lost, no duplicate error
}
