package main

import (
	"fmt"

	ucfg "github.com/elastic/go-ucfg"
)

func view(name string, in interface{}, opts ...ucfg.Option) {
	defer func() {
		if r := recover(); r != nil {
			fmt.Printf("%-30s PANIC %v\n", name, r)
		}
	}()
	c, err := ucfg.NewFrom(in, opts...)
	if err != nil {
		fmt.Printf("%-30s ERR %v\n", name, err)
		return
	}
	m := map[string]interface{}{}
	err = c.Unpack(&m, opts...)
	var l []interface{}
	err2 := c.Unpack(&l, opts...)
	fmt.Printf("%-30s map=%#v (%v) list=%#v (%v)\n", name, m, err, l, err2)
}

type Inner struct {
	X int `config:"x"`
}
type InlPtr struct {
	*Inner `config:",inline"`
	Y      int `config:"y"`
}
type InlCfg struct {
	C *ucfg.Config `config:",inline"`
	Y int          `config:"y"`
}
type InlSlice struct {
	L []int `config:",inline"`
}
type S1 struct {
	A struct {
		Sub struct{ X int }
	} `config:",inline"`
	B struct {
		Sub struct{ X int }
	} `config:",inline"`
}

func main() {
	sep := ucfg.PathSep(".")
	M := func(kv ...interface{}) map[string]interface{} {
		m := map[string]interface{}{}
		for i := 0; i < len(kv); i += 2 {
			m[kv[i].(string)] = kv[i+1]
		}
		return m
	}
	view("dup nested merge", M("a.b", M("c", 1), "a", M("b.c", 2)), sep)
	view("dup nested merge2", M("a", M("b", M("c", 2)), "a.b", M("c", 1)), sep)
	view("dup list elt", M("a", []interface{}{M("b", 1)}, "a.0", M("b", 2)), sep)
	view("dup direct", M("a", M("b", 2), "a.b", 1), sep)
	view("inline nil ptr", InlPtr{Y: 1})
	view("inline ptr", InlPtr{Inner: &Inner{3}, Y: 1})
	sub := ucfg.MustNewFrom(M("q", 1))
	view("inline cfg", InlCfg{C: sub, Y: 2})
	view("inline slice", InlSlice{L: []int{1}})
	view("inline nested dup", S1{})
	view("top mixed", M("0", "x", "b", "y"))
	view("top numeric", M("0", "x"))
	view("nested mixed", M("a", M("0", "x", "b", "y")))
	view("numkeys dotted", M("a.0", "x"), sep, ucfg.EnableNumKeys(true))
	view("numkeys nested", M("a", M("0", "x")), sep, ucfg.EnableNumKeys(true))
	view("numkeys collide", M("a", M("0", "x"), "a.0", "y"), sep, ucfg.EnableNumKeys(true))
	view("escape", M("[a.b]", 1), sep, ucfg.EscapePath())
	view("a then a.b nil", M("a", 1, "a.b", nil), sep)
	view("prim idx0", M("a", 5, "a.0", 6), sep)
	view("prim idx0 nil", M("a", 5, "a.0", nil), sep)
	view("a.0.0 over prim", M("a", 5, "a.0.0.0", nil), sep)
	view("hex idx", M("a", M("0x1", "x")), sep)
	view("neg idx", M("a", M("-0", "x")), sep)
	view("plus idx", M("a", M("+1", "x", "1", "y")), sep)
	view("empty key", M("", 1, "a.", 2, ".b", 3), sep)
	view("only sep", M(".", 1), sep)
}
