// A top-level input with an index-like key and a named key: nested, the
// generic view keeps both ("0" and "b"); at top level Unpack into a map drops
// the indexed entry and Unpack into a list drops the named one.
package main

import (
	"fmt"

	ucfg "github.com/elastic/go-ucfg"
)

func main() {
	in := map[string]interface{}{"0": "x", "b": "y"}
	c := ucfg.MustNewFrom(in)
	m := map[string]interface{}{}
	var l []interface{}
	fmt.Println(c.Unpack(&m), m) // map[b:y]
	fmt.Println(c.Unpack(&l), l) // [x]
	c = ucfg.MustNewFrom(map[string]interface{}{"a": in})
	m = map[string]interface{}{}
	fmt.Println(c.Unpack(&m), m) // map[a:map[0:x b:y]]
}
