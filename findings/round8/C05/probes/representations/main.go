package main

import (
	"fmt"
	"regexp"
	"time"

	ucfg "github.com/elastic/go-ucfg"
)

func view(name string, in interface{}, opts ...ucfg.Option) {
	defer func() {
		if r := recover(); r != nil {
			fmt.Printf("%-26s PANIC %v\n", name, r)
		}
	}()
	c, err := ucfg.NewFrom(in, opts...)
	if err != nil {
		s := err.Error()
		if len(s) > 100 {
			s = s[:100]
		}
		fmt.Printf("%-26s ERR %v\n", name, s)
		return
	}
	m := map[string]interface{}{}
	err = c.Unpack(&m, opts...)
	var l []interface{}
	err2 := c.Unpack(&l, opts...)
	fmt.Printf("%-26s map=%#v (%v) list=%#v (%v)\n", name, m, err, l, err2)
}

type MyStr string
type MyInt int
type MyMap map[string]interface{}
type MyKeyMap map[MyStr]int
type MyCfg ucfg.Config
type Leaf struct {
	N  int            `config:"n"`
	P  *int           `config:"p"`
	PP **int          `config:"pp"`
	I  interface{}    `config:"i"`
	D  time.Duration  `config:"d"`
	R  *regexp.Regexp `config:"r"`
	RV regexp.Regexp  `config:"rv"`
	M  MyMap          `config:"m"`
	A  [2]MyInt       `config:"arr"`
	C  *ucfg.Config   `config:"c"`
	CV ucfg.Config    `config:"cv"`
	MC *MyCfg         `config:"mc"`
	u  int
}
type Tagged struct {
	A int         `config:"x.y"`
	B map[string]int `config:"x"`
	C int `config:"x.z.0"`
	D []int `config:"x.z"`
}
type Emb struct {
	Leaf
	Other int
}
type T2 struct {
	A interface{} `config:"a"`
	B interface{} `config:"a"`
}

func main() {
	sep := ucfg.PathSep(".")
	one := 1
	pone := &one
	var nilp *int
	var nilpp **int = &nilp
	view("leaf zero", Leaf{})
	view("leaf ptr", &Leaf{N: -1, P: pone, PP: &pone, I: nilpp, D: time.Second, R: regexp.MustCompile("a+"), M: MyMap{"k": MyStr("v")}, A: [2]MyInt{1, 2}, C: ucfg.MustNewFrom(map[string]interface{}{"q": 1}), MC: (*MyCfg)(ucfg.MustNewFrom(map[string]interface{}{"z": true}))})
	view("mykeymap", MyKeyMap{"a": 1})
	view("ifacekey named", map[interface{}]interface{}{MyStr("a"): 1, "a": 2})
	view("ifacekey int", map[interface{}]interface{}{1: 1})
	view("ifacekey nil", map[interface{}]interface{}{nil: 1})
	view("tagged", Tagged{A: 1, B: map[string]int{"w": 2}, C: 3}, sep)
	view("tagged dup", Tagged{A: 1, B: map[string]int{"y": 2}}, sep)
	view("tagged arr", Tagged{C: 3, D: []int{4}}, sep)
	view("tagged arr2", Tagged{C: 3, D: []int{}}, sep)
	view("emb", Emb{})
	view("t2 nil first", T2{A: nil, B: 1})
	view("t2 nil second", T2{A: 1, B: nil})
	view("t2 both", T2{A: 1, B: 1})
	view("t2 subs", T2{A: map[string]int{"a": 1}, B: map[string]int{"a": 2}})
	view("t2 sub then empty", T2{A: map[string]int{"a": 1}, B: map[string]int{}})
	view("t2 prim then empty", T2{A: 1, B: map[string]int{}})
	view("t2 empty then prim", T2{A: map[string]int{}, B: 1})
	view("t2 list then list", T2{A: []int{1, 2}, B: []int{3}})
	view("top array", [2]int{1, 2})
	view("top ptr slice", &[]interface{}{map[string]int{"a": 1}})
	view("top slice cfg", []*ucfg.Config{ucfg.MustNewFrom(map[string]int{"a": 1})})
	view("cfg by value", *ucfg.MustNewFrom(map[string]int{"a": 1}))
	view("mycfg", (*MyCfg)(ucfg.MustNewFrom(map[string]int{"a": 1})))
	view("mycfg val", MyCfg(*ucfg.MustNewFrom(map[string]int{"a": 1})))
	var ni interface{} = (*Leaf)(nil)
	view("nil struct ptr", ni)
	view("nil struct ptr in map", map[string]interface{}{"a": (*Leaf)(nil), "b": (*ucfg.Config)(nil), "c": (map[string]int)(nil), "d": ([]int)(nil), "e": (*[]int)(nil)})
	view("nil cfg ptr in slice", []*ucfg.Config{nil})
	view("chan", map[string]interface{}{"a": make(chan int)})
	view("nil chan", map[string]interface{}{"a": (chan int)(nil)})
	view("func", map[string]interface{}{"a": (func())(nil)})
	view("uintptr", map[string]interface{}{"a": uintptr(1)})
	view("complex", map[string]interface{}{"a": complex(1, 1)})
	view("bytes", map[string]interface{}{"a": []byte("ab")})
	view("dur", map[string]interface{}{"a": time.Duration(0), "b": MyInt(3)})
	view("a.b cfg + a", map[string]interface{}{"a.b": ucfg.MustNewFrom(map[string]int{"q": 1}), "a": map[string]interface{}{"c": 1}}, sep)
	src := ucfg.MustNewFrom(map[string]interface{}{"q": map[string]int{"r": 1}})
	view("cfg twice", map[string]interface{}{"a": src, "b": src}, sep)
	view("cfg dup merge", map[string]interface{}{"a": src, "a.q": map[string]int{"s": 2}}, sep)
	m := map[string]interface{}{}
	src.Unpack(&m)
	fmt.Printf("src after: %#v\n", m)
}
