// EscapePath: a key that starts with '[' and ends with ']' is kept whole even
// if it is a dotted path of two escaped names.
package main

import (
	"fmt"

	ucfg "github.com/elastic/go-ucfg"
)

type M = map[string]interface{}

func show(in M) {
	opts := []ucfg.Option{ucfg.PathSep("."), ucfg.EscapePath()}
	c, err := ucfg.NewFrom(in, opts...)
	if err != nil {
		fmt.Println("ERR", err)
		return
	}
	m := M{}
	c.Unpack(&m, opts...)
	fmt.Printf("%#v\n", m)
}

func main() {
	show(M{"[a].[b]": 1})         // one key "[a].[b]"
	show(M{"[a]": M{"[b]": 1}})   // "[a]" -> "[b]"
	show(M{"x.[a]": 1})           // x -> "[a]"
	show(M{"x.[a.b]": 1})         // x -> "[a" -> "b]"  (escape only works for whole keys)
}
