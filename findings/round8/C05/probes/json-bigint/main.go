// The JSON and HJSON loaders decode every number as float64, so an integer
// above 2^53 is not the number written in the document; the YAML loader keeps
// it exact. (Loader level: ucfg.NewFrom itself keeps int64/uint64 exact.)
package main

import (
	"fmt"

	"github.com/elastic/go-ucfg/hjson"
	"github.com/elastic/go-ucfg/json"
	"github.com/elastic/go-ucfg/yaml"
)

func main() {
	doc := []byte(`{"id": 9007199254740993}`)
	for _, l := range []struct {
		name string
		f    func() (interface{}, error)
	}{
		{"json", func() (interface{}, error) {
			c, err := json.NewConfig(doc)
			if err != nil {
				return nil, err
			}
			m := map[string]interface{}{}
			return m, c.Unpack(&m)
		}},
		{"hjson", func() (interface{}, error) {
			c, err := hjson.NewConfig(doc)
			if err != nil {
				return nil, err
			}
			m := map[string]interface{}{}
			return m, c.Unpack(&m)
		}},
		{"yaml", func() (interface{}, error) {
			c, err := yaml.NewConfig(doc)
			if err != nil {
				return nil, err
			}
			m := map[string]interface{}{}
			return m, c.Unpack(&m)
		}},
	} {
		m, err := l.f()
		fmt.Printf("%-6s %#v %v\n", l.name, m, err)
	}
	c, _ := json.NewConfig(doc)
	var s struct{ ID uint64 }
	err := c.Unpack(&s)
	fmt.Println("json -> uint64 field:", s.ID, err)
}
