package main

import (
	"fmt"
	"os"
	"strings"

	ucfg "github.com/elastic/go-ucfg"
	"github.com/elastic/go-ucfg/hjson"
	"github.com/elastic/go-ucfg/json"
	"github.com/elastic/go-ucfg/parse"
	"github.com/elastic/go-ucfg/yaml"
)

func main() {
	n := 6000000
	if len(os.Args) > 2 {
		fmt.Sscan(os.Args[2], &n)
	}
	switch os.Args[1] {
	case "parse":
		_, err := parse.Value(strings.Repeat("[", n))
		fmt.Println("err:", err != nil)
	case "parseobj":
		_, err := parse.Value(strings.Repeat("{a:", n))
		fmt.Println("err:", err != nil)
	case "yaml":
		_, err := yaml.NewConfig([]byte(strings.Repeat("[", n)))
		fmt.Println("err:", err != nil)
	case "yaml2":
		_, err := yaml.NewConfig([]byte("a: " + strings.Repeat("[", n) + strings.Repeat("]", n)))
		fmt.Println("err:", err)
	case "json":
		_, err := json.NewConfig([]byte(strings.Repeat("[", n)))
		fmt.Println("err:", err != nil)
	case "hjson":
		_, err := hjson.NewConfig([]byte(strings.Repeat("[", n)))
		fmt.Println("err:", err != nil)
	case "varexp":
		c, err := ucfg.NewFrom(map[string]interface{}{"a": strings.Repeat("${", n) + "x" + strings.Repeat("}", n), "x": "x"}, ucfg.VarExp)
		fmt.Println("err:", err != nil)
		if err == nil {
			_, err = c.String("a", -1)
			fmt.Println("err:", err != nil)
		}
	case "selfchild":
		c := ucfg.New()
		fmt.Println(c.SetChild("a", -1, c))
		fmt.Println(c.Path("."))
	case "selfchild2":
		c := ucfg.New()
		c.SetString("s", -1, "${x}")
		fmt.Println(c.SetChild("a", -1, c))
		var m map[string]interface{}
		fmt.Println(c.Unpack(&m))
	case "ancestor":
		p, ch := ucfg.New(), ucfg.New()
		fmt.Println(p.SetChild("c", -1, ch))
		fmt.Println(ch.SetChild("p", -1, p))
		var m map[string]interface{}
		fmt.Println(p.Unpack(&m))
	case "pathdepth":
		// deep path through a key with PathSep
		k := strings.Repeat("a.", n) + "a"
		c, err := ucfg.NewFrom(map[string]interface{}{k: 1}, ucfg.PathSep("."))
		fmt.Println("err:", err != nil)
		if err == nil {
			var m map[string]interface{}
			fmt.Println(c.Unpack(&m) != nil)
		}
	}
}
