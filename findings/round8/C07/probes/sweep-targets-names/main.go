package main

import (
	"fmt"
	"math"
	"regexp"
	"time"
	"unsafe"

	ucfg "github.com/elastic/go-ucfg"
	"github.com/elastic/go-ucfg/cfgutil"
	"github.com/elastic/go-ucfg/flag"
	"github.com/elastic/go-ucfg/parse"
)

func try(name string, f func()) {
	defer func() {
		if r := recover(); r != nil {
			fmt.Printf("PANIC %-40s: %v\n", name, r)
		}
	}()
	f()
}

type strct struct{ A int }
type iface interface{ IsDict() bool }

func main() {
	mk := func(m map[string]interface{}, o ...ucfg.Option) *ucfg.Config {
		c, err := ucfg.NewFrom(m, o...)
		if err != nil {
			panic(err)
		}
		return c
	}
	src := mk(map[string]interface{}{
		"i": 1, "s": "str", "f": 1.5, "n": nil, "b": true,
		"l": []interface{}{1, 2}, "o": map[string]interface{}{"a": 1},
		"e": []interface{}{}, "eo": map[string]interface{}{},
	})
	keys := []string{"i", "s", "f", "n", "b", "l", "o", "e", "eo", "missing"}

	targets := map[string]func() interface{}{
		"uintptr":    func() interface{} { return &struct{ V uintptr }{} },
		"complex":    func() interface{} { return &struct{ V complex128 }{} },
		"chan":       func() interface{} { return &struct{ V chan int }{} },
		"func":       func() interface{} { return &struct{ V func() }{} },
		"unsafeptr":  func() interface{} { return &struct{ V unsafe.Pointer }{} },
		"iface":      func() interface{} { return &struct{ V iface }{} },
		"error":      func() interface{} { return &struct{ V error }{} },
		"[]byte":     func() interface{} { return &struct{ V []byte }{} },
		"*[]int":     func() interface{} { return &struct{ V *[]int }{} },
		"*[2]int":    func() interface{} { return &struct{ V *[2]int }{} },
		"[2]int":     func() interface{} { return &struct{ V [2]int }{} },
		"[0]int":     func() interface{} { return &struct{ V [0]int }{} },
		"**strct":    func() interface{} { return &struct{ V **strct }{} },
		"map[s]*m":   func() interface{} { return &struct{ V map[string]*map[string]int }{} },
		"*map":       func() interface{} { return &struct{ V *map[string]interface{} }{} },
		"**map":      func() interface{} { return &struct{ V **map[string]interface{} }{} },
		"*iface{}":   func() interface{} { return &struct{ V *interface{} }{} },
		"regexpval":  func() interface{} { return &struct{ V regexp.Regexp }{} },
		"**regexp":   func() interface{} { return &struct{ V **regexp.Regexp }{} },
		"*dur":       func() interface{} { return &struct{ V *time.Duration }{} },
		"time":       func() interface{} { return &struct{ V time.Time }{} },
		"cfgval":     func() interface{} { return &struct{ V ucfg.Config }{} },
		"***cfg":     func() interface{} { return &struct{ V ***ucfg.Config }{} },
		"[]cfg":      func() interface{} { return &struct{ V []ucfg.Config }{} },
		"[]*cfg":     func() interface{} { return &struct{ V []*ucfg.Config }{} },
		"map[s]cfg":  func() interface{} { return &struct{ V map[string]ucfg.Config }{} },
		"[][]int":    func() interface{} { return &struct{ V [][]int }{} },
		"[][2]int":   func() interface{} { return &struct{ V [][2]int }{} },
		"[2][]int":   func() interface{} { return &struct{ V [2][]int }{} },
		"ifaceWarr":  func() interface{} { return &struct{ V interface{} }{V: [2]int{}} },
		"ifaceW*arr": func() interface{} { return &struct{ V interface{} }{V: &[2]int{}} },
		"ifaceWsl":   func() interface{} { return &struct{ V interface{} }{V: []int{1, 2, 3}} },
		"ifaceW*sl":  func() interface{} { return &struct{ V interface{} }{V: &[]int{1, 2, 3}} },
		"ifaceWmap":  func() interface{} { return &struct{ V interface{} }{V: map[string]int{}} },
		"ifaceWnilm": func() interface{} { return &struct{ V interface{} }{V: map[string]int(nil)} },
		"ifaceWcfg":  func() interface{} { return &struct{ V interface{} }{V: ucfg.New()} },
		"ifaceWcfgv": func() interface{} { return &struct{ V interface{} }{V: *ucfg.New()} },
		"ifaceW*i":   func() interface{} { return &struct{ V interface{} }{V: new(int)} },
		"ifaceWnil*": func() interface{} { return &struct{ V interface{} }{V: (*int)(nil)} },
		"ifaceW**s":  func() interface{} { var p *strct; return &struct{ V interface{} }{V: &p} },
		"ifaceWfn":   func() interface{} { return &struct{ V interface{} }{V: func() {}} },
		"ifaceWch":   func() interface{} { return &struct{ V interface{} }{V: make(chan int)} },
		"ifaceWif":   func() interface{} { var x interface{} = 1; return &struct{ V interface{} }{V: &x} },
		"ifaceWtime": func() interface{} { return &struct{ V interface{} }{V: time.Now()} },
		"ifaceWre":   func() interface{} { return &struct{ V interface{} }{V: regexp.MustCompile("a")} },
		"ifaceWrev":  func() interface{} { return &struct{ V interface{} }{V: *regexp.MustCompile("a")} },
		"ifaceWdur":  func() interface{} { return &struct{ V interface{} }{V: time.Second} },
		"mapWif":     func() interface{} { return &map[string]interface{}{"V": [2]int{}} },
		"mapW*":      func() interface{} { return &map[string]*strct{"V": nil} },
		"f32":        func() interface{} { return &struct{ V float32 }{} },
		"i8":         func() interface{} { return &struct{ V int8 }{} },
	}
	for tn, mkT := range targets {
		for _, k := range keys {
			for _, opt := range [][]ucfg.Option{nil, {ucfg.AppendValues}, {ucfg.PrependValues}, {ucfg.ReplaceValues}} {
				try(fmt.Sprintf("unpack %s <- %s", tn, k), func() {
					var sub map[string]interface{}
					if k != "missing" {
						var tmp map[string]interface{}
						src.Unpack(&tmp)
						sub = map[string]interface{}{"v": tmp[k]}
					} else {
						sub = map[string]interface{}{}
					}
					c := mk(sub)
					_ = c.Unpack(mkT(), opt...)
				})
			}
		}
	}

	// validators on odd kinds
	try("validators", func() {
		type T struct {
			A *int              `validate:"nonzero,positive,min=1,max=2,required"`
			B [0]int            `validate:"nonzero,required"`
			C map[string]int    `validate:"nonzero,min=1"`
			D interface{}       `validate:"nonzero,min=1,max=3,positive"`
			E *[]int            `validate:"nonzero,required"`
			F chan int          `validate:"nonzero,required,positive"`
			G *regexp.Regexp    `validate:"nonzero,required"`
			H time.Duration     `validate:"min=abc"`
			I uint              `validate:"min=-1"`
			J float64           `validate:"max=1e999"`
		}
		for _, m := range []map[string]interface{}{
			{}, {"a": 1, "b": []int{}, "c": map[string]interface{}{"x": 1}, "d": math.NaN(), "e": []int{1}, "g": "x", "h": 1, "i": 1, "j": 1.0},
			{"d": []interface{}{}}, {"d": nil}, {"h": "1s"},
		} {
			var t T
			fmt.Println("  validators:", mk(m).Unpack(&t))
		}
	})

	// getters/setters with odd names
	try("odd names", func() {
		for _, name := range []string{"", ".", "..", "a.", ".a", "0", "-1", "a.-1", "a.0.0.0", "1025", "a.1024", "a.1025", "l.5", "l.-0", "l.+1", "l.0x1", "l.01", "o.a.0", "i.0", "i.1", "s.0.0", "[a.b]", "[", "]"} {
			for _, idx := range []int{-1, 0, 1, -5, math.MaxInt64, math.MinInt64, 1024, 1025} {
				for _, o := range [][]ucfg.Option{{ucfg.PathSep(".")}, nil, {ucfg.PathSep("."), ucfg.EscapePath()}, {ucfg.PathSep("."), ucfg.EnableNumKeys(true)}, {ucfg.PathSep("."), ucfg.MaxIdx(-1)}, {ucfg.PathSep("")}, {ucfg.PathSep("..")}} {
					try(fmt.Sprintf("name %q idx %d", name, idx), func() {
						c := mk(map[string]interface{}{"i": 1, "s": "str", "l": []interface{}{1, 2}, "o": map[string]interface{}{"a": 1}})
						c.Has(name, idx, o...)
						c.Int(name, idx, o...)
						c.String(name, idx, o...)
						c.Child(name, idx, o...)
						c.CountField(name, o...)
						c.SetInt(name, idx, 1, o...)
						c.SetChild(name, idx, ucfg.New(), o...)
						c.Remove(name, idx, o...)
						c.Remove(name, idx, o...)
						var m interface{}
						c.Unpack(&m)
						c.FlattenedKeys(o...)
						c.PathOf(name, ".")
					})
				}
			}
		}
	})

	// field handling options with odd names
	try("fieldopts", func() {
		for _, n := range []string{"", "*", "**", "a.*", "a.**", "**.a", "a..b", "0", "a.0", "0.a", ".", "a.*.b", "l.1", "*.*", "**.**", "-1"} {
			for _, ps := range []string{"", ".", "*"} {
				try("fieldopt "+n, func() {
					a := mk(map[string]interface{}{"a": map[string]interface{}{"b": []int{1}, "": 1}, "l": []interface{}{[]int{1}, map[string]interface{}{"x": []int{1}}}, "": []int{1}, "0": 1})
					b := mk(map[string]interface{}{"a": map[string]interface{}{"b": []int{2}, "": 2}, "l": []interface{}{[]int{2}, map[string]interface{}{"x": []int{2}}}, "": []int{2}, "0": 2})
					a.Merge(b, ucfg.PathSep(ps), ucfg.FieldAppendValues(n), ucfg.FieldReplaceValues(n+".x"), ucfg.FieldPrependValues("**"))
					var m interface{}
					a.Unpack(&m, ucfg.PathSep(ps), ucfg.FieldAppendValues(n), ucfg.FieldReplaceValues(n, n))
				})
			}
		}
	})

	// flag / collector
	try("flag", func() {
		for _, arg := range []string{"", "=", "a", "a=", "=b", "a=[", "a.0=1", "a.b=1", "0=1", "a={", "a=${x}", "a=${", "a=1,2", "a=,", "-1=2", "a=null", "a=[]", "a={}", "a.99999999999=1", "a.1024=1", "a.1025=1"} {
			for _, o := range [][]ucfg.Option{nil, {ucfg.PathSep(".")}, {ucfg.PathSep("."), ucfg.VarExp}} {
				fv := flag.NewFlagKeyValue(nil, true, o...)
				fv.Set(arg)
				fv.Set(arg)
				_ = fv.String()
				_ = fv.Error()
				fv2 := flag.NewFlagKeyValue(nil, false, o...)
				fv2.Set(arg)
				_ = fv2.String()
			}
		}
		ff := flag.NewFlagFiles(nil, nil)
		ff.Set("/nonexistent")
		_ = ff.String()
		ff = flag.NewFlagFiles(nil, map[string]flag.FileLoader{".x": nil})
		ff.Set("a.x")
		_ = ff.String()
		col := cfgutil.NewCollector(nil)
		col.Add(nil, nil)
		try("zero collector", func() {
			var zc cfgutil.Collector
			zc.Add(ucfg.New(), nil)
		})
	})

	try("parse configs", func() {
		ins := []string{"", " ", "[", "]", "{", "}", "'", "\"", "\"\\", "\"\\\"", "[,", "{,", "{:", "{a", "{a:", "{a:,", "{'a", ",", ",,", "a,", "[a,]", "[[", "[{", "{a:[", "'a'b", "\"a\"b", "[a]b", "{a:1}b", "\"\\u\"", "\"\\ud800\"", "'''", "[']", "{\"}", "\x00", "\xff", "[\xff", "{\xff:\xff}"}
		for _, in := range ins {
			for bits := 0; bits < 32; bits++ {
				cfg := parse.Config{Array: bits&1 != 0, Object: bits&2 != 0, StringDQuote: bits&4 != 0, StringSQuote: bits&8 != 0, IgnoreCommas: bits&16 != 0}
				try(fmt.Sprintf("parse %q %+v", in, cfg), func() { parse.ValueWithConfig(in, cfg) })
			}
		}
	})
	fmt.Println("done")
}
