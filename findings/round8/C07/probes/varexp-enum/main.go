package main

import (
	"fmt"
	"runtime"
	"time"

	ucfg "github.com/elastic/go-ucfg"
	"github.com/elastic/go-ucfg/parse"
)

var cur string

func try(name string, f func()) {
	defer func() {
		if r := recover(); r != nil {
			fmt.Printf("PANIC %-40s: %v\n", name, r)
		}
	}()
	f()
}

func gen(alpha []string, n int, f func(string)) {
	var rec func(prefix string, d int)
	rec = func(prefix string, d int) {
		f(prefix)
		if d == n {
			return
		}
		for _, a := range alpha {
			rec(prefix+a, d+1)
		}
	}
	rec("", 0)
}

func main() {
	alpha := []string{"${", "}", ":", "$", "a", ".", "0", "+", "?", "b", "[", ","}
	count := 0
	base := runtime.NumGoroutine()
	gen(alpha, 5, func(s string) {
		count++
		try(fmt.Sprintf("varexp %q", s), func() {
			done := make(chan struct{})
			go func() {
				defer close(done)
				defer func() {
					if r := recover(); r != nil {
						fmt.Printf("PANIC varexp %q: %v\n", s, r)
					}
				}()
				c, err := ucfg.NewFrom(map[string]interface{}{
					"a": s, "b": "${a}", "l": []interface{}{s, "x"}, "0": "zero",
				}, ucfg.VarExp, ucfg.PathSep("."))
				if err != nil {
					return
				}
				for _, o := range [][]ucfg.Option{
					{ucfg.PathSep(".")},
					{ucfg.PathSep("."), ucfg.ResolveNOOP},
					{ucfg.PathSep("."), ucfg.Resolve(func(n string) (string, parse.Config, error) { return "${" + n + "}[", parse.DefaultConfig, nil })},
					{ucfg.PathSep("."), ucfg.Env(c)},
				} {
					c.String("a", -1, o...)
					c.String("b", -1, o...)
					c.Int("l", 0, o...)
					c.Child("a", -1, o...)
					c.CountField("a", o...)
					c.Has("a.b", -1, o...)
					c.Remove("a.b.c", -1, o...)
					var m map[string]interface{}
					c.Unpack(&m, o...)
					var t struct {
						A []int
						B map[string]string
						L [2]time.Duration
					}
					c.Unpack(&t, o...)
					c.FlattenedKeys(o...)
				}
			}()
			select {
			case <-done:
			case <-time.After(10 * time.Second):
				fmt.Printf("HANG varexp %q\n", s)
			}
		})
	})
	time.Sleep(200 * time.Millisecond)
	fmt.Println("inputs:", count, "goroutines before/after:", base, runtime.NumGoroutine())
}
