package main

import (
	"fmt"

	ucfg "github.com/elastic/go-ucfg"
	"github.com/elastic/go-ucfg/diff"
)

func try(name string, f func()) {
	defer func() {
		if r := recover(); r != nil {
			fmt.Printf("PANIC %-40s: %v\n", name, r)
		}
	}()
	f()
	fmt.Printf("ok    %s\n", name)
}

func main() {
	src := ucfg.MustNewFrom(map[string]interface{}{"a": 1, "sub": map[string]interface{}{"b": 2}})

	try("Unpack into zero Config", func() {
		var c ucfg.Config
		err := src.Unpack(&c)
		fmt.Println("  err:", err)
	})
	try("Merge zero Config by value", func() {
		c := ucfg.New()
		err := c.Merge(ucfg.Config{})
		fmt.Println("  err:", err)
	})
	try("Merge ptr to zero Config", func() {
		c := ucfg.New()
		err := c.Merge(&ucfg.Config{})
		fmt.Println("  err:", err)
	})
	try("Merge struct with zero Config field", func() {
		type T struct {
			A int
			C ucfg.Config
		}
		c := ucfg.New()
		err := c.Merge(T{A: 1})
		fmt.Println("  err:", err)
	})
	try("Merge struct with ptr to zero Config field", func() {
		type T struct {
			A int
			C *ucfg.Config
		}
		c := ucfg.New()
		err := c.Merge(T{A: 1, C: &ucfg.Config{}})
		fmt.Println("  err:", err)
	})
	try("Unpack struct field *Config prefilled zero", func() {
		type T struct {
			Sub *ucfg.Config
		}
		t := T{Sub: &ucfg.Config{}}
		err := src.Unpack(&t)
		fmt.Println("  err:", err)
	})
	try("zero Config getters", func() {
		var c ucfg.Config
		_, err := c.Int("a", -1)
		fmt.Println("  err:", err)
	})
	try("zero Config setter", func() {
		var c ucfg.Config
		err := c.SetInt("a", -1, 1)
		fmt.Println("  err:", err)
	})
	try("SetChild zero config", func() {
		c := ucfg.New()
		err := c.SetChild("a", -1, &ucfg.Config{})
		fmt.Println("  err:", err)
		var m map[string]interface{}
		err = c.Unpack(&m)
		fmt.Println("  err:", err)
	})
	try("Env zero config", func() {
		c := ucfg.MustNewFrom(map[string]interface{}{"a": "${b}"}, ucfg.VarExp)
		_, err := c.String("a", -1, ucfg.Env(&ucfg.Config{}))
		fmt.Println("  err:", err)
	})
	try("diff.Type(7).String", func() {
		fmt.Println(diff.Type(7).String())
	})
	try("diff nil configs", func() {
		fmt.Println(diff.CompareConfigs(nil, src))
	})
	try("nil config getters", func() {
		var c *ucfg.Config
		_, err := c.Int("a", -1)
		fmt.Println("  err:", err)
	})
	try("nil config merge", func() {
		var c *ucfg.Config
		err := c.Merge(map[string]interface{}{"a": 1})
		fmt.Println("  err:", err)
	})
}
