package main

import (
	"fmt"

	"github.com/elastic/go-ucfg"
	"github.com/elastic/go-ucfg/flag"
)

func dump(c *ucfg.Config, opts ...ucfg.Option) string {
	var m map[string]interface{}
	if err := c.Unpack(&m, opts...); err != nil {
		return "ERR " + err.Error()
	}
	return fmt.Sprintf("%v", m)
}

func main() {
	opts := []ucfg.Option{ucfg.PathSep(".")}
	for _, first := range []string{"a=1", "a=[1,2]", "a.b=1"} {
		v := flag.NewFlagKeyValue(nil, true, opts...)
		v.Set(first)
		v.Set("a=null")
		has, _ := v.Config().Has("a", -1, opts...)
		fmt.Printf("%-10s then a=null -> %s (Has a: %v)\n", first, dump(v.Config(), opts...), has)
	}
}
