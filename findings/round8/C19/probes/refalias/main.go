package main

import (
	"fmt"

	"github.com/elastic/go-ucfg"
	"github.com/elastic/go-ucfg/flag"
)

func dump(c *ucfg.Config, opts ...ucfg.Option) string {
	var m map[string]interface{}
	if err := c.Unpack(&m, opts...); err != nil {
		return "ERR " + err.Error()
	}
	return fmt.Sprintf("%v", m)
}

func main() {
	opts := []ucfg.Option{ucfg.PathSep("."), ucfg.VarExp}
	v := flag.NewFlagKeyValue(nil, true, opts...)
	for _, a := range []string{"a.x=1", "b=${a}", "b.y=2"} {
		fmt.Println("set", a, v.Set(a))
		fmt.Println("  ", dump(v.Config(), opts...))
	}
	fmt.Println(v.Error())
}
