package main

import (
	"fmt"

	"github.com/elastic/go-ucfg"
	"github.com/elastic/go-ucfg/flag"
)

func dump(c *ucfg.Config, opts ...ucfg.Option) string {
	var m map[string]interface{}
	if err := c.Unpack(&m, opts...); err != nil {
		return "ERR " + err.Error()
	}
	return fmt.Sprintf("%v", m)
}

func run(name string, args []string, opts ...ucfg.Option) {
	v := flag.NewFlagKeyValue(nil, true, opts...)
	for _, a := range args {
		if err := v.Set(a); err != nil {
			fmt.Println(name, "set", a, err)
		}
	}
	fmt.Printf("%-28s %s\n", name, dump(v.Config(), opts...))
}

func main() {
	dot := []string{"a.l=[1,2]", "a.l=[3]"}
	sl := []string{"a/l=[1,2]", "a/l=[3]"}
	top := []string{"l=[1,2]", "l=[3]"}
	run("sep . then field", dot, ucfg.PathSep("."), ucfg.FieldAppendValues("a.l"))
	run("field then sep .", dot, ucfg.FieldAppendValues("a.l"), ucfg.PathSep("."))
	run("sep / field a/l", sl, ucfg.PathSep("/"), ucfg.FieldAppendValues("a/l"))
	run("sep / field a.l", sl, ucfg.PathSep("/"), ucfg.FieldAppendValues("a.l"))
	run("sep / field l (top)", top, ucfg.PathSep("/"), ucfg.FieldAppendValues("l"))
	run("no sep field l (top)", top, ucfg.FieldAppendValues("l"))
	run("sep . field l (top)", top, ucfg.PathSep("."), ucfg.FieldAppendValues("l"))
}
