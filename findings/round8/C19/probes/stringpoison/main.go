package main

import (
	goflag "flag"
	"fmt"

	"github.com/elastic/go-ucfg"
	"github.com/elastic/go-ucfg/flag"
)

func dump(c *ucfg.Config, opts ...ucfg.Option) string {
	var m map[string]interface{}
	if err := c.Unpack(&m, opts...); err != nil {
		return "ERR " + err.Error()
	}
	return fmt.Sprintf("%v", m)
}

func main() {
	opts := []ucfg.Option{ucfg.PathSep("."), ucfg.VarExp}

	// 1. String() between two Set calls: the second argument is dropped.
	v := flag.NewFlagKeyValue(nil, true, opts...)
	fmt.Println("set a=${b}:", v.Set("a=${b}"), "collector error:", v.Error())
	fmt.Println("String():", v.String())
	fmt.Println("collector error after String():", v.Error())
	fmt.Println("set b=1:", v.Set("b=1"))
	fmt.Println("config:", dump(v.Config(), opts...), "error:", v.Error())

	// the same two arguments without the String() call in between
	w := flag.NewFlagKeyValue(nil, true, opts...)
	w.Set("a=${b}")
	w.Set("b=1")
	fmt.Println("without String():", dump(w.Config(), opts...), "error:", w.Error())

	// 2. The standard flag package calls String() when the flag is registered
	// (to record DefValue). Defaults that refer to a value the command line is
	// meant to supply poison the collector before the first argument is seen;
	// every -D is then dropped and Parse reports success.
	def, _ := ucfg.NewFrom(map[string]interface{}{"data": "${home}/data"}, opts...)
	fs := goflag.NewFlagSet("t", goflag.ContinueOnError)
	cfg := flag.ConfigVar(fs, def, "D", "overwrite", opts...)
	err := fs.Parse([]string{"-D", "home=/srv"})
	fmt.Println("Parse:", err, "config:", dump(cfg, opts...))
	has, _ := cfg.Has("home", -1, opts...)
	fmt.Println("home present:", has)
}
