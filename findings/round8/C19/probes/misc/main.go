package main

import (
	"fmt"

	"github.com/elastic/go-ucfg"
	"github.com/elastic/go-ucfg/flag"
)

func dump(c *ucfg.Config, opts ...ucfg.Option) string {
	var m map[string]interface{}
	if err := c.Unpack(&m, opts...); err != nil {
		return "ERR " + err.Error()
	}
	return fmt.Sprintf("%v", m)
}

func run(opts []ucfg.Option, args ...string) {
	v := flag.NewFlagKeyValue(nil, true, opts...)
	for _, a := range args {
		err := v.Set(a)
		fmt.Printf("  %-14q set=%v  cfg=%s str=%s\n", a, err, dump(v.Config(), opts...), v.String())
	}
	fmt.Println("  err:", v.Error())
}

func main() {
	p := []ucfg.Option{ucfg.PathSep(".")}
	fmt.Println("1"); run(p, "a.b=1", "a=null", "a={}", "a=[]")
	fmt.Println("2"); run(p, "a.0=1", "a.b=2", "a=3", "a.b=4")
	fmt.Println("3"); run(p, "0=x", "1.a=y", "b=1")
	fmt.Println("4"); run(p, "", "=x", "a.=1", ".a=2")
	fmt.Println("5"); run(p, "a=[1", "b=2", "c")
	fmt.Println("6"); run(p, "a=1", "a= ", "a=")

	// file flag aliasing
	src, _ := ucfg.NewFrom(map[string]interface{}{"a": map[string]interface{}{"b": 1}, "l": []int{1, 2}})
	ld := func(string, ...ucfg.Option) (*ucfg.Config, error) { return src, nil }
	f := flag.NewFlagFiles(nil, map[string]flag.FileLoader{"": ld}, p...)
	f.Set("x")
	src.SetInt("a.b", -1, 7, p...)
	src.SetInt("l", 0, 9)
	fmt.Println("7", dump(f.Config()), dump(src))
	f.Config().SetInt("a.b", -1, 5, p...)
	fmt.Println("7b", dump(f.Config()), dump(src))
}
