package main

import (
	"fmt"

	"github.com/elastic/go-ucfg"
	"github.com/elastic/go-ucfg/flag"
)

func main() {
	opts := []ucfg.Option{ucfg.PathSep(".")}
	v := flag.NewFlagKeyValue(nil, true, opts...)
	fmt.Println("set a=NaN:", v.Set("a=NaN"), "error:", v.Error())
	fmt.Println("String():", v.String())
	fmt.Println("error after String():", v.Error())
	fmt.Println("set b=1:", v.Set("b=1"))
	has, _ := v.Config().Has("b", -1, opts...)
	fmt.Println("b present:", has)
}
