package main

import (
	"fmt"
	"math/rand"
	"reflect"
	"strings"

	"github.com/elastic/go-ucfg"
	"github.com/elastic/go-ucfg/flag"
	"github.com/elastic/go-ucfg/parse"
)

func dump(c *ucfg.Config, opts ...ucfg.Option) (res string) {
	defer func() {
		if r := recover(); r != nil {
			res = fmt.Sprintf("PANIC %v", r)
		}
	}()
	var m map[string]interface{}
	if err := c.Unpack(&m, opts...); err != nil {
		return "ERR " + err.Error()
	}
	var a []interface{}
	c.Unpack(&a, opts...)
	return fmt.Sprintf("%v|%v", m, a)
}

// reference: sequential merges
type ref struct {
	cfg  *ucfg.Config
	err  error
	opts []ucfg.Option
}

func (r *ref) set(arg string, autoBool bool) {
	if r.err != nil {
		return
	}
	var key string
	var val interface{}
	i := strings.Index(arg, "=")
	if i < 0 {
		if !autoBool {
			r.err = fmt.Errorf("empty")
			return
		}
		key, val = arg, true
	} else {
		key = arg[:i]
		if arg[i+1:] == "" {
			return
		}
		v, err := parse.Value(arg[i+1:])
		if err != nil {
			r.err = err
			return
		}
		val = v
	}
	c := ucfg.New()
	if err := c.Merge(map[string]interface{}{key: val}, r.opts...); err != nil {
		r.err = err
		return
	}
	if err := r.cfg.Merge(c, r.opts...); err != nil {
		r.err = err
	}
}

var keys = []string{"a", "b", "a.b", "a.c", "a.0", "a.1", "a.b.c", "a.0.x", "a.2", "0", "1", "0.a", "", "a.", ".a", "a..b", "a.-1", "a.5000", "a.01", "b.a", "a.b.0", "x y", "a.*", "**"}
var vals = []string{"1", "-1", "x", "true", "null", "", " ", "[1,2]", "[]", "{}", "{b: 1}", "{b.c: 2}", "[{x:1},{y:2}]", "1,2,3", "\"q\"", "'s'", "[1", "{a", "\"", "${a}", "${b}", "${a.b}", "${x:def}", "${a.0}", "3.5", "0x10", "[[1],[2]]", "[null]", "{0: z}", "${", "$${a}"}

var optsets = map[string][]ucfg.Option{
	"plain":     {ucfg.PathSep(".")},
	"nosep":     {},
	"varexp":    {ucfg.PathSep("."), ucfg.VarExp},
	"replace":   {ucfg.PathSep("."), ucfg.ReplaceValues},
	"arrrepl":   {ucfg.PathSep("."), ucfg.ReplaceArrValues},
	"append":    {ucfg.PathSep("."), ucfg.AppendValues, ucfg.VarExp},
	"prepend":   {ucfg.PathSep("."), ucfg.PrependValues},
	"fieldrepl": {ucfg.PathSep("."), ucfg.FieldReplaceValues("a"), ucfg.VarExp},
	"fieldapp":  {ucfg.PathSep("."), ucfg.FieldAppendValues("a.b"), ucfg.FieldPrependValues("**.c")},
	"numkeys":   {ucfg.PathSep("."), ucfg.EnableNumKeys(true), ucfg.VarExp},
	"maxidx":    {ucfg.PathSep("."), ucfg.MaxIdx(1)},
	"escape":    {ucfg.PathSep("."), ucfg.EscapePath()},
	"noop":      {ucfg.PathSep("."), ucfg.VarExp, ucfg.ResolveNOOP},
}

func main() {
	rng := rand.New(rand.NewSource(1))
	names := []string{}
	for n := range optsets {
		names = append(names, n)
	}
	// sort
	for i := range names {
		for j := i + 1; j < len(names); j++ {
			if names[j] < names[i] {
				names[i], names[j] = names[j], names[i]
			}
		}
	}
	bad := 0
	for iter := 0; iter < 60000 && bad < 15; iter++ {
		on := names[rng.Intn(len(names))]
		opts := optsets[on]
		autoBool := rng.Intn(4) != 0
		n := 1 + rng.Intn(5)
		var args []string
		for i := 0; i < n; i++ {
			k := keys[rng.Intn(len(keys))]
			if rng.Intn(8) == 0 {
				args = append(args, k)
			} else {
				args = append(args, k+"="+vals[rng.Intn(len(vals))])
			}
		}
		func() {
			defer func() {
				if r := recover(); r != nil {
					bad++
					fmt.Printf("PANIC opts=%s auto=%v args=%q: %v\n", on, autoBool, args, r)
				}
			}()
			fv := flag.NewFlagKeyValue(nil, autoBool, opts...)
			rf := &ref{cfg: ucfg.New(), opts: opts}
			var firstErr error
			for _, a := range args {
				before := dump(fv.Config(), opts...)
				hadErr := fv.Error() != nil
				err := fv.Set(a)
				rf.set(a, autoBool)
				if firstErr == nil && fv.Error() != nil {
					firstErr = fv.Error()
				}
				if firstErr != nil && fv.Error() != firstErr {
					bad++
					fmt.Printf("STICKY opts=%s args=%q\n", on, args)
				}
				if hadErr && dump(fv.Config(), opts...) != before {
					bad++
					fmt.Printf("CHANGED-AFTER-ERR opts=%s args=%q\n", on, args)
				}
				if !hadErr && fv.Error() != nil && dump(fv.Config(), opts...) != before {
					bad++
					fmt.Printf("CHANGED-BY-FAILING-ARG opts=%s args=%q at %q\n   before %s\n   after  %s\n   err %v\n", on, args, a, before, dump(fv.Config(), opts...), fv.Error())
				}
				if !hadErr && (err != nil) != (fv.Error() != nil) {
					bad++
					fmt.Printf("REPORT-MISMATCH opts=%s args=%q at %q: set=%v coll=%v\n", on, args, a, err, fv.Error())
				}
			}
			d1, d2 := dump(fv.Config(), opts...), dump(rf.cfg, opts...)
			if d1 != d2 || (fv.Error() == nil) != (rf.err == nil) {
				bad++
				fmt.Printf("DIFF opts=%s auto=%v args=%q\n  flag: %s (%v)\n  ref:  %s (%v)\n", on, autoBool, args, d1, fv.Error(), d2, rf.err)
			}
			_ = reflect.DeepEqual
		}()
	}
	fmt.Println("done, bad =", bad)
}
