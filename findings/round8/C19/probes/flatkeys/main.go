package main

import (
	"fmt"

	"github.com/elastic/go-ucfg"
	"github.com/elastic/go-ucfg/flag"
)

func main() {
	opts := []ucfg.Option{ucfg.PathSep("."), ucfg.VarExp, ucfg.ResolveNOOP}
	fv := flag.NewFlagKeyValue(nil, true, opts...)
	for _, a := range []string{"b.a=${a.b}", "a.b=[]", "a.b.0=${b}"} {
		fmt.Println(a, fv.Set(a))
	}
	seen := map[string]int{}
	for i := 0; i < 200; i++ {
		seen[fmt.Sprint(fv.Config().FlattenedKeys(opts...))]++
	}
	fmt.Println(seen)
	var m map[string]interface{}
	fmt.Println(fv.Config().Unpack(&m, opts...), m)
}
