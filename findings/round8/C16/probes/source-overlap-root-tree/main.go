package main

import (
	"encoding/json"
	"fmt"

	ucfg "github.com/elastic/go-ucfg"
)

type M = map[string]interface{}
type L = []interface{}

var sep = ucfg.PathSep(".")

func merged(a, b interface{}, opts ...ucfg.Option) string {
	c := ucfg.New()
	if err := c.Merge(a, opts...); err != nil {
		return "ERR1 " + err.Error()
	}
	if b != nil {
		if err := c.Merge(b, opts...); err != nil {
			return "ERR2 " + err.Error()
		}
	}
	m := M{}
	if err := c.Unpack(&m); err != nil {
		return "ERRU " + err.Error()
	}
	s, _ := json.Marshal(m)
	return string(s)
}

func show(label, got, want string) {
	verdict := "ok"
	if got != want {
		verdict = "VIOLATION"
	}
	fmt.Printf("%-9s %s\n   got  %s\n   want %s\n", verdict, label, got, want)
}

func main() {
	// ONE source whose keys overlap after path expansion: "x.q" twice.
	src := M{"x": M{"q": M{"l": L{1, 2}}}, "x.q": M{"l": L{3}}}
	base := merged(src, nil, sep)
	fmt.Println("no field option:", base)
	show("FieldAppendValues(l) names the top-level l only, but changes x.q.l",
		merged(src, nil, sep, ucfg.FieldAppendValues("l")), base)
	show("FieldAppendValues(x.q.l) names x.q.l, but has no effect",
		merged(src, nil, sep, ucfg.FieldAppendValues("x.q.l")), `{"x":{"q":{"l":[1,2,3]}}}`)
	src2 := M{"x": M{"q": M{"m": M{"a": 1}}}, "x.q": M{"m": M{"b": 1}}}
	show("FieldReplaceValues(m) names the top-level m only, but replaces x.q.m",
		merged(src2, nil, sep, ucfg.FieldReplaceValues("m")), merged(src2, nil, sep))
}
