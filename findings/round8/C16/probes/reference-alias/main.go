package main

import (
	"encoding/json"
	"fmt"

	ucfg "github.com/elastic/go-ucfg"
)

type M = map[string]interface{}
type L = []interface{}

var sep = ucfg.PathSep(".")

func merged(a, b interface{}, opts ...ucfg.Option) string {
	c := ucfg.New()
	if err := c.Merge(a, opts...); err != nil {
		return "ERR1 " + err.Error()
	}
	if b != nil {
		if err := c.Merge(b, opts...); err != nil {
			return "ERR2 " + err.Error()
		}
	}
	m := M{}
	if err := c.Unpack(&m); err != nil {
		return "ERRU " + err.Error()
	}
	s, _ := json.Marshal(m)
	return string(s)
}

func show(label, got, want string) {
	verdict := "ok"
	if got != want {
		verdict = "VIOLATION"
	}
	fmt.Printf("%-9s %s\n   got  %s\n   want %s\n", verdict, label, got, want)
}

func main() {
	for _, withField := range []bool{false, true} {
		c := ucfg.New()
		opts := []ucfg.Option{sep, ucfg.VarExp}
		if withField {
			opts = append(opts, ucfg.FieldAppendValues("a.l"))
		}
		if err := c.Merge(M{"base": M{"l": L{1, 2}}, "a": "${base}"}, opts...); err != nil {
			panic(err)
		}
		if err := c.Merge(M{"a": M{"l": L{3}}}, opts...); err != nil {
			panic(err)
		}
		m := M{}
		if err := c.Unpack(&m, opts...); err != nil {
			panic(err)
		}
		s, _ := json.Marshal(m)
		fmt.Printf("field option=%v: %s   (base.l was [1,2] and is outside a.l)\n", withField, s)
	}
}
