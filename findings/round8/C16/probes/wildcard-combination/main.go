package main

import (
	"encoding/json"
	"fmt"

	ucfg "github.com/elastic/go-ucfg"
)

type M = map[string]interface{}
type L = []interface{}

var sep = ucfg.PathSep(".")

func merged(a, b interface{}, opts ...ucfg.Option) string {
	c := ucfg.New()
	if err := c.Merge(a, opts...); err != nil {
		return "ERR1 " + err.Error()
	}
	if b != nil {
		if err := c.Merge(b, opts...); err != nil {
			return "ERR2 " + err.Error()
		}
	}
	m := M{}
	if err := c.Unpack(&m); err != nil {
		return "ERRU " + err.Error()
	}
	s, _ := json.Marshal(m)
	return string(s)
}

func show(label, got, want string) {
	verdict := "ok"
	if got != want {
		verdict = "VIOLATION"
	}
	fmt.Printf("%-9s %s\n   got  %s\n   want %s\n", verdict, label, got, want)
}

func main() {
	A := M{"a": M{"b": M{"m": M{"x": 1}, "l": L{1, 2}}}, "l": L{1, 2}}
	B := M{"a": M{"b": M{"m": M{"y": 1}, "l": L{3}}}, "l": L{3}}
	show("a.**.m alone replaces a.b.m",
		merged(A, B, sep, ucfg.FieldReplaceValues("a.**.m")),
		`{"a":{"b":{"l":[3,2],"m":{"y":1}}},"l":[3,2]}`)
	show("a.**.m together with **.l: a.b.m is no longer replaced",
		merged(A, B, sep, ucfg.FieldAppendValues("**.l"), ucfg.FieldReplaceValues("a.**.m")),
		`{"a":{"b":{"l":[1,2,3],"m":{"y":1}}},"l":[1,2,3]}`)
	show("**.b.l (two names after the wildcard) never matches a.b.l",
		merged(A, B, sep, ucfg.FieldAppendValues("**.b.l")),
		`{"a":{"b":{"l":[1,2,3],"m":{"x":1,"y":1}}},"l":[3,2]}`)
}
