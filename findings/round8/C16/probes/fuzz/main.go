package main

import (
	"encoding/json"
	"fmt"
	"math/rand"
	"strconv"
	"strings"

	ucfg "github.com/elastic/go-ucfg"
)

type M = map[string]interface{}
type L = []interface{}

var keys = []string{"a", "b", "c"}

func gen(r *rand.Rand, depth int) interface{} {
	n := r.Intn(10)
	if depth == 0 || n < 3 {
		return r.Intn(9) + 1
	}
	if n < 7 {
		m := M{}
		for _, k := range keys {
			if r.Intn(3) > 0 {
				m[k] = gen(r, depth-1)
			}
		}
		return m
	}
	l := L{}
	for i := r.Intn(3) + 1; i > 0; i-- { // non-empty
		l = append(l, gen(r, depth-1))
	}
	return l
}

func genTop(r *rand.Rand) M {
	for {
		if m, ok := gen(r, 4).(M); ok && len(m) > 0 {
			return m
		}
	}
}

func paths(v interface{}, prefix []string, out *[][]string) {
	if len(prefix) > 0 {
		*out = append(*out, append([]string{}, prefix...))
	}
	switch x := v.(type) {
	case M:
		for k, s := range x {
			paths(s, append(prefix, k), out)
		}
	case L:
		for i, s := range x {
			paths(s, append(prefix, strconv.Itoa(i)), out)
		}
	}
}

func get(v interface{}, p []string) (interface{}, bool) {
	for _, k := range p {
		switch x := v.(type) {
		case M:
			s, ok := x[k]
			if !ok {
				return nil, false
			}
			v = s
		case L:
			i, err := strconv.Atoi(k)
			if err != nil || i >= len(x) {
				return nil, false
			}
			v = x[i]
		default:
			return nil, false
		}
	}
	return v, true
}

func set(v interface{}, p []string, nv interface{}) {
	for i, k := range p {
		last := i == len(p)-1
		switch x := v.(type) {
		case M:
			if last {
				x[k] = nv
				return
			}
			v = x[k]
		case L:
			j, _ := strconv.Atoi(k)
			if last {
				x[j] = nv
				return
			}
			v = x[j]
		}
	}
}

func mergeTo(a, b interface{}, opts ...ucfg.Option) (M, error) {
	c := ucfg.New()
	if err := c.Merge(a, opts...); err != nil {
		return nil, err
	}
	if err := c.Merge(b, opts...); err != nil {
		return nil, err
	}
	m := M{}
	if err := c.Unpack(&m); err != nil {
		return nil, err
	}
	// normalise through json
	s, _ := json.Marshal(m)
	var o M
	json.Unmarshal(s, &o)
	return o, nil
}

func isPrim(v interface{}) bool {
	switch v.(type) {
	case M, L:
		return false
	}
	return true
}

func subMerge(sa, sb interface{}, opts ...ucfg.Option) (interface{}, bool) {
	if isPrim(sa) || isPrim(sb) {
		return sb, true
	}
	c := ucfg.New()
	if err := c.Merge(sa, opts...); err != nil {
		return nil, false
	}
	if err := c.Merge(sb, opts...); err != nil {
		return nil, false
	}
	w := ucfg.New()
	if err := w.SetChild("w", -1, c); err != nil {
		return nil, false
	}
	m := M{}
	if err := w.Unpack(&m); err != nil {
		return nil, false
	}
	s, _ := json.Marshal(m)
	var o M
	json.Unmarshal(s, &o)
	return o["w"], true
}

func js(v interface{}) string { s, _ := json.Marshal(v); return string(s) }

func main() {
	r := rand.New(rand.NewSource(1))
	sep := ucfg.PathSep(".")
	globals := map[string]ucfg.Option{"default": func() ucfg.Option { return ucfg.PathSep(".") }(), "append": ucfg.AppendValues, "prepend": ucfg.PrependValues, "replace": ucfg.ReplaceValues}
	gnames := []string{"default", "append", "prepend"}
	type fp struct {
		name string
		f    func(...string) ucfg.Option
		g    ucfg.Option
	}
	fields := []fp{
		{"merge", ucfg.FieldMergeValues, sep},
		{"replace", ucfg.FieldReplaceValues, ucfg.ReplaceValues},
		{"append", ucfg.FieldAppendValues, ucfg.AppendValues},
		{"prepend", ucfg.FieldPrependValues, ucfg.PrependValues},
	}
	bad := map[string]int{}
	shown := map[string]int{}
	for it := 0; it < 30000; it++ {
		A, B := genTop(r), genTop(r)
		var ps [][]string
		paths(A, nil, &ps)
		paths(B, nil, &ps)
		if len(ps) == 0 {
			continue
		}
		p := ps[r.Intn(len(ps))]
		if r.Intn(2) == 0 {
			p = nil
			for i := r.Intn(3) + 1; i > 0; i-- {
				p = append(p, keys[r.Intn(3)])
			}
		}
		gn := gnames[r.Intn(len(gnames))]
		f := fields[r.Intn(len(fields))]
		hasIdx := false
		for _, k := range p {
			if _, err := strconv.Atoi(k); err == nil {
				hasIdx = true
			}
		}
		if hasIdx && gn != "default" {
			continue
		}
		path := strings.Join(p, ".")
		actual, err := mergeTo(A, B, sep, globals[gn], f.f(path))
		if err != nil {
			fmt.Println("ERR", err, js(A), js(B), gn, f.name, path)
			continue
		}
		exp, err := mergeTo(A, B, sep, globals[gn])
		if err != nil {
			continue
		}
		sa, oka := get(A, p)
		sb, okb := get(B, p)
		// is path still reachable in both: for replace-global, old is dropped unless path top... skip when parent not merged
		if oka && okb {
			if _, ok := get(exp, p); ok {
				if !isPrim(sa) && !isPrim(sb) {
					sub, ok := subMerge(sa, sb, sep, f.g)
					if !ok {
						continue
					}
					set(exp, p, sub)
				}
			}
		}
		if js(actual) != js(exp) {
			cls := gn + "/" + f.name
			bad[cls]++
			if shown[cls] < 2 {
				shown[cls]++
				fmt.Printf("MISMATCH %s path=%s\n A=%s\n B=%s\n actual=%s\n expect=%s\n", cls, path, js(A), js(B), js(actual), js(exp))
			}
		}
	}
	fmt.Println(bad)
}
