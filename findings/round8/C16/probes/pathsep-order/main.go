package main

import (
	"encoding/json"
	"fmt"

	ucfg "github.com/elastic/go-ucfg"
)

type M = map[string]interface{}
type L = []interface{}

var sep = ucfg.PathSep(".")

func merged(a, b interface{}, opts ...ucfg.Option) string {
	c := ucfg.New()
	if err := c.Merge(a, opts...); err != nil {
		return "ERR1 " + err.Error()
	}
	if b != nil {
		if err := c.Merge(b, opts...); err != nil {
			return "ERR2 " + err.Error()
		}
	}
	m := M{}
	if err := c.Unpack(&m); err != nil {
		return "ERRU " + err.Error()
	}
	s, _ := json.Marshal(m)
	return string(s)
}

func show(label, got, want string) {
	verdict := "ok"
	if got != want {
		verdict = "VIOLATION"
	}
	fmt.Printf("%-9s %s\n   got  %s\n   want %s\n", verdict, label, got, want)
}

func main() {
	A := M{"a": M{"x": 1, "l": L{1, 2}}}
	B := M{"a": M{"y": 2, "l": L{3}}}
	want := `{"a":{"l":[1,2,3],"x":1,"y":2}}`
	show("PathSep before FieldAppendValues(a.l)", merged(A, B, sep, ucfg.FieldAppendValues("a.l")), want)
	show("FieldAppendValues(a.l) before PathSep", merged(A, B, ucfg.FieldAppendValues("a.l"), sep), want)
	show("PathSep(/) + FieldAppendValues(a/l)", merged(A, B, ucfg.PathSep("/"), ucfg.FieldAppendValues("a/l")), want)
	show("PathSep(/) + FieldAppendValues(a.l) (documented dot notation)", merged(A, B, ucfg.PathSep("/"), ucfg.FieldAppendValues("a.l")), want)
	show("no PathSep, single name FieldReplaceValues(a)", merged(A, B, ucfg.FieldReplaceValues("a")), `{"a":{"l":[3],"y":2}}`)
}
