package main

import (
	"encoding/json"
	"fmt"

	ucfg "github.com/elastic/go-ucfg"
)

type M = map[string]interface{}
type L = []interface{}

var sep = ucfg.PathSep(".")

func merged(a, b interface{}, opts ...ucfg.Option) string {
	c := ucfg.New()
	if err := c.Merge(a, opts...); err != nil {
		return "ERR1 " + err.Error()
	}
	if b != nil {
		if err := c.Merge(b, opts...); err != nil {
			return "ERR2 " + err.Error()
		}
	}
	m := M{}
	if err := c.Unpack(&m); err != nil {
		return "ERRU " + err.Error()
	}
	s, _ := json.Marshal(m)
	return string(s)
}

func show(label, got, want string) {
	verdict := "ok"
	if got != want {
		verdict = "VIOLATION"
	}
	fmt.Printf("%-9s %s\n   got  %s\n   want %s\n", verdict, label, got, want)
}

func main() {
	// FieldReplaceValues("p.0") must only touch p.0; p.1.0 merely ends in the same index
	A := M{"p": L{L{M{"x": 1}, M{"x": 1}}, L{M{"x": 1}, M{"x": 1}}}}
	B := M{"p": L{L{M{"y": 2}, M{"y": 2}}, L{M{"y": 2}, M{"y": 2}}}}
	show("FieldReplaceValues(p.0) leaks into p.1.0",
		merged(A, B, sep, ucfg.FieldReplaceValues("p.0")),
		`{"p":[[{"y":2},{"y":2}],[{"x":1,"y":2},{"x":1,"y":2}]]}`)
	// a name below a list: "p.q" is no address of p.0.q
	A = M{"p": L{M{"q": M{"x": 1}}}}
	B = M{"p": L{M{"q": M{"y": 1}}}}
	show("FieldReplaceValues(p.q) applies to p.0.q",
		merged(A, B, sep, ucfg.FieldReplaceValues("p.q")),
		merged(A, B, sep))
	// ... but not any more once some unrelated ** option is present
	show("same, plus unrelated FieldAppendValues(**.zzz): now p.0.q is merged",
		merged(A, B, sep, ucfg.FieldReplaceValues("p.q"), ucfg.FieldAppendValues("**.zzz")),
		merged(A, B, sep))
}
