// Probe: Unpack into / Merge into a zero-value ucfg.Config, and `,inline` of a *Config in Merge.
package main

import (
	"fmt"

	ucfg "github.com/elastic/go-ucfg"
)

func try(name string, f func() error) {
	defer func() {
		if r := recover(); r != nil {
			fmt.Println(name, "PANIC:", r)
		}
	}()
	fmt.Println(name, "err:", f())
}

func main() {
	c := ucfg.MustNewFrom(map[string]interface{}{"a": 1})
	try("unpack into zero Config", func() error { var into ucfg.Config; return c.Unpack(&into) })
	try("merge into zero Config", func() error { var into ucfg.Config; return into.Merge(c) })
	try("unpack into struct with Config-by-value field", func() error {
		var t struct {
			A ucfg.Config `config:"a"`
		}
		cc := ucfg.MustNewFrom(map[string]interface{}{"a": map[string]interface{}{"x": 1}})
		return cc.Unpack(&t)
	})
	type S struct {
		C *ucfg.Config `config:",inline"`
	}
	d := ucfg.New()
	try("merge struct with inline *Config", func() error { return d.Merge(S{c}) })
	fmt.Println("keys after inline merge (documented: inline supports *Config):", d.FlattenedKeys())
}
